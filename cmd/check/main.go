// Command check decides one property of /repo statically: bin/check Cnn --tier quick|thorough [--replay file].
package main

import (
	"encoding/json"
	"fmt"
	"os"
	"os/exec"
	"path/filepath"
	"runtime/debug"
	"sort"
	"strconv"
	"strings"
	"time"

	"verif/internal/check"
	"verif/internal/load"
	"verif/internal/rules"
)

func main() {
	if len(os.Args) < 2 {
		ids := make([]string, 0)
		for id := range rules.Registry {
			ids = append(ids, id)
		}
		sort.Strings(ids)
		fmt.Println("usage: check <property> [--tier quick|thorough] [--replay file]; properties:", ids)
		os.Exit(2)
	}
	id := os.Args[1]
	tier := os.Getenv("VERIF_TIER")
	replay := ""
	for i := 2; i < len(os.Args); i++ {
		switch os.Args[i] {
		case "--tier":
			if i+1 < len(os.Args) {
				tier = os.Args[i+1]
				i++
			}
		case "--replay":
			if i+1 < len(os.Args) {
				replay = os.Args[i+1]
				i++
			}
		}
	}
	if tier != "thorough" {
		tier = "quick"
	}
	seed, _ := strconv.ParseInt(os.Getenv("VERIF_SEED"), 10, 64)
	f, ok := rules.Registry[id]
	if !ok {
		fmt.Println("CHECK-ERROR unknown property", id)
		os.Exit(2)
	}
	rep := check.New(id, rules.Levels[id], tier, seed)
	// backstop: an analysis that does not terminate in its budget is an undecided property (fail closed), never a hang
	budget := 20 * time.Minute
	if tier == "thorough" {
		budget = 90 * time.Minute
	}
	if v, err := strconv.Atoi(os.Getenv("VERIF_BUDGET_MIN")); err == nil && v > 0 {
		budget = time.Duration(v) * time.Minute
	}
	time.AfterFunc(budget, func() {
		wd := check.New(id, rules.Levels[id], tier, seed)
		wd.Explanation = "the analysis did not finish within its time budget on this tree"
		wd.Unknown("checker", "analysis-timeout", "", fmt.Sprintf("the analysis did not terminate within %s on this tree; the property could not be established", budget))
		os.Exit(wd.Finish())
	})
	code := func() (code int) {
		defer func() {
			if r := recover(); r != nil {
				if ce, ok := r.(rules.CheckError); ok {
					fmt.Println("CHECK-ERROR", ce.Msg)
					code = 2
				} else {
					// the analysis itself failed on this tree: fail closed (the property could not be established)
					stack := string(debug.Stack())
					fmt.Println("checker panic:", r)
					fmt.Println(stack)
					rep.Unknown("checker", "analysis-crash", "", fmt.Sprintf("the analysis crashed on this tree (%v); the property could not be established", r))
					code = -1
				}
			}
		}()
		ctx := rules.NewCtx(rep, tier)
		f(ctx)
		// the property also depends on the layers below it: run their rules too (same loaded program), so that a
		// defect in a lower layer that breaks this property is reported by this property's check as well
		expl, asm := rep.Explanation, rep.Assumptions
		var ran []string
		if os.Getenv("VERIF_NO_DEPS") == "" && len(rules.DepsClosure(id)) > 0 {
			// a lower-layer obligation belongs in this report iff it is about a function this property's code can
			// reach (or about no single function: constants, tables, type-level rules)
			// (in every build configuration the property's own rules loaded: the portable and the assembly builds
			// reach different routines)
			ctx.Prog(load.AMD64)
			var relvs []*rules.Relevance
			for _, pr := range ctx.Progs() {
				relv := rules.NewRelevance(pr)
				for _, o := range rep.Obligations {
					relv.AddRoot(relv.Subject(o.Pos))
				}
				relv.AddConstructorsOfOperands()
				relvs = append(relvs, relv)
			}
			relevant := func(o check.Obligation) bool {
				for _, r := range relvs {
					if r.Relevant(o) {
						return true
					}
				}
				return false
			}
			own := len(rep.Obligations)
			floors := map[string]int{}
			for k, v := range rep.Floors {
				floors[k] = v
			}
			ctx.AsDep = true
			for _, dep := range rules.DepsClosure(id) {
				if g, ok := rules.Registry[dep]; ok {
					g(ctx)
					ran = append(ran, dep)
				}
			}
			ctx.AsDep = false
			kept := rep.Obligations[:own:own]
			dropped := 0
			for _, o := range rep.Obligations[own:] {
				if relevant(o) {
					kept = append(kept, o)
				} else {
					dropped++
				}
			}
			rep.Obligations = kept
			rep.Floors = floors // the floors of a lower layer are asserted by that layer's own check
			rep.Extra["lower_layer_obligations_not_reachable_from_this_property"] = dropped
			rep.Extra["functions_reachable_from_this_property"] = len(relvs[0].ReachedNames())
		}
		rep.Explanation, rep.Assumptions = expl, asm
		if len(ran) > 0 {
			rep.Explanation += "  The rules of the lower layers this property rests on (" + strings.Join(ran, ", ") + ") are evaluated in the same run; those of their obligations that concern a function reachable from this property's code (resolved call graph) appear under their own rule identifiers."
			rep.Extra["lower_layer_checks_included"] = ran
		}
		return -1
	}()
	if code == 2 {
		os.Exit(2)
	}
	if replay != "" {
		// re-evaluate and print the single obligation named by the replay file
		b, err := os.ReadFile(replay)
		if err != nil {
			fmt.Println("CHECK-ERROR", err)
			os.Exit(2)
		}
		var rf struct {
			Obligation check.Obligation `json:"obligation"`
		}
		_ = json.Unmarshal(b, &rf)
		found := false
		for _, o := range rep.Obligations {
			if o.Key == rf.Obligation.Key {
				found = true
				fmt.Printf("%s [%s] %s: %s\n", o.Key, o.Status, o.Pos, o.Detail)
				if o.Status != check.Discharged {
					fmt.Printf("VIOLATION property=%s replay=%s\n", id, replay)
					os.Exit(1)
				}
			}
		}
		if !found {
			fmt.Println("obligation", rf.Obligation.Key, "no longer exists on the current tree")
		}
		os.Exit(0)
	}
	if tier == "thorough" && os.Getenv("VERIF_NO_SEEDED") == "" && os.Getenv("VERIF_REPO") == "" {
		runSeeded(rep, id)
	}
	os.Exit(rep.Finish())
}

// runSeeded re-runs the quick tier of this check on scratch copies of the current tree with each seeded
// behaviour-breaking change of /verif/seeded that concerns this property applied (outside /repo and /verif,
// removed afterwards).  The outcome tests the checker, not the repository: it is recorded in the evidence
// (mutants_applied / mutants_detected) and never changes the exit status.
func runSeeded(rep *check.Report, id string) {
	dir := filepath.Join(check.VerifDir(), "seeded")
	ents, err := os.ReadDir(dir)
	if err != nil {
		return
	}
	type seed struct {
		Name     string `json:"seed"`
		Breaks   string `json:"breaks"`
		Applied  bool   `json:"applied"`
		Detected bool   `json:"detected"`
		Report   string `json:"first_report,omitempty"`
	}
	var seeds []*seed
	for _, e := range ents {
		if !e.IsDir() {
			continue
		}
		b, err := os.ReadFile(filepath.Join(dir, e.Name(), "meta.json"))
		if err != nil {
			continue
		}
		var m struct {
			Property string   `json:"property"`
			CaughtBy []string `json:"caught_by"`
		}
		if json.Unmarshal(b, &m) != nil {
			continue
		}
		rel := m.Property == id
		for _, c := range m.CaughtBy {
			if c == id {
				rel = true
			}
		}
		if rel {
			seeds = append(seeds, &seed{Name: e.Name(), Breaks: m.Property})
		}
	}
	exe, err := os.Executable()
	if err != nil || len(seeds) == 0 {
		return
	}
	sem := make(chan struct{}, 8)
	done := make(chan struct{})
	for _, s := range seeds {
		s := s
		go func() {
			sem <- struct{}{}
			defer func() { <-sem; done <- struct{}{} }()
			tmp, err := os.MkdirTemp("", "verif-seed-")
			if err != nil {
				return
			}
			defer os.RemoveAll(tmp)
			repo := filepath.Join(tmp, "repo")
			if out, err := exec.Command("rsync", "-a", "--exclude", ".git", load.RepoDir()+"/", repo+"/").CombinedOutput(); err != nil {
				s.Report = "copy failed: " + string(out)
				return
			}
			ap := exec.Command("git", "apply", filepath.Join(dir, s.Name, "patch.diff"))
			ap.Dir = repo
			if ap.Run() != nil {
				s.Report = "patch no longer applies to the current tree"
				return
			}
			s.Applied = true
			vd := filepath.Join(tmp, "verif")
			_ = os.MkdirAll(filepath.Join(vd, "evidence"), 0o755)
			if kf, err := os.ReadFile(filepath.Join(check.VerifDir(), "KNOWN_FINDINGS.txt")); err == nil {
				_ = os.WriteFile(filepath.Join(vd, "KNOWN_FINDINGS.txt"), kf, 0o644)
			}
			cmd := exec.Command(exe, id, "--tier", "quick")
			cmd.Env = append(os.Environ(), "VERIF_REPO="+repo, "VERIF_DIR="+vd)
			out, _ := cmd.CombinedOutput()
			s.Detected = cmd.ProcessState != nil && cmd.ProcessState.ExitCode() == 1
			for _, l := range strings.Split(string(out), "\n") {
				if strings.HasPrefix(l, "  C") || strings.HasPrefix(l, "  checker") {
					if len(l) > 240 {
						l = l[:240]
					}
					s.Report = strings.TrimSpace(l)
					break
				}
			}
		}()
	}
	for range seeds {
		<-done
	}
	applied, detected := 0, 0
	for _, s := range seeds {
		if s.Applied {
			applied++
		}
		if s.Detected {
			detected++
		}
	}
	rep.Extra["mutants_applied"] = applied
	rep.Extra["mutants_detected"] = detected
	rep.Extra["seeded_changes"] = seeds
	fmt.Printf("%s: seeded changes concerning this property: %d applied, %d detected by the quick tier\n", id, applied, detected)
}
