package main

import (
	"fmt"
	"os"
	"time"

	"verif/internal/load"
)

func main() {
	t0 := time.Now()
	p, err := load.Load(load.AMD64, "")
	if err != nil {
		fmt.Println("CHECK-ERROR", err)
		os.Exit(2)
	}
	n := 0
	for _, sp := range p.SSAPkgs {
		_ = sp
		n++
	}
	fmt.Println(len(p.Pkgs), n, time.Since(t0))
}
