// Command check decides one property of /repo statically: bin/check Cnn --tier quick|thorough [--replay file].
package main

import (
	"encoding/json"
	"fmt"
	"os"
	"runtime/debug"
	"sort"
	"strconv"
	"strings"

	"verif/internal/check"
	"verif/internal/rules"
)

func main() {
	if len(os.Args) < 2 {
		ids := make([]string, 0)
		for id := range rules.Registry {
			ids = append(ids, id)
		}
		sort.Strings(ids)
		fmt.Println("usage: check <property> [--tier quick|thorough] [--replay file]; properties:", ids)
		os.Exit(2)
	}
	id := os.Args[1]
	tier := os.Getenv("VERIF_TIER")
	replay := ""
	for i := 2; i < len(os.Args); i++ {
		switch os.Args[i] {
		case "--tier":
			if i+1 < len(os.Args) {
				tier = os.Args[i+1]
				i++
			}
		case "--replay":
			if i+1 < len(os.Args) {
				replay = os.Args[i+1]
				i++
			}
		}
	}
	if tier != "thorough" {
		tier = "quick"
	}
	seed, _ := strconv.ParseInt(os.Getenv("VERIF_SEED"), 10, 64)
	f, ok := rules.Registry[id]
	if !ok {
		fmt.Println("CHECK-ERROR unknown property", id)
		os.Exit(2)
	}
	rep := check.New(id, rules.Levels[id], tier, seed)
	code := func() (code int) {
		defer func() {
			if r := recover(); r != nil {
				if ce, ok := r.(rules.CheckError); ok {
					fmt.Println("CHECK-ERROR", ce.Msg)
					code = 2
				} else {
					// the analysis itself failed on this tree: fail closed (the property could not be established)
					stack := string(debug.Stack())
					fmt.Println("checker panic:", r)
					fmt.Println(stack)
					rep.Unknown("checker", "analysis-crash", "", fmt.Sprintf("the analysis crashed on this tree (%v); the property could not be established", r))
					code = -1
				}
			}
		}()
		ctx := rules.NewCtx(rep, tier)
		f(ctx)
		// the property also depends on the layers below it: run their rules too (same loaded program), so that a
		// defect in a lower layer that breaks this property is reported by this property's check as well
		expl, asm := rep.Explanation, rep.Assumptions
		var ran []string
		if os.Getenv("VERIF_NO_DEPS") == "" {
			for _, dep := range rules.DepsClosure(id) {
				if g, ok := rules.Registry[dep]; ok {
					g(ctx)
					ran = append(ran, dep)
				}
			}
		}
		rep.Explanation, rep.Assumptions = expl, asm
		if len(ran) > 0 {
			rep.Explanation += "  The rules of the lower layers this property rests on (" + strings.Join(ran, ", ") + ") are evaluated in the same run; their obligations appear under their own rule identifiers."
			rep.Extra["lower_layer_checks_included"] = ran
		}
		return -1
	}()
	if code == 2 {
		os.Exit(2)
	}
	if replay != "" {
		// re-evaluate and print the single obligation named by the replay file
		b, err := os.ReadFile(replay)
		if err != nil {
			fmt.Println("CHECK-ERROR", err)
			os.Exit(2)
		}
		var rf struct {
			Obligation check.Obligation `json:"obligation"`
		}
		_ = json.Unmarshal(b, &rf)
		found := false
		for _, o := range rep.Obligations {
			if o.Key == rf.Obligation.Key {
				found = true
				fmt.Printf("%s [%s] %s: %s\n", o.Key, o.Status, o.Pos, o.Detail)
				if o.Status != check.Discharged {
					fmt.Printf("VIOLATION property=%s replay=%s\n", id, replay)
					os.Exit(1)
				}
			}
		}
		if !found {
			fmt.Println("obligation", rf.Obligation.Key, "no longer exists on the current tree")
		}
		os.Exit(0)
	}
	os.Exit(rep.Finish())
}
