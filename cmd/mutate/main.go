// Command mutate enumerates small AST-level mutations of one Go source file (a development aid for testing the
// checks of /verif against changes nobody thought of; it is not part of any registered check).
//
//	mutate -file f.go -list            prints one line per mutation point: <index>\t<line>\t<operator>\t<description>
//	mutate -file f.go -n <index>       prints the mutated file
package main

import (
	"bytes"
	"flag"
	"fmt"
	"go/ast"
	"go/format"
	"go/parser"
	"go/token"
	"os"
	"strconv"
)

type mutation struct {
	pos   token.Pos
	op    string
	desc  string
	apply func()
	undo  func()
}

var binSwap = map[token.Token][]token.Token{
	token.ADD: {token.SUB}, token.SUB: {token.ADD}, token.MUL: {token.ADD},
	token.LSS: {token.LEQ, token.GEQ}, token.LEQ: {token.LSS}, token.GTR: {token.GEQ, token.LEQ}, token.GEQ: {token.GTR},
	token.EQL: {token.NEQ}, token.NEQ: {token.EQL}, token.LAND: {token.LOR}, token.LOR: {token.LAND},
	token.AND: {token.OR}, token.OR: {token.AND, token.XOR}, token.XOR: {token.OR}, token.SHL: {token.SHR}, token.SHR: {token.SHL},
	token.AND_NOT: {token.AND},
}

func terminates(b *ast.BlockStmt) bool {
	if len(b.List) == 0 {
		return false
	}
	switch s := b.List[len(b.List)-1].(type) {
	case *ast.ReturnStmt:
		return true
	case *ast.ExprStmt:
		if c, ok := s.X.(*ast.CallExpr); ok {
			if id, ok := c.Fun.(*ast.Ident); ok && id.Name == "panic" {
				return true
			}
		}
	}
	return false
}

func main() {
	file := flag.String("file", "", "Go source file")
	list := flag.Bool("list", false, "list mutation points")
	n := flag.Int("n", -1, "apply mutation n and print the file")
	flag.Parse()
	fset := token.NewFileSet()
	f, err := parser.ParseFile(fset, *file, nil, parser.ParseComments)
	if err != nil {
		fmt.Fprintln(os.Stderr, err)
		os.Exit(2)
	}
	var muts []mutation
	add := func(pos token.Pos, op, desc string, apply, undo func()) {
		muts = append(muts, mutation{pos, op, desc, apply, undo})
	}
	// statement lists
	var visitList func(list *[]ast.Stmt)
	visitList = func(list *[]ast.Stmt) {
		for i := range *list {
			i := i
			st := (*list)[i]
			del := false
			what := ""
			switch s := st.(type) {
			case *ast.ExprStmt:
				if _, ok := s.X.(*ast.CallExpr); ok {
					del, what = true, "call statement"
				}
			case *ast.AssignStmt:
				if s.Tok != token.DEFINE {
					del, what = true, "assignment"
				}
			case *ast.IncDecStmt:
				del, what = true, "inc/dec"
			case *ast.IfStmt:
				if s.Else == nil && s.Init == nil && terminates(s.Body) {
					del, what = true, "guard (if ... { return/panic })"
				}
			case *ast.DeferStmt:
				del, what = true, "defer"
			}
			if del {
				add(st.Pos(), "delete-stmt", "delete "+what, func() { (*list)[i] = &ast.EmptyStmt{Semicolon: st.Pos(), Implicit: false} }, func() { (*list)[i] = st })
			}
		}
	}
	ast.Inspect(f, func(nd ast.Node) bool {
		switch x := nd.(type) {
		case *ast.BlockStmt:
			visitList(&x.List)
		case *ast.CaseClause:
			visitList(&x.Body)
		case *ast.BinaryExpr:
			old := x.Op
			for _, nw := range binSwap[x.Op] {
				nw := nw
				add(x.OpPos, "binop", fmt.Sprintf("%s -> %s", old, nw), func() { x.Op = nw }, func() { x.Op = old })
			}
		case *ast.BasicLit:
			if x.Kind == token.INT {
				v, err := strconv.ParseUint(x.Value, 0, 64)
				if err == nil {
					old := x.Value
					add(x.Pos(), "const", fmt.Sprintf("%s -> %d", old, v+1), func() { x.Value = strconv.FormatUint(v+1, 10) }, func() { x.Value = old })
					if v > 0 {
						add(x.Pos(), "const", fmt.Sprintf("%s -> %d", old, v-1), func() { x.Value = strconv.FormatUint(v-1, 10) }, func() { x.Value = old })
					}
				}
			}
		case *ast.UnaryExpr:
			if x.Op == token.NOT || x.Op == token.SUB || x.Op == token.XOR {
				old := x.Op
				add(x.OpPos, "unop", fmt.Sprintf("drop unary %s", old), func() { x.Op = token.ADD }, func() { x.Op = old })
			}
		case *ast.IfStmt:
			c := x.Cond
			add(x.Cond.Pos(), "negate-cond", "negate if condition", func() { x.Cond = &ast.UnaryExpr{Op: token.NOT, X: &ast.ParenExpr{X: c}} }, func() { x.Cond = c })
		case *ast.CallExpr:
			for i := 0; i+1 < len(x.Args); i++ {
				i := i
				add(x.Args[i].Pos(), "swap-args", fmt.Sprintf("swap arguments %d and %d", i, i+1), func() { x.Args[i], x.Args[i+1] = x.Args[i+1], x.Args[i] }, func() { x.Args[i], x.Args[i+1] = x.Args[i+1], x.Args[i] })
			}
		case *ast.Ident:
			if x.Name == "true" || x.Name == "false" {
				old := x.Name
				nw := "true"
				if old == "true" {
					nw = "false"
				}
				add(x.Pos(), "bool", old+" -> "+nw, func() { x.Name = nw }, func() { x.Name = old })
			}
		case *ast.ReturnStmt:
			if len(x.Results) == 2 {
				add(x.Pos(), "swap-ret", "swap the two results", func() { x.Results[0], x.Results[1] = x.Results[1], x.Results[0] }, func() { x.Results[0], x.Results[1] = x.Results[1], x.Results[0] })
			}
		}
		return true
	})
	if *list {
		for i, m := range muts {
			fmt.Printf("%d\t%d\t%s\t%s\n", i, fset.Position(m.pos).Line, m.op, m.desc)
		}
		return
	}
	if *n < 0 || *n >= len(muts) {
		fmt.Fprintln(os.Stderr, "no such mutation")
		os.Exit(2)
	}
	muts[*n].apply()
	var buf bytes.Buffer
	if err := format.Node(&buf, fset, f); err != nil {
		fmt.Fprintln(os.Stderr, err)
		os.Exit(2)
	}
	os.Stdout.Write(buf.Bytes())
}
