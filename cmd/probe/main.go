// Command probe is a development aid: abstractly interprets one function and dumps exits, events and failures.
package main

import (
	"fmt"
	"os"
	"strings"

	"verif/internal/absint"
	"verif/internal/load"
	"verif/internal/models"
	"verif/internal/rules"
)

func main() {
	name := os.Args[1]
	layer := "proto"
	if len(os.Args) > 2 {
		layer = os.Args[2]
	}
	prog, err := load.Load(load.AMD64, "")
	if err != nil {
		fmt.Println(err)
		os.Exit(2)
	}
	var set *models.Set
	switch layer {
	case "proto":
		set = models.NewSet().Merge(models.Field()).Merge(models.Helpers()).Merge(models.Scalar()).Merge(models.PointSpec(nil))
	case "field":
		set = models.NewSet().Merge(models.Field()).Merge(models.Helpers()).Merge(models.Scalar())
	}
	r := rules.RunFn(prog, set, name, &rules.RunOpts{Config: func(cfg *absint.Config) { cfg.RecordStores = false }})
	if r.Fn == nil {
		fmt.Println("not found")
		os.Exit(1)
	}
	ex := r.Ex
	fmt.Println("summary:", ex.Summary(), "err:", r.Err)
	for _, f := range ex.Fails {
		fmt.Println("FAIL:", f)
	}
	for i, e := range ex.Returns {
		fmt.Printf("RETURN %d @%s guard: %s\n   results: %s\n", i, rules.PosStr(prog, e.Pos), rules.GuardString(e.Guard), trunc(absint.ValString(e.St.Resolve(e.Results))))
	}
	for i, e := range ex.Panics {
		fmt.Printf("PANIC %d @%s %q guard: %s stack=%v\n", i, rules.PosStr(prog, e.Pos), e.Msg, rules.GuardString(e.Guard), e.Stack)
	}
	for _, e := range ex.Events {
		switch e.Kind {
		case absint.EvUnmodelled:
			a0 := ""
			if len(e.Args) > 0 {
				a0 = trunc(absint.ValString(e.Args[0]))
				if p, ok := e.Args[0].(*absint.Ptr); ok && ex.Returns != nil {
					_ = p
				}
			}
			fmt.Printf("UNMODELLED %s @%s %s arg0=%s\n", e.Callee, rules.PosStr(prog, e.Pos), e.Msg, a0)
		case absint.EvWiden:
			fmt.Printf("WIDEN @%s %s\n", rules.PosStr(prog, e.Pos), e.Msg)
		case absint.EvGlobalStore:
			fmt.Printf("GLOBALSTORE @%s %s\n", rules.PosStr(prog, e.Pos), e.Ptr)
		}
	}
}

func trunc(s string) string {
	s = strings.ReplaceAll(s, "gitlab.com/yawning/secp256k1-voi", "~")
	if len(s) > 1500 {
		return s[:1500] + "..."
	}
	return s
}
