// Package fixture is the positive control of the C20 rules: it is never part of the analysed
// repository; the checker loads it on every run and must flag exactly the marked constructs.
package fixture

import "sync"

var table *[4]int // lazily built, unsynchronised: MUST be flagged (global-write)

var onceTable *[4]int // lazily built under sync.Once: must NOT be flagged
var once sync.Once

var scratch [8]byte // shared scratch buffer: MUST be flagged (global-write)

// T is an object with a cached value.
type T struct {
	v     int
	cache []byte
}

// Lookup builds the table on first use without synchronisation.
func Lookup(i int) int {
	if table == nil {
		t := new([4]int)
		for k := range t {
			t[k] = k * k
		}
		table = t
	}
	return table[i&3]
}

// LookupOnce builds the table on first use under sync.Once.
func LookupOnce(i int) int {
	once.Do(func() {
		t := new([4]int)
		for k := range t {
			t[k] = k * k
		}
		onceTable = t
	})
	return onceTable[i&3]
}

// Encode uses the shared scratch buffer.
func Encode(x byte) byte {
	scratch[0] = x
	return scratch[0] ^ 1
}

// Bytes memoises into the receiver: MUST be flagged (getter writes its receiver).
func (t *T) Bytes() []byte {
	if t.cache == nil {
		t.cache = []byte{byte(t.v)}
	}
	return t.cache
}

// Value only reads: must NOT be flagged.
func (t *T) Value() int { return t.v }

// Spawn starts a goroutine: MUST be flagged (concurrency construct).
func Spawn(f func()) { go f() }

// K is a key-like object with a cached encoding.
type K struct{ enc []byte }

var sharedEnc = []byte{0}

// NewKView keeps the caller's buffer: MUST be flagged (the object does not own its memory).
func NewKView(b []byte) *K { return &K{enc: b[1:]} }

// NewKCopy copies the caller's buffer: must NOT be flagged.
func NewKCopy(b []byte) *K { return &K{enc: append([]byte{}, b...)} }

// Enc hands out the cached slice itself: MUST be flagged.
func (k *K) Enc() []byte { return k.enc }

// EncCopy hands out a copy: must NOT be flagged.
func (k *K) EncCopy() []byte { return append([]byte{}, k.enc...) }

// Shared hands out package-level bytes: MUST be flagged.
func Shared(z bool) []byte {
	if z {
		return sharedEnc
	}
	return []byte{1}
}
