module fixture

go 1.20
