package absint

import (
	"fmt"
	"go/token"
	"go/types"

	"golang.org/x/tools/go/ssa"

	"verif/internal/sym"
)

// Failf records an analysis failure (the run's results are then undecided).
func (ex *Exec) Failf(format string, args ...interface{}) { ex.fail(format, args...) }

// LoadLeaf returns the leaf value stored at p.
func (ex *Exec) LoadLeaf(st *State, p *Ptr) Val {
	c := ex.LoadCell(st, p)
	if c.symIdx != nil {
		return ex.loadSymSel(c, nil)
	}
	if c.Kids != nil || c.Arr != nil {
		ex.fail("LoadLeaf of aggregate at %s", p)
		return sym.Fresh(sym.Any, "aggregate", cellTaint(c))
	}
	return c.V
}

// StoreLeaf stores a leaf value at p.
func (ex *Exec) StoreLeaf(st *State, p *Ptr, v Val, pos token.Pos) {
	ex.noteGlobalStore(p, pos)
	root := st.cellOf(p.Obj)
	if root == nil {
		ex.fail("store to object without content: %s", p)
		return
	}
	st.mem[p.Obj] = ex.storeAt(st, p, 0, root, &Cell{V: v})
	ex.event(Event{Kind: EvStore, Pos: pos, Ptr: p, Val: v})
}

func (ex *Exec) elem0(p *Ptr) *Ptr {
	if p.View {
		return p
	}
	return p.extend(Step{Field: -1, Index: sym.ConstI(0)})
}

// ArrayPtrToSlice is p[:] for a pointer to an array of n elements.
func (ex *Exec) ArrayPtrToSlice(p *Ptr, n int) *SliceVal {
	b := ex.elem0(p)
	return &SliceVal{Base: &Ptr{Obj: b.Obj, Path: b.Path}, Len: sym.ConstI(int64(n)), Cap: sym.ConstI(int64(n))}
}

// SliceToArrayPtr is (*[N]T)(s): a pointer that views the storage of the slice.
func (ex *Exec) SliceToArrayPtr(sv *SliceVal) *Ptr {
	return &Ptr{Obj: sv.Base.Obj, Path: sv.Base.Path, View: true}
}

// ReadArray reads the n bytes of the byte array p points to.
func (ex *Exec) ReadArray(st *State, p *Ptr, n int) *sym.Term {
	return ex.ReadBytes(st, ex.elem0(p), n)
}

// WriteArray writes n bytes of t into the byte array p points to and returns p[:].
func (ex *Exec) WriteArray(st *State, p *Ptr, t *sym.Term, n int) *SliceVal {
	b := ex.elem0(p)
	ex.WriteBytes(st, b, t, n)
	return &SliceVal{Base: &Ptr{Obj: b.Obj, Path: b.Path}, Len: sym.ConstI(int64(n)), Cap: sym.ConstI(int64(n))}
}

// ReadWords reads n integer elements of the array p points to.
func (ex *Exec) ReadWords(st *State, p *Ptr, n int) []*sym.Term {
	b := ex.elem0(p)
	out := make([]*sym.Term, n)
	for i := range out {
		v := st.Resolve(ex.Load(st, ex.indexPtr(b, sym.ConstI(int64(i))), types.Typ[types.Uint64]))
		t, ok := v.(*sym.Term)
		if !ok {
			t = sym.Fresh(sym.Int, "word", TaintOf(v))
		}
		out[i] = t
	}
	return out
}

// WriteWords writes integer elements into the array p points to.
func (ex *Exec) WriteWords(st *State, p *Ptr, ws []*sym.Term) {
	b := ex.elem0(p)
	for i, w := range ws {
		q := ex.indexPtr(b, sym.ConstI(int64(i)))
		ex.noteGlobalStore(q, 0)
		ex.Store(st, q, w, types.Typ[types.Uint64])
	}
}

// NamedType looks up a named type of the loaded program.
func (ex *Exec) NamedType(pkgPath, name string) types.Type {
	p := ex.Cfg.Prog.ByPath[pkgPath]
	if p == nil || p.Types == nil {
		return nil
	}
	o := p.Types.Scope().Lookup(name)
	if o == nil {
		return nil
	}
	return o.Type()
}

// AllocAbs allocates an object of an abstract named type holding value v.
func (ex *Exec) AllocAbs(qualified, pkgPath, name string, v Val) *Ptr {
	t := ex.NamedType(pkgPath, name)
	if t == nil {
		ex.fail("type %s not found", qualified)
		return &Ptr{Obj: ex.newObj(name, nil, Origin{Kind: "local"}, &Cell{V: v})}
	}
	o := ex.newObj(name, t, Origin{Kind: "local"}, &Cell{V: v})
	return &Ptr{Obj: o}
}

// PanicHere records a reachable panic of a modelled callee and ends the path.
func (ex *Exec) PanicHere(c *CallCtx, msg string) {
	ex.recordPanic(c.St, c.Pos, msg)
	panic(deadSignal{})
}

func (ex *Exec) recordPanic(st *State, pos token.Pos, msg string) {
	ex.Panics = append(ex.Panics, Exit{Guard: append([]Lit(nil), st.Guard...), St: st, Pos: pos, Msg: msg, Stack: ex.stackNames()})
	ex.event(Event{Kind: EvPanic, Pos: pos, Msg: msg})
}

// PanicIf records a panic reachable under cond and continues under its negation.
func (ex *Exec) PanicIf(c *CallCtx, cond *sym.Term, msg string) {
	cond = c.St.Simplify(cond)
	if d, ok := c.St.Decided(cond); ok {
		if d {
			ex.PanicHere(c, msg)
		}
		return
	}
	ps := c.St.clone()
	ps.pushLit(cond, true, ex.Position(c.Pos))
	ex.recordPanic(ps, c.Pos, msg)
	c.St.pushLit(cond, false, ex.Position(c.Pos))
}

// Assume adds a literal to the path guard.
func (st *State) Assume(t *sym.Term, val bool, why string) { st.pushLit(t, val, why) }

// Func finds a function or method by its printed name, e.g.
// "(*gitlab.com/x/y.T).M" or "gitlab.com/x/y.F".
func (ex *Exec) Func(name string) *ssa.Function { return FindFunc(ex.Cfg.Prog.SSA, name) }

// FindFunc resolves a printed function name in a program.
func FindFunc(prog *ssa.Program, name string) *ssa.Function {
	funcIndexOnce(prog)
	return funcIndex[prog][name]
}

var funcIndex = map[*ssa.Program]map[string]*ssa.Function{}

func funcIndexOnce(prog *ssa.Program) {
	if _, ok := funcIndex[prog]; ok {
		return
	}
	idx := map[string]*ssa.Function{}
	var add func(f *ssa.Function)
	add = func(f *ssa.Function) {
		if f == nil {
			return
		}
		if _, ok := idx[f.String()]; ok {
			return
		}
		idx[f.String()] = f
		for _, a := range f.AnonFuncs {
			add(a)
		}
	}
	for _, pkg := range prog.AllPackages() {
		for _, m := range pkg.Members {
			switch x := m.(type) {
			case *ssa.Function:
				add(x)
			case *ssa.Type:
				for _, t := range []types.Type{x.Type(), types.NewPointer(x.Type())} {
					ms := prog.MethodSets.MethodSet(t)
					for i := 0; i < ms.Len(); i++ {
						add(prog.MethodValue(ms.At(i)))
					}
				}
			}
		}
	}
	funcIndex[prog] = idx
}

// Summary renders failures for diagnostics.
func (ex *Exec) Summary() string {
	return fmt.Sprintf("%d events, %d fails, %d returns, %d panics, %d steps", len(ex.Events), len(ex.Fails), len(ex.Returns), len(ex.Panics), ex.steps)
}

// Steps returns the number of instructions interpreted.
func (ex *Exec) Steps() int { return ex.steps }

// SymGlobalCell builds fully symbolic content for a package-level variable.
func (ex *Exec) SymGlobalCell(g *ssa.Global, name string) *Cell {
	et := g.Type().Underlying().(*types.Pointer).Elem()
	return ex.SymCell(et, name, Origin{Kind: "global", Root: globalKey(g)}, 0, 0)
}

// LoadElem loads element i of a slice.
func (ex *Exec) LoadElem(st *State, sv *SliceVal, i int64) Val {
	if sv.Base == nil {
		return Nil{}
	}
	et := sv.Base.Obj.Typ
	var t types.Type
	if at, ok := et.(*types.Array); ok {
		t = at.Elem()
	}
	c := ex.LoadCell(st, ex.indexPtr(sv.Base, sym.ConstI(i)))
	if t == nil {
		return c.V
	}
	return ex.CellToValue(c, t)
}

// IsLeaf reports whether p addresses an abstract leaf cell (not an aggregate).
func (ex *Exec) IsLeaf(st *State, p *Ptr) bool {
	c := ex.LoadCell(st, p)
	return c != nil && c.Kids == nil && c.Arr == nil && c.symIdx == nil
}

// EnclosingLeaf returns the pointer to the abstract (leaf) cell that p points into, when p names a component of an
// object kept abstract at this layer (e.g. &s.m of an abstract Scalar); nil otherwise.
func (ex *Exec) EnclosingLeaf(st *State, p *Ptr) *Ptr {
	c := st.cellOf(p.Obj)
	for i, s := range p.Path {
		if c == nil {
			return nil
		}
		if c.Kids == nil && c.Arr == nil && c.symIdx == nil {
			return &Ptr{Obj: p.Obj, Path: append([]Step(nil), p.Path[:i]...)}
		}
		k := s.Field
		if k < 0 {
			idx, ok := s.Index.Int64()
			if !ok {
				return nil
			}
			k = int(idx)
		}
		if c.Kids == nil || k < 0 || k >= len(c.Kids) {
			return nil
		}
		c = c.Kids[k]
	}
	return nil
}

// CallModel invokes the configured intercept of fn (the upper-layer specification) on args.
func (ex *Exec) CallModel(st *State, fn *ssa.Function, args []Val) (out Outcome, err error) {
	ic, ok := ex.Cfg.Intercepts[fn.String()]
	if !ok {
		return Outcome{}, fmt.Errorf("no model for %s", fn)
	}
	defer func() {
		if r := recover(); r != nil {
			if _, ok := r.(deadSignal); ok {
				out = Outcome{}
				return
			}
			panic(r)
		}
	}()
	fr := ex.newFrame(fn, nil, nil)
	ex.topFrame, ex.cur, ex.curState = fr, fr, st
	v, handled := ic(ex, &CallCtx{St: st, Fn: fn, Name: fn.String(), Args: args, Frame: fr, Pos: fn.Pos()})
	if !handled {
		return Outcome{}, fmt.Errorf("model for %s declined", fn)
	}
	return Outcome{Ret: &RetAt{St: st, Results: v}, RetCond: sym.ConstBool(true)}, nil
}

// ByteArrayPtr returns a *[n]byte argument holding the byte string t.
func (ex *Exec) ByteArrayPtr(st *State, t *sym.Term, name string) *Ptr {
	sv := ex.BytesToSlice(st, t, name)
	return &Ptr{Obj: sv.Base.Obj, Path: sv.Base.Path, View: true}
}

// SymBytes makes a byte-string symbol of known length.
func SymBytes(name string, n int, taint uint64) *sym.Term {
	return sym.SymSized(name, n, taint)
}

// ElemPtr returns the address of element i of the array p points to.
func (ex *Exec) ElemPtr(p *Ptr, i int64) *Ptr {
	if p.View {
		return ex.indexPtr(p, sym.ConstI(i))
	}
	return p.extend(Step{Field: -1, Index: sym.ConstI(i)})
}

// FieldPtr returns the address of field f of the struct p points to.
func (ex *Exec) FieldPtr(p *Ptr, f int) *Ptr { return p.extend(Step{Field: f}) }

// PtrToNewObject builds the content of a pointer-typed package-level variable:
// a fresh object (of the pointee type) with the given content.
func (ex *Exec) PtrToNewObject(g *ssa.Global, content *Cell) *Cell {
	pt := g.Type().Underlying().(*types.Pointer).Elem() // type of the variable
	et := pt
	if p, ok := pt.Underlying().(*types.Pointer); ok {
		et = p.Elem()
	}
	if _, isPtr := pt.Underlying().(*types.Pointer); !isPtr {
		// the variable holds the object itself (an array / struct value), not a pointer to it
		return content
	}
	o := ex.newObj(g.Name()+"*", et, Origin{Kind: "global", Root: globalKey(g)}, content)
	return &Cell{V: &Ptr{Obj: o}}
}

// CallClosure invokes a function value from a model (e.g. a builder continuation).
func (ex *Exec) CallClosure(c *CallCtx, cl *Closure, args []Val) Val {
	return ex.callFn(c.Frame, c.St, cl.Fn, args, cl.Free, c.Instr)
}

// DeepTaint is the union of the taint labels of everything reachable from the values (through pointers and slices).
func (ex *Exec) DeepTaint(st *State, vals []Val) uint64 {
	seen := map[*Obj]bool{}
	var t uint64
	var walkCell func(c *Cell, depth int)
	var walk func(v Val, depth int)
	walkCell = func(c *Cell, depth int) {
		if c == nil || depth > 8 {
			return
		}
		if c.V != nil {
			walk(c.V, depth+1)
		}
		for _, k := range c.Kids {
			walkCell(k, depth+1)
		}
		for _, k := range c.symKids {
			walkCell(k, depth+1)
		}
		if c.symIdx != nil {
			t |= c.symIdx.Taint
		}
		if c.Arr != nil {
			t |= c.Arr.Taint
			if c.Arr.Content != nil {
				t |= c.Arr.Content.Taint
			}
			for _, v := range c.Arr.Written {
				walk(v, depth+1)
			}
		}
	}
	walk = func(v Val, depth int) {
		if depth > 8 {
			return
		}
		switch x := v.(type) {
		case *sym.Term:
			t |= x.Taint
		case *Ptr:
			if !seen[x.Obj] {
				seen[x.Obj] = true
				walkCell(st.cellOf(x.Obj), depth+1)
			}
			for _, s := range x.Path {
				if s.Index != nil {
					t |= s.Index.Taint
				}
			}
		case *SliceVal:
			t |= x.Len.Taint
			if x.Base != nil {
				walk(x.Base, depth)
			}
		case *Agg:
			for _, e := range x.Elems {
				walk(e, depth+1)
			}
		case *Choice:
			t |= x.Cond.Taint
			walk(x.A, depth+1)
			walk(x.B, depth+1)
		case Tuple:
			for _, e := range x {
				walk(e, depth+1)
			}
		case *Iface:
			if x.Opaque != nil {
				t |= x.Opaque.Taint
			}
			if x.V != nil {
				walk(x.V, depth+1)
			}
		case *Closure:
			for _, f := range x.Free {
				walk(f, depth+1)
			}
		case *HashState:
			if x.Key != nil {
				t |= x.Key.Taint
			}
			if x.Data != nil {
				t |= x.Data.Taint
			}
			for _, i := range x.Items {
				t |= i.Taint
			}
		}
	}
	for _, v := range vals {
		walk(v, 0)
	}
	return t
}

// IsAggregate reports whether p addresses a struct / array cell.
func (ex *Exec) IsAggregate(st *State, p *Ptr) bool {
	c := ex.LoadCell(st, p)
	return c != nil && (c.Kids != nil)
}

// HavocObject replaces the content reachable through p by fresh symbols carrying the given taint.
func (ex *Exec) HavocObject(st *State, p *Ptr, taint uint64, why string) {
	ex.havocReachable(st, p, taint, why)
}
