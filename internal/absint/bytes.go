package absint

import (
	"go/types"

	"verif/internal/sym"
)

// CatBytes concatenates byte-string terms with normalisation.
func CatBytes(parts ...*sym.Term) *sym.Term {
	var flat []*sym.Term
	var add func(t *sym.Term)
	add = func(t *sym.Term) {
		if t.Op == "cat" {
			for _, a := range t.Args {
				add(a)
			}
			return
		}
		if t.IsStrConst() && t.S == "" {
			return
		}
		if n := len(flat); n > 0 {
			last := flat[n-1]
			if last.IsStrConst() && t.IsStrConst() {
				flat[n-1] = sym.ConstStr(sym.Bytes, last.S+t.S)
				return
			}
			if last.Op == "sub" && t.Op == "sub" && last.Args[0] == t.Args[0] && last.Args[2] == t.Args[1] {
				flat[n-1] = SubBytes(last.Args[0], last.Args[1], t.Args[2])
				return
			}
		}
		flat = append(flat, t)
	}
	for _, p := range parts {
		add(p)
	}
	switch len(flat) {
	case 0:
		return sym.ConstStr(sym.Bytes, "")
	case 1:
		return flat[0]
	}
	return sym.App(sym.Bytes, "cat", flat...)
}

// SubBytes builds x[lo:hi].
func SubBytes(x, lo, hi *sym.Term) *sym.Term {
	l, okl := lo.Int64()
	h, okh := hi.Int64()
	if okl && okh {
		if x.IsStrConst() && l >= 0 && h <= int64(len(x.S)) && l <= h {
			return sym.ConstStr(sym.Bytes, x.S[l:h])
		}
		if n, ok := sym.BytesLen(x); ok && l == 0 && h == int64(n) {
			return x
		}
		if l == h {
			return sym.ConstStr(sym.Bytes, "")
		}
		if x.Op == "cat" {
			// select the covered parts when all part lengths are known
			off := int64(0)
			var parts []*sym.Term
			ok := true
			for _, a := range x.Args {
				n, known := sym.BytesLen(a)
				if !known {
					ok = false
					break
				}
				s, e := off, off+int64(n)
				off = e
				if e <= l || s >= h {
					continue
				}
				ls, he := max(l, s)-s, min(h, e)-s
				parts = append(parts, SubBytes(a, sym.ConstI(ls), sym.ConstI(he)))
			}
			if ok && off >= h {
				return CatBytes(parts...)
			}
		}
	}
	if x.Op == "sub" {
		return SubBytes(x.Args[0], sym.Add(x.Args[1], lo), sym.Add(x.Args[1], hi))
	}
	if okl && l == 0 && hi.Op == "len" && hi.Args[0] == x {
		return x
	}
	r := sym.App(sym.Bytes, "sub", x, lo, hi)
	return r
}

// ByteAt builds x[i].
func ByteAt(x, idx *sym.Term) *sym.Term {
	if i, ok := idx.Int64(); ok {
		if x.Op == "byte" && len(x.Args) == 1 && i == 0 {
			return x.Args[0] // the one octet of a one-octet string
		}
		if x.IsStrConst() && i >= 0 && int(i) < len(x.S) {
			return sym.ConstI(int64(x.S[i]))
		}
		if x.Op == "sub" {
			return ByteAt(x.Args[0], sym.Add(x.Args[1], idx))
		}
		if x.Op == "cat" {
			off := int64(0)
			for _, a := range x.Args {
				n, known := sym.BytesLen(a)
				if !known {
					break
				}
				if i < off+int64(n) {
					return ByteAt(a, sym.ConstI(i-off))
				}
				off += int64(n)
			}
		}
	} else if x.Op == "sub" {
		return ByteAt(x.Args[0], sym.Add(x.Args[1], idx))
	}
	return sym.App(sym.Int, "byteat", x, idx)
}

// BytesFromCells assembles a byte string from per-byte terms.
func BytesFromCells(bs []*sym.Term) *sym.Term {
	var parts []*sym.Term
	i := 0
	for i < len(bs) {
		b := bs[i]
		if b.Op == "tainted" {
			b = b.Args[0]
		}
		if v, ok := b.Int64(); ok && v >= 0 && v < 256 {
			buf := []byte{byte(v)}
			j := i + 1
			for j < len(bs) {
				w, ok := bs[j].Int64()
				if !ok || w < 0 || w > 255 {
					break
				}
				buf = append(buf, byte(w))
				j++
			}
			parts = append(parts, sym.ConstStr(sym.Bytes, string(buf)))
			i = j
			continue
		}
		if b.Op == "byteat" {
			if k, ok := b.Args[1].Int64(); ok {
				x := b.Args[0]
				j := i + 1
				for j < len(bs) {
					c := bs[j]
					if c.Op == "tainted" {
						c = c.Args[0]
					}
					if c.Op != "byteat" || c.Args[0] != x {
						break
					}
					kk, ok := c.Args[1].Int64()
					if !ok || kk != k+int64(j-i) {
						break
					}
					j++
				}
				parts = append(parts, sym.WithTaint(SubBytes(x, sym.ConstI(k), sym.ConstI(k+int64(j-i))), bs[i].Taint))
				i = j
				continue
			}
		}
		one := sym.App(sym.Bytes, "byte", bs[i])
		sym.SetBytesLen(one, 1)
		parts = append(parts, one)
		i++
	}
	return CatBytes(parts...)
}

// ReadBytes reads n consecutive bytes starting at the element pointer base.
func (ex *Exec) ReadBytes(st *State, base *Ptr, n int) *sym.Term {
	if n == 0 {
		return sym.ConstStr(sym.Bytes, "")
	}
	// fast path: opaque array without overlay
	if arr, lo, ok := ex.opaqueAt(st, base); ok && len(arr.Written) == 0 && arr.Content != nil {
		if l, ok := lo.Int64(); ok {
			return sym.WithTaint(SubBytes(arr.Content, sym.ConstI(l), sym.ConstI(l+int64(n))), arr.Taint)
		}
		return sym.WithTaint(SubBytes(arr.Content, lo, sym.Add(lo, sym.ConstI(int64(n)))), arr.Taint)
	}
	bs := make([]*sym.Term, n)
	for i := 0; i < n; i++ {
		v := st.Resolve(ex.Load(st, ex.indexPtr(base, sym.ConstI(int64(i))), types.Typ[types.Uint8]))
		t, ok := v.(*sym.Term)
		if !ok {
			t = sym.Fresh(sym.Int, "byte", TaintOf(v))
		}
		bs[i] = t
	}
	return BytesFromCells(bs)
}

// opaqueAt returns the opaque array and start index a pointer addresses, if any.
func (ex *Exec) opaqueAt(st *State, p *Ptr) (*OpaqueArr, *sym.Term, bool) {
	if len(p.Path) == 0 {
		return nil, nil, false
	}
	c := st.cellOf(p.Obj)
	for _, s := range p.Path[:len(p.Path)-1] {
		if c == nil {
			return nil, nil, false
		}
		if s.Field >= 0 {
			if c.Kids == nil || s.Field >= len(c.Kids) {
				return nil, nil, false
			}
			c = c.Kids[s.Field]
		} else {
			i, ok := s.Index.Int64()
			if !ok || c.Kids == nil || i < 0 || int(i) >= len(c.Kids) {
				return nil, nil, false
			}
			c = c.Kids[i]
		}
	}
	if c == nil || c.Arr == nil {
		return nil, nil, false
	}
	return c.Arr, p.Path[len(p.Path)-1].Index, true
}

// ReadBytesSym reads a byte slice of symbolic length.
func (ex *Exec) ReadBytesSym(st *State, sv *SliceVal) *sym.Term {
	if n, ok := sv.Len.Int64(); ok {
		if sv.Base == nil {
			return sym.ConstStr(sym.Bytes, "")
		}
		return ex.ReadBytes(st, sv.Base, int(n))
	}
	if sv.Base == nil {
		return sym.ConstStr(sym.Bytes, "")
	}
	if arr, lo, ok := ex.opaqueAt(st, sv.Base); ok && len(arr.Written) == 0 && arr.Content != nil {
		if l, ok := lo.Int64(); ok && l == 0 && sv.Len == arr.Len {
			return sym.WithTaint(arr.Content, arr.Taint)
		}
		return sym.WithTaint(SubBytes(arr.Content, lo, sym.Add(lo, sv.Len)), arr.Taint|sv.Len.Taint)
	}
	return sym.Fresh(sym.Bytes, "bytes", sv.Len.Taint)
}

// SliceBytes reads the content of a []byte value (any length form).
func (ex *Exec) SliceBytes(st *State, v Val) *sym.Term {
	v = st.Resolve(v)
	switch x := v.(type) {
	case *SliceVal:
		return ex.ReadBytesSym(st, x)
	case *sym.Term:
		if x.Sort == sym.Bytes {
			return x
		}
	case Nil:
		return sym.ConstStr(sym.Bytes, "")
	case *Choice:
		return sym.Ite(x.Cond, ex.SliceBytes(st, x.A), ex.SliceBytes(st, x.B))
	}
	ex.fail("SliceBytes of %s", ValString(v))
	return sym.Fresh(sym.Bytes, "bytes", TaintOf(v))
}

// BytesToSlice materialises a byte-string term as a fresh []byte.
func (ex *Exec) BytesToSlice(st *State, t *sym.Term, name string) *SliceVal {
	var length *sym.Term
	if n, ok := sym.BytesLen(t); ok {
		length = sym.ConstI(int64(n))
	} else {
		length = sym.App(sym.Int, "len", t)
	}
	arr := &OpaqueArr{Name: name, Elem: types.Typ[types.Uint8], Len: length, Taint: t.Taint, elems: map[int]Val{}, Content: t, Origin: Origin{Kind: "local"}}
	o := ex.newObj(name, types.NewArray(types.Typ[types.Uint8], -1), Origin{Kind: "local"}, &Cell{Arr: arr})
	return &SliceVal{Base: &Ptr{Obj: o, Path: []Step{{Field: -1, Index: sym.ConstI(0)}}}, Len: length, Cap: length}
}

// WriteBytes stores the first n bytes of t at base.
func (ex *Exec) WriteBytes(st *State, base *Ptr, t *sym.Term, n int) {
	for i := 0; i < n; i++ {
		b := sym.WithTaint(ByteAt(t, sym.ConstI(int64(i))), t.Taint)
		p := ex.indexPtr(base, sym.ConstI(int64(i)))
		ex.noteGlobalStore(p, 0)
		ex.Store(st, p, b, types.Typ[types.Uint8])
	}
}

// HavocSlice overwrites the backing store of a slice with unknown content.
func (ex *Exec) HavocSlice(st *State, sv *SliceVal, taint uint64, why string) {
	if sv.Base == nil {
		return
	}
	if n, ok := sv.Len.Int64(); ok && n <= 4096 {
		x := sym.Fresh(sym.Bytes, why, taint)
		sym.SetBytesLen(x, int(n))
		ex.WriteBytes(st, sv.Base, x, int(n))
		return
	}
	root := st.cellOf(sv.Base.Obj)
	st.mem[sv.Base.Obj] = havocCell(root, taint, why)
}
