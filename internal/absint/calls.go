package absint

import (
	"fmt"
	"go/token"
	"go/types"
	"strings"

	"golang.org/x/tools/go/ssa"

	"verif/internal/load"
	"verif/internal/sym"
)

type deadSignal struct{}

// call executes a call instruction; it panics with deadSignal when every path of the callee dies.
func (ex *Exec) call(fr *Frame, st *State, t *ssa.Call) Val {
	c := t.Common()
	var args []Val
	for _, a := range c.Args {
		args = append(args, ex.operand(fr, st, a))
	}
	if c.IsInvoke() {
		recv := st.Resolve(ex.operand(fr, st, c.Value))
		return ex.invoke(fr, st, t, recv, c.Method, args)
	}
	switch callee := c.Value.(type) {
	case *ssa.Builtin:
		return ex.builtin(fr, st, t, callee, args)
	case *ssa.Function:
		return ex.callFn(fr, st, callee, args, nil, t)
	}
	cv := st.Resolve(ex.operand(fr, st, c.Value))
	switch f := cv.(type) {
	case *Closure:
		return ex.callFn(fr, st, f.Fn, args, f.Free, t)
	}
	ex.fail("call of unknown function value %s at %s", ValString(cv), ex.Position(t.Pos()))
	ex.event(Event{Kind: EvUnmodelled, Pos: t.Pos(), Callee: "<dynamic>", Args: args})
	return ex.unknownResult(c.Signature(), "dyncall", argsTaint(args))
}

func argsTaint(args []Val) uint64 {
	var t uint64
	for _, a := range args {
		t |= TaintOf(a)
	}
	return t
}

func (ex *Exec) unknownResult(sig *types.Signature, name string, taint uint64) Val {
	res := sig.Results()
	switch res.Len() {
	case 0:
		return nil
	case 1:
		return ex.unknownOf(res.At(0).Type(), name, taint)
	}
	tu := make(Tuple, res.Len())
	for i := range tu {
		tu[i] = ex.unknownOf(res.At(i).Type(), name, taint)
	}
	return tu
}

func (ex *Exec) invoke(fr *Frame, st *State, t *ssa.Call, recv Val, m *types.Func, args []Val) Val {
	ifaceName := types.TypeString(t.Common().Value.Type(), nil)
	key := "(" + ifaceName + ")." + m.Name()
	if ex.Cfg.CallFilter != nil && ex.Cfg.CallFilter(key) {
		ex.event(Event{Kind: EvCall, Pos: t.Pos(), Callee: key, Args: args, ArgTaint: ex.DeepTaint(st, args)})
	}
	if i, ok := recv.(*Iface); ok {
		if i.Opaque == nil && i.Dyn != nil {
			// external abstract objects (hash states) dispatch on the interface method
			if p, ok := i.V.(*Ptr); ok && p.Obj.Typ == nil {
				return ex.external(fr, st, t, nil, "(abstract)."+m.Name(), append([]Val{p}, args...), t.Common().Signature())
			}
			if fn := ex.Cfg.Prog.SSA.LookupMethod(i.Dyn, m.Pkg(), m.Name()); fn != nil {
				return ex.callFn(fr, st, fn, append([]Val{i.V}, args...), nil, t)
			}
		}
		if i.Opaque == nil && i.Dyn == nil {
			ex.event(Event{Kind: EvPanic, Pos: t.Pos(), Msg: "method call on nil interface"})
			panic(deadSignal{})
		}
	}
	return ex.external(fr, st, t, nil, key, append([]Val{recv}, args...), t.Common().Signature())
}

// CallFilter decides which calls are recorded as EvCall.
var _ = 0

func (ex *Exec) callFn(fr *Frame, st *State, fn *ssa.Function, args []Val, free []Val, site ssa.CallInstruction) Val {
	name := fn.String()
	pos := token.NoPos
	if site != nil {
		pos = site.Pos()
	}
	if ex.Cfg.CallFilter != nil && ex.Cfg.CallFilter(name) {
		ex.event(Event{Kind: EvCall, Pos: pos, Callee: name, Args: args, ArgTaint: ex.DeepTaint(st, args)})
	}
	if ic, ok := ex.Cfg.Intercepts[name]; ok {
		ctx := &CallCtx{St: st, Fn: fn, Name: name, Args: args, Instr: site, Frame: fr, Pos: pos}
		if v, handled := ic(ex, ctx); handled {
			return v
		}
	}
	if fn.Synthetic == "package initializer" {
		if fn.Pkg != nil && load.IsModulePkg(fn.Pkg.Pkg.Path()) {
			ex.ensureInit(fn.Pkg)
		}
		return nil
	}
	isModule := fn.Pkg != nil && load.IsModulePkg(fn.Pkg.Pkg.Path())
	if !isModule && fn.Pkg == nil {
		// synthetic wrappers / bound methods: attribute to the receiver's package
		if o := fn.Object(); o != nil && o.Pkg() != nil {
			isModule = load.IsModulePkg(o.Pkg().Path())
		} else if fn.Synthetic != "" && fn.Blocks != nil {
			isModule = true
		}
	}
	if !isModule || fn.Blocks == nil || ex.Cfg.NoInline[name] {
		return ex.external(fr, st, site, fn, name, args, fn.Signature)
	}
	nf := ex.newFrame(fn, fr, site)
	if len(args) != len(fn.Params) {
		ex.fail("arity mismatch calling %s", name)
		return ex.unknownResult(fn.Signature, "arity", argsTaint(args))
	}
	for i, p := range fn.Params {
		nf.Regs[p] = args[i]
	}
	for i, fv := range fn.FreeVars {
		if i < len(free) {
			nf.Regs[fv] = free[i]
		}
	}
	saveCur := ex.cur
	out := ex.run(nf, st, fn.Blocks[0], nil, nil, nil)
	ex.cur = saveCur
	if out.Ret == nil {
		panic(deadSignal{})
	}
	// adopt the callee's final state
	st.mem = out.Ret.St.mem
	st.Guard = out.Ret.St.Guard
	ex.curState = st
	return out.Ret.Results
}

func (ex *Exec) external(fr *Frame, st *State, site ssa.CallInstruction, fn *ssa.Function, name string, args []Val, sig *types.Signature) Val {
	pos := token.NoPos
	if site != nil {
		pos = site.Pos()
	}
	ctx := &CallCtx{St: st, Fn: fn, Name: name, Args: args, Instr: site, Frame: fr, Pos: pos}
	if m, ok := ex.Cfg.Externals[name]; ok {
		if v, handled := m(ex, ctx); handled {
			return v
		}
	}
	if m, ok := defaultExternals[name]; ok {
		if v, handled := m(ex, ctx); handled {
			return v
		}
	}
	ex.event(Event{Kind: EvUnmodelled, Pos: pos, Callee: name, Args: args, ArgTaint: ex.DeepTaint(st, args)})
	// conservatively forget everything reachable through pointer arguments
	taint := argsTaint(args)
	for _, a := range args {
		ex.havocReachable(st, a, taint, "after:"+shortName(name))
	}
	return ex.unknownResult(sig, "ret:"+shortName(name), taint)
}

func shortName(n string) string {
	if i := strings.LastIndex(n, "/"); i >= 0 {
		return n[i+1:]
	}
	return n
}

func (ex *Exec) havocReachable(st *State, v Val, taint uint64, why string) {
	switch x := st.Resolve(v).(type) {
	case *Ptr:
		if x.Obj.Origin.Kind == "global" {
			ex.event(Event{Kind: EvGlobalStore, Ptr: x, Msg: "package-level variable " + x.Obj.Origin.Root + " passed to unmodelled callee"})
		}
		root := st.cellOf(x.Obj)
		st.mem[x.Obj] = replaceAtPath(root, x.Path, func(c *Cell) *Cell { return havocCell(c, taint, why) })
	case *SliceVal:
		ex.HavocSlice(st, x, taint, why)
	case *Iface:
		if x.V != nil {
			ex.havocReachable(st, x.V, taint, why)
		}
	}
}

func replaceAtPath(c *Cell, path []Step, f func(*Cell) *Cell) *Cell {
	if len(path) == 0 {
		return f(c)
	}
	if c == nil || c.Kids == nil {
		return f(c)
	}
	s := path[0]
	i := s.Field
	if i < 0 {
		k, ok := s.Index.Int64()
		if !ok {
			return f(c)
		}
		i = int(k)
	}
	if i < 0 || i >= len(c.Kids) {
		return c
	}
	n := &Cell{Kids: append([]*Cell(nil), c.Kids...)}
	n.Kids[i] = replaceAtPath(c.Kids[i], path[1:], f)
	return n
}

// ------------------------------------------------------------------ builtins

func (ex *Exec) lenOf(st *State, v Val, t types.Type) *sym.Term {
	switch x := st.Resolve(v).(type) {
	case *SliceVal:
		return st.Simplify(x.Len)
	case Nil:
		return sym.ConstI(0)
	case *sym.Term:
		if n, ok := sym.BytesLen(x); ok {
			return sym.ConstI(int64(n))
		}
		return st.Simplify(sym.App(sym.Int, "len", x))
	case *Agg:
		return sym.ConstI(int64(len(x.Elems)))
	case *Choice:
		return st.Simplify(sym.Ite(x.Cond, ex.lenOf(st, x.A, t), ex.lenOf(st, x.B, t)))
	case *Ptr:
		if pt, ok := t.Underlying().(*types.Pointer); ok {
			if at, ok := pt.Elem().Underlying().(*types.Array); ok {
				return sym.ConstI(at.Len())
			}
		}
	}
	ex.fail("len of %s", ValString(v))
	return sym.Fresh(sym.Int, "len", TaintOf(v))
}

func (ex *Exec) builtin(fr *Frame, st *State, t *ssa.Call, b *ssa.Builtin, args []Val) Val {
	switch b.Name() {
	case "len":
		return ex.lenOf(st, args[0], t.Common().Args[0].Type())
	case "cap":
		if sv, ok := st.Resolve(args[0]).(*SliceVal); ok {
			return st.Simplify(sv.Cap)
		}
		return ex.lenOf(st, args[0], t.Common().Args[0].Type())
	case "ssa:wrapnilchk":
		return args[0]
	case "append":
		return ex.appendOp(st, t, args)
	case "copy":
		return ex.copyOp(st, t, args)
	}
	ex.fail("unsupported builtin %s at %s", b.Name(), ex.Position(t.Pos()))
	return ex.unknownOf(t.Type(), "builtin", argsTaint(args))
}

func elemTypeOf(t types.Type) types.Type {
	switch u := t.Underlying().(type) {
	case *types.Slice:
		return u.Elem()
	case *types.Basic:
		return types.Typ[types.Uint8]
	}
	return nil
}

func (ex *Exec) appendOp(st *State, t *ssa.Call, args []Val) Val {
	et := elemTypeOf(t.Common().Args[0].Type())
	dst := st.Resolve(args[0])
	src := st.Resolve(args[1])
	var d *SliceVal
	switch x := dst.(type) {
	case *SliceVal:
		d = x
	case Nil:
		d = &SliceVal{Len: sym.ConstI(0), Cap: sym.ConstI(0)}
	default:
		ex.fail("append to %s at %s", ValString(dst), ex.Position(t.Pos()))
		return ex.unknownOf(t.Type(), "append", argsTaint(args))
	}
	dl, ok1 := st.Simplify(d.Len).Int64()
	dc, ok2 := st.Simplify(d.Cap).Int64()
	// source length and reader
	var n int64
	var okn bool
	var srcBytes *sym.Term
	var s *SliceVal
	switch x := src.(type) {
	case *SliceVal:
		s = x
		n, okn = st.Simplify(x.Len).Int64()
	case Nil:
		n, okn = 0, true
	case *sym.Term:
		srcBytes = x
		if l, ok := sym.BytesLen(x); ok {
			n, okn = int64(l), true
		}
	}
	if !ok1 || !ok2 || !okn {
		ex.event(Event{Kind: EvUnmodelled, Pos: t.Pos(), Callee: "append(symbolic length)", Args: args})
		return ex.SymSlice(et, "append@"+ex.Position(t.Pos()), Origin{Kind: "local"}, argsTaint(args), nil)
	}
	if n == 0 {
		return d
	}
	isB := isByte(et)
	if isB && srcBytes == nil && s != nil && s.Base != nil {
		srcBytes = ex.ReadBytes(st, s.Base, int(n))
	}
	target := d
	if d.Base == nil || dl+n > dc {
		// reallocate with exact capacity
		at := types.NewArray(et, dl+n)
		o := ex.newObj("append", at, Origin{Kind: "local"}, ex.ZeroCell(at))
		o.Pos = t.Pos()
		target = &SliceVal{Base: &Ptr{Obj: o, Path: []Step{{Field: -1, Index: sym.ConstI(0)}}}, Len: sym.ConstI(dl), Cap: sym.ConstI(dl + n)}
		if dl > 0 {
			if isB {
				ex.WriteBytes(st, target.Base, ex.ReadBytes(st, d.Base, int(dl)), int(dl))
			} else {
				for i := int64(0); i < dl; i++ {
					v := ex.Load(st, ex.indexPtr(d.Base, sym.ConstI(i)), et)
					ex.Store(st, ex.indexPtr(target.Base, sym.ConstI(i)), v, et)
				}
			}
		}
	}
	at := ex.indexPtr(target.Base, sym.ConstI(dl))
	if isB {
		ex.WriteBytes(st, at, srcBytes, int(n))
	} else {
		for i := int64(0); i < n; i++ {
			v := ex.Load(st, ex.indexPtr(s.Base, sym.ConstI(i)), et)
			p := ex.indexPtr(at, sym.ConstI(i))
			ex.noteGlobalStore(p, t.Pos())
			ex.Store(st, p, v, et)
		}
	}
	return &SliceVal{Base: target.Base, Len: sym.ConstI(dl + n), Cap: target.Cap}
}

func (ex *Exec) copyOp(st *State, t *ssa.Call, args []Val) Val {
	et := elemTypeOf(t.Common().Args[0].Type())
	dst, ok := st.Resolve(args[0]).(*SliceVal)
	if !ok {
		if _, isNil := st.Resolve(args[0]).(Nil); isNil {
			return sym.ConstI(0)
		}
		ex.fail("copy into %s at %s", ValString(args[0]), ex.Position(t.Pos()))
		return sym.Fresh(sym.Int, "copy", argsTaint(args))
	}
	src := st.Resolve(args[1])
	dl, okd := st.Simplify(dst.Len).Int64()
	var sl int64
	var oks bool
	var srcBytes *sym.Term
	var s *SliceVal
	switch x := src.(type) {
	case *SliceVal:
		s = x
		sl, oks = st.Simplify(x.Len).Int64()
	case *sym.Term:
		srcBytes = x
		if l, ok := sym.BytesLen(x); ok {
			sl, oks = int64(l), true
		}
	case Nil:
		return sym.ConstI(0)
	}
	baseConst := true
	if dst.Base != nil {
		_, baseConst = dst.Base.Path[len(dst.Base.Path)-1].Index.Int64()
	}
	if okd && !oks && baseConst && s != nil {
		// the source is longer than the fixed-size destination on this path (a dominating length check): copy fills it
		if lt, known := st.Decided(Lt(st.Simplify(s.Len), sym.ConstI(dl))); known && !lt {
			sl, oks = dl, true
		}
	}
	if !okd || !oks || !baseConst {
		// imprecise: forget the destination
		ex.event(Event{Kind: EvUnmodelled, Pos: t.Pos(), Callee: "copy(symbolic length)", Args: args})
		taint := argsTaint(args)
		if s != nil && s.Base != nil {
			taint |= cellTaint(st.cellOf(s.Base.Obj))
		}
		if dst.Base != nil {
			root := st.cellOf(dst.Base.Obj)
			ex.noteGlobalStore(dst.Base, t.Pos())
			st.mem[dst.Base.Obj] = replaceAtPath(root, dst.Base.Path[:len(dst.Base.Path)-1], func(c *Cell) *Cell { return havocCell(c, taint, "copy") })
		}
		return sym.Fresh(sym.Int, "copied", taint)
	}
	n := min(dl, sl)
	if n == 0 || dst.Base == nil {
		return sym.ConstI(0)
	}
	if isByte(et) {
		if srcBytes == nil {
			srcBytes = ex.ReadBytes(st, s.Base, int(n))
		}
		ex.WriteBytes(st, dst.Base, srcBytes, int(n))
	} else {
		vals := make([]Val, n)
		for i := int64(0); i < n; i++ {
			vals[i] = ex.Load(st, ex.indexPtr(s.Base, sym.ConstI(i)), et)
		}
		for i := int64(0); i < n; i++ {
			p := ex.indexPtr(dst.Base, sym.ConstI(i))
			ex.noteGlobalStore(p, t.Pos())
			ex.Store(st, p, vals[i], et)
		}
	}
	return sym.ConstI(n)
}

// ------------------------------------------------------------------ globals and package init

func globalKey(g *ssa.Global) string { return g.Pkg.Pkg.Path() + "." + g.Name() }

func (ex *Exec) globalPtr(st *State, g *ssa.Global) Val {
	if o, ok := ex.globals[g]; ok {
		return &Ptr{Obj: o}
	}
	et := g.Type().Underlying().(*types.Pointer).Elem()
	key := globalKey(g)
	o := ex.newObj(key, et, Origin{Kind: "global", Root: key}, nil)
	ex.globals[g] = o
	if f, ok := ex.Cfg.GlobalInit[key]; ok {
		ex.objInit[o] = f(ex, g)
		return &Ptr{Obj: o}
	}
	if load.IsModulePkg(g.Pkg.Pkg.Path()) {
		ex.objInit[o] = ex.ZeroCell(et)
		ex.ensureInit(g.Pkg)
		return &Ptr{Obj: o}
	}
	c := ex.SymCell(et, key, Origin{Kind: "global", Root: key}, 0, 2)
	if i, ok := c.V.(*Iface); ok {
		i.NonNil = true
	}
	ex.objInit[o] = c
	return &Ptr{Obj: o}
}

// ensureInit abstractly runs the package initialiser once; the resulting contents
// become the initial contents of the package's variables.
func (ex *Exec) ensureInit(pkg *ssa.Package) {
	if ex.initRun[pkg] {
		return
	}
	ex.initRun[pkg] = true
	initFn := pkg.Func("init")
	if initFn == nil || initFn.Blocks == nil {
		return
	}
	// make sure all globals of the package have objects so stores land somewhere
	for _, m := range pkg.Members {
		if g, ok := m.(*ssa.Global); ok {
			if _, ok := ex.globals[g]; !ok {
				et := g.Type().Underlying().(*types.Pointer).Elem()
				key := globalKey(g)
				o := ex.newObj(key, et, Origin{Kind: "global", Root: key}, nil)
				ex.globals[g] = o
				if f, ok := ex.Cfg.GlobalInit[key]; ok {
					ex.objInit[o] = f(ex, g)
				} else {
					ex.objInit[o] = ex.ZeroCell(et)
				}
			}
		}
	}
	saveCur, saveState, saveTop := ex.cur, ex.curState, ex.topFrame
	saveEvents, saveRet, savePan := ex.Events, ex.Returns, ex.Panics
	ex.inInit++
	ist := ex.NewState()
	fr := ex.newFrame(initFn, nil, nil)
	func() {
		defer func() {
			if r := recover(); r != nil {
				if _, ok := r.(deadSignal); ok {
					ex.fail("package initialiser of %s panics", pkg.Pkg.Path())
					return
				}
				panic(r)
			}
		}()
		out := ex.run(fr, ist, initFn.Blocks[0], nil, nil, nil)
		if out.Ret != nil {
			ist = out.Ret.St
		}
	}()
	ex.inInit--
	ex.InitEvents = append(ex.InitEvents, ex.Events[len(saveEvents):]...)
	ex.Events, ex.Returns, ex.Panics = saveEvents, saveRet, savePan
	ex.cur, ex.curState, ex.topFrame = saveCur, saveState, saveTop
	// publish: contents after init are the initial contents seen by every state
	for o, c := range ist.mem {
		ex.objInit[o] = c
	}
}

// skipInitCall reports whether a call inside a package initialiser only feeds
// package-level variables whose content is provided by the configuration.
func (ex *Exec) skipInitCall(t *ssa.Call) bool {
	refs := t.Referrers()
	if refs == nil || len(*refs) == 0 {
		return false
	}
	for _, r := range *refs {
		s, ok := r.(*ssa.Store)
		if !ok {
			return false
		}
		g, ok := s.Addr.(*ssa.Global)
		if !ok {
			return false
		}
		if _, ok := ex.Cfg.GlobalInit[globalKey(g)]; !ok {
			return false
		}
	}
	return true
}

// GlobalObj returns the object of a package-level variable (after lazy init).
func (ex *Exec) GlobalObj(st *State, pkgPath, name string) *Ptr {
	sp := ex.Cfg.Prog.SSAPkgs[pkgPath]
	if sp == nil {
		return nil
	}
	g, ok := sp.Members[name].(*ssa.Global)
	if !ok {
		return nil
	}
	p, _ := ex.globalPtr(st, g).(*Ptr)
	return p
}

var _ = fmt.Sprintf
