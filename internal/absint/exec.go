package absint

import (
	"fmt"
	"go/token"
	"go/types"
	"sort"
	"strings"

	"golang.org/x/tools/go/ssa"

	"verif/internal/load"
	"verif/internal/sym"
)

// Intercept replaces a call by a specification.  It returns (result, true) when handled.
type Intercept func(ex *Exec, c *CallCtx) (Val, bool)

// CallCtx is the context of an intercepted call.
type CallCtx struct {
	St    *State
	Fn    *ssa.Function // static callee (nil for unresolved invokes)
	Name  string        // key used for the lookup
	Args  []Val         // receiver first
	Instr ssa.CallInstruction
	Frame *Frame
	Pos   token.Pos
}

// Config parameterises a run.
type Config struct {
	Prog         *load.Program
	AbstractType func(qualifiedName string) (sym.Sort, bool)
	AbstractZero func(qualifiedName string) Val
	Intercepts   map[string]Intercept
	Externals    map[string]Intercept // overrides / additions to the default table
	// GlobalInit lets a rule provide the content of a package-level variable
	// instead of abstractly running its initialiser.
	GlobalInit map[string]func(ex *Exec, g *ssa.Global) *Cell
	MaxSteps   int
	// NoInline lists module functions that must not be inlined (treated as unmodelled).
	NoInline map[string]bool
	// RecordStores enables EvStore events (effects analyses).
	RecordStores bool
	// CallFilter selects the calls recorded as EvCall events.
	CallFilter func(name string) bool
	// ReaderTaint is the taint label given to bytes read from unknown io.Readers.
	ReaderTaint uint64
}

// EventKind classifies observations made during a run.
type EventKind int

const (
	EvBranch      EventKind = iota // a branch on a non-constant condition
	EvIndex                        // an index / slice bound with a non-constant operand
	EvStore                        // a store (only when RecordStores)
	EvCall                         // a call (module or external), with arguments
	EvUnmodelled                   // a call without model: results unknown
	EvIndexOOB                     // constant index out of range
	EvVarTime                      // division / modulo / variable shift
	EvWiden                        // a loop was widened
	EvPanic                        // a reachable panic
	EvGlobalStore                  // store into memory reachable from a package-level variable
	EvBound                        // a run-time bounds check whose operands are not both constants: Term (<|<=) Bound must hold
)

// Event is one observation.
type Event struct {
	Kind     EventKind
	Pos      token.Pos
	Fn       *ssa.Function
	Stack    []string
	Term     *sym.Term
	Ptr      *Ptr
	Val      Val
	Msg      string
	Callee   string
	Args     []Val
	Guard    []Lit
	ArgTaint uint64    // EvCall / EvUnmodelled: taint of everything reachable from the arguments
	Bound    *sym.Term // EvBound: right-hand side
	Strict   bool      // EvBound: Term < Bound (else Term <= Bound)
}

// Exit is a return or panic of the analysed entry function.
type Exit struct {
	Guard   []Lit
	Results Val
	St      *State
	Pos     token.Pos
	Msg     string
	Stack   []string
	Instr   ssa.Instruction
}

// Exec is one abstract-interpretation run.
type Exec struct {
	Cfg     *Config
	objCtr  int
	Events  []Event
	Fails   []string
	Returns []Exit
	Panics  []Exit
	steps   int
	runCtr  int

	globals  map[*ssa.Global]*Obj
	initRun  map[*ssa.Package]bool
	initSt   *State // state after lazily executed package initialisers (merged into current state on demand)
	cur      *Frame
	pdoms    map[*ssa.Function]map[*ssa.BasicBlock]*ssa.BasicBlock
	loops    map[*ssa.BasicBlock]map[*ssa.BasicBlock]bool
	topFrame *Frame
	curState *State

	objInit    map[*Obj]*Cell // initial contents of objects (shared by all states of this run)
	inInit     int
	InitEvents []Event // events observed while running package initialisers
	readCtr    int
}

// Frame is an activation record.
type Frame struct {
	Fn      *ssa.Function
	Regs    map[ssa.Value]Val
	Parent  *Frame
	Site    ssa.CallInstruction
	Depth   int
	act     *activation
	loopHdr map[*ssa.BasicBlock]*loopCtx
}

// activation is shared by all forked copies of one function activation.
type activation struct {
	active map[*ssa.BasicBlock]int
	snaps  map[*ssa.BasicBlock]*loopSnap
}

// loopSnap is the state at the entry of a loop header from outside the loop.
type loopSnap struct {
	st      *State
	regs    map[ssa.Value]Val
	phis    map[*ssa.Phi]Val
	runID   int
	evMark  int
	retMark int
	panMark int
	loopHdr map[*ssa.BasicBlock]*loopCtx
}

// nestLimit is the number of nested re-entries of one branch block after which
// the enclosing loop is treated as having a non-constant trip count.
const nestLimit = 40

type loopCtx struct {
	backStates []*State
	backPhis   []map[*ssa.Phi]Val
}

// Outcome of running a region.
type Outcome struct {
	Live    *LiveAt
	Ret     *RetAt
	RetCond *sym.Term
}

// LiveAt is a path that reached the stop block.
type LiveAt struct {
	St   *State
	Regs map[ssa.Value]Val
	Phi  map[*ssa.Phi]Val
}

// RetAt is a (merged) return.
type RetAt struct {
	St      *State
	Results Val
}

type loopSignal struct {
	act *activation
	hdr *ssa.BasicBlock
}

type abortSignal struct{ msg string }

// New creates a run.
func New(cfg *Config) *Exec {
	if cfg.MaxSteps == 0 {
		cfg.MaxSteps = 40_000_000
	}
	return &Exec{Cfg: cfg, globals: map[*ssa.Global]*Obj{}, initRun: map[*ssa.Package]bool{}, objInit: map[*Obj]*Cell{},
		pdoms: map[*ssa.Function]map[*ssa.BasicBlock]*ssa.BasicBlock{}, loops: map[*ssa.BasicBlock]map[*ssa.BasicBlock]bool{}}
}

func (ex *Exec) fail(format string, args ...interface{}) {
	msg := fmt.Sprintf(format, args...)
	if ex.cur != nil {
		msg += " [in " + ex.cur.Fn.String() + "]"
	}
	if len(ex.Fails) < 200 {
		ex.Fails = append(ex.Fails, msg)
	}
}

func (ex *Exec) event(e Event) {
	if e.Kind == EvStore && !ex.Cfg.RecordStores {
		return
	}
	if ex.cur != nil {
		if e.Fn == nil {
			e.Fn = ex.cur.Fn
		}
		if e.Stack == nil {
			e.Stack = ex.stackNames()
		}
	}
	if ex.curState != nil && e.Guard == nil {
		e.Guard = append([]Lit(nil), ex.curState.Guard...)
	}
	ex.Events = append(ex.Events, e)
	if e.Kind == EvIndexOOB && ex.curState != nil {
		// an index, slice bound or slice-to-array conversion that constant propagation shows to be out of range on this
		// path is a run-time panic: it is recorded as a reachable panic (with the path guard), so that every rule that
		// demands "no panic is reachable" decides it, not only the rules that read the event list
		ex.Panics = append(ex.Panics, Exit{Guard: append([]Lit(nil), ex.curState.Guard...), St: ex.curState, Pos: e.Pos, Msg: "index out of range: " + e.Msg, Stack: ex.stackNames()})
	}
}

func (ex *Exec) stackNames() []string {
	var s []string
	for f := ex.cur; f != nil; f = f.Parent {
		s = append(s, f.Fn.String())
	}
	return s
}

// Position renders a token.Pos.
func (ex *Exec) Position(p token.Pos) string {
	if !p.IsValid() {
		return "?"
	}
	pos := ex.Cfg.Prog.SSA.Fset.Position(p)
	f := pos.Filename
	if rel := strings.TrimPrefix(f, ex.Cfg.Prog.Dir+"/"); rel != f {
		f = rel
	}
	return fmt.Sprintf("%s:%d", f, pos.Line)
}

// ------------------------------------------------------------------ entry

// NewState returns an empty state for building inputs.
func (ex *Exec) NewState() *State { return &State{mem: map[*Obj]*Cell{}, init: ex.objInit} }

// SymParam creates a symbolic argument of type t.
func (ex *Exec) SymParam(t types.Type, name string, taint uint64) Val {
	c := ex.SymCell(t, name, Origin{Kind: "param", Root: name}, taint, 0)
	return ex.CellToValue(c, t)
}

// Alloc allocates a fresh object of type t holding cell c (zero if nil) and returns a pointer to it.
func (ex *Exec) Alloc(t types.Type, name string, c *Cell, origin Origin) *Ptr {
	if c == nil {
		c = ex.ZeroCell(t)
	}
	o := ex.newObj(name, t, origin, c)
	return &Ptr{Obj: o}
}

// Call runs fn on args from state st and returns the merged outcome.  Returns and
// panics of the entry function are also recorded individually in ex.Returns / ex.Panics.
func (ex *Exec) Call(st *State, fn *ssa.Function, args []Val) (out Outcome, err error) {
	defer func() {
		if r := recover(); r != nil {
			if a, ok := r.(abortSignal); ok {
				err = fmt.Errorf("%s", a.msg)
				return
			}
			if _, ok := r.(loopSignal); ok {
				err = fmt.Errorf("unhandled loop signal")
				return
			}
			panic(r)
		}
	}()
	fr := ex.newFrame(fn, nil, nil)
	ex.topFrame = fr
	if len(args) != len(fn.Params) {
		return Outcome{}, fmt.Errorf("Call %s: %d args for %d params", fn, len(args), len(fn.Params))
	}
	for i, p := range fn.Params {
		fr.Regs[p] = args[i]
	}
	if fn.Blocks == nil {
		return Outcome{}, fmt.Errorf("Call %s: no body", fn)
	}
	out = ex.run(fr, st, fn.Blocks[0], nil, nil, nil)
	return out, nil
}

func (ex *Exec) newFrame(fn *ssa.Function, parent *Frame, site ssa.CallInstruction) *Frame {
	d := 0
	if parent != nil {
		d = parent.Depth + 1
	}
	if d > 80 {
		panic(abortSignal{"call depth exceeded at " + fn.String()})
	}
	return &Frame{Fn: fn, Regs: map[ssa.Value]Val{}, Parent: parent, Site: site, Depth: d,
		act: &activation{active: map[*ssa.BasicBlock]int{}, snaps: map[*ssa.BasicBlock]*loopSnap{}}, loopHdr: map[*ssa.BasicBlock]*loopCtx{}}
}

func (fr *Frame) fork() *Frame {
	n := *fr
	n.Regs = make(map[ssa.Value]Val, len(fr.Regs)+8)
	for k, v := range fr.Regs {
		n.Regs[k] = v
	}
	return &n
}

// ------------------------------------------------------------------ post-dominators

func (ex *Exec) ipdom(fn *ssa.Function) map[*ssa.BasicBlock]*ssa.BasicBlock {
	if m, ok := ex.pdoms[fn]; ok {
		return m
	}
	n := len(fn.Blocks)
	// node n is the virtual exit
	succs := make([][]int, n+1)
	preds := make([][]int, n+1)
	for _, b := range fn.Blocks {
		if len(b.Succs) == 0 {
			// only returning blocks reach the exit: a panicking arm imposes no join
			if _, isRet := b.Instrs[len(b.Instrs)-1].(*ssa.Return); isRet {
				succs[b.Index] = []int{n}
				preds[n] = append(preds[n], b.Index)
			}
		}
		for _, s := range b.Succs {
			succs[b.Index] = append(succs[b.Index], s.Index)
			preds[s.Index] = append(preds[s.Index], b.Index)
		}
	}
	// reverse post-order of the reverse graph from exit
	order := []int{}
	seen := make([]bool, n+1)
	var dfs func(int)
	dfs = func(u int) {
		seen[u] = true
		for _, v := range preds[u] {
			if !seen[v] {
				dfs(v)
			}
		}
		order = append(order, u)
	}
	dfs(n)
	rpo := make([]int, n+1)
	for i := range rpo {
		rpo[i] = -1
	}
	for i, u := range order {
		rpo[u] = len(order) - 1 - i
	}
	idom := make([]int, n+1)
	for i := range idom {
		idom[i] = -1
	}
	idom[n] = n
	intersect := func(a, b int) int {
		for a != b {
			for rpo[a] > rpo[b] {
				a = idom[a]
			}
			for rpo[b] > rpo[a] {
				b = idom[b]
			}
		}
		return a
	}
	changed := true
	for changed {
		changed = false
		for i := len(order) - 1; i >= 0; i-- {
			u := order[i]
			if u == n {
				continue
			}
			ni := -1
			for _, s := range succs[u] {
				if idom[s] == -1 {
					continue
				}
				if ni == -1 {
					ni = s
				} else {
					ni = intersect(s, ni)
				}
			}
			if ni != -1 && idom[u] != ni {
				idom[u] = ni
				changed = true
			}
		}
	}
	m := map[*ssa.BasicBlock]*ssa.BasicBlock{}
	for _, b := range fn.Blocks {
		d := idom[b.Index]
		if d >= 0 && d < n {
			m[b] = fn.Blocks[d]
		} else {
			m[b] = nil
		}
	}
	ex.pdoms[fn] = m
	return m
}

// loopBody returns the natural loop blocks of header h.
func (ex *Exec) loopBody(h *ssa.BasicBlock) map[*ssa.BasicBlock]bool {
	if m, ok := ex.loops[h]; ok {
		return m
	}
	body := map[*ssa.BasicBlock]bool{h: true}
	var stack []*ssa.BasicBlock
	for _, p := range h.Preds {
		if h.Dominates(p) {
			if !body[p] {
				body[p] = true
				stack = append(stack, p)
			}
		}
	}
	for len(stack) > 0 {
		b := stack[len(stack)-1]
		stack = stack[:len(stack)-1]
		for _, p := range b.Preds {
			if !body[p] {
				body[p] = true
				stack = append(stack, p)
			}
		}
	}
	ex.loops[h] = body
	return body
}

// ------------------------------------------------------------------ main loop

func (ex *Exec) evalPhis(fr *Frame, st *State, b, prev *ssa.BasicBlock) map[*ssa.Phi]Val {
	var m map[*ssa.Phi]Val
	idx := -1
	for i, p := range b.Preds {
		if p == prev {
			idx = i
			break
		}
	}
	for _, in := range b.Instrs {
		phi, ok := in.(*ssa.Phi)
		if !ok {
			break
		}
		if m == nil {
			m = map[*ssa.Phi]Val{}
		}
		if idx < 0 {
			ex.fail("phi without matching predecessor in %s", fr.Fn)
			m[phi] = sym.Fresh(sym.Any, "phi", 0)
			continue
		}
		m[phi] = ex.operand(fr, st, phi.Edges[idx])
	}
	return m
}

func (ex *Exec) run(fr *Frame, st *State, b, prev *ssa.BasicBlock, pre map[*ssa.Phi]Val, stop *ssa.BasicBlock) (out Outcome) {
	ex.runCtr++
	runID := ex.runCtr
	defer func() {
		if r := recover(); r != nil {
			if _, ok := r.(deadSignal); ok {
				out = Outcome{}
				return
			}
			if ls, ok := r.(loopSignal); ok && ls.act == fr.act {
				if sn := fr.act.snaps[ls.hdr]; sn != nil && sn.runID == runID {
					// the loop entered during this invocation has a non-constant trip count:
					// forget what was done since its entry and widen it
					ex.Events = ex.Events[:min(sn.evMark, len(ex.Events))]
					ex.Returns = ex.Returns[:min(sn.retMark, len(ex.Returns))]
					ex.Panics = ex.Panics[:min(sn.panMark, len(ex.Panics))]
					delete(fr.act.snaps, ls.hdr)
					wf := fr.fork()
					wf.Regs = sn.regs
					wf.loopHdr = sn.loopHdr
					out = ex.widenLoop(wf, sn.st, ls.hdr, sn.phis, stop)
					return
				}
			}
			panic(r)
		}
	}()
	for {
		if b == stop && stop != nil {
			return Outcome{Live: &LiveAt{St: st, Regs: fr.Regs, Phi: ex.evalPhis(fr, st, b, prev)}}
		}
		if lc := fr.loopHdr[b]; lc != nil && prev != nil {
			// back edge of a loop being widened: record and stop this path
			lc.backStates = append(lc.backStates, st)
			lc.backPhis = append(lc.backPhis, ex.evalPhis(fr, st, b, prev))
			return Outcome{}
		}
		if pre == nil && prev != nil {
			pre = ex.evalPhis(fr, st, b, prev)
		}
		if fr.loopHdr[b] == nil && ex.isLoopHeader(b) && (prev == nil || !ex.loopBody(b)[prev]) {
			// entering a loop from outside: remember the entry state in case it must be widened
			regs := make(map[ssa.Value]Val, len(fr.Regs))
			for k, v := range fr.Regs {
				regs[k] = v
			}
			fr.act.snaps[b] = &loopSnap{st: st.clone(), regs: regs, phis: pre, runID: runID,
				evMark: len(ex.Events), retMark: len(ex.Returns), panMark: len(ex.Panics), loopHdr: fr.loopHdr}
		}
		for p, v := range pre {
			fr.Regs[p] = v
		}
		pre = nil
		ex.cur = fr
		ex.curState = st
		var next *ssa.BasicBlock
		for _, in := range b.Instrs {
			if _, ok := in.(*ssa.Phi); ok {
				continue
			}
			ex.steps++
			if ex.steps > ex.Cfg.MaxSteps {
				panic(abortSignal{"step budget exceeded in " + fr.Fn.String()})
			}
			switch t := in.(type) {
			case *ssa.Jump:
				next = b.Succs[0]
			case *ssa.If:
				cv := ex.operand(fr, st, t.Cond)
				ct, ok := st.Resolve(cv).(*sym.Term)
				if !ok {
					ex.fail("branch on non-term condition %s at %s", ValString(cv), ex.Position(t.Pos()))
					ct = sym.Fresh(sym.Bool, "cond", TaintOf(cv))
				}
				ct = st.Simplify(ct)
				if d, ok := st.Decided(ct); ok {
					if d {
						next = b.Succs[0]
					} else {
						next = b.Succs[1]
					}
					break
				}
				ex.event(Event{Kind: EvBranch, Pos: condPos(t), Term: ct})
				return ex.fork(fr, st, b, t, ct, stop)
			case *ssa.Return:
				var res Val
				switch len(t.Results) {
				case 0:
					res = nil
				case 1:
					res = ex.operand(fr, st, t.Results[0])
				default:
					tu := make(Tuple, len(t.Results))
					for i, r := range t.Results {
						tu[i] = ex.operand(fr, st, r)
					}
					res = tu
				}
				if ex.topFrame != nil && fr.act == ex.topFrame.act {
					ex.Returns = append(ex.Returns, Exit{Guard: append([]Lit(nil), st.Guard...), Results: res, St: st, Pos: t.Pos(), Instr: t})
				}
				return Outcome{Ret: &RetAt{St: st, Results: res}, RetCond: sym.ConstBool(true)}
			case *ssa.Panic:
				msg := ValString(ex.operand(fr, st, t.X))
				e := Exit{Guard: append([]Lit(nil), st.Guard...), St: st, Pos: t.Pos(), Msg: msg, Stack: ex.stackNames(), Instr: t}
				ex.Panics = append(ex.Panics, e)
				ex.event(Event{Kind: EvPanic, Pos: t.Pos(), Msg: msg})
				return Outcome{}
			default:
				ex.instr(fr, st, in)
				ex.cur = fr
				ex.curState = st
			}
		}
		if next == nil {
			ex.fail("block without terminator in %s", fr.Fn)
			return Outcome{}
		}
		prev, b = b, next
	}
}

func condPos(t *ssa.If) token.Pos {
	if p := t.Cond.Pos(); p.IsValid() {
		return p
	}
	if in, ok := t.Cond.(ssa.Instruction); ok && in.Pos().IsValid() {
		return in.Pos()
	}
	// fall back to any positioned instruction of the block
	for _, in := range t.Block().Instrs {
		if in.Pos().IsValid() {
			return in.Pos()
		}
	}
	return token.NoPos
}

func rc(o Outcome) *sym.Term {
	if o.Ret == nil {
		return sym.ConstBool(false)
	}
	if o.Live == nil {
		return sym.ConstBool(true)
	}
	return o.RetCond
}

func (o Outcome) dead() bool { return o.Live == nil && o.Ret == nil }

func (ex *Exec) mergeOutcomes(c *sym.Term, oT, oF Outcome, guardLen int) Outcome {
	if oT.dead() {
		return oF
	}
	if oF.dead() {
		return oT
	}
	var r Outcome
	switch {
	case oT.Live != nil && oF.Live != nil:
		l := &LiveAt{St: MergeStates(c, oT.Live.St, oF.Live.St, guardLen)}
		l.Regs = oT.Live.Regs
		for k, v := range oF.Live.Regs {
			if _, ok := l.Regs[k]; !ok {
				l.Regs[k] = v
			}
		}
		if oT.Live.Phi != nil || oF.Live.Phi != nil {
			l.Phi = map[*ssa.Phi]Val{}
			for p, v := range oT.Live.Phi {
				l.Phi[p] = MergeVal(c, v, oF.Live.Phi[p])
			}
		}
		r.Live = l
	case oT.Live != nil:
		r.Live = oT.Live
	case oF.Live != nil:
		r.Live = oF.Live
	}
	switch {
	case oT.Ret != nil && oF.Ret != nil:
		r.Ret = &RetAt{St: MergeStates(c, oT.Ret.St, oF.Ret.St, guardLen), Results: MergeVal(c, oT.Ret.Results, oF.Ret.Results)}
	case oT.Ret != nil:
		r.Ret = oT.Ret
	case oF.Ret != nil:
		r.Ret = oF.Ret
	}
	r.RetCond = sym.Ite(c, rc(oT), rc(oF))
	return r
}

func (ex *Exec) fork(fr *Frame, st *State, b *ssa.BasicBlock, ifi *ssa.If, c *sym.Term, stop *ssa.BasicBlock) (out Outcome) {
	if fr.loopHdr[b] == nil && ex.isLoopHeader(b) {
		// the exit test of a loop is not constant
		panic(loopSignal{act: fr.act, hdr: b})
	}
	if fr.act.active[b] >= nestLimit {
		if h := ex.innermostLoop(b); h != nil && fr.loopHdr[h] == nil {
			panic(loopSignal{act: fr.act, hdr: h})
		}
		panic(abortSignal{"unbounded re-entry of a branch outside any loop at " + ex.Position(condPos(ifi))})
	}
	j := ex.ipdom(fr.Fn)[b]
	if j == nil {
		j = stop
	} else if stop != nil && !ex.reaches(j, stop) {
		// the join lies beyond the enclosing stop
		j = stop
	}
	guardLen := len(st.Guard)
	pos := ex.Position(condPos(ifi))

	fr.act.active[b]++
	var merged Outcome
	func() {
		defer func() { fr.act.active[b]-- }()
		stT := st.clone()
		stT.pushLit(c, true, pos)
		frT := fr.fork()
		oT := ex.run(frT, stT, b.Succs[0], b, nil, j)
		stF := st.clone()
		stF.pushLit(c, false, pos)
		frF := fr.fork()
		oF := ex.run(frF, stF, b.Succs[1], b, nil, j)
		merged = ex.mergeOutcomes(c, oT, oF, guardLen)
	}()
	if merged.Live == nil || j == stop {
		return merged
	}
	// continue at the join
	for k, v := range merged.Live.Regs {
		fr.Regs[k] = v
	}
	phi := merged.Live.Phi
	if phi == nil {
		phi = map[*ssa.Phi]Val{}
	}
	lst := merged.Live.St
	if merged.Ret != nil {
		// we are past the early returns: remember that fact in the guard
		early := lst.Simplify(merged.RetCond)
		if !early.IsConst() {
			lst.pushLit(early, false, pos)
		}
	}
	o2 := ex.run(fr, lst, j, nil, phi, stop)
	if merged.Ret == nil {
		return o2
	}
	early := merged.RetCond
	var r Outcome
	r.Live = o2.Live
	if o2.Ret != nil {
		r.Ret = &RetAt{St: MergeStates(early, merged.Ret.St, o2.Ret.St, guardLen), Results: MergeVal(early, merged.Ret.Results, o2.Ret.Results)}
		r.RetCond = sym.Ite(early, sym.ConstBool(true), rc(o2))
	} else {
		r.Ret = merged.Ret
		if o2.Live != nil {
			r.RetCond = early
		} else {
			r.RetCond = sym.ConstBool(true)
		}
	}
	return r
}

func (ex *Exec) reaches(from, to *ssa.BasicBlock) bool {
	if from == to {
		return true
	}
	seen := map[*ssa.BasicBlock]bool{from: true}
	stack := []*ssa.BasicBlock{from}
	for len(stack) > 0 {
		b := stack[len(stack)-1]
		stack = stack[:len(stack)-1]
		for _, s := range b.Succs {
			if s == to {
				return true
			}
			if !seen[s] {
				seen[s] = true
				stack = append(stack, s)
			}
		}
	}
	return false
}

// ------------------------------------------------------------------ loop widening

type cellRef struct {
	obj  *Obj
	path string
	ptr  *Ptr
}

func diffCells(o *Obj, path []Step, a, b *Cell, out map[string]cellRef) {
	if a == b || b == nil {
		return
	}
	if a == nil {
		a = &Cell{}
	}
	if b.Kids != nil && a.Kids != nil && len(a.Kids) == len(b.Kids) {
		for i := range b.Kids {
			var st Step
			if _, ok := o.Typ.Underlying().(*types.Struct); ok && len(path) == 0 {
				st = Step{Field: i}
			} else {
				st = Step{Field: -2, Index: sym.ConstI(int64(i))}
			}
			np := append(append([]Step(nil), path...), st)
			diffCells(o, np, a.Kids[i], b.Kids[i], out)
		}
		return
	}
	if a.V != nil && b.V != nil && valEqual(a.V, b.V) {
		return
	}
	if a.Arr != nil && b.Arr != nil && a.Arr.Version == b.Arr.Version && a.Arr.Content == b.Arr.Content && len(a.Arr.Written) == len(b.Arr.Written) {
		same := true
		for k, v := range a.Arr.Written {
			if w, ok := b.Arr.Written[k]; !ok || !valEqual(v, w) {
				same = false
			}
		}
		if same {
			return
		}
	}
	key := fmt.Sprintf("%d%s", o.ID, kidPath(path))
	out[key] = cellRef{obj: o, path: kidPath(path), ptr: &Ptr{Obj: o, Path: path}}
}

func kidPath(p []Step) string {
	var b strings.Builder
	for _, s := range p {
		if s.Field >= 0 {
			fmt.Fprintf(&b, ".%d", s.Field)
		} else {
			fmt.Fprintf(&b, "[%s]", s.Index)
		}
	}
	return b.String()
}

// navigate a cell tree by raw kid indices (diffCells paths use Field -2 for "kid index").
func kidIndex(s Step) int {
	if s.Field >= 0 {
		return s.Field
	}
	i, _ := s.Index.Int64()
	return int(i)
}

func havocCell(c *Cell, taint uint64, name string) *Cell {
	if c == nil {
		return &Cell{V: sym.Fresh(sym.Any, name, taint)}
	}
	if c.Kids != nil {
		n := &Cell{Kids: make([]*Cell, len(c.Kids))}
		for i, k := range c.Kids {
			n.Kids[i] = havocCell(k, taint, name)
		}
		return n
	}
	if c.Arr != nil {
		a := *c.Arr
		a.Version++
		a.Written = nil
		a.Taint |= taint
		a.elems = map[int]Val{}
		if a.Content != nil {
			a.Content = sym.Fresh(sym.Bytes, a.Name+"'", a.Taint)
		}
		return &Cell{Arr: &a}
	}
	return &Cell{V: havocVal(c.V, taint, name)}
}

func havocVal(v Val, taint uint64, name string) Val {
	switch x := v.(type) {
	case *sym.Term:
		return sym.Fresh(x.Sort, name, taint|x.Taint)
	case *SliceVal:
		if x.Base == nil {
			return &Iface{Opaque: sym.Fresh(sym.Any, name, taint)}
		}
		return &SliceVal{Base: x.Base, Len: sym.Fresh(sym.Int, name+".len", taint|x.Len.Taint), Cap: x.Cap}
	case *Agg:
		n := &Agg{Typ: x.Typ, Elems: make([]Val, len(x.Elems))}
		for i, e := range x.Elems {
			n.Elems[i] = havocVal(e, taint, name)
		}
		return n
	case nil:
		return nil
	}
	return &Iface{Opaque: sym.Fresh(sym.Any, name, taint|TaintOf(v))}
}

func replaceAt(c *Cell, path []Step, f func(*Cell) *Cell) *Cell {
	if len(path) == 0 {
		return f(c)
	}
	if c == nil || c.Kids == nil {
		return c
	}
	i := kidIndex(path[0])
	if i < 0 || i >= len(c.Kids) {
		return c
	}
	n := &Cell{Kids: append([]*Cell(nil), c.Kids...)}
	n.Kids[i] = replaceAt(c.Kids[i], path[1:], f)
	return n
}

func cellAt(c *Cell, path []Step) *Cell {
	for _, s := range path {
		if c == nil || c.Kids == nil {
			return nil
		}
		i := kidIndex(s)
		if i < 0 || i >= len(c.Kids) {
			return nil
		}
		c = c.Kids[i]
	}
	return c
}

func (ex *Exec) widenLoop(fr *Frame, st0 *State, hdr *ssa.BasicBlock, entryPhi map[*ssa.Phi]Val, stop *ssa.BasicBlock) Outcome {
	ex.event(Event{Kind: EvWiden, Pos: firstPos(hdr), Msg: "loop at " + ex.Position(firstPos(hdr)) + " widened (non-constant trip count)"})
	modified := map[string]cellRef{}
	modTaint := map[string]uint64{}
	phiTaint := map[*ssa.Phi]uint64{}
	entryObjCtr := ex.objCtr
	var phis []*ssa.Phi
	for _, in := range hdr.Instrs {
		if p, ok := in.(*ssa.Phi); ok {
			phis = append(phis, p)
		} else {
			break
		}
	}
	firstPhi := map[*ssa.Phi]Val{}
	ptrAlts := map[*ssa.Phi][]Val{}
	addAlt := func(p *ssa.Phi, v Val) bool {
		added := false
		var leaves func(v Val)
		leaves = func(v Val) {
			switch x := v.(type) {
			case *Choice:
				leaves(x.A)
				leaves(x.B)
			case *Ptr:
				for _, a := range ptrAlts[p] {
					if q, ok := a.(*Ptr); ok && SamePtr(q, x) {
						return
					}
				}
				ptrAlts[p] = append(ptrAlts[p], x)
				added = true
			}
		}
		leaves(v)
		return added
	}
	for _, p := range phis {
		firstPhi[p] = entryPhi[p]
		phiTaint[p] = TaintOf(entryPhi[p])
		if _, isPtr := entryPhi[p].(*Ptr); isPtr {
			addAlt(p, entryPhi[p])
		}
	}
	var out Outcome
	for iter := 0; ; iter++ {
		if iter > 8 {
			ex.fail("loop widening did not stabilise at %s", ex.Position(firstPos(hdr)))
			break
		}
		evMark, retMark, panMark := len(ex.Events), len(ex.Returns), len(ex.Panics)
		st := st0.clone()
		keys := make([]string, 0, len(modified))
		for k := range modified {
			keys = append(keys, k)
		}
		sort.Strings(keys)
		for _, k := range keys {
			ref := modified[k]
			root := st.cellOf(ref.obj)
			st.mem[ref.obj] = replaceAt(root, ref.ptr.Path, func(c *Cell) *Cell {
				return havocCell(c, modTaint[k], "loop:"+ref.obj.Name+ref.path)
			})
		}
		f := fr.fork()
		f.loopHdr = map[*ssa.BasicBlock]*loopCtx{}
		for k, v := range fr.loopHdr {
			f.loopHdr[k] = v
		}
		lc := &loopCtx{}
		f.loopHdr[hdr] = lc
		pre := map[*ssa.Phi]Val{}
		for _, p := range phis {
			if alts := ptrAlts[p]; len(alts) > 0 {
				// a loop-carried pointer ranges over the finitely many addresses observed (entry and back edges)
				var v Val = alts[len(alts)-1]
				for i := len(alts) - 2; i >= 0; i-- {
					v = &Choice{Cond: sym.Fresh(sym.Bool, "loop:"+p.Name()+".sel", phiTaint[p]), A: alts[i], B: v}
				}
				pre[p] = v
				continue
			}
			pre[p] = havocVal(firstPhi[p], phiTaint[p], "loop:"+p.Name())
			if pre[p] == nil {
				pre[p] = sym.Fresh(sym.Any, "loop:"+p.Name(), phiTaint[p])
			}
		}
		out = ex.run(f, st, hdr, nil, pre, stop)
		// collect what the body modified
		changed := false
		for bi, bs := range lc.backStates {
			for o, cb := range bs.mem {
				if o.ID > entryObjCtr {
					continue // allocated inside the loop
				}
				d := map[string]cellRef{}
				diffCells(o, nil, st.cellOf(o), cb, d)
				for k, ref := range d {
					t := cellTaint(cellAt(cb, ref.ptr.Path))
					if _, ok := modified[k]; !ok {
						modified[k] = ref
						changed = true
					}
					if modTaint[k]|t != modTaint[k] {
						modTaint[k] |= t
						changed = true
					}
				}
			}
			for p, v := range lc.backPhis[bi] {
				if len(ptrAlts[p]) > 0 && onlyPtrLeaves(v) {
					if addAlt(p, v) {
						changed = true
					}
				} else if len(ptrAlts[p]) > 0 {
					ptrAlts[p] = nil // not a finite set of addresses: havoc
					changed = true
				}
				t := TaintOf(v)
				if phiTaint[p]|t != phiTaint[p] {
					phiTaint[p] |= t
					changed = true
				}
			}
		}
		if !changed {
			break
		}
		ex.Events = ex.Events[:evMark]
		ex.Returns = ex.Returns[:retMark]
		ex.Panics = ex.Panics[:panMark]
	}
	if out.Live != nil {
		for k, v := range out.Live.Regs {
			fr.Regs[k] = v
		}
	}
	return out
}

// onlyPtrLeaves: v is an address or a choice between addresses.
func onlyPtrLeaves(v Val) bool {
	switch x := v.(type) {
	case *Ptr:
		return true
	case *Choice:
		return onlyPtrLeaves(x.A) && onlyPtrLeaves(x.B)
	}
	return false
}

func firstPos(b *ssa.BasicBlock) token.Pos {
	for _, in := range b.Instrs {
		if in.Pos().IsValid() {
			return in.Pos()
		}
	}
	return token.NoPos
}

// isLoopHeader reports whether b is the target of a back edge.
func (ex *Exec) isLoopHeader(b *ssa.BasicBlock) bool {
	for _, p := range b.Preds {
		if b.Dominates(p) {
			return true
		}
	}
	return false
}

// innermostLoop returns the header of the smallest natural loop containing b.
func (ex *Exec) innermostLoop(b *ssa.BasicBlock) *ssa.BasicBlock {
	var best *ssa.BasicBlock
	bestSize := 0
	for _, h := range b.Parent().Blocks {
		if !ex.isLoopHeader(h) {
			continue
		}
		body := ex.loopBody(h)
		if body[b] && (best == nil || len(body) < bestSize) {
			best, bestSize = h, len(body)
		}
	}
	return best
}
