package absint

import (
	"fmt"
	"go/constant"
	"go/token"
	"go/types"
	"math/big"
	"strconv"
	"strings"

	"golang.org/x/tools/go/ssa"

	"verif/internal/sym"
)

// operand evaluates an SSA value in a frame.
func (ex *Exec) operand(fr *Frame, st *State, v ssa.Value) Val {
	switch x := v.(type) {
	case *ssa.Const:
		return ex.constVal(x)
	case *ssa.Global:
		return ex.globalPtr(st, x)
	case *ssa.Function:
		return &Closure{Fn: x}
	case *ssa.Builtin:
		return x
	}
	if r, ok := fr.Regs[v]; ok {
		return r
	}
	if fv, ok := v.(*ssa.FreeVar); ok {
		ex.fail("unbound free variable %s", fv.Name())
	} else {
		ex.fail("use of undefined SSA value %s (%T) in %s", v.Name(), v, fr.Fn)
	}
	return sym.Fresh(sym.Any, "undef:"+v.Name(), 0)
}

func (ex *Exec) constVal(c *ssa.Const) Val {
	t := c.Type()
	if c.Value == nil {
		switch u := t.Underlying().(type) {
		case *types.Interface:
			return &Iface{}
		case *types.Basic:
			_ = u
			return ex.CellToValue(ex.ZeroCell(t), t)
		case *types.Struct, *types.Array:
			return ex.CellToValue(ex.ZeroCell(t), t)
		}
		return Nil{}
	}
	switch c.Value.Kind() {
	case constant.Bool:
		return sym.ConstBool(constant.BoolVal(c.Value))
	case constant.String:
		return sym.ConstStr(sym.Bytes, constant.StringVal(c.Value))
	case constant.Int:
		bi, ok := new(big.Int).SetString(c.Value.ExactString(), 10)
		if !ok {
			ex.fail("bad int constant %s", c.Value)
			return sym.ConstI(0)
		}
		return sym.Const(sym.Int, wrapInt(bi, t))
	}
	ex.fail("unsupported constant kind %v", c.Value.Kind())
	return sym.Fresh(sym.Any, "const", 0)
}

// intInfo returns (bits, signed) for an integer type (0 bits if not integer).
func intInfo(t types.Type) (int, bool) {
	b, ok := t.Underlying().(*types.Basic)
	if !ok {
		return 0, false
	}
	switch b.Kind() {
	case types.Int8:
		return 8, true
	case types.Int16:
		return 16, true
	case types.Int32:
		return 32, true
	case types.Int64, types.Int, types.UntypedInt:
		return 64, true
	case types.Uint8:
		return 8, false
	case types.Uint16:
		return 16, false
	case types.Uint32:
		return 32, false
	case types.Uint64, types.Uint, types.Uintptr:
		return 64, false
	}
	return 0, false
}

func wrapInt(v *big.Int, t types.Type) *big.Int {
	bits, signed := intInfo(t)
	if bits == 0 {
		return v
	}
	mod := new(big.Int).Lsh(big.NewInt(1), uint(bits))
	r := new(big.Int).Mod(v, mod)
	if signed {
		half := new(big.Int).Lsh(big.NewInt(1), uint(bits-1))
		if r.Cmp(half) >= 0 {
			r.Sub(r, mod)
		}
	}
	return r
}

func (ex *Exec) term(st *State, v Val) (*sym.Term, bool) {
	v = st.Resolve(v)
	t, ok := v.(*sym.Term)
	return t, ok
}

// instr executes a non-terminator instruction.
func (ex *Exec) instr(fr *Frame, st *State, in ssa.Instruction) {
	switch t := in.(type) {
	case *ssa.DebugRef:
	case *ssa.Alloc:
		name := t.Comment
		if name == "" {
			name = t.Name()
		}
		et := t.Type().Underlying().(*types.Pointer).Elem()
		o := ex.newObj(name, et, Origin{Kind: "local"}, ex.ZeroCell(et))
		o.Pos = t.Pos()
		o.Site = t
		fr.Regs[t] = &Ptr{Obj: o}
	case *ssa.UnOp:
		fr.Regs[t] = ex.unop(fr, st, t)
	case *ssa.BinOp:
		x, y := ex.operand(fr, st, t.X), ex.operand(fr, st, t.Y)
		fr.Regs[t] = ex.binop(st, t.Op, x, y, t.X.Type(), t.Pos())
	case *ssa.Store:
		addr := st.Resolve(ex.operand(fr, st, t.Addr))
		val := ex.operand(fr, st, t.Val)
		p, ok := addr.(*Ptr)
		if !ok {
			ex.fail("store through non-pointer %s at %s", ValString(addr), ex.Position(t.Pos()))
			return
		}
		if g, isG := t.Addr.(*ssa.Global); isG && ex.inInit > 0 {
			if _, over := ex.Cfg.GlobalInit[globalKey(g)]; over {
				return
			}
		}
		ex.storeTyped(st, p, val, t.Val.Type(), t.Pos())
	case *ssa.FieldAddr:
		x := st.Resolve(ex.operand(fr, st, t.X))
		p, ok := x.(*Ptr)
		if !ok {
			ex.fail("field address of non-pointer %s (field %d) at %s", ValString(x), t.Field, ex.Position(t.Pos()))
			fr.Regs[t] = &Iface{Opaque: sym.Fresh(sym.Any, "badptr", TaintOf(x))}
			return
		}
		fr.Regs[t] = p.extend(Step{Field: t.Field})
	case *ssa.Field:
		x := st.Resolve(ex.operand(fr, st, t.X))
		a, ok := x.(*Agg)
		if !ok || t.Field >= len(a.Elems) {
			ex.fail("field of non-aggregate %s at %s", ValString(x), ex.Position(t.Pos()))
			fr.Regs[t] = sym.Fresh(sym.Any, "field", TaintOf(x))
			return
		}
		fr.Regs[t] = a.Elems[t.Field]
	case *ssa.IndexAddr:
		x := st.Resolve(ex.operand(fr, st, t.X))
		idx, ok := ex.term(st, ex.operand(fr, st, t.Index))
		if !ok {
			ex.fail("non-term index at %s", ex.Position(t.Pos()))
			idx = sym.Fresh(sym.Int, "idx", 0)
		}
		if !idx.IsConst() {
			ex.event(Event{Kind: EvIndex, Pos: t.Pos(), Term: idx})
		}
		switch b := x.(type) {
		case *Ptr:
			if b.View {
				fr.Regs[t] = ex.indexPtr(b, idx)
			} else {
				fr.Regs[t] = b.extend(Step{Field: -1, Index: idx})
			}
		case *SliceVal:
			if b.Base == nil {
				ex.fail("index of nil slice at %s", ex.Position(t.Pos()))
				fr.Regs[t] = &Iface{Opaque: sym.Fresh(sym.Any, "badptr", 0)}
				return
			}
			ex.checkIndex(st, idx, b.Len, t.Pos())
			fr.Regs[t] = ex.indexPtr(b.Base, idx)
		default:
			ex.fail("index address of %s at %s", ValString(x), ex.Position(t.Pos()))
			fr.Regs[t] = &Iface{Opaque: sym.Fresh(sym.Any, "badptr", TaintOf(x))}
		}
	case *ssa.Index:
		x := st.Resolve(ex.operand(fr, st, t.X))
		idx, _ := ex.term(st, ex.operand(fr, st, t.Index))
		if idx == nil {
			idx = sym.Fresh(sym.Int, "idx", 0)
		}
		if !idx.IsConst() {
			ex.event(Event{Kind: EvIndex, Pos: t.Pos(), Term: idx})
		}
		switch a := x.(type) {
		case *Agg:
			if i, ok := idx.Int64(); ok && i >= 0 && int(i) < len(a.Elems) {
				fr.Regs[t] = a.Elems[i]
				return
			}
			args := []*sym.Term{idx}
			for _, e := range a.Elems {
				if et, ok := e.(*sym.Term); ok {
					args = append(args, et)
				}
			}
			fr.Regs[t] = sym.App(sym.Int, "sel", args...)
		case *sym.Term: // string
			fr.Regs[t] = ByteAt(a, idx)
		default:
			ex.fail("index of %s at %s", ValString(x), ex.Position(t.Pos()))
			fr.Regs[t] = sym.Fresh(sym.Any, "index", TaintOf(x))
		}
	case *ssa.Lookup:
		x, _ := ex.term(st, ex.operand(fr, st, t.X))
		idx, _ := ex.term(st, ex.operand(fr, st, t.Index))
		if x == nil || idx == nil {
			ex.fail("unsupported lookup at %s", ex.Position(t.Pos()))
			fr.Regs[t] = sym.Fresh(sym.Any, "lookup", 0)
			return
		}
		fr.Regs[t] = byteAt(x, idx)
	case *ssa.Slice:
		fr.Regs[t] = ex.sliceOp(fr, st, t)
	case *ssa.SliceToArrayPointer:
		x := st.Resolve(ex.operand(fr, st, t.X))
		n := t.Type().Underlying().(*types.Pointer).Elem().Underlying().(*types.Array).Len()
		if ch, isCh := x.(*Choice); isCh {
			// a merged slice value (e.g. nil on the failing path of a getter, the buffer otherwise): convert each
			// alternative; the length requirement is stated on the merged length
			var conv func(v Val) (Val, *sym.Term, bool)
			conv = func(v Val) (Val, *sym.Term, bool) {
				switch y := st.Resolve(v).(type) {
				case *Choice:
					a, la, oka := conv(y.A)
					b, lb, okb := conv(y.B)
					if !oka || !okb {
						return nil, nil, false
					}
					return MergeVal(y.Cond, a, b), sym.Ite(y.Cond, la, lb), true
				case *SliceVal:
					if y.Base == nil {
						return Nil{}, sym.ConstI(0), true
					}
					return &Ptr{Obj: y.Base.Obj, Path: y.Base.Path, View: true}, y.Len, true
				case Nil:
					return Nil{}, sym.ConstI(0), true
				}
				return nil, nil, false
			}
			if r, l, okc := conv(ch); okc {
				l = st.Simplify(l)
				ex.event(Event{Kind: EvIndex, Pos: t.Pos(), Term: l, Msg: fmt.Sprintf("slice-to-array-pointer needs len >= %d", n)})
				if lc, isC := l.Int64(); !isC {
					ex.bound(sym.ConstI(n), l, false, t.Pos(), "array length <= slice length")
				} else if lc < n {
					ex.event(Event{Kind: EvIndexOOB, Pos: t.Pos(), Term: l, Msg: fmt.Sprintf("slice of length %d converted to array pointer of length %d", lc, n)})
				}
				fr.Regs[t] = r
				return
			}
		}
		sv, ok := x.(*SliceVal)
		if !ok || sv.Base == nil {
			ex.fail("slice-to-array-pointer of %s at %s", ValString(x), ex.Position(t.Pos()))
			fr.Regs[t] = &Iface{Opaque: sym.Fresh(sym.Any, "badptr", 0)}
			return
		}
		ex.event(Event{Kind: EvIndex, Pos: t.Pos(), Term: sv.Len, Msg: fmt.Sprintf("slice-to-array-pointer needs len >= %d", n)})
		if _, isC := sv.Len.Int64(); !isC {
			ex.bound(sym.ConstI(n), sv.Len, false, t.Pos(), "array length <= slice length")
		}
		if l, ok := sv.Len.Int64(); ok && l < n {
			ex.event(Event{Kind: EvIndexOOB, Pos: t.Pos(), Term: sv.Len, Msg: fmt.Sprintf("slice of length %d converted to array pointer of length %d", l, n)})
		}
		fr.Regs[t] = &Ptr{Obj: sv.Base.Obj, Path: sv.Base.Path, View: true}
	case *ssa.MakeSlice:
		l, _ := ex.term(st, ex.operand(fr, st, t.Len))
		c, _ := ex.term(st, ex.operand(fr, st, t.Cap))
		et := t.Type().Underlying().(*types.Slice).Elem()
		fr.Regs[t] = ex.makeSlice(et, l, c, t.Name(), t.Pos())
	case *ssa.MakeClosure:
		c := &Closure{Fn: t.Fn.(*ssa.Function)}
		for _, b := range t.Bindings {
			c.Free = append(c.Free, ex.operand(fr, st, b))
		}
		fr.Regs[t] = c
	case *ssa.MakeInterface:
		fr.Regs[t] = &Iface{Dyn: t.X.Type(), V: ex.operand(fr, st, t.X), NonNil: true}
	case *ssa.ChangeType:
		fr.Regs[t] = ex.operand(fr, st, t.X)
	case *ssa.ChangeInterface:
		fr.Regs[t] = ex.operand(fr, st, t.X)
	case *ssa.Convert:
		fr.Regs[t] = ex.convert(st, ex.operand(fr, st, t.X), t.X.Type(), t.Type(), t.Pos())
	case *ssa.TypeAssert:
		fr.Regs[t] = ex.typeAssert(st, t, ex.operand(fr, st, t.X))
	case *ssa.Extract:
		tu := st.Resolve(ex.operand(fr, st, t.Tuple))
		fr.Regs[t] = extract(tu, t.Index)
	case *ssa.Call:
		if ex.inInit > 0 && fr.Fn.Synthetic == "package initializer" && ex.skipInitCall(t) {
			fr.Regs[t] = nil
			return
		}
		fr.Regs[t] = ex.call(fr, st, t)
	case *ssa.Phi:
	case *ssa.RunDefers:
	default:
		ex.fail("unsupported instruction %T at %s", in, ex.Position(in.Pos()))
		if v, ok := in.(ssa.Value); ok {
			fr.Regs[v] = sym.Fresh(sym.Any, "unsupported", 0)
		}
	}
}

func extract(tu Val, i int) Val {
	switch x := tu.(type) {
	case Tuple:
		if i < len(x) {
			return x[i]
		}
	case *Choice:
		return MergeVal(x.Cond, extract(x.A, i), extract(x.B, i))
	}
	return sym.Fresh(sym.Any, "extract", TaintOf(tu))
}

// indexPtr addresses element idx relative to an element-0 pointer (slice base or array view).
func (ex *Exec) indexPtr(b *Ptr, idx *sym.Term) *Ptr {
	np := append([]Step(nil), b.Path...)
	last := np[len(np)-1]
	np[len(np)-1] = Step{Field: -1, Index: sym.Add(last.Index, idx)}
	return &Ptr{Obj: b.Obj, Path: np}
}

func (ex *Exec) checkIndex(st *State, idx, length *sym.Term, pos token.Pos) {
	i, ok1 := idx.Int64()
	l, ok2 := length.Int64()
	if ok1 && ok2 && (i < 0 || i >= l) {
		ex.event(Event{Kind: EvIndexOOB, Pos: pos, Term: idx, Msg: fmt.Sprintf("index %d out of range for length %d", i, l)})
	}
	if !(ok1 && ok2) {
		ex.bound(idx, length, true, pos, "index < length")
		if !ok1 {
			ex.bound(sym.ConstI(0), idx, false, pos, "0 <= index")
		}
	}
}

// bound records a run-time bounds check a (< | <=) b that constant propagation did not settle.
func (ex *Exec) bound(a, b *sym.Term, strict bool, pos token.Pos, what string) {
	ex.event(Event{Kind: EvBound, Pos: pos, Term: a, Bound: b, Strict: strict, Msg: what})
}

func (ex *Exec) storeTyped(st *State, p *Ptr, val Val, t types.Type, pos token.Pos) {
	if p.View {
		// store of a whole array through a view pointer
		if a, ok := val.(*Agg); ok {
			for i, e := range a.Elems {
				ex.Store(st, ex.indexPtr(p, sym.ConstI(int64(i))), e, t.Underlying().(*types.Array).Elem())
			}
			return
		}
		ex.fail("unsupported store through array view at %s", ex.Position(pos))
		return
	}
	ex.noteGlobalStore(p, pos)
	ex.Store(st, p, val, t)
}

func (ex *Exec) noteGlobalStore(p *Ptr, pos token.Pos) {
	if p.Obj.Origin.Kind == "global" && ex.inInit == 0 {
		ex.event(Event{Kind: EvGlobalStore, Pos: pos, Ptr: p, Msg: "store to package-level variable " + p.Obj.Origin.Root})
	}
}

func (ex *Exec) unop(fr *Frame, st *State, t *ssa.UnOp) Val {
	x := st.Resolve(ex.operand(fr, st, t.X))
	switch t.Op {
	case token.MUL: // load
		p, ok := x.(*Ptr)
		if !ok {
			ex.fail("load through non-pointer %s at %s", ValString(x), ex.Position(t.Pos()))
			return ex.unknownOf(t.Type(), "badload", TaintOf(x))
		}
		if p.View {
			at := t.Type().Underlying().(*types.Array)
			a := &Agg{Typ: t.Type(), Elems: make([]Val, at.Len())}
			for i := range a.Elems {
				a.Elems[i] = ex.Load(st, ex.indexPtr(p, sym.ConstI(int64(i))), at.Elem())
			}
			return a
		}
		return ex.Load(st, p, t.Type())
	case token.NOT:
		if b, ok := x.(*sym.Term); ok {
			return sym.Not(b)
		}
	case token.SUB:
		if b, ok := x.(*sym.Term); ok {
			if b.IsConst() {
				return sym.Const(sym.Int, wrapInt(new(big.Int).Neg(b.C), t.Type()))
			}
			return sym.Neg(b)
		}
	case token.XOR:
		if b, ok := x.(*sym.Term); ok {
			bits, _ := intInfo(t.Type())
			if b.IsConst() && bits > 0 {
				return sym.Const(sym.Int, wrapInt(new(big.Int).Not(b.C), t.Type()))
			}
			return sym.App(sym.Int, fmt.Sprintf("not%d", bits), b)
		}
	}
	ex.fail("unsupported unary %s on %s at %s", t.Op, ValString(x), ex.Position(t.Pos()))
	return ex.unknownOf(t.Type(), "unop", TaintOf(x))
}

// unknownOf makes an unknown value of a type.
func (ex *Exec) unknownOf(t types.Type, name string, taint uint64) Val {
	c := ex.SymCell(t, sym.Fresh(sym.Any, name, 0).S, Origin{Kind: "local"}, taint, 3)
	return ex.CellToValue(c, t)
}

func byteAt(x, idx *sym.Term) *sym.Term { return ByteAt(x, idx) }

func (ex *Exec) binop(st *State, op token.Token, xv, yv Val, xt types.Type, pos token.Pos) Val {
	xv, yv = st.Resolve(xv), st.Resolve(yv)
	x, okx := xv.(*sym.Term)
	y, oky := yv.(*sym.Term)
	if !okx || !oky {
		switch op {
		case token.EQL:
			return ex.valEq(st, xv, yv)
		case token.NEQ:
			return sym.Not(ex.valEq(st, xv, yv))
		}
		ex.fail("binary %s on non-terms %s, %s at %s", op, ValString(xv), ValString(yv), ex.Position(pos))
		return sym.Fresh(sym.Any, "binop", TaintOf(xv)|TaintOf(yv))
	}
	// strings
	if b, ok := xt.Underlying().(*types.Basic); ok && b.Info()&types.IsString != 0 {
		switch op {
		case token.ADD:
			return CatBytes(x, y)
		case token.EQL:
			return sym.Eq(x, y)
		case token.NEQ:
			return sym.Not(sym.Eq(x, y))
		}
		ex.fail("unsupported string op %s at %s", op, ex.Position(pos))
		return sym.Fresh(sym.Any, "strop", x.Taint|y.Taint)
	}
	if b, ok := xt.Underlying().(*types.Basic); ok && b.Info()&types.IsBoolean != 0 {
		switch op {
		case token.EQL:
			return sym.Eq(x, y)
		case token.NEQ:
			return sym.Not(sym.Eq(x, y))
		}
	}
	bits, signed := intInfo(xt)
	if x.IsConst() && y.IsConst() && bits > 0 {
		if r := foldInt(op, x.C, y.C, bits, signed, xt); r != nil {
			return r
		}
	}
	// arithmetic in types narrower than 64 bits wraps around (64-bit lengths and indices are
	// treated as mathematical integers: they stay far below 2^63 in this code base)
	narrow := func(t *sym.Term) *sym.Term {
		if bits > 0 && bits < 64 && !signed && x.Sort != sym.Bool && y.Sort != sym.Bool {
			return Trunc(bits, t)
		}
		return t
	}
	switch op {
	case token.ADD:
		return narrow(sym.Add(x, y))
	case token.SUB:
		return narrow(sym.Sub(x, y))
	case token.MUL:
		return narrow(sym.Mul(x, y))
	case token.EQL:
		return EqInt(x, y)
	case token.NEQ:
		return sym.Not(EqInt(x, y))
	case token.LSS:
		return Lt(x, y)
	case token.GTR:
		return Lt(y, x)
	case token.LEQ:
		return sym.Not(Lt(y, x))
	case token.GEQ:
		return sym.Not(Lt(x, y))
	case token.QUO, token.REM:
		ex.event(Event{Kind: EvVarTime, Pos: pos, Term: sym.App(sym.Int, "divmod", x, y), Msg: "division/modulo"})
		return IntOp(opName(op), bits, x, y)
	case token.SHL, token.SHR:
		if !y.IsConst() {
			ex.event(Event{Kind: EvVarTime, Pos: pos, Term: y, Msg: "shift by non-constant count"})
		}
		return IntOp(opName(op), bits, x, y)
	case token.AND, token.OR, token.XOR, token.AND_NOT:
		return IntOp(opName(op), bits, x, y)
	}
	ex.fail("unsupported binary op %s at %s", op, ex.Position(pos))
	return sym.Fresh(sym.Int, "binop", x.Taint|y.Taint)
}

func opName(op token.Token) string {
	switch op {
	case token.QUO:
		return "div"
	case token.REM:
		return "mod"
	case token.SHL:
		return "shl"
	case token.SHR:
		return "shr"
	case token.AND:
		return "and"
	case token.OR:
		return "or"
	case token.XOR:
		return "xor"
	case token.AND_NOT:
		return "andnot"
	}
	return op.String()
}

// Lt builds x < y.
func Lt(x, y *sym.Term) *sym.Term {
	if x.IsConst() && y.IsConst() {
		return sym.ConstBool(x.C.Cmp(y.C) < 0)
	}
	return sym.App(sym.Bool, "lt", x, y)
}

// EqInt builds x == y for integers.  "z keeps only the bits of mask m" is written either `z&m == z` or `z&^m == 0`: both
// are normalised to `0 == z & ^m`.
func EqInt(x, y *sym.Term) *sym.Term {
	// 0 == (a[0]^b[0]) | (a[1]^b[1]) | (a[2]^b[2]) | (a[3]^b[3]) over the four limbs of two ring elements in the same
	// (injective) limb representation: the elements are equal
	for _, pr := range [][2]*sym.Term{{x, y}, {y, x}} {
		if pr[0].IsConst() && pr[0].C.Sign() == 0 {
			if r := limbwiseEqual(pr[1]); r != nil {
				return r
			}
		}
	}
	for _, pr := range [][2]*sym.Term{{x, y}, {y, x}} {
		a, z := pr[0], pr[1]
		m := intOpRe.FindStringSubmatch(a.Op)
		if m == nil || m[1] != "and" || len(a.Args) != 2 {
			continue
		}
		bits, _ := strconv.Atoi(m[2])
		for _, k := range []int{0, 1} {
			if a.Args[k] == z && a.Args[1-k].IsConst() {
				full := new(big.Int).Lsh(big.NewInt(1), uint(bits))
				full.Sub(full, big.NewInt(1))
				inv := new(big.Int).AndNot(full, a.Args[1-k].C)
				return sym.Eq(sym.ConstI(0), IntOp("and", bits, z, sym.Const(sym.Int, inv)))
			}
		}
	}
	return sym.Eq(x, y)
}

// limbwiseEqual recognises an OR-tree whose leaves are limb(A, i) ^ limb(B, i) for every i = 0..3 exactly once, with A
// and B the same representation (mont_of / int_of of some sort) of two ring elements, and returns A' == B' (nil otherwise).
func limbwiseEqual(t *sym.Term) *sym.Term {
	var leaves []*sym.Term
	var flat func(u *sym.Term) bool
	flat = func(u *sym.Term) bool {
		m := intOpRe.FindStringSubmatch(u.Op)
		if m != nil && m[1] == "or" && len(u.Args) == 2 {
			return flat(u.Args[0]) && flat(u.Args[1])
		}
		if m != nil && m[1] == "xor" && len(u.Args) == 2 {
			leaves = append(leaves, u)
			return true
		}
		return false
	}
	if !flat(t) || len(leaves) != 4 {
		return nil
	}
	var A, B *sym.Term
	seen := map[int64]bool{}
	for _, l := range leaves {
		a, b := l.Args[0], l.Args[1]
		if a.Op != "limb" || b.Op != "limb" || len(a.Args) != 2 || len(b.Args) != 2 {
			return nil
		}
		ia, oka := a.Args[1].Int64()
		ib, okb := b.Args[1].Int64()
		if !oka || !okb || ia != ib || ia < 0 || ia > 3 || seen[ia] {
			return nil
		}
		seen[ia] = true
		pa, pb := a.Args[0], b.Args[0]
		if A == nil {
			A, B = pa, pb
		} else if !(pa == A && pb == B) {
			if pa == B && pb == A {
				continue
			}
			return nil
		}
	}
	if A == nil || A.Op != B.Op || len(A.Args) != 1 || len(B.Args) != 1 {
		return nil
	}
	if !(strings.HasPrefix(A.Op, "mont_of:") || strings.HasPrefix(A.Op, "int_of:")) {
		return nil
	}
	return sym.Eq(A.Args[0], B.Args[0])
}

// IntOp builds a bit-level integer operation with light simplification.
func IntOp(name string, bits int, x, y *sym.Term) *sym.Term {
	zero := func(t *sym.Term) bool { return t.IsConst() && t.C.Sign() == 0 }
	// a 0/1 flag combined with a constant: the two possible values
	if name == "or" || name == "xor" {
		for _, pr := range [][2]*sym.Term{{x, y}, {y, x}} {
			b, k := pr[0], pr[1]
			if b.Sort == sym.Bool && k.Sort != sym.Bool && k.IsConst() && k.C.Sign() != 0 {
				one := big.NewInt(1)
				if name == "xor" && k.C.Cmp(one) == 0 {
					// flag ^ 1 is the complemented flag (flags are Bool-sorted terms standing for the words 0 and 1)
					return sym.Not(b)
				}
				v1 := new(big.Int)
				if name == "or" {
					v1.Or(k.C, one)
				} else {
					v1.Xor(k.C, one)
				}
				return sym.Ite(b, sym.Const(sym.Int, v1), sym.Const(sym.Int, k.C))
			}
		}
	}
	switch name {
	case "andnot":
		// x &^ c  ==  x & ^c
		if y.IsConst() && bits > 0 {
			full := new(big.Int).Lsh(big.NewInt(1), uint(bits))
			full.Sub(full, big.NewInt(1))
			return IntOp("and", bits, x, sym.Const(sym.Int, new(big.Int).AndNot(full, y.C)))
		}
	case "or", "xor":
		if zero(x) {
			return y
		}
		if zero(y) {
			return x
		}
		if x.Sort == sym.Bool && y.Sort == sym.Bool {
			return sym.App(sym.Bool, "b"+name, x, y)
		}
	case "and":
		if zero(x) || zero(y) {
			return sym.ConstI(0)
		}
		// a mask that keeps every bit the operand can have is the identity: (b >> k) & m with m >= 2^(bits-k) - 1,
		// b & (2^bits - 1)
		for _, pr := range [][2]*sym.Term{{x, y}, {y, x}} {
			v, m := pr[0], pr[1]
			if !m.IsConst() || v.Sort == sym.Bool {
				continue
			}
			width := bits
			if sm := intOpRe.FindStringSubmatch(v.Op); sm != nil && sm[1] == "shr" && len(v.Args) == 2 && v.Args[1].IsConst() && v.Args[1].C.IsInt64() {
				if w, _ := strconv.Atoi(sm[2]); w > 0 {
					width = w - int(v.Args[1].C.Int64())
				}
			} else if v.Op != "byteat" {
				continue
			} else {
				width = 8
			}
			if width > 0 && width <= 64 {
				full := new(big.Int).Lsh(big.NewInt(1), uint(width))
				full.Sub(full, big.NewInt(1))
				if new(big.Int).And(m.C, full).Cmp(full) == 0 {
					return v
				}
			}
		}
		if x.Sort == sym.Bool && y.Sort == sym.Bool {
			return sym.App(sym.Bool, "band", x, y)
		}
		// (bool & 1) == bool
		one := func(t *sym.Term) bool { return t.IsConst() && t.C.Cmp(big.NewInt(1)) == 0 }
		if x.Sort == sym.Bool && one(y) {
			return x
		}
		if y.Sort == sym.Bool && one(x) {
			return y
		}
		// parity of the canonical representative: limb 0 & 1
		for _, pr := range [][2]*sym.Term{{x, y}, {y, x}} {
			l, o := pr[0], pr[1]
			if one(o) && l.Op == "limb" && l.Args[0].Op[:min(7, len(l.Args[0].Op))] == "int_of:" {
				if k, ok := l.Args[1].Int64(); ok && k == 0 {
					return sym.App(sym.Bool, "odd", sym.Canon(l.Args[0].Args[0]))
				}
			}
			// last byte of a canonical big-endian encoding & 1
			if one(o) && l.Op == "byteat" && (l.Args[0].Op == "fp_bytes" || l.Args[0].Op == "fn_bytes") {
				if k, ok := l.Args[1].Int64(); ok && k == 31 {
					return sym.App(sym.Bool, "odd", sym.Canon(l.Args[0].Args[0]))
				}
			}
		}
	case "shl", "shr":
		if zero(y) {
			return x
		}
	}
	return sym.App(sym.Int, fmt.Sprintf("%s%d", name, bits), x, y)
}

func foldInt(op token.Token, a, b *big.Int, bits int, signed bool, t types.Type) *sym.Term {
	r := new(big.Int)
	ua, ub := a, b
	switch op {
	case token.ADD:
		r.Add(a, b)
	case token.SUB:
		r.Sub(a, b)
	case token.MUL:
		r.Mul(a, b)
	case token.QUO:
		if b.Sign() == 0 {
			return nil
		}
		r.Quo(a, b)
	case token.REM:
		if b.Sign() == 0 {
			return nil
		}
		r.Rem(a, b)
	case token.AND:
		r.And(ua, ub)
	case token.OR:
		r.Or(ua, ub)
	case token.XOR:
		r.Xor(ua, ub)
	case token.AND_NOT:
		r.AndNot(ua, ub)
	case token.SHL:
		if !b.IsUint64() || b.Uint64() > 4096 {
			return sym.ConstI(0)
		}
		r.Lsh(a, uint(b.Uint64()))
	case token.SHR:
		if !b.IsUint64() || b.Uint64() > 4096 {
			return sym.ConstI(0)
		}
		r.Rsh(a, uint(b.Uint64()))
	case token.EQL:
		return sym.ConstBool(a.Cmp(b) == 0)
	case token.NEQ:
		return sym.ConstBool(a.Cmp(b) != 0)
	case token.LSS:
		return sym.ConstBool(a.Cmp(b) < 0)
	case token.GTR:
		return sym.ConstBool(a.Cmp(b) > 0)
	case token.LEQ:
		return sym.ConstBool(a.Cmp(b) <= 0)
	case token.GEQ:
		return sym.ConstBool(a.Cmp(b) >= 0)
	default:
		return nil
	}
	return sym.Const(sym.Int, wrapInt(r, t))
}

// valEq compares non-term values.
func (ex *Exec) valEq(st *State, a, b Val) *sym.Term {
	a, b = st.Resolve(a), st.Resolve(b)
	if c, ok := a.(*Choice); ok {
		return sym.Ite(c.Cond, ex.valEq(st, c.A, b), ex.valEq(st, c.B, b))
	}
	if c, ok := b.(*Choice); ok {
		return sym.Ite(c.Cond, ex.valEq(st, a, c.A), ex.valEq(st, a, c.B))
	}
	isNil := func(v Val) bool {
		switch x := v.(type) {
		case Nil:
			return true
		case *Iface:
			return x.Opaque == nil && x.Dyn == nil
		case *SliceVal:
			return x.Base == nil
		}
		return false
	}
	switch {
	case isNil(a) && isNil(b):
		return sym.ConstBool(true)
	case isNil(a):
		a, b = b, a
		fallthrough
	case isNil(b):
		switch x := a.(type) {
		case *Ptr, *Closure:
			return sym.ConstBool(false)
		case *SliceVal:
			return sym.ConstBool(x.Base == nil)
		case *Iface:
			if x.Opaque != nil {
				if x.NonNil {
					return sym.ConstBool(false)
				}
				return sym.App(sym.Bool, "isnil", x.Opaque)
			}
			return sym.ConstBool(x.Dyn == nil)
		case *sym.Term:
			return sym.App(sym.Bool, "isnil", x)
		}
	}
	if pa, ok := a.(*Ptr); ok {
		if pb, ok := b.(*Ptr); ok {
			return sym.ConstBool(SamePtr(pa, pb))
		}
	}
	ia, oka := a.(*Iface)
	ib, okb := b.(*Iface)
	if oka && okb {
		if ia.Opaque == nil && ib.Opaque == nil {
			if ia.Dyn == nil || ib.Dyn == nil {
				return sym.ConstBool(ia.Dyn == nil && ib.Dyn == nil)
			}
			if !types.Identical(ia.Dyn, ib.Dyn) {
				return sym.ConstBool(false)
			}
			return ex.valEq(st, ia.V, ib.V)
		}
		return sym.App(sym.Bool, "ifaceeq", ifaceKey(ia), ifaceKey(ib))
	}
	if xa, ok := a.(*Agg); ok {
		if xb, ok := b.(*Agg); ok && len(xa.Elems) == len(xb.Elems) {
			r := sym.ConstBool(true)
			for i := range xa.Elems {
				e := ex.valEq(st, xa.Elems[i], xb.Elems[i])
				r = sym.Ite(e, r, sym.ConstBool(false))
			}
			return r
		}
	}
	if ta, ok := a.(*sym.Term); ok {
		if tb, ok := b.(*sym.Term); ok {
			return sym.Eq(ta, tb)
		}
	}
	return sym.Fresh(sym.Bool, "valeq", TaintOf(a)|TaintOf(b))
}

func ifaceKey(i *Iface) *sym.Term {
	if i.Opaque != nil {
		return i.Opaque
	}
	if i.Dyn == nil {
		return sym.ConstStr(sym.Any, "nil")
	}
	return sym.ConstStr(sym.Any, "value:"+i.Dyn.String()+":"+ValString(i.V))
}

func (ex *Exec) convert(st *State, v Val, from, to types.Type, pos token.Pos) Val {
	v = st.Resolve(v)
	fb, fok := from.Underlying().(*types.Basic)
	tb, tok := to.Underlying().(*types.Basic)
	switch {
	case fok && tok && fb.Info()&types.IsInteger != 0 && tb.Info()&types.IsInteger != 0:
		t, ok := v.(*sym.Term)
		if !ok {
			break
		}
		if t.IsConst() {
			return sym.Const(sym.Int, wrapInt(t.C, to))
		}
		fbits, fsigned := intInfo(from)
		tbits, _ := intInfo(to)
		if t.Sort == sym.Bool {
			return t
		}
		if tbits >= fbits && !fsigned {
			return t
		}
		if tbits >= fbits && fsigned {
			// sign-extension of a value: lengths and indices are non-negative in this code base
			return t
		}
		return Trunc(tbits, t)
	case tok && tb.Info()&types.IsString != 0:
		// []byte -> string
		if sv, ok := v.(*SliceVal); ok {
			n, okn := sv.Len.Int64()
			if sv.Base == nil {
				return sym.ConstStr(sym.Bytes, "")
			}
			if okn {
				return ex.ReadBytes(st, sv.Base, int(n))
			}
			return ex.ReadBytesSym(st, sv)
		}
		if t, ok := v.(*sym.Term); ok && t.Sort == sym.Bytes {
			return t
		}
	case fok && fb.Info()&types.IsString != 0:
		// string -> []byte
		if t, ok := v.(*sym.Term); ok {
			if _, isSlice := to.Underlying().(*types.Slice); isSlice {
				return ex.BytesToSlice(st, t, "conv")
			}
		}
	}
	if _, ok := to.Underlying().(*types.Pointer); ok {
		return v // unsafe.Pointer round trips
	}
	if tok && tb.Kind() == types.UnsafePointer {
		return v
	}
	ex.fail("unsupported conversion %s -> %s at %s", from, to, ex.Position(pos))
	return ex.unknownOf(to, "conv", TaintOf(v))
}

func (ex *Exec) typeAssert(st *State, t *ssa.TypeAssert, x Val) Val {
	x = st.Resolve(x)
	var val Val
	var ok *sym.Term
	switch i := x.(type) {
	case *Iface:
		switch {
		case i.Opaque != nil:
			val = ex.unknownOfNamed(t.AssertedType, i.Opaque.S+".("+types.TypeString(t.AssertedType, nil)+")", i.Opaque.Taint)
			ok = sym.App(sym.Bool, "istype:"+types.TypeString(t.AssertedType, nil), i.Opaque)
		case i.Dyn == nil:
			val, ok = ex.CellToValue(ex.ZeroCell(t.AssertedType), t.AssertedType), sym.ConstBool(false)
		default:
			match := false
			if it, isI := t.AssertedType.Underlying().(*types.Interface); isI {
				match = types.Implements(i.Dyn, it)
				if match {
					val = i
				}
			} else {
				match = types.Identical(i.Dyn, t.AssertedType)
				if match {
					val = i.V
				}
			}
			if !match {
				val = ex.CellToValue(ex.ZeroCell(t.AssertedType), t.AssertedType)
			}
			ok = sym.ConstBool(match)
		}
	case *Choice:
		ex.fail("type assertion on undecided choice at %s", ex.Position(t.Pos()))
		val, ok = ex.unknownOf(t.AssertedType, "assert", TaintOf(x)), sym.Fresh(sym.Bool, "assertok", TaintOf(x))
	default:
		ex.fail("type assertion on %s at %s", ValString(x), ex.Position(t.Pos()))
		val, ok = ex.unknownOf(t.AssertedType, "assert", TaintOf(x)), sym.Fresh(sym.Bool, "assertok", TaintOf(x))
	}
	if t.CommaOk {
		return Tuple{val, ok}
	}
	if !(ok.IsConst() && ok.C.Sign() != 0) {
		ex.event(Event{Kind: EvPanic, Pos: t.Pos(), Term: ok, Msg: "type assertion may panic"})
	}
	return val
}

func (ex *Exec) unknownOfNamed(t types.Type, name string, taint uint64) Val {
	c := ex.SymCell(t, name, Origin{Kind: "param", Root: name}, taint, 1)
	return ex.CellToValue(c, t)
}

func (ex *Exec) sliceOp(fr *Frame, st *State, t *ssa.Slice) Val {
	x := st.Resolve(ex.operand(fr, st, t.X))
	get := func(v ssa.Value) *sym.Term {
		if v == nil {
			return nil
		}
		r, ok := ex.term(st, ex.operand(fr, st, v))
		if !ok {
			ex.fail("non-term slice bound at %s", ex.Position(t.Pos()))
			return sym.Fresh(sym.Int, "bound", 0)
		}
		return r
	}
	lo, hi, mx := get(t.Low), get(t.High), get(t.Max)
	if lo == nil {
		lo = sym.ConstI(0)
	}
	var base *Ptr
	var length, capacity *sym.Term
	switch b := x.(type) {
	case *sym.Term: // string
		if hi == nil {
			if n, ok := sym.BytesLen(b); ok {
				hi = sym.ConstI(int64(n))
			} else {
				hi = sym.App(sym.Int, "len", b)
			}
		}
		return SubBytes(b, lo, hi)
	case *Ptr: // pointer to array
		var n int64
		if at, ok := t.X.Type().Underlying().(*types.Pointer).Elem().Underlying().(*types.Array); ok {
			n = at.Len()
		}
		if b.View {
			base = b
		} else {
			base = &Ptr{Obj: b.Obj, Path: append(append([]Step(nil), b.Path...), Step{Field: -1, Index: sym.ConstI(0)})}
		}
		length, capacity = sym.ConstI(n), sym.ConstI(n)
	case *SliceVal:
		if b.Base == nil {
			return &SliceVal{Len: sym.ConstI(0), Cap: sym.ConstI(0)}
		}
		base, length, capacity = b.Base, b.Len, b.Cap
	default:
		ex.fail("slice of %s at %s", ValString(x), ex.Position(t.Pos()))
		return &Iface{Opaque: sym.Fresh(sym.Any, "badslice", TaintOf(x))}
	}
	if hi == nil {
		hi = length
	}
	if mx == nil {
		mx = capacity
	}
	for _, bnd := range []*sym.Term{lo, hi} {
		if !bnd.IsConst() {
			ex.event(Event{Kind: EvIndex, Pos: t.Pos(), Term: bnd, Msg: "slice bound"})
		}
	}
	if !(lo.IsConst() && hi.IsConst()) {
		ex.bound(lo, hi, false, t.Pos(), "slice low <= high")
	}
	if !lo.IsConst() {
		ex.bound(sym.ConstI(0), lo, false, t.Pos(), "0 <= slice low")
	}
	if !(hi.IsConst() && capacity.IsConst()) && hi != capacity {
		ex.bound(hi, capacity, false, t.Pos(), "slice high <= capacity")
	}
	if l, ok := lo.Int64(); ok {
		if h, ok := hi.Int64(); ok {
			if c, ok := capacity.Int64(); ok && (l < 0 || l > h || h > c) {
				ex.event(Event{Kind: EvIndexOOB, Pos: t.Pos(), Term: hi, Msg: fmt.Sprintf("slice bounds [%d:%d] out of range for capacity %d", l, h, c)})
			}
		}
	}
	np := append([]Step(nil), base.Path...)
	last := np[len(np)-1]
	np[len(np)-1] = Step{Field: -1, Index: sym.Add(last.Index, lo)}
	return &SliceVal{Base: &Ptr{Obj: base.Obj, Path: np}, Len: sym.Sub(hi, lo), Cap: sym.Sub(mx, lo)}
}

func (ex *Exec) makeSlice(et types.Type, l, c *sym.Term, name string, pos token.Pos) Val {
	if l == nil {
		l = sym.ConstI(0)
	}
	if c == nil {
		c = l
	}
	if n, ok := c.Int64(); ok && n <= 1<<16 {
		at := types.NewArray(et, n)
		o := ex.newObj("make:"+name, at, Origin{Kind: "local"}, ex.ZeroCell(at))
		o.Pos = pos
		return &SliceVal{Base: &Ptr{Obj: o, Path: []Step{{Field: -1, Index: sym.ConstI(0)}}}, Len: l, Cap: c}
	}
	if !c.IsConst() {
		ex.event(Event{Kind: EvIndex, Pos: pos, Term: c, Msg: "make length"})
	}
	sv := ex.SymSlice(et, "make:"+name+"@"+ex.Position(pos), Origin{Kind: "local"}, c.Taint, c)
	sv.Len = l
	return sv
}
