package absint

import (
	"fmt"
	"go/types"
	"math/big"
	"regexp"
	"strconv"

	"verif/internal/sym"
)

// Trunc builds the truncation of an integer term to the given width.
func Trunc(bits int, t *sym.Term) *sym.Term {
	if t.IsConst() {
		m := new(big.Int).Lsh(big.NewInt(1), uint(bits))
		m.Sub(m, big.NewInt(1))
		return sym.Const(sym.Int, new(big.Int).And(t.C, m))
	}
	if t.Op == "ite" && t.Args[1].IsConst() && t.Args[2].IsConst() {
		return sym.Ite(t.Args[0], Trunc(bits, t.Args[1]), Trunc(bits, t.Args[2]))
	}
	if bits == 8 {
		// octet k (counted from the least significant) of limb j of the canonical representative of a ring element is
		// octet 8*(3-j) + 7-k of its canonical big-endian encoding
		w, sh := t, int64(0)
		if t.Op == "shr64" && len(t.Args) == 2 {
			if c, ok := t.Args[1].Int64(); ok && c >= 0 && c < 64 && c%8 == 0 {
				w, sh = t.Args[0], c/8
			}
		}
		if j, ok := limbOfCanonical(w); ok {
			op := "fp_bytes"
			if w.Args[0].Op == "int_of:fn" {
				op = "fn_bytes"
			}
			enc := sym.App(sym.Bytes, op, w.Args[0].Args[0])
			sym.SetBytesLen(enc, 32)
			return ByteAt(enc, sym.ConstI(8*(3-j)+7-sh))
		}
	}
	return sym.App(sym.Int, fmt.Sprintf("trunc%d", bits), t)
}

var intOpRe = regexp.MustCompile(`^(and|or|xor|shl|shr)(8|16|32|64)$`)

func foldIntOp(name string, bits int, x, y *sym.Term) *sym.Term {
	if x.IsConst() && y.IsConst() {
		m := new(big.Int).Lsh(big.NewInt(1), uint(bits))
		m.Sub(m, big.NewInt(1))
		r := new(big.Int)
		switch name {
		case "and":
			r.And(x.C, y.C)
		case "or":
			r.Or(x.C, y.C)
		case "xor":
			r.Xor(x.C, y.C)
		case "shl":
			if y.C.BitLen() > 16 {
				return IntOp(name, bits, x, y)
			}
			r.Lsh(x.C, uint(y.C.Int64()))
		case "shr":
			if y.C.BitLen() > 16 {
				return IntOp(name, bits, x, y)
			}
			r.Rsh(x.C, uint(y.C.Int64()))
		}
		return sym.Const(sym.Int, r.And(r, m))
	}
	return IntOp(name, bits, x, y)
}

func init() {
	for _, b := range []int{8, 16, 32, 64} {
		b := b
		termOps[fmt.Sprintf("trunc%d", b)] = func(s sym.Sort, args []*sym.Term) *sym.Term { return Trunc(b, args[0]) }
		for _, op := range []string{"and", "or", "xor", "shl", "shr"} {
			op := op
			termOps[fmt.Sprintf("%s%d", op, b)] = func(s sym.Sort, args []*sym.Term) *sym.Term { return foldIntOp(op, b, args[0], args[1]) }
		}
	}
	termOps["len"] = func(s sym.Sort, args []*sym.Term) *sym.Term {
		if n, ok := sym.BytesLen(args[0]); ok {
			return sym.ConstI(int64(n))
		}
		return sym.App(sym.Int, "len", args...)
	}
	termOps["byteat"] = func(s sym.Sort, args []*sym.Term) *sym.Term { return ByteAt(args[0], args[1]) }
	termOps["sub"] = func(s sym.Sort, args []*sym.Term) *sym.Term { return SubBytes(args[0], args[1], args[2]) }
	termOps["cat"] = func(s sym.Sort, args []*sym.Term) *sym.Term { return CatBytes(args...) }
	termOps["lt"] = func(s sym.Sort, args []*sym.Term) *sym.Term { return Lt(args[0], args[1]) }
	termOps["byte"] = func(s sym.Sort, args []*sym.Term) *sym.Term {
		if v, ok := args[0].Int64(); ok && v >= 0 && v < 256 {
			return sym.ConstStr(sym.Bytes, string([]byte{byte(v)}))
		}
		t := sym.App(sym.Bytes, "byte", args[0])
		sym.SetBytesLen(t, 1)
		return t
	}
	_ = strconv.Itoa
	_ = intOpRe
}

var byteType = types.Typ[types.Uint8]

// ReadByteCells reads n consecutive byte cells starting at base.
func (ex *Exec) ReadByteCells(st *State, base *Ptr, n int) []*sym.Term {
	bs := make([]*sym.Term, n)
	for i := 0; i < n; i++ {
		v := st.Resolve(ex.Load(st, ex.indexPtr(base, sym.ConstI(int64(i))), byteType))
		t, ok := v.(*sym.Term)
		if !ok {
			t = sym.Fresh(sym.Int, "byte", TaintOf(v))
		}
		bs[i] = t
	}
	return bs
}
