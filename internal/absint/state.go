package absint

import (
	"fmt"
	"go/types"
	"math/big"

	"verif/internal/sym"
)

// Lit is a branch outcome on the current path: atom T evaluated to Val.
type Lit struct {
	T   *sym.Term
	Val bool
	Pos string // position of the branch
}

// State is the abstract heap plus the path guard.
type State struct {
	mem   map[*Obj]*Cell // only objects whose content differs from their initial content
	init  map[*Obj]*Cell // initial contents (owned by the Exec)
	Guard []Lit
}

func (s *State) clone() *State {
	n := &State{mem: make(map[*Obj]*Cell, len(s.mem)), init: s.init, Guard: append([]Lit(nil), s.Guard...)}
	for k, v := range s.mem {
		n.mem[k] = v
	}
	return n
}

func (s *State) cellOf(o *Obj) *Cell {
	if c, ok := s.mem[o]; ok {
		return c
	}
	return s.init[o]
}

// Decided returns the value of the Bool term t under the guard (three-valued:
// propositional connectives are evaluated over the atoms the guard decides).
func (s *State) Decided(t *sym.Term) (bool, bool) {
	return s.decided(t, 0)
}

func (s *State) decided(t *sym.Term, depth int) (bool, bool) {
	neg := false
	for t.Op == "not" {
		t = t.Args[0]
		neg = !neg
	}
	if t.IsConst() {
		return (t.C.Sign() != 0) != neg, true
	}
	for i := len(s.Guard) - 1; i >= 0; i-- {
		if s.Guard[i].T == t {
			return s.Guard[i].Val != neg, true
		}
	}
	if depth < 12 && t.Op == "ite" && t.Sort == sym.Bool {
		if c, ok := s.decided(t.Args[0], depth+1); ok {
			if c {
				v, ok := s.decided(t.Args[1], depth+1)
				return v != neg, ok
			}
			v, ok := s.decided(t.Args[2], depth+1)
			return v != neg, ok
		}
		a, oka := s.decided(t.Args[1], depth+1)
		b, okb := s.decided(t.Args[2], depth+1)
		if oka && okb && a == b {
			return a != neg, true
		}
	}
	return false, false
}

func (s *State) pushLit(t *sym.Term, val bool, pos string) {
	for t.Op == "not" {
		t = t.Args[0]
		val = !val
	}
	s.Guard = append(s.Guard, Lit{t, val, pos})
	// a literal that is a conjunction decides its conjuncts as well
	if t.Op == "ite" && t.Sort == sym.Bool && len(s.Guard) < 4096 {
		c, a, b := t.Args[0], t.Args[1], t.Args[2]
		isC := func(x *sym.Term, v bool) bool { return x.IsConst() && (x.C.Sign() != 0) == v }
		switch {
		case isC(a, false) && val: // !c && b
			s.pushLit(c, false, pos)
			s.pushLit(b, true, pos)
		case isC(a, true) && !val: // !(c || b)
			s.pushLit(c, false, pos)
			s.pushLit(b, false, pos)
		case isC(b, false) && val: // c && a
			s.pushLit(c, true, pos)
			s.pushLit(a, true, pos)
		case isC(b, true) && !val: // !(!c || a)
			s.pushLit(c, true, pos)
			s.pushLit(a, false, pos)
		}
	}
}

// Simplify rewrites ite-nodes whose condition is decided by the guard.
func (s *State) Simplify(t *sym.Term) *sym.Term {
	if len(s.Guard) == 0 {
		return t
	}
	memo := map[*sym.Term]*sym.Term{}
	var rec func(t *sym.Term) *sym.Term
	rec = func(t *sym.Term) *sym.Term {
		if len(t.Args) == 0 {
			if t.Sort == sym.Bool && t.Op == "s" {
				if v, ok := s.Decided(t); ok {
					return sym.ConstBool(v)
				}
			}
			return t
		}
		if r, ok := memo[t]; ok {
			return r
		}
		var r *sym.Term
		if t.Op == "ite" {
			if v, ok := s.Decided(t.Args[0]); ok {
				if v {
					r = rec(t.Args[1])
				} else {
					r = rec(t.Args[2])
				}
				memo[t] = r
				return r
			}
		}
		if t.Sort == sym.Bool && t.Op != "not" {
			if v, ok := s.Decided(t); ok {
				r = sym.ConstBool(v)
				memo[t] = r
				return r
			}
		}
		args := make([]*sym.Term, len(t.Args))
		same := true
		for i, a := range t.Args {
			args[i] = rec(a)
			if args[i] != a {
				same = false
			}
		}
		if same {
			r = t
		} else {
			r = Rebuild(t, args)
		}
		memo[t] = r
		return r
	}
	return rec(t)
}

// Rebuild reconstructs a node with new arguments using the smart constructors.
func Rebuild(t *sym.Term, args []*sym.Term) *sym.Term {
	switch t.Op {
	case "ite":
		return sym.Ite(args[0], args[1], args[2])
	case "not":
		return sym.Not(args[0])
	case "eq":
		return sym.Eq(args[0], args[1])
	case "+":
		r := args[0]
		for _, a := range args[1:] {
			r = sym.Add(r, a)
		}
		return r
	case "*":
		r := args[0]
		for _, a := range args[1:] {
			r = sym.Mul(r, a)
		}
		return r
	case "neg":
		return sym.Neg(args[0])
	case "tainted":
		return sym.WithTaint(args[0], t.Taint)
	}
	if f, ok := termOps[t.Op]; ok {
		return f(t.Sort, args)
	}
	return sym.App(t.Sort, t.Op, args...)
}

// termOps are smart constructors for interpreted integer operators (constant folding).
var termOps = map[string]func(s sym.Sort, args []*sym.Term) *sym.Term{}

// RegisterTermOp installs the smart constructor of an interpreted operator, so that terms rebuilt after
// substitution keep their normal form.
func RegisterTermOp(op string, f func(s sym.Sort, args []*sym.Term) *sym.Term) { termOps[op] = f }

// Resolve picks the branch of Choice values decided by the guard.
func (s *State) Resolve(v Val) Val {
	for {
		c, ok := v.(*Choice)
		if !ok {
			if t, ok := v.(*sym.Term); ok && (t.Op == "ite" || t.Sort == sym.Bool) {
				return s.Simplify(t)
			}
			return v
		}
		d, ok := s.Decided(c.Cond)
		if !ok {
			return v
		}
		if d {
			v = c.A
		} else {
			v = c.B
		}
	}
}

// ---------------------------------------------------------------- cells

func (ex *Exec) newObj(name string, t types.Type, origin Origin, init *Cell) *Obj {
	ex.objCtr++
	o := &Obj{ID: ex.objCtr, Name: name, Typ: t, Origin: origin}
	ex.objInit[o] = init
	return o
}

func (ex *Exec) abstractSort(t types.Type) (sym.Sort, bool) {
	if ex.Cfg.AbstractType == nil {
		return 0, false
	}
	if n, ok := t.(*types.Named); ok {
		return ex.Cfg.AbstractType(qualifiedName(n))
	}
	return 0, false
}

func qualifiedName(n *types.Named) string {
	if n.Obj().Pkg() == nil {
		return n.Obj().Name()
	}
	return n.Obj().Pkg().Path() + "." + n.Obj().Name()
}

// ZeroCell builds the zero value of t.
func (ex *Exec) ZeroCell(t types.Type) *Cell {
	if s, ok := ex.abstractSort(t); ok {
		if ex.Cfg.AbstractZero != nil {
			if v := ex.Cfg.AbstractZero(qualifiedName(t.(*types.Named))); v != nil {
				return &Cell{V: v}
			}
		}
		return &Cell{V: sym.Const(s, big.NewInt(0))}
	}
	switch u := t.Underlying().(type) {
	case *types.Basic:
		switch {
		case u.Info()&types.IsBoolean != 0:
			return &Cell{V: sym.ConstBool(false)}
		case u.Info()&types.IsString != 0:
			return &Cell{V: sym.ConstStr(sym.Bytes, "")}
		case u.Kind() == types.UnsafePointer:
			return &Cell{V: Nil{}}
		default:
			return &Cell{V: sym.ConstI(0)}
		}
	case *types.Struct:
		c := &Cell{Kids: make([]*Cell, u.NumFields())}
		for i := 0; i < u.NumFields(); i++ {
			c.Kids[i] = ex.ZeroCell(u.Field(i).Type())
		}
		return c
	case *types.Array:
		n := int(u.Len())
		c := &Cell{Kids: make([]*Cell, n)}
		if n > 0 {
			z := ex.ZeroCell(u.Elem())
			for i := range c.Kids {
				c.Kids[i] = z // immutable cells can be shared
			}
		}
		return c
	case *types.Interface:
		return &Cell{V: &Iface{}}
	default:
		return &Cell{V: Nil{}}
	}
}

// SymCell builds a fully symbolic value of type t named name.
func (ex *Exec) SymCell(t types.Type, name string, origin Origin, taint uint64, depth int) *Cell {
	if s, ok := ex.abstractSort(t); ok {
		return &Cell{V: sym.SymT(s, name, taint)}
	}
	switch u := t.Underlying().(type) {
	case *types.Basic:
		switch {
		case u.Info()&types.IsBoolean != 0:
			return &Cell{V: sym.SymT(sym.Bool, name, taint)}
		case u.Info()&types.IsString != 0:
			return &Cell{V: sym.SymT(sym.Bytes, name, taint)}
		default:
			return &Cell{V: sym.SymT(sym.Int, name, taint)}
		}
	case *types.Struct:
		c := &Cell{Kids: make([]*Cell, u.NumFields())}
		for i := 0; i < u.NumFields(); i++ {
			c.Kids[i] = ex.SymCell(u.Field(i).Type(), name+"."+u.Field(i).Name(), origin, taint, depth)
		}
		return c
	case *types.Array:
		n := int(u.Len())
		c := &Cell{Kids: make([]*Cell, n)}
		for i := range c.Kids {
			c.Kids[i] = ex.SymCell(u.Elem(), fmt.Sprintf("%s[%d]", name, i), origin, taint, depth)
		}
		return c
	case *types.Pointer:
		if depth > 6 {
			return &Cell{V: &Iface{Opaque: sym.SymT(sym.Any, name, taint)}}
		}
		o := ex.newObj(name, u.Elem(), origin, nil)
		ex.objInit[o] = ex.SymCell(u.Elem(), "*"+name, origin, taint, depth+1)
		return &Cell{V: &Ptr{Obj: o}}
	case *types.Slice:
		return &Cell{V: ex.SymSlice(u.Elem(), name, origin, taint, nil)}
	case *types.Interface:
		return &Cell{V: &Iface{Opaque: sym.SymT(sym.Any, name, taint)}}
	default:
		return &Cell{V: &Iface{Opaque: sym.SymT(sym.Any, name, taint)}}
	}
}

// SymSlice makes a slice over an opaque array; length symbolic unless given.
func (ex *Exec) SymSlice(elem types.Type, name string, origin Origin, taint uint64, length *sym.Term) *SliceVal {
	if length == nil {
		length = sym.Sym(sym.Int, "len("+name+")")
	}
	arr := &OpaqueArr{Name: name, Elem: elem, Len: length, Taint: taint, elems: map[int]Val{}, Origin: origin}
	if isByte(elem) {
		if n, ok := length.Int64(); ok {
			arr.Content = sym.SymSized(name, int(n), taint)
		} else {
			arr.Content = sym.SymT(sym.Bytes, name, taint)
		}
	}
	o := ex.newObj(name, types.NewArray(elem, -1), origin, &Cell{Arr: arr})
	return &SliceVal{Base: &Ptr{Obj: o, Path: []Step{{Field: -1, Index: sym.ConstI(0)}}}, Len: length, Cap: length}
}

func isByte(t types.Type) bool {
	b, ok := t.Underlying().(*types.Basic)
	return ok && (b.Kind() == types.Uint8)
}

// ValueToCell converts a value to a cell tree of type t.
func (ex *Exec) ValueToCell(v Val, t types.Type) *Cell {
	if _, ok := ex.abstractSort(t); ok {
		return &Cell{V: v}
	}
	if a, ok := v.(*Agg); ok {
		switch u := t.Underlying().(type) {
		case *types.Struct:
			c := &Cell{Kids: make([]*Cell, len(a.Elems))}
			for i, e := range a.Elems {
				c.Kids[i] = ex.ValueToCell(e, u.Field(i).Type())
			}
			return c
		case *types.Array:
			c := &Cell{Kids: make([]*Cell, len(a.Elems))}
			for i, e := range a.Elems {
				c.Kids[i] = ex.ValueToCell(e, u.Elem())
			}
			return c
		}
	}
	if ch, ok := v.(*Choice); ok {
		switch t.Underlying().(type) {
		case *types.Struct, *types.Array:
			return mergeCell(ch.Cond, ex.ValueToCell(ch.A, t), ex.ValueToCell(ch.B, t))
		}
	}
	return &Cell{V: v}
}

// CellToValue converts a cell tree to a value.
func (ex *Exec) CellToValue(c *Cell, t types.Type) Val {
	if c.Kids != nil {
		a := &Agg{Typ: t, Elems: make([]Val, len(c.Kids))}
		switch u := t.Underlying().(type) {
		case *types.Struct:
			for i, k := range c.Kids {
				a.Elems[i] = ex.CellToValue(k, u.Field(i).Type())
			}
		case *types.Array:
			for i, k := range c.Kids {
				a.Elems[i] = ex.CellToValue(k, u.Elem())
			}
		}
		return a
	}
	if c.Arr != nil {
		return sym.Fresh(sym.Any, "opaque-array-value", c.Arr.Taint)
	}
	if c.V == nil {
		switch t.Underlying().(type) {
		case *types.Struct, *types.Array:
			return &Agg{Typ: t}
		}
	}
	return c.V
}

// ---------------------------------------------------------------- load / store

// LoadCell returns the cell at p.
func (ex *Exec) LoadCell(st *State, p *Ptr) *Cell {
	c := st.cellOf(p.Obj)
	if c == nil {
		ex.fail("load from object without content: %s", p)
		return &Cell{V: sym.Fresh(sym.Any, "undef", 0)}
	}
	for i, s := range p.Path {
		c = ex.stepCell(st, p, i, c, s)
	}
	return c
}

func (ex *Exec) stepCell(st *State, p *Ptr, depth int, c *Cell, s Step) *Cell {
	if s.Field >= 0 {
		if c.Kids == nil || s.Field >= len(c.Kids) {
			if c.symIdx != nil {
				return ex.symSelect(c, func(k *Cell) *Cell {
					if k.Kids == nil || s.Field >= len(k.Kids) {
						ex.fail("field access into abstract/leaf element of a symbolically indexed array at %s (step %d)", p, depth)
						return &Cell{V: sym.Fresh(sym.Any, "abstraction-violated", 0)}
					}
					return k.Kids[s.Field]
				})
			}
			ex.fail("field access into abstract/leaf cell at %s (step %d)", p, depth)
			return &Cell{V: sym.Fresh(sym.Any, "abstraction-violated", 0)}
		}
		return c.Kids[s.Field]
	}
	// index
	if c.Arr != nil {
		return &Cell{V: ex.opaqueElem(c.Arr, s.Index)}
	}
	if c.Kids == nil {
		if t, ok := c.V.(*sym.Term); ok && (t.Sort == sym.Fp || t.Sort == sym.Fn) {
			// a limb of the canonical representative of an abstract ring element
			return &Cell{V: limbOf(t, s.Index)}
		}
		if lv, ok := c.V.(*LimbVec); ok {
			if i, ok := s.Index.Int64(); ok && i >= 0 && i < 4 {
				return &Cell{V: lv.W[i]}
			}
		}
		ex.fail("index into leaf cell at %s", p)
		return &Cell{V: sym.Fresh(sym.Any, "abstraction-violated", 0)}
	}
	if i, ok := s.Index.Int64(); ok {
		if i < 0 || int(i) >= len(c.Kids) {
			ex.event(Event{Kind: EvIndexOOB, Term: s.Index, Msg: fmt.Sprintf("index %d out of range [0,%d) at %s", i, len(c.Kids), p)})
			return &Cell{V: sym.Fresh(sym.Any, "oob", 0)}
		}
		return c.Kids[i]
	}
	// symbolic index into a concrete array: a virtual cell selecting among the kids
	return &Cell{symIdx: s.Index, symKids: c.Kids}
}

// symSelect maps a projection over a symbolic-index virtual cell.
func (ex *Exec) symSelect(c *Cell, proj func(*Cell) *Cell) *Cell {
	kids := make([]*Cell, len(c.symKids))
	for i, k := range c.symKids {
		kids[i] = proj(k)
	}
	return &Cell{symIdx: c.symIdx, symKids: kids}
}

func (ex *Exec) opaqueElem(a *OpaqueArr, idx *sym.Term) Val {
	if i, ok := idx.Int64(); ok {
		if v, ok := a.Written[i]; ok {
			return v
		}
		if n, ok := a.Len.Int64(); ok && (i < 0 || i >= n) {
			ex.event(Event{Kind: EvIndexOOB, Term: idx, Msg: fmt.Sprintf("index %d out of range [0,%d) of %s", i, n, a.Name)})
			return sym.Fresh(sym.Any, "oob", 0)
		}
	} else if len(a.Written) > 0 {
		return sym.Fresh(sym.Int, "sel:"+a.Name, a.Taint|idx.Taint)
	}
	if a.Content != nil {
		return sym.WithTaint(ByteAt(a.Content, idx), a.Taint)
	}
	if v, ok := a.elems[idx.ID]; ok {
		return v
	}
	name := fmt.Sprintf("%s[%s]", a.Name, idx)
	c := ex.SymCell(a.Elem, name, a.Origin, a.Taint|idx.Taint, 1)
	v := ex.CellToValue(c, a.Elem)
	a.elems[idx.ID] = v
	return v
}

// Load reads the value of type t at p.
func (ex *Exec) Load(st *State, p *Ptr, t types.Type) Val {
	c := ex.LoadCell(st, p)
	if c.symIdx != nil {
		return ex.loadSymSel(c, t)
	}
	return ex.CellToValue(c, t)
}

func (ex *Exec) loadSymSel(c *Cell, t types.Type) Val {
	// value selected by a symbolic index among concrete elements
	if len(c.symKids) == 0 {
		return sym.Fresh(sym.Any, "sel-empty", c.symIdx.Taint)
	}
	if c.symKids[0].Kids != nil {
		a := &Agg{Typ: t, Elems: make([]Val, len(c.symKids[0].Kids))}
		for f := range a.Elems {
			f := f
			var ft types.Type
			switch u := t.Underlying().(type) {
			case *types.Struct:
				ft = u.Field(f).Type()
			case *types.Array:
				ft = u.Elem()
			}
			a.Elems[f] = ex.loadSymSel(ex.symSelect(c, func(k *Cell) *Cell { return k.Kids[f] }), ft)
		}
		return a
	}
	// leaf: build sel(idx; e0, e1, ...) when the leaves are terms
	args := []*sym.Term{c.symIdx}
	var srt sym.Sort = sym.Any
	for _, k := range c.symKids {
		tm, ok := k.V.(*sym.Term)
		if !ok {
			return sym.Fresh(sym.Any, "sel", c.symIdx.Taint)
		}
		srt = tm.Sort
		args = append(args, tm)
	}
	return sym.App(srt, "sel", args...)
}

// Store writes v (of type t) at p.
func (ex *Exec) Store(st *State, p *Ptr, v Val, t types.Type) {
	root := st.cellOf(p.Obj)
	if root == nil {
		ex.fail("store to object without content: %s", p)
		return
	}
	nc := ex.storeAt(st, p, 0, root, ex.ValueToCell(v, t))
	st.mem[p.Obj] = nc
	ex.event(Event{Kind: EvStore, Ptr: p, Val: v})
}

func (ex *Exec) storeAt(st *State, p *Ptr, depth int, c *Cell, nv *Cell) *Cell {
	if depth == len(p.Path) {
		return nv
	}
	s := p.Path[depth]
	if s.Field >= 0 {
		if c.Kids == nil || s.Field >= len(c.Kids) {
			ex.fail("field store into abstract/leaf cell at %s", p)
			return c
		}
		n := &Cell{Kids: append([]*Cell(nil), c.Kids...)}
		n.Kids[s.Field] = ex.storeAt(st, p, depth+1, c.Kids[s.Field], nv)
		return n
	}
	if c.Arr != nil {
		a := *c.Arr
		if i, ok := s.Index.Int64(); ok && depth+1 == len(p.Path) {
			w := make(map[int64]Val, len(a.Written)+1)
			for k, v := range a.Written {
				w[k] = v
			}
			w[i] = nv.V
			a.Written = w
			a.Taint |= TaintOf(nv.V)
		} else {
			ex.havocArr(&a, s.Index.Taint|cellTaint(nv))
		}
		return &Cell{Arr: &a}
	}
	if c.Kids == nil {
		// limb-wise write into an abstract ring element
		if i, ok := s.Index.Int64(); ok && i >= 0 && i < 4 && depth+1 == len(p.Path) {
			var lv LimbVec
			switch x := c.V.(type) {
			case *sym.Term:
				if x.Sort != sym.Fp && x.Sort != sym.Fn {
					ex.fail("index store into leaf cell at %s", p)
					return c
				}
				lv.Sort = x.Sort
				for k := range lv.W {
					lv.W[k] = limbOf(x, sym.ConstI(int64(k)))
				}
			case *LimbVec:
				lv = *x
			default:
				ex.fail("index store into leaf cell at %s", p)
				return c
			}
			if w, ok := nv.V.(*sym.Term); ok {
				lv.W[i] = w
				return &Cell{V: lv.collapse()}
			}
		}
		ex.fail("index store into leaf cell at %s", p)
		return c
	}
	if i, ok := s.Index.Int64(); ok {
		if i < 0 || int(i) >= len(c.Kids) {
			ex.event(Event{Kind: EvIndexOOB, Term: s.Index, Msg: fmt.Sprintf("store index %d out of range [0,%d) at %s", i, len(c.Kids), p)})
			return c
		}
		n := &Cell{Kids: append([]*Cell(nil), c.Kids...)}
		n.Kids[i] = ex.storeAt(st, p, depth+1, c.Kids[i], nv)
		return n
	}
	// symbolic index: weak update of every element
	n := &Cell{Kids: make([]*Cell, len(c.Kids))}
	for i, k := range c.Kids {
		upd := ex.storeAt(st, p, depth+1, k, nv)
		n.Kids[i] = mergeCell(sym.Eq(s.Index, sym.ConstI(int64(i))), upd, k)
	}
	return n
}

func (ex *Exec) havocArr(a *OpaqueArr, taint uint64) {
	a.Version++
	a.Written = nil
	a.Taint |= taint
	a.elems = map[int]Val{}
	if a.Content != nil {
		a.Content = sym.Fresh(sym.Bytes, a.Name+"'", a.Taint)
	}
}

func cellTaint(c *Cell) uint64 {
	if c == nil {
		return 0
	}
	var t uint64
	if c.V != nil {
		t |= TaintOf(c.V)
	}
	for _, k := range c.Kids {
		t |= cellTaint(k)
	}
	if c.Arr != nil {
		t |= c.Arr.Taint
		for _, v := range c.Arr.Written {
			t |= TaintOf(v)
		}
	}
	return t
}

// ---------------------------------------------------------------- merging

func valEqual(a, b Val) bool {
	switch x := a.(type) {
	case nil:
		return b == nil
	case *sym.Term:
		y, ok := b.(*sym.Term)
		return ok && x == y
	case *HashState:
		y, ok := b.(*HashState)
		if !ok {
			return false
		}
		if x == y {
			return true
		}
		if x.Alg != y.Alg || x.Key != y.Key || x.Data != y.Data || x.Reads != y.Reads || len(x.Items) != len(y.Items) || (x.Items == nil) != (y.Items == nil) {
			return false
		}
		for i := range x.Items {
			if x.Items[i] != y.Items[i] {
				return false
			}
		}
		return true
	case *Choice:
		y, ok := b.(*Choice)
		return ok && (x == y || (x.Cond == y.Cond && valEqual(x.A, y.A) && valEqual(x.B, y.B)))
	}
	switch x := a.(type) {
	case Nil:
		_, ok := b.(Nil)
		return ok
	case *Ptr:
		y, ok := b.(*Ptr)
		return ok && SamePtr(x, y)
	case *SliceVal:
		y, ok := b.(*SliceVal)
		if !ok {
			return false
		}
		if x.Base == nil || y.Base == nil {
			return x.Base == nil && y.Base == nil
		}
		return SamePtr(x.Base, y.Base) && x.Len == y.Len && x.Cap == y.Cap
	case *Iface:
		y, ok := b.(*Iface)
		if !ok {
			return false
		}
		if x.Opaque != nil || y.Opaque != nil {
			return x.Opaque == y.Opaque
		}
		if x.Dyn == nil || y.Dyn == nil {
			return x.Dyn == nil && y.Dyn == nil
		}
		return types.Identical(x.Dyn, y.Dyn) && valEqual(x.V, y.V)
	case *Agg:
		y, ok := b.(*Agg)
		if !ok || len(x.Elems) != len(y.Elems) {
			return false
		}
		for i := range x.Elems {
			if !valEqual(x.Elems[i], y.Elems[i]) {
				return false
			}
		}
		return true
	case *Closure:
		y, ok := b.(*Closure)
		if !ok || x.Fn != y.Fn || len(x.Free) != len(y.Free) {
			return false
		}
		for i := range x.Free {
			if !valEqual(x.Free[i], y.Free[i]) {
				return false
			}
		}
		return true
	case Tuple:
		y, ok := b.(Tuple)
		if !ok || len(x) != len(y) {
			return false
		}
		for i := range x {
			if !valEqual(x[i], y[i]) {
				return false
			}
		}
		return true
	}
	return false
}

// MergeVal joins two values under condition c (c ? a : b).
func MergeVal(c *sym.Term, a, b Val) Val {
	if valEqual(a, b) {
		return a
	}
	if a == nil {
		return b
	}
	if b == nil {
		return a
	}
	ta, oka := a.(*sym.Term)
	tb, okb := b.(*sym.Term)
	if oka && okb {
		return sym.Ite(c, ta, tb)
	}
	if x, ok := a.(Tuple); ok {
		if y, ok := b.(Tuple); ok && len(x) == len(y) {
			r := make(Tuple, len(x))
			for i := range x {
				r[i] = MergeVal(c, x[i], y[i])
			}
			return r
		}
	}
	if x, ok := a.(*Agg); ok {
		if y, ok := b.(*Agg); ok && len(x.Elems) == len(y.Elems) {
			r := &Agg{Typ: x.Typ, Elems: make([]Val, len(x.Elems))}
			for i := range x.Elems {
				r.Elems[i] = MergeVal(c, x.Elems[i], y.Elems[i])
			}
			return r
		}
	}
	if x, ok := a.(*SliceVal); ok {
		if y, ok := b.(*SliceVal); ok && x.Base != nil && y.Base != nil && SamePtr(x.Base, y.Base) {
			return &SliceVal{Base: x.Base, Len: sym.Ite(c, x.Len, y.Len), Cap: sym.Ite(c, x.Cap, y.Cap)}
		}
	}
	// nested choices on the same condition
	if x, ok := a.(*Choice); ok && x.Cond == c {
		a = x.A
	}
	if y, ok := b.(*Choice); ok && y.Cond == c {
		b = y.B
	}
	if valEqual(a, b) {
		return a
	}
	// one normal form for `if c {A} else {B}` and `if !c {B} else {A}`
	if c.Op == "not" && len(c.Args) == 1 {
		return &Choice{Cond: c.Args[0], A: b, B: a}
	}
	return &Choice{Cond: c, A: a, B: b}
}

func mergeCell(c *sym.Term, a, b *Cell) *Cell {
	if a == b {
		return a
	}
	if a == nil {
		return b
	}
	if b == nil {
		return a
	}
	if a.Kids != nil && b.Kids != nil && len(a.Kids) == len(b.Kids) {
		n := &Cell{Kids: make([]*Cell, len(a.Kids))}
		for i := range a.Kids {
			n.Kids[i] = mergeCell(c, a.Kids[i], b.Kids[i])
		}
		return n
	}
	if a.Arr != nil && b.Arr != nil {
		if a.Arr == b.Arr {
			return a
		}
		arr := *a.Arr
		arr.Taint |= b.Arr.Taint | c.Taint
		if len(a.Arr.Written) == 0 && len(b.Arr.Written) == 0 && a.Arr.Content != nil && b.Arr.Content != nil {
			arr.Content = sym.Ite(c, a.Arr.Content, b.Arr.Content)
			arr.elems = map[int]Val{}
			return &Cell{Arr: &arr}
		}
		// merge overlays index-wise where both have the same keys, else havoc
		same := len(a.Arr.Written) == len(b.Arr.Written) && a.Arr.Content == b.Arr.Content && a.Arr.Version == b.Arr.Version
		if same {
			w := map[int64]Val{}
			for k, va := range a.Arr.Written {
				vb, ok := b.Arr.Written[k]
				if !ok {
					same = false
					break
				}
				w[k] = MergeVal(c, va, vb)
			}
			if same {
				arr.Written = w
				return &Cell{Arr: &arr}
			}
		}
		arr.Version = max(a.Arr.Version, b.Arr.Version) + 1
		arr.Written = nil
		arr.elems = map[int]Val{}
		for _, v := range a.Arr.Written {
			arr.Taint |= TaintOf(v)
		}
		for _, v := range b.Arr.Written {
			arr.Taint |= TaintOf(v)
		}
		if arr.Content != nil {
			arr.Content = sym.Fresh(sym.Bytes, arr.Name+"'", arr.Taint)
		}
		return &Cell{Arr: &arr}
	}
	return &Cell{V: MergeVal(c, a.V, b.V)}
}

// MergeStates joins a (cond true) and b (cond false); base is the guard to keep.
func MergeStates(c *sym.Term, a, b *State, guardLen int) *State {
	n := &State{mem: make(map[*Obj]*Cell, len(a.mem)), init: a.init}
	if guardLen > len(a.Guard) {
		guardLen = len(a.Guard)
	}
	n.Guard = append([]Lit(nil), a.Guard[:guardLen]...)
	for o, ca := range a.mem {
		cb := b.cellOf(o)
		n.mem[o] = mergeCell(c, ca, cb)
	}
	for o, cb := range b.mem {
		if _, ok := a.mem[o]; ok {
			continue
		}
		n.mem[o] = mergeCell(c, a.cellOf(o), cb)
	}
	return n
}

// LimbVec is an abstract ring element that is being written limb by limb.
type LimbVec struct {
	Sort sym.Sort
	W    [4]*sym.Term
}

func limbOf(t *sym.Term, idx *sym.Term) *sym.Term {
	if t.IsConst() && t.C.Sign() == 0 {
		return sym.ConstI(0)
	}
	// the limbs of an abstract (Montgomery-domain) cell are those of its machine
	// representation, not of the canonical value
	return sym.App(sym.Int, "limb", sym.App(sym.Int, "mont_of:"+t.Sort.String(), t), idx)
}

// collapse returns the ring term when the four limbs are the limbs of one element.
func (lv LimbVec) collapse() Val {
	allConst := true
	for _, w := range lv.W {
		if !w.IsConst() {
			allConst = false
		}
	}
	if allConst {
		zero := true
		for _, w := range lv.W {
			if w.C.Sign() != 0 {
				zero = false
			}
		}
		if zero {
			return sym.Const(lv.Sort, big.NewInt(0))
		}
	}
	var base *sym.Term
	for i, w := range lv.W {
		if w.Op != "limb" || w.Args[0].Op != "mont_of:"+lv.Sort.String() {
			c := lv
			return &c
		}
		if k, ok := w.Args[1].Int64(); !ok || int(k) != i {
			c := lv
			return &c
		}
		if base == nil {
			base = w.Args[0].Args[0]
		} else if base != w.Args[0].Args[0] {
			c := lv
			return &c
		}
	}
	return base
}
