package absint

import (
	"fmt"
	"go/types"
	"math/big"
	"strings"

	"verif/internal/sym"
)

// HashState is the abstract state of a hash / XOF / MAC object: the algorithm,
// an optional key / customisation, the absorbed input so far and the number of
// output reads.
type HashState struct {
	Alg   string
	Key   *sym.Term
	Data  *sym.Term
	Items []*sym.Term // tuple-style absorbers keep items separate
	Reads int
}

func init() {
	sym.BytesLenByOp["sha256"] = 32
	sym.BytesLenByOp["hmac-sha256"] = 32
	sym.BytesLenByOp["fn_bytes"] = 32
	sym.BytesLenByOp["fp_bytes"] = 32
}

// NewHashObj allocates an abstract hash object.
func (ex *Exec) NewHashObj(h *HashState) *Ptr {
	o := ex.newObj("hash:"+h.Alg, nil, Origin{Kind: "local"}, &Cell{V: h})
	return &Ptr{Obj: o}
}

func (ex *Exec) hashState(st *State, v Val) (*HashState, *Ptr) {
	v = st.Resolve(v)
	if i, ok := v.(*Iface); ok {
		v = i.V
	}
	p, ok := v.(*Ptr)
	if !ok {
		return nil, nil
	}
	c := st.cellOf(p.Obj)
	if c == nil {
		return nil, nil
	}
	h, ok := c.V.(*HashState)
	if !ok {
		return nil, nil
	}
	return h, p
}

func (ex *Exec) setHash(st *State, p *Ptr, h *HashState) { st.mem[p.Obj] = &Cell{V: h} }

func hashIface(p *Ptr) *Iface { return &Iface{Dyn: types.Typ[types.Invalid], V: p, NonNil: true} }

// Digest returns the output term of a hash state.
func (h *HashState) Digest() *sym.Term {
	data := h.Data
	if h.Items != nil {
		data = sym.App(sym.Bytes, "tuple", h.Items...)
	}
	if data == nil {
		data = sym.ConstStr(sym.Bytes, "")
	}
	if h.Key != nil {
		return sym.App(sym.Bytes, h.Alg, h.Key, data)
	}
	return sym.App(sym.Bytes, h.Alg, data)
}

// appendBytes implements append(dst, term...) for byte slices.
func (ex *Exec) appendBytes(st *State, dst Val, t *sym.Term, pos string) Val {
	n, ok := sym.BytesLen(t)
	if !ok {
		ex.fail("append of byte string of unknown length at %s", pos)
		return ex.BytesToSlice(st, t, "append")
	}
	d, _ := st.Resolve(dst).(*SliceVal)
	if d == nil || d.Base == nil {
		return ex.BytesToSlice(st, t, "append")
	}
	dl, ok1 := st.Simplify(d.Len).Int64()
	dc, ok2 := st.Simplify(d.Cap).Int64()
	if !ok1 || !ok2 {
		ex.fail("append to slice of unknown length at %s", pos)
		return ex.BytesToSlice(st, t, "append")
	}
	if dl+int64(n) <= dc {
		ex.WriteBytes(st, ex.indexPtr(d.Base, sym.ConstI(dl)), t, n)
		return &SliceVal{Base: d.Base, Len: sym.ConstI(dl + int64(n)), Cap: d.Cap}
	}
	var old *sym.Term = sym.ConstStr(sym.Bytes, "")
	if dl > 0 {
		old = ex.ReadBytes(st, d.Base, int(dl))
	}
	return ex.BytesToSlice(st, CatBytes(old, t), "append")
}

func boolToInt(b *sym.Term) *sym.Term { return b }

// defaultExternals are the models of functions outside the analysed module.
var defaultExternals = map[string]Intercept{}

func reg(name string, f Intercept) { defaultExternals[name] = f }

func init() {
	// ---- math/bits (used below the fiat layer)
	reg("math/bits.Add64", func(ex *Exec, c *CallCtx) (Val, bool) {
		x, y, ci := tm(ex, c, 0), tm(ex, c, 1), tm(ex, c, 2)
		return Tuple{sym.App(sym.Int, "add64.sum", x, y, ci), sym.App(sym.Int, "add64.carry", x, y, ci)}, true
	})
	reg("math/bits.Sub64", func(ex *Exec, c *CallCtx) (Val, bool) {
		x, y, bi := tm(ex, c, 0), tm(ex, c, 1), tm(ex, c, 2)
		return Tuple{sym.App(sym.Int, "sub64.diff", x, y, bi), sym.App(sym.Int, "sub64.borrow", x, y, bi)}, true
	})
	reg("math/bits.Mul64", func(ex *Exec, c *CallCtx) (Val, bool) {
		x, y := tm(ex, c, 0), tm(ex, c, 1)
		return Tuple{sym.App(sym.Int, "mul64.hi", x, y), sym.App(sym.Int, "mul64.lo", x, y)}, true
	})
	// ---- encoding/binary big endian
	reg("(encoding/binary.bigEndian).Uint64", func(ex *Exec, c *CallCtx) (Val, bool) {
		b := ex.SliceBytes(c.St, c.Args[1])
		return sym.App(sym.Int, "be64", b), true
	})
	reg("(encoding/binary.bigEndian).PutUint64", func(ex *Exec, c *CallCtx) (Val, bool) {
		sv, ok := c.St.Resolve(c.Args[1]).(*SliceVal)
		if !ok || sv.Base == nil {
			return nil, false
		}
		w := tm(ex, c, 2)
		var t *sym.Term
		if w.IsConst() && w.C.Sign() >= 0 && w.C.BitLen() <= 64 {
			var b [8]byte
			w.C.FillBytes(b[:])
			t = sym.ConstStr(sym.Bytes, string(b[:]))
		} else if j, okj := limbOfCanonical(w); okj {
			// the big-endian bytes of limb j of the canonical representative of a ring element are bytes 8*(3-j) .. 8*(3-j)+8
			// of its canonical 32-byte encoding (one normal form for "encode, then slice" and "slice the limbs, then encode")
			op := "fp_bytes"
			if w.Args[0].Op == "int_of:fn" {
				op = "fn_bytes"
			}
			enc := sym.App(sym.Bytes, op, w.Args[0].Args[0])
			sym.SetBytesLen(enc, 32)
			t = SubBytes(enc, sym.ConstI(8*(3-j)), sym.ConstI(8*(3-j)+8))
		} else {
			t = sym.App(sym.Bytes, "be64bytes", w)
		}
		sym.SetBytesLen(t, 8)
		ex.WriteBytes(c.St, sv.Base, t, 8)
		return nil, true
	})
	// ---- crypto/subtle
	reg("crypto/subtle.ConstantTimeSelect", func(ex *Exec, c *CallCtx) (Val, bool) {
		v, x, y := tm(ex, c, 0), tm(ex, c, 1), tm(ex, c, 2)
		return sym.Ite(asBool(v), x, y), true
	})
	reg("crypto/subtle.ConstantTimeByteEq", func(ex *Exec, c *CallCtx) (Val, bool) {
		return sym.Eq(tm(ex, c, 0), tm(ex, c, 1)), true
	})
	reg("crypto/subtle.ConstantTimeEq", func(ex *Exec, c *CallCtx) (Val, bool) {
		// int32 operands: equality of the (already converted) values
		return sym.Eq(tm(ex, c, 0), tm(ex, c, 1)), true
	})
	reg("crypto/subtle.ConstantTimeCompare", func(ex *Exec, c *CallCtx) (Val, bool) {
		return sym.App(sym.Bool, "bytes_eq", ex.SliceBytes(c.St, c.Args[0]), ex.SliceBytes(c.St, c.Args[1])), true
	})
	reg("crypto/subtle.XORBytes", func(ex *Exec, c *CallCtx) (Val, bool) {
		dst, ok := c.St.Resolve(c.Args[0]).(*SliceVal)
		x, y := ex.SliceBytes(c.St, c.Args[1]), ex.SliceBytes(c.St, c.Args[2])
		nx, ok1 := sym.BytesLen(x)
		ny, ok2 := sym.BytesLen(y)
		if !ok || !ok1 || !ok2 || dst.Base == nil {
			return nil, false
		}
		n := min(nx, ny)
		t := sym.App(sym.Bytes, "xorbytes", SubBytes(x, sym.ConstI(0), sym.ConstI(int64(n))), SubBytes(y, sym.ConstI(0), sym.ConstI(int64(n))))
		sym.SetBytesLen(t, n)
		ex.WriteBytes(c.St, dst.Base, t, n)
		return sym.ConstI(int64(n)), true
	})
	// ---- bytes
	reg("bytes.Clone", func(ex *Exec, c *CallCtx) (Val, bool) {
		if _, isNil := c.St.Resolve(c.Args[0]).(Nil); isNil {
			return Nil{}, true
		}
		if sv, ok := c.St.Resolve(c.Args[0]).(*SliceVal); ok && sv.Base == nil {
			return sv, true
		}
		return ex.BytesToSlice(c.St, ex.SliceBytes(c.St, c.Args[0]), "clone"), true
	})
	reg("bytes.Equal", func(ex *Exec, c *CallCtx) (Val, bool) {
		return sym.App(sym.Bool, "bytes_eq", ex.SliceBytes(c.St, c.Args[0]), ex.SliceBytes(c.St, c.Args[1])), true
	})
	reg("bytes.Repeat", func(ex *Exec, c *CallCtx) (Val, bool) {
		b := ex.SliceBytes(c.St, c.Args[0])
		n, ok := tm(ex, c, 1).Int64()
		if !b.IsStrConst() || !ok || n < 0 || n > 1<<16 {
			return nil, false
		}
		return ex.BytesToSlice(c.St, sym.ConstStr(sym.Bytes, strings.Repeat(b.S, int(n))), "repeat"), true
	})
	// ---- errors / fmt
	newErr := func(ex *Exec, c *CallCtx) (Val, bool) {
		return &Iface{Opaque: sym.Fresh(sym.Any, "err@"+ex.Position(c.Pos), 0), NonNil: true}, true
	}
	reg("errors.New", newErr)
	reg("fmt.Errorf", newErr)
	// ---- io.ReadFull
	reg("io.ReadFull", func(ex *Exec, c *CallCtx) (Val, bool) {
		buf, ok := c.St.Resolve(c.Args[1]).(*SliceVal)
		if !ok {
			return nil, false
		}
		n, okn := c.St.Simplify(buf.Len).Int64()
		rd := c.St.Resolve(c.Args[0])
		if h, p := ex.hashState(c.St, rd); h != nil && okn {
			out := sym.App(sym.Bytes, "xofread", h.Digest(), sym.ConstI(int64(h.Reads)))
			sym.SetBytesLen(out, int(n))
			nh := *h
			nh.Reads++
			ex.setHash(c.St, p, &nh)
			if buf.Base != nil {
				ex.WriteBytes(c.St, buf.Base, out, int(n))
			}
			return Tuple{sym.ConstI(n), &Iface{}}, true
		}
		if i, ok := rd.(*Iface); ok && i.Opaque == nil && i.Dyn != nil {
			if fn := ex.Cfg.Prog.SSA.LookupMethod(i.Dyn, nil, "Read"); fn != nil && fn.Blocks != nil {
				return ex.callFn(c.Frame, c.St, fn, []Val{i.V, buf}, nil, c.Instr), true
			}
		}
		// unknown reader: fresh (possibly secret) bytes, or an error
		if !okn {
			return nil, false
		}
		// reading from a nil reader panics
		if nt := c.St.Simplify(NilTerm(c.Args[0])); !(nt.IsConst() && nt.C.Sign() == 0) {
			ex.PanicIf(c, nt, "io.ReadFull on a nil reader")
		}
		ex.readCtr++
		out := sym.SymT(sym.Bytes, fmt.Sprintf("entropy%d", ex.readCtr), ex.Cfg.ReaderTaint)
		sym.SetBytesLen(out, int(n))
		if buf.Base != nil {
			ex.WriteBytes(c.St, buf.Base, out, int(n))
		}
		ex.event(Event{Kind: EvCall, Pos: c.Pos, Callee: "io.ReadFull", Args: c.Args, Term: out})
		errv := &Iface{Opaque: sym.Sym(sym.Any, fmt.Sprintf("readerr%d", ex.readCtr))}
		return Tuple{sym.Sym(sym.Int, fmt.Sprintf("readn%d", ex.readCtr)), errv}, true
	})
	// ---- hashes
	reg("crypto/sha256.New", func(ex *Exec, c *CallCtx) (Val, bool) {
		return hashIface(ex.NewHashObj(&HashState{Alg: "sha256"})), true
	})
	reg("crypto/sha256.Sum256", func(ex *Exec, c *CallCtx) (Val, bool) {
		d := sym.App(sym.Bytes, "sha256", ex.SliceBytes(c.St, c.Args[0]))
		a := &Agg{Typ: types.NewArray(types.Typ[types.Uint8], 32), Elems: make([]Val, 32)}
		for i := range a.Elems {
			a.Elems[i] = ByteAt(d, sym.ConstI(int64(i)))
		}
		return a, true
	})
	reg("crypto/hmac.New", func(ex *Exec, c *CallCtx) (Val, bool) {
		alg := "hmac-?"
		if cl, ok := c.St.Resolve(c.Args[0]).(*Closure); ok && cl.Fn.String() == "crypto/sha256.New" {
			alg = "hmac-sha256"
		}
		return hashIface(ex.NewHashObj(&HashState{Alg: alg, Key: ex.SliceBytes(c.St, c.Args[1])})), true
	})
	reg("(crypto.Hash).New", func(ex *Exec, c *CallCtx) (Val, bool) {
		if v, ok := tm(ex, c, 0).Int64(); ok && v == 5 {
			return hashIface(ex.NewHashObj(&HashState{Alg: "sha256"})), true
		}
		return nil, false
	})
	reg("(crypto.Hash).Size", func(ex *Exec, c *CallCtx) (Val, bool) {
		h := tm(ex, c, 0)
		if v, ok := h.Int64(); ok {
			sizes := map[int64]int64{4: 28, 5: 32, 6: 48, 7: 64, 3: 20, 2: 16}
			if s, ok := sizes[v]; ok {
				return sym.ConstI(s), true
			}
		}
		// unknown hash identifiers: a positive size, or a panic inside the library (not modelled)
		return sym.App(sym.Int, "hashsize", h), true
	})
	// whether the implementation is linked into the binary: a property of the program being built, not of the call -
	// an opaque boolean (a result that depends on it is visible in every accept set)
	reg("(crypto.Hash).Available", func(ex *Exec, c *CallCtx) (Val, bool) {
		return sym.App(sym.Bool, "hash_available", tm(ex, c, 0)), true
	})
	reg("(crypto.Hash).HashFunc", func(ex *Exec, c *CallCtx) (Val, bool) { return c.Args[0], true })
	reg("gitlab.com/yawning/tuplehash.NewTupleHashXOF128", func(ex *Exec, c *CallCtx) (Val, bool) {
		return ex.NewHashObj(&HashState{Alg: "tuplehashxof128", Key: ex.SliceBytes(c.St, c.Args[0]), Items: []*sym.Term{}}), true
	})
	write := func(ex *Exec, c *CallCtx) (Val, bool) {
		h, p := ex.hashState(c.St, c.Args[0])
		if h == nil {
			return nil, false
		}
		data := ex.SliceBytes(c.St, c.Args[1])
		nh := *h
		if h.Items != nil {
			nh.Items = append(append([]*sym.Term(nil), h.Items...), data)
		} else if h.Data == nil {
			nh.Data = data
		} else {
			nh.Data = CatBytes(h.Data, data)
		}
		ex.setHash(c.St, p, &nh)
		var n Val
		if l, ok := sym.BytesLen(data); ok {
			n = sym.ConstI(int64(l))
		} else {
			n = sym.App(sym.Int, "len", data)
		}
		return Tuple{n, &Iface{}}, true
	}
	sum := func(ex *Exec, c *CallCtx) (Val, bool) {
		h, _ := ex.hashState(c.St, c.Args[0])
		if h == nil {
			return nil, false
		}
		return ex.appendBytes(c.St, c.Args[1], h.Digest(), ex.Position(c.Pos)), true
	}
	reset := func(ex *Exec, c *CallCtx) (Val, bool) {
		h, p := ex.hashState(c.St, c.Args[0])
		if h == nil {
			return nil, false
		}
		nh := *h
		nh.Data, nh.Reads = nil, 0
		if h.Items != nil {
			nh.Items = []*sym.Term{}
		}
		ex.setHash(c.St, p, &nh)
		return nil, true
	}
	size := func(ex *Exec, c *CallCtx) (Val, bool) {
		h, _ := ex.hashState(c.St, c.Args[0])
		if h == nil {
			return nil, false
		}
		if n, ok := sym.BytesLenByOp[h.Alg]; ok {
			return sym.ConstI(int64(n)), true
		}
		return nil, false
	}
	blockSize := func(ex *Exec, c *CallCtx) (Val, bool) {
		h, _ := ex.hashState(c.St, c.Args[0])
		if h != nil && (h.Alg == "sha256" || h.Alg == "hmac-sha256") {
			return sym.ConstI(64), true
		}
		return nil, false
	}
	for _, pfx := range []string{"(abstract)", "(*gitlab.com/yawning/tuplehash.Hasher)"} {
		reg(pfx+".Write", write)
		reg(pfx+".Sum", sum)
		reg(pfx+".Reset", reset)
		reg(pfx+".Size", size)
		reg(pfx+".BlockSize", blockSize)
	}
	// ---- misc
	reg("strings.ToValidUTF8", func(ex *Exec, c *CallCtx) (Val, bool) {
		return sym.App(sym.Bytes, "tovalidutf8", tm(ex, c, 0), tm(ex, c, 1)), true
	})
}

func tm(ex *Exec, c *CallCtx, i int) *sym.Term {
	v := c.St.Resolve(c.Args[i])
	if t, ok := v.(*sym.Term); ok {
		return c.St.Simplify(t)
	}
	ex.fail("argument %d of %s is not a term: %s", i, c.Name, ValString(v))
	return sym.Fresh(sym.Any, "arg", TaintOf(v))
}

// asBool converts a 0/1 integer term into a Bool term.
func asBool(t *sym.Term) *sym.Term {
	if t.Sort == sym.Bool {
		return t
	}
	if t.IsConst() {
		return sym.ConstBool(t.C.Sign() != 0)
	}
	return sym.Not(sym.Eq(t, sym.Const(sym.Int, big.NewInt(0))))
}

// AsBool is the exported form of asBool.
func AsBool(t *sym.Term) *sym.Term { return asBool(t) }

// NilTerm is the condition under which a (possibly merged) pointer / interface value is nil.
func NilTerm(v Val) *sym.Term {
	switch x := v.(type) {
	case Nil:
		return sym.ConstBool(true)
	case *Choice:
		return sym.Ite(x.Cond, NilTerm(x.A), NilTerm(x.B))
	case *Iface:
		if x.Opaque != nil {
			if x.NonNil {
				return sym.ConstBool(false)
			}
			return sym.App(sym.Bool, "isnil", x.Opaque)
		}
		return sym.ConstBool(x.Dyn == nil)
	case *SliceVal:
		return sym.ConstBool(x.Base == nil)
	}
	return sym.ConstBool(false)
}

// limbOfCanonical recognises limb(int_of:S(x), j) with a constant j in 0..3.
func limbOfCanonical(w *sym.Term) (int64, bool) {
	if w.Op != "limb" || len(w.Args) != 2 || (w.Args[0].Op != "int_of:fn" && w.Args[0].Op != "int_of:fp") || len(w.Args[0].Args) != 1 {
		return 0, false
	}
	j, ok := w.Args[1].Int64()
	if !ok || j < 0 || j > 3 {
		return 0, false
	}
	return j, true
}
