// Package absint is an abstract interpreter over go/ssa.  Values are symbolic
// terms (package sym), pointers into an explicit abstract heap, and aggregates.
// Branches on non-constant conditions are explored on both sides and joined at
// the immediate post-dominator (values become ite-terms); loops with concrete
// trip counts are unrolled by constant propagation, other loops are widened
// (everything they write becomes a fresh symbol).  Calls into the analysed
// module are inlined unless the configuration intercepts them with a
// specification of the lower layer; calls out of the module go through a table
// of models.  Nothing of the analysed library is ever executed.
package absint

import (
	"fmt"
	"go/token"
	"go/types"
	"strings"

	"golang.org/x/tools/go/ssa"

	"verif/internal/sym"
)

// Val is an abstract value: *sym.Term | *Ptr | *SliceVal | *Agg | *Closure | *Iface | *Choice | Tuple | Nil.
type Val interface{}

// Nil is the nil pointer / nil slice / nil func.
type Nil struct{}

// Step is one step of an access path.
type Step struct {
	Field int       // struct field index, or -1
	Index *sym.Term // array index (Field == -1)
}

// Ptr is a pointer to a location inside an abstract object.
type Ptr struct {
	Obj  *Obj
	Path []Step
	// View marks a pointer-to-array obtained from a slice (slice-to-array-pointer
	// conversion): Path ends with the index of element 0 of the view.
	View bool
}

// SliceVal is a slice header: Base points at element 0.
type SliceVal struct {
	Base *Ptr // Path ends with an Index step; nil for the nil slice
	Len  *sym.Term
	Cap  *sym.Term
}

// Agg is a struct or array value.
type Agg struct {
	Elems []Val
	Typ   types.Type
}

// Closure is a function value.
type Closure struct {
	Fn   *ssa.Function
	Free []Val
}

// Iface is an interface value.  Dyn == nil && V == nil means the nil interface;
// Opaque != nil means an unknown (possibly nil unless NonNil) interface value.
type Iface struct {
	Dyn    types.Type
	V      Val
	Opaque *sym.Term
	NonNil bool
}

// Choice is a value that depends on a condition (joins of non-term values).
type Choice struct {
	Cond *sym.Term
	A, B Val
}

// Tuple is a multi-value result.
type Tuple []Val

// Origin says where an object comes from.
type Origin struct {
	Kind string // "local" (allocated during the run), "param", "global", "const"
	Root string // parameter name / global name
}

// Obj is an abstract heap object.
type Obj struct {
	ID     int
	Name   string
	Typ    types.Type
	Origin Origin
	Pos    token.Pos
	// ReadOnlyData marks objects whose contents are init-time constants.
	Site ssa.Instruction
}

func (o *Obj) String() string { return fmt.Sprintf("%s#%d", o.Name, o.ID) }

// Cell is an immutable node of an object's content tree.
type Cell struct {
	V    Val     // leaf
	Kids []*Cell // struct fields / array elements
	Arr  *OpaqueArr
	// virtual cell: element of symKids selected by the symbolic index symIdx
	symIdx  *sym.Term
	symKids []*Cell
}

// OpaqueArr is an array of unknown (symbolic) content and possibly symbolic length.
type OpaqueArr struct {
	Name    string
	Elem    types.Type
	Len     *sym.Term
	Written map[int64]Val // constant-index overlay (copy on write)
	Version int
	Taint   uint64
	// Content is the byte-string symbol standing for the current content (byte arrays).
	Content *sym.Term
	elems   map[int]Val // lazily materialised symbolic elements, keyed by index term ID (shared; idempotent)
	Origin  Origin
}

func pathString(p []Step) string {
	var b strings.Builder
	for _, s := range p {
		if s.Field >= 0 {
			fmt.Fprintf(&b, ".%d", s.Field)
		} else {
			fmt.Fprintf(&b, "[%s]", s.Index)
		}
	}
	return b.String()
}

func (p *Ptr) String() string { return p.Obj.String() + pathString(p.Path) }

func (p *Ptr) extend(s Step) *Ptr {
	np := make([]Step, len(p.Path)+1)
	copy(np, p.Path)
	np[len(p.Path)] = s
	return &Ptr{Obj: p.Obj, Path: np}
}

// SamePtr reports whether two pointers denote the same location.
func SamePtr(a, b *Ptr) bool {
	if a.Obj != b.Obj || len(a.Path) != len(b.Path) {
		return false
	}
	for i := range a.Path {
		if a.Path[i].Field != b.Path[i].Field {
			return false
		}
		if a.Path[i].Field < 0 && a.Path[i].Index != b.Path[i].Index {
			return false
		}
	}
	return true
}

// TaintOf returns the union of taint labels in a value.
func TaintOf(v Val) uint64 {
	switch x := v.(type) {
	case *sym.Term:
		return x.Taint
	case *SliceVal:
		return x.Len.Taint
	case *Agg:
		var t uint64
		for _, e := range x.Elems {
			t |= TaintOf(e)
		}
		return t
	case *Choice:
		return x.Cond.Taint | TaintOf(x.A) | TaintOf(x.B)
	case Tuple:
		var t uint64
		for _, e := range x {
			t |= TaintOf(e)
		}
		return t
	case *Iface:
		if x.Opaque != nil {
			return x.Opaque.Taint
		}
		if x.V != nil {
			return TaintOf(x.V)
		}
	}
	return 0
}

// ValString renders a value for diagnostics.
func ValString(v Val) string {
	switch x := v.(type) {
	case nil:
		return "<none>"
	case Nil:
		return "nil"
	case *sym.Term:
		return x.String()
	case *Ptr:
		return "&" + x.String()
	case *SliceVal:
		if x.Base == nil {
			return "nil-slice"
		}
		return fmt.Sprintf("slice(%s,len=%s)", x.Base, x.Len)
	case *Agg:
		var parts []string
		for _, e := range x.Elems {
			parts = append(parts, ValString(e))
		}
		return "{" + strings.Join(parts, ", ") + "}"
	case *Closure:
		return "func:" + x.Fn.String()
	case *Iface:
		if x.Opaque != nil {
			return "iface(" + x.Opaque.String() + ")"
		}
		if x.Dyn == nil {
			return "nil-iface"
		}
		return "iface<" + x.Dyn.String() + ">(" + ValString(x.V) + ")"
	case *Choice:
		return fmt.Sprintf("choice(%s, %s, %s)", x.Cond, ValString(x.A), ValString(x.B))
	case Tuple:
		var parts []string
		for _, e := range x {
			parts = append(parts, ValString(e))
		}
		return "(" + strings.Join(parts, ", ") + ")"
	}
	return fmt.Sprintf("%T", v)
}
