package asmx

import (
	"os"
	"path/filepath"
	"reflect"
	"strings"
	"testing"
)

const asmPath = "/repo/point_mul_table_amd64.s"

var protoParams = map[string]int64{"tbl": 0, "out": 8, "idx": 16}

// shape describes what a lookup routine is expected to do.
type shape struct {
	name   string
	stride int64 // bytes per table entry
	chunks int   // 16-byte chunks copied per entry
}

var (
	projective = shape{"lookupProjectivePoint", 0x68, 6}
	affine     = shape{"lookupAffinePoint", 0x40, 4}
)

func readAsm(t *testing.T) string {
	t.Helper()
	b, err := os.ReadFile(asmPath)
	if err != nil {
		t.Fatal(err)
	}
	return string(b)
}

// parseSrc writes src to a temporary file and parses it.
func parseSrc(t *testing.T, src string) *File {
	t.Helper()
	p := filepath.Join(t.TempDir(), "x_amd64.s")
	if err := os.WriteFile(p, []byte(src), 0o644); err != nil {
		t.Fatal(err)
	}
	f, err := ParseFile(p)
	if err != nil {
		t.Fatal(err)
	}
	return f
}

func findFunc(t *testing.T, f *File, name string) *Func {
	t.Helper()
	for _, fn := range f.Funcs {
		if fn.Name == name {
			return fn
		}
	}
	t.Fatalf("function %s not found", name)
	return nil
}

func analyse(t *testing.T, f *File, name string) *Analysis {
	t.Helper()
	a, err := Analyse(findFunc(t, f, name), protoParams)
	if err != nil {
		t.Fatal(err)
	}
	return a
}

// replace1 substitutes exactly the first occurrence and insists there is one.
func replace1(t *testing.T, s, old, new string) string {
	t.Helper()
	if !strings.Contains(s, old) {
		t.Fatalf("pattern %q not found in assembly", old)
	}
	return strings.Replace(s, old, new, 1)
}

// expectedStores is the specification of a lookup: entry idx-1 of the table
// for idx in 1..15, the identity preload (projective) or zero (affine) for
// idx 0 and for anything above 15.
func expectedStores(sh shape, idx uint32) []Store {
	var out []Store
	for c := 0; c < sh.chunks; c++ {
		st := Store{Base: "out", Off: int64(16 * c), Width: 16}
		for l := 0; l < 4; l++ {
			lane := Lane{IsConst: true}
			if idx >= 1 && idx <= 15 {
				lane = Lane{Base: "tbl", Off: sh.stride*int64(idx-1) + int64(16*c+4*l)}
			}
			st.Lanes = append(st.Lanes, lane)
		}
		out = append(out, st)
	}
	if sh.name == projective.name && (idx == 0 || idx > 15) {
		out[2].Lanes[0].Const = 0 // masked identity is only live for idx == 0
		if idx == 0 {
			out[2].Lanes[0].Const, out[2].Lanes[1].Const = 0x000003d1, 0x00000001
		}
	}
	return out
}

// sameStores compares ignoring line numbers.
func sameStores(got, want []Store) bool {
	g := append([]Store(nil), got...)
	for i := range g {
		g[i].Line = 0
	}
	return reflect.DeepEqual(g, want)
}

func TestParse(t *testing.T) {
	f, err := ParseFile(asmPath)
	if err != nil {
		t.Fatal(err)
	}
	if f.BuildConstraint != "amd64 && !purego" {
		t.Errorf("build constraint %q", f.BuildConstraint)
	}
	if len(f.Funcs) != 2 {
		t.Fatalf("%d functions", len(f.Funcs))
	}
	for i, name := range []string{projective.name, affine.name} {
		fn := f.Funcs[i]
		if fn.Name != name || !reflect.DeepEqual(fn.Flags, []string{"NOSPLIT", "NOFRAME"}) ||
			fn.FrameSize != 0 || fn.ArgSize != 24 || fn.BuildConstraint != f.BuildConstraint || fn.File != asmPath {
			t.Errorf("func %d: %+v", i, *fn)
		}
		last := fn.Insts[len(fn.Insts)-1]
		if last.Op != "RET" || len(last.Args) != 0 {
			t.Errorf("%s: last instruction %+v", name, last)
		}
	}
	// Spot-check operand forms on the projective routine.
	in := f.Funcs[0].Insts
	if o := in[0].Args[0]; in[0].Op != "MOVQ" || o.Kind != KindFP || o.Sym != "idx" || o.Off != 16 {
		t.Errorf("inst 0: %+v", in[0])
	}
	if o := in[2].Args[0]; in[2].Op != "PSHUFD" || o.Kind != KindImm || o.Imm != 0 || in[2].Args[2].Reg != "X0" {
		t.Errorf("inst 2: %+v", in[2])
	}
	var sawLabel, sawMem, sawImm64 bool
	for _, i := range in {
		if i.Label == "projectiveLookupLoop" && i.Op == "MOVD" {
			sawLabel = true
		}
		if i.Op == "MOVOU" && i.Args[0].Kind == KindMem && i.Args[0].Reg == "CX" && i.Args[0].Off == 80 {
			sawMem = true
		}
		if i.Op == "MOVQ" && i.Args[0].Kind == KindImm && i.Args[0].Imm == 0x00000001000003d1 {
			sawImm64 = true
		}
		if i.Op == "JLE" && (i.Args[0].Kind != KindLabel || i.Args[0].Sym != "projectiveLookupLoop") {
			t.Errorf("JLE operand %+v", i.Args[0])
		}
	}
	if !sawLabel || !sawMem || !sawImm64 {
		t.Errorf("label=%v mem=%v imm64=%v", sawLabel, sawMem, sawImm64)
	}
}

func TestAnalyseToday(t *testing.T) {
	f, err := ParseFile(asmPath)
	if err != nil {
		t.Fatal(err)
	}
	for _, sh := range []shape{projective, affine} {
		t.Run(sh.name, func(t *testing.T) {
			a := analyse(t, f, sh.name)
			fa := a.Facts
			if a.Incomplete != "" || fa.IdxFlowsToAddress || fa.IdxFlowsToFlags || fa.IdxFlowsToGPRStore ||
				len(fa.Calls) != 0 || len(fa.NonConstAddress) != 0 {
				t.Fatalf("unexpected facts: incomplete=%q %+v", a.Incomplete, fa)
			}
			if fa.LoopIterations != 14 {
				t.Errorf("loop taken %d times, want 14", fa.LoopIterations)
			}
			if !reflect.DeepEqual(fa.ParamsRead, []string{"idx", "out", "tbl"}) {
				t.Errorf("params read %v", fa.ParamsRead)
			}
			// Loads: every chunk of every entry, in order, nothing else.
			if len(fa.Loads) != 15*sh.chunks {
				t.Fatalf("%d loads, want %d", len(fa.Loads), 15*sh.chunks)
			}
			for i := 0; i < 15; i++ {
				for c := 0; c < sh.chunks; c++ {
					l := fa.Loads[i*sh.chunks+c]
					if l.Base != "tbl" || l.Off != sh.stride*int64(i)+int64(16*c) || l.Width != 16 {
						t.Errorf("load %d/%d: %+v", i, c, l)
					}
				}
			}
			// Stores: idx-independent footprint stays below out+96.
			sites := a.StoreSites()
			if len(sites) != sh.chunks {
				t.Fatalf("%d store sites", len(sites))
			}
			for _, s := range sites {
				if s.Base != "out" || s.Off < 0 || s.Off+int64(s.Width) > 96 {
					t.Errorf("store outside out[0:96): %+v", s)
				}
			}
			// Specialisation matches the specification for every idx, including
			// out-of-range values (which select nothing).
			for _, idx := range []uint32{0, 1, 2, 3, 4, 5, 6, 7, 8, 9, 10, 11, 12, 13, 14, 15, 16, 0xffffffff} {
				got, err := a.Specialise(idx)
				if err != nil {
					t.Fatal(err)
				}
				if want := expectedStores(sh, idx); !sameStores(got, want) {
					t.Errorf("idx=%d:\n got %+v\nwant %+v", idx, got, want)
				}
				if !reflect.DeepEqual(a.Facts.Stores, got) {
					t.Errorf("Facts.Stores not updated")
				}
			}
		})
	}
	// Explicit spot checks of the projective identity handling, independent of
	// the expectedStores helper.
	a := analyse(t, f, projective.name)
	s0, _ := a.Specialise(0)
	if got := s0[2]; got.Off != 32 || !reflect.DeepEqual(got.Lanes, []Lane{
		{IsConst: true, Const: 0x3d1}, {IsConst: true, Const: 1}, {IsConst: true}, {IsConst: true}}) {
		t.Errorf("identity Z: %+v", got)
	}
	s7, _ := a.Specialise(7)
	if got := s7[2]; !reflect.DeepEqual(got.Lanes, []Lane{
		{Base: "tbl", Off: 0x68*6 + 32}, {Base: "tbl", Off: 0x68*6 + 36}, {Base: "tbl", Off: 0x68*6 + 40}, {Base: "tbl", Off: 0x68*6 + 44}}) {
		t.Errorf("idx=7 Z: %+v", got)
	}
}

// (a) wrong stride
func TestNegStride(t *testing.T) {
	src := replace1(t, readAsm(t), "ADDQ    $0x68, CX", "ADDQ    $0x60, CX")
	a := analyse(t, parseSrc(t, src), projective.name)
	got, err := a.Specialise(1)
	if err != nil || !sameStores(got, expectedStores(projective, 1)) {
		t.Errorf("idx=1 does not depend on the stride: %v %+v", err, got)
	}
	for idx := uint32(2); idx <= 15; idx++ {
		got, err := a.Specialise(idx)
		if err != nil {
			t.Fatal(err)
		}
		if sameStores(got, expectedStores(projective, idx)) {
			t.Errorf("idx=%d: wrong stride not detected", idx)
		}
		if got[0].Lanes[0].Off != 0x60*int64(idx-1) {
			t.Errorf("idx=%d: lane %+v", idx, got[0].Lanes[0])
		}
	}
}

// (b) loop bound one short
func TestNegLoopBound(t *testing.T) {
	src := replace1(t, readAsm(t), "CMPQ    AX, $0x0f", "CMPQ    AX, $0x0e")
	a := analyse(t, parseSrc(t, src), projective.name)
	if a.Facts.LoopIterations != 13 || len(a.Facts.Loads) != 14*6 {
		t.Errorf("iterations %d loads %d", a.Facts.LoopIterations, len(a.Facts.Loads))
	}
	got, err := a.Specialise(15)
	if err != nil {
		t.Fatal(err)
	}
	for _, s := range got {
		for _, l := range s.Lanes {
			if !l.IsConst || l.Const != 0 {
				t.Errorf("idx=15 should select nothing: %+v", s)
			}
		}
	}
	if sameStores(got, expectedStores(projective, 15)) {
		t.Error("short loop not detected")
	}
	if got, _ := a.Specialise(14); !sameStores(got, expectedStores(projective, 14)) {
		t.Error("idx=14 should still be correct")
	}
}

const header = "//go:build amd64 && !purego\n\n#include \"textflag.h\"\n\nTEXT ·lookupProjectivePoint(SB), NOSPLIT|NOFRAME, $0-24\n"

// (c) secret-dependent address
func TestNegIdxAddress(t *testing.T) {
	src := header + `	MOVQ idx+16(FP), DX
	MOVQ tbl+0(FP), CX
	IMUL3Q $0x68, DX, DX
	ADDQ DX, CX
	MOVOU (CX), X2
	MOVQ out+8(FP), AX
	MOVOU X2, (AX)
	RET
`
	a := analyse(t, parseSrc(t, src), projective.name)
	if !a.Facts.IdxFlowsToAddress || a.Facts.IdxFlowsToFlags {
		t.Errorf("facts %+v", a.Facts)
	}
	if !reflect.DeepEqual(a.Facts.NonConstAddress, []int{10}) || len(a.Facts.Loads) != 0 {
		t.Errorf("non-const %v loads %v", a.Facts.NonConstAddress, a.Facts.Loads)
	}
	if _, err := a.Specialise(1); err == nil {
		t.Error("Specialise must refuse unresolved addresses")
	}
	// The same through an index register and through LEAQ.
	for _, body := range []string{
		"\tMOVQ idx+16(FP), DX\n\tMOVQ tbl+0(FP), CX\n\tMOVOU 8(CX)(DX*8), X2\n\tRET\n",
		"\tMOVQ idx+16(FP), DX\n\tMOVQ tbl+0(FP), CX\n\tSHLQ $6, DX\n\tLEAQ (CX)(DX*1), BX\n\tMOVQ (BX), SI\n\tRET\n",
	} {
		a := analyse(t, parseSrc(t, header+body), projective.name)
		if !a.Facts.IdxFlowsToAddress || len(a.Facts.NonConstAddress) != 1 {
			t.Errorf("%q: facts %+v", body, a.Facts)
		}
	}
	// A constant index is fine and resolves to param+const.
	a = analyse(t, parseSrc(t, header+"\tMOVQ tbl+0(FP), CX\n\tMOVQ $3, DX\n\tLEAQ 4(CX)(DX*8), BX\n\tMOVOU 16(BX)(DX*2), X2\n\tRET\n"), projective.name)
	if a.Facts.IdxFlowsToAddress || len(a.Facts.NonConstAddress) != 0 ||
		!reflect.DeepEqual(a.Facts.Loads, []Load{{Base: "tbl", Off: 4 + 24 + 16 + 6, Width: 16, Line: 9}}) {
		t.Errorf("facts %+v", a.Facts)
	}
}

// (d) secret-dependent branch
func TestNegIdxFlags(t *testing.T) {
	src := header + `	MOVQ idx+16(FP), AX
	MOVQ out+8(FP), CX
	CMPQ AX, $0
	PXOR X0, X0
	JEQ  done
	MOVOU X0, (CX)
done:
	RET
`
	a := analyse(t, parseSrc(t, src), projective.name)
	if !a.Facts.IdxFlowsToFlags || a.Incomplete == "" || !strings.Contains(a.Incomplete, ":10:") {
		t.Errorf("incomplete=%q facts=%+v", a.Incomplete, a.Facts)
	}
	if _, err := a.Specialise(0); err == nil {
		t.Error("Specialise must refuse an incomplete analysis")
	}
	// Also via arithmetic flags, and inside the real routine.
	a = analyse(t, parseSrc(t, header+"\tMOVQ idx+16(FP), AX\n\tSUBQ $1, AX\n\tJNE done\n\tNOP\ndone:\n\tRET\n"), projective.name)
	if !a.Facts.IdxFlowsToFlags {
		t.Error("SUBQ/JNE on idx not detected")
	}
	src = replace1(t, readAsm(t), "\tMOVD   AX, X0\n", "\tMOVD   AX, X0\n\tTESTQ  AX, AX\n\tJEQ    projectiveLookupLoop\n")
	a = analyse(t, parseSrc(t, src), projective.name)
	if !a.Facts.IdxFlowsToFlags || a.Incomplete == "" {
		t.Error("TESTQ/JEQ on idx not detected")
	}
	// A jump on flags that are neither constant nor idx-derived is an error.
	fn := findFunc(t, parseSrc(t, header+"\tMOVQ tbl+0(FP), CX\n\tMOVQ (CX), AX\n\tCMPQ AX, $0\n\tJEQ done\ndone:\n\tRET\n"), projective.name)
	if _, err := Analyse(fn, protoParams); err == nil || !strings.Contains(err.Error(), ":9: JEQ") {
		t.Errorf("err = %v", err)
	}
}

// (e) stray store past the end of out
func TestNegExtraStore(t *testing.T) {
	src := replace1(t, readAsm(t), "\tMOVQ  out+8(FP), AX\n", "\tMOVQ  out+8(FP), AX\n\tMOVQ  $1, 96(AX)\n")
	a := analyse(t, parseSrc(t, src), projective.name)
	got, err := a.Specialise(3)
	if err != nil {
		t.Fatal(err)
	}
	if len(got) != 7 {
		t.Fatalf("%d stores", len(got))
	}
	want := Store{Base: "out", Off: 96, Width: 8, Lanes: []Lane{{IsConst: true, Const: 1}, {IsConst: true}}, Line: got[0].Line}
	if !reflect.DeepEqual(got[0], want) {
		t.Errorf("got %+v", got[0])
	}
	var beyond bool
	for _, s := range a.StoreSites() {
		beyond = beyond || s.Off+int64(s.Width) > 96
	}
	if !beyond {
		t.Error("StoreSites does not show the store at out+96")
	}
	// Narrow stores and register stores.
	a = analyse(t, parseSrc(t, header+"\tMOVQ out+8(FP), AX\n\tMOVQ idx+16(FP), BX\n\tMOVB $0x1ff, 96(AX)\n\tMOVL $-1, 100(AX)\n\tMOVQ BX, 104(AX)\n\tRET\n"), projective.name)
	if !a.Facts.IdxFlowsToGPRStore {
		t.Error("IdxFlowsToGPRStore not set")
	}
	sites := a.StoreSites()
	if len(sites) != 3 || sites[0].Width != 1 || sites[1].Width != 4 || sites[2].Width != 8 || sites[2].Off != 104 {
		t.Errorf("sites %+v", sites)
	}
	if _, err := a.Specialise(5); err == nil || !strings.Contains(err.Error(), "line 10") {
		t.Errorf("high half of idx is not a constant: err = %v", err) // lane 1 = idx>>32
	}
}

// (f) fail closed
func TestNegUnsupported(t *testing.T) {
	for _, tc := range []struct{ body, want string }{
		{"\tVPXOR Y1, Y1, Y1\n\tRET\n", ":6: VPXOR: unsupported mnemonic"},
		{"\tRET\n\tFROB AX\n", ":7: FROB: unsupported mnemonic"}, // even if unreachable
		{"\tMOVQ $(1<<3), AX\n\tRET\n", ":6: MOVQ: unsupported operand"},
		{"\tMOVQ x-8(SP), AX\n\tRET\n", ":6: MOVQ: unsupported operand"},
		{"\tMOVQ idx+8(FP), AX\n\tRET\n", ":6: MOVQ: idx+8(FP): parameter idx is at offset 16"},
		{"\tMOVQ foo+0(FP), AX\n\tRET\n", "no such parameter"},
		{"\tADDQ $1, (AX)\n\tRET\n", ":6: ADDQ: destination must be a general register"},
		{"\tJMP 2(PC)\n\tRET\n", ":6: JMP"},
		{"\tJMP nowhere\n\tRET\n", "undefined label nowhere"},
		{"\tMOVQ $1, AX\n", "falls off the end"},
		{"loop:\n\tJMP loop\n", "instructions executed"},
		{"\tMOVQ out+8(FP), AX\n\tMOVQ $1, (AX)\n\tMOVQ (AX), BX\n\tRET\n", ":8: MOVQ: load after a store"},
		{"\tMOVQ tbl+0(FP), CX\n\tMOVOU (CX), X1\n\tMOVOU 16(CX), X2\n\tPCMPEQL X1, X2\n\tRET\n", ":9: PCMPEQL: cannot compare"},
	} {
		fn := findFunc(t, parseSrc(t, header+tc.body), projective.name)
		if _, err := Analyse(fn, protoParams); err == nil || !strings.Contains(err.Error(), tc.want) || !strings.Contains(err.Error(), fn.File) {
			t.Errorf("%q: err = %v, want %q", tc.body, err, tc.want)
		}
	}
	// Parse-level failures.
	for _, src := range []string{"#define X 1\n", "\tMOVQ $1, AX\n", "/* c */\n"} {
		if _, err := Parse("x.s", []byte(src)); err == nil {
			t.Errorf("%q: no parse error", src)
		}
	}
}

// Miscellaneous semantics used by plausible edits of the file.
func TestSemantics(t *testing.T) {
	// Down-counting loop with DECQ/JNE, CALL recorded, aliases, XMM idioms.
	src := header + `	MOVQ tbl+0(FP), CX
	MOVQ out+8(FP), DI
	MOVL $4, AX
	XORQ BX, BX
again:
	MOVOU (CX), X1
	LEAQ 16(CX), CX
	ADDQ $1, BX
	DECQ AX
	JNZ again
	PCMPEQL X3, X3
	PANDN X1, X3
	MOVQ BX, X4
	MOVOA X3, (DI)
	MOVQ X4, 16(DI)
	MOVL X4, DX
	CMPQ DX, $4
	JL bad
	JG bad
	CALL ·other(SB)
	RET
bad:
	FROBNICATE
`
	src = strings.Replace(src, "\tFROBNICATE\n", "\tJMP bad\n", 1)
	a := analyse(t, parseSrc(t, src), projective.name)
	if a.Facts.LoopIterations != 3 || len(a.Facts.Loads) != 4 || a.Facts.Loads[3].Off != 48 || !reflect.DeepEqual(a.Facts.Calls, []int{25}) {
		t.Errorf("facts %+v", a.Facts)
	}
	got, err := a.Specialise(0)
	if err != nil {
		t.Fatal(err)
	}
	zero := Lane{IsConst: true}
	want := []Store{
		{Base: "out", Off: 0, Width: 16, Lanes: []Lane{zero, zero, zero, zero}, Line: 19}, // ^ones & x = 0
		{Base: "out", Off: 16, Width: 8, Lanes: []Lane{{IsConst: true, Const: 4}, zero}, Line: 20},
	}
	if !reflect.DeepEqual(got, want) {
		t.Errorf("got %+v", got)
	}
	// Or of two different loads does not specialise.
	a = analyse(t, parseSrc(t, header+"\tMOVQ tbl+0(FP), CX\n\tMOVQ out+8(FP), DI\n\tMOVOU (CX), X1\n\tMOVOU 16(CX), X2\n\tPOR X1, X2\n\tMOVOU X2, (DI)\n\tRET\n"), projective.name)
	if _, err := a.Specialise(0); err == nil || !strings.Contains(err.Error(), "line 11") {
		t.Errorf("err = %v", err)
	}
	// PSHUFD lane selection and PCMPEQQ.
	a = analyse(t, parseSrc(t, header+"\tMOVQ out+8(FP), DI\n\tMOVQ $0x0000000200000001, AX\n\tMOVQ AX, X1\n\tPSHUFD $0x11, X1, X2\n\tMOVOU X2, (DI)\n"+
		"\tMOVQ idx+16(FP), BX\n\tMOVD BX, X0\n\tPSHUFD $0, X0, X0\n\tPSHUFD $0, X1, X3\n\tPCMPEQQ X0, X3\n\tMOVOU X3, 16(DI)\n\tRET\n"), projective.name)
	for _, idx := range []uint32{1, 2} {
		got, err = a.Specialise(idx)
		if err != nil {
			t.Fatal(err)
		}
		m := Lane{IsConst: true, Const: -(idx & 1)} // all ones iff idx == 1
		want = []Store{
			{Base: "out", Width: 16, Lanes: []Lane{{IsConst: true, Const: 2}, {IsConst: true, Const: 1}, {IsConst: true, Const: 2}, {IsConst: true, Const: 1}}, Line: 10},
			{Base: "out", Off: 16, Width: 16, Lanes: []Lane{m, m, m, m}, Line: 16},
		}
		if !reflect.DeepEqual(got, want) {
			t.Errorf("idx=%d got %+v", idx, got)
		}
	}
}
