package asmx

import (
	"fmt"
	"sort"
)

// ---------------------------------------------------------------------------
// Public result types

// Lane is one 32-bit lane of a stored value after specialisation to a
// concrete idx: either a constant or a 32-bit load from Base+Off, where the
// load observes memory as it was on function entry (the interpreter refuses
// loads that follow a store, so this is exact).
type Lane struct {
	IsConst bool
	Const   uint32
	Base    string
	Off     int64
}

// Store is one memory store.  Lanes has Width/4 entries, low lane first
// (a single lane holding the zero-extended value for Width 1 and 2).
type Store struct {
	Base  string
	Off   int64
	Width int
	Lanes []Lane
	Line  int
}

// Load is one memory load (or, from StoreSites, the footprint of a store).
type Load struct {
	Base  string
	Off   int64
	Width int
	Line  int
}

// Facts is what the abstract interpretation established.
type Facts struct {
	Loads              []Load   // every load performed, in execution order
	Stores             []Store  // filled by the most recent Specialise call
	IdxFlowsToAddress  bool     // idx-derived value used in a memory address
	IdxFlowsToFlags    bool     // idx-derived flags consumed by a conditional jump
	IdxFlowsToGPRStore bool     // idx-derived general register stored to memory
	Calls              []int    // lines of CALL instructions
	NonConstAddress    []int    // lines of accesses whose address is not param+const
	LoopIterations     int      // backward jumps taken
	InstsExecuted      int      //
	ParamsRead         []string // sorted
	AlignedAccesses    []Load   // memory operands of instructions that fault unless 16-byte aligned (MOVOA/MOVAPS, SSE arithmetic with a memory source)
}

// Analysis is the result of Analyse.
type Analysis struct {
	Facts      Facts
	Incomplete string // non-empty if interpretation stopped early; says why
	stores     []symStore
}

// MaxInsts bounds the number of abstractly executed instructions.
const MaxInsts = 100000

// SecretParam is the name of the argument treated as the secret index.
const SecretParam = "idx"

// ---------------------------------------------------------------------------
// Abstract values

// gval is the abstract value of a 64-bit general register.
type gkind int

const (
	gUnknown gkind = iota // anything, but not derived from idx
	gConst                // c
	gPtr                  // param pointer base + off
	gIdx                  // the full 64-bit idx argument
	gIdx32                // idx & 0xffffffff
	gTaint                // unknown value derived from idx
)

type gval struct {
	kind gkind
	c    uint64
	base string
	off  int64
}

func konst(c uint64) gval  { return gval{kind: gConst, c: c} }
func (v gval) taint() bool { return v.kind == gIdx || v.kind == gIdx32 || v.kind == gTaint }

// unknownG is an unknown register value, idx-derived iff t.
func unknownG(t bool) gval {
	if t {
		return gval{kind: gTaint}
	}
	return gval{}
}

// trunc32 is the value after a 32-bit (zero extending) move.
func (v gval) trunc32() gval {
	switch v.kind {
	case gConst:
		return konst(v.c & 0xffffffff)
	case gIdx, gIdx32:
		return gval{kind: gIdx32}
	}
	return unknownG(v.taint())
}

// arith computes a op b over abstract values.
func arith(op string, a, b gval) gval {
	if a.kind == gConst && b.kind == gConst {
		switch op {
		case "add":
			return konst(a.c + b.c)
		case "sub":
			return konst(a.c - b.c)
		case "and":
			return konst(a.c & b.c)
		case "or":
			return konst(a.c | b.c)
		case "xor":
			return konst(a.c ^ b.c)
		case "mul":
			return konst(a.c * b.c)
		case "shl":
			return konst(a.c << (b.c & 63))
		case "shr":
			return konst(a.c >> (b.c & 63))
		}
	}
	if a.taint() || b.taint() {
		return gval{kind: gTaint}
	}
	switch {
	case op == "add" && a.kind == gPtr && b.kind == gConst:
		return gval{kind: gPtr, base: a.base, off: a.off + int64(b.c)}
	case op == "add" && a.kind == gConst && b.kind == gPtr:
		return gval{kind: gPtr, base: b.base, off: b.off + int64(a.c)}
	case op == "sub" && a.kind == gPtr && b.kind == gConst:
		return gval{kind: gPtr, base: a.base, off: a.off - int64(b.c)}
	}
	return gval{}
}

// lexpr is the symbolic value of one 32-bit XMM lane.
type lkind int

const (
	lUnknown lkind = iota // anything (taint says whether it may depend on idx)
	lConst                // c
	lLoad                 // 32-bit load from base+off
	lIdx32                // low 32 bits of idx
	lEqMask               // idx32 == c ? 0xffffffff : 0
	lAnd                  // a & b
	lOr                   // a | b
	lXor                  // a ^ b
	lAndN                 // ^a & b
)

type lexpr struct {
	kind  lkind
	c     uint32
	base  string
	off   int64
	a, b  *lexpr
	taint bool // may depend on idx
}

const ones = 0xffffffff

var (
	lZero  = &lexpr{kind: lConst}
	lOnes  = &lexpr{kind: lConst, c: ones}
	lIdx   = &lexpr{kind: lIdx32, taint: true}
	lAny   = &lexpr{kind: lUnknown}
	lAnyT  = &lexpr{kind: lUnknown, taint: true}
	zeroes = [4]*lexpr{lZero, lZero, lZero, lZero}
)

func lc(c uint32) *lexpr { return &lexpr{kind: lConst, c: c} }
func unknownL(t bool) *lexpr {
	if t {
		return lAnyT
	}
	return lAny
}
func isC(e *lexpr, c uint32) bool { return e.kind == lConst && e.c == c }
func bin(k lkind, a, b *lexpr) *lexpr {
	return &lexpr{kind: k, a: a, b: b, taint: a.taint || b.taint}
}

// The constructors apply the identities that are valid for every idx.
func mkAnd(a, b *lexpr) *lexpr {
	switch {
	case isC(a, 0) || isC(b, 0):
		return lZero
	case isC(a, ones) || a == b:
		return b
	case isC(b, ones):
		return a
	case a.kind == lConst && b.kind == lConst:
		return lc(a.c & b.c)
	}
	return bin(lAnd, a, b)
}
func mkOr(a, b *lexpr) *lexpr {
	switch {
	case isC(a, ones) || isC(b, ones):
		return lOnes
	case isC(a, 0) || a == b:
		return b
	case isC(b, 0):
		return a
	case a.kind == lConst && b.kind == lConst:
		return lc(a.c | b.c)
	}
	return bin(lOr, a, b)
}
func mkXor(a, b *lexpr) *lexpr {
	switch {
	case isC(a, 0):
		return b
	case isC(b, 0):
		return a
	case a.kind == lConst && b.kind == lConst:
		return lc(a.c ^ b.c)
	}
	return bin(lXor, a, b)
}
func mkAndN(a, b *lexpr) *lexpr { // ^a & b
	switch {
	case isC(a, ones) || isC(b, 0):
		return lZero
	case isC(a, 0):
		return b
	case a.kind == lConst && b.kind == lConst:
		return lc(^a.c & b.c)
	}
	return bin(lAndN, a, b)
}

// mkEq is one lane of PCMPEQL.
func mkEq(a, b *lexpr) (*lexpr, bool) {
	switch {
	case a.kind == lConst && b.kind == lConst:
		if a.c == b.c {
			return lOnes, true
		}
		return lZero, true
	case a.kind == lIdx32 && b.kind == lIdx32:
		return lOnes, true
	case a.kind == lIdx32 && b.kind == lConst:
		return &lexpr{kind: lEqMask, c: b.c, taint: true}, true
	case a.kind == lConst && b.kind == lIdx32:
		return &lexpr{kind: lEqMask, c: a.c, taint: true}, true
	}
	return nil, false
}

func (e *lexpr) String() string {
	switch e.kind {
	case lConst:
		return fmt.Sprintf("%#x", e.c)
	case lLoad:
		return fmt.Sprintf("[%s+%#x]", e.base, e.off)
	case lIdx32:
		return "idx32"
	case lEqMask:
		return fmt.Sprintf("eq(idx32,%d)", e.c)
	case lAnd:
		return "(" + e.a.String() + " & " + e.b.String() + ")"
	case lOr:
		return "(" + e.a.String() + " | " + e.b.String() + ")"
	case lXor:
		return "(" + e.a.String() + " ^ " + e.b.String() + ")"
	case lAndN:
		return "(^" + e.a.String() + " & " + e.b.String() + ")"
	}
	if e.taint {
		return "unknown(idx)"
	}
	return "unknown"
}

// symStore is a store whose lanes are still symbolic in idx.
type symStore struct {
	base  string
	off   int64
	width int
	lanes []*lexpr
	line  int
}

// flags models ZF/SF/OF/CF after the last flag-setting instruction.
type flags struct {
	state          int // 0 never set / undefined, 1 concrete, 2 idx-derived, 3 unknown
	zf, sf, of, cf bool
	cfKnown        bool
	line           int
}

const (
	fNone = iota
	fConcrete
	fTaint
	fUnknown
)

// ---------------------------------------------------------------------------
// The machine

type machine struct {
	fn     *Func
	params map[string]int64
	gpr    map[string]gval
	xmm    map[string][4]*lexpr
	fl     flags
	facts  Facts
	stores []symStore
	labels map[string]int
	read   map[string]bool
	stored bool // a store has been performed; later loads are refused
}

func (m *machine) errf(in Inst, format string, a ...any) error {
	return fmt.Errorf("%s:%d: %s: %s", m.fn.File, in.Line, in.Op, fmt.Sprintf(format, a...))
}

// supported lists every mnemonic the interpreter implements.  Analyse
// rejects a function containing anything else, reachable or not.
var supported = map[string]bool{}

func init() {
	for _, l := range [][]string{movOps, xmovOps, xbinOps, aluOps, condJumps,
		{"PSHUFD", "INCQ", "DECQ", "SHLQ", "SHRQ", "IMULQ", "IMUL3Q", "LEAQ",
			"CMPQ", "TESTQ", "JMP", "CALL", "RET", "NOP"}} {
		for _, op := range l {
			supported[op] = true
		}
	}
}

var (
	// MOVD is an alias of MOVQ in the Go assembler (cmd/asm/internal/arch).
	movOps  = []string{"MOVQ", "MOVD", "MOVL", "MOVW", "MOVB"}
	xmovOps = []string{"MOVOU", "MOVOA", "MOVO", "MOVUPS", "MOVAPS"}
	xbinOps = []string{"PXOR", "PAND", "POR", "PANDN", "PCMPEQL", "PCMPEQQ"}
	aluOps  = []string{"ADDQ", "SUBQ", "ANDQ", "ORQ", "XORQ"}
	// Conditional jumps including the assembler's aliases.
	condJumps = []string{"JEQ", "JE", "JZ", "JNE", "JNZ", "JLT", "JL", "JNGE", "JGE", "JNL",
		"JLE", "JNG", "JGT", "JG", "JNLE", "JHI", "JA", "JNBE", "JLS", "JBE", "JNA",
		"JCS", "JB", "JC", "JLO", "JNAE", "JCC", "JAE", "JHS", "JNB", "JNC",
		"JMI", "JS", "JPL", "JNS", "JOS", "JO", "JOC", "JNO"}
)

func oneOf(list []string, s string) bool {
	for _, x := range list {
		if x == s {
			return true
		}
	}
	return false
}

// Analyse abstractly interprets fn.  params maps the FP argument names to
// their offsets; the argument called "idx" is the secret 64-bit index, all
// other arguments are opaque pointers.
func Analyse(fn *Func, params map[string]int64) (*Analysis, error) {
	m := &machine{fn: fn, params: params, gpr: map[string]gval{}, xmm: map[string][4]*lexpr{},
		labels: map[string]int{}, read: map[string]bool{}}
	for i, ins := range fn.Insts {
		if !supported[ins.Op] {
			return nil, m.errf(ins, "unsupported mnemonic")
		}
		for _, a := range ins.Args {
			if a.Kind == KindUnknown {
				return nil, m.errf(ins, "unsupported operand %q", a.Raw)
			}
		}
		if ins.Label != "" {
			if _, dup := m.labels[ins.Label]; dup {
				return nil, m.errf(ins, "duplicate label %s", ins.Label)
			}
			m.labels[ins.Label] = i
		}
	}
	for i := 0; i < 16; i++ { // XMM registers start out as non-secret garbage
		m.xmm[fmt.Sprintf("X%d", i)] = [4]*lexpr{lAny, lAny, lAny, lAny}
	}
	a := &Analysis{}
	pc := 0
	for pc >= 0 {
		if pc >= len(fn.Insts) {
			return nil, fmt.Errorf("%s: %s: control falls off the end of the function", fn.File, fn.Name)
		}
		if m.facts.InstsExecuted >= MaxInsts {
			return nil, m.errf(fn.Insts[pc], "more than %d instructions executed", MaxInsts)
		}
		m.facts.InstsExecuted++
		next, stop, err := m.step(pc, fn.Insts[pc])
		if err != nil {
			return nil, err
		}
		if stop != "" {
			a.Incomplete = stop
			break
		}
		if next >= 0 && next <= pc {
			m.facts.LoopIterations++
		}
		pc = next
	}
	for p := range m.read {
		m.facts.ParamsRead = append(m.facts.ParamsRead, p)
	}
	sort.Strings(m.facts.ParamsRead)
	a.Facts, a.stores = m.facts, m.stores
	return a, nil
}

// param evaluates a name+off(FP) operand, checking it against the prototype.
func (m *machine) param(in Inst, o Operand) (gval, error) {
	want, ok := m.params[o.Sym]
	if !ok {
		return gval{}, m.errf(in, "%s: no such parameter", o.Raw)
	}
	if want != o.Off {
		return gval{}, m.errf(in, "%s: parameter %s is at offset %d", o.Raw, o.Sym, want)
	}
	m.read[o.Sym] = true
	if o.Sym == SecretParam {
		return gval{kind: gIdx}, nil
	}
	return gval{kind: gPtr, base: o.Sym}, nil
}

// ea computes the effective address of a memory operand.
func (m *machine) ea(o Operand) gval {
	v := arith("add", m.gpr[o.Reg], konst(uint64(o.Off)))
	if o.Index != "" {
		v = arith("add", v, arith("mul", m.gpr[o.Index], konst(uint64(o.Scale))))
	}
	return v
}

// access resolves the address of a load or store and records the
// address-related facts.  ok is false if the address is not param+const.
func (m *machine) access(in Inst, o Operand) (base string, off int64, ok, taint bool) {
	v := m.ea(o)
	if v.kind == gPtr {
		return v.base, v.off, true, false
	}
	m.facts.NonConstAddress = append(m.facts.NonConstAddress, in.Line)
	if v.taint() {
		m.facts.IdxFlowsToAddress = true
	}
	return "", 0, false, v.taint()
}

// noteAligned records a memory operand that must be 16-byte aligned.
func (m *machine) noteAligned(in Inst, o Operand) {
	v := m.ea(o)
	l := Load{Line: in.Line, Width: 16}
	if v.kind == gPtr {
		l.Base, l.Off = v.base, v.off
	}
	m.facts.AlignedAccesses = append(m.facts.AlignedAccesses, l)
}

// load reads width (4, 8 or 16) bytes and returns width/4 lanes.
func (m *machine) load(in Inst, o Operand, width int) ([]*lexpr, error) {
	if m.stored {
		return nil, m.errf(in, "load after a store is not supported (loads denote entry-time memory)")
	}
	base, off, ok, taint := m.access(in, o)
	lanes := make([]*lexpr, width/4)
	for i := range lanes {
		if ok {
			lanes[i] = &lexpr{kind: lLoad, base: base, off: off + 4*int64(i)}
		} else {
			lanes[i] = unknownL(taint)
		}
	}
	if ok {
		m.facts.Loads = append(m.facts.Loads, Load{Base: base, Off: off, Width: width, Line: in.Line})
	}
	return lanes, nil
}

// store writes lanes (width bytes) to a memory operand.
func (m *machine) store(in Inst, o Operand, width int, lanes []*lexpr) {
	m.stored = true
	if base, off, ok, _ := m.access(in, o); ok {
		m.stores = append(m.stores, symStore{base: base, off: off, width: width, lanes: lanes, line: in.Line})
	}
}

// gprLanes splits a 64-bit register value into two 32-bit lanes.
func gprLanes(v gval) [2]*lexpr {
	switch v.kind {
	case gConst:
		return [2]*lexpr{lc(uint32(v.c)), lc(uint32(v.c >> 32))}
	case gIdx:
		return [2]*lexpr{lIdx, lAnyT}
	case gIdx32:
		return [2]*lexpr{lIdx, lZero}
	}
	return [2]*lexpr{unknownL(v.taint()), unknownL(v.taint())}
}

// lanesGPR is the inverse of gprLanes (hi == nil means zero extension).
func lanesGPR(lo, hi *lexpr) gval {
	if hi == nil {
		hi = lZero
	}
	switch {
	case lo.kind == lConst && hi.kind == lConst:
		return konst(uint64(lo.c) | uint64(hi.c)<<32)
	case lo.kind == lIdx32 && isC(hi, 0):
		return gval{kind: gIdx32}
	}
	return unknownG(lo.taint || hi.taint)
}

// gsrc evaluates a general-purpose source operand of the given width.
func (m *machine) gsrc(in Inst, o Operand, width int) (gval, error) {
	var v gval
	switch {
	case o.Kind == KindImm:
		v = konst(uint64(o.Imm))
	case o.Kind == KindReg && IsGPR(o.Reg):
		v = m.gpr[o.Reg]
	case o.Kind == KindFP:
		var err error
		if v, err = m.param(in, o); err != nil {
			return v, err
		}
	case o.Kind == KindMem:
		l, err := m.load(in, o, width)
		if err != nil {
			return v, err
		}
		if width == 8 {
			return lanesGPR(l[0], l[1]), nil
		}
		return lanesGPR(l[0], nil), nil
	default:
		return v, m.errf(in, "unsupported source operand %q", o.Raw)
	}
	if width == 4 {
		v = v.trunc32()
	}
	return v, nil
}

// xsrc evaluates a 128-bit source operand (XMM register or memory).
func (m *machine) xsrc(in Inst, o Operand) (r [4]*lexpr, err error) {
	switch {
	case o.Kind == KindReg && IsXMM(o.Reg):
		return m.xmm[o.Reg], nil
	case o.Kind == KindMem:
		l, err := m.load(in, o, 16)
		if err != nil {
			return r, err
		}
		copy(r[:], l)
		return r, nil
	}
	return r, m.errf(in, "unsupported source operand %q", o.Raw)
}

// setFlags records the flags of `a op b` (op: add, sub, and/or/xor = logic,
// or "undef" for instructions that leave the flags undefined).  keepCF is
// for INC/DEC, which do not write CF.
func (m *machine) setFlags(in Inst, op string, a, b gval, keepCF bool) {
	old := m.fl
	m.fl = flags{line: in.Line}
	switch {
	case a.taint() || b.taint():
		m.fl.state = fTaint
	case op == "undef" || a.kind != gConst || b.kind != gConst:
		m.fl.state = fUnknown
	default:
		r := arith(op, a, b).c
		m.fl.state, m.fl.zf, m.fl.sf, m.fl.cfKnown = fConcrete, r == 0, r>>63 == 1, true
		switch op {
		case "add":
			m.fl.cf, m.fl.of = r < a.c, ((a.c^r)&(b.c^r))>>63 == 1
		case "sub":
			m.fl.cf, m.fl.of = a.c < b.c, ((a.c^b.c)&(a.c^r))>>63 == 1
		}
		if keepCF {
			m.fl.cf, m.fl.cfKnown = old.cf, old.state == fConcrete && old.cfKnown
		}
	}
}

// cond evaluates a conditional jump against concrete flags.
func (m *machine) cond(in Inst) (bool, error) {
	f := m.fl
	lt, needCF, r := f.sf != f.of, false, false
	switch in.Op {
	case "JEQ", "JE", "JZ":
		r = f.zf
	case "JNE", "JNZ":
		r = !f.zf
	case "JLT", "JL", "JNGE":
		r = lt
	case "JGE", "JNL":
		r = !lt
	case "JLE", "JNG":
		r = f.zf || lt
	case "JGT", "JG", "JNLE":
		r = !f.zf && !lt
	case "JHI", "JA", "JNBE":
		r, needCF = !f.cf && !f.zf, true
	case "JLS", "JBE", "JNA":
		r, needCF = f.cf || f.zf, true
	case "JCS", "JB", "JC", "JLO", "JNAE":
		r, needCF = f.cf, true
	case "JCC", "JAE", "JHS", "JNB", "JNC":
		r, needCF = !f.cf, true
	case "JMI", "JS":
		r = f.sf
	case "JPL", "JNS":
		r = !f.sf
	case "JOS", "JO":
		r = f.of
	case "JOC", "JNO":
		r = !f.of
	default:
		return false, m.errf(in, "unsupported mnemonic")
	}
	if needCF && !f.cfKnown {
		return false, m.errf(in, "carry flag is not known here")
	}
	return r, nil
}

// step executes one instruction.  It returns the next pc (-1 after RET) or
// a non-empty stop reason when interpretation cannot soundly continue.
func (m *machine) step(pc int, ins Inst) (next int, stop string, err error) {
	next = pc + 1
	A := ins.Args
	need := func(n int) error {
		if len(A) != n {
			return m.errf(ins, "want %d operands, have %d", n, len(A))
		}
		return nil
	}
	gdst := func(o Operand) bool { return o.Kind == KindReg && IsGPR(o.Reg) }
	xdst := func(o Operand) bool { return o.Kind == KindReg && IsXMM(o.Reg) }
	target := func() (int, error) { // resolves the label of a jump
		if len(A) != 1 || A[0].Kind != KindLabel {
			return 0, m.errf(ins, "jump target must be a label")
		}
		t, ok := m.labels[A[0].Sym]
		if !ok {
			return 0, m.errf(ins, "undefined label %s", A[0].Sym)
		}
		return t, nil
	}

	switch op := ins.Op; {
	case op == "NOP":
		// Nothing.

	case op == "RET":
		if err = need(0); err == nil {
			next = -1
		}

	case op == "CALL":
		// Recorded, not interpreted: the callee may clobber every register.
		m.facts.Calls = append(m.facts.Calls, ins.Line)
		m.gpr = map[string]gval{}
		for r := range m.xmm {
			m.xmm[r] = [4]*lexpr{lAny, lAny, lAny, lAny}
		}
		m.fl = flags{}

	case op == "JMP":
		next, err = target()

	case oneOf(condJumps, op):
		switch m.fl.state {
		case fTaint:
			m.facts.IdxFlowsToFlags = true
			return next, fmt.Sprintf("%s:%d: %s depends on flags derived from idx (set at line %d)",
				m.fn.File, ins.Line, op, m.fl.line), nil
		case fConcrete:
			var t int
			var taken bool
			if t, err = target(); err != nil {
				break
			}
			if taken, err = m.cond(ins); err == nil && taken {
				next = t
			}
		default:
			err = m.errf(ins, "conditional jump on flags that are not compile-time constants")
		}

	case oneOf(movOps, op):
		err = m.mov(ins)

	case oneOf(xmovOps, op): // 128-bit moves
		if err = need(2); err != nil {
			break
		}
		if op != "MOVOU" && op != "MOVUPS" {
			for _, o := range A {
				if o.Kind == KindMem {
					m.noteAligned(ins, o)
				}
			}
		}
		var v [4]*lexpr
		switch {
		case xdst(A[1]):
			if v, err = m.xsrc(ins, A[0]); err == nil {
				m.xmm[A[1].Reg] = v
			}
		case A[1].Kind == KindMem && xdst(A[0]):
			v = m.xmm[A[0].Reg]
			m.store(ins, A[1], 16, v[:])
		default:
			err = m.errf(ins, "unsupported operands")
		}

	case oneOf(xbinOps, op):
		if err = need(2); err != nil {
			break
		}
		if !xdst(A[1]) {
			err = m.errf(ins, "destination must be an XMM register")
			break
		}
		d := m.xmm[A[1].Reg]
		if same := xdst(A[0]) && A[0].Reg == A[1].Reg; same && op == "PXOR" {
			m.xmm[A[1].Reg] = zeroes // zeroing idiom
			break
		} else if same && (op == "PCMPEQL" || op == "PCMPEQQ") {
			m.xmm[A[1].Reg] = [4]*lexpr{lOnes, lOnes, lOnes, lOnes} // all-ones idiom
			break
		}
		if A[0].Kind == KindMem {
			m.noteAligned(ins, A[0]) // legacy SSE arithmetic requires an aligned memory source
		}
		var s [4]*lexpr
		if s, err = m.xsrc(ins, A[0]); err != nil {
			break
		}
		for i := range d {
			switch op {
			case "PXOR":
				d[i] = mkXor(d[i], s[i])
			case "PAND":
				d[i] = mkAnd(d[i], s[i])
			case "POR":
				d[i] = mkOr(d[i], s[i])
			case "PANDN": // dst = ^dst & src
				d[i] = mkAndN(d[i], s[i])
			case "PCMPEQL", "PCMPEQQ":
				e, ok := mkEq(d[i], s[i])
				if !ok {
					return next, "", m.errf(ins, "cannot compare lane %d: %v == %v", i, d[i], s[i])
				}
				d[i] = e
			}
		}
		if op == "PCMPEQQ" { // a 64-bit lane is equal iff both halves are
			d[0], d[2] = mkAnd(d[0], d[1]), mkAnd(d[2], d[3])
			d[1], d[3] = d[0], d[2]
		}
		m.xmm[A[1].Reg] = d

	case op == "PSHUFD":
		if err = need(3); err != nil {
			break
		}
		if A[0].Kind != KindImm || !xdst(A[2]) {
			err = m.errf(ins, "want $imm, src, Xdst")
			break
		}
		var s, d [4]*lexpr
		if s, err = m.xsrc(ins, A[1]); err != nil {
			break
		}
		for i := range d {
			d[i] = s[(A[0].Imm>>(2*uint(i)))&3]
		}
		m.xmm[A[2].Reg] = d

	case oneOf(aluOps, op), op == "IMULQ" && len(A) == 2:
		if err = need(2); err != nil {
			break
		}
		if !gdst(A[1]) {
			err = m.errf(ins, "destination must be a general register")
			break
		}
		var s gval
		if s, err = m.gsrc(ins, A[0], 8); err != nil {
			break
		}
		d := m.gpr[A[1].Reg]
		if gdst(A[0]) && A[0].Reg == A[1].Reg && (op == "XORQ" || op == "SUBQ") {
			s, d = konst(0), konst(0) // zeroing idiom: result is 0 whatever the register held
		}
		aop := map[string]string{"ADDQ": "add", "SUBQ": "sub", "ANDQ": "and", "ORQ": "or", "XORQ": "xor", "IMULQ": "mul"}[op]
		m.gpr[A[1].Reg] = arith(aop, d, s)
		if aop == "mul" {
			aop = "undef"
		}
		m.setFlags(ins, aop, d, s, false)

	case op == "INCQ", op == "DECQ":
		if err = need(1); err != nil {
			break
		}
		if !gdst(A[0]) {
			err = m.errf(ins, "operand must be a general register")
			break
		}
		aop := map[string]string{"INCQ": "add", "DECQ": "sub"}[op]
		d := m.gpr[A[0].Reg]
		m.gpr[A[0].Reg] = arith(aop, d, konst(1))
		m.setFlags(ins, aop, d, konst(1), true)

	case op == "SHLQ", op == "SHRQ":
		if err = need(2); err != nil {
			break
		}
		if A[0].Kind != KindImm || !gdst(A[1]) {
			err = m.errf(ins, "want $imm, reg")
			break
		}
		d := m.gpr[A[1].Reg]
		m.gpr[A[1].Reg] = arith(map[string]string{"SHLQ": "shl", "SHRQ": "shr"}[op], d, konst(uint64(A[0].Imm)))
		m.setFlags(ins, "undef", d, konst(0), false) // flags after shifts are not modelled

	case op == "IMUL3Q", op == "IMULQ": // $imm, src, dst
		if err = need(3); err != nil {
			break
		}
		if A[0].Kind != KindImm || !gdst(A[2]) {
			err = m.errf(ins, "want $imm, src, reg")
			break
		}
		var s gval
		if s, err = m.gsrc(ins, A[1], 8); err != nil {
			break
		}
		m.gpr[A[2].Reg] = arith("mul", s, konst(uint64(A[0].Imm)))
		m.setFlags(ins, "undef", s, konst(0), false)

	case op == "LEAQ": // address arithmetic only: no memory access, no flags
		if err = need(2); err != nil {
			break
		}
		if A[0].Kind != KindMem || !gdst(A[1]) {
			err = m.errf(ins, "want mem, reg")
			break
		}
		m.gpr[A[1].Reg] = m.ea(A[0])

	case op == "CMPQ", op == "TESTQ":
		// Go operand order: CMPQ a, b sets the flags of a-b, so that
		// `CMPQ AX, $15; JLE L` jumps when AX <= 15.
		if err = need(2); err != nil {
			break
		}
		var a, b gval
		if a, err = m.gsrc(ins, A[0], 8); err != nil {
			break
		}
		if b, err = m.gsrc(ins, A[1], 8); err != nil {
			break
		}
		m.setFlags(ins, map[string]string{"CMPQ": "sub", "TESTQ": "and"}[op], a, b, false)

	default:
		err = m.errf(ins, "unsupported mnemonic")
	}
	return next, "", err
}

// mov implements MOVQ/MOVD (8 bytes), MOVL (4), MOVW (2), MOVB (1) between
// general registers, XMM registers, immediates, FP arguments and memory.
func (m *machine) mov(ins Inst) error {
	if len(ins.Args) != 2 {
		return m.errf(ins, "want 2 operands, have %d", len(ins.Args))
	}
	src, dst := ins.Args[0], ins.Args[1]
	width := map[string]int{"MOVQ": 8, "MOVD": 8, "MOVL": 4, "MOVW": 2, "MOVB": 1}[ins.Op]
	srcX := src.Kind == KindReg && IsXMM(src.Reg)

	if width < 4 { // only stores of an immediate or a general register
		if dst.Kind != KindMem || srcX || src.Kind == KindMem {
			return m.errf(ins, "only $imm/reg to memory is supported")
		}
		v, err := m.gsrc(ins, src, 8)
		if err != nil {
			return err
		}
		lane := unknownL(v.taint())
		if v.kind == gConst {
			lane = lc(uint32(v.c) & (1<<(8*uint(width)) - 1))
		}
		m.facts.IdxFlowsToGPRStore = m.facts.IdxFlowsToGPRStore || v.taint()
		m.store(ins, dst, width, []*lexpr{lane})
		return nil
	}

	// Evaluate the source as up to two lanes plus the general-register view.
	var lanes [2]*lexpr
	var g gval
	switch {
	case srcX:
		x := m.xmm[src.Reg]
		lanes = [2]*lexpr{x[0], x[1]}
		if width == 4 {
			lanes[1] = lZero
		}
		g = lanesGPR(lanes[0], lanes[1])
	case src.Kind == KindMem:
		l, err := m.load(ins, src, width)
		if err != nil {
			return err
		}
		lanes = [2]*lexpr{l[0], lZero}
		if width == 8 {
			lanes[1] = l[1]
		}
		g = lanesGPR(lanes[0], lanes[1])
	default:
		if src.Kind == KindImm && dst.Kind == KindReg && IsXMM(dst.Reg) {
			return m.errf(ins, "immediate to XMM register")
		}
		var err error
		if g, err = m.gsrc(ins, src, width); err != nil {
			return err
		}
		lanes = gprLanes(g)
	}

	switch {
	case dst.Kind == KindReg && IsGPR(dst.Reg):
		m.gpr[dst.Reg] = g
	case dst.Kind == KindReg && IsXMM(dst.Reg): // upper lanes are zeroed
		m.xmm[dst.Reg] = [4]*lexpr{lanes[0], lanes[1], lZero, lZero}
	case dst.Kind == KindMem:
		if src.Kind == KindMem || src.Kind == KindFP {
			return m.errf(ins, "memory to memory move")
		}
		if !srcX {
			m.facts.IdxFlowsToGPRStore = m.facts.IdxFlowsToGPRStore || g.taint()
		}
		m.store(ins, dst, width, lanes[:width/4])
	default:
		return m.errf(ins, "unsupported destination operand %q", dst.Raw)
	}
	return nil
}

// ---------------------------------------------------------------------------
// Specialisation

// StoreSites returns the footprint (base, offset, width, line) of every store
// with a resolvable address, independent of idx.
func (a *Analysis) StoreSites() []Load {
	var out []Load
	for _, s := range a.stores {
		out = append(out, Load{Base: s.base, Off: s.off, Width: s.width, Line: s.line})
	}
	return out
}

// SymbolicStores renders the stores as text, for evidence files.
func (a *Analysis) SymbolicStores() []string {
	var out []string
	for _, s := range a.stores {
		out = append(out, fmt.Sprintf("line %d: [%s+%#x] <- %v", s.line, s.base, s.off, s.lanes))
	}
	return out
}

// Specialise evaluates every store for one concrete value of idx's low 32
// bits.  It fails if the analysis is incomplete, if some access had an
// unresolved address, or if a lane does not reduce to a constant or a
// single 32-bit load.  The result is also left in a.Facts.Stores.
func (a *Analysis) Specialise(idx uint32) ([]Store, error) {
	if a.Incomplete != "" {
		return nil, fmt.Errorf("cannot specialise an incomplete analysis: %s", a.Incomplete)
	}
	if len(a.Facts.NonConstAddress) > 0 {
		return nil, fmt.Errorf("cannot specialise: memory accesses with unresolved addresses at lines %v", a.Facts.NonConstAddress)
	}
	memo := map[*lexpr]sval{}
	var out []Store
	for _, s := range a.stores {
		st := Store{Base: s.base, Off: s.off, Width: s.width, Line: s.line}
		for i, e := range s.lanes {
			v := eval(e, idx, memo)
			if !v.ok {
				return nil, fmt.Errorf("store at line %d (%s+%d): lane %d does not reduce to a constant or a single load for idx=%d: %v",
					s.line, s.base, s.off, i, idx, e)
			}
			st.Lanes = append(st.Lanes, v.Lane)
		}
		out = append(out, st)
	}
	a.Facts.Stores = out
	return out, nil
}

// sval is a specialised lane; ok is false if it is neither a constant nor a
// single load.
type sval struct {
	Lane
	ok bool
}

func cv(c uint32) sval           { return sval{Lane{IsConst: true, Const: c}, true} }
func (v sval) isC(c uint32) bool { return v.ok && v.IsConst && v.Const == c }
func sameLoad(a, b sval) bool    { return a.ok && b.ok && !a.IsConst && !b.IsConst && a.Lane == b.Lane }

func eval(e *lexpr, idx uint32, memo map[*lexpr]sval) (r sval) {
	if v, ok := memo[e]; ok {
		return v
	}
	defer func() { memo[e] = r }()
	switch e.kind {
	case lConst:
		return cv(e.c)
	case lLoad:
		return sval{Lane{Base: e.base, Off: e.off}, true}
	case lIdx32:
		return cv(idx)
	case lEqMask:
		if e.c == idx {
			return cv(ones)
		}
		return cv(0)
	case lUnknown:
		return sval{}
	}
	a, b := eval(e.a, idx, memo), eval(e.b, idx, memo)
	bothC := a.ok && b.ok && a.IsConst && b.IsConst
	switch e.kind {
	case lAnd:
		switch {
		case a.isC(0) || b.isC(0):
			return cv(0)
		case bothC:
			return cv(a.Const & b.Const)
		case a.isC(ones) || sameLoad(a, b):
			return b
		case b.isC(ones):
			return a
		}
	case lOr:
		switch {
		case a.isC(ones) || b.isC(ones):
			return cv(ones)
		case bothC:
			return cv(a.Const | b.Const)
		case a.isC(0) || sameLoad(a, b):
			return b
		case b.isC(0):
			return a
		}
	case lXor:
		switch {
		case bothC:
			return cv(a.Const ^ b.Const)
		case sameLoad(a, b):
			return cv(0)
		case a.isC(0):
			return b
		case b.isC(0):
			return a
		}
	case lAndN: // ^a & b
		switch {
		case a.isC(ones) || b.isC(0) || sameLoad(a, b):
			return cv(0)
		case bothC:
			return cv(^a.Const & b.Const)
		case a.isC(0):
			return b
		}
	}
	return sval{}
}
