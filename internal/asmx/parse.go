// Package asmx parses and abstractly interprets the small subset of Go
// (Plan 9 syntax, amd64) assembler used by point_mul_table_amd64.s.
//
// Nothing here executes machine code.  parse.go turns the text into a list
// of instructions; interp.go runs constant propagation / symbolic evaluation
// over them.  Everything that is not understood is reported as an error
// (fail closed), never skipped.
package asmx

import (
	"fmt"
	"os"
	"regexp"
	"strconv"
	"strings"
)

// OperandKind classifies the syntactic form of an operand.
type OperandKind int

const (
	KindUnknown OperandKind = iota // not understood; the interpreter rejects it
	KindImm                        // $imm
	KindReg                        // AX, X3, ...
	KindFP                         // name+off(FP)
	KindMem                        // off(REG) or off(REG)(INDEX*scale)
	KindLabel                      // bare identifier (jump target)
	KindSym                        // name(SB)
)

func (k OperandKind) String() string {
	return [...]string{"unknown", "imm", "reg", "fp", "mem", "label", "sym"}[k]
}

// Operand is one parsed instruction operand.
type Operand struct {
	Kind  OperandKind
	Reg   string // KindReg: the register; KindMem: the base register
	Imm   int64  // KindImm
	Sym   string // KindFP: argument name; KindLabel: label; KindSym: symbol
	Off   int64  // KindFP / KindMem displacement
	Index string // KindMem: index register or ""
	Scale int64  // KindMem: scale of the index register (0 if no index)
	Raw   string // source text
}

// Inst is one instruction.  Label is the label defined on it, if any.
type Inst struct {
	Op    string
	Args  []Operand
	Line  int
	Label string
}

// Func is one TEXT block.
type Func struct {
	Name            string
	Flags           []string // e.g. NOSPLIT, NOFRAME
	FrameSize       int64
	ArgSize         int64 // -1 if the TEXT directive gives no argument size
	Insts           []Inst
	Line            int
	BuildConstraint string // copy of File.BuildConstraint
	File            string // path of the source file (for diagnostics)
}

// File is a parsed assembly file.
type File struct {
	Path            string
	BuildConstraint string // expression of the //go:build line, or ""
	Funcs           []*Func
}

// ParseFile reads and parses path.
func ParseFile(path string) (*File, error) {
	src, err := os.ReadFile(path)
	if err != nil {
		return nil, err
	}
	return Parse(path, src)
}

var reLabel = regexp.MustCompile(`^([A-Za-z_][A-Za-z0-9_]*):`)

// Parse parses assembly source text; path is used for diagnostics only.
func Parse(path string, src []byte) (*File, error) {
	f := &File{Path: path}
	var cur *Func
	pending := "" // label waiting for its instruction
	lastLine := 0 // line of the most recent label or instruction
	emit := func(in Inst) {
		in.Label, pending = pending, ""
		cur.Insts = append(cur.Insts, in)
	}
	flush := func() { // a label at the very end of a function lands on a NOP
		if cur != nil && pending != "" {
			emit(Inst{Op: "NOP", Line: lastLine})
		}
		pending = ""
	}
	for i, line := range strings.Split(string(src), "\n") {
		ln := i + 1
		bad := func(format string, a ...any) error {
			return fmt.Errorf("%s:%d: %s", path, ln, fmt.Sprintf(format, a...))
		}
		trim := strings.TrimSpace(line)
		if strings.HasPrefix(trim, "//go:build ") && len(f.Funcs) == 0 && f.BuildConstraint == "" {
			f.BuildConstraint = strings.TrimSpace(strings.TrimPrefix(trim, "//go:build"))
			continue
		}
		if strings.HasPrefix(trim, "#include") {
			continue
		}
		if strings.HasPrefix(trim, "#") {
			return nil, bad("unsupported preprocessor directive %q", trim)
		}
		if strings.Contains(line, "/*") {
			return nil, bad("block comments are not supported")
		}
		if j := strings.Index(line, "//"); j >= 0 {
			line = line[:j]
		}
		for _, stmt := range strings.Split(line, ";") {
			stmt = strings.TrimSpace(stmt)
			// Leading label(s).
			for {
				m := reLabel.FindStringSubmatch(stmt)
				if m == nil {
					break
				}
				if cur == nil {
					return nil, bad("label %s outside TEXT", m[1])
				}
				if pending != "" { // two labels in a row: park the first on a NOP
					emit(Inst{Op: "NOP", Line: ln})
				}
				pending, lastLine = m[1], ln
				stmt = strings.TrimSpace(stmt[len(m[0]):])
			}
			if stmt == "" {
				continue
			}
			op, rest := stmt, ""
			if j := strings.IndexAny(stmt, " \t"); j >= 0 {
				op, rest = stmt[:j], strings.TrimSpace(stmt[j:])
			}
			if op == "TEXT" {
				flush()
				fn, err := parseText(rest)
				if err != nil {
					return nil, bad("%v", err)
				}
				fn.Line, fn.File, fn.BuildConstraint = ln, path, f.BuildConstraint
				f.Funcs = append(f.Funcs, fn)
				cur = fn
				continue
			}
			if cur == nil {
				return nil, bad("%s outside TEXT", op)
			}
			in := Inst{Op: op, Line: ln}
			lastLine = ln
			for _, a := range splitOperands(rest) {
				in.Args = append(in.Args, parseOperand(a))
			}
			emit(in)
		}
	}
	flush()
	return f, nil
}

// parseText parses the operands of `TEXT ·name(SB), FLAGS, $frame-args`.
func parseText(rest string) (*Func, error) {
	args := splitOperands(rest)
	if len(args) != 2 && len(args) != 3 {
		return nil, fmt.Errorf("malformed TEXT directive %q", rest)
	}
	name := strings.TrimSuffix(args[0], "(SB)")
	if name == args[0] {
		return nil, fmt.Errorf("TEXT symbol %q is not of the form name(SB)", args[0])
	}
	name = strings.TrimSuffix(name, "<>")
	if j := strings.LastIndex(name, "·"); j >= 0 {
		name = name[j+len("·"):]
	}
	fn := &Func{Name: name, ArgSize: -1}
	if len(args) == 3 {
		for _, fl := range strings.Split(args[1], "|") {
			fn.Flags = append(fn.Flags, strings.TrimSpace(fl))
		}
	}
	size := args[len(args)-1]
	if !strings.HasPrefix(size, "$") {
		return nil, fmt.Errorf("malformed frame size %q", size)
	}
	frame, argsz, hasArgs := strings.Cut(size[1:], "-")
	var err error
	if fn.FrameSize, err = parseInt(frame); err != nil {
		return nil, fmt.Errorf("malformed frame size %q", size)
	}
	if hasArgs {
		if fn.ArgSize, err = parseInt(argsz); err != nil {
			return nil, fmt.Errorf("malformed frame size %q", size)
		}
	}
	return fn, nil
}

// splitOperands splits at commas that are not nested inside parentheses.
func splitOperands(s string) []string {
	var out []string
	depth, start := 0, 0
	for i, r := range s {
		switch r {
		case '(':
			depth++
		case ')':
			depth--
		case ',':
			if depth == 0 {
				out = append(out, strings.TrimSpace(s[start:i]))
				start = i + 1
			}
		}
	}
	if t := strings.TrimSpace(s[start:]); t != "" || len(out) > 0 {
		out = append(out, t)
	}
	return out
}

// parseInt accepts decimal and 0x hex, optionally negative; hex constants
// with the top bit set (0xffff...) wrap to negative int64.
func parseInt(s string) (int64, error) {
	neg := strings.HasPrefix(s, "-")
	u, err := strconv.ParseUint(strings.TrimPrefix(s, "-"), 0, 64)
	if err != nil {
		return 0, err
	}
	if neg {
		return -int64(u), nil
	}
	return int64(u), nil
}

var (
	reNum   = `(?:0[xX][0-9a-fA-F]+|[0-9]+)`
	reFP    = regexp.MustCompile(`^([A-Za-z_][A-Za-z0-9_]*)\+(` + reNum + `)\(FP\)$`)
	reMem   = regexp.MustCompile(`^(-?` + reNum + `)?\(([A-Z][A-Z0-9]*)\)(?:\(([A-Z][A-Z0-9]*)\*([1248])\))?$`)
	reIdent = regexp.MustCompile(`^[A-Za-z_][A-Za-z0-9_]*$`)
)

// gprNames are the 64-bit general registers of the Go amd64 assembler.
var gprNames = map[string]bool{
	"AX": true, "BX": true, "CX": true, "DX": true, "SI": true, "DI": true, "BP": true, "SP": true,
	"R8": true, "R9": true, "R10": true, "R11": true, "R12": true, "R13": true, "R14": true, "R15": true,
}

// IsGPR reports whether name is a general purpose register.
func IsGPR(name string) bool { return gprNames[name] }

// IsXMM reports whether name is one of X0..X15.
func IsXMM(name string) bool {
	if len(name) < 2 || name[0] != 'X' {
		return false
	}
	n, err := strconv.Atoi(name[1:])
	return err == nil && n >= 0 && n <= 15 && strconv.Itoa(n) == name[1:]
}

// isOtherReg recognises register files the interpreter does not model
// (AVX/AVX-512/x87/MMX), so that they are not mistaken for labels.
func isOtherReg(name string) bool { return reOtherReg.MatchString(name) }

var reOtherReg = regexp.MustCompile(`^(Y|Z|K|M|F)[0-9]+$|^(A|B|C|D)(L|H)$|^R[0-9]+B$`)

func parseOperand(s string) Operand {
	o := Operand{Raw: s}
	switch {
	case strings.HasPrefix(s, "$"):
		if v, err := parseInt(s[1:]); err == nil {
			o.Kind, o.Imm = KindImm, v
		}
	case IsGPR(s) || IsXMM(s) || isOtherReg(s):
		o.Kind, o.Reg = KindReg, s
	case strings.HasSuffix(s, "(SB)"):
		o.Kind, o.Sym = KindSym, strings.TrimSuffix(s, "(SB)")
	case reFP.MatchString(s):
		m := reFP.FindStringSubmatch(s)
		off, err := parseInt(m[2])
		if err == nil {
			o.Kind, o.Sym, o.Off = KindFP, m[1], off
		}
	case reMem.MatchString(s):
		m := reMem.FindStringSubmatch(s)
		if !IsGPR(m[2]) || (m[3] != "" && !IsGPR(m[3])) {
			break // (PC), (FP), vector index ... : not supported
		}
		var err error
		if m[1] != "" {
			o.Off, err = parseInt(m[1])
		}
		if err == nil {
			o.Kind, o.Reg, o.Index = KindMem, m[2], m[3]
			if m[3] != "" {
				o.Scale, _ = parseInt(m[4])
			}
		}
	case reIdent.MatchString(s):
		o.Kind, o.Sym = KindLabel, s
	}
	return o
}
