// Package check is the obligation / evidence / known-findings framework shared by all property checks.
package check

import (
	"bufio"
	"encoding/json"
	"fmt"
	"os"
	"path/filepath"
	"sort"
	"strings"
	"time"
)

// Status of an obligation.
type Status string

const (
	Discharged Status = "discharged"
	Violated   Status = "violated"
	Undecided  Status = "undecided"
)

// Obligation is one decided (or undecided) proof obligation, keyed by rule/construct.
type Obligation struct {
	Key    string `json:"key"`  // rule/construct, never a line number
	Rule   string `json:"rule"` // rule identifier (e.g. C03-1)
	Status Status `json:"status"`
	Pos    string `json:"pos,omitempty"` // file:line of the construct (diagnostic only)
	Detail string `json:"detail,omitempty"`
	Config string `json:"config,omitempty"`
}

// Report accumulates the results of one property check.
type Report struct {
	Property    string
	Level       string
	Tier        string
	Seed        int64
	Start       time.Time
	Obligations []Obligation
	Floors      map[string]int // rule -> minimum number of obligations
	Samples     []interface{}
	Explanation string
	Assumptions []string
	Trusted     []string
	Configs     []string
	Extra       map[string]interface{}
	Controls    []Control
	FuncsSeen   map[string]bool
}

// Control is the outcome of a positive control (a deliberately wrong oracle or fixture that must be flagged).
type Control struct {
	Name     string `json:"name"`
	Expected string `json:"expected"`
	Fired    bool   `json:"fired"`
}

// New creates a report.
func New(property, level, tier string, seed int64) *Report {
	return &Report{Property: property, Level: level, Tier: tier, Seed: seed, Start: time.Now(),
		Floors: map[string]int{}, Extra: map[string]interface{}{}, FuncsSeen: map[string]bool{}}
}

// Add records an obligation.
func (r *Report) Add(o Obligation) { r.Obligations = append(r.Obligations, o) }

// OK records a discharged obligation.
func (r *Report) OK(rule, key, pos, detail string) {
	r.Add(Obligation{Key: rule + "/" + key, Rule: rule, Status: Discharged, Pos: pos, Detail: detail})
}

// Fail records a violated obligation.
func (r *Report) Fail(rule, key, pos, detail string) {
	r.Add(Obligation{Key: rule + "/" + key, Rule: rule, Status: Violated, Pos: pos, Detail: detail})
}

// Unknown records an undecided obligation (fails closed).
func (r *Report) Unknown(rule, key, pos, detail string) {
	r.Add(Obligation{Key: rule + "/" + key, Rule: rule, Status: Undecided, Pos: pos, Detail: detail})
}

// Decide records ok/violated.
func (r *Report) Decide(ok bool, rule, key, pos, okDetail, failDetail string) bool {
	if ok {
		r.OK(rule, key, pos, okDetail)
	} else {
		r.Fail(rule, key, pos, failDetail)
	}
	return ok
}

// Floor sets the minimum obligation count of a rule.
func (r *Report) Floor(rule string, n int) { r.Floors[rule] = n }

// Sample adds an evidence sample.
func (r *Report) Sample(s interface{}) {
	if len(r.Samples) < 40 {
		r.Samples = append(r.Samples, s)
	}
}

// Control records a positive control; a control that does not fire is a failed obligation.
func (r *Report) ControlResult(rule, name, expected string, fired bool) {
	r.Controls = append(r.Controls, Control{Name: name, Expected: expected, Fired: fired})
	if !fired {
		r.Unknown(rule, "control/"+name, "", "positive control did not fire (the rule would accept a wrong oracle): "+expected)
	}
}

// KnownFinding is one line of KNOWN_FINDINGS.txt.
type KnownFinding struct {
	Kind     string // "finding" | "fixed"
	Property string
	Key      string
	Text     string
}

// LoadKnownFindings reads /verif/KNOWN_FINDINGS.txt (missing file = none).
func LoadKnownFindings(path string) []KnownFinding {
	f, err := os.Open(path)
	if err != nil {
		return nil
	}
	defer f.Close()
	var out []KnownFinding
	sc := bufio.NewScanner(f)
	for sc.Scan() {
		line := strings.TrimSpace(sc.Text())
		if line == "" || strings.HasPrefix(line, "#") {
			continue
		}
		kind, rest, ok := strings.Cut(line, ":")
		if !ok {
			continue
		}
		kf := KnownFinding{Kind: strings.TrimSpace(kind), Text: strings.TrimSpace(rest)}
		for _, f := range strings.Fields(rest) {
			if v, ok := strings.CutPrefix(f, "property="); ok {
				kf.Property = v
			}
			if v, ok := strings.CutPrefix(f, "key="); ok {
				kf.Key = v
			}
		}
		out = append(out, kf)
	}
	return out
}

// VerifDir is the root of the verification tree.
func VerifDir() string {
	if d := os.Getenv("VERIF_DIR"); d != "" {
		return d
	}
	return "/verif"
}

// Finish applies floors and known findings, writes evidence and replay files,
// prints the result lines and returns the process exit code.
func (r *Report) Finish() int {
	// floors
	count := map[string]int{}
	for _, o := range r.Obligations {
		count[o.Rule]++
	}
	rules := make([]string, 0, len(r.Floors))
	for k := range r.Floors {
		rules = append(rules, k)
	}
	sort.Strings(rules)
	for _, rule := range rules {
		if count[rule] < r.Floors[rule] {
			r.Unknown(rule, "floor", "", fmt.Sprintf("rule matched %d constructs, fewer than the %d confirmed on the reference tree (an anchor no longer resolves)", count[rule], r.Floors[rule]))
		}
	}
	sort.SliceStable(r.Obligations, func(i, j int) bool { return r.Obligations[i].Key < r.Obligations[j].Key })
	// the same rule may be evaluated by a property and by a layer it includes: keep one copy per key and status
	{
		var uniq []Obligation
		seenOb := map[string]bool{}
		for _, o := range r.Obligations {
			k := o.Key + "|" + string(o.Status) + "|" + o.Config
			if seenOb[k] {
				continue
			}
			seenOb[k] = true
			uniq = append(uniq, o)
		}
		r.Obligations = uniq
	}

	known := LoadKnownFindings(filepath.Join(VerifDir(), "KNOWN_FINDINGS.txt"))
	suppressed := map[string]KnownFinding{}
	for _, k := range known {
		if k.Kind == "finding" && k.Property == r.Property && k.Key != "" {
			suppressed[k.Key] = k
		}
	}
	if f := os.Getenv("VERIF_DUMP_KEYS"); f != "" { // development aid: list every obligation
		var sb strings.Builder
		for _, o := range r.Obligations {
			fmt.Fprintf(&sb, "%s\t%s\t%s\t%s\n", o.Key, o.Status, o.Config, o.Pos)
		}
		_ = os.WriteFile(f, []byte(sb.String()), 0o644)
	}
	evDir := filepath.Join(VerifDir(), "evidence")
	_ = os.MkdirAll(filepath.Join(evDir, "replay"), 0o755)
	var violations []Obligation
	discharged := 0
	printedKnown := map[string]bool{}
	for _, o := range r.Obligations {
		switch o.Status {
		case Discharged:
			discharged++
		default:
			if k, ok := suppressed[o.Key]; ok {
				if !printedKnown[o.Key] {
					fmt.Printf("KNOWN-FINDING: property=%s %s\n", r.Property, strings.TrimSpace(strings.Replace(k.Text, "property="+r.Property, "", 1)))
					printedKnown[o.Key] = true
				}
				continue
			}
			violations = append(violations, o)
		}
	}
	perRule := map[string]map[string]int{}
	for _, o := range r.Obligations {
		if perRule[o.Rule] == nil {
			perRule[o.Rule] = map[string]int{}
		}
		perRule[o.Rule][string(o.Status)]++
	}
	cov := map[string]interface{}{
		"explanation": r.Explanation,
		"obligations": len(r.Obligations),
		"discharged":  discharged,
		"per_rule":    perRule,
		"floors":      r.Floors,
		"samples":     r.Samples,
		"configs":     r.Configs,
		"controls":    r.Controls,
		"checker_cmd": "bin/check " + r.Property + " --tier " + r.Tier,
	}
	if len(r.Samples) == 0 {
		// always show some actual obligations
		var s []interface{}
		for i, o := range r.Obligations {
			if i >= 8 {
				break
			}
			s = append(s, o)
		}
		cov["samples"] = s
	}
	if len(r.Trusted) > 0 {
		cov["trusted_base"] = r.Trusted
	}
	for k, v := range r.Extra {
		cov[k] = v
	}
	if len(violations) > 0 {
		var vs []Obligation
		for i, v := range violations {
			if i >= 20 {
				break
			}
			vs = append(vs, v)
		}
		cov["violated"] = vs
	}
	ev := map[string]interface{}{
		"property_id": r.Property,
		"tier":        r.Tier,
		"seed":        r.Seed,
		"level":       r.Level,
		"coverage":    cov,
		"assumptions": r.Assumptions,
		"wall_s":      time.Since(r.Start).Seconds(),
		"violations":  len(violations),
	}
	if r.Assumptions == nil {
		ev["assumptions"] = []string{}
	}
	b, _ := json.MarshalIndent(ev, "", " ")
	if err := os.WriteFile(filepath.Join(evDir, r.Property+".json"), b, 0o644); err != nil {
		fmt.Println("CHECK-ERROR cannot write evidence:", err)
		return 2
	}
	for _, v := range violations {
		name := r.Property + "-" + sanitize(v.Key) + ".json"
		path := filepath.Join(evDir, "replay", name)
		rb, _ := json.MarshalIndent(map[string]interface{}{"property": r.Property, "obligation": v, "tier": r.Tier}, "", " ")
		_ = os.WriteFile(path, rb, 0o644)
		fmt.Printf("VIOLATION property=%s replay=%s\n", r.Property, path)
		fmt.Printf("  %s [%s] %s: %s\n", v.Key, v.Status, v.Pos, v.Detail)
	}
	fmt.Printf("%s: %d obligations, %d discharged, %d violations, %.1fs\n", r.Property, len(r.Obligations), discharged, len(violations), time.Since(r.Start).Seconds())
	if len(violations) > 0 {
		return 1
	}
	return 0
}

func sanitize(s string) string {
	var b strings.Builder
	for _, c := range s {
		switch {
		case c >= 'a' && c <= 'z', c >= 'A' && c <= 'Z', c >= '0' && c <= '9', c == '-', c == '_', c == '.':
			b.WriteRune(c)
		default:
			b.WriteByte('_')
		}
	}
	out := b.String()
	if len(out) > 120 {
		out = out[:120]
	}
	return out
}
