// Package effects computes, bottom-up over the static call graph of the analysed
// module, which memory every function may write: memory reachable from each of
// its parameters (and free variables) and memory reachable from package-level
// variables.  It is a flow-insensitive, field-insensitive may-analysis on
// go/ssa: every pointer-like value gets a set of origins {param i, free var i,
// global g, fresh}, loads from memory reachable from an origin keep the origin,
// loads from function-local allocations take the origins of everything stored
// there, call results may alias any pointer-like argument.
package effects

import (
	"fmt"
	"go/token"
	"go/types"
	"sort"
	"strings"

	"golang.org/x/tools/go/ssa"
)

// Origin of a pointer-like value.
type Origin struct {
	Kind   string // "param", "free", "global", "fresh"
	Index  int    // param / free variable index
	Global *ssa.Global
}

func (o Origin) key() string {
	if o.Kind == "global" {
		return "g:" + o.Global.Pkg.Pkg.Path() + "." + o.Global.Name()
	}
	return fmt.Sprintf("%s:%d", o.Kind, o.Index)
}

type originSet map[string]Origin

func (s originSet) add(o Origin) bool {
	k := o.key()
	if _, ok := s[k]; ok {
		return false
	}
	s[k] = o
	return true
}

func (s originSet) addAll(t originSet) bool {
	ch := false
	for _, o := range t {
		if s.add(o) {
			ch = true
		}
	}
	return ch
}

// Witness says where a write happens.
type Witness struct {
	Pos  token.Pos
	What string
}

// Summary of one function.
type Summary struct {
	Fn          *ssa.Function
	WritesParam map[int]Witness         // parameter index (receiver = 0) -> witness
	WritesFree  map[int]Witness         // free variable index -> witness
	WritesGlob  map[*ssa.Global]Witness // package-level variable (memory reachable from it) -> witness
	Concurrency []Witness               // go statements, channel operations, sync / atomic calls
	RetAlias    map[int]originSet       // result index -> what the result may alias (param / free / global / fresh)
	RetDeep     map[int]originSet       // result index -> origins of all memory reachable from the result (through stored pointers)
	StoresInto  map[int]originSet       // parameter index -> origins of the pointer-like values stored into memory reachable from it
}

// SortedOrigins lists an origin set deterministically.
func SortedOrigins(s originSet) []Origin {
	var keys []string
	for k := range s {
		keys = append(keys, k)
	}
	sort.Strings(keys)
	var out []Origin
	for _, k := range keys {
		out = append(out, s[k])
	}
	return out
}

// externalStores says which pointer-like arguments of a function outside the module may end up stored in (reachable
// from) which other argument: pairs (dst, src), receiver = position 0.  known=false: every writable argument may
// receive every argument.
func externalStores(name string) (pairs [][2]int, known bool) {
	switch {
	case strings.HasPrefix(name, "(*golang.org/x/crypto/cryptobyte.String).Read"):
		// ReadASN1(&out, tag), ReadASN1BitString(&out), ReadASN1Integer(&out) ...: `out` is made to point into the bytes
		// the receiver is reading (cryptobyte never copies)
		return [][2]int{{1, 0}}, true
	}
	if _, k := externalWrites(name); k {
		return nil, true // hashes, big.Int, builders, readers: they copy bytes, they do not keep the caller's slices
	}
	return nil, false
}

// Analysis holds the summaries of all functions.
type Analysis struct {
	Sum       map[*ssa.Function]*Summary
	isModule  func(pkgPath string) bool
	onceFuncs map[*ssa.Function]bool // function literals passed to (*sync.Once).Do
	origins   map[*ssa.Function]map[ssa.Value]originSet
}

// OnceGuarded reports whether fn is a function literal that only runs under a sync.Once.
func (a *Analysis) OnceGuarded(fn *ssa.Function) bool { return a.onceFuncs[fn] }

func pointerLike(t types.Type) bool {
	switch u := t.Underlying().(type) {
	case *types.Pointer, *types.Slice, *types.Map, *types.Chan, *types.Interface, *types.Signature:
		return true
	case *types.Struct:
		for i := 0; i < u.NumFields(); i++ {
			if pointerLike(u.Field(i).Type()) {
				return true
			}
		}
	case *types.Array:
		return pointerLike(u.Elem())
	case *types.Tuple:
		for i := 0; i < u.Len(); i++ {
			if pointerLike(u.At(i).Type()) {
				return true
			}
		}
	case *types.Basic:
		return u.Kind() == types.UnsafePointer
	}
	return false
}

// externalWrites says which argument positions a function outside the module may write
// (receiver = position 0 for methods).  nil = unknown: every pointer-like argument.
func externalWrites(name string) ([]int, bool) {
	switch {
	case strings.HasPrefix(name, "math/bits."), strings.HasPrefix(name, "crypto/subtle.ConstantTime"), name == "bytes.Clone", name == "bytes.Equal", name == "bytes.Repeat",
		strings.HasPrefix(name, "slices.Clone["), strings.HasPrefix(name, "slices.Concat["), strings.HasPrefix(name, "slices.Equal["), name == "bytes.Join", name == "bytes.Compare",
		name == "errors.New", name == "fmt.Errorf", name == "fmt.Sprintf", strings.HasPrefix(name, "strings."), strings.HasPrefix(name, "encoding/hex."),
		name == "crypto/sha256.New", name == "crypto/sha256.Sum256", name == "crypto/hmac.New", strings.HasPrefix(name, "(crypto.Hash)."),
		name == "gitlab.com/yawning/tuplehash.NewTupleHashXOF128", strings.HasPrefix(name, "(encoding/asn1.ObjectIdentifier)."), strings.HasPrefix(name, "(encoding/asn1.BitString)."),
		strings.HasPrefix(name, "(golang.org/x/crypto/cryptobyte.String)."), strings.HasSuffix(name, ".Uint64"), strings.HasSuffix(name, ".Error"), name == "errors.Is", name == "errors.As":
		return []int{}, true
	case strings.HasSuffix(name, ".PutUint64"): // (binary.bigEndian).PutUint64(b, v)
		return []int{1}, true
	case name == "crypto/subtle.XORBytes":
		return []int{0}, true
	case name == "io.ReadFull":
		// fills the buffer and advances the reader (a reader's state is memory like any other: a package-level reader
		// shared by concurrent callers is written here)
		return []int{0, 1}, true
	case strings.HasPrefix(name, "(*golang.org/x/crypto/cryptobyte.String).Read"):
		return []int{0, 1}, true
	case strings.HasPrefix(name, "(*golang.org/x/crypto/cryptobyte.Builder)."), strings.HasPrefix(name, "(*math/big.Int)."), strings.HasPrefix(name, "(*gitlab.com/yawning/tuplehash.Hasher)."):
		return []int{0}, true
	case strings.HasPrefix(name, "(hash.Hash)."), strings.HasPrefix(name, "(io.Writer)."):
		// Write / Reset update the hash object; Sum(b) appends to b
		if strings.HasSuffix(name, ".Sum") {
			return []int{0, 1}, true
		}
		return []int{0}, true
	case strings.HasPrefix(name, "(io.Reader).Read"):
		return []int{0, 1}, true
	case strings.HasPrefix(name, "(crypto.SignerOpts)."):
		return []int{}, true
	}
	return nil, false
}

// externalReturns says which argument positions the pointer-like result of a function outside the
// module may alias (besides fresh memory).
func externalReturns(name string) ([]int, bool) {
	switch {
	case strings.HasSuffix(name, ".Sum") && (strings.HasPrefix(name, "(hash.Hash)") || strings.Contains(name, "tuplehash")):
		return []int{1}, true
	case strings.HasPrefix(name, "(*math/big.Int)."):
		return []int{0}, true
	case strings.HasPrefix(name, "(*golang.org/x/crypto/cryptobyte.Builder)."):
		return []int{0}, true
	case strings.HasPrefix(name, "(encoding/asn1.BitString).RightAlign"):
		return []int{0}, true
	}
	if _, known := externalWrites(name); known {
		return []int{}, true // documented to return fresh memory / values
	}
	return nil, false
}

// Analyse computes the summaries of all given functions.
func Analyse(funcs []*ssa.Function, isModule func(string) bool) *Analysis {
	a := &Analysis{Sum: map[*ssa.Function]*Summary{}, isModule: isModule, onceFuncs: map[*ssa.Function]bool{}, origins: map[*ssa.Function]map[ssa.Value]originSet{}}
	for _, f := range funcs {
		a.Sum[f] = &Summary{Fn: f, WritesParam: map[int]Witness{}, WritesFree: map[int]Witness{}, WritesGlob: map[*ssa.Global]Witness{}, RetAlias: map[int]originSet{}, RetDeep: map[int]originSet{}, StoresInto: map[int]originSet{}}
	}
	// function literals guarded by sync.Once
	for _, f := range funcs {
		for _, b := range f.Blocks {
			for _, in := range b.Instrs {
				call, ok := in.(ssa.CallInstruction)
				if !ok {
					continue
				}
				if sc := call.Common().StaticCallee(); sc != nil && sc.String() == "(*sync.Once).Do" && len(call.Common().Args) == 2 {
					if mc, ok := call.Common().Args[1].(*ssa.MakeClosure); ok {
						a.onceFuncs[mc.Fn.(*ssa.Function)] = true
					} else if fn, ok := call.Common().Args[1].(*ssa.Function); ok {
						a.onceFuncs[fn] = true
					}
				}
			}
		}
	}
	for iter := 0; iter < 50; iter++ {
		changed := false
		for _, f := range funcs {
			if a.analyseFunc(f) {
				changed = true
			}
		}
		if !changed {
			break
		}
	}
	return a
}

func (a *Analysis) analyseFunc(f *ssa.Function) bool {
	sum := a.Sum[f]
	if f.Blocks == nil {
		return false
	}
	org := map[ssa.Value]originSet{}
	a.origins[f] = org
	get := func(v ssa.Value) originSet {
		switch x := v.(type) {
		case *ssa.Global:
			return originSet{"g": Origin{Kind: "global", Global: x}}
		case *ssa.Const, *ssa.Function, *ssa.Builtin:
			return nil
		}
		return org[v]
	}
	for i, p := range f.Params {
		if pointerLike(p.Type()) {
			org[p] = originSet{}
			org[p].add(Origin{Kind: "param", Index: i})
		}
	}
	for i, fv := range f.FreeVars {
		org[fv] = originSet{}
		org[fv].add(Origin{Kind: "free", Index: i})
	}
	// stored[site] = origins of values stored through addresses derived from the fresh object of that site
	stored := map[int]originSet{}
	siteOf := map[ssa.Instruction]int{}
	freshAt := func(in ssa.Instruction) originSet {
		id, ok := siteOf[in]
		if !ok {
			id = len(siteOf) + 1
			siteOf[in] = id
		}
		return originSet{fmt.Sprintf("fresh:%d", id): Origin{Kind: "fresh", Index: id}}
	}
	tuple := map[ssa.Value]map[int]originSet{} // per-result origins of multi-value calls
	addTo := func(v ssa.Value, s originSet) bool {
		if len(s) == 0 {
			return false
		}
		if org[v] == nil {
			org[v] = originSet{}
		}
		return org[v].addAll(s)
	}
	// deep closes a set of origins under "stored into a local object": fresh sites are replaced by the anonymous fresh
	// origin plus everything stored (transitively) into them
	deep := func(s originSet) originSet {
		out := originSet{}
		seen := map[int]bool{}
		var walk func(t originSet)
		walk = func(t originSet) {
			for _, o := range t {
				if o.Kind == "fresh" {
					out.add(Origin{Kind: "fresh"})
					if o.Index != 0 && !seen[o.Index] {
						seen[o.Index] = true
						walk(stored[o.Index])
					}
					continue
				}
				out.add(o)
			}
		}
		walk(s)
		return out
	}
	// content of the memory a pointer-like value points to
	deref := func(s originSet) originSet {
		out := originSet{}
		for _, o := range s {
			if o.Kind == "fresh" {
				out.addAll(stored[o.Index])
			} else {
				out.add(o)
			}
		}
		return out
	}
	storeInto := func(dst, val originSet) bool {
		ch := false
		for _, o := range dst {
			if o.Kind == "fresh" && o.Index != 0 {
				if stored[o.Index] == nil {
					stored[o.Index] = originSet{}
				}
				if stored[o.Index].addAll(val) {
					ch = true
				}
			}
		}
		return ch
	}
	// mapCallee translates origins of a callee summary into the caller's origins at a call site
	mapCallee := func(s originSet, args []ssa.Value, in ssa.Instruction, com *ssa.CallCommon) originSet {
		out := originSet{}
		for _, o := range s {
			switch o.Kind {
			case "param":
				if o.Index < len(args) {
					out.addAll(get(args[o.Index]))
				}
			case "global":
				out.add(o)
			case "fresh":
				out.addAll(freshAt(in))
			case "free":
				if mc, ok := com.Value.(*ssa.MakeClosure); ok && o.Index < len(mc.Bindings) {
					out.addAll(get(mc.Bindings[o.Index]))
				}
			}
		}
		return out
	}
	// local propagation to a fixpoint (flow-insensitive)
	for pass := 0; pass < 20; pass++ {
		ch := false
		for _, b := range f.Blocks {
			for _, in := range b.Instrs {
				v, isVal := in.(ssa.Value)
				switch x := in.(type) {
				case *ssa.Alloc, *ssa.MakeSlice, *ssa.MakeMap, *ssa.MakeChan:
					if addTo(v, freshAt(in)) {
						ch = true
					}
				case *ssa.FieldAddr:
					ch = addTo(v, get(x.X)) || ch
				case *ssa.IndexAddr:
					ch = addTo(v, get(x.X)) || ch
				case *ssa.Field:
					ch = addTo(v, get(x.X)) || ch
				case *ssa.Index:
					ch = addTo(v, get(x.X)) || ch
				case *ssa.Slice:
					ch = addTo(v, get(x.X)) || ch
				case *ssa.ChangeType:
					ch = addTo(v, get(x.X)) || ch
				case *ssa.Convert:
					ch = addTo(v, get(x.X)) || ch
				case *ssa.ChangeInterface:
					ch = addTo(v, get(x.X)) || ch
				case *ssa.SliceToArrayPointer:
					ch = addTo(v, get(x.X)) || ch
				case *ssa.MakeInterface:
					ch = addTo(v, get(x.X)) || ch
				case *ssa.TypeAssert:
					ch = addTo(v, get(x.X)) || ch
				case *ssa.Extract:
					if t, ok := tuple[x.Tuple]; ok {
						ch = addTo(v, t[x.Index]) || ch
					} else {
						ch = addTo(v, get(x.Tuple)) || ch
					}
				case *ssa.Phi:
					for _, e := range x.Edges {
						ch = addTo(v, get(e)) || ch
					}
				case *ssa.UnOp:
					if x.Op == token.MUL { // load
						if !pointerLike(x.Type()) {
							continue
						}
						src := get(x.X)
						res := originSet{}
						for _, o := range src {
							if o.Kind == "fresh" {
								res.addAll(stored[o.Index])
							} else {
								res.add(o) // reachable from the same root
							}
						}
						ch = addTo(v, res) || ch
					}
				case *ssa.Store:
					dst := get(x.Addr)
					if pointerLike(x.Val.Type()) {
						for _, o := range dst {
							if o.Kind == "fresh" {
								if stored[o.Index] == nil {
									stored[o.Index] = originSet{}
								}
								if stored[o.Index].addAll(get(x.Val)) {
									ch = true
								}
							}
						}
					}
				case *ssa.MakeClosure:
					// the closure value carries the origins of its bindings
					for _, bnd := range x.Bindings {
						ch = addTo(v, get(bnd)) || ch
					}
				case ssa.CallInstruction:
					// pointers the callee stores into its operands / into the object it returns
					{
						com := x.Common()
						args := com.Args
						if bi, isB := com.Value.(*ssa.Builtin); isB {
							if bi.Name() == "append" && len(args) == 2 && pointerLike(args[1].Type()) {
								if sl, ok := args[1].Type().Underlying().(*types.Slice); ok && pointerLike(sl.Elem()) {
									ch = storeInto(freshAt(in), deref(get(args[1]))) || ch
									ch = storeInto(get(args[0]), deref(get(args[1]))) || ch
								}
							}
						} else if callee := com.StaticCallee(); callee != nil && a.Sum[callee] != nil && callee.Blocks != nil {
							cs := a.Sum[callee]
							for i, st := range cs.StoresInto {
								if i < len(args) {
									ch = storeInto(get(args[i]), mapCallee(st, args, in, com)) || ch
								}
							}
							for r, rd := range cs.RetDeep {
								if rs := callee.Signature.Results(); r < rs.Len() && isErrorType(rs.At(r).Type()) {
									continue // error values are immutable; they are not part of the object returned beside them
								}
								inner := originSet{}
								for _, o := range rd {
									if o.Kind != "fresh" {
										inner.add(o)
									}
								}
								ch = storeInto(freshAt(in), mapCallee(inner, args, in, com)) || ch
							}
						} else if !(callee != nil && a.isModule != nil && callee.Pkg != nil && a.isModule(callee.Pkg.Pkg.Path())) {
							name := ""
							if callee != nil {
								name = callee.String()
							} else if com.IsInvoke() {
								name = "(" + com.Value.Type().String() + ")." + com.Method.Name()
							}
							allArgs := args
							if com.IsInvoke() {
								allArgs = append([]ssa.Value{com.Value}, args...)
							}
							if pairs, known := externalStores(name); known {
								for _, pr := range pairs {
									if pr[0] < len(allArgs) && pr[1] < len(allArgs) {
										ch = storeInto(get(allArgs[pr[0]]), deref(get(allArgs[pr[1]]))) || ch
									}
								}
							} else if callee != nil || com.IsInvoke() {
								every := originSet{}
								for _, av := range allArgs {
									if pointerLike(av.Type()) {
										every.addAll(get(av))
										every.addAll(deref(get(av)))
									}
								}
								for _, av := range allArgs {
									if holdsPointers(av.Type()) {
										ch = storeInto(get(av), every) || ch
									}
								}
								if isVal && pointerLike(v.Type()) {
									ch = storeInto(freshAt(in), every) || ch
								}
							}
						}
					}
					if !isVal || !pointerLike(v.Type()) {
						continue
					}
					com := x.Common()
					args := com.Args
					if bi, isB := com.Value.(*ssa.Builtin); isB {
						if bi.Name() == "append" {
							res := freshAt(in)
							res.addAll(get(args[0]))
							ch = addTo(v, res) || ch
						}
						continue
					}
					callee := com.StaticCallee()
					if cs, ok := a.Sum[callee]; callee != nil && ok && callee.Blocks != nil {
						per := map[int]originSet{}
						all := originSet{}
						for r, ra := range cs.RetAlias {
							set := originSet{}
							for _, o := range ra {
								switch o.Kind {
								case "param":
									if o.Index < len(args) {
										set.addAll(get(args[o.Index]))
									}
								case "global":
									set.add(o)
								case "fresh":
									set.addAll(freshAt(in))
								case "free":
									if mc, ok := com.Value.(*ssa.MakeClosure); ok && o.Index < len(mc.Bindings) {
										set.addAll(get(mc.Bindings[o.Index]))
									}
								}
							}
							per[r] = set
							all.addAll(set)
						}
						tuple[v] = per
						ch = addTo(v, all) || ch
						continue
					}
					// outside the module / unknown: by table, else any pointer-like argument
					name := ""
					if callee != nil {
						name = callee.String()
					} else if com.IsInvoke() {
						name = "(" + com.Value.Type().String() + ")." + com.Method.Name()
					}
					allArgs := args
					if com.IsInvoke() {
						allArgs = append([]ssa.Value{com.Value}, args...)
					}
					res := freshAt(in)
					if pos, known := externalReturns(name); known {
						for _, j := range pos {
							if j < len(allArgs) {
								res.addAll(get(allArgs[j]))
							}
						}
					} else {
						for _, arg := range allArgs {
							res.addAll(get(arg))
						}
					}
					ch = addTo(v, res) || ch
				}
			}
		}
		if !ch {
			break
		}
	}
	// effects
	changed := false
	write := func(addr ssa.Value, pos token.Pos, what string) {
		for _, o := range get(addr) {
			switch o.Kind {
			case "param":
				if _, ok := sum.WritesParam[o.Index]; !ok {
					sum.WritesParam[o.Index] = Witness{pos, what}
					changed = true
				}
			case "free":
				if _, ok := sum.WritesFree[o.Index]; !ok {
					sum.WritesFree[o.Index] = Witness{pos, what}
					changed = true
				}
			case "global":
				if _, ok := sum.WritesGlob[o.Global]; !ok {
					sum.WritesGlob[o.Global] = Witness{pos, what}
					changed = true
				}
			}
		}
	}
	// retain records pointer-like values stored into memory reachable from a parameter
	retain := func(dst, val originSet) {
		for _, o := range dst {
			if o.Kind != "param" {
				continue
			}
			if sum.StoresInto[o.Index] == nil {
				sum.StoresInto[o.Index] = originSet{}
			}
			for _, v := range val {
				if v.Kind == "param" && v.Index == o.Index {
					continue // a pointer into the same object
				}
				if sum.StoresInto[o.Index].add(v) {
					changed = true
				}
			}
		}
	}
	for _, b := range f.Blocks {
		for _, in := range b.Instrs {
			if ret, ok := in.(*ssa.Return); ok {
				for r, rv := range ret.Results {
					if !pointerLike(rv.Type()) {
						continue
					}
					if sum.RetAlias[r] == nil {
						sum.RetAlias[r] = originSet{}
					}
					for _, o := range get(rv) {
						if o.Kind == "fresh" {
							o = Origin{Kind: "fresh"}
						}
						if sum.RetAlias[r].add(o) {
							changed = true
						}
					}
					if sum.RetDeep[r] == nil {
						sum.RetDeep[r] = originSet{}
					}
					if sum.RetDeep[r].addAll(deep(get(rv))) {
						changed = true
					}
				}
			}
		}
	}
	for _, b := range f.Blocks {
		for _, in := range b.Instrs {
			switch x := in.(type) {
			case *ssa.Store:
				write(x.Addr, x.Pos(), "store")
				if pointerLike(x.Val.Type()) {
					retain(get(x.Addr), deep(get(x.Val)))
				}
			case *ssa.MapUpdate:
				write(x.Map, x.Pos(), "map update")
			case *ssa.Go:
				sum.Concurrency = appendOnce(sum.Concurrency, Witness{x.Pos(), "go statement"})
			case *ssa.Send:
				sum.Concurrency = appendOnce(sum.Concurrency, Witness{x.Pos(), "channel send"})
			case *ssa.Select:
				sum.Concurrency = appendOnce(sum.Concurrency, Witness{x.Pos(), "select"})
			case *ssa.MakeChan:
				sum.Concurrency = appendOnce(sum.Concurrency, Witness{x.Pos(), "channel creation"})
			}
			call, ok := in.(ssa.CallInstruction)
			if !ok {
				continue
			}
			com := call.Common()
			args := com.Args
			if bi, isB := com.Value.(*ssa.Builtin); isB {
				switch bi.Name() {
				case "copy":
					write(args[0], in.Pos(), "copy into")
				case "append":
					write(args[0], in.Pos(), "append into (spare capacity)")
				case "clear":
					write(args[0], in.Pos(), "clear")
				}
				continue
			}
			var callee *ssa.Function
			if sc := com.StaticCallee(); sc != nil {
				callee = sc
			}
			name := ""
			if callee != nil {
				name = callee.String()
			} else if com.IsInvoke() {
				name = "(" + com.Value.Type().String() + ")." + com.Method.Name()
			}
			if strings.HasPrefix(name, "sync.") || strings.HasPrefix(name, "(*sync.") || strings.HasPrefix(name, "sync/atomic.") || strings.HasPrefix(name, "(*sync/atomic.") {
				if name != "(*sync.Once).Do" {
					sum.Concurrency = appendOnce(sum.Concurrency, Witness{in.Pos(), "call of " + name})
				}
			}
			if cs, ok := a.Sum[callee]; callee != nil && ok && callee.Blocks != nil {
				if a.onceFuncs[callee] {
					continue
				}
				for j, w := range cs.WritesParam {
					if j < len(args) {
						write(args[j], in.Pos(), "passed to "+callee.Name()+", which writes it ("+w.What+")")
					}
				}
				for j, st := range cs.StoresInto {
					if j < len(args) {
						retain(get(args[j]), deep(mapCallee(st, args, in, com)))
					}
				}
				for g, w := range cs.WritesGlob {
					if _, ok := sum.WritesGlob[g]; !ok {
						sum.WritesGlob[g] = Witness{in.Pos(), "calls " + callee.Name() + " (" + w.What + ")"}
						changed = true
					}
				}
				continue
			}
			// closures called directly / passed along: a MakeClosure operand is treated as invoked here
			allArgs := append([]ssa.Value{}, args...)
			if com.IsInvoke() {
				allArgs = append([]ssa.Value{com.Value}, args...)
			} else if callee == nil {
				allArgs = append(allArgs, com.Value)
			}
			for _, av := range allArgs {
				if mc, ok := av.(*ssa.MakeClosure); ok {
					cf := mc.Fn.(*ssa.Function)
					if name == "(*sync.Once).Do" {
						continue
					}
					if cs, ok := a.Sum[cf]; ok {
						for j, w := range cs.WritesFree {
							if j < len(mc.Bindings) {
								write(mc.Bindings[j], in.Pos(), "captured by a function literal that writes it ("+w.What+")")
							}
						}
						for g, w := range cs.WritesGlob {
							if _, ok := sum.WritesGlob[g]; !ok {
								sum.WritesGlob[g] = Witness{in.Pos(), "function literal (" + w.What + ")"}
								changed = true
							}
						}
					}
				}
			}
			if callee != nil && a.isModule != nil && callee.Pkg != nil && a.isModule(callee.Pkg.Pkg.Path()) && callee.Blocks == nil {
				// assembly routine of the module: writes its `out` parameter only (established by the assembly analysis of C17 / C19)
				for j, p := range callee.Params {
					if p.Name() == "out" && j < len(args) {
						write(args[j], in.Pos(), "assembly routine output")
					}
				}
				continue
			}
			if callee == nil && !com.IsInvoke() {
				// call of a function value: unknown callee; conservatively every pointer-like argument is written
				for _, av := range args {
					if pointerLike(av.Type()) {
						write(av, in.Pos(), "passed to an unknown function value")
					}
				}
				continue
			}
			if pairs, knownS := externalStores(name); knownS {
				for _, pr := range pairs {
					if pr[0] < len(allArgs) && pr[1] < len(allArgs) {
						retain(get(allArgs[pr[0]]), deep(deref(get(allArgs[pr[1]]))))
					}
				}
			} else {
				every := originSet{}
				for _, av := range allArgs {
					if pointerLike(av.Type()) {
						every.addAll(get(av))
						every.addAll(deref(get(av)))
					}
				}
				for _, av := range allArgs {
					if holdsPointers(av.Type()) {
						retain(get(av), deep(every))
					}
				}
			}
			pos, known := externalWrites(name)
			if !known {
				for _, av := range allArgs {
					if _, isClosure := av.(*ssa.MakeClosure); isClosure {
						continue
					}
					if pointerLike(av.Type()) {
						write(av, in.Pos(), "passed to "+name+" (no write summary: assumed written)")
					}
				}
				continue
			}
			for _, j := range pos {
				if j < len(allArgs) {
					write(allArgs[j], in.Pos(), "written by "+name)
				}
			}
		}
	}
	return changed
}

func appendOnce(ws []Witness, w Witness) []Witness {
	for _, x := range ws {
		if x.Pos == w.Pos && x.What == w.What {
			return ws
		}
	}
	return append(ws, w)
}

// Reachable returns the functions reachable from the roots over static calls, method values
// and function literals (function literals guarded by sync.Once are not followed).
func (a *Analysis) Reachable(roots []*ssa.Function) map[*ssa.Function]bool {
	seen := map[*ssa.Function]bool{}
	var visit func(f *ssa.Function)
	visit = func(f *ssa.Function) {
		if f == nil || seen[f] || a.onceFuncs[f] {
			return
		}
		seen[f] = true
		for _, b := range f.Blocks {
			for _, in := range b.Instrs {
				for _, op := range in.Operands(nil) {
					switch x := (*op).(type) {
					case *ssa.Function:
						visit(x)
					case *ssa.MakeClosure:
						visit(x.Fn.(*ssa.Function))
					}
				}
				if call, ok := in.(ssa.CallInstruction); ok {
					if sc := call.Common().StaticCallee(); sc != nil {
						visit(sc)
					}
				}
			}
		}
	}
	for _, r := range roots {
		visit(r)
	}
	return seen
}

// SortedGlobals lists the written globals of a summary deterministically.
func (s *Summary) SortedGlobals() []*ssa.Global {
	var out []*ssa.Global
	for g := range s.WritesGlob {
		out = append(out, g)
	}
	sort.Slice(out, func(i, j int) bool { return out[i].String() < out[j].String() })
	return out
}

// holdsPointers reports whether memory reached through a value of this type can itself hold pointers
// (a []byte or *[32]byte cannot; a *[]byte, a *struct{p *T} or a []*T can).
func holdsPointers(t types.Type) bool {
	switch u := t.Underlying().(type) {
	case *types.Pointer:
		return pointerLike(u.Elem())
	case *types.Slice:
		return pointerLike(u.Elem())
	case *types.Map, *types.Interface, *types.Chan, *types.Signature:
		return true
	}
	return false
}

func isErrorType(t types.Type) bool {
	return types.Identical(t, types.Universe.Lookup("error").Type())
}
