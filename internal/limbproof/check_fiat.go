package limbproof

import (
	"fmt"
	"math/big"
	"strings"
)

type fiatCheck struct {
	ld  *loader
	pkg *pkgInfo
	m   *big.Int
	out []Obligation
}

var fiatFuncs = []string{"cmovznzU64", "Mul", "Square", "Add", "Sub", "Opp", "FromMontgomery", "ToMontgomery", "Nonzero", "Selectznz", "SetOne", "Msat"}

// CheckFiat verifies the fiat package in pkgDir against modulus m.
func CheckFiat(pkgDir string, m *big.Int) ([]Obligation, error) {
	ld := newLoader()
	pkg, err := ld.load(pkgDir, "")
	if err != nil {
		return nil, err
	}
	for _, f := range fiatFuncs {
		if _, ok := pkg.funcs[f]; !ok {
			return nil, fmt.Errorf("limbproof: function %s not found in %s", f, pkgDir)
		}
	}
	if m.Sign() <= 0 || m.Cmp(powW(4)) >= 0 || m.Cmp(powW(3)) <= 0 || m.Bit(0) == 0 {
		return nil, fmt.Errorf("limbproof: modulus must be odd and occupy four 64-bit limbs")
	}
	fc := &fiatCheck{ld: ld, pkg: pkg, m: m}
	fc.cmov()
	fc.montgomery("Mul")
	fc.montgomery("Square")
	fc.add()
	fc.subOpp("Sub")
	fc.subOpp("Opp")
	fc.montgomery("FromMontgomery")
	fc.montgomery("ToMontgomery")
	fc.nonzero()
	fc.selectznz()
	fc.constants("SetOne")
	fc.constants("Msat")
	return fc.out, nil
}

func (fc *fiatCheck) begin(name string, abstract ...string) (*run, *obs) {
	fi := fc.pkg.funcs[name]
	o := &obs{scope: fc.pkg.name, fn: name, fnPos: fc.ld.posOf(fi.decl)}
	return runFunc(fc.ld, fi, abstract...), o
}

func (fc *fiatCheck) end(o *obs) { fc.out = append(fc.out, o.list...) }

// ---------------------------------------------------------------- selects

func (fc *fiatCheck) cmov() {
	r, o := fc.begin("cmovznzU64")
	defer fc.end(o)
	if !o.sideConditions(r) {
		o.conclude("out1 = (arg1 = 0 ? arg2 : arg3)")
		return
	}
	in := r.in
	out, c, a2, a3 := r.scalarParam(0), r.scalarParam(1), r.scalarParam(2), r.scalarParam(3)
	if out == nil || c == nil || a2 == nil || a3 == nil || !c.isBool() {
		o.add("select", "", stUndecided, "", "unexpected signature: want (out *uint64, cond uint1, a, b uint64)")
		o.conclude("out1 = (arg1 = 0 ? arg2 : arg3)")
		return
	}
	want := pAdd(a2.p, in.mul(c.p, pSub(a3.p, a2.p)))
	if res := pSub(out.p, want); !res.isZero() {
		d, pos := in.explain(res)
		if pos == "" {
			pos = out.pos
		}
		o.add("select", "", stViolated, pos, "out1 - (arg2 + arg1*(arg3-arg2)) != 0: "+d)
	} else {
		o.ok("select", "", "x1 = arg1*(2^64-1) is 0 or all-ones for arg1 in {0,1}; (x1&arg3) = arg1*arg3, (^x1&arg2) = (1-arg1)*arg2, the two are never both non-zero so '|' is '+': out1 = arg2 + arg1*(arg3-arg2) as polynomials")
	}
	o.conclude("out1 = (arg1 = 0 ? arg2 : arg3) for arg1 in {0,1}")
}

func (fc *fiatCheck) selectznz() {
	r, o := fc.begin("Selectznz")
	defer fc.end(o)
	post := "out1[i] = (arg1 = 0 ? arg2[i] : arg3[i]) for i = 0..3"
	if !o.sideConditions(r) {
		o.conclude(post)
		return
	}
	in := r.in
	outs, c, xs, ys := r.arrayParam(0), r.scalarParam(1), r.inputArray(2), r.inputArray(3)
	if len(outs) != 4 || c == nil || len(xs) != 4 || len(ys) != 4 {
		o.add("select", "", stUndecided, "", "unexpected signature")
		o.conclude(post)
		return
	}
	for i := 0; i < 4; i++ {
		want := pAdd(xs[i].p, in.mul(c.p, pSub(ys[i].p, xs[i].p)))
		if res := pSub(outs[i].p, want); !res.isZero() {
			d, _ := in.explain(res)
			o.add("select", fmt.Sprintf("limb%d", i), stViolated, outs[i].site, fmt.Sprintf("out1[%d] - (arg2[%d] + arg1*(arg3[%d]-arg2[%d])) != 0: %s", i, i, i, i, d))
		} else {
			o.ok("select", fmt.Sprintf("limb%d", i), fmt.Sprintf("out1[%d] = arg2[%d] + arg1*(arg3[%d]-arg2[%d]) (inlined cmovznzU64)", i, i, i, i))
		}
	}
	o.conclude(post)
}

func (fc *fiatCheck) nonzero() {
	r, o := fc.begin("Nonzero")
	defer fc.end(o)
	post := "out1 = 0 iff arg1[0] = arg1[1] = arg1[2] = arg1[3] = 0"
	if !o.sideConditions(r) {
		o.conclude(post)
		return
	}
	out, ins := r.scalarParam(0), r.inputArray(1)
	if out == nil || len(ins) != 4 {
		o.add("or-of-limbs", "", stUndecided, "", "unexpected signature")
		o.conclude(post)
		return
	}
	leaves := flattenOr(out)
	seen := map[int]bool{}
	okAll := true
	for _, l := range leaves {
		idx := -1
		for i, x := range ins {
			if x == l {
				idx = i
			}
		}
		if idx < 0 {
			okAll = false
			o.add("or-of-limbs", "", stViolated, out.pos, fmt.Sprintf("an operand of the OR is not an input limb (%s)", l.org.op))
			break
		}
		seen[idx] = true
	}
	if okAll && len(seen) != 4 {
		okAll = false
		o.add("or-of-limbs", "", stViolated, out.pos, fmt.Sprintf("the OR covers only %d of the 4 input limbs", len(seen)))
	}
	if okAll {
		o.ok("or-of-limbs", "", "out1 is the bitwise OR of exactly the four input limbs; an OR of non-negative words is 0 iff every operand is 0")
	}
	o.conclude(post)
}

func (fc *fiatCheck) constants(name string) {
	r, o := fc.begin(name)
	defer fc.end(o)
	R := powW(4)
	var want *big.Int
	n := 4
	post := "out1 = limbs of 2^256 mod m"
	if name == "Msat" {
		want, n, post = fc.m, 5, "out1 = limbs of m followed by a zero limb"
	} else {
		want = new(big.Int).Mod(R, fc.m)
	}
	if !o.sideConditions(r) {
		o.conclude(post)
		return
	}
	outs := r.arrayParam(0)
	if len(outs) != n {
		o.add("constant", "", stUndecided, "", fmt.Sprintf("expected an output array of %d limbs", n))
		o.conclude(post)
		return
	}
	wl := limbsOf(want, n)
	for i, v := range outs {
		c, ok := v.constant()
		switch {
		case !ok:
			o.add("constant", fmt.Sprintf("limb%d", i), stViolated, v.site, fmt.Sprintf("out1[%d] is not a constant", i))
		case c.Cmp(wl[i]) != 0:
			o.add("constant", fmt.Sprintf("limb%d", i), stViolated, v.site, fmt.Sprintf("out1[%d] = %s, expected %s", i, hex(c), hex(wl[i])))
		default:
			o.ok("constant", fmt.Sprintf("limb%d", i), fmt.Sprintf("out1[%d] = %s", i, hex(c)))
		}
	}
	o.conclude(post + " = " + hex(want))
}

// ---------------------------------------------------------------- conditional subtraction (Add, Mul, Square, From/ToMontgomery)

// finalCondSub proves   OUT = T - [T >= m]*m   where T is the value fed to
// the last Sub64 chain, given the premise 0 <= T < 2m (established by the
// caller, passed as tBound).  Returns T's polynomial (nil if no chain).
func (fc *fiatCheck) finalCondSub(r *run, o *obs, outs []*Val) (T Poly, b *Val, okStruct bool) {
	in := r.in
	last := lastNode(in, opSub)
	if last == nil {
		o.add("final-subtraction", "", stViolated, "", "no bits.Sub64 chain found: the result is never compared with the modulus")
		return nil, nil, false
	}
	ch := chainEnding(last)
	if !ch.clean {
		o.add("final-subtraction", "chain", stUndecided, ch.nodes[0].pos, ch.why)
		return nil, nil, false
	}
	L := len(ch.nodes)
	if L < 4 {
		o.add("final-subtraction", "chain", stViolated, ch.nodes[0].pos,
			fmt.Sprintf("the final borrow chain covers only %d limbs: it starts at %s with borrow-in 0 (a borrow of the preceding bits.Sub64 is not propagated)", L, ch.nodes[0].pos))
		return nil, nil, false
	}
	b = last.high
	if b.atom == nil {
		o.add("final-subtraction", "chain", stUndecided, last.pos, "final borrow is a constant: the comparison is degenerate")
		return nil, nil, false
	}
	// subtrahend == m, limb by limb.
	ml := limbsOf(fc.m, L)
	good := true
	for k, n := range ch.nodes {
		c, ok := n.y.constant()
		if !ok || c.Cmp(ml[k]) != 0 {
			good = false
			got := "a non-constant"
			if ok {
				got = hex(c)
			}
			o.add("final-subtraction", fmt.Sprintf("modulus-limb%d", k), stViolated, n.pos, fmt.Sprintf("limb %d of the subtrahend is %s, expected limb %d of m = %s", k, got, k, hex(ml[k])))
		}
	}
	if !ch.telescoped() {
		good = false
		o.add("final-subtraction", "chain", stUndecided, ch.nodes[0].pos, "internal: borrow chain does not telescope")
	}
	if !good {
		return limbSum(ch.xs()), b, false
	}
	T = limbSum(ch.xs())
	o.ok("final-subtraction", "chain", fmt.Sprintf("%d-limb borrow chain %s..%s: sum d_k W^k - W^%d*b = T - m as polynomials, subtrahend limbs equal m; all words lie in [0,W) so b = [T < m]",
		L, shortPos(ch.nodes[0].pos), shortPos(last.pos), L))

	// OUT = b*T_lo + (1-b)*D_lo  <=>  OUT - (T - (1-b) m) + W^4 (b*T_hi + (1-b)*D_hi) == 0
	OUT := limbSum(outs)
	mP := pInt(fc.m)
	oneMinusB := pSub(pInt64(1), b.p)
	Thi, Dhi := pZero(), pZero()
	for k := 4; k < L; k++ {
		Thi = pAdd(Thi, pScale(ch.nodes[k].x.p, powW(k-4)))
		Dhi = pAdd(Dhi, pScale(ch.nodes[k].low.p, powW(k-4)))
	}
	corr := pScale(pAdd(in.mul(b.p, Thi), in.mul(oneMinusB, Dhi)), powW(4))
	res := pAdd(pSub(OUT, pSub(T, in.mul(oneMinusB, mP))), corr)
	if !res.isZero() {
		// structural diagnosis, limb by limb
		pos := ""
		var diag []string
		for i, ov := range outs {
			if i >= 4 {
				break
			}
			n := ch.nodes[i]
			switch {
			case ov.org == nil || ov.org.op != "select":
				diag = append(diag, fmt.Sprintf("out1[%d] (%s) is not a two-way select", i, ov.site))
				if pos == "" {
					pos = ov.site
				}
			case !pEqual(ov.org.gate, b.p) && !pEqual(ov.org.gate, oneMinusB):
				diag = append(diag, fmt.Sprintf("out1[%d]: select at %s is keyed on %s, not on the final borrow %s of %s", i, ov.site, ov.org.gate.format(in.atomName, 3), in.atomName(b.atom.id), shortPos(last.pos)))
				if pos == "" {
					pos = ov.site
				}
			default:
				whenB, whenNotB := ov.org.args[0], ov.org.args[1]
				if pEqual(ov.org.gate, oneMinusB) {
					whenB, whenNotB = whenNotB, whenB
				}
				if !pEqual(whenB.p, n.x.p) || !pEqual(whenNotB.p, n.low.p) {
					what := "does not choose between limb %d of T and limb %d of T-m"
					if pEqual(whenB.p, n.low.p) && pEqual(whenNotB.p, n.x.p) {
						what = "has its two data arguments swapped (limb %d: picks T-m when T < m, T when T >= m; limb %d)"
					}
					diag = append(diag, fmt.Sprintf("out1[%d]: select at %s "+what, i, ov.site, i, i))
					if pos == "" {
						pos = ov.site
					}
				}
			}
		}
		d, p2 := in.explain(res)
		if pos == "" {
			pos = p2
		}
		o.add("final-subtraction", "select", stViolated, pos, "OUT - (T - (1-b)*m) + W^4*(b*T_hi + (1-b)*D_hi) != 0; "+strings.Join(diag, "; ")+"; "+d)
		return T, b, false
	}
	o.ok("final-subtraction", "select", "OUT = T - (1-b)*m - W^4*(b*T_hi + (1-b)*D_hi) as polynomials (b*b=b), where T_hi / D_hi are the limbs above the fourth of T and of the difference")
	return T, b, true
}

// rangeConclusion states the case analysis once 0 <= T <= tMax < 2m is known.
func (fc *fiatCheck) rangeConclusion(o *obs, tMax *big.Int, how string) {
	twoM := new(big.Int).Lsh(fc.m, 1)
	if tMax.Cmp(twoM) >= 0 {
		o.add("range", "", stUndecided, "", fmt.Sprintf("cannot show T < 2m: upper bound of T is %s (%s), 2m = %s", hex(tMax), how, hex(twoM)))
		return
	}
	o.ok("range", "", fmt.Sprintf("0 <= T <= %s < 2m (%s).  Case b=1: T < m < W^4 forces T_hi = 0, OUT = T.  Case b=0: T >= m, difference = T - m in [0,m) so D_hi = 0, OUT = T - m < m.  Hence OUT = T - [T>=m]*m = T mod m, 0 <= OUT < m",
		hex(tMax), how))
}

func (fc *fiatCheck) add() {
	r, o := fc.begin("Add")
	defer fc.end(o)
	post := "eval out1 = (eval arg1 + eval arg2) mod m and 0 <= eval out1 < m, for all arg1, arg2 < m"
	if !o.sideConditions(r) {
		o.conclude(post)
		return
	}
	in := r.in
	outs, as, bs := r.arrayParam(0), r.inputArray(1), r.inputArray(2)
	if len(outs) != 4 || len(as) != 4 || len(bs) != 4 {
		o.add("sum-identity", "", stUndecided, "", "unexpected signature")
		o.conclude(post)
		return
	}
	T, _, _ := fc.finalCondSub(r, o, outs)
	if T != nil {
		if res := pSub(T, pAdd(limbSum(as), limbSum(bs))); !res.isZero() {
			d, pos := in.explain(res)
			o.add("sum-identity", "", stViolated, pos, "T - (arg1 + arg2) != 0 where T is the minuend of the final subtraction: "+d)
		} else {
			o.ok("sum-identity", "", "T = sum x_k W^k (incl. the carry limb) equals eval arg1 + eval arg2 exactly (carry chain telescopes)")
		}
		tMax := new(big.Int).Sub(new(big.Int).Lsh(fc.m, 1), big.NewInt(2))
		fc.rangeConclusion(o, tMax, "arg1, arg2 <= m-1")
	}
	o.conclude(post)
}

// montSpec returns the right-hand side polynomial and its maximum.
func (fc *fiatCheck) montSpec(in *interp, name string, r *run) (spec Poly, max *big.Int, desc string, ok bool) {
	mm1 := new(big.Int).Sub(fc.m, big1)
	a := r.inputArray(1)
	if len(a) != 4 {
		return nil, nil, "", false
	}
	A := limbSum(a)
	switch name {
	case "Mul":
		b := r.inputArray(2)
		if len(b) != 4 {
			return nil, nil, "", false
		}
		return in.mul(A, limbSum(b)), new(big.Int).Mul(mm1, mm1), "arg1*arg2", true
	case "Square":
		return in.mul(A, A), new(big.Int).Mul(mm1, mm1), "arg1*arg1", true
	case "FromMontgomery":
		return A, mm1, "arg1", true
	case "ToMontgomery":
		r2 := new(big.Int).Mod(powW(8), fc.m)
		return pScale(A, r2), new(big.Int).Mul(mm1, r2), "arg1*(W^8 mod m) with W^8 mod m = " + hex(r2), true
	}
	return nil, nil, "", false
}

func (fc *fiatCheck) montgomery(name string) {
	r, o := fc.begin(name)
	defer fc.end(o)
	posts := map[string]string{
		"Mul":            "W^4*eval out1 = eval arg1 * eval arg2 (mod m)",
		"Square":         "W^4*eval out1 = (eval arg1)^2 (mod m)",
		"FromMontgomery": "W^4*eval out1 = eval arg1 (mod m)",
		"ToMontgomery":   "W^4*eval out1 = eval arg1 * W^8 (mod m), i.e. eval out1 = eval arg1 * W^4 (mod m)",
	}
	post := posts[name] + " and 0 <= eval out1 < m, for all inputs < m"
	if !o.sideConditions(r) {
		o.conclude(post)
		return
	}
	in := r.in
	outs := r.arrayParam(0)
	spec, specMax, desc, ok := fc.montSpec(in, name, r)
	if len(outs) != 4 || !ok {
		o.add("montgomery-identity", "", stUndecided, "", "unexpected signature")
		o.conclude(post)
		return
	}
	// lemma sites
	k := 0
	for _, n := range in.nodes {
		if n.kind == opAdd && n.lowDiscarded && !n.highDiscarded {
			if n.lemma {
				o.ok("montgomery-lemma", fmt.Sprintf("site%d", k), n.lemmaDetail+" ("+shortPos(n.pos)+")")
			} else if _, isC := n.high.constant(); !isC {
				o.add("montgomery-lemma", fmt.Sprintf("site%d", k), stUndecided, n.pos, "discarded sum word not justified: "+n.lemmaDetail)
			}
			k++
		}
	}
	T, _, _ := fc.finalCondSub(r, o, outs)
	if T == nil {
		o.conclude(post)
		return
	}
	// W^4*T - spec must be m * (non-negative combination of the quotient symbols).
	R := pSub(pScale(T, powW(4)), spec)
	rest := Poly{}
	qMax := new(big.Int)
	var qs []string
	for key, c := range R {
		ids := monoIDs(key)
		if len(ids) == 1 && in.atoms[ids[0]].kind == "q" && c.IsInt() && c.Sign() > 0 {
			if quo, rem := new(big.Int).DivMod(c.Num(), fc.m, new(big.Int)); rem.Sign() == 0 {
				qMax.Add(qMax, new(big.Int).Mul(quo, bigWm1))
				qs = append(qs, fmtCoef(new(big.Rat).SetInt(quo))+"*"+in.atomName(ids[0]))
				continue
			}
		}
		rest[key] = c
	}
	if !rest.isZero() {
		d, pos := in.explain(rest)
		o.add("montgomery-identity", "", stViolated, pos, fmt.Sprintf("W^4*T - %s - Q*m != 0 for every choice Q = sum c_i*q_i: %s", desc, d))
		o.conclude(post)
		return
	}
	o.ok("montgomery-identity", "", fmt.Sprintf("W^4*T = %s + Q*m exactly over Z as polynomials in the input limbs and quotient symbols, T = 5-limb minuend of the final subtraction, Q = %s (each q = lo(t*m') in [0,W))",
		desc, strings.Join(sortedStrings(qs), " + ")))
	// T <= (specMax + Qmax*m)/W^4
	num := new(big.Int).Add(specMax, new(big.Int).Mul(qMax, fc.m))
	tMax := new(big.Int).Div(num, powW(4))
	fc.rangeConclusion(o, tMax, fmt.Sprintf("T = (%s + Q*m)/W^4 with %s <= %s and Q <= %s", desc, desc, hex(specMax), hex(qMax)))
	o.conclude(post)
}

func sortedStrings(s []string) []string {
	out := append([]string(nil), s...)
	for i := 1; i < len(out); i++ {
		for j := i; j > 0 && (len(out[j]) < len(out[j-1]) || (len(out[j]) == len(out[j-1]) && out[j] < out[j-1])); j-- {
			out[j], out[j-1] = out[j-1], out[j]
		}
	}
	return out
}

// ---------------------------------------------------------------- Sub / Opp: borrow chain + masked add-back

func (fc *fiatCheck) subOpp(name string) {
	r, o := fc.begin(name)
	defer fc.end(o)
	post := "eval out1 = (eval arg1 - eval arg2) mod m"
	if name == "Opp" {
		post = "eval out1 = (-eval arg1) mod m"
	}
	post += " and 0 <= eval out1 < m, for all inputs < m"
	if !o.sideConditions(r) {
		o.conclude(post)
		return
	}
	in := r.in
	outs := r.arrayParam(0)
	var X, Y Poly
	if name == "Sub" {
		a, b := r.inputArray(1), r.inputArray(2)
		if len(a) == 4 && len(b) == 4 {
			X, Y = limbSum(a), limbSum(b)
		}
	} else if a := r.inputArray(1); len(a) == 4 {
		X, Y = pZero(), limbSum(a)
	}
	subLast, addLast := lastNode(in, opSub), lastNode(in, opAdd)
	if len(outs) != 4 || X == nil || subLast == nil || addLast == nil {
		o.add("difference-identity", "", stUndecided, "", "expected a bits.Sub64 chain followed by a bits.Add64 chain writing four limbs")
		o.conclude(post)
		return
	}
	sc, ac := chainEnding(subLast), chainEnding(addLast)
	for _, c := range []*chain{sc, ac} {
		if !c.clean || len(c.nodes) != 4 || !c.telescoped() {
			why := c.why
			if why == "" {
				why = fmt.Sprintf("chain of %s starting at %s covers %d limbs, expected 4 (a carry/borrow is not propagated)", c.nodes[0].kind, c.nodes[0].pos, len(c.nodes))
			}
			o.add("difference-identity", "chain", stViolated, c.nodes[0].pos, why)
			o.conclude(post)
			return
		}
	}
	b := subLast.high
	cOut := addLast.high
	if b.atom == nil {
		o.add("difference-identity", "", stUndecided, subLast.pos, "final borrow is constant")
		o.conclude(post)
		return
	}
	D := limbSum(sc.lows())
	// 1. D - W^4*b = X - Y with the right operands
	if res := pSub(pSub(limbSum(sc.xs()), limbSum(sc.ys())), pSub(X, Y)); !res.isZero() {
		d, pos := in.explain(res)
		if pos == "" {
			pos = sc.nodes[0].pos
		}
		o.add("difference-identity", "", stViolated, pos, "the borrow chain does not compute arg1 - arg2: "+d)
	} else {
		o.ok("difference-identity", "", "D - W^4*b = X - Y exactly (4-limb borrow chain), D = sum d_k W^k in [0,W^4), so b = [X < Y]")
	}
	// 2. add-back operand is b*m, limb by limb
	ml := limbsOf(fc.m, 4)
	for k, n := range ac.nodes {
		d := sc.nodes[k].low
		var addend *Val
		switch {
		case n.x == d || pEqual(n.x.p, d.p):
			addend = n.y
		case n.y == d || pEqual(n.y.p, d.p):
			addend = n.x
		}
		if addend == nil {
			o.add("add-back", fmt.Sprintf("limb%d", k), stViolated, n.pos, fmt.Sprintf("neither operand of the bits.Add64 is limb %d of the difference", k))
			continue
		}
		want := pScale(b.p, ml[k])
		if !pEqual(addend.p, want) {
			o.add("add-back", fmt.Sprintf("limb%d", k), stViolated, n.pos, fmt.Sprintf("add-back limb %d is %s, expected b*%s (limb %d of m, b = final borrow)", k, addend.p.format(in.atomName, 3), hex(ml[k]), k))
		} else {
			o.ok("add-back", fmt.Sprintf("limb%d", k), fmt.Sprintf("addend = b*%s: mask = b*(2^64-1) (cmovznz of 0 / all-ones), mask & c = b*c", hex(ml[k])))
		}
	}
	// 3. OUT + W^4*c = D + b*m
	OUT := limbSum(outs)
	res := pSub(pAdd(OUT, pScale(cOut.p, powW(4))), pAdd(D, pScale(b.p, fc.m)))
	if !res.isZero() {
		d, pos := in.explain(res)
		if pos == "" {
			pos = ac.nodes[0].pos
		}
		o.add("add-back", "identity", stViolated, pos, "OUT + W^4*c - (D + b*m) != 0: "+d)
	} else {
		o.ok("add-back", "identity", "OUT + W^4*c = D + b*m exactly, c = carry out of the add-back chain (discarded by the code)")
	}
	if o.bad == 0 {
		o.ok("range", "", "inputs < m.  b=0: X >= Y, OUT + W^4*c = X - Y in [0,m), hence c = 0 and OUT = X - Y.  b=1: X < Y, X - Y in (-m,0), OUT + W^4*c = W^4 + (X - Y + m) in (W^4, W^4+m), OUT < W^4 forces c = 1 and OUT = X - Y + m in (0,m).  Either way OUT = (X - Y) mod m in [0,m); the discarded carry equals b")
	}
	o.conclude(post)
}
