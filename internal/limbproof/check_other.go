package limbproof

import (
	"fmt"
	"math/big"
	"path/filepath"
	"sort"
	"strings"
)

func loadFunc(file, key string) (*loader, *funcInfo, error) {
	ld := newLoader()
	pkg, err := ld.load(filepath.Dir(file), file)
	if err != nil {
		return nil, nil, err
	}
	fi, ok := pkg.funcs[key]
	if !ok {
		return nil, nil, fmt.Errorf("limbproof: %s not found in package %s", key, pkg.dir)
	}
	// (the routine may live in any file of the package: `file` only names the package and the file the reference tree
	// keeps it in)
	return ld, fi, nil
}

// borrowLT checks that b is the final borrow of a clean L-limb Sub64 chain
// whose minuend is X and whose subtrahend is the constant want, reporting
// problems into o under rule.  It returns the chain.
func borrowLT(in *interp, o *obs, rule string, b *atom, L int, X Poly, xName string, want *big.Int, wantName string) *chain {
	if b == nil || b.kind != "borrow" || b.node == nil || b.nzOf != nil {
		o.add(rule, "chain", stViolated, "", "the flag is not derived from the final borrow of a bits.Sub64 chain")
		return nil
	}
	ch := chainEnding(b.node)
	if !ch.clean {
		o.add(rule, "chain", stUndecided, ch.nodes[0].pos, ch.why)
		return nil
	}
	if len(ch.nodes) != L {
		o.add(rule, "chain", stViolated, ch.nodes[0].pos, fmt.Sprintf("the borrow chain deciding the flag covers %d limbs instead of %d: it starts at %s with borrow-in 0, the borrow of the preceding bits.Sub64 is dropped", len(ch.nodes), L, ch.nodes[0].pos))
		return nil
	}
	good := ch.telescoped()
	if res := pSub(limbSum(ch.xs()), X); !res.isZero() {
		good = false
		d, _ := in.explain(res)
		o.add(rule, "minuend", stViolated, ch.nodes[0].pos, fmt.Sprintf("the minuend of the chain is not %s: %s", xName, d))
	}
	wl := limbsOf(want, L)
	for k, n := range ch.nodes {
		c, ok := n.y.constant()
		if !ok || c.Cmp(wl[k]) != 0 {
			good = false
			got := "not a constant"
			if ok {
				got = hex(c)
			}
			pos := n.pos
			if ok && n.y.pos != "" {
				pos = n.y.pos
			}
			o.add(rule, fmt.Sprintf("subtrahend-limb%d", k), stViolated, pos, fmt.Sprintf("limb %d of the subtrahend (used at %s) is %s, expected limb %d of %s = %s", k, shortPos(n.pos), got, k, wantName, hex(wl[k])))
		}
	}
	if !good {
		return nil
	}
	o.ok(rule, "chain", fmt.Sprintf("%d-limb borrow chain %s..%s: sum d_k W^k - W^%d*borrow = %s - %s as polynomials with %s = %s; all words in [0,W) => borrow = [%s < %s]",
		L, shortPos(ch.nodes[0].pos), shortPos(ch.last().pos), L, xName, wantName, wantName, hex(want), xName, wantName))
	return ch
}

// ---------------------------------------------------------------- reduceSaturated

// CheckReduceSaturated verifies reduceSaturated defined in file against m.
func CheckReduceSaturated(file string, m *big.Int) ([]Obligation, error) {
	ld, fi, err := loadFunc(file, "reduceSaturated")
	if err != nil {
		return nil, err
	}
	o := &obs{scope: filepath.Base(file), fn: "reduceSaturated", fnPos: ld.posOf(fi.decl)}
	r := runFunc(ld, fi)
	post := "didReduce = [src >= m] and dst = src - didReduce*m = src mod m for all src < 2^256"
	if !o.sideConditions(r) {
		o.conclude(post)
		return o.list, nil
	}
	in := r.in
	// accepted shapes: (dst, src *[4]uint64) uint64; in place (l *[4]uint64) uint64; by value (src *[4]uint64) ([4]uint64, uint64)
	var arrays []int
	for i, nm := range r.order {
		if len(r.inputs[nm]) == 4 {
			arrays = append(arrays, i)
		}
	}
	var dst, src []*Val
	var flag *Val
	for _, rv := range r.ret {
		switch x := rv.(type) {
		case *Val:
			flag = x
		case *arrayVal:
			if len(x.elems) == 4 {
				dst = x.elems
			}
		}
	}
	switch {
	case len(arrays) == 2 && dst == nil:
		dst, src = r.arrayParam(arrays[0]), r.inputArray(arrays[1])
	case len(arrays) == 1 && dst == nil:
		dst, src = r.arrayParam(arrays[0]), r.inputArray(arrays[0])
	case len(arrays) == 1:
		src = r.inputArray(arrays[0])
	}
	if len(dst) != 4 || len(src) != 4 || flag == nil {
		o.add("reduce-flag", "", stUndecided, "", "unexpected signature: want the limbs in (a *[4]uint64 parameter), the reduced limbs out (through a pointer parameter or as a result) and a uint64 flag result")
		o.conclude(post)
		return o.list, nil
	}
	SRC := limbSum(src)
	// second form: didReduce is the carry out of src + (2^256 - m) (instead of the complemented borrow of src - m)
	if cid, isAtom := flag.p.singleAtom(); isAtom && in.atoms[cid].kind == "carry" && in.atoms[cid].node != nil && in.atoms[cid].node.kind == opAdd {
		ch := chainEnding(in.atoms[cid].node)
		good := true
		switch {
		case !ch.clean:
			o.add("reduce-flag", "chain", stUndecided, ch.nodes[0].pos, ch.why)
			good = false
		case len(ch.nodes) != 4 || !ch.telescoped():
			o.add("reduce-flag", "chain", stViolated, ch.nodes[0].pos, fmt.Sprintf("the carry chain deciding the flag covers %d limbs (or drops a carry), expected 4 linked limbs", len(ch.nodes)))
			good = false
		}
		if good {
			C := new(big.Int)
			var vars []*Val
			for k, nd := range ch.nodes {
				cx, okx := nd.x.constant()
				cy, oky := nd.y.constant()
				switch {
				case oky:
					C.Add(C, new(big.Int).Mul(cy, powW(k)))
					vars = append(vars, nd.x)
				case okx:
					C.Add(C, new(big.Int).Mul(cx, powW(k)))
					vars = append(vars, nd.y)
				default:
					good = false
				}
			}
			want := new(big.Int).Sub(powW(4), m)
			if !good || C.Cmp(want) != 0 {
				good = false
				o.add("reduce-flag", "addend", stViolated, ch.nodes[0].pos, fmt.Sprintf("the constant added to src is %s, expected 2^256 - m = %s", hex(C), hex(want)))
			} else if rs := pSub(limbSum(vars), SRC); !rs.isZero() {
				good = false
				d, _ := in.explain(rs)
				o.add("reduce-flag", "augend", stViolated, ch.nodes[0].pos, "the other operand of the chain is not src: "+d)
			}
		}
		if good {
			o.ok("reduce-flag", "", "didReduce = carry out of the 4-limb chain src + (2^256 - m): all words in [0,W) => carry = [src + 2^256 - m >= 2^256] = [src >= m]")
			DST := limbSum(dst)
			if rs := pSub(DST, pSub(SRC, in.mul(flag.p, pInt(m)))); !rs.isZero() {
				d, pos := in.explain(rs)
				o.add("reduce-identity", "", stViolated, pos, "dst - (src - didReduce*m) != 0; "+d)
			} else {
				o.ok("reduce-identity", "", "dst = src + didReduce*(sum - src) limb-wise with sum = src + 2^256 - m - W^4*carry and carry*(1-carry) = 0: dst = src - didReduce*m as polynomials")
			}
			twoM := new(big.Int).Lsh(m, 1)
			if twoM.Cmp(powW(4)) > 0 && m.Cmp(powW(4)) < 0 {
				o.ok("range", "", fmt.Sprintf("2m = %s > 2^256 > src, so src - [src>=m]*m lies in [0,m): dst = src mod m", hex(twoM)))
			} else {
				o.add("range", "", stViolated, "", "2m <= 2^256: one conditional subtraction does not reduce every 256-bit value")
			}
		}
		o.conclude(post)
		return o.list, nil
	}
	id, single := pSub(pInt64(1), flag.p).singleAtom()
	var b *atom
	if single {
		b = in.atoms[id]
	}
	if b == nil {
		o.add("reduce-flag", "", stViolated, where(flag), "the returned flag is not 1 - borrow: "+flag.p.format(in.atomName, 4))
		o.conclude(post)
		return o.list, nil
	}
	ch := borrowLT(in, o, "reduce-flag", b, 4, SRC, "src", m, "m")
	if ch != nil {
		o.ok("reduce-flag", "", "didReduce = IsZero(borrow) = 1 - borrow (Uint64IsNonzero(u) is the borrow of 0-u, equal to u for u in {0,1}; (^x)&1 = 1-x) = [src >= m]; modulus limbs read from "+strings.Join(in.pkgInits, ", "))
	}
	// dst = src - (1-b)*m
	DST := limbSum(dst)
	res := pSub(DST, pSub(SRC, in.mul(pSub(pInt64(1), b.val.p), pInt(m))))
	if !res.isZero() {
		pos := ""
		var diag []string
		if ch != nil {
			for i, dv := range dst {
				if dv.org == nil || dv.org.op != "select" {
					diag = append(diag, fmt.Sprintf("dst[%d] is not a two-way select", i))
					if pos == "" {
						pos = dv.site
					}
					continue
				}
				whenB, whenNotB := dv.org.args[0], dv.org.args[1] // gate = 1: args[0]
				switch {
				case pEqual(dv.org.gate, b.val.p):
				case pEqual(dv.org.gate, pSub(pInt64(1), b.val.p)):
					whenB, whenNotB = whenNotB, whenB
				default:
					diag = append(diag, fmt.Sprintf("dst[%d]: select keyed on %s, not on the borrow / its complement", i, dv.org.gate.format(in.atomName, 3)))
					if pos == "" {
						pos = dv.site
					}
					continue
				}
				if pEqual(whenB.p, ch.nodes[i].low.p) && pEqual(whenNotB.p, src[i].p) {
					diag = append(diag, fmt.Sprintf("dst[%d]: the select at %s has its data arguments swapped: it yields src-m when src < m and src when src >= m", i, dv.site))
					if pos == "" {
						pos = dv.site
					}
				} else if !pEqual(whenB.p, src[i].p) || !pEqual(whenNotB.p, ch.nodes[i].low.p) {
					diag = append(diag, fmt.Sprintf("dst[%d]: the select at %s does not choose between src[%d] and limb %d of src-m", i, dv.site, i, i))
					if pos == "" {
						pos = dv.site
					}
				}
			}
		}
		d, p2 := in.explain(res)
		if pos == "" {
			pos = p2
		}
		o.add("reduce-identity", "", stViolated, pos, "dst - (src - didReduce*m) != 0; "+strings.Join(diag, "; ")+"; "+d)
	} else {
		o.ok("reduce-identity", "", "dst = src + didReduce*(reduced - src) limb-wise (inlined fiat.Selectznz / cmovznzU64, condition Uint64ToUint1(didReduce) = didReduce), reduced = src - m + W^4*borrow, and borrow*(1-borrow) = 0: dst = src - didReduce*m as polynomials.  (dst and src are modelled as distinct arrays; Selectznz reads every input before its first write.)")
	}
	twoM := new(big.Int).Lsh(m, 1)
	if twoM.Cmp(powW(4)) > 0 && m.Cmp(powW(4)) < 0 {
		o.ok("range", "", fmt.Sprintf("2m = %s > 2^256 > src, so src - [src>=m]*m lies in [0,m): dst = src mod m", hex(twoM)))
	} else {
		o.add("range", "", stViolated, "", "2m <= 2^256: one conditional subtraction does not reduce every 256-bit value")
	}
	o.conclude(post)
	return o.list, nil
}

// ---------------------------------------------------------------- IsGreaterThanHalfN

// CheckIsGreaterThanHalfN verifies (*Scalar).IsGreaterThanHalfN in scalarFile.
func CheckIsGreaterThanHalfN(scalarFile string, n *big.Int) ([]Obligation, error) {
	ld, fi, err := loadFunc(scalarFile, "Scalar.IsGreaterThanHalfN")
	if err != nil {
		return nil, err
	}
	o := &obs{scope: filepath.Base(scalarFile), fn: "IsGreaterThanHalfN", fnPos: ld.posOf(fi.decl)}
	r := runFunc(ld, fi, "FromMontgomery")
	post := "result = [fromMontgomery(s) > (n-1)/2] (result in {0,1})"
	if !o.sideConditions(r) {
		o.conclude(post)
		return o.list, nil
	}
	in := r.in
	var res *Val
	if len(r.ret) == 1 {
		res, _ = r.ret[0].(*Val)
	}
	if res == nil || len(in.absCalls) != 1 || len(in.absCalls[0].out) != 4 {
		o.add("half-order", "", stUndecided, "", "expected exactly one fiat.FromMontgomery(&nm, &s.m) and one uint64 result")
		o.conclude(post)
		return o.list, nil
	}
	nm := in.absCalls[0].out
	NM := limbSum(nm)
	h := new(big.Int).Rsh(new(big.Int).Sub(n, big1), 1)
	// result must be z*(1-b): b = chain borrow, z = [OR(diff) != 0]
	var b, z *atom
	for _, id := range res.p.atoms() {
		a := in.atoms[id]
		switch {
		case a.kind == "borrow" && a.nzOf != nil:
			z = a
		case a.kind == "borrow":
			b = a
		}
	}
	if b == nil {
		o.add("half-order", "shape", stViolated, where(res), "the result does not depend on the borrow of a multi-limb comparison: "+res.p.format(in.atomName, 4))
		o.conclude(post)
		return o.list, nil
	}
	if z == nil && pEqual(res.p, b.val.p) && b.node != nil {
		// the other way round: result = final borrow of (n-1)/2 - nm = [(n-1)/2 < nm]
		ch := chainEnding(b.node)
		switch {
		case !ch.clean:
			o.add("half-order", "chain", stUndecided, ch.nodes[0].pos, ch.why)
		case len(ch.nodes) != 4:
			o.add("half-order", "chain", stViolated, ch.nodes[0].pos, fmt.Sprintf("the borrow chain deciding the result covers %d limbs instead of 4", len(ch.nodes)))
		case !ch.telescoped():
			o.add("half-order", "chain", stViolated, ch.nodes[0].pos, "the borrows of the chain are not passed from limb to limb")
		default:
			good := true
			wl := limbsOf(h, 4)
			for k, nd := range ch.nodes {
				c, ok := nd.x.constant()
				if !ok || c.Cmp(wl[k]) != 0 {
					good = false
					got := "not a constant"
					if ok {
						got = hex(c)
					}
					o.add("half-order", fmt.Sprintf("minuend-limb%d", k), stViolated, nd.pos, fmt.Sprintf("limb %d of the minuend is %s, expected limb %d of (n-1)/2 = %s", k, got, k, hex(wl[k])))
				}
			}
			if rs := pSub(limbSum(ch.ys()), NM); !rs.isZero() {
				good = false
				d, _ := in.explain(rs)
				o.add("half-order", "subtrahend", stViolated, ch.nodes[0].pos, "the subtrahend of the chain is not nm: "+d)
			}
			if good {
				o.ok("half-order", "chain", fmt.Sprintf("4-limb borrow chain %s..%s computing (n-1)/2 - nm: all words in [0,W) => borrow = [(n-1)/2 < nm]", shortPos(ch.nodes[0].pos), shortPos(ch.last().pos)))
				o.ok("half-order", "shape", "result = the final borrow = [nm > (n-1)/2] (in {0,1})")
			}
		}
		o.ok("precondition", "", "nm = output of fiat.FromMontgomery (abstracted; 0 <= nm < n is CheckFiat's postcondition); the comparison itself is valid for every 4-limb nm")
		o.conclude(post)
		return o.list, nil
	}
	ch := borrowLT(in, o, "half-order", b, 4, NM, "nm", h, "(n-1)/2")
	oneMinusB := pSub(pInt64(1), b.val.p)
	switch {
	case z == nil && pEqual(res.p, oneMinusB):
		o.add("half-order", "shape", stViolated, where(res), "result = 1 - borrow = [nm >= (n-1)/2]: the factor '[difference != 0]' is missing, so nm = (n-1)/2 is reported as greater")
	case z == nil || !pEqual(res.p, in.mul(z.val.p, oneMinusB)):
		o.add("half-order", "shape", stViolated, where(res), "result is not IsZero(borrow) & IsNonzero(difference): "+res.p.format(in.atomName, 4))
	default:
		o.ok("half-order", "shape", "result = (1-borrow)*z with z = borrow of 0 - v = [v != 0] (both factors in {0,1}, so '&' is the product)")
		if ch != nil {
			leaves := flattenOr(z.nzOf)
			seen := map[int]bool{}
			bad := ""
			for _, l := range leaves {
				hit := false
				for k, nd := range ch.nodes {
					if l == nd.low || pEqual(l.p, nd.low.p) {
						seen[k], hit = true, true
					}
				}
				if !hit {
					bad = "an operand of the OR is not a difference limb"
				}
			}
			if bad == "" && len(seen) != 4 {
				bad = fmt.Sprintf("the OR covers %d of the 4 difference limbs", len(seen))
			}
			if bad != "" {
				o.add("half-order", "nonzero-test", stViolated, where(z.val), bad)
			} else {
				o.ok("half-order", "nonzero-test", "v = OR of the four difference limbs d_k; v = 0 iff D = sum d_k W^k = 0.  borrow=1: nm < h, result 0.  borrow=0: D = nm - h >= 0 and result = [D != 0] = [nm > h]")
			}
		}
	}
	o.ok("precondition", "", "nm = output of fiat.FromMontgomery (abstracted; 0 <= nm < n is CheckFiat's postcondition); the comparison itself is valid for every 4-limb nm")
	o.conclude(post)
	return o.list, nil
}

// ---------------------------------------------------------------- mulGFlooredDiv

func inputWeight(in *interp, v *Val, a, b []*Val) (int, bool) {
	idx := func(set []*Val, id int) int {
		for i, x := range set {
			if x.atom != nil && x.atom.id == id {
				return i
			}
		}
		return -1
	}
	w, found := 0, false
	for k := range v.p {
		ids := monoIDs(k)
		if len(ids) != 2 {
			continue
		}
		i, j := idx(a, ids[0]), idx(b, ids[1])
		if i < 0 || j < 0 {
			i, j = idx(a, ids[1]), idx(b, ids[0])
		}
		if i < 0 || j < 0 {
			continue
		}
		if found && w != i+j {
			return 0, false
		}
		w, found = i+j, true
	}
	return w, found
}

// CheckMulGFlooredDiv verifies (*Scalar).mulGFlooredDiv in glvFile.
func CheckMulGFlooredDiv(glvFile string, n *big.Int) ([]Obligation, error) {
	ld, fi, err := loadFunc(glvFile, "Scalar.mulGFlooredDiv")
	if err != nil {
		// the routine as a plain function of the two operands
		var err2 error
		if ld, fi, err2 = loadFunc(glvFile, "mulGFlooredDiv"); err2 != nil {
			return nil, err
		}
	}
	o := &obs{scope: filepath.Base(glvFile), fn: "mulGFlooredDiv", fnPos: ld.posOf(fi.decl)}
	r := runFunc(ld, fi, "FromMontgomery", "uncheckedSetSaturated")
	post := "the saturated value handed to uncheckedSetSaturated is floor(a*b / 2^384) + bit383(a*b) with a = fromMontgomery(k), b = fromMontgomery(g), and it is < 2^128 < n"
	in := r.in
	// the final 'c7 += u' needs the global argument; keep its issue aside.
	var from []absCall
	var set *absCall
	for i := range in.absCalls {
		switch in.absCalls[i].name {
		case "FromMontgomery":
			from = append(from, in.absCalls[i])
		case "uncheckedSetSaturated":
			set = &in.absCalls[i]
		}
	}
	var resLimbs []*Val
	// the limbs arrive through a pointer to an array, as an array by value, or as four words
	if set != nil && len(set.args) == 2 {
		switch p := set.args[1].(type) {
		case *ptrVal:
			if p.arr != nil {
				resLimbs = p.arr.elems
			}
		case *arrayVal:
			resLimbs = p.elems
		}
	}
	if set != nil && len(set.args) == 5 {
		for _, a := range set.args[1:] {
			if v, ok := a.(*Val); ok {
				resLimbs = append(resLimbs, v)
			}
		}
	}
	// an operand may also arrive already converted, as a 4-limb array parameter; its range (< n, the FromMontgomery
	// postcondition) is then the callers' obligation (rule C04-4/call-site of the framework checks every call site)
	paramOperand := ""
	if r.err == nil && len(from) == 1 {
		for _, nm := range r.order {
			if in4 := r.inputs[nm]; len(in4) == 4 {
				from = append([]absCall{{name: "param " + nm, out: in4}}, from...)
				paramOperand = nm
				break
			}
		}
	}
	if r.err != nil || len(from) != 2 || len(from[0].out) != 4 || len(from[1].out) != 4 || len(resLimbs) != 4 {
		if r.err == nil {
			o.add("modelled", "", stUndecided, "", "expected two fiat.FromMontgomery calls and one uncheckedSetSaturated(&[4]uint64{...})")
		} else {
			o.sideConditions(r)
		}
		o.conclude(post)
		return o.list, nil
	}
	a, b := from[0].out, from[1].out
	if paramOperand != "" {
		o.ok("operand-from-caller", paramOperand, "operand a is the limb-array parameter "+paramOperand+"; 0 <= a < n is required from every call site (it must pass a fiat.FromMontgomery output)")
	}
	AB := in.mul(limbSum(a), limbSum(b))
	nm1 := new(big.Int).Sub(n, big1)
	abMax := new(big.Int).Mul(nm1, nm1)
	r0, r1 := resLimbs[0], resLimbs[1]

	// ---- discarded column values and their weights
	type col struct {
		v   *Val
		w   int
		pos string
	}
	var cols []col
	colOK := true
	for _, d := range in.discards {
		if d.depth != 0 {
			continue // discarded inside an inlined callee
		}
		w, ok := inputWeight(in, d.v, a, b)
		if !ok {
			colOK = false
			o.add("column-weights", "", stUndecided, d.pos, "cannot attribute a unique weight i+j to the value discarded here")
			continue
		}
		cols = append(cols, col{d.v, w, d.pos})
	}
	sort.SliceStable(cols, func(i, j int) bool { return cols[i].w < cols[j].w })
	L := pZero()
	var ws []string
	for i, c := range cols {
		if c.w != i {
			colOK = false
		}
		L = pAdd(L, pScale(c.v.p, powW(c.w)))
		ws = append(ws, fmt.Sprintf("W^%d@%s", c.w, strings.TrimPrefix(shortPos(c.pos), filepath.Base(glvFile)+":")))
	}
	if len(cols) != 5 {
		colOK = false
	}
	colReport := func() {
		if colOK {
			o.ok("column-weights", "", "the five discarded low words are the final values of columns 0..4 (weight = i+j of the products a[i]*b[j] they contain): "+strings.Join(ws, ", ")+"; each lies in [0,W) so L = sum col_k W^k < W^5")
		} else if len(cols) > 0 || len(in.discards) == 0 {
			o.add("column-weights", "", stViolated, "", fmt.Sprintf("discarded values have weights %v, expected exactly one each of W^0..W^4", ws))
		}
	}

	// ---- rounding structure: r0 = low(Add64(c6, t, 0)), r1 = c7 + carry
	var c5, c6, c7, t, rem *Val
	var N *opNode
	if r0.org != nil && r0.org.op == "addlo" && r0.org.node != nil && r0.org.node.cin.isConst(0) {
		N = r0.org.node
		for _, pr := range [][2]*Val{{N.x, N.y}, {N.y, N.x}} {
			if pr[1].org != nil && pr[1].org.op == "shr" {
				c6, t = pr[0], pr[1]
			}
		}
	}
	if N == nil || t == nil {
		pos, why := r0.site, "limb 0 of the result is not the sum word of bits.Add64(c6, roundbit, 0)"
		if N != nil {
			pos = N.pos
			why = "no operand of the rounding bits.Add64 is a right-shifted column value"
			for _, x := range []*Val{N.x, N.y} {
				if x.atom != nil && (x.atom.kind == "and" || x.atom.kind == "or") {
					pos = x.atom.pos
					why = fmt.Sprintf("the rounding increment computed at %s is not a single bit of a column (unmodelled '&' of a value with range [%s,%s])", x.atom.pos, x.org.args[0].lo, x.org.args[0].hi)
				}
			}
		}
		o.add("rounding-bit", "", stViolated, pos, why)
		o.sideConditions(r)
		o.conclude(post)
		return o.list, nil
	}
	c5, rem = t.org.args[0], t.org.args[1]
	if !colOK {
		// the low columns need not be discarded with `_` (they may stay in an array that is never read): take, for each
		// weight W^0..W^4, the one low word of a math/bits operation that nothing reads afterwards.  That the choice is
		// right is decided by the schoolbook identity below (a*b = L + c5 W^5 + c6 W^6 + c7 W^7), not assumed.
		byW := map[int][]*Val{}
		for _, nd := range in.nodes {
			v := nd.low
			if v == nil || (v.used && !v.onlyStored) || v == c5 || v == c6 || v == r0 {
				continue
			}
			if _, isC := v.constant(); isC {
				continue
			}
			if w, ok := inputWeight(in, v, a, b); ok && w >= 0 && w <= 4 {
				byW[w] = append(byW[w], v)
			}
		}
		good := true
		La := pZero()
		var wsa []string
		for k := 0; k < 5; k++ {
			if len(byW[k]) != 1 || byW[k][0].lo.Sign() < 0 || byW[k][0].hi.Cmp(bigWm1) > 0 {
				good = false
				break
			}
			La = pAdd(La, pScale(byW[k][0].p, powW(k)))
			wsa = append(wsa, fmt.Sprintf("W^%d@%s", k, strings.TrimPrefix(shortPos(byW[k][0].pos), filepath.Base(glvFile)+":")))
		}
		if good {
			colOK, L, ws = true, La, wsa
			o.ok("column-weights", "", "the low columns are kept but never read: for each weight W^0..W^4 exactly one unread low word of the product network ("+strings.Join(wsa, ", ")+"); each lies in [0,W) so L = sum col_k W^k < W^5")
		} else {
			colReport()
		}
	} else {
		colReport()
	}
	if w5, ok := inputWeight(in, c5, a, b); !ok || w5 != 5 {
		o.add("rounding-bit", "", stViolated, t.pos, fmt.Sprintf("the rounding bit computed at %s is taken from a value of weight W^%d (ok=%v), expected the final value of column 5 (bit 383 of the product)", t.pos, w5, ok))
	} else if t.org.k != 63 || !t.isBool() {
		o.add("rounding-bit", "", stViolated, t.pos, fmt.Sprintf("the rounding bit is column5 >> %d, expected >> 63 (bit 383 of the product)", t.org.k))
	} else {
		o.ok("rounding-bit", "", "shouldAdd = (col5 >> 63) & 1 = t with col5 = 2^63*t + r, 0 <= r < 2^63, t in {0,1} (the '& 1' is the identity on {0,1})")
	}
	c7 = r1
	if r1.org != nil && r1.org.op == "plus" {
		switch {
		case r1.org.args[1] == N.high:
			c7 = r1.org.args[0]
		case r1.org.args[0] == N.high:
			c7 = r1.org.args[1]
		}
	}

	// ---- schoolbook identity
	cert := pSum(L, pScale(c5.p, powW(5)), pScale(c6.p, powW(6)), pScale(c7.p, powW(7)))
	sbOK := false
	if res := pSub(AB, cert); !res.isZero() {
		d, pos := in.explain(res)
		o.add("schoolbook-identity", "", stViolated, pos, "a*b - (sum_{k<5} col_k W^k + c5 W^5 + c6 W^6 + c7 W^7) != 0: "+d)
	} else if colOK {
		sbOK = true
		o.ok("schoolbook-identity", "", "a*b = sum_{k<5} col_k W^k + c5*W^5 + c6*W^6 + c7*W^7 exactly over Z (16 inlined innerProduct instances: hi*W + lo = a_i*b_j + c + u each)")
	}

	// ---- c7 + u does not wrap
	for _, is := range in.issues {
		if is.kind != "nowrap" || is.val != r1 || !sbOK {
			continue
		}
		// (c7+u)*W^7 = a*b - L - c5 W^5 + t W^6 - r0 W^6
		lhs := pScale(r1.p, powW(7))
		rhs := pSub(pAdd(pSub(pSub(AB, L), pScale(c5.p, powW(5))), pScale(t.p, powW(6))), pScale(r0.p, powW(6)))
		if !pEqual(lhs, rhs) {
			continue
		}
		bound := new(big.Int).Add(abMax, powW(6))
		bound.Div(bound, powW(7))
		if bound.Cmp(bigWm1) <= 0 {
			is.done = true
			o.ok("no-wrap", "final-carry", fmt.Sprintf("(c7+u)*W^7 = a*b - L - c5*W^5 + t*W^6 - c6'*W^6 (polynomial identity) <= (n-1)^2 + W^6 since L, c5, c6' >= 0 and t <= 1; a, b <= n-1 (FromMontgomery postcondition) gives c7+u <= floor(((n-1)^2 + W^6)/W^7) = %s <= 2^64-1: the plain '+=' at %s cannot wrap", hex(bound), shortPos(is.pos)))
		}
	}
	if !o.sideConditions(r) {
		o.conclude(post)
		return o.list, nil
	}
	nRel := 0
	for _, p := range in.plus {
		if p.method == "relational" {
			nRel++
		}
	}
	o.ok("innerproduct-no-overflow", "", fmt.Sprintf("every 'hi += carry' of the 16 inlined innerProduct bodies is exact: hi + carry1 + carry2 = (a*b + c + u - lo)/W <= ((W-1)^2 + 2(W-1))/W < W (%d sites needed this relational bound, the rest follow from hi(Mul64) <= W-2)", nRel))

	// ---- result identity
	RES := limbSum(resLimbs)
	two383 := new(big.Int).Lsh(big1, 383)
	want := pSum(L, pScale(rem.p, powW(5)), pScale(t.p, two383), pScale(pSub(RES, t.p), powW(6)))
	if res := pSub(AB, want); !res.isZero() {
		d, pos := in.explain(res)
		if pos == "" {
			pos = r1.site
		}
		o.add("result-identity", "", stViolated, pos, "a*b - (L + r*W^5 + t*2^383 + (RES - t)*W^6) != 0: "+d)
	} else {
		o.ok("result-identity", "", "a*b = (RES - t)*2^384 + t*2^383 + (r*W^5 + L) with 0 <= r*W^5 + L < 2^383 (r < 2^63, L < W^5) and t in {0,1}: floor(a*b/2^384) = RES - t and bit383(a*b) = t, i.e. RES = floor(a*b/2^384) + bit383(a*b)")
	}
	hiOK := true
	for i := 2; i < 4; i++ {
		if !resLimbs[i].isConst(0) {
			hiOK = false
			o.add("result-shape", "", stViolated, resLimbs[i].pos, fmt.Sprintf("limb %d of the result is not the constant 0", i))
		}
	}
	if hiOK {
		o.ok("result-shape", "", "result limbs {c6', c7', 0, 0}: value < 2^128 < n, the precondition of uncheckedSetSaturated (ToMontgomery input < n)")
	}
	o.conclude(post)
	return o.list, nil
}

// ---------------------------------------------------------------- helpers

// CheckHelpers verifies the constant-time helpers and the byte-order tables.
func CheckHelpers(helpersFile string) ([]Obligation, error) {
	var out []Obligation
	names := []string{"Uint64IsZero", "Uint64IsNonzero", "Uint64Equal", "FiatLimbsAreEqual", "BytesToSaturated", "PutSaturatedToBytes"}
	for _, name := range names {
		ld, fi, err := loadFunc(helpersFile, name)
		if err != nil {
			return nil, err
		}
		o := &obs{scope: filepath.Base(helpersFile), fn: name, fnPos: ld.posOf(fi.decl)}
		r := runFunc(ld, fi)
		checkHelper(name, r, o)
		out = append(out, o.list...)
	}
	return out, nil
}

// CheckUint64ToUint1 verifies the hand-written control-word normaliser of a fiat package (voi.go): for EVERY 64-bit
// control word the result is [u != 0], the condition the callers' documented contract ("ctrl == 0 -> a, otherwise
// b") and the specification used by the upper layers rely on.
func CheckUint64ToUint1(voiFile string) ([]Obligation, error) {
	ld, fi, err := loadFunc(voiFile, "Uint64ToUint1")
	if err != nil {
		return nil, err
	}
	o := &obs{scope: filepath.Base(filepath.Dir(voiFile)) + "/" + filepath.Base(voiFile), fn: "Uint64ToUint1", fnPos: ld.posOf(fi.decl)}
	r := runFunc(ld, fi)
	post := "result = [u != 0] for every 64-bit u"
	if !o.sideConditions(r) {
		o.conclude(post)
		return o.list, nil
	}
	var res *Val
	if len(r.ret) >= 1 {
		res, _ = r.ret[0].(*Val)
	}
	u := r.scalarParam(0)
	if res == nil || u == nil {
		o.add("flag", "", stUndecided, "", "unexpected signature")
	} else if z := nzAtom(r.in, res.p); z == nil || z.nzOf != u {
		o.add("flag", "", stViolated, where(res), "result is not [u != 0] (the borrow of 0 - u): "+res.p.format(r.in.atomName, 4))
	} else {
		o.ok("flag", "", "result is the borrow of 0 - u = [u != 0]")
	}
	o.conclude(post)
	return o.list, nil
}

func nzAtom(in *interp, p Poly) *atom {
	id, ok := p.singleAtom()
	if !ok {
		return nil
	}
	a := in.atoms[id]
	if a.kind != "borrow" || a.nzOf == nil {
		return nil
	}
	return a
}

func checkHelper(name string, r *run, o *obs) {
	posts := map[string]string{
		"Uint64IsZero":        "result = [u == 0]",
		"Uint64IsNonzero":     "result = [u != 0]",
		"Uint64Equal":         "result = [a == b]",
		"FiatLimbsAreEqual":   "result = [a[i] == b[i] for i = 0..3]",
		"BytesToSaturated":    "sum_k dst[k] W^k = sum_j src[j] 256^(31-j): limb k = big-endian bytes [8(3-k), 8(3-k)+8)",
		"PutSaturatedToBytes": "sum_j dst[j] 256^(31-j) = sum_k src[k] W^k: bytes [8(3-k), 8(3-k)+8) = big-endian limb k",
	}
	post := posts[name]
	if !o.sideConditions(r) {
		o.conclude(post)
		return
	}
	in := r.in
	var res *Val
	if len(r.ret) >= 1 {
		res, _ = r.ret[0].(*Val)
	}
	const lemma = "borrow of bits.Sub64(0, v, 0): d - W*z = -v with d in [0,W) gives z = [v != 0]"
	switch name {
	case "Uint64IsNonzero", "Uint64IsZero":
		u := r.scalarParam(0)
		if res == nil || u == nil {
			o.add("flag", "", stUndecided, "", "unexpected signature")
			break
		}
		p := res.p
		if name == "Uint64IsZero" {
			p = pSub(pInt64(1), res.p)
		}
		z := nzAtom(in, p)
		if z == nil || z.nzOf != u {
			o.add("flag", "", stViolated, where(res), "result is not the (complemented) borrow of 0 - u: "+res.p.format(in.atomName, 4))
		} else if name == "Uint64IsZero" {
			o.ok("flag", "", lemma+"; (^z)&1 = 1 - z for z in {0,1}: result = 1 - [u != 0]")
		} else {
			o.ok("flag", "", lemma+" with v = u")
		}
	case "Uint64Equal":
		a, b := r.scalarParam(0), r.scalarParam(1)
		if res == nil || a == nil || b == nil {
			o.add("flag", "", stUndecided, "", "unexpected signature")
			break
		}
		z := nzAtom(in, pSub(pInt64(1), res.p))
		if z == nil || z.nzOf.org == nil || z.nzOf.org.op != "xor" ||
			!((z.nzOf.org.args[0] == a && z.nzOf.org.args[1] == b) || (z.nzOf.org.args[0] == b && z.nzOf.org.args[1] == a)) {
			o.add("flag", "", stViolated, where(res), "result is not IsZero(a ^ b)")
		} else {
			o.ok("flag", "", "result = 1 - [a^b != 0]; a^b = 0 iff a = b; "+lemma)
		}
	case "FiatLimbsAreEqual":
		a, b := r.inputArray(0), r.inputArray(1)
		if res == nil || len(a) != 4 || len(b) != 4 {
			o.add("flag", "", stUndecided, "", "unexpected signature")
			break
		}
		z := nzAtom(in, pSub(pInt64(1), res.p))
		if z == nil {
			o.add("flag", "", stViolated, where(res), "result is not IsZero(v)")
			break
		}
		seen := map[int]bool{}
		bad := ""
		for _, l := range flattenOr(z.nzOf) {
			hit := false
			if l.org != nil && l.org.op == "xor" {
				for i := 0; i < 4; i++ {
					x, y := l.org.args[0], l.org.args[1]
					if (x == a[i] && y == b[i]) || (x == b[i] && y == a[i]) {
						seen[i], hit = true, true
					}
				}
			}
			if !hit {
				bad = fmt.Sprintf("an operand of the OR (%s) is not a[i]^b[i]", l.pos)
			}
		}
		if bad == "" && len(seen) != 4 {
			bad = fmt.Sprintf("the accumulated OR covers %d of the 4 limb pairs", len(seen))
		}
		if bad != "" {
			o.add("flag", "", stViolated, where(z.val), bad)
		} else {
			o.ok("flag", "", "loop unrolled (constant bound len(a) = 4): v = OR_i (a[i]^b[i]), v = 0 iff all limbs agree; result = 1 - [v != 0]; "+lemma)
		}
	case "BytesToSaturated":
		src := r.inputArray(0)
		var dst []*Val
		if len(r.ret) == 1 {
			if a, ok := r.ret[0].(*arrayVal); ok {
				dst = a.elems
			}
		}
		if len(src) != 32 || len(dst) != 4 {
			o.add("byte-order", "", stUndecided, "", "unexpected signature")
			break
		}
		for k := 0; k < 4; k++ {
			want := pZero()
			for j := 0; j < 8; j++ {
				want = pAdd(want, pScale(src[8*(3-k)+j].p, new(big.Int).Lsh(big1, uint(8*(7-j)))))
			}
			if res := pSub(dst[k].p, want); !res.isZero() {
				d, _ := in.explain(res)
				o.add("byte-order", fmt.Sprintf("limb%d", k), stViolated, dst[k].site, fmt.Sprintf("dst[%d] is not the big-endian value of src[%d:%d]: %s", k, 8*(3-k), 8*(3-k)+8, d))
			} else {
				o.ok("byte-order", fmt.Sprintf("limb%d", k), fmt.Sprintf("dst[%d] = sum_j src[%d+j]*256^(7-j) (binary.BigEndian.Uint64 of src[%d:%d])", k, 8*(3-k), 8*(3-k), 8*(3-k)+8))
			}
		}
	case "PutSaturatedToBytes":
		dst, src := r.arrayParam(0), r.inputArray(1)
		if len(dst) != 32 || len(src) != 4 {
			o.add("byte-order", "", stUndecided, "", "unexpected signature")
			break
		}
		for k := 0; k < 4; k++ {
			got := pZero()
			byteOK := true
			byteWhy := ""
			for j := 0; j < 8; j++ {
				bv := dst[8*(3-k)+j]
				if bv.hi.Cmp(big.NewInt(255)) > 0 || bv.org == nil || bv.org.op != "byte" && bv.atom == nil {
					byteOK = false
					why := "no origin"
					if bv.org != nil {
						why = "origin " + bv.org.op
					}
					byteWhy = fmt.Sprintf("dst[%d] is not an octet (range up to %s, %s)", 8*(3-k)+j, bv.hi, why)
				}
				got = pAdd(got, pScale(bv.p, new(big.Int).Lsh(big1, uint(8*(7-j)))))
			}
			if res := pSub(got, src[k].p); !res.isZero() || !byteOK {
				d, _ := in.explain(res)
				o.add("byte-order", fmt.Sprintf("limb%d", k), stViolated, dst[8*(3-k)].site, fmt.Sprintf("big-endian value of dst[%d:%d] is not src[%d]: %s %s", 8*(3-k), 8*(3-k)+8, k, d, byteWhy))
			} else {
				o.ok("byte-order", fmt.Sprintf("limb%d", k), fmt.Sprintf("sum_j dst[%d+j]*256^(7-j) = src[%d] (binary.BigEndian.PutUint64 into dst[%d:%d]; bytes in [0,255] make the digits unique)", 8*(3-k), k, 8*(3-k), 8*(3-k)+8))
			}
		}
	}
	o.conclude(post)
}
