package limbproof

import (
	"fmt"
	"math/big"
	"sort"
	"strings"
)

// Obligation is one proof obligation and its outcome.
type Obligation struct {
	Key    string // stable: "<rule>/<package-or-file>.<Func>[/<detail>]"
	Func   string
	Pos    string // file:line of the function or offending statement
	Status string // "discharged" | "violated" | "undecided"
	Detail string // derivation summary or the residual / missing fact
}

const (
	stOK        = "discharged"
	stViolated  = "violated"
	stUndecided = "undecided"
)

// obs collects the obligations of one function.
type obs struct {
	scope string // package or file name
	fn    string
	fnPos string
	list  []Obligation
	bad   int
}

func (o *obs) add(rule, sub, status, pos, detail string) {
	key := fmt.Sprintf("%s/%s.%s", rule, o.scope, o.fn)
	if sub != "" {
		key += "/" + sub
	}
	if pos == "" {
		pos = o.fnPos
	}
	if status != stOK {
		o.bad++
	}
	o.list = append(o.list, Obligation{Key: key, Func: o.fn, Pos: pos, Status: status, Detail: detail})
}

func (o *obs) ok(rule, sub, detail string) { o.add(rule, sub, stOK, "", detail) }

// conclude adds the summarising postcondition obligation.
func (o *obs) conclude(post string) {
	if o.bad == 0 {
		o.add("postcondition", "", stOK, "", post)
		return
	}
	st := stUndecided
	var failing []string
	for _, ob := range o.list {
		if ob.Status == stViolated {
			st = stViolated
		}
		if ob.Status != stOK {
			failing = append(failing, ob.Key+" @ "+shortPos(ob.Pos))
		}
	}
	pos := ""
	for _, ob := range o.list {
		if ob.Status != stOK {
			pos = ob.Pos
			break
		}
	}
	o.add("postcondition", "", st, pos, "NOT established: "+post+"; open premises: "+strings.Join(failing, "; "))
}

// sideConditions turns the interpreter's pending issues and its record of
// plain additions into obligations.  Returns false if execution failed.
func (o *obs) sideConditions(r *run) bool {
	in := r.in
	if r.err != nil {
		pos := o.fnPos
		if ue, ok := r.err.(*unsupportedErr); ok {
			pos = ue.pos
		}
		o.add("modelled", "", stUndecided, pos, "the function body leaves the modelled fragment: "+r.err.Error())
		return false
	}
	nInt, nRel := 0, 0
	for _, p := range in.plus {
		switch p.method {
		case "interval":
			nInt++
		case "relational":
			nRel++
		}
	}
	n := 0
	for _, is := range in.issues {
		if is.done {
			continue
		}
		n++
		pos := is.pos
		det := is.detail
		if is.site != "" && is.site != is.pos {
			det += " (reached from " + is.site + ")"
		}
		o.add("side-condition", fmt.Sprintf("%s@%s#%d", is.kind, shortPos(pos), n), stUndecided, pos, det)
	}
	o.ok("no-wrap", "", fmt.Sprintf("%d math/bits operations modelled exactly; %d plain '+' proven exact by interval bounds (hi(Mul64(a,b)) <= floor(max a*max b / 2^64), carries in {0,1}), %d by the relational bound (carry = (operands - low word)/2^64); %d side-conditions left open",
		len(in.nodes), nInt, nRel, n))
	return true
}

func limbSum(vs []*Val) Poly {
	p := pZero()
	for i, v := range vs {
		p = pAdd(p, pScale(v.p, powW(i)))
	}
	return p
}

func limbsOf(m *big.Int, n int) []*big.Int {
	out := make([]*big.Int, n)
	t := new(big.Int).Set(m)
	for i := range out {
		out[i] = new(big.Int).And(t, bigWm1)
		t.Rsh(t, 64)
	}
	return out
}

// ---------------------------------------------------------------- carry / borrow chains

type chain struct {
	nodes []*opNode
	clean bool // the first node has a constant-0 carry/borrow input
	why   string
}

func prevInChain(n *opNode) *opNode {
	c := n.cin
	if c == nil || c.org == nil || c.org.node == nil {
		return nil
	}
	if (c.org.op == "addhi" || c.org.op == "subhi") && c.org.node.kind == n.kind && c.org.node.high == c {
		return c.org.node
	}
	return nil
}

// chainEnding walks the carry/borrow links backwards from n.
func chainEnding(n *opNode) *chain {
	ch := &chain{}
	for cur := n; cur != nil; {
		ch.nodes = append([]*opNode{cur}, ch.nodes...)
		if cur.cin.isConst(0) {
			ch.clean = true
			break
		}
		p := prevInChain(cur)
		if p == nil {
			ch.why = fmt.Sprintf("carry/borrow input of %s at %s is neither the constant 0 nor the carry/borrow output of a preceding %s", cur.kind, cur.pos, cur.kind)
			break
		}
		cur = p
	}
	return ch
}

func (c *chain) xs() []*Val {
	var o []*Val
	for _, n := range c.nodes {
		o = append(o, n.x)
	}
	return o
}
func (c *chain) ys() []*Val {
	var o []*Val
	for _, n := range c.nodes {
		o = append(o, n.y)
	}
	return o
}
func (c *chain) lows() []*Val {
	var o []*Val
	for _, n := range c.nodes {
		o = append(o, n.low)
	}
	return o
}
func (c *chain) last() *opNode { return c.nodes[len(c.nodes)-1] }

// telescoped verifies  sum(low_k W^k) -/+ W^L*high == X -/+ Y  as polynomials.
func (c *chain) telescoped() bool {
	L := len(c.nodes)
	lhs := limbSum(c.lows())
	top := pScale(c.last().high.p, powW(L))
	if c.nodes[0].kind == opSub {
		return pEqual(pSub(lhs, top), pSub(limbSum(c.xs()), limbSum(c.ys())))
	}
	return pEqual(pAdd(lhs, top), pAdd(limbSum(c.xs()), limbSum(c.ys())))
}

func lastNode(in *interp, k opKind) *opNode {
	for i := len(in.nodes) - 1; i >= 0; i-- {
		if in.nodes[i].kind == k {
			return in.nodes[i]
		}
	}
	return nil
}

// ---------------------------------------------------------------- residual explanation

// explain renders a non-zero residual and locates the statements involved.
func (in *interp) explain(R Poly) (detail, pos string) {
	var sb strings.Builder
	sb.WriteString("residual = " + R.format(in.atomName, 6))
	ids := R.atoms()
	var notes []string
	type cand struct {
		seq int
		pos string
	}
	var first *atom
	for _, id := range ids {
		a := in.atoms[id]
		switch a.kind {
		case "input", "abstract", "shadow":
			continue
		}
		n := fmt.Sprintf("%s = %s produced at %s", in.atomName(id), describeAtom(a), a.pos)
		if a.site != "" && a.site != a.pos {
			n += " (via " + a.site + ")"
		}
		if a.val != nil && !a.val.used {
			n += " and never consumed"
			if a.node != nil {
				for _, nx := range in.nodes[a.node.seq+1:] {
					if nx.kind != a.node.kind {
						continue
					}
					if _, isC := nx.cin.constant(); isC {
						n += fmt.Sprintf(" (the next %s, at %s, has a constant carry/borrow input)", nx.kind, nx.pos)
					}
					break
				}
			}
		}
		notes = append(notes, n)
		if first == nil {
			first = a
		}
	}
	if first != nil {
		pos = first.pos
		if first.site != "" {
			pos = first.site
		}
	}
	// products of inputs: name the Mul64 statements computing those monomials.
	seen := map[string]bool{}
	var mulNotes []string
	keys := make([]string, 0, len(R))
	for k := range R {
		keys = append(keys, k)
	}
	sort.Strings(keys)
	for _, k := range keys {
		if len(k) < 2 || len(mulNotes) >= 6 {
			continue
		}
		if len(k) == 2 {
			if kd := in.atoms[monoIDs(k)[0]].kind; kd != "q" && kd != "input" && kd != "abstract" {
				continue
			}
		}
		for _, n := range in.nodes {
			if n.kind != opMul {
				continue
			}
			if _, ok := in.mul(n.x.p, n.y.p)[k]; !ok {
				continue
			}
			where := n.pos
			if n.site != "" && n.site != n.pos {
				where = n.site + " (inlined " + shortPos(n.pos) + ")"
			}
			key := k + where
			if seen[key] {
				continue
			}
			seen[key] = true
			mono := Poly{k: big.NewRat(1, 1)}
			mulNotes = append(mulNotes, fmt.Sprintf("monomial %s is computed by bits.Mul64 at %s", strings.TrimPrefix(mono.format(in.atomName, 1), "(1)*"), where))
			if pos == "" {
				pos = n.site
			}
		}
	}
	// values overwritten before being read that carry a residual atom
	inRes := map[int]bool{}
	for _, id := range ids {
		inRes[id] = true
	}
	for _, ds := range in.dead {
		hit := false
		for _, id := range ds.v.p.atoms() {
			if inRes[id] && in.atoms[id].kind != "input" && in.atoms[id].kind != "abstract" {
				hit = true
			}
		}
		if hit {
			notes = append(notes, fmt.Sprintf("the value of %s produced at %s is overwritten at %s without ever being read", ds.name, where(ds.v), ds.at))
		}
	}
	if len(notes) > 0 {
		sb.WriteString("; " + strings.Join(notes, "; "))
	}
	if len(mulNotes) > 0 {
		sb.WriteString("; " + strings.Join(mulNotes, "; "))
	}
	return sb.String(), pos
}

func describeAtom(a *atom) string {
	switch a.kind {
	case "carry":
		return "carry of bits.Add64"
	case "borrow":
		return "borrow of bits.Sub64"
	case "mulhi":
		return "high word of bits.Mul64"
	case "q":
		return "low word of bits.Mul64 (high word discarded)"
	case "shrlo":
		return "bits shifted out by '>>'"
	case "and", "or", "xor":
		return "result of an unmodelled bitwise '" + a.kind + "'"
	}
	return a.kind
}

// flattenOr returns the leaves of a tree of bitwise ORs.
func flattenOr(v *Val) []*Val {
	if v.org != nil && v.org.op == "or" {
		return append(flattenOr(v.org.args[0]), flattenOr(v.org.args[1])...)
	}
	return []*Val{v}
}

func where(v *Val) string {
	if v.site != "" {
		return v.site
	}
	return v.pos
}

func hex(x *big.Int) string { return "0x" + x.Text(16) }
