package limbproof

import (
	"fmt"
	"go/ast"
	"go/token"
	"math/big"
	"strings"
)

// ---------------------------------------------------------------- types / zero values

var scalarTypes = map[string]*big.Int{
	"uint64": bigWm1, "uint": bigWm1, "int": bigWm1, "int64": bigWm1, "uintptr": bigWm1,
	"uint32": big.NewInt(1<<32 - 1), "uint16": big.NewInt(1<<16 - 1),
	"uint8": big.NewInt(255), "byte": big.NewInt(255),
}

// typeShape resolves a type expression to (array length, element max) or a
// scalar max; kind is "array", "scalar", "ptr" (with inner expr) or "opaque".
type shape struct {
	kind  string
	n     int
	max   *big.Int
	inner *shape
}

func (in *interp) shapeOf(fr *frame, e ast.Expr, depth int) *shape {
	if depth > 8 || e == nil {
		return &shape{kind: "opaque"}
	}
	switch t := e.(type) {
	case *ast.ParenExpr:
		return in.shapeOf(fr, t.X, depth+1)
	case *ast.StarExpr:
		return &shape{kind: "ptr", inner: in.shapeOf(fr, t.X, depth+1)}
	case *ast.ArrayType:
		if t.Len == nil {
			return &shape{kind: "opaque"}
		}
		lv, err := in.eval(fr, t.Len)
		if err != nil {
			return &shape{kind: "opaque"}
		}
		v, ok := lv.(*Val)
		if !ok {
			return &shape{kind: "opaque"}
		}
		c, ok := v.constant()
		if !ok || !c.IsInt64() || c.Int64() > 4096 {
			return &shape{kind: "opaque"}
		}
		el := in.shapeOf(fr, t.Elt, depth+1)
		if el.kind != "scalar" {
			return &shape{kind: "opaque"}
		}
		return &shape{kind: "array", n: int(c.Int64()), max: el.max}
	case *ast.Ident:
		if m, ok := scalarTypes[t.Name]; ok {
			return &shape{kind: "scalar", max: m}
		}
		if ti, ok := fr.pkg.types[t.Name]; ok {
			if t.Name == "uint1" {
				return &shape{kind: "scalar", max: big1}
			}
			return in.shapeOf(&frame{pkg: fr.pkg, file: ti.file}, ti.expr, depth+1)
		}
	case *ast.SelectorExpr:
		if id, ok := t.X.(*ast.Ident); ok {
			if path, ok := importPath(fr.file, id.Name); ok {
				if p, err := in.ld.resolveImport(fr.pkg, path); err == nil {
					if ti, ok := p.types[t.Sel.Name]; ok {
						return in.shapeOf(&frame{pkg: p, file: ti.file}, ti.expr, depth+1)
					}
				}
			}
		}
	}
	return &shape{kind: "opaque"}
}

func (in *interp) zeroOf(sh *shape, name string) value {
	switch sh.kind {
	case "scalar":
		return in.constInt(0)
	case "array":
		a := &arrayVal{name: name}
		for i := 0; i < sh.n; i++ {
			a.elems = append(a.elems, in.constInt(0))
		}
		return a
	}
	return &opaqueVal{name: name}
}

// inputOf creates symbolic inputs for a parameter of the given shape.
func (in *interp) inputOf(sh *shape, name string) value {
	switch sh.kind {
	case "scalar":
		return in.newAtom("input", name, big0, sh.max)
	case "array":
		a := &arrayVal{name: name}
		for i := 0; i < sh.n; i++ {
			v := in.newAtom("input", fmt.Sprintf("%s[%d]", name, i), big0, sh.max)
			v.org.k = i
			a.elems = append(a.elems, v)
		}
		return a
	case "ptr":
		inner := in.inputOf(sh.inner, name)
		if a, ok := inner.(*arrayVal); ok {
			return &ptrVal{arr: a}
		}
		if _, ok := inner.(*opaqueVal); ok {
			return inner
		}
		return &ptrVal{c: &cell{v: inner}}
	}
	return &opaqueVal{name: name}
}

// ---------------------------------------------------------------- expressions

func (in *interp) evalVal(fr *frame, e ast.Expr) (*Val, error) {
	v, err := in.eval(fr, e)
	if err != nil {
		return nil, err
	}
	if x, ok := v.(*Val); ok {
		return x, nil
	}
	return nil, in.unsupported(e, fmt.Sprintf("expected an integer value, got %T", v))
}

func (in *interp) pkgVar(fr *frame, p *pkgInfo, name string, at ast.Node) (value, bool, error) {
	vi, ok := p.vars[name]
	if !ok {
		return nil, false, nil
	}
	if v, ok := in.pkgVals[vi]; ok {
		return v, true, nil
	}
	if in.pkgBusy[vi] {
		return nil, true, in.unsupported(at, "initialisation cycle for "+name)
	}
	in.pkgBusy[vi] = true
	defer func() { in.pkgBusy[vi] = false }()
	pf := &frame{pkg: p, file: vi.file, vars: map[string]*cell{}}
	var v value
	var err error
	if vi.expr != nil {
		in.depth++
		saved := in.curPos
		in.curPos = in.ld.posOf(vi.expr)
		v, err = in.eval(pf, vi.expr)
		in.curPos = saved
		in.depth--
		if err != nil {
			return nil, true, err
		}
		if xv, ok := v.(*Val); ok {
			v = withKind(xv, declKind(vi.typ, xv.ikind, !vi.isConst))
		}
		in.pkgInits = append(in.pkgInits, fmt.Sprintf("%s.%s (initialiser at %s evaluated symbolically)", p.name, name, shortPos(in.ld.posOf(vi.expr))))
	} else {
		v = in.zeroOf(in.shapeOf(pf, vi.typ, 0), name)
	}
	// NOTE: package-level state is treated as immutable after initialisation
	// (property C20 of the framework checks that separately).
	in.pkgVals[vi] = v
	return v, true, nil
}

func (in *interp) eval(fr *frame, e ast.Expr) (value, error) {
	switch x := e.(type) {
	case *ast.BasicLit:
		if x.Kind == token.INT {
			c, ok := new(big.Int).SetString(strings.ReplaceAll(x.Value, "_", ""), 0)
			if !ok || c.Sign() < 0 || c.Cmp(bigWm1) > 0 {
				return nil, in.unsupported(e, "integer literal "+x.Value)
			}
			v := in.constVal(c)
			v.pos = in.ld.posOf(x)
			v.ikind = 1
			return v, nil
		}
		return &opaqueVal{name: x.Value}, nil
	case *ast.ParenExpr:
		return in.eval(fr, x.X)
	case *ast.Ident:
		if c := fr.lookup(x.Name); c != nil {
			if c.v == nil {
				return nil, in.unsupported(e, "use of uninitialised "+x.Name)
			}
			return c.v, nil
		}
		if v, ok, err := in.pkgVar(fr, fr.pkg, x.Name, e); ok {
			return v, err
		}
		return nil, in.unsupported(e, "unknown identifier "+x.Name)
	case *ast.FuncLit:
		return &closureVal{lit: x, env: fr}, nil
	case *ast.UnaryExpr:
		switch x.Op {
		case token.AND:
			return in.addrOf(fr, x.X)
		case token.XOR:
			v, err := in.evalVal(fr, x.X)
			if err != nil {
				return nil, err
			}
			return in.opNot(v), nil
		case token.ADD:
			return in.eval(fr, x.X)
		case token.SUB:
			// -u on uint64 is the low word of 0 - u (two's complement); the borrow of that subtraction is [u != 0]
			v, err := in.evalVal(fr, x.X)
			if err != nil {
				return nil, err
			}
			if c, ok := v.constant(); ok {
				if c.Sign() == 0 {
					return in.constInt(0), nil
				}
				return in.constVal(new(big.Int).Sub(bigW, c)), nil
			}
			t := in.opSub64(in.constInt(0), v, in.constInt(0), false, true)
			lo, _ := t[0].(*Val)
			if lo == nil {
				return nil, in.unsupported(e, "unary -")
			}
			lo.negOf = v
			if hi, ok := t[1].(*Val); ok {
				lo.negBorrow = hi
			}
			return lo, nil
		}
		return nil, in.unsupported(e, "unary "+x.Op.String())
	case *ast.BinaryExpr:
		a, err := in.evalVal(fr, x.X)
		if err != nil {
			return nil, err
		}
		b, err := in.evalVal(fr, x.Y)
		if err != nil {
			return nil, err
		}
		v, err := in.binary(x.Op, a, b)
		if err != nil {
			return nil, in.unsupported(e, err.Error())
		}
		return v, nil
	case *ast.StarExpr:
		v, err := in.eval(fr, x.X)
		if err != nil {
			return nil, err
		}
		if p, ok := v.(*ptrVal); ok {
			if p.arr != nil {
				return p.arr, nil
			}
			if p.c.v == nil {
				return nil, in.unsupported(e, "read through pointer to uninitialised variable")
			}
			return p.c.v, nil
		}
		return nil, in.unsupported(e, "dereference of non-pointer")
	case *ast.IndexExpr:
		arr, lo, _, err := in.container(fr, x.X)
		if err != nil {
			return nil, err
		}
		i, err := in.constIndex(fr, x.Index)
		if err != nil {
			return nil, err
		}
		if lo+i < 0 || lo+i >= len(arr.elems) {
			return nil, in.unsupported(e, "index out of range")
		}
		return arr.elems[lo+i], nil
	case *ast.SliceExpr:
		arr, lo, hi, err := in.container(fr, x.X)
		if err != nil {
			return nil, err
		}
		nlo, nhi := lo, hi
		if x.Low != nil {
			i, err := in.constIndex(fr, x.Low)
			if err != nil {
				return nil, err
			}
			nlo = lo + i
		}
		if x.High != nil {
			i, err := in.constIndex(fr, x.High)
			if err != nil {
				return nil, err
			}
			nhi = lo + i
		}
		if nlo < lo || nhi > hi || nlo > nhi {
			return nil, in.unsupported(e, "slice bounds out of range")
		}
		return &sliceVal{arr: arr, lo: nlo, hi: nhi}, nil
	case *ast.SelectorExpr:
		if id, ok := x.X.(*ast.Ident); ok && fr.lookup(id.Name) == nil {
			if path, ok := importPath(fr.file, id.Name); ok {
				p, err := in.ld.resolveImport(fr.pkg, path)
				if err != nil {
					return &opaqueVal{name: id.Name + "." + x.Sel.Name}, nil
				}
				if v, ok, err := in.pkgVar(fr, p, x.Sel.Name, e); ok {
					return v, err
				}
				return &opaqueVal{name: id.Name + "." + x.Sel.Name}, nil
			}
		}
		base, err := in.eval(fr, x.X)
		if err != nil {
			return nil, err
		}
		if o, ok := base.(*opaqueVal); ok {
			return &opaqueVal{name: o.name + "." + x.Sel.Name}, nil
		}
		return nil, in.unsupported(e, "field selection on a modelled value")
	case *ast.CompositeLit:
		at, ok := x.Type.(*ast.ArrayType)
		if !ok {
			return &opaqueVal{name: "composite"}, nil
		}
		sh := in.shapeOf(fr, at, 0)
		if sh.kind != "array" {
			return nil, in.unsupported(e, "composite literal type")
		}
		a := in.zeroOf(sh, "lit").(*arrayVal)
		if len(x.Elts) > sh.n {
			return nil, in.unsupported(e, "too many elements")
		}
		for i, el := range x.Elts {
			if _, kv := el.(*ast.KeyValueExpr); kv {
				return nil, in.unsupported(e, "keyed array literal")
			}
			v, err := in.evalVal(fr, el)
			if err != nil {
				return nil, err
			}
			use(v)
			a.elems[i] = v
		}
		return a, nil
	case *ast.CallExpr:
		return in.call(fr, x, nil)
	}
	return nil, in.unsupported(e, fmt.Sprintf("expression %T", e))
}

// declKind: the index-arithmetic class (Val.ikind) of a declared name: an explicit type decides (int: 2, anything else: a
// machine word); without one, a variable initialised by an untyped constant is an int and a constant stays untyped.
func declKind(typ ast.Expr, k int8, isVar bool) int8 {
	if typ != nil {
		if id, ok := typ.(*ast.Ident); ok && id.Name == "int" {
			return 2
		}
		return 0
	}
	if k == 1 && isVar {
		return 2
	}
	return k
}

func (in *interp) constIndex(fr *frame, e ast.Expr) (int, error) {
	v, err := in.evalVal(fr, e)
	if err != nil {
		return 0, err
	}
	c, ok := v.constant()
	if !ok || !c.IsInt64() {
		return 0, in.unsupported(e, "non-constant index")
	}
	return int(c.Int64()), nil
}

// container evaluates an indexable expression to (array, lo, hi).
func (in *interp) container(fr *frame, e ast.Expr) (*arrayVal, int, int, error) {
	v, err := in.eval(fr, e)
	if err != nil {
		return nil, 0, 0, err
	}
	switch c := v.(type) {
	case *arrayVal:
		return c, 0, len(c.elems), nil
	case *ptrVal:
		if c.arr != nil {
			return c.arr, 0, len(c.arr.elems), nil
		}
	case *sliceVal:
		return c.arr, c.lo, c.hi, nil
	}
	return nil, 0, 0, in.unsupported(e, fmt.Sprintf("indexing a %T", v))
}

func (in *interp) addrOf(fr *frame, e ast.Expr) (value, error) {
	switch x := e.(type) {
	case *ast.ParenExpr:
		return in.addrOf(fr, x.X)
	case *ast.Ident:
		c := fr.lookup(x.Name)
		if c == nil {
			// a package-level array (constant table): immutable after initialisation (see pkgVar)
			if v, found, err := in.pkgVar(fr, fr.pkg, x.Name, e); found {
				if err != nil {
					return nil, err
				}
				if a, ok := v.(*arrayVal); ok {
					return &ptrVal{arr: a}, nil
				}
			}
			return nil, in.unsupported(e, "address of non-local "+x.Name)
		}
		if a, ok := c.v.(*arrayVal); ok {
			return &ptrVal{arr: a}, nil
		}
		// scalars and unmodelled (e.g. not yet written) variables: a pointer
		// to the cell, so that the callee can fill it in.
		return &ptrVal{c: c}, nil
	case *ast.CompositeLit:
		v, err := in.eval(fr, e)
		if err != nil {
			return nil, err
		}
		if a, ok := v.(*arrayVal); ok {
			return &ptrVal{arr: a}, nil
		}
		return v, nil
	case *ast.SelectorExpr:
		v, err := in.eval(fr, e)
		if err != nil {
			return nil, err
		}
		if a, ok := v.(*arrayVal); ok {
			return &ptrVal{arr: a}, nil
		}
		return v, nil
	}
	return nil, in.unsupported(e, "address-of expression")
}

// ---------------------------------------------------------------- calls

func isTypeExpr(e ast.Expr) bool {
	switch t := e.(type) {
	case *ast.ParenExpr:
		return isTypeExpr(t.X)
	case *ast.StarExpr, *ast.ArrayType:
		return true
	}
	return false
}

func (in *interp) evalArgs(fr *frame, args []ast.Expr) ([]value, error) {
	out := make([]value, len(args))
	for i, a := range args {
		v, err := in.eval(fr, a)
		if err != nil {
			return nil, err
		}
		out[i] = v
	}
	return out, nil
}

func (in *interp) convert(fr *frame, ce *ast.CallExpr, max *big.Int) (value, error) {
	if len(ce.Args) != 1 {
		return nil, in.unsupported(ce, "conversion arity")
	}
	v, err := in.eval(fr, ce.Args[0])
	if err != nil {
		return nil, err
	}
	if x, ok := v.(*Val); ok && max != nil && x.hi.Cmp(max) > 0 {
		// a narrowing conversion to an n-bit unsigned type keeps the low n bits: x = 2^n * (x >> n) + r, the result is r
		// (the same decomposition the right shift introduces)
		if max.Cmp(big.NewInt(255)) == 0 && x.lo.Sign() >= 0 && x.hi.Cmp(bigWm1) <= 0 {
			// the low octet: of the word itself, or - for a word shifted right by whole octets - octet k of the shifted word
			if x.byteBase != nil {
				return in.bytesOf(x.byteBase)[x.byteIdx], nil
			}
			if _, isC := x.constant(); !isC {
				return in.bytesOf(x)[0], nil
			}
		}
		if n := max.BitLen(); x.lo.Sign() >= 0 && new(big.Int).Add(max, big1).Cmp(new(big.Int).Lsh(big1, uint(n))) == 0 && n < 64 {
			t, err := in.opShr(x, in.constInt(int64(n)))
			if err == nil && t.org != nil && t.org.op == "shr" && len(t.org.args) == 2 {
				return t.org.args[1], nil
			}
		}
		return nil, in.unsupported(ce, fmt.Sprintf("narrowing conversion of a value with range [%s,%s]", x.lo, x.hi))
	}
	if s, ok := v.(*sliceVal); ok && isTypeExpr(ce.Fun) {
		// (*[N]T)(slice): a view of the same storage is not modelled; copy-free
		// aliasing only matters for writers, which the subjects do not do.
		return &ptrVal{arr: &arrayVal{elems: s.arr.elems[s.lo:s.hi], name: s.arr.name}}, nil
	}
	return v, nil
}

func (in *interp) call(fr *frame, ce *ast.CallExpr, discardFlags []bool) (value, error) {
	dis := func(i int) bool { return i < len(discardFlags) && discardFlags[i] }
	if isTypeExpr(ce.Fun) {
		return in.convert(fr, ce, nil)
	}
	switch fn := ce.Fun.(type) {
	case *ast.ParenExpr:
		inner := *ce
		inner.Fun = fn.X
		return in.call(fr, &inner, discardFlags)
	case *ast.FuncLit:
		args, err := in.evalArgs(fr, ce.Args)
		if err != nil {
			return nil, err
		}
		return in.invoke(&closureVal{lit: fn, env: fr}, nil, nil, args, ce)
	case *ast.Ident:
		if c := fr.lookup(fn.Name); c != nil {
			cl, ok := c.v.(*closureVal)
			if !ok {
				return nil, in.unsupported(ce, "call of non-function value "+fn.Name)
			}
			args, err := in.evalArgs(fr, ce.Args)
			if err != nil {
				return nil, err
			}
			return in.invoke(cl, nil, nil, args, ce)
		}
		if max, ok := scalarTypes[fn.Name]; ok {
			v, err := in.convert(fr, ce, max)
			if x, isVal := v.(*Val); isVal && err == nil {
				if x.lo.Sign() < 0 {
					return nil, in.unsupported(ce, "conversion of a negative index value")
				}
				if fn.Name == "int" {
					return withKind(x, 2), nil
				}
				return withKind(x, 0), nil
			}
			return v, err
		}
		if fn.Name == "len" && len(ce.Args) == 1 {
			_, lo, hi, err := in.container(fr, ce.Args[0])
			if err != nil {
				return nil, err
			}
			return withKind(in.constInt(int64(hi-lo)), 2), nil
		}
		if fn.Name == "copy" && len(ce.Args) == 2 {
			// copy(dst, src) between arrays / slices of known length: element-wise
			d, dlo, dhi, err := in.container(fr, ce.Args[0])
			if err != nil {
				return nil, err
			}
			sv, slo, shi, err := in.container(fr, ce.Args[1])
			if err != nil {
				return nil, err
			}
			n := dhi - dlo
			if shi-slo < n {
				n = shi - slo
			}
			tmp := make([]*Val, n)
			copy(tmp, sv.elems[slo:slo+n])
			copy(d.elems[dlo:dlo+n], tmp)
			return in.constInt(int64(n)), nil
		}
		if _, ok := fr.pkg.types[fn.Name]; ok {
			return in.convert(fr, ce, nil)
		}
		if fi, ok := fr.pkg.funcs[fn.Name]; ok {
			return in.callNamed(fr, fi, fn.Name, ce)
		}
		return nil, in.unsupported(ce, "call of unknown function "+fn.Name)
	case *ast.SelectorExpr:
		// package-qualified?
		if id, ok := fn.X.(*ast.Ident); ok && fr.lookup(id.Name) == nil {
			if path, ok := importPath(fr.file, id.Name); ok {
				if path == "math/bits" {
					return in.callBits(fr, fn.Sel.Name, ce, dis)
				}
				p, err := in.ld.resolveImport(fr.pkg, path)
				if err != nil {
					return nil, in.unsupported(ce, err.Error())
				}
				if _, ok := p.types[fn.Sel.Name]; ok {
					return in.convert(fr, ce, nil)
				}
				if fi, ok := p.funcs[fn.Sel.Name]; ok {
					return in.callNamed(fr, fi, fn.Sel.Name, ce)
				}
				return nil, in.unsupported(ce, "unknown function "+id.Name+"."+fn.Sel.Name)
			}
		}
		// binary.BigEndian.X
		if inner, ok := fn.X.(*ast.SelectorExpr); ok {
			if id, ok := inner.X.(*ast.Ident); ok {
				if path, _ := importPath(fr.file, id.Name); path == "encoding/binary" && inner.Sel.Name == "BigEndian" {
					return in.callBigEndian(fr, fn.Sel.Name, ce)
				}
			}
		}
		// method call
		if in.abstract[fn.Sel.Name] {
			recv, err := in.eval(fr, fn.X)
			if err != nil {
				return nil, err
			}
			args, err := in.evalArgs(fr, ce.Args)
			if err != nil {
				return nil, err
			}
			for _, a := range args {
				markValueUsed(a)
			}
			in.absCalls = append(in.absCalls, absCall{name: fn.Sel.Name, args: append([]value{recv}, args...), pos: in.ld.posOf(ce)})
			return &opaqueVal{name: fn.Sel.Name + "(...)"}, nil
		}
		// a method of the package under analysis, found by name (this interpreter has no type information: the method must
		// be the only one of that name in the package); it is inlined with the evaluated receiver
		var mfi *funcInfo
		nm := 0
		for key, fi := range fr.pkg.funcs {
			if strings.HasSuffix(key, "."+fn.Sel.Name) && fi.decl.Recv != nil {
				mfi = fi
				nm++
			}
		}
		if nm == 1 {
			recv, err := in.eval(fr, fn.X)
			if err != nil {
				return nil, err
			}
			args, err := in.evalArgs(fr, ce.Args)
			if err != nil {
				return nil, err
			}
			return in.invoke(nil, mfi, recv, args, ce)
		}
		return nil, in.unsupported(ce, "method call "+fn.Sel.Name)
	}
	return nil, in.unsupported(ce, fmt.Sprintf("call through %T", ce.Fun))
}

func markValueUsed(v value) {
	switch x := v.(type) {
	case *Val:
		use(x)
	case *arrayVal:
		use(x.elems...)
	case *ptrVal:
		if x.arr != nil {
			use(x.arr.elems...)
		} else if x.c != nil {
			markValueUsed(x.c.v)
		}
	case *sliceVal:
		use(x.arr.elems[x.lo:x.hi]...)
	case tupleVal:
		for _, e := range x {
			markValueUsed(e)
		}
	}
}

func (in *interp) callNamed(fr *frame, fi *funcInfo, name string, ce *ast.CallExpr) (value, error) {
	args, err := in.evalArgs(fr, ce.Args)
	if err != nil {
		return nil, err
	}
	if in.abstract[name] {
		// abstracted call f(out, in...): the first pointer argument is havocked
		// with fresh symbols; the caller states what is known about them.
		ac := absCall{name: name, args: args, pos: in.ld.posOf(ce)}
		if len(args) > 0 {
			if p, ok := args[0].(*ptrVal); ok {
				n := 4
				label := exprString(ce.Args[0])
				if p.arr != nil {
					n = len(p.arr.elems)
				}
				src := ""
				if len(ce.Args) > 1 {
					src = exprString(ce.Args[1])
				}
				fresh := &arrayVal{name: label}
				for i := 0; i < n; i++ {
					v := in.newAtom("abstract", fmt.Sprintf("%s(%s)[%d]", name, strings.TrimPrefix(src, "&"), i), big0, bigWm1)
					v.org.k = i
					fresh.elems = append(fresh.elems, v)
				}
				if p.arr != nil {
					copy(p.arr.elems, fresh.elems)
				} else {
					p.c.v = fresh
				}
				ac.out = fresh.elems
			}
		}
		for _, a := range args[min(1, len(args)):] {
			markValueUsed(a)
		}
		in.absCalls = append(in.absCalls, ac)
		return &opaqueVal{name: name + "(...)"}, nil
	}
	return in.invoke(nil, fi, nil, args, ce)
}

func exprString(e ast.Expr) string {
	switch x := e.(type) {
	case *ast.Ident:
		return x.Name
	case *ast.SelectorExpr:
		return exprString(x.X) + "." + x.Sel.Name
	case *ast.UnaryExpr:
		return x.Op.String() + exprString(x.X)
	case *ast.ParenExpr:
		return exprString(x.X)
	case *ast.StarExpr:
		return "*" + exprString(x.X)
	case *ast.CallExpr:
		if len(x.Args) == 1 {
			return exprString(x.Args[0])
		}
	}
	return "?"
}

// invoke inlines a closure or a declared function.
func (in *interp) invoke(cl *closureVal, fi *funcInfo, recv value, args []value, at ast.Node) (value, error) {
	var ft *ast.FuncType
	var body *ast.BlockStmt
	nf := &frame{vars: map[string]*cell{}}
	if cl != nil {
		ft, body = cl.lit.Type, cl.lit.Body
		nf.parent, nf.pkg, nf.file = cl.env, cl.env.pkg, cl.env.file
	} else {
		ft, body = fi.decl.Type, fi.decl.Body
		nf.pkg, nf.file = fi.pkg, fi.file
		if fi.decl.Recv != nil && len(fi.decl.Recv.List) == 1 && len(fi.decl.Recv.List[0].Names) == 1 {
			nf.vars[fi.decl.Recv.List[0].Names[0].Name] = &cell{v: recv}
		}
	}
	if body == nil {
		return nil, in.unsupported(at, "call of a function without a Go body")
	}
	if in.depth > 12 {
		return nil, in.unsupported(at, "inlining depth")
	}
	i := 0
	for _, f := range ft.Params.List {
		sh := in.shapeOf(nf, f.Type, 0)
		names := f.Names
		if len(names) == 0 {
			i++
			continue
		}
		for _, nm := range names {
			if i >= len(args) {
				return nil, in.unsupported(at, "argument count")
			}
			a := args[i]
			i++
			if arr, ok := a.(*arrayVal); ok {
				a = arr.clone()
			}
			if v, ok := a.(*Val); ok {
				if sh.kind == "scalar" && v.hi.Cmp(sh.max) > 0 {
					in.addIssue("uint1-arg", fmt.Sprintf("argument %s has range [%s,%s] but the parameter type requires <= %s", nm.Name, v.lo, v.hi, sh.max), v)
				}
			}
			nf.vars[nm.Name] = &cell{v: a}
		}
	}
	if i != len(args) {
		return nil, in.unsupported(at, "argument count")
	}
	in.depth++
	savedPos := in.curPos
	ret, _, err := in.execBlock(nf, body.List)
	in.curPos = savedPos
	in.depth--
	if err != nil {
		return nil, err
	}
	switch len(ret) {
	case 0:
		return nil, nil
	case 1:
		return ret[0], nil
	}
	return tupleVal(ret), nil
}

func (in *interp) callBits(fr *frame, name string, ce *ast.CallExpr, dis func(int) bool) (value, error) {
	var vs []*Val
	for _, a := range ce.Args {
		v, err := in.evalVal(fr, a)
		if err != nil {
			return nil, err
		}
		vs = append(vs, v)
	}
	switch {
	case name == "Add64" && len(vs) == 3:
		return in.opAdd64(vs[0], vs[1], vs[2], dis(0), dis(1)), nil
	case name == "Sub64" && len(vs) == 3:
		return in.opSub64(vs[0], vs[1], vs[2], dis(0), dis(1)), nil
	case name == "Mul64" && len(vs) == 2:
		return in.opMul64(vs[0], vs[1], dis(0), dis(1)), nil
	}
	return nil, in.unsupported(ce, "math/bits."+name)
}

var big256 = big.NewInt(256)

func (in *interp) callBigEndian(fr *frame, name string, ce *ast.CallExpr) (value, error) {
	switch {
	case name == "Uint64" && len(ce.Args) == 1:
		arr, lo, hi, err := in.container(fr, ce.Args[0])
		if err != nil {
			return nil, err
		}
		if hi-lo < 8 {
			return nil, in.unsupported(ce, "BigEndian.Uint64 of a slice shorter than 8")
		}
		p := pZero()
		var args []*Val
		for j := 0; j < 8; j++ {
			b := arr.elems[lo+j]
			if b.hi.Cmp(big.NewInt(255)) > 0 {
				return nil, in.unsupported(ce, "BigEndian.Uint64 of non-byte elements")
			}
			use(b)
			args = append(args, b)
			p = pAdd(p, pScale(b.p, new(big.Int).Exp(big256, big.NewInt(int64(7-j)), nil)))
		}
		return in.derived(p, big0, bigWm1, &origin{op: "be64", args: args}), nil
	case name == "PutUint64" && len(ce.Args) == 2:
		arr, lo, hi, err := in.container(fr, ce.Args[0])
		if err != nil {
			return nil, err
		}
		v, err := in.evalVal(fr, ce.Args[1])
		if err != nil {
			return nil, err
		}
		if hi-lo < 8 {
			return nil, in.unsupported(ce, "BigEndian.PutUint64 into a slice shorter than 8")
		}
		use(v)
		// v = sum b_j 256^(7-j), b_j in [0,255]: b_0..b_6 fresh, b_7 determined.
		rest := v.p
		for j := 0; j < 7; j++ {
			b := in.newAtom("byte", fmt.Sprintf("byte%d(%s)", j, shortPos(in.curPos)), big0, big.NewInt(255))
			b.org = &origin{op: "byte", args: []*Val{v}, k: j}
			arr.elems[lo+j] = b
			rest = pSub(rest, pScale(b.p, new(big.Int).Exp(big256, big.NewInt(int64(7-j)), nil)))
		}
		arr.elems[lo+7] = in.derived(rest, big0, big.NewInt(255), &origin{op: "byte", args: []*Val{v}, k: 7})
		return nil, nil
	}
	return nil, in.unsupported(ce, "binary.BigEndian."+name)
}

// ---------------------------------------------------------------- statements

func (in *interp) setPos(n ast.Node) {
	in.curPos = in.ld.posOf(n)
	if in.depth == 0 {
		in.site = in.curPos
	}
}

func (in *interp) execBlock(fr *frame, list []ast.Stmt) ([]value, bool, error) {
	for _, s := range list {
		ret, done, err := in.exec(fr, s)
		if err != nil || done {
			return ret, done, err
		}
	}
	return nil, false, nil
}

func (in *interp) nameVal(v value, name string) {
	if x, ok := v.(*Val); ok {
		if x.name == "" {
			x.name = name
		}
		if x.atom != nil && x.atom.name == "" {
			x.atom.name = name
		}
	}
}

func (in *interp) assign(fr *frame, lhs ast.Expr, v value, define bool) error {
	if a, ok := v.(*arrayVal); ok {
		v = a.clone()
	}
	switch l := lhs.(type) {
	case *ast.ParenExpr:
		return in.assign(fr, l.X, v, define)
	case *ast.Ident:
		if l.Name == "_" {
			if x, ok := v.(*Val); ok {
				in.discards = append(in.discards, discard{v: x, pos: in.curPos, site: in.site, depth: in.depth})
			}
			return nil
		}
		in.nameVal(v, l.Name)
		if define {
			// x := <untyped integer constant> declares a Go int
			if x, ok := v.(*Val); ok && x.ikind == 1 {
				v = withKind(x, 2)
			}
			if c, ok := fr.vars[l.Name]; ok {
				c.v = v
			} else {
				fr.vars[l.Name] = &cell{v: v}
			}
			return nil
		}
		c := fr.lookup(l.Name)
		if c == nil {
			return in.unsupported(lhs, "assignment to non-local "+l.Name+" (package-level state is not modelled as mutable)")
		}
		if old, ok := c.v.(*Val); ok && !old.used && old != v {
			if _, isC := old.constant(); !isC {
				in.dead = append(in.dead, deadStore{v: old, at: in.curPos, site: in.site, name: l.Name})
			}
		}
		c.v = v
		return nil
	case *ast.IndexExpr:
		arr, lo, hi, err := in.container(fr, l.X)
		if err != nil {
			return err
		}
		i, err := in.constIndex(fr, l.Index)
		if err != nil {
			return err
		}
		x, ok := v.(*Val)
		if !ok || lo+i >= hi || i < 0 {
			return in.unsupported(lhs, "indexed assignment")
		}
		fresh := !x.used
		use(x)
		x.onlyStored = fresh
		if x.name == "" {
			in.nameVal(x, fmt.Sprintf("%s[%d]", exprString(l.X), i))
		}
		arr.elems[lo+i] = x
		return nil
	case *ast.StarExpr:
		pv, err := in.eval(fr, l.X)
		if err != nil {
			return err
		}
		p, ok := pv.(*ptrVal)
		if !ok || p.c == nil {
			return in.unsupported(lhs, "store through pointer")
		}
		markValueUsed(v)
		p.c.v = v
		return nil
	}
	return in.unsupported(lhs, fmt.Sprintf("assignment target %T", lhs))
}

var assignOps = map[token.Token]token.Token{
	token.ADD_ASSIGN: token.ADD, token.SUB_ASSIGN: token.SUB, token.MUL_ASSIGN: token.MUL,
	token.AND_ASSIGN: token.AND, token.OR_ASSIGN: token.OR, token.XOR_ASSIGN: token.XOR,
	token.SHR_ASSIGN: token.SHR, token.SHL_ASSIGN: token.SHL,
}

func (in *interp) exec(fr *frame, s ast.Stmt) ([]value, bool, error) {
	in.setPos(s)
	switch st := s.(type) {
	case *ast.EmptyStmt:
		return nil, false, nil
	case *ast.BlockStmt:
		return in.execBlock(&frame{pkg: fr.pkg, file: fr.file, vars: map[string]*cell{}, parent: fr}, st.List)
	case *ast.DeclStmt:
		gd, ok := st.Decl.(*ast.GenDecl)
		if !ok || (gd.Tok != token.VAR && gd.Tok != token.CONST) {
			return nil, false, in.unsupported(s, "declaration")
		}
		for _, sp := range gd.Specs {
			vs := sp.(*ast.ValueSpec)
			in.setPos(vs)
			if len(vs.Values) != 0 && len(vs.Values) != len(vs.Names) {
				return nil, false, in.unsupported(s, "multi-value var declaration")
			}
			for i, nm := range vs.Names {
				var v value
				if len(vs.Values) != 0 {
					x, err := in.eval(fr, vs.Values[i])
					if err != nil {
						return nil, false, err
					}
					v = x
					if xv, ok := x.(*Val); ok {
						v = withKind(xv, declKind(vs.Type, xv.ikind, gd.Tok == token.VAR))
					}
				} else {
					v = in.zeroOf(in.shapeOf(fr, vs.Type, 0), nm.Name)
				}
				if nm.Name != "_" {
					fr.vars[nm.Name] = &cell{v: v}
				}
			}
		}
		return nil, false, nil
	case *ast.AssignStmt:
		if op, ok := assignOps[st.Tok]; ok {
			if len(st.Lhs) != 1 || len(st.Rhs) != 1 {
				return nil, false, in.unsupported(s, "compound assignment")
			}
			a, err := in.evalVal(fr, st.Lhs[0])
			if err != nil {
				return nil, false, err
			}
			b, err := in.evalVal(fr, st.Rhs[0])
			if err != nil {
				return nil, false, err
			}
			v, err := in.binary(op, a, b)
			if err != nil {
				return nil, false, in.unsupported(s, err.Error())
			}
			return nil, false, in.assign(fr, st.Lhs[0], v, false)
		}
		if st.Tok != token.ASSIGN && st.Tok != token.DEFINE {
			return nil, false, in.unsupported(s, "assignment operator "+st.Tok.String())
		}
		define := st.Tok == token.DEFINE
		if len(st.Rhs) == 1 && len(st.Lhs) > 1 {
			ce, ok := st.Rhs[0].(*ast.CallExpr)
			if !ok {
				return nil, false, in.unsupported(s, "tuple assignment from a non-call")
			}
			flags := make([]bool, len(st.Lhs))
			for i, l := range st.Lhs {
				if id, ok := l.(*ast.Ident); ok && id.Name == "_" {
					flags[i] = true
				}
			}
			v, err := in.call(fr, ce, flags)
			if err != nil {
				return nil, false, err
			}
			in.setPos(s)
			tv, ok := v.(tupleVal)
			if !ok || len(tv) != len(st.Lhs) {
				return nil, false, in.unsupported(s, "tuple arity")
			}
			for i, l := range st.Lhs {
				if err := in.assign(fr, l, tv[i], define); err != nil {
					return nil, false, err
				}
			}
			return nil, false, nil
		}
		if len(st.Lhs) != len(st.Rhs) {
			return nil, false, in.unsupported(s, "assignment arity")
		}
		vals := make([]value, len(st.Rhs))
		for i, r := range st.Rhs {
			v, err := in.eval(fr, r)
			if err != nil {
				return nil, false, err
			}
			vals[i] = v
		}
		in.setPos(s)
		for i, l := range st.Lhs {
			if err := in.assign(fr, l, vals[i], define); err != nil {
				return nil, false, err
			}
		}
		return nil, false, nil
	case *ast.ExprStmt:
		ce, ok := st.X.(*ast.CallExpr)
		if !ok {
			return nil, false, in.unsupported(s, "expression statement")
		}
		_, err := in.call(fr, ce, nil)
		return nil, false, err
	case *ast.IncDecStmt:
		a, err := in.evalVal(fr, st.X)
		if err != nil {
			return nil, false, err
		}
		op := token.ADD
		if st.Tok == token.DEC {
			op = token.SUB
		}
		v, err := in.binary(op, a, withKind(in.constInt(1), 1))
		if err != nil {
			return nil, false, in.unsupported(s, err.Error())
		}
		return nil, false, in.assign(fr, st.X, v, false)
	case *ast.ReturnStmt:
		var out []value
		for _, r := range st.Results {
			v, err := in.eval(fr, r)
			if err != nil {
				return nil, false, err
			}
			if tv, ok := v.(tupleVal); ok && len(st.Results) == 1 {
				out = append(out, tv...)
				continue
			}
			if a, ok := v.(*arrayVal); ok {
				v = a.clone()
			}
			if in.depth == 0 {
				markValueUsed(v) // returning from an inlined callee is not a use
			}
			out = append(out, v)
		}
		return out, true, nil
	case *ast.ForStmt:
		lf := &frame{pkg: fr.pkg, file: fr.file, vars: map[string]*cell{}, parent: fr}
		if st.Init != nil {
			if _, _, err := in.exec(lf, st.Init); err != nil {
				return nil, false, err
			}
		}
		for iter := 0; ; iter++ {
			if iter > 256 {
				return nil, false, in.unsupported(s, "loop bound above 256")
			}
			if st.Cond == nil {
				return nil, false, in.unsupported(s, "loop without condition")
			}
			ok, err := in.constCond(lf, st.Cond)
			if err != nil {
				return nil, false, err
			}
			if !ok {
				break
			}
			ret, done, err := in.execBlock(&frame{pkg: fr.pkg, file: fr.file, vars: map[string]*cell{}, parent: lf}, st.Body.List)
			if err != nil || done {
				return ret, done, err
			}
			if st.Post != nil {
				if _, _, err := in.exec(lf, st.Post); err != nil {
					return nil, false, err
				}
			}
		}
		return nil, false, nil
	case *ast.RangeStmt:
		// for i[, v] := range <array | *array | slice of known length | integer constant>: unrolled
		n := -1
		var arr *arrayVal
		lo := 0
		if v, err := in.eval(fr, st.X); err == nil {
			if x, ok := v.(*Val); ok {
				if c, isC := x.constant(); isC && c.IsInt64() {
					n = int(c.Int64())
				}
			}
		}
		if n < 0 {
			a, l, h, err := in.container(fr, st.X)
			if err != nil {
				return nil, false, err
			}
			arr, lo, n = a, l, h-l
		}
		if n > 256 {
			return nil, false, in.unsupported(s, "loop bound above 256")
		}
		if st.Tok != token.DEFINE && (st.Key != nil || st.Value != nil) {
			return nil, false, in.unsupported(s, "range loop assigning to existing variables")
		}
		for i := 0; i < n; i++ {
			bf := &frame{pkg: fr.pkg, file: fr.file, vars: map[string]*cell{}, parent: fr}
			if id, ok := st.Key.(*ast.Ident); ok && id.Name != "_" {
				bf.vars[id.Name] = &cell{v: in.constVal(big.NewInt(int64(i)))}
			}
			if id, ok := st.Value.(*ast.Ident); ok && id.Name != "_" {
				if arr == nil {
					return nil, false, in.unsupported(s, "range value over an integer")
				}
				bf.vars[id.Name] = &cell{v: arr.elems[lo+i]}
			}
			ret, done, err := in.execBlock(bf, st.Body.List)
			if err != nil || done {
				return ret, done, err
			}
		}
		return nil, false, nil
	}
	return nil, false, in.unsupported(s, fmt.Sprintf("statement %T (only straight-line code and constant-bound loops are modelled)", s))
}

// constCond evaluates a loop condition whose operands are constants.
func (in *interp) constCond(fr *frame, e ast.Expr) (bool, error) {
	be, ok := e.(*ast.BinaryExpr)
	if !ok {
		return false, in.unsupported(e, "loop condition")
	}
	a, err := in.evalVal(fr, be.X)
	if err != nil {
		return false, err
	}
	b, err := in.evalVal(fr, be.Y)
	if err != nil {
		return false, err
	}
	ca, ok1 := a.constant()
	cb, ok2 := b.constant()
	if !ok1 || !ok2 {
		return false, in.unsupported(e, "loop condition is not a compile-time constant after unrolling")
	}
	c := ca.Cmp(cb)
	switch be.Op {
	case token.LSS:
		return c < 0, nil
	case token.LEQ:
		return c <= 0, nil
	case token.GTR:
		return c > 0, nil
	case token.GEQ:
		return c >= 0, nil
	case token.NEQ:
		return c != 0, nil
	case token.EQL:
		return c == 0, nil
	}
	return false, in.unsupported(e, "loop condition operator")
}

// ---------------------------------------------------------------- running a top-level function

type run struct {
	in     *interp
	fi     *funcInfo
	params map[string]value
	inputs map[string][]*Val // snapshot of array parameters before execution
	order  []string
	ret    []value
	err    error
}

// runFunc symbolically executes fi with fresh symbolic inputs.
func runFunc(ld *loader, fi *funcInfo, abstract ...string) *run {
	in := newInterp(ld)
	for _, a := range abstract {
		in.abstract[a] = true
	}
	r := &run{in: in, fi: fi, params: map[string]value{}, inputs: map[string][]*Val{}}
	fr := &frame{pkg: fi.pkg, file: fi.file, vars: map[string]*cell{}}
	in.curPos = ld.posOf(fi.decl)
	in.site = in.curPos
	if fi.decl.Recv != nil {
		for _, f := range fi.decl.Recv.List {
			for _, nm := range f.Names {
				v := &opaqueVal{name: nm.Name}
				fr.vars[nm.Name] = &cell{v: v}
			}
		}
	}
	for _, f := range fi.decl.Type.Params.List {
		sh := in.shapeOf(fr, f.Type, 0)
		for _, nm := range f.Names {
			v := in.inputOf(sh, nm.Name)
			fr.vars[nm.Name] = &cell{v: v}
			r.params[nm.Name] = v
			r.order = append(r.order, nm.Name)
			switch a := v.(type) {
			case *ptrVal:
				if a.arr != nil {
					r.inputs[nm.Name] = append([]*Val(nil), a.arr.elems...)
				}
			case *arrayVal:
				r.inputs[nm.Name] = append([]*Val(nil), a.elems...)
			}
		}
	}
	if fi.decl.Body == nil {
		r.err = &unsupportedErr{pos: in.curPos, what: "function has no Go body"}
		return r
	}
	ret, _, err := in.execBlock(fr, fi.decl.Body.List)
	r.ret, r.err = ret, err
	return r
}

// inputArray returns the initial (symbolic input) limbs of array parameter i.
func (r *run) inputArray(i int) []*Val {
	if i >= len(r.order) {
		return nil
	}
	return r.inputs[r.order[i]]
}

// arrayParam returns the final contents of array parameter i.
func (r *run) arrayParam(i int) []*Val {
	if i >= len(r.order) {
		return nil
	}
	switch v := r.params[r.order[i]].(type) {
	case *ptrVal:
		if v.arr != nil {
			return v.arr.elems
		}
	case *arrayVal:
		return v.elems
	}
	return nil
}

func (r *run) scalarParam(i int) *Val {
	if i >= len(r.order) {
		return nil
	}
	switch v := r.params[r.order[i]].(type) {
	case *Val:
		return v
	case *ptrVal:
		if v.c != nil {
			if x, ok := v.c.v.(*Val); ok {
				return x
			}
		}
	}
	return nil
}
