package limbproof

import (
	"fmt"
	"go/ast"
	"go/token"
	"math/big"
)

// ---------------------------------------------------------------- values

type value interface{}

// Val is a 64-bit (or byte / small integer) value: its exact integer value as
// a polynomial over atoms, and a sound interval.
type Val struct {
	p          Poly
	lo, hi     *big.Int
	org        *origin
	atom       *atom // non-nil iff the value is exactly one atom
	maskGate   Poly  // non-nil iff value == gate*(W-1) with gate in {0,1}
	pos        string
	site       string
	name       string
	used       bool
	onlyStored bool // stored into a local array element and not read or used since
	negOf      *Val // this value is -u (low word of 0 - u) for that u
	negBorrow  *Val // ... and this is the borrow of that subtraction: [u != 0]
	assumed    bool // exactness rests on an unproven side-condition (recorded as issue)
	shadow     int  // shadow atom id used by the relational bound prover (0 = none)
	ikind      int8 // index arithmetic: 1 = untyped integer literal, 2 = Go `int` (len, a := of a literal, int(...)); 0 = a machine word
	byteBase   *Val // this value is byteBase >> (8*byteIdx) (octet decomposition of a word, see bytesOf)
	byteIdx    int
}

type origin struct {
	op   string // const input addlo addhi sublo subhi mullo mulhi plus not gated select or xor and shr be64 byte abstract
	node *opNode
	args []*Val
	gate Poly
	k    int
}

type opKind int

const (
	opAdd opKind = iota
	opSub
	opMul
)

func (k opKind) String() string { return [...]string{"bits.Add64", "bits.Sub64", "bits.Mul64"}[k] }

// opNode is one math/bits operation: low + W*high = x + y + cin (Add64),
// low - W*high = x - y - cin (Sub64), high*W + low = x*y (Mul64).
type opNode struct {
	kind          opKind
	x, y, cin     *Val
	low, high     *Val
	lowDiscarded  bool
	highDiscarded bool
	lemma         bool   // discarded sum word proven 0 by the Montgomery lemma
	lemmaDetail   string // why / why not
	pos, site     string
	seq           int
}

type atom struct {
	id     int
	name   string
	kind   string // input carry borrow mulhi q shrlo and or xor byte abstract shadow
	pos    string
	site   string
	lo, hi *big.Int
	node   *opNode
	nzOf   *Val // borrow of Sub64(0,u,0): atom == [u != 0]
	val    *Val
}

type cell struct{ v value }

type arrayVal struct {
	elems []*Val
	name  string
}

func (a *arrayVal) clone() *arrayVal {
	return &arrayVal{elems: append([]*Val(nil), a.elems...), name: a.name}
}

type ptrVal struct {
	c   *cell
	arr *arrayVal
}

type sliceVal struct {
	arr    *arrayVal
	lo, hi int
}

type opaqueVal struct{ name string }

type closureVal struct {
	lit  *ast.FuncLit
	env  *frame
	name string
}

type tupleVal []value

type frame struct {
	pkg    *pkgInfo
	file   *ast.File
	vars   map[string]*cell
	parent *frame
}

func (fr *frame) lookup(n string) *cell {
	for f := fr; f != nil; f = f.parent {
		if c, ok := f.vars[n]; ok {
			return c
		}
	}
	return nil
}

// ---------------------------------------------------------------- interpreter

type issue struct {
	kind   string // nowrap carry-in discarded-sum uint1-arg wrapping-op unsupported
	pos    string
	site   string
	detail string
	val    *Val
	done   bool // discharged later by a checker-specific argument
}

type plusSite struct {
	pos, site string
	method    string // interval relational unproven
	val, x, y *Val
}

type discard struct {
	v         *Val
	pos, site string
	depth     int
}

// deadStore: a non-constant value that was overwritten without being read.
type deadStore struct {
	v        *Val
	at, site string
	name     string
}

type absCall struct {
	name string
	out  []*Val
	args []value
	pos  string
}

type unsupportedErr struct{ pos, what string }

func (e *unsupportedErr) Error() string { return e.pos + ": unsupported construct: " + e.what }

type interp struct {
	ld       *loader
	atoms    []*atom
	nodes    []*opNode
	issues   []*issue
	plus     []plusSite
	discards []discard
	dead     []deadStore
	absCalls []absCall
	abstract map[string]bool
	notes    []string
	depth    int
	site     string
	curPos   string
	pkgInits []string
	pkgVals  map[*varInfo]value
	pkgBusy  map[*varInfo]bool
	byteDec  map[*Val][]*Val // octet decomposition of a word (bytesOf)
}

func newInterp(ld *loader) *interp {
	in := &interp{ld: ld, abstract: map[string]bool{}, pkgVals: map[*varInfo]value{}, pkgBusy: map[*varInfo]bool{}}
	in.atoms = append(in.atoms, &atom{id: 0, name: "<none>"}) // id 0 reserved
	return in
}

func (in *interp) isBool(id int) bool {
	a := in.atoms[id]
	return a.lo.Sign() >= 0 && a.hi.Cmp(big1) <= 0
}

func (in *interp) atomName(id int) string {
	a := in.atoms[id]
	if a.name != "" {
		return a.name
	}
	return fmt.Sprintf("%s@%s", a.kind, shortPos(a.pos))
}

func (in *interp) bounds(id int) (*big.Int, *big.Int) { return in.atoms[id].lo, in.atoms[id].hi }

func (in *interp) mul(a, b Poly) Poly { return pMul(a, b, in.isBool) }

func (in *interp) unsupported(n ast.Node, what string) error {
	return &unsupportedErr{pos: in.ld.posOf(n), what: what}
}

func (in *interp) addIssue(kind, detail string, v *Val) *issue {
	is := &issue{kind: kind, pos: in.curPos, site: in.site, detail: detail, val: v}
	in.issues = append(in.issues, is)
	return is
}

func (in *interp) constVal(c *big.Int) *Val {
	c = new(big.Int).Set(c)
	return &Val{p: pInt(c), lo: c, hi: c, org: &origin{op: "const"}, pos: in.curPos, site: in.site}
}

func (in *interp) constInt(c int64) *Val { return in.constVal(big.NewInt(c)) }

func (in *interp) newAtom(kind, name string, lo, hi *big.Int) *Val {
	a := &atom{id: len(in.atoms), name: name, kind: kind, pos: in.curPos, site: in.site, lo: lo, hi: hi}
	in.atoms = append(in.atoms, a)
	v := &Val{p: pVar(a.id), lo: lo, hi: hi, org: &origin{op: kind}, atom: a, pos: in.curPos, site: in.site, name: name}
	a.val = v
	return v
}

func (in *interp) derived(p Poly, lo, hi *big.Int, org *origin) *Val {
	if c, ok := p.constant(); ok {
		lo, hi = c, c
	}
	return &Val{p: p, lo: lo, hi: hi, org: org, pos: in.curPos, site: in.site}
}

func (v *Val) constant() (*big.Int, bool) { return v.p.constant() }

func (v *Val) isConst(c int64) bool {
	k, ok := v.p.constant()
	return ok && k.Cmp(big.NewInt(c)) == 0
}

func (v *Val) isBool() bool { return v.lo.Sign() >= 0 && v.hi.Cmp(big1) <= 0 }

func use(vs ...*Val) {
	for _, v := range vs {
		if v != nil {
			v.used = true
			v.onlyStored = false
		}
	}
}

func shortPos(p string) string {
	for i := len(p) - 1; i >= 0; i-- {
		if p[i] == '/' {
			return p[i+1:]
		}
	}
	return p
}

func minBig(a, b *big.Int) *big.Int {
	if a.Cmp(b) < 0 {
		return a
	}
	return b
}

func maxBig(a, b *big.Int) *big.Int {
	if a.Cmp(b) > 0 {
		return a
	}
	return b
}

// ---------------------------------------------------------------- math/bits

func (in *interp) newNode(kind opKind, x, y, cin *Val, discardLow, discardHigh bool) *opNode {
	n := &opNode{kind: kind, x: x, y: y, cin: cin, lowDiscarded: discardLow, highDiscarded: discardHigh,
		pos: in.curPos, site: in.site, seq: len(in.nodes)}
	in.nodes = append(in.nodes, n)
	use(x, y, cin)
	return n
}

func (in *interp) checkCarryIn(k opKind, c *Val) {
	if !c.isBool() {
		in.addIssue("carry-in", fmt.Sprintf("%s carry/borrow input not provably in {0,1} (range [%s,%s])", k, c.lo, c.hi), c)
	}
}

// opAdd64: low + W*high = x + y + cin.
func (in *interp) opAdd64(x, y, c *Val, dLow, dHigh bool) tupleVal {
	in.checkCarryIn(opAdd, c)
	n := in.newNode(opAdd, x, y, c, dLow, dHigh)
	S := pSum(x.p, y.p, c.p)
	sLo := new(big.Int).Add(new(big.Int).Add(x.lo, y.lo), c.lo)
	sHi := new(big.Int).Add(new(big.Int).Add(x.hi, y.hi), c.hi)
	switch {
	case sHi.Cmp(bigWm1) <= 0:
		n.low = in.derived(S, sLo, sHi, &origin{op: "addlo", node: n})
		n.high = in.derived(pZero(), big0, big0, &origin{op: "addhi", node: n})
	case sLo.Cmp(bigW) >= 0:
		n.low = in.derived(pSub(S, pInt(bigW)), new(big.Int).Sub(sLo, bigW), new(big.Int).Sub(sHi, bigW), &origin{op: "addlo", node: n})
		n.high = in.derived(pInt64(1), big1, big1, &origin{op: "addhi", node: n})
	default:
		if dLow && !dHigh {
			ok, why := in.montLemma(x, y, c)
			n.lemmaDetail = why
			if ok {
				// the discarded sum word is exactly 0: W*carry = x + y.
				n.lemma = true
				n.low = in.derived(pZero(), big0, big0, &origin{op: "addlo", node: n})
				n.high = in.derived(pDivInt(S, bigW), big0, big1, &origin{op: "addhi", node: n})
				return tupleVal{n.low, n.high}
			}
			in.addIssue("discarded-sum", "sum word of bits.Add64 is discarded but its carry is kept, and the Montgomery lemma does not apply: "+why, nil)
		}
		h := in.newAtom("carry", "", big0, big1)
		h.org = &origin{op: "addhi", node: n}
		h.atom.node = n
		n.high = h
		n.low = in.derived(pSub(S, pScale(h.p, bigW)), big0, bigWm1, &origin{op: "addlo", node: n})
	}
	return tupleVal{n.low, n.high}
}

// opSub64: low - W*high = x - y - cin.
func (in *interp) opSub64(x, y, c *Val, dLow, dHigh bool) tupleVal {
	in.checkCarryIn(opSub, c)
	n := in.newNode(opSub, x, y, c, dLow, dHigh)
	D := pSub(pSub(x.p, y.p), c.p)
	dLo := new(big.Int).Sub(new(big.Int).Sub(x.lo, y.hi), c.hi)
	dHi := new(big.Int).Sub(new(big.Int).Sub(x.hi, y.lo), c.lo)
	switch {
	case dLo.Sign() >= 0:
		n.low = in.derived(D, dLo, dHi, &origin{op: "sublo", node: n})
		n.high = in.derived(pZero(), big0, big0, &origin{op: "subhi", node: n})
	case dHi.Sign() < 0:
		n.low = in.derived(pAdd(D, pInt(bigW)), new(big.Int).Add(dLo, bigW), new(big.Int).Add(dHi, bigW), &origin{op: "sublo", node: n})
		n.high = in.derived(pInt64(1), big1, big1, &origin{op: "subhi", node: n})
	case x.isConst(0) && c.isConst(0) && y.isBool():
		// 0 - u with u in {0,1}: borrow == u, difference == (W-1)*u.
		n.high = in.derived(y.p, y.lo, y.hi, &origin{op: "subhi", node: n})
		n.low = in.derived(pScale(y.p, bigWm1), big0, bigWm1, &origin{op: "sublo", node: n})
	default:
		h := in.newAtom("borrow", "", big0, big1)
		h.org = &origin{op: "subhi", node: n}
		h.atom.node = n
		if x.isConst(0) && c.isConst(0) {
			h.atom.nzOf = y
		}
		n.high = h
		n.low = in.derived(pAdd(D, pScale(h.p, bigW)), big0, bigWm1, &origin{op: "sublo", node: n})
	}
	return tupleVal{n.low, n.high}
}

// opMul64: high*W + low = x*y.
func (in *interp) opMul64(x, y *Val, dHigh, dLow bool) tupleVal {
	n := in.newNode(opMul, x, y, nil, dLow, dHigh)
	P := in.mul(x.p, y.p)
	pLo := new(big.Int).Mul(x.lo, y.lo)
	pHi := new(big.Int).Mul(x.hi, y.hi)
	switch {
	case pHi.Cmp(bigWm1) <= 0:
		n.low = in.derived(P, pLo, pHi, &origin{op: "mullo", node: n})
		n.high = in.derived(pZero(), big0, big0, &origin{op: "mulhi", node: n})
	case pLo.Cmp(pHi) == 0: // both constants
		q, r := new(big.Int).DivMod(pHi, bigW, new(big.Int))
		n.low = in.derived(pInt(r), r, r, &origin{op: "mullo", node: n})
		n.high = in.derived(pInt(q), q, q, &origin{op: "mulhi", node: n})
	case dHigh && !dLow:
		// only the low word is kept: a fresh symbol q with q == x*y (mod W).
		q := in.newAtom("q", "", big0, bigWm1)
		q.org = &origin{op: "mullo", node: n}
		q.atom.node = n
		n.low = q
		n.high = in.derived(pDivInt(pSub(P, q.p), bigW), new(big.Int).Rsh(pLo, 64), new(big.Int).Rsh(pHi, 64), &origin{op: "mulhi", node: n})
	default:
		h := in.newAtom("mulhi", "", new(big.Int).Rsh(pLo, 64), new(big.Int).Rsh(pHi, 64))
		h.org = &origin{op: "mulhi", node: n}
		h.atom.node = n
		n.high = h
		n.low = in.derived(pSub(P, pScale(h.p, bigW)), big0, bigWm1, &origin{op: "mullo", node: n})
	}
	return tupleVal{n.high, n.low}
}

// montLemma: the built-in lemma.  If q = lo(t*m') and l = lo(q*m0) with
// m0*m' == -1 (mod W) then t + l == 0 (mod W).
func (in *interp) montLemma(x, y, c *Val) (bool, string) {
	if !c.isConst(0) {
		return false, "carry-in is not the constant 0"
	}
	why := "no operand is the low word of bits.Mul64(q, m0) with q = lo(t*m') a kept-low/discarded-high product"
	for _, pr := range [][2]*Val{{x, y}, {y, x}} {
		t, l := pr[0], pr[1]
		if l.org == nil || l.org.op != "mullo" || l.org.node == nil {
			continue
		}
		ln := l.org.node
		for _, qm := range [][2]*Val{{ln.x, ln.y}, {ln.y, ln.x}} {
			qv, m0v := qm[0], qm[1]
			m0, ok := m0v.constant()
			if !ok || qv.atom == nil || qv.atom.kind != "q" {
				continue
			}
			qn := qv.atom.node
			for _, tm := range [][2]*Val{{qn.x, qn.y}, {qn.y, qn.x}} {
				tv, mpv := tm[0], tm[1]
				mp, ok := mpv.constant()
				if !ok {
					continue
				}
				if !pEqual(tv.p, t.p) {
					why = fmt.Sprintf("q (%s) is lo(t'*0x%x) for a value t' different from the other addend", shortPos(qn.pos), mp)
					continue
				}
				chk := new(big.Int).Mul(m0, mp)
				chk.Add(chk, big1).Mod(chk, bigW)
				if chk.Sign() != 0 {
					return false, fmt.Sprintf("m0*m' != -1 (mod 2^64): m0=0x%x (%s), m'=0x%x (%s), m0*m'+1 mod W = 0x%x",
						m0, shortPos(ln.pos), mp, shortPos(qn.pos), chk)
				}
				return true, fmt.Sprintf("q=lo(t*0x%x) at %s, addend=lo(q*0x%x) at %s, 0x%x*0x%x = -1 (mod 2^64) => t+lo(q*m0) = 0 (mod 2^64), discarded word is 0",
					mp, shortPos(qn.pos), m0, shortPos(ln.pos), m0, mp)
			}
		}
	}
	return false, why
}

// ---------------------------------------------------------------- plain operators

func (in *interp) opPlus(x, y *Val) *Val {
	use(x, y)
	p := pAdd(x.p, y.p)
	lo := new(big.Int).Add(x.lo, y.lo)
	hi := new(big.Int).Add(x.hi, y.hi)
	org := &origin{op: "plus", args: []*Val{x, y}}
	if hi.Cmp(bigWm1) <= 0 {
		v := in.derived(p, lo, hi, org)
		if _, isC := v.constant(); isC {
			return v
		}
		in.plus = append(in.plus, plusSite{pos: in.curPos, site: in.site, method: "interval", val: v, x: x, y: y})
		return v
	}
	// relational bound: rewrite carries / high words as (operands - low)/W.
	ub := ratFloor(pAdd(in.expandForBound(x, 0), in.expandForBound(y, 0)).upper(in.bounds))
	if ub.Cmp(bigWm1) <= 0 {
		v := in.derived(p, lo, maxBig(ub, lo), org)
		in.plus = append(in.plus, plusSite{pos: in.curPos, site: in.site, method: "relational", val: v, x: x, y: y})
		return v
	}
	v := in.derived(p, lo, bigWm1, org)
	v.assumed = true
	in.plus = append(in.plus, plusSite{pos: in.curPos, site: in.site, method: "unproven", val: v, x: x, y: y})
	in.addIssue("nowrap", fmt.Sprintf("plain '+' not proven free of wrap-around: interval bound %s, relational bound %s, need <= 2^64-1", hi, ub), v)
	return v
}

// term returns the shadow symbol of a value for the relational bound prover.
func (in *interp) term(v *Val) Poly {
	if c, ok := v.constant(); ok {
		return pInt(c)
	}
	if v.atom != nil {
		return v.p
	}
	if v.shadow == 0 {
		a := &atom{id: len(in.atoms), kind: "shadow", name: "val(" + shortPos(v.pos) + ")", pos: v.pos, site: v.site, lo: v.lo, hi: v.hi, val: v}
		in.atoms = append(in.atoms, a)
		v.shadow = a.id
	}
	return pVar(v.shadow)
}

// expandForBound expresses v over shadow symbols: plain sums are expanded,
// carries / borrows / high words become (operands -/+ low word)/W.  Sound
// because each substituted equation is the exact defining equation.
func (in *interp) expandForBound(v *Val, depth int) Poly {
	if v.org == nil || depth > 8 {
		return in.term(v)
	}
	if _, ok := v.constant(); ok {
		return in.term(v)
	}
	n := v.org.node
	switch v.org.op {
	case "plus":
		return pAdd(in.expandForBound(v.org.args[0], depth+1), in.expandForBound(v.org.args[1], depth+1))
	case "addhi":
		return pDivInt(pSub(pSum(in.term(n.x), in.term(n.y), in.term(n.cin)), in.term(n.low)), bigW)
	case "subhi":
		return pDivInt(pSub(pSum(in.term(n.low), in.term(n.y), in.term(n.cin)), in.term(n.x)), bigW)
	case "mulhi":
		return pDivInt(pSub(in.mul(in.term(n.x), in.term(n.y)), in.term(n.low)), bigW)
	}
	return in.term(v)
}

func (in *interp) opMinus(x, y *Val) *Val {
	use(x, y)
	lo := new(big.Int).Sub(x.lo, y.hi)
	hi := new(big.Int).Sub(x.hi, y.lo)
	v := in.derived(pSub(x.p, y.p), maxBig(lo, big0), maxBig(hi, big0), &origin{op: "minus", args: []*Val{x, y}})
	if lo.Sign() < 0 {
		v.assumed = true
		in.addIssue("nowrap", "plain '-' not proven free of wrap-around", v)
	}
	return v
}

func (in *interp) opTimes(x, y *Val) *Val {
	use(x, y)
	for _, pr := range [][2]*Val{{x, y}, {y, x}} {
		if c, ok := pr[1].constant(); ok && c.Cmp(bigWm1) == 0 && pr[0].isBool() {
			// b * 0xffff...ffff: the all-ones mask of a boolean.
			v := in.derived(pScale(pr[0].p, bigWm1), big0, new(big.Int).Mul(pr[0].hi, bigWm1), &origin{op: "mask", args: []*Val{pr[0]}})
			v.maskGate = pr[0].p
			return v
		}
	}
	lo := new(big.Int).Mul(x.lo, y.lo)
	hi := new(big.Int).Mul(x.hi, y.hi)
	v := in.derived(in.mul(x.p, y.p), lo, minBig(hi, bigWm1), &origin{op: "times", args: []*Val{x, y}})
	if hi.Cmp(bigWm1) > 0 {
		v.assumed = true
		in.addIssue("wrapping-op", fmt.Sprintf("plain '*' may wrap (bound %s)", hi), v)
	}
	return v
}

func (in *interp) opNot(x *Val) *Val {
	use(x)
	v := in.derived(pSub(pInt(bigWm1), x.p), new(big.Int).Sub(bigWm1, x.hi), new(big.Int).Sub(bigWm1, x.lo), &origin{op: "not", args: []*Val{x}})
	if x.maskGate != nil {
		v.maskGate = pSub(pInt64(1), x.maskGate)
	}
	return v
}

func (in *interp) opAnd(x, y *Val) *Val {
	use(x, y)
	cx, okx := x.constant()
	cy, oky := y.constant()
	if okx && oky {
		return in.constVal(new(big.Int).And(cx, cy))
	}
	for _, pr := range [][2]*Val{{x, y}, {y, x}} {
		m, o := pr[0], pr[1]
		if m.maskGate != nil {
			// mask is 0 or all-ones: mask & o == gate * o, exactly.
			v := in.derived(in.mul(m.maskGate, o.p), big0, o.hi, &origin{op: "gated", gate: m.maskGate, args: []*Val{o}})
			if c, ok := o.constant(); ok && c.Cmp(bigWm1) == 0 {
				v.maskGate = m.maskGate
			}
			return v
		}
	}
	for _, pr := range [][2]*Val{{x, y}, {y, x}} {
		o, one := pr[0], pr[1]
		if !one.isConst(1) {
			continue
		}
		if o.isBool() {
			return o
		}
		if o.org != nil && o.org.op == "not" && o.org.args[0].isBool() {
			// (^b) & 1 == 1 - b for b in {0,1}.
			return in.derived(pSub(pInt64(1), o.org.args[0].p), big0, big1, &origin{op: "notbool", args: []*Val{o.org.args[0]}})
		}
	}
	if x.isBool() && y.isBool() {
		return in.derived(in.mul(x.p, y.p), big0, big1, &origin{op: "andbool", args: []*Val{x, y}})
	}
	v := in.newAtom("and", "", big0, minBig(x.hi, y.hi))
	v.org = &origin{op: "and", args: []*Val{x, y}}
	in.notes = append(in.notes, in.curPos+": bitwise '&' outside the modelled idioms: result is an unconstrained symbol")
	return v
}

func (in *interp) opOr(x, y *Val) *Val {
	use(x, y)
	cx, okx := x.constant()
	cy, oky := y.constant()
	switch {
	case okx && oky:
		return in.constVal(new(big.Int).Or(cx, cy))
	case okx && cx.Sign() == 0:
		return y
	case oky && cy.Sign() == 0:
		return x
	}
	if x.org != nil && y.org != nil && x.org.op == "gated" && y.org.op == "gated" {
		if c, ok := pAdd(x.org.gate, y.org.gate).constant(); ok && c.Cmp(big1) == 0 {
			// complementary gates: exactly one side is non-zero, OR == sum.
			a, b := x.org.args[0], y.org.args[0]
			v := in.derived(pAdd(x.p, y.p), big0, maxBig(a.hi, b.hi), &origin{op: "select", gate: x.org.gate, args: []*Val{a, b}})
			return v
		}
	}
	if x.isBool() && y.isBool() {
		return in.derived(pSub(pAdd(x.p, y.p), in.mul(x.p, y.p)), big0, big1, &origin{op: "orbool", args: []*Val{x, y}})
	}
	// (t << n) | r with r < 2^n and no bits shifted out: the operands occupy disjoint bit ranges, OR == sum
	for _, pr := range [][2]*Val{{x, y}, {y, x}} {
		sh, r := pr[0], pr[1]
		if sh.org != nil && sh.org.op == "shl" && !sh.assumed && sh.org.k > 0 && sh.org.k < 64 {
			if r.lo.Sign() >= 0 && r.hi.Cmp(new(big.Int).Lsh(big1, uint(sh.org.k))) < 0 {
				hi := new(big.Int).Add(sh.hi, r.hi)
				if hi.Cmp(bigWm1) <= 0 {
					return in.derived(pAdd(sh.p, r.p), new(big.Int).Add(sh.lo, r.lo), hi, &origin{op: "ordisjoint", args: []*Val{sh, r}})
				}
			}
		}
	}
	v := in.newAtom("or", "", maxBig(x.lo, y.lo), minBig(bigWm1, new(big.Int).Add(x.hi, y.hi)))
	v.org = &origin{op: "or", args: []*Val{x, y}}
	return v
}

func (in *interp) opXor(x, y *Val) *Val {
	use(x, y)
	cx, okx := x.constant()
	cy, oky := y.constant()
	switch {
	case okx && oky:
		return in.constVal(new(big.Int).Xor(cx, cy))
	case okx && cx.Sign() == 0:
		return y
	case oky && cy.Sign() == 0:
		return x
	}
	if x.isBool() && y.isBool() {
		// on {0,1}: x ^ y = x + y - 2xy (in particular b ^ 1 = 1 - b)
		return in.derived(pSub(pAdd(x.p, y.p), pScale(in.mul(x.p, y.p), big.NewInt(2))), big0, big1, &origin{op: "xorbool", args: []*Val{x, y}})
	}
	v := in.newAtom("xor", "", big0, bigWm1)
	v.org = &origin{op: "xor", args: []*Val{x, y}}
	return v
}

func (in *interp) opShr(x, k *Val) (*Val, error) {
	use(x, k)
	kc, ok := k.constant()
	if !ok || !kc.IsInt64() || kc.Int64() < 0 || kc.Int64() > 64 {
		return nil, fmt.Errorf("shift by a non-constant amount")
	}
	n := uint(kc.Int64())
	if c, ok := x.constant(); ok {
		return in.constVal(new(big.Int).Rsh(c, n)), nil
	}
	if n == 0 {
		return x, nil // a shift by zero is the identity
	}
	// (u | -u) >> 63: the top bit of u or of its two's complement is set iff u != 0 (u = 0: both are 0; otherwise
	// u >= 2^63, or u < 2^63 and then -u = 2^64 - u > 2^63), i.e. the borrow of 0 - u
	if n == 63 && x.org != nil && x.org.op == "or" && len(x.org.args) == 2 {
		for _, pr := range [][2]*Val{{x.org.args[0], x.org.args[1]}, {x.org.args[1], x.org.args[0]}} {
			if pr[1].negOf == pr[0] && pr[1].negBorrow != nil {
				return pr[1].negBorrow, nil
			}
		}
	}
	if new(big.Int).Rsh(x.hi, n).Sign() == 0 {
		return in.constInt(0), nil
	}
	if n%8 == 0 && n > 0 && n < 64 && x.lo.Sign() >= 0 && x.hi.Cmp(bigWm1) <= 0 {
		// a shift by whole octets: x = sum b_i 256^i with one octet decomposition per word, so that the shifts of one
		// word by 8, 16, ... 56 (and their low octets) are expressed in the same eight symbols
		bs := in.bytesOf(x)
		k := int(n / 8)
		if k == 7 {
			return bs[7], nil // the top octet itself
		}
		tp, rp := pInt64(0), pInt64(0)
		for i, b := range bs {
			if i >= k {
				tp = pAdd(tp, pScale(b.p, new(big.Int).Lsh(big1, uint(8*(i-k)))))
			} else {
				rp = pAdd(rp, pScale(b.p, new(big.Int).Lsh(big1, uint(8*i))))
			}
		}
		rv := in.derived(rp, big0, minBig(new(big.Int).Sub(new(big.Int).Lsh(big1, n), big1), x.hi), &origin{op: "shrlo", args: []*Val{x}, k: int(n)})
		t := in.derived(tp, new(big.Int).Rsh(x.lo, n), new(big.Int).Rsh(x.hi, n), &origin{op: "shr", args: []*Val{x, rv}, k: int(n)})
		t.byteBase, t.byteIdx = x, k
		return t, nil
	}
	// x = 2^n * t + r with 0 <= r < 2^n; r is a fresh symbol, t = (x - r)/2^n.
	pw := new(big.Int).Lsh(big1, n)
	r := in.newAtom("shrlo", "", big0, minBig(new(big.Int).Sub(pw, big1), x.hi))
	r.org = &origin{op: "shrlo", args: []*Val{x}, k: int(n)}
	t := in.derived(pDivInt(pSub(x.p, r.p), pw), new(big.Int).Rsh(x.lo, n), new(big.Int).Rsh(x.hi, n), &origin{op: "shr", args: []*Val{x, r}, k: int(n)})
	return t, nil
}

func (in *interp) opShl(x, k *Val) (*Val, error) {
	use(x, k)
	kc, ok := k.constant()
	if !ok || !kc.IsInt64() || kc.Int64() < 0 || kc.Int64() > 64 {
		return nil, fmt.Errorf("shift by a non-constant amount")
	}
	n := uint(kc.Int64())
	if c, isC := x.constant(); isC && c.Sign() >= 0 {
		// a constant word: the shifted value modulo 2^64, exactly what the machine computes
		return in.constVal(new(big.Int).And(new(big.Int).Lsh(c, n), bigWm1)), nil
	}
	hi := new(big.Int).Lsh(x.hi, n)
	v := in.derived(pScale(x.p, new(big.Int).Lsh(big1, n)), new(big.Int).Lsh(x.lo, n), minBig(hi, bigWm1), &origin{op: "shl", args: []*Val{x}, k: int(n)})
	if hi.Cmp(bigWm1) > 0 {
		v.assumed = true
		in.addIssue("wrapping-op", "plain '<<' may discard bits", v)
	}
	return v, nil
}

// ikindOf: the Go type class of x op y for + - * (see Val.ikind).
func ikindOf(x, y *Val) int8 {
	switch {
	case x.ikind == 2 && y.ikind >= 1, y.ikind == 2 && x.ikind >= 1:
		return 2
	case x.ikind == 1 && y.ikind == 1:
		return 1
	}
	return 0
}

func withKind(v *Val, k int8) *Val {
	if v.ikind == k {
		return v
	}
	c := *v
	c.ikind = k
	return &c
}

func (in *interp) binary(op token.Token, x, y *Val) (*Val, error) {
	if op == token.ADD || op == token.SUB || op == token.MUL {
		if k := ikindOf(x, y); k != 0 {
			// constant arithmetic on loop counters / lengths (Go `int`, which is signed: a count-down loop ends at -1)
			cx, ok1 := x.constant()
			cy, ok2 := y.constant()
			if ok1 && ok2 {
				r := new(big.Int)
				switch op {
				case token.ADD:
					r.Add(cx, cy)
				case token.SUB:
					r.Sub(cx, cy)
				default:
					r.Mul(cx, cy)
				}
				if r.Sign() >= 0 || k == 2 {
					if r.IsInt64() {
						use(x, y)
						return withKind(in.constVal(r), k), nil
					}
				}
			}
		}
	}
	switch op {
	case token.ADD:
		return in.opPlus(x, y), nil
	case token.SUB:
		return in.opMinus(x, y), nil
	case token.MUL:
		return in.opTimes(x, y), nil
	case token.AND:
		return in.opAnd(x, y), nil
	case token.OR:
		return in.opOr(x, y), nil
	case token.XOR:
		return in.opXor(x, y), nil
	case token.SHR:
		return in.opShr(x, y)
	case token.SHL:
		return in.opShl(x, y)
	}
	return nil, fmt.Errorf("operator %s", op)
}

// bytesOf decomposes a 64-bit word into its eight octets: b_0 .. b_6 are fresh symbols in [0,255] (the octets the
// machine word has), b_7 = (x - sum_{i<7} b_i 256^i) / 256^7, so that sum b_i 256^i = x holds identically.
func (in *interp) bytesOf(x *Val) []*Val {
	if in.byteDec == nil {
		in.byteDec = map[*Val][]*Val{}
	}
	if bs, ok := in.byteDec[x]; ok {
		return bs
	}
	var bs []*Val
	low := pInt64(0)
	b255 := big.NewInt(255)
	for i := 0; i < 7; i++ {
		hi := minBig(b255, new(big.Int).Rsh(x.hi, uint(8*i)))
		b := in.newAtom("octet", "", big0, hi)
		b.org = &origin{op: "shrlo", args: []*Val{x}, k: 8 * (i + 1)}
		bs = append(bs, b)
		low = pAdd(low, pScale(b.p, new(big.Int).Lsh(big1, uint(8*i))))
	}
	top := in.derived(pDivInt(pSub(x.p, low), new(big.Int).Lsh(big1, 56)), big0, minBig(b255, new(big.Int).Rsh(x.hi, 56)), &origin{op: "byte", args: []*Val{x}, k: 56})
	bs = append(bs, top)
	in.byteDec[x] = bs
	return bs
}
