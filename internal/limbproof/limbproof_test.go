package limbproof

import (
	"fmt"
	"math/big"
	"os"
	"path/filepath"
	"regexp"
	"strings"
	"testing"
)

const repoRoot = "/repo"

var (
	modP, _ = new(big.Int).SetString("fffffffffffffffffffffffffffffffffffffffffffffffffffffffefffffc2f", 16)
	modN, _ = new(big.Int).SetString("fffffffffffffffffffffffffffffffebaaedce6af48a03bbfd25e8cd0364141", 16)
)

const (
	relFiatP   = "internal/fiat/secp256k1montgomery/secp256k1montgomery.go"
	relFiatN   = "internal/fiat/secp256k1montgomeryscalar/secp256k1montgomeryscalar.go"
	relReduceP = "internal/field/field_reduce.go"
	relScalar  = "scalar.go"
	relGLV     = "point_mul_glv.go"
	relHelpers = "internal/helpers/helpers.go"
)

func needRepo(t *testing.T) {
	t.Helper()
	if _, err := os.Stat(filepath.Join(repoRoot, relFiatP)); err != nil {
		t.Skipf("subject repository not present: %v", err)
	}
}

// ---------------------------------------------------------------- positive: today's tree

func checkAll(t *testing.T, root string) map[string][]Obligation {
	t.Helper()
	res := map[string][]Obligation{}
	run := func(name string, obs []Obligation, err error) {
		if err != nil {
			t.Fatalf("%s: %v", name, err)
		}
		res[name] = obs
	}
	o, err := CheckFiat(filepath.Dir(filepath.Join(root, relFiatP)), modP)
	run("fiat-field", o, err)
	o, err = CheckFiat(filepath.Dir(filepath.Join(root, relFiatN)), modN)
	run("fiat-scalar", o, err)
	o, err = CheckReduceSaturated(filepath.Join(root, relReduceP), modP)
	run("reduce-field", o, err)
	o, err = CheckReduceSaturated(filepath.Join(root, relScalar), modN)
	run("reduce-scalar", o, err)
	o, err = CheckIsGreaterThanHalfN(filepath.Join(root, relScalar), modN)
	run("half-n", o, err)
	o, err = CheckMulGFlooredDiv(filepath.Join(root, relGLV), modN)
	run("mulg", o, err)
	o, err = CheckHelpers(filepath.Join(root, relHelpers))
	run("helpers", o, err)
	return res
}

func TestAllDischargedOnRepo(t *testing.T) {
	needRepo(t)
	res := checkAll(t, repoRoot)
	total := 0
	keys := map[string]bool{}
	for _, name := range []string{"fiat-field", "fiat-scalar", "reduce-field", "reduce-scalar", "half-n", "mulg", "helpers"} {
		obs := res[name]
		if len(obs) == 0 {
			t.Errorf("%s: no obligations produced", name)
		}
		for _, o := range obs {
			total++
			if keys[o.Key] {
				t.Errorf("duplicate obligation key %s", o.Key)
			}
			keys[o.Key] = true
			if o.Status != "discharged" {
				t.Errorf("%s: %s is %s at %s: %s", name, o.Key, o.Status, o.Pos, o.Detail)
			}
			if o.Pos == "" || o.Func == "" || o.Detail == "" {
				t.Errorf("incomplete obligation %+v", o)
			}
		}
		t.Logf("%-14s %3d obligations, all discharged", name, len(obs))
	}
	t.Logf("total: %d obligations discharged", total)
	// the postconditions that matter must be present
	for _, k := range []string{
		"postcondition/secp256k1montgomery.Mul", "postcondition/secp256k1montgomery.Square",
		"postcondition/secp256k1montgomery.FromMontgomery", "postcondition/secp256k1montgomery.ToMontgomery",
		"postcondition/secp256k1montgomery.Add", "postcondition/secp256k1montgomery.Sub", "postcondition/secp256k1montgomery.Opp",
		"montgomery-identity/secp256k1montgomeryscalar.Mul", "postcondition/secp256k1montgomeryscalar.ToMontgomery",
		"postcondition/secp256k1montgomeryscalar.Msat", "postcondition/secp256k1montgomeryscalar.SetOne",
		"postcondition/secp256k1montgomeryscalar.Selectznz", "postcondition/secp256k1montgomeryscalar.Nonzero",
		"postcondition/secp256k1montgomeryscalar.cmovznzU64",
		"postcondition/field_reduce.go.reduceSaturated", "postcondition/scalar.go.reduceSaturated",
		"postcondition/scalar.go.IsGreaterThanHalfN", "postcondition/point_mul_glv.go.mulGFlooredDiv",
		"postcondition/helpers.go.BytesToSaturated", "postcondition/helpers.go.PutSaturatedToBytes",
		"postcondition/helpers.go.FiatLimbsAreEqual", "postcondition/helpers.go.Uint64Equal",
	} {
		if !keys[k] {
			t.Errorf("missing obligation %s", k)
		}
	}
}

func TestErrorsForMissingSubjects(t *testing.T) {
	if _, err := CheckFiat(filepath.Join(t.TempDir(), "nope"), modP); err == nil {
		t.Error("CheckFiat on a missing directory must return an error")
	}
	if _, err := CheckHelpers(filepath.Join(t.TempDir(), "nope.go")); err == nil {
		t.Error("CheckHelpers on a missing file must return an error")
	}
	needRepo(t)
	// a package that does not define the function (the file name only names the package: the routine may live in any
	// file of it)
	if _, err := CheckReduceSaturated(filepath.Join(repoRoot, relHelpers), modN); err == nil {
		t.Error("CheckReduceSaturated must fail when the package does not declare the function")
	}
	if _, err := CheckReduceSaturated(filepath.Join(repoRoot, relGLV), modN); err != nil {
		t.Errorf("CheckReduceSaturated must find the function in another file of the same package: %v", err)
	}
	if _, err := CheckIsGreaterThanHalfN(filepath.Join(repoRoot, relHelpers), modN); err == nil {
		t.Error("CheckIsGreaterThanHalfN must fail when the method is absent")
	}
}

// The wrong modulus must not verify (the oracle is the caller's m, not the code).
func TestWrongModulusRejected(t *testing.T) {
	needRepo(t)
	obs, err := CheckFiat(filepath.Dir(filepath.Join(repoRoot, relFiatP)), modN)
	if err != nil {
		t.Fatal(err)
	}
	bad := map[string]bool{}
	for _, o := range obs {
		if o.Status != "discharged" {
			bad[o.Func] = true
		}
	}
	for _, f := range []string{"Mul", "Square", "Add", "Sub", "Opp", "FromMontgomery", "ToMontgomery", "SetOne", "Msat"} {
		if !bad[f] {
			t.Errorf("%s verified against the wrong modulus", f)
		}
	}
	for _, f := range []string{"cmovznzU64", "Selectznz", "Nonzero"} {
		if bad[f] {
			t.Errorf("%s does not depend on the modulus but failed", f)
		}
	}
}

// ---------------------------------------------------------------- mutation plumbing

// copyRepo copies the Go sources the checkers read into a fresh directory.
func copyRepo(t *testing.T) string {
	t.Helper()
	needRepo(t)
	dst := t.TempDir()
	dirs := []string{".", "internal/field", "internal/helpers", "internal/disalloweq",
		"internal/fiat/secp256k1montgomery", "internal/fiat/secp256k1montgomeryscalar"}
	for _, d := range dirs {
		ents, err := os.ReadDir(filepath.Join(repoRoot, d))
		if err != nil {
			t.Fatal(err)
		}
		if err := os.MkdirAll(filepath.Join(dst, d), 0o755); err != nil {
			t.Fatal(err)
		}
		for _, e := range ents {
			n := e.Name()
			if e.IsDir() || !(strings.HasSuffix(n, ".go") || n == "go.mod") || strings.HasSuffix(n, "_test.go") {
				continue
			}
			data, err := os.ReadFile(filepath.Join(repoRoot, d, n))
			if err != nil {
				t.Fatal(err)
			}
			if err := os.WriteFile(filepath.Join(dst, d, n), data, 0o644); err != nil {
				t.Fatal(err)
			}
		}
	}
	return dst
}

// edit applies f to the text of root/rel.
func edit(t *testing.T, root, rel string, f func(string) string) {
	t.Helper()
	p := filepath.Join(root, rel)
	data, err := os.ReadFile(p)
	if err != nil {
		t.Fatal(err)
	}
	out := f(string(data))
	if out == string(data) {
		t.Fatalf("mutation of %s changed nothing", rel)
	}
	if err := os.WriteFile(p, []byte(out), 0o644); err != nil {
		t.Fatal(err)
	}
}

// inFunc replaces the first n occurrences (all if n < 0) of old inside the
// function whose declaration starts with header; it returns the new text and
// the 1-based lines of the replaced occurrences (old/new contain no newline).
func inFunc(t *testing.T, src, header, old, new string, n int) (string, []int) {
	t.Helper()
	i := strings.Index(src, "\n"+header)
	if i < 0 {
		t.Fatalf("function %q not found", header)
	}
	i++
	j := strings.Index(src[i:], "\n}\n")
	if j < 0 {
		t.Fatalf("end of %q not found", header)
	}
	body := src[i : i+j]
	var lines []int
	var sb strings.Builder
	rest := body
	off := i
	for n != 0 {
		k := strings.Index(rest, old)
		if k < 0 {
			break
		}
		lines = append(lines, 1+strings.Count(src[:off+k], "\n"))
		sb.WriteString(rest[:k] + new)
		rest = rest[k+len(old):]
		off += k + len(old)
		n--
	}
	if len(lines) == 0 {
		t.Fatalf("%q not found in %q", old, header)
	}
	sb.WriteString(rest)
	return src[:i] + sb.String() + src[i+j:], lines
}

func failing(obs []Obligation) []Obligation {
	var out []Obligation
	for _, o := range obs {
		if o.Status != "discharged" {
			out = append(out, o)
		}
	}
	return out
}

// expectFailure asserts: some obligation of fn is not discharged, every
// failing obligation belongs to fn, one of them points (Pos or Detail) at one
// of the given lines of file, and every needle occurs in a failing Detail.
func expectFailure(t *testing.T, obs []Obligation, fn, file string, lines []int, needles ...string) {
	t.Helper()
	bad := failing(obs)
	if len(bad) == 0 {
		t.Fatalf("mutant of %s verified: every obligation discharged", fn)
	}
	pointed := false
	all := ""
	for _, o := range bad {
		if o.Func != fn {
			t.Errorf("unrelated function failed: %s (%s) %s", o.Key, o.Status, o.Detail)
		}
		if o.Status != "violated" && o.Status != "undecided" {
			t.Errorf("bad status %q", o.Status)
		}
		all += o.Detail + "\n"
		for _, l := range lines {
			tag := fmt.Sprintf("%s:%d", filepath.Base(file), l)
			if strings.HasSuffix(o.Pos, tag) || regexp.MustCompile(regexp.QuoteMeta(tag)+`\b`).MatchString(o.Detail) {
				pointed = true
			}
		}
	}
	if !pointed {
		t.Errorf("no failing obligation of %s points at %s lines %v:", fn, filepath.Base(file), lines)
		for _, o := range bad {
			t.Logf("  %s [%s] %s: %s", o.Key, o.Status, o.Pos, o.Detail)
		}
	}
	for _, nd := range needles {
		if !strings.Contains(all, nd) {
			t.Errorf("no failing Detail mentions %q", nd)
			for _, o := range bad {
				t.Logf("  %s [%s] %s: %s", o.Key, o.Status, o.Pos, o.Detail)
			}
		}
	}
	o := bad[0]
	d := o.Detail
	if len(d) > 300 {
		d = d[:300] + "..."
	}
	t.Logf("%d open obligations; first: %s [%s] %s: %s", len(bad), o.Key, o.Status, shortPos(o.Pos), d)
}

// ---------------------------------------------------------------- negative controls

func fiatMutant(t *testing.T, rel string, m *big.Int, header, old, new string, n int) ([]Obligation, []int) {
	t.Helper()
	root := copyRepo(t)
	var lines []int
	edit(t, root, rel, func(s string) string {
		out, l := inFunc(t, s, header, old, new, n)
		lines = l
		return out
	})
	obs, err := CheckFiat(filepath.Dir(filepath.Join(root, rel)), m)
	if err != nil {
		t.Fatal(err)
	}
	return obs, lines
}

func TestNegA_AddSelectsOnAddCarry(t *testing.T) {
	obs, lines := fiatMutant(t, relFiatP, modP, "func Add(", "uint1(x18), x", "uint1(x8), x", -1)
	if len(lines) != 4 {
		t.Fatalf("expected 4 selects, mutated %d", len(lines))
	}
	expectFailure(t, obs, "Add", relFiatP, lines, "keyed on")
}

func TestNegB_MulDroppedCarryIn(t *testing.T) {
	obs, lines := fiatMutant(t, relFiatP, modP, "func Mul(", "bits.Add64(x10, x7, uint64(uint1(x14)))", "bits.Add64(x10, x7, uint64(0x0))", 1)
	expectFailure(t, obs, "Mul", relFiatP, lines, "x14", "never consumed")
	// also in the scalar package, deep inside the third round
	obs, lines = fiatMutant(t, relFiatN, modN, "func Mul(", "uint64(uint1(x147)))", "uint64(0x0))", 1)
	expectFailure(t, obs, "Mul", relFiatN, lines, "x147")
}

func TestNegC_MulWrongLimb(t *testing.T) {
	obs, lines := fiatMutant(t, relFiatP, modP, "func Mul(", "bits.Mul64(x4, arg2[2])", "bits.Mul64(x4, arg2[1])", 1)
	expectFailure(t, obs, "Mul", relFiatP, lines, "arg1[0]*arg2[1]", "arg1[0]*arg2[2]")
}

func TestNegD_SubAddBackLiteral(t *testing.T) {
	obs, lines := fiatMutant(t, relFiatP, modP, "func Sub(", "(x9 & 0xfffffffefffffc2f)", "(x9 & 0xfffffffefffffc2e)", 1)
	expectFailure(t, obs, "Sub", relFiatP, lines, "0xfffffffefffffc2e")
	obs, lines = fiatMutant(t, relFiatN, modN, "func Sub(", "(x9 & 0xbaaedce6af48a03b)", "(x9 & 0xbaaedce6af48a13b)", 1)
	expectFailure(t, obs, "Sub", relFiatN, lines, "add-back limb 1")
}

func TestNegE_MontgomeryConstant(t *testing.T) {
	obs, lines := fiatMutant(t, relFiatP, modP, "func Mul(", "0xd838091dd2253531", "0xd838091dd2253532", 1)
	expectFailure(t, obs, "Mul", relFiatP, lines, "m0*m' != -1")
	// all four sites of Square
	obs, lines = fiatMutant(t, relFiatP, modP, "func Square(", "0xd838091dd2253531", "0xd838091dd2253530", -1)
	if len(lines) != 4 {
		t.Fatalf("expected 4 sites, got %d", len(lines))
	}
	expectFailure(t, obs, "Square", relFiatP, lines, "m0*m' != -1")
}

func TestNegExtra_FiatVariants(t *testing.T) {
	// final select decided on the borrow of the fourth limb instead of the fifth
	obs, lines := fiatMutant(t, relFiatP, modP, "func Mul(", "uint1(x215), x206, x197)", "uint1(x213), x206, x197)", 1)
	expectFailure(t, obs, "Mul", relFiatP, lines)
	// selects swapped in FromMontgomery
	obs, lines = fiatMutant(t, relFiatP, modP, "func FromMontgomery(", "uint1(x139), x130, x122)", "uint1(x139), x122, x130)", 1)
	expectFailure(t, obs, "FromMontgomery", relFiatP, lines, "swapped")
	// wrong modulus limb in a reduction round of the scalar Mul
	obs, lines = fiatMutant(t, relFiatN, modN, "func Mul(", "bits.Mul64(x20, 0xbaaedce6af48a03b)", "bits.Mul64(x20, 0xbaaedce6af48a03a)", 1)
	expectFailure(t, obs, "Mul", relFiatN, lines)
	// a plain '+' that can wrap: add the full high word twice
	obs, lines = fiatMutant(t, relFiatP, modP, "func Mul(", "x19 := (uint64(uint1(x18)) + x6)", "x19 := (x6 + x6)", 1)
	expectFailure(t, obs, "Mul", relFiatP, lines, "wrap")
	// Msat / SetOne literals, Nonzero missing a limb, Selectznz limb mix-up
	obs, lines = fiatMutant(t, relFiatN, modN, "func Msat(", "out1[2] = 0xfffffffffffffffe", "out1[2] = 0xffffffffffffffff", 1)
	expectFailure(t, obs, "Msat", relFiatN, lines)
	obs, lines = fiatMutant(t, relFiatP, modP, "func SetOne(", "0x1000003d1", "0x1000003d0", 1)
	expectFailure(t, obs, "SetOne", relFiatP, lines)
	obs, lines = fiatMutant(t, relFiatP, modP, "func Nonzero(", "(arg1[2] | arg1[3])", "(arg1[2] | arg1[2])", 1)
	expectFailure(t, obs, "Nonzero", relFiatP, lines)
	obs, lines = fiatMutant(t, relFiatP, modP, "func Selectznz(", "arg2[1], arg3[1])", "arg2[1], arg3[2])", 1)
	expectFailure(t, obs, "Selectznz", relFiatP, lines)
}

func reduceMutant(t *testing.T, rel string, m *big.Int, old, new string) ([]Obligation, []int) {
	t.Helper()
	root := copyRepo(t)
	var lines []int
	edit(t, root, rel, func(s string) string {
		out, l := inFunc(t, s, "func reduceSaturated(", old, new, 1)
		lines = l
		return out
	})
	obs, err := CheckReduceSaturated(filepath.Join(root, rel), m)
	if err != nil {
		t.Fatal(err)
	}
	return obs, lines
}

func TestNegF_ReduceSelectSwapped(t *testing.T) {
	obs, lines := reduceMutant(t, relReduceP, modP, "src, &reduced)", "&reduced, src)")
	expectFailure(t, obs, "reduceSaturated", relReduceP, lines, "swapped")
	obs, lines = reduceMutant(t, relScalar, modN, "src, &reduced)", "&reduced, src)")
	expectFailure(t, obs, "reduceSaturated", relScalar, lines, "swapped")
}

func TestNegG_ReduceBorrowDropped(t *testing.T) {
	obs, lines := reduceMutant(t, relReduceP, modP, "bits.Sub64(src[2], mSat[2], borrow)", "bits.Sub64(src[2], mSat[2], 0)")
	expectFailure(t, obs, "reduceSaturated", relReduceP, lines, "covers 2 limbs")
	obs, lines = reduceMutant(t, relScalar, modN, "bits.Sub64(src[2], nSat[2], borrow)", "bits.Sub64(src[2], nSat[2], 0)")
	expectFailure(t, obs, "reduceSaturated", relScalar, lines, "covers 2 limbs")
	// wrong limb of the modulus
	obs, lines = reduceMutant(t, relScalar, modN, "bits.Sub64(src[1], nSat[1], borrow)", "bits.Sub64(src[1], nSat[2], borrow)")
	expectFailure(t, obs, "reduceSaturated", relScalar, lines)
}

func halfNMutant(t *testing.T, f func(string) (string, []int)) ([]Obligation, []int) {
	t.Helper()
	root := copyRepo(t)
	var lines []int
	edit(t, root, relScalar, func(s string) string {
		out, l := f(s)
		lines = l
		return out
	})
	obs, err := CheckIsGreaterThanHalfN(filepath.Join(root, relScalar), modN)
	if err != nil {
		t.Fatal(err)
	}
	return obs, lines
}

func TestNegH_HalfNLiteral(t *testing.T) {
	obs, lines := halfNMutant(t, func(s string) (string, []int) {
		const old = "0xdfe92f46681b20a0"
		i := strings.Index(s, old)
		if i < 0 {
			t.Fatal("halfNSat literal not found")
		}
		return s[:i] + "0xdfe92f46681b20a1" + s[i+len(old):], []int{1 + strings.Count(s[:i], "\n")}
	})
	expectFailure(t, obs, "IsGreaterThanHalfN", relScalar, lines, "0xdfe92f46681b20a1", "(n-1)/2")
}

func TestNegI_HalfNNotStrict(t *testing.T) {
	obs, lines := halfNMutant(t, func(s string) (string, []int) {
		return inFunc(t, s, "func (s *Scalar) IsGreaterThanHalfN(", " & helpers.Uint64IsNonzero(diff[0]|diff[1]|diff[2]|diff[3])", "", 1)
	})
	expectFailure(t, obs, "IsGreaterThanHalfN", relScalar, lines, "missing")
	// OR over only three of the four limbs
	obs, lines = halfNMutant(t, func(s string) (string, []int) {
		return inFunc(t, s, "func (s *Scalar) IsGreaterThanHalfN(", "diff[0]|diff[1]|diff[2]|diff[3]", "diff[0]|diff[1]|diff[2]", 1)
	})
	expectFailure(t, obs, "IsGreaterThanHalfN", relScalar, lines, "3 of the 4")
}

func glvMutant(t *testing.T, old, new string) ([]Obligation, []int) {
	t.Helper()
	root := copyRepo(t)
	var lines []int
	edit(t, root, relGLV, func(s string) string {
		out, l := inFunc(t, s, "func (s *Scalar) mulGFlooredDiv(", old, new, 1)
		lines = l
		return out
	})
	obs, err := CheckMulGFlooredDiv(filepath.Join(root, relGLV), modN)
	if err != nil {
		t.Fatal(err)
	}
	return obs, lines
}

func TestNegJ_GLVCarryNotAdded(t *testing.T) {
	// the line disappears; the orphaned carry is produced on the line above.
	obs, lines := glvMutant(t, "\tc7 += u\n", "\n")
	for i := range lines {
		lines[i]--
	}
	expectFailure(t, obs, "mulGFlooredDiv", relGLV, lines, "never consumed")
}

func TestNegK_GLVWrongRoundingBit(t *testing.T) {
	obs, lines := glvMutant(t, "(c5 >> 63) & 1", "(c5 >> 62) & 1")
	expectFailure(t, obs, "mulGFlooredDiv", relGLV, lines)
	obs, lines = glvMutant(t, "(c5 >> 63) & 1", "(c4 >> 63) & 1")
	expectFailure(t, obs, "mulGFlooredDiv", relGLV, lines)
}

func TestNegL_GLVWrongLimb(t *testing.T) {
	obs, lines := glvMutant(t, "innerProduct(c2, a1, b1, u)", "innerProduct(c2, a2, b1, u)")
	expectFailure(t, obs, "mulGFlooredDiv", relGLV, lines)
	// a carry word dropped between two columns
	obs, lines = glvMutant(t, "innerProduct(c3, a1, b2, u)", "innerProduct(c3, a1, b2, 0)")
	expectFailure(t, obs, "mulGFlooredDiv", relGLV, lines)
	// innerProduct that forgets one carry
	obs, _ = glvMutant(t, "lo, carry = bits.Add64(lo, u, 0)\n\t\thi += carry", "lo, carry = bits.Add64(lo, u, 0)")
	if len(failing(obs)) == 0 {
		t.Error("innerProduct without its second carry verified")
	}
}

func TestNegM_BytesSwapped(t *testing.T) {
	root := copyRepo(t)
	var lines []int
	edit(t, root, relHelpers, func(s string) string {
		s, l1 := inFunc(t, s, "func BytesToSaturated(", "binary.BigEndian.Uint64(src[0:8])", "binary.BigEndian.Uint64(src[8:16])", 1)
		// the second occurrence of src[8:16] is the original dst[2] line
		i := strings.LastIndex(s, "dst[2] = binary.BigEndian.Uint64(src[8:16])")
		if i < 0 {
			t.Fatal("dst[2] line not found")
		}
		s = s[:i] + "dst[2] = binary.BigEndian.Uint64(src[0:8])" + s[i+len("dst[2] = binary.BigEndian.Uint64(src[8:16])"):]
		lines = append(l1, 1+strings.Count(s[:i], "\n"))
		return s
	})
	obs, err := CheckHelpers(filepath.Join(root, relHelpers))
	if err != nil {
		t.Fatal(err)
	}
	expectFailure(t, obs, "BytesToSaturated", relHelpers, lines, "dst[3]", "dst[2]")

	// writer side: limb index swapped
	root = copyRepo(t)
	edit(t, root, relHelpers, func(s string) string {
		out, l := inFunc(t, s, "func PutSaturatedToBytes(", "PutUint64(dst[8:16], src[2])", "PutUint64(dst[8:16], src[1])", 1)
		lines = l
		return out
	})
	obs, err = CheckHelpers(filepath.Join(root, relHelpers))
	if err != nil {
		t.Fatal(err)
	}
	expectFailure(t, obs, "PutSaturatedToBytes", relHelpers, lines)

	// Uint64IsZero without the complement
	root = copyRepo(t)
	edit(t, root, relHelpers, func(s string) string {
		out, l := inFunc(t, s, "func Uint64IsZero(", "(^isNonzero) & 1", "isNonzero & 1", 1)
		lines = l
		return out
	})
	obs, err = CheckHelpers(filepath.Join(root, relHelpers))
	if err != nil {
		t.Fatal(err)
	}
	bad := failing(obs)
	if len(bad) == 0 {
		t.Fatal("Uint64IsZero without '^' verified")
	}
}

// ---------------------------------------------------------------- positive controls: refactors

func TestPositiveRefactors(t *testing.T) {
	root := copyRepo(t)
	word := func(s, old, new string) string {
		return regexp.MustCompile(`\b`+regexp.QuoteMeta(old)+`\b`).ReplaceAllString(s, new)
	}
	// reduceSaturated (both copies): rename two temporaries, swap the two
	// independent declarations.
	for _, rel := range []string{relReduceP, relScalar} {
		edit(t, root, rel, func(s string) string {
			i := strings.Index(s, "\nfunc reduceSaturated(")
			body := s[i:]
			body = word(body, "reduced", "tmpDiff")
			body = word(body, "borrow", "bw")
			body = word(body, "didReduce", "flag")
			const decl = "\t\ttmpDiff [4]uint64\n\t\tbw  uint64\n"
			if !strings.Contains(body, decl) {
				t.Fatalf("declaration block not found in %s:\n%s", rel, body)
			}
			body = strings.Replace(body, decl, "\t\tbw  uint64\n\t\ttmpDiff [4]uint64\n", 1)
			return s[:i] + body
		})
	}
	// fiat field Mul: rename a quotient symbol and a carry, swap two adjacent
	// independent Mul64 statements, commute an addition.
	edit(t, root, relFiatP, func(s string) string {
		i := strings.Index(s, "\nfunc Mul(")
		j := i + strings.Index(s[i:], "\n}\n")
		body := s[i:j]
		body = word(body, "x20", "quot0")
		body = word(body, "x14", "carryA")
		a := "\tx6, x5 = bits.Mul64(x4, arg2[3])\n\tvar x7 uint64\n\tvar x8 uint64\n\tx8, x7 = bits.Mul64(x4, arg2[2])\n"
		b := "\tvar x7 uint64\n\tvar x8 uint64\n\tx8, x7 = bits.Mul64(x4, arg2[2])\n\tx6, x5 = bits.Mul64(x4, arg2[3])\n"
		if !strings.Contains(body, a) {
			t.Fatal("Mul64 pair not found")
		}
		body = strings.Replace(body, a, b, 1)
		c := "x19 := (uint64(uint1(x18)) + x6)"
		if !strings.Contains(body, c) {
			t.Fatal("x19 not found")
		}
		body = strings.Replace(body, c, "x19 := (x6 + uint64(uint1(x18)))", 1)
		body = strings.Replace(body, "bits.Add64(x12, x9, uint64(0x0))", "bits.Add64(x9, x12, uint64(0x0))", 1)
		return s[:i] + body + s[j:]
	})
	// mulGFlooredDiv: rename the closure and a column variable.
	edit(t, root, relGLV, func(s string) string {
		i := strings.Index(s, "\nfunc (s *Scalar) mulGFlooredDiv(")
		j := i + strings.Index(s[i:], "\n}\n")
		body := s[i:j]
		body = word(body, "innerProduct", "mac")
		body = word(body, "c5", "col5")
		body = word(body, "shouldAdd", "roundUp")
		return s[:i] + body + s[j:]
	})
	res := checkAll(t, root)
	n := 0
	for name, obs := range res {
		for _, o := range obs {
			n++
			if o.Status != "discharged" {
				t.Errorf("%s: refactored code no longer verifies: %s [%s] %s: %s", name, o.Key, o.Status, o.Pos, o.Detail)
			}
		}
	}
	t.Logf("%d obligations discharged on the refactored tree", n)
}

// ---------------------------------------------------------------- mutation sweep (soundness smoke test)

// TestMutationSweep mutates, one at a time, carry inputs, limb indices and
// literals of the field Mul / the scalar ToMontgomery and requires every
// mutant to be rejected.
func TestMutationSweep(t *testing.T) {
	needRepo(t)
	type target struct {
		rel, header string
		m           *big.Int
	}
	for _, tg := range []target{{relFiatP, "func Mul(", modP}, {relFiatN, "func ToMontgomery(", modN}} {
		data, err := os.ReadFile(filepath.Join(repoRoot, tg.rel))
		if err != nil {
			t.Fatal(err)
		}
		src := string(data)
		i := strings.Index(src, "\n"+tg.header) + 1
		j := i + strings.Index(src[i:], "\n}\n")
		body := src[i:j]
		type mut struct {
			at, n int
			repl  string
		}
		var muts []mut
		for k, loc := range regexp.MustCompile(`uint64\(uint1\(x\d+\)\)\)\n`).FindAllStringIndex(body, -1) {
			if k%3 == 0 { // carry-in (last argument) -> 0
				muts = append(muts, mut{loc[0], loc[1] - loc[0], "uint64(0x0))\n"})
			}
		}
		for _, loc := range regexp.MustCompile(`arg2\[\d\]`).FindAllStringIndex(body, -1) {
			d := body[loc[0]+5]
			muts = append(muts, mut{loc[0], loc[1] - loc[0], fmt.Sprintf("arg2[%c]", '0'+(d-'0'+1)%4)})
		}
		for k, loc := range regexp.MustCompile(`0x[0-9a-f]{9,16}\)`).FindAllStringIndex(body, -1) {
			if k%4 == 1 { // flip the lowest bit of a long literal
				lit := body[loc[0] : loc[1]-1]
				v, _ := new(big.Int).SetString(lit[2:], 16)
				v.Xor(v, big.NewInt(1))
				muts = append(muts, mut{loc[0], loc[1] - loc[0], "0x" + v.Text(16) + ")"})
			}
		}
		for k, loc := range regexp.MustCompile(`x\d+, x\d+ = bits\.Add64\(x\d+, x\d+,`).FindAllStringIndex(body, -1) {
			if k%5 == 0 { // Add64 -> Sub64
				s := strings.Replace(body[loc[0]:loc[1]], "Add64", "Sub64", 1)
				muts = append(muts, mut{loc[0], loc[1] - loc[0], s})
			}
		}
		dir := t.TempDir()
		fn := strings.TrimSuffix(strings.TrimPrefix(tg.header, "func "), "(")
		survivors := 0
		for _, mu := range muts {
			mb := body[:mu.at] + mu.repl + body[mu.at+mu.n:]
			if mb == body {
				continue
			}
			if err := os.WriteFile(filepath.Join(dir, filepath.Base(tg.rel)), []byte(src[:i]+mb+src[j:]), 0o644); err != nil {
				t.Fatal(err)
			}
			obs, err := CheckFiat(dir, tg.m)
			if err != nil {
				t.Fatal(err)
			}
			bad := failing(obs)
			if len(bad) == 0 {
				survivors++
				line := 1 + strings.Count(src[:i+mu.at], "\n")
				t.Errorf("%s: mutant at line %d (%q) verified", fn, line, mu.repl)
			}
			for _, o := range bad {
				if o.Func != fn {
					t.Errorf("mutation of %s made %s fail", fn, o.Key)
				}
			}
		}
		t.Logf("%s %s: %d mutants, %d survivors", filepath.Base(tg.rel), fn, len(muts), survivors)
	}
}
