package limbproof

import (
	"fmt"
	"go/ast"
	"go/parser"
	"go/token"
	"os"
	"path/filepath"
	"sort"
	"strings"
)

// loader parses package directories on demand (syntax only).
type loader struct {
	fset *token.FileSet
	pkgs map[string]*pkgInfo
}

type funcInfo struct {
	decl *ast.FuncDecl
	file *ast.File
	pkg  *pkgInfo
}

type varInfo struct {
	expr    ast.Expr
	typ     ast.Expr
	file    *ast.File
	isConst bool
}

type pkgInfo struct {
	dir     string
	name    string
	files   []*ast.File
	funcs   map[string]*funcInfo // "Name" or "Recv.Name"
	vars    map[string]*varInfo  // package-level vars and consts
	types   map[string]*typeInfo
	modRoot string
	modPath string
}

type typeInfo struct {
	expr ast.Expr
	file *ast.File
}

func newLoader() *loader {
	return &loader{fset: token.NewFileSet(), pkgs: map[string]*pkgInfo{}}
}

// load parses every non-test .go file of dir.  When primary is non-empty the
// declarations of that file take precedence over same-named declarations of
// other files (build-tag twins).
func (ld *loader) load(dir, primary string) (*pkgInfo, error) {
	dir = filepath.Clean(dir)
	if p, ok := ld.pkgs[dir]; ok {
		return p, nil
	}
	ents, err := os.ReadDir(dir)
	if err != nil {
		return nil, err
	}
	p := &pkgInfo{dir: dir, funcs: map[string]*funcInfo{}, vars: map[string]*varInfo{}, types: map[string]*typeInfo{}}
	var names []string
	for _, e := range ents {
		n := e.Name()
		if e.IsDir() || !strings.HasSuffix(n, ".go") || strings.HasSuffix(n, "_test.go") {
			continue
		}
		names = append(names, n)
	}
	sort.Strings(names)
	if primary != "" {
		// primary first so that its declarations win.
		pb := filepath.Base(primary)
		for i, n := range names {
			if n == pb {
				names[0], names[i] = names[i], names[0]
			}
		}
	}
	if len(names) == 0 {
		return nil, fmt.Errorf("limbproof: no Go files in %s", dir)
	}
	for _, n := range names {
		path := filepath.Join(dir, n)
		f, err := parser.ParseFile(ld.fset, path, nil, parser.SkipObjectResolution)
		if err != nil {
			return nil, err
		}
		if p.name == "" {
			p.name = f.Name.Name
		}
		p.files = append(p.files, f)
		for _, d := range f.Decls {
			switch d := d.(type) {
			case *ast.FuncDecl:
				key := d.Name.Name
				if d.Recv != nil && len(d.Recv.List) == 1 {
					key = recvTypeName(d.Recv.List[0].Type) + "." + key
				}
				if _, dup := p.funcs[key]; !dup {
					p.funcs[key] = &funcInfo{decl: d, file: f, pkg: p}
				}
			case *ast.GenDecl:
				for _, s := range d.Specs {
					switch s := s.(type) {
					case *ast.TypeSpec:
						if _, dup := p.types[s.Name.Name]; !dup {
							p.types[s.Name.Name] = &typeInfo{expr: s.Type, file: f}
						}
					case *ast.ValueSpec:
						for i, nm := range s.Names {
							if _, dup := p.vars[nm.Name]; dup {
								continue
							}
							vi := &varInfo{typ: s.Type, file: f, isConst: d.Tok == token.CONST}
							if i < len(s.Values) && len(s.Values) == len(s.Names) {
								vi.expr = s.Values[i]
							}
							p.vars[nm.Name] = vi
						}
					}
				}
			}
		}
	}
	p.modRoot, p.modPath = findModule(dir)
	ld.pkgs[dir] = p
	return p, nil
}

func recvTypeName(e ast.Expr) string {
	for {
		switch t := e.(type) {
		case *ast.StarExpr:
			e = t.X
		case *ast.ParenExpr:
			e = t.X
		case *ast.Ident:
			return t.Name
		case *ast.IndexExpr:
			e = t.X
		default:
			return "?"
		}
	}
}

func findModule(dir string) (root, path string) {
	d := dir
	for {
		data, err := os.ReadFile(filepath.Join(d, "go.mod"))
		if err == nil {
			for _, line := range strings.Split(string(data), "\n") {
				line = strings.TrimSpace(line)
				if strings.HasPrefix(line, "module") {
					f := strings.Fields(line)
					if len(f) >= 2 {
						return d, strings.Trim(f[1], `"`)
					}
				}
			}
			return d, ""
		}
		nd := filepath.Dir(d)
		if nd == d {
			return "", ""
		}
		d = nd
	}
}

// importPath returns the import path bound to local name nm in file f.
func importPath(f *ast.File, nm string) (string, bool) {
	for _, im := range f.Imports {
		path := strings.Trim(im.Path.Value, `"`)
		local := path[strings.LastIndex(path, "/")+1:]
		if im.Name != nil {
			local = im.Name.Name
		}
		if local == nm {
			return path, true
		}
	}
	return "", false
}

// resolveImport maps a module-internal import path to its directory.
func (ld *loader) resolveImport(from *pkgInfo, path string) (*pkgInfo, error) {
	if from.modPath == "" || !strings.HasPrefix(path, from.modPath) {
		return nil, fmt.Errorf("limbproof: import %q is outside the analysed module", path)
	}
	rel := strings.TrimPrefix(path, from.modPath)
	return ld.load(filepath.Join(from.modRoot, filepath.FromSlash(rel)), "")
}

func (ld *loader) posOf(n ast.Node) string {
	if n == nil {
		return "?"
	}
	p := ld.fset.Position(n.Pos())
	return fmt.Sprintf("%s:%d", p.Filename, p.Line)
}
