// Package limbproof is a static verifier for straight-line 64-bit limb
// arithmetic written with math/bits.  Every statement of the analysed Go
// code is turned into an exact equation over the integers; postconditions are
// decided by polynomial normalisation (exact identities over Q) plus interval
// reasoning for the range side-conditions.  Nothing is executed, sampled or
// handed to a solver.  Whatever the engine cannot justify is reported as
// "undecided"; it is never assumed.
package limbproof

import (
	"fmt"
	"math/big"
	"sort"
	"strings"
)

// Poly is a multivariate polynomial with rational coefficients.  The key of
// a monomial is the sorted list of its atom ids (2 bytes per occurrence).
type Poly map[string]*big.Rat

var (
	bigW   = new(big.Int).Lsh(big.NewInt(1), 64)
	bigWm1 = new(big.Int).Sub(bigW, big.NewInt(1))
	big0   = big.NewInt(0)
	big1   = big.NewInt(1)
)

func powW(k int) *big.Int { return new(big.Int).Lsh(big.NewInt(1), uint(64*k)) }

func monoKey(ids []int) string {
	b := make([]byte, 2*len(ids))
	for i, id := range ids {
		if id < 0 || id >= 1<<16 {
			panic("limbproof: atom id out of range")
		}
		b[2*i] = byte(id >> 8)
		b[2*i+1] = byte(id)
	}
	return string(b)
}

func monoIDs(k string) []int {
	ids := make([]int, len(k)/2)
	for i := range ids {
		ids[i] = int(k[2*i])<<8 | int(k[2*i+1])
	}
	return ids
}

func pZero() Poly { return Poly{} }

func pInt(c *big.Int) Poly {
	p := Poly{}
	if c.Sign() != 0 {
		p[""] = new(big.Rat).SetInt(c)
	}
	return p
}

func pInt64(c int64) Poly { return pInt(big.NewInt(c)) }

func pVar(id int) Poly { return Poly{monoKey([]int{id}): new(big.Rat).SetInt64(1)} }

func (p Poly) clone() Poly {
	q := make(Poly, len(p))
	for k, c := range p {
		q[k] = new(big.Rat).Set(c)
	}
	return q
}

func (p Poly) addTerm(k string, c *big.Rat) {
	if c.Sign() == 0 {
		return
	}
	if old, ok := p[k]; ok {
		old.Add(old, c)
		if old.Sign() == 0 {
			delete(p, k)
		}
		return
	}
	p[k] = new(big.Rat).Set(c)
}

func pAdd(a, b Poly) Poly {
	r := a.clone()
	for k, c := range b {
		r.addTerm(k, c)
	}
	return r
}

func pSub(a, b Poly) Poly {
	r := a.clone()
	t := new(big.Rat)
	for k, c := range b {
		t.Neg(c)
		r.addTerm(k, t)
	}
	return r
}

func pScaleRat(a Poly, s *big.Rat) Poly {
	r := make(Poly, len(a))
	if s.Sign() == 0 {
		return r
	}
	for k, c := range a {
		r[k] = new(big.Rat).Mul(c, s)
	}
	return r
}

func pScale(a Poly, s *big.Int) Poly { return pScaleRat(a, new(big.Rat).SetInt(s)) }

func pDivInt(a Poly, s *big.Int) Poly {
	return pScaleRat(a, new(big.Rat).SetFrac(big1, s))
}

func pNeg(a Poly) Poly { return pScale(a, big.NewInt(-1)) }

// pSum adds any number of polynomials.
func pSum(ps ...Poly) Poly {
	r := Poly{}
	for _, p := range ps {
		for k, c := range p {
			r.addTerm(k, c)
		}
	}
	return r
}

// pMul multiplies; isBool tells which atoms satisfy x*x = x.
func pMul(a, b Poly, isBool func(int) bool) Poly {
	r := Poly{}
	t := new(big.Rat)
	for ka, ca := range a {
		ia := monoIDs(ka)
		for kb, cb := range b {
			ib := monoIDs(kb)
			m := make([]int, 0, len(ia)+len(ib))
			m = append(m, ia...)
			m = append(m, ib...)
			sort.Ints(m)
			if isBool != nil {
				out := m[:0]
				for i, id := range m {
					if i > 0 && id == m[i-1] && isBool(id) {
						continue
					}
					out = append(out, id)
				}
				m = out
			}
			t.Mul(ca, cb)
			r.addTerm(monoKey(m), t)
		}
	}
	return r
}

func (p Poly) isZero() bool { return len(p) == 0 }

func pEqual(a, b Poly) bool {
	if len(a) != len(b) {
		return false
	}
	for k, c := range a {
		d, ok := b[k]
		if !ok || c.Cmp(d) != 0 {
			return false
		}
	}
	return true
}

// constant returns the integer value if p is an integer constant.
func (p Poly) constant() (*big.Int, bool) {
	if len(p) == 0 {
		return new(big.Int), true
	}
	if len(p) == 1 {
		if c, ok := p[""]; ok && c.IsInt() {
			return new(big.Int).Set(c.Num()), true
		}
	}
	return nil, false
}

// singleAtom reports whether p is exactly 1*atom.
func (p Poly) singleAtom() (int, bool) {
	if len(p) != 1 {
		return 0, false
	}
	for k, c := range p {
		if len(k) == 2 && c.Cmp(new(big.Rat).SetInt64(1)) == 0 {
			return monoIDs(k)[0], true
		}
	}
	return 0, false
}

func (p Poly) atoms() []int {
	seen := map[int]bool{}
	for k := range p {
		for _, id := range monoIDs(k) {
			seen[id] = true
		}
	}
	out := make([]int, 0, len(seen))
	for id := range seen {
		out = append(out, id)
	}
	sort.Ints(out)
	return out
}

// subst replaces atom id by q.
func (p Poly) subst(id int, q Poly, isBool func(int) bool) Poly {
	r := Poly{}
	for k, c := range p {
		ids := monoIDs(k)
		rest := ids[:0:0]
		n := 0
		for _, x := range ids {
			if x == id {
				n++
			} else {
				rest = append(rest, x)
			}
		}
		term := Poly{monoKey(rest): new(big.Rat).Set(c)}
		for i := 0; i < n; i++ {
			term = pMul(term, q, isBool)
		}
		for kk, cc := range term {
			r.addTerm(kk, cc)
		}
	}
	return r
}

// upper returns an upper bound of p given lower/upper bounds (all >= 0) of
// its atoms: positive terms take the upper bounds, negative terms the lower.
func (p Poly) upper(bounds func(int) (lo, hi *big.Int)) *big.Rat {
	sum := new(big.Rat)
	for k, c := range p {
		prod := new(big.Int).SetInt64(1)
		for _, id := range monoIDs(k) {
			lo, hi := bounds(id)
			if c.Sign() > 0 {
				prod.Mul(prod, hi)
			} else {
				prod.Mul(prod, lo)
			}
		}
		sum.Add(sum, new(big.Rat).Mul(c, new(big.Rat).SetInt(prod)))
	}
	return sum
}

// lower returns a lower bound of p (atoms >= 0).
func (p Poly) lower(bounds func(int) (lo, hi *big.Int)) *big.Rat {
	return new(big.Rat).Neg(pNeg(p).upper(bounds))
}

func ratFloor(r *big.Rat) *big.Int {
	q := new(big.Int)
	m := new(big.Int)
	q.DivMod(r.Num(), r.Denom(), m) // Euclidean: floor for positive denominators
	return q
}

// fmtCoef renders a coefficient compactly (k*W^e when possible).
func fmtCoef(c *big.Rat) string {
	if !c.IsInt() {
		return c.RatString()
	}
	n := new(big.Int).Set(c.Num())
	sign := ""
	if n.Sign() < 0 {
		sign = "-"
		n.Neg(n)
	}
	e := 0
	q, r := new(big.Int), new(big.Int)
	for n.Sign() != 0 {
		q.DivMod(n, bigW, r)
		if r.Sign() != 0 {
			break
		}
		n.Set(q)
		e++
	}
	s := ""
	switch {
	case n.BitLen() <= 16:
		s = n.String()
	default:
		s = "0x" + n.Text(16)
	}
	if e > 0 {
		if s == "1" {
			s = fmt.Sprintf("W^%d", e)
		} else {
			s = fmt.Sprintf("%s*W^%d", s, e)
		}
	}
	return sign + s
}

// format prints at most max monomials in a deterministic order.
func (p Poly) format(name func(int) string, max int) string {
	if len(p) == 0 {
		return "0"
	}
	keys := make([]string, 0, len(p))
	for k := range p {
		keys = append(keys, k)
	}
	sort.Slice(keys, func(i, j int) bool {
		if len(keys[i]) != len(keys[j]) {
			return len(keys[i]) > len(keys[j])
		}
		return keys[i] < keys[j]
	})
	var sb strings.Builder
	for i, k := range keys {
		if i == max {
			fmt.Fprintf(&sb, " ... (%d more terms)", len(keys)-max)
			break
		}
		if i > 0 {
			sb.WriteString(" + ")
		}
		sb.WriteString("(" + fmtCoef(p[k]) + ")")
		for _, id := range monoIDs(k) {
			sb.WriteString("*" + name(id))
		}
	}
	return sb.String()
}
