// Package load loads the type-checked program of /repo's current working tree.
package load

import (
	"fmt"
	"os"
	"sort"
	"strings"

	"golang.org/x/tools/go/packages"
	"golang.org/x/tools/go/ssa"
	"golang.org/x/tools/go/ssa/ssautil"
)

// ModulePath is the module path of the repository under analysis.
const ModulePath = "gitlab.com/yawning/secp256k1-voi"

// RepoDir returns the directory of the tree being analysed.
func RepoDir() string {
	if d := os.Getenv("VERIF_REPO"); d != "" {
		return d
	}
	return "/repo"
}

// Config is one build configuration.
type Config struct {
	Name   string
	GOARCH string
	Tags   string
}

var (
	AMD64  = Config{"amd64", "amd64", ""}
	Purego = Config{"amd64-purego", "amd64", "purego"}
	ARM64  = Config{"arm64", "arm64", ""}
)

// Program is a loaded configuration.
type Program struct {
	Config  Config
	Dir     string
	Pkgs    []*packages.Package          // module packages, sorted by path
	ByPath  map[string]*packages.Package // all packages incl. deps
	SSA     *ssa.Program
	SSAPkgs map[string]*ssa.Package
}

// ExpectedPackages are the packages of the module that every load must see.
var ExpectedPackages = []string{
	ModulePath,
	ModulePath + "/internal/disalloweq",
	ModulePath + "/internal/fiat/secp256k1montgomery",
	ModulePath + "/internal/fiat/secp256k1montgomeryscalar",
	ModulePath + "/internal/field",
	ModulePath + "/internal/helpers",
	ModulePath + "/internal/swu",
	ModulePath + "/secec",
	ModulePath + "/secec/bitcoin",
	ModulePath + "/secec/h2c",
}

// Load loads dir (default RepoDir()) in the given configuration with full
// syntax for the module and its dependencies, and builds SSA.
func Load(cfg Config, dir string) (*Program, error) {
	if dir == "" {
		dir = RepoDir()
	}
	env := []string{}
	for _, e := range os.Environ() {
		if strings.HasPrefix(e, "GOWORK=") || strings.HasPrefix(e, "GOARCH=") || strings.HasPrefix(e, "GOOS=") ||
			strings.HasPrefix(e, "GOFLAGS=") || strings.HasPrefix(e, "GOPROXY=") || strings.HasPrefix(e, "GOSUMDB=") ||
			strings.HasPrefix(e, "GOTOOLCHAIN=") || strings.HasPrefix(e, "CGO_ENABLED=") {
			continue
		}
		env = append(env, e)
	}
	env = append(env, "GOWORK=off", "GOARCH="+cfg.GOARCH, "GOOS=linux", "GOFLAGS=-mod=mod", "GOPROXY=off",
		"GOSUMDB=off", "GOTOOLCHAIN=local", "CGO_ENABLED=0")
	pc := &packages.Config{
		Mode: packages.LoadAllSyntax | packages.NeedEmbedFiles | packages.NeedEmbedPatterns | packages.NeedModule,
		Dir:  dir,
		Env:  env,
	}
	if cfg.Tags != "" {
		pc.BuildFlags = []string{"-tags=" + cfg.Tags}
	}
	roots, err := packages.Load(pc, "./...")
	if err != nil {
		return nil, fmt.Errorf("load %s: %w", cfg.Name, err)
	}
	p := &Program{Config: cfg, Dir: dir, ByPath: map[string]*packages.Package{}, SSAPkgs: map[string]*ssa.Package{}}
	var errs []string
	packages.Visit(roots, nil, func(pkg *packages.Package) {
		p.ByPath[pkg.PkgPath] = pkg
		for _, e := range pkg.Errors {
			errs = append(errs, e.Error())
		}
	})
	if len(errs) > 0 {
		sort.Strings(errs)
		if len(errs) > 10 {
			errs = errs[:10]
		}
		return nil, fmt.Errorf("load %s: type/parse errors:\n  %s", cfg.Name, strings.Join(errs, "\n  "))
	}
	for _, r := range roots {
		if r.PkgPath == ModulePath || strings.HasPrefix(r.PkgPath, ModulePath+"/") {
			p.Pkgs = append(p.Pkgs, r)
		}
	}
	sort.Slice(p.Pkgs, func(i, j int) bool { return p.Pkgs[i].PkgPath < p.Pkgs[j].PkgPath })
	have := map[string]bool{}
	for _, r := range p.Pkgs {
		have[r.PkgPath] = true
	}
	for _, e := range ExpectedPackages {
		if !have[e] {
			return nil, fmt.Errorf("load %s: expected package %s not loaded", cfg.Name, e)
		}
	}
	prog, _ := ssautil.AllPackages(roots, ssa.InstantiateGenerics)
	prog.Build()
	p.SSA = prog
	for path, pkg := range p.ByPath {
		if sp := prog.Package(pkg.Types); sp != nil {
			p.SSAPkgs[path] = sp
		}
	}
	return p, nil
}

// IsModulePkg reports whether path is a package of the module under analysis.
func IsModulePkg(path string) bool {
	return path == ModulePath || strings.HasPrefix(path, ModulePath+"/")
}

// LoadDir loads an arbitrary directory (used for the checker's own positive-control fixtures).
func LoadDir(dir string) (*ssa.Program, []*ssa.Package, error) {
	env := []string{}
	for _, e := range os.Environ() {
		if strings.HasPrefix(e, "GOWORK=") || strings.HasPrefix(e, "GOFLAGS=") || strings.HasPrefix(e, "GOPROXY=") || strings.HasPrefix(e, "GOSUMDB=") || strings.HasPrefix(e, "GOTOOLCHAIN=") {
			continue
		}
		env = append(env, e)
	}
	env = append(env, "GOWORK=off", "GOFLAGS=-mod=mod", "GOPROXY=off", "GOSUMDB=off", "GOTOOLCHAIN=local")
	pc := &packages.Config{Mode: packages.LoadAllSyntax, Dir: dir, Env: env}
	roots, err := packages.Load(pc, "./...")
	if err != nil {
		return nil, nil, err
	}
	for _, r := range roots {
		for _, e := range r.Errors {
			return nil, nil, fmt.Errorf("fixture %s: %s", dir, e.Error())
		}
	}
	prog, pkgs := ssautil.AllPackages(roots, ssa.InstantiateGenerics)
	prog.Build()
	return prog, pkgs, nil
}
