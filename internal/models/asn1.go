package models

import (
	"fmt"
	"go/types"
	"strings"

	"verif/internal/absint"
	"verif/internal/sym"
)

const (
	CryptobytePkg = "golang.org/x/crypto/cryptobyte"
	StdASN1Pkg    = "encoding/asn1"
)

// ASN1 returns the specification of the strict-DER reader / builder of x/crypto/cryptobyte
// (v0.11.0, written from its documentation) and of the encoding/asn1 value types it fills:
// a read of element kind K from the string s succeeds iff K_ok(s); it yields K_val(s) and
// leaves rest(K, s).  INTEGER reads into []byte yield the minimal non-negative big-endian
// magnitude (leading zero stripped).  Builder calls append DER elements.
func ASN1() *Set {
	s := NewSet()
	sm := func(name string, f absint.Intercept) { s.Intercepts["(*"+CryptobytePkg+".String)."+name] = f }
	// helpers
	cur := func(ex *absint.Exec, c *absint.CallCtx) (*absint.Ptr, *sym.Term) {
		p := ptrArg(ex, c, 0)
		if p == nil {
			return nil, sym.Fresh(sym.Bytes, "bad", 0)
		}
		return p, ex.SliceBytes(c.St, ex.LoadLeaf(c.St, p))
	}
	setStr := func(ex *absint.Exec, c *absint.CallCtx, p *absint.Ptr, t *sym.Term) {
		ex.StoreLeaf(c.St, p, ex.BytesToSlice(c.St, t, "der"), c.Pos)
	}
	sm("ReadASN1", func(ex *absint.Exec, c *absint.CallCtx) (absint.Val, bool) {
		p, str := cur(ex, c)
		out := ptrArg(ex, c, 1)
		tag := termArg(ex, c, 2)
		if p == nil || out == nil {
			return nil, false
		}
		setStr(ex, c, out, sym.App(sym.Bytes, "der_body", tag, str))
		setStr(ex, c, p, sym.App(sym.Bytes, "der_rest", tag, str))
		return sym.App(sym.Bool, "der_ok", tag, str), true
	})
	s.Intercepts["("+CryptobytePkg+".String).Empty"] = func(ex *absint.Exec, c *absint.CallCtx) (absint.Val, bool) {
		return sym.App(sym.Bool, "is_empty", ex.SliceBytes(c.St, c.Args[0])), true
	}
	sm("ReadASN1Integer", func(ex *absint.Exec, c *absint.CallCtx) (absint.Val, bool) {
		p, str := cur(ex, c)
		i, ok := c.St.Resolve(c.Args[1]).(*absint.Iface)
		if p == nil || !ok || i.Dyn == nil {
			return nil, false
		}
		pt, isP := i.Dyn.Underlying().(*types.Pointer)
		if !isP || !isByteSliceT(pt.Elem()) {
			ex.Failf("ReadASN1Integer into %s is not modelled (only *[]byte)", i.Dyn)
			return nil, false
		}
		out, _ := i.V.(*absint.Ptr)
		if out == nil {
			return nil, false
		}
		two := sym.ConstI(2)
		setStr(ex, c, out, sym.App(sym.Bytes, "der_int_bytes", str))
		setStr(ex, c, p, sym.App(sym.Bytes, "der_rest", two, str))
		return sym.App(sym.Bool, "der_int_ok", str), true
	})
	sm("ReadASN1ObjectIdentifier", func(ex *absint.Exec, c *absint.CallCtx) (absint.Val, bool) {
		p, str := cur(ex, c)
		out := ptrArg(ex, c, 1)
		if p == nil || out == nil {
			return nil, false
		}
		ex.StoreLeaf(c.St, out, sym.App(sym.Any, "der_oid", str), c.Pos)
		setStr(ex, c, p, sym.App(sym.Bytes, "der_rest", sym.ConstI(6), str))
		return sym.App(sym.Bool, "der_oid_ok", str), true
	})
	sm("ReadASN1BitString", func(ex *absint.Exec, c *absint.CallCtx) (absint.Val, bool) {
		p, str := cur(ex, c)
		out := ptrArg(ex, c, 1)
		if p == nil || out == nil {
			return nil, false
		}
		// encoding/asn1.BitString{Bytes []byte; BitLength int}
		ex.StoreLeaf(c.St, ex.FieldPtr(out, 0), ex.BytesToSlice(c.St, sym.App(sym.Bytes, "der_bits_bytes", str), "bits"), c.Pos)
		ex.StoreLeaf(c.St, ex.FieldPtr(out, 1), sym.App(sym.Int, "der_bits_len", str), c.Pos)
		setStr(ex, c, p, sym.App(sym.Bytes, "der_rest", sym.ConstI(3), str))
		return sym.App(sym.Bool, "der_bits_ok", str), true
	})
	sm("ReadASN1BitStringAsBytes", func(ex *absint.Exec, c *absint.CallCtx) (absint.Val, bool) {
		p, str := cur(ex, c)
		out := ptrArg(ex, c, 1)
		if p == nil || out == nil {
			return nil, false
		}
		setStr(ex, c, out, sym.App(sym.Bytes, "der_bits_bytes", str))
		setStr(ex, c, p, sym.App(sym.Bytes, "der_rest", sym.ConstI(3), str))
		whole := sym.Eq(absint.IntOp("mod", 64, sym.App(sym.Int, "der_bits_len", str), sym.ConstI(8)), sym.ConstI(0))
		return sym.Ite(sym.App(sym.Bool, "der_bits_ok", str), whole, sym.ConstBool(false)), true
	})
	s.Intercepts["("+StdASN1Pkg+".BitString).RightAlign"] = func(ex *absint.Exec, c *absint.CallCtx) (absint.Val, bool) {
		a, ok := c.St.Resolve(c.Args[0]).(*absint.Agg)
		if !ok || len(a.Elems) != 2 {
			return nil, false
		}
		b := ex.SliceBytes(c.St, a.Elems[0])
		l, _ := c.St.Resolve(a.Elems[1]).(*sym.Term)
		if l == nil {
			return nil, false
		}
		// with a whole number of bytes the content is returned unshifted
		whole := sym.Eq(absint.IntOp("mod", 64, l, sym.ConstI(8)), sym.ConstI(0))
		if d, ok := c.St.Decided(whole); ok && d {
			return ex.BytesToSlice(c.St, b, "aligned"), true
		}
		return ex.BytesToSlice(c.St, sym.App(sym.Bytes, "rightalign", b, l), "aligned"), true
	}
	s.Intercepts["("+StdASN1Pkg+".ObjectIdentifier).Equal"] = func(ex *absint.Exec, c *absint.CallCtx) (absint.Val, bool) {
		a, b := oidTerm(ex, c, 0), oidTerm(ex, c, 1)
		if a == nil || b == nil {
			return nil, false
		}
		if a.IsStrConst() && b.IsStrConst() {
			return sym.ConstBool(a.S == b.S), true
		}
		return sym.App(sym.Bool, "oid_eq", a, b), true
	}
	// ---- builder
	bt := CryptobytePkg + ".Builder"
	s.Abstract[bt] = sym.Bytes
	s.Zero[bt] = sym.ConstStr(sym.Bytes, "")
	bm := func(name string, f absint.Intercept) { s.Intercepts["(*"+bt+")."+name] = f }
	appendEl := func(ex *absint.Exec, c *absint.CallCtx, el *sym.Term) absint.Val {
		p := ptrArg(ex, c, 0)
		if p == nil {
			return nil
		}
		curB := loadAbsPtr(ex, c, p, sym.Bytes)
		ex.StoreLeaf(c.St, p, absint.CatBytes(curB, el), c.Pos)
		return nil
	}
	bm("AddASN1", func(ex *absint.Exec, c *absint.CallCtx) (absint.Val, bool) {
		tag := termArg(ex, c, 1)
		cl, ok := c.St.Resolve(c.Args[2]).(*absint.Closure)
		if !ok {
			return nil, false
		}
		child := ex.AllocAbs(bt, CryptobytePkg, "Builder", sym.ConstStr(sym.Bytes, ""))
		ex.CallClosure(c, cl, []absint.Val{child})
		body := loadAbsPtr(ex, c, child, sym.Bytes)
		return appendEl(ex, c, sym.App(sym.Bytes, "der_tlv", tag, body)), true
	})
	bm("AddASN1BigInt", func(ex *absint.Exec, c *absint.CallCtx) (absint.Val, bool) {
		return appendEl(ex, c, sym.App(sym.Bytes, "der_int", loadAbs(ex, c, 1, sym.Int))), true
	})
	bm("AddASN1ObjectIdentifier", func(ex *absint.Exec, c *absint.CallCtx) (absint.Val, bool) {
		o := oidTerm(ex, c, 1)
		if o == nil {
			return nil, false
		}
		return appendEl(ex, c, sym.App(sym.Bytes, "der_oid_enc", o)), true
	})
	bm("AddASN1BitString", func(ex *absint.Exec, c *absint.CallCtx) (absint.Val, bool) {
		return appendEl(ex, c, sym.App(sym.Bytes, "der_bitstring", ex.SliceBytes(c.St, c.Args[1]))), true
	})
	bm("BytesOrPanic", func(ex *absint.Exec, c *absint.CallCtx) (absint.Val, bool) {
		return ex.BytesToSlice(c.St, loadAbs(ex, c, 0, sym.Bytes), "der"), true
	})
	// ---- math/big (only what the signature builder uses)
	s.Abstract["math/big.Int"] = sym.Int
	s.Zero["math/big.Int"] = sym.ConstI(0)
	s.Intercepts["(*math/big.Int).SetBytes"] = func(ex *absint.Exec, c *absint.CallCtx) (absint.Val, bool) {
		return storeAbs(ex, c, 0, sym.App(sym.Int, "os2ip", ex.SliceBytes(c.St, c.Args[1]))), true
	}
	return s
}

func isByteSliceT(t types.Type) bool {
	sl, ok := t.Underlying().(*types.Slice)
	if !ok {
		return false
	}
	b, ok := sl.Elem().Underlying().(*types.Basic)
	return ok && b.Kind() == types.Uint8
}

// oidTerm renders an ObjectIdentifier argument: a dotted string constant for constant slices,
// or the opaque term stored by ReadASN1ObjectIdentifier.
func oidTerm(ex *absint.Exec, c *absint.CallCtx, i int) *sym.Term {
	switch x := c.St.Resolve(c.Args[i]).(type) {
	case *sym.Term:
		return x
	case *absint.SliceVal:
		n, ok := c.St.Simplify(x.Len).Int64()
		if !ok || x.Base == nil || n > 32 {
			return nil
		}
		var parts []string
		for k := int64(0); k < n; k++ {
			v, _ := c.St.Resolve(ex.LoadElem(c.St, x, k)).(*sym.Term)
			if v == nil || !v.IsConst() {
				return nil
			}
			parts = append(parts, fmt.Sprint(v.C))
		}
		return sym.ConstStr(sym.Any, strings.Join(parts, "."))
	}
	return nil
}
