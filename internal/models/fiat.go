package models

import (
	"go/types"
	"math/big"

	"verif/internal/absint"
	"verif/internal/sym"
)

// Fiat returns the specification of one fiat package (field: sort Fp, scalar: sort Fn).
// Montgomery-domain and non-Montgomery-domain limb arrays are abstract cells holding
// the represented ring element; the limb-level correctness of each routine is the
// subject of limbproof.CheckFiat.
func Fiat(pkg string, srt sym.Sort) *Set {
	s := NewSet()
	s.Abstract[pkg+".MontgomeryDomainFieldElement"] = srt
	fn := func(name string, f absint.Intercept) { s.Intercepts[pkg+"."+name] = f }
	bin := func(op func(a, b *sym.Term) *sym.Term) absint.Intercept {
		return func(ex *absint.Exec, c *absint.CallCtx) (absint.Val, bool) {
			storeRing(ex, c, 0, op(loadRing(ex, c, 1, srt), loadRing(ex, c, 2, srt)))
			return nil, true
		}
	}
	fn("Add", bin(sym.Add))
	fn("Sub", bin(sym.Sub))
	fn("Mul", bin(sym.Mul))
	fn("Square", func(ex *absint.Exec, c *absint.CallCtx) (absint.Val, bool) {
		a := loadRing(ex, c, 1, srt)
		storeRing(ex, c, 0, sym.Mul(a, a))
		return nil, true
	})
	fn("Opp", func(ex *absint.Exec, c *absint.CallCtx) (absint.Val, bool) {
		storeRing(ex, c, 0, sym.Neg(loadRing(ex, c, 1, srt)))
		return nil, true
	})
	cp := func(ex *absint.Exec, c *absint.CallCtx) (absint.Val, bool) {
		storeRing(ex, c, 0, loadRing(ex, c, 1, srt))
		return nil, true
	}
	fn("FromMontgomery", cp)
	fn("ToMontgomery", cp)
	fn("SetOne", func(ex *absint.Exec, c *absint.CallCtx) (absint.Val, bool) {
		storeRing(ex, c, 0, sym.Const(srt, big.NewInt(1)))
		return nil, true
	})
	fn("Nonzero", func(ex *absint.Exec, c *absint.CallCtx) (absint.Val, bool) {
		out := ptrArg(ex, c, 0)
		if out == nil {
			return nil, false
		}
		// out1 = 0 iff the element is 0; modelled as the Bool [x != 0]
		ex.StoreLeaf(c.St, out, sym.Not(RingEq(loadRing(ex, c, 1, srt), sym.Const(srt, big.NewInt(0)))), c.Pos)
		return nil, true
	})
	fn("Selectznz", func(ex *absint.Exec, c *absint.CallCtx) (absint.Val, bool) {
		ctrl := termArg(ex, c, 1)
		a, b := loadRing(ex, c, 2, srt), loadRing(ex, c, 3, srt)
		storeRing(ex, c, 0, sym.Ite(boolOf(ctrl), b, a))
		return nil, true
	})
	fn("Msat", func(ex *absint.Exec, c *absint.CallCtx) (absint.Val, bool) {
		out := ptrArg(ex, c, 0)
		if out == nil {
			return nil, false
		}
		m := sym.Modulus(srt)
		ws := make([]*sym.Term, 5)
		mask := new(big.Int).SetUint64(^uint64(0))
		for i := range ws {
			w := new(big.Int).Rsh(m, uint(64*i))
			ws[i] = sym.Const(sym.Int, w.And(w, mask))
		}
		ex.WriteWords(c.St, out, ws)
		return nil, true
	})
	return s
}

// LoadRingOperand loads the ring element behind argument i, which may point to an abstract ring object (Scalar /
// Element), into one (&x.m), or to four plain limbs holding a canonical representative.
func LoadRingOperand(ex *absint.Exec, c *absint.CallCtx, i int, srt sym.Sort) *sym.Term {
	if p, ok := c.St.Resolve(c.Args[i]).(*absint.Ptr); ok {
		if leaf := ex.EnclosingLeaf(c.St, p); leaf != nil {
			return loadAbsPtr(ex, c, leaf, srt)
		}
	}
	return loadRing(ex, c, i, srt)
}

// FiatOnAbstract: the conversions out of the Montgomery domain applied to the limbs of an object that this layer keeps
// abstract (fiat.FromMontgomery(&nm, &s.m) with s an abstract Scalar): the destination receives the limbs of the
// canonical representative.
func FiatOnAbstract(pkg string, srt sym.Sort) *Set {
	s := NewSet()
	s.Intercepts[pkg+".FromMontgomery"] = func(ex *absint.Exec, c *absint.CallCtx) (absint.Val, bool) {
		in, ok := c.St.Resolve(c.Args[1]).(*absint.Ptr)
		if !ok {
			return nil, false
		}
		leaf := ex.EnclosingLeaf(c.St, in)
		out := ptrArg(ex, c, 0)
		if leaf == nil || out == nil || ex.IsLeaf(c.St, out) {
			return nil, false
		}
		t := loadAbsPtr(ex, c, leaf, srt)
		ex.WriteWords(c.St, out, limbsOf(sym.App(sym.Int, "int_of:"+srt.String(), t)))
		return nil, true
	}
	putSaturatedHelper(s, true)
	return s
}

// BigInt is the integer value of a byte string / limb vector before reduction.
func os2ip(b *sym.Term) *sym.Term {
	if v, ok := bytesConstToInt(b); ok {
		return sym.Const(sym.Int, v)
	}
	return sym.App(sym.Int, "os2ip", b)
}

// limbsOf returns the four 64-bit limbs (little endian) of an integer term.
func limbsOf(v *sym.Term) []*sym.Term {
	out := make([]*sym.Term, 4)
	mask := new(big.Int).SetUint64(^uint64(0))
	for i := range out {
		if v.IsConst() {
			w := new(big.Int).Rsh(v.C, uint(64*i))
			out[i] = sym.Const(sym.Int, w.And(w, mask))
		} else {
			out[i] = sym.App(sym.Int, "limb", v, sym.ConstI(int64(i)))
		}
	}
	return out
}

// fromLimbs recognises limb(V,0..3) (or constants) and returns V.
func fromLimbs(ws []*sym.Term) (*sym.Term, bool) {
	if len(ws) != 4 {
		return nil, false
	}
	allConst := true
	for _, w := range ws {
		if !w.IsConst() {
			allConst = false
		}
	}
	if allConst {
		v := new(big.Int)
		for k := 3; k >= 0; k-- {
			v.Lsh(v, 64)
			v.Add(v, ws[k].C)
		}
		return sym.Const(sym.Int, v), true
	}
	var base *sym.Term
	for i, w := range ws {
		if w.Op != "limb" {
			return nil, false
		}
		if k, ok := w.Args[1].Int64(); !ok || int(k) != i {
			return nil, false
		}
		if base == nil {
			base = w.Args[0]
		} else if base != w.Args[0] {
			return nil, false
		}
	}
	return base, true
}

// loadRing loads the ring element behind a *[4]uint64-like argument: an abstract
// cell, or four concrete limbs.
func loadRing(ex *absint.Exec, c *absint.CallCtx, i int, srt sym.Sort) *sym.Term {
	return loadRingVal(ex, c, c.St.Resolve(c.Args[i]), i, srt)
}

func loadRingVal(ex *absint.Exec, c *absint.CallCtx, v absint.Val, i int, srt sym.Sort) *sym.Term {
	if ch, ok := v.(*absint.Choice); ok {
		// a merged / loop-carried pointer: the element behind whichever address it holds
		return sym.Ite(ch.Cond, loadRingVal(ex, c, c.St.Resolve(ch.A), i, srt), loadRingVal(ex, c, c.St.Resolve(ch.B), i, srt))
	}
	if ag, isAgg := v.(*absint.Agg); isAgg && len(ag.Elems) == 4 {
		// four limbs passed by value
		ws := make([]*sym.Term, 4)
		for k, e := range ag.Elems {
			t, isT := c.St.Resolve(e).(*sym.Term)
			if !isT {
				ex.Failf("%s: limb %d of argument %d is not a term", c.Name, k, i)
				return sym.Fresh(srt, "bad", 0)
			}
			ws[k] = c.St.Simplify(t)
		}
		if iv, isInt := fromLimbs(ws); isInt {
			return IntToRing(srt, iv)
		}
		return sym.App(srt, "of_limbs:"+srt.String(), ws...)
	}
	p, ok := v.(*absint.Ptr)
	if !ok {
		ex.Failf("%s: argument %d is not a pointer: %s", c.Name, i, absint.ValString(v))
		return sym.Fresh(srt, "bad", 0)
	}
	if ex.IsLeaf(c.St, p) {
		return loadAbsPtr(ex, c, p, srt)
	}
	ws := ex.ReadWords(c.St, p, 4)
	iv, isInt := fromLimbs(ws)
	if !isInt {
		return sym.App(srt, "of_limbs:"+srt.String(), ws...)
	}
	return IntToRing(srt, iv)
}

// IntToRing converts a 256-bit integer term to a ring element (value mod modulus).
func IntToRing(srt sym.Sort, v *sym.Term) *sym.Term {
	if v.IsConst() {
		return sym.Const(srt, v.C)
	}
	switch v.Op {
	case "os2ip":
		return OfBytes(srt, v.Args[0])
	case "int_of:" + srt.String():
		return v.Args[0]
	case "modred:" + srt.String():
		return IntToRing(srt, v.Args[0])
	case "ite":
		return sym.Ite(v.Args[0], IntToRing(srt, v.Args[1]), IntToRing(srt, v.Args[2]))
	}
	return sym.App(srt, "of_int:"+srt.String(), v)
}

func storeRing(ex *absint.Exec, c *absint.CallCtx, i int, t *sym.Term) {
	p := ptrArg(ex, c, i)
	if p == nil {
		return
	}
	if ex.IsLeaf(c.St, p) {
		ex.StoreLeaf(c.St, p, t, c.Pos)
		return
	}
	// a plain limb array receives the canonical representative
	ex.WriteWords(c.St, p, limbsOf(sym.App(sym.Int, "int_of:"+t.Sort.String(), t)))
}

// ReduceSaturated installs the specification of the two reduceSaturated helpers
// (verified by limbproof.CheckReduceSaturated) and the byte/limb helpers.
func ReduceSaturated() *Set {
	s := NewSet()
	for _, e := range []struct {
		name string
		srt  sym.Sort
	}{{FieldPkg + ".reduceSaturated", sym.Fp}, {Mod + ".reduceSaturated", sym.Fn}} {
		srt := e.srt
		s.Intercepts[e.name] = func(ex *absint.Exec, c *absint.CallCtx) (absint.Val, bool) {
			// shapes: (dst, src) flag; in place (l) flag; by value (src) (limbs, flag)
			var dst, src *absint.Ptr
			var words []*sym.Term
			byValue := false
			switch {
			case len(c.Args) == 2:
				dst, src = ptrArg(ex, c, 0), ptrArg(ex, c, 1)
			case len(c.Args) == 1:
				if ag, isAgg := c.St.Resolve(c.Args[0]).(*absint.Agg); isAgg && len(ag.Elems) == 4 {
					// the limbs handed over by value
					for _, e := range ag.Elems {
						t, isT := c.St.Resolve(e).(*sym.Term)
						if !isT {
							return nil, false
						}
						words = append(words, c.St.Simplify(t))
					}
					byValue = true
					break
				}
				src = ptrArg(ex, c, 0)
				if c.Fn != nil && c.Fn.Signature.Results().Len() == 2 {
					byValue = true
				} else {
					dst = src
				}
			}
			if words == nil {
				if src == nil || (dst == nil && !byValue) {
					return nil, false
				}
				words = ex.ReadWords(c.St, src, 4)
			}
			if byValue && (c.Fn == nil || c.Fn.Signature.Results().Len() != 2) {
				return nil, false
			}
			v, ok := fromLimbs(words)
			if !ok {
				return nil, false
			}
			var ge, red *sym.Term
			if v.IsConst() {
				m := sym.Modulus(srt)
				ge = sym.ConstBool(v.C.Cmp(m) >= 0)
				red = sym.Const(sym.Int, new(big.Int).Mod(v.C, m))
			} else if v.Op == "os2ip" {
				ge = GeModulus(srt, v.Args[0])
				red = sym.App(sym.Int, "modred:"+srt.String(), v)
			} else {
				ge = sym.App(sym.Bool, "ge:"+srt.String(), v)
				red = sym.App(sym.Int, "modred:"+srt.String(), v)
			}
			if byValue {
				a := &absint.Agg{Elems: make([]absint.Val, 4)}
				for i, w := range limbsOf(red) {
					a.Elems[i] = w
				}
				// the position of the flag among the results follows the declaration
				if bt, isBasic := c.Fn.Signature.Results().At(0).Type().Underlying().(*types.Basic); isBasic && bt.Info()&types.IsInteger != 0 {
					return absint.Tuple{ge, a}, true
				}
				return absint.Tuple{a, ge}, true
			}
			ex.WriteWords(c.St, dst, limbsOf(red))
			return ge, true
		}
	}
	saturatedHelpers(s)
	s.Intercepts[HelpersPkg+".FiatLimbsAreEqual"] = func(ex *absint.Exec, c *absint.CallCtx) (absint.Val, bool) {
		a, b := ptrArg(ex, c, 0), ptrArg(ex, c, 1)
		if a == nil || b == nil || !ex.IsLeaf(c.St, a) || !ex.IsLeaf(c.St, b) {
			return nil, false
		}
		return RingEq(loadAbsPtr(ex, c, a, sym.Fp), loadAbsPtr(ex, c, b, sym.Fp)), true
	}
	return s
}

// saturatedHelpers: the byte <-> saturated-limb helpers (verified by limbproof.CheckHelpers).
func saturatedHelpers(s *Set) {
	s.Intercepts[HelpersPkg+".BytesToSaturated"] = func(ex *absint.Exec, c *absint.CallCtx) (absint.Val, bool) {
		b := readArr32(ex, c, 0)
		ws := limbsOf(os2ip(b))
		a := &absint.Agg{Elems: make([]absint.Val, 4)}
		for i, w := range ws {
			a.Elems[i] = w
		}
		return a, true
	}
	putSaturatedHelper(s, false)
}

// putSaturatedHelper: limbs -> canonical big-endian bytes.  onlyAbstract: decline (the body is then analysed as written)
// unless the limbs are those of the canonical representative of an abstract ring element.
func putSaturatedHelper(s *Set, onlyAbstract bool) {
	s.Intercepts[HelpersPkg+".PutSaturatedToBytes"] = func(ex *absint.Exec, c *absint.CallCtx) (absint.Val, bool) {
		dst, src := ptrArg(ex, c, 0), ptrArg(ex, c, 1)
		if dst == nil || src == nil {
			return nil, false
		}
		var b *sym.Term
		if ex.IsLeaf(c.St, src) {
			if onlyAbstract {
				return nil, false
			}
			t := loadAbsPtr(ex, c, src, sym.Fp)
			b = ToBytes(t.Sort, t)
		} else {
			ws := ex.ReadWords(c.St, src, 4)
			if v, ok := fromLimbs(ws); ok && v.Op == "int_of:fp" {
				b = ToBytes(sym.Fp, v.Args[0])
			} else if ok && v.Op == "int_of:fn" {
				b = ToBytes(sym.Fn, v.Args[0])
			} else if onlyAbstract {
				return nil, false
			} else {
				b = sym.App(sym.Bytes, "be_limbs", ws...)
				sym.SetBytesLen(b, 32)
			}
		}
		return ex.WriteArray(c.St, dst, b, 32), true
	}
}
