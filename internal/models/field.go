// Package models holds the specifications of the lower layers of the library as
// intercepts for the abstract interpreter: a higher layer is analysed against
// these, and each model is itself the subject of a lower-layer check
// (assume/guarantee, DESIGN.md section 0.2).
package models

import (
	"encoding/hex"
	"go/types"
	"math/big"
	"strings"

	"golang.org/x/tools/go/ssa"

	"verif/internal/absint"
	"verif/internal/load"
	"verif/internal/sym"
)

const (
	Mod         = load.ModulePath
	FieldPkg    = Mod + "/internal/field"
	HelpersPkg  = Mod + "/internal/helpers"
	FiatFPkg    = Mod + "/internal/fiat/secp256k1montgomery"
	FiatSPkg    = Mod + "/internal/fiat/secp256k1montgomeryscalar"
	SwuPkg      = Mod + "/internal/swu"
	SececPkg    = Mod + "/secec"
	BitcoinPkg  = Mod + "/secec/bitcoin"
	H2cPkg      = Mod + "/secec/h2c"
	ElementType = FieldPkg + ".Element"
	ScalarType  = Mod + ".Scalar"
	PointType   = Mod + ".Point"
	AffineType  = Mod + ".affinePoint"
)

// Set is a collection of intercepts plus abstract types.
type Set struct {
	Intercepts map[string]absint.Intercept
	Abstract   map[string]sym.Sort
	Zero       map[string]absint.Val
	Globals    map[string]func(ex *absint.Exec, g *ssa.Global) *absint.Cell
}

// NewSet makes an empty set.
func NewSet() *Set {
	s := &Set{Intercepts: map[string]absint.Intercept{}, Abstract: map[string]sym.Sort{}, Zero: map[string]absint.Val{},
		Globals: map[string]func(ex *absint.Exec, g *ssa.Global) *absint.Cell{}}
	// The generator tables are never produced by abstractly running their
	// initialisers; their content is symbolic (C05 checks the real content).
	for _, name := range []string{"generatorHugeAffineTable", "generatorOddAffineTable"} {
		name := name
		s.Globals[Mod+"."+name] = func(ex *absint.Exec, g *ssa.Global) *absint.Cell {
			return ex.SymGlobalCell(g, name)
		}
	}
	return s
}

// Merge adds another set (later entries win).
func (s *Set) Merge(o *Set) *Set {
	for k, v := range o.Intercepts {
		s.Intercepts[k] = v
	}
	for k, v := range o.Abstract {
		s.Abstract[k] = v
	}
	for k, v := range o.Zero {
		s.Zero[k] = v
	}
	for k, v := range o.Globals {
		s.Globals[k] = v
	}
	return s
}

// Apply installs the set into a configuration.
func (s *Set) Apply(cfg *absint.Config) {
	if cfg.Intercepts == nil {
		cfg.Intercepts = map[string]absint.Intercept{}
	}
	for k, v := range s.Intercepts {
		cfg.Intercepts[k] = v
	}
	if cfg.GlobalInit == nil {
		cfg.GlobalInit = map[string]func(ex *absint.Exec, g *ssa.Global) *absint.Cell{}
	}
	for k, v := range s.Globals {
		cfg.GlobalInit[k] = v
	}
	abs := s.Abstract
	zero := s.Zero
	cfg.AbstractType = func(q string) (sym.Sort, bool) { srt, ok := abs[q]; return srt, ok }
	cfg.AbstractZero = func(q string) absint.Val { return zero[q] }
}

// ---------------------------------------------------------------- helpers

func ptrArg(ex *absint.Exec, c *absint.CallCtx, i int) *absint.Ptr {
	if i >= len(c.Args) {
		ex.Failf("%s: no argument %d (the routine's signature differs from the one its specification was written for)", c.Name, i)
		return nil
	}
	v := c.St.Resolve(c.Args[i])
	p, ok := v.(*absint.Ptr)
	if !ok {
		ex.Failf("%s: argument %d is not a pointer: %s", c.Name, i, absint.ValString(v))
		return nil
	}
	return p
}

func termArg(ex *absint.Exec, c *absint.CallCtx, i int) *sym.Term {
	v := c.St.Resolve(c.Args[i])
	t, ok := v.(*sym.Term)
	if !ok {
		ex.Failf("%s: argument %d is not a term: %s", c.Name, i, absint.ValString(v))
		return sym.Fresh(sym.Any, "arg", absint.TaintOf(v))
	}
	return c.St.Simplify(t)
}

// loadAbs loads the abstract value behind a pointer argument (a merged pointer yields an ite-term).
func loadAbs(ex *absint.Exec, c *absint.CallCtx, i int, srt sym.Sort) *sym.Term {
	return loadAbsVal(ex, c, c.St.Resolve(c.Args[i]), i, srt)
}

func loadAbsVal(ex *absint.Exec, c *absint.CallCtx, v absint.Val, i int, srt sym.Sort) *sym.Term {
	switch x := v.(type) {
	case *absint.Ptr:
		return loadAbsPtr(ex, c, x, srt)
	case *absint.Choice:
		a, b := c.St.Resolve(x.A), c.St.Resolve(x.B)
		// a nil alternative would be a nil dereference: record the panic and continue with the other alternative
		if _, isNil := a.(absint.Nil); isNil {
			ex.PanicIf(c, x.Cond, "nil pointer dereference")
			return loadAbsVal(ex, c, b, i, srt)
		}
		if _, isNil := b.(absint.Nil); isNil {
			ex.PanicIf(c, sym.Not(x.Cond), "nil pointer dereference")
			return loadAbsVal(ex, c, a, i, srt)
		}
		return sym.Ite(x.Cond, loadAbsVal(ex, c, a, i, srt), loadAbsVal(ex, c, b, i, srt))
	}
	ex.Failf("%s: argument %d is not a pointer: %s", c.Name, i, absint.ValString(v))
	return sym.Fresh(srt, "bad", 0)
}

func loadAbsPtr(ex *absint.Exec, c *absint.CallCtx, p *absint.Ptr, srt sym.Sort) *sym.Term {
	v := c.St.Resolve(ex.LoadLeaf(c.St, p))
	t, ok := v.(*sym.Term)
	if !ok {
		ex.Failf("%s: operand %s does not hold a term: %s", c.Name, p, absint.ValString(v))
		return sym.Fresh(srt, "bad", absint.TaintOf(v))
	}
	return t
}

// storeAbs stores t behind pointer argument i (through a merged pointer: a conditional update of every alternative).
func storeAbs(ex *absint.Exec, c *absint.CallCtx, i int, t *sym.Term) absint.Val {
	v := c.St.Resolve(c.Args[i])
	storeAbsVal(ex, c, v, t, nil)
	if _, ok := v.(*absint.Ptr); !ok {
		if _, isC := v.(*absint.Choice); !isC {
			ex.Failf("%s: argument %d is not a pointer: %s", c.Name, i, absint.ValString(v))
			return nil
		}
	}
	return v
}

func storeAbsVal(ex *absint.Exec, c *absint.CallCtx, v absint.Val, t *sym.Term, cond *sym.Term) {
	switch x := v.(type) {
	case *absint.Ptr:
		nv := t
		if cond != nil {
			old, _ := c.St.Resolve(ex.LoadLeaf(c.St, x)).(*sym.Term)
			if old == nil {
				old = sym.Fresh(t.Sort, "old", 0)
			}
			nv = sym.Ite(cond, t, old)
		}
		ex.StoreLeaf(c.St, x, nv, c.Pos)
	case *absint.Choice:
		and := func(a, b *sym.Term) *sym.Term {
			if a == nil {
				return b
			}
			return sym.Ite(a, b, sym.ConstBool(false))
		}
		storeAbsVal(ex, c, c.St.Resolve(x.A), t, and(cond, x.Cond))
		storeAbsVal(ex, c, c.St.Resolve(x.B), t, and(cond, sym.Not(x.Cond)))
	}
}

func boolOf(t *sym.Term) *sym.Term { return absint.AsBool(t) }

// readArr32 reads the 32 bytes behind a *[32]byte argument.
func readArr32(ex *absint.Exec, c *absint.CallCtx, i int) *sym.Term {
	p := ptrArg(ex, c, i)
	if p == nil {
		return sym.Fresh(sym.Bytes, "bad", 0)
	}
	return ex.ReadArray(c.St, p, 32)
}

func parseHexConst(t *sym.Term) (*big.Int, bool) {
	if !t.IsStrConst() {
		return nil, false
	}
	s := strings.TrimPrefix(t.S, "0x")
	if len(s) > 64 {
		return nil, false
	}
	v, ok := new(big.Int).SetString(s, 16)
	return v, ok
}

func bytesConstToInt(b *sym.Term) (*big.Int, bool) {
	if !b.IsStrConst() {
		return nil, false
	}
	return new(big.Int).SetBytes([]byte(b.S)), true
}

// OfBytes builds the reduction of a 32-byte big-endian string into a ring.
func OfBytes(srt sym.Sort, b *sym.Term) *sym.Term {
	if v, ok := bytesConstToInt(b); ok {
		return sym.Const(srt, v)
	}
	op := "fp_of_bytes"
	if srt == sym.Fn {
		op = "fn_of_bytes"
	}
	// decoding an encoding gives the value back
	if b.Op == toBytesOp(srt) {
		return b.Args[0]
	}
	return sym.App(srt, op, b)
}

// GeModulus is the "not canonical" predicate of a 32-byte string.
func GeModulus(srt sym.Sort, b *sym.Term) *sym.Term {
	if v, ok := bytesConstToInt(b); ok {
		return sym.ConstBool(v.Cmp(sym.Modulus(srt)) >= 0)
	}
	if b.Op == toBytesOp(srt) {
		return sym.ConstBool(false)
	}
	op := "ge_p"
	if srt == sym.Fn {
		op = "ge_n"
		// an encoding of a field element is < p but may be >= n; an Fn encoding is < n < p
	} else if b.Op == "fn_bytes" {
		return sym.ConstBool(false) // n < p
	}
	return sym.App(sym.Bool, op, b)
}

func toBytesOp(srt sym.Sort) string {
	if srt == sym.Fn {
		return "fn_bytes"
	}
	return "fp_bytes"
}

// ToBytes is the canonical 32-byte big-endian encoding.
func ToBytes(srt sym.Sort, t *sym.Term) *sym.Term {
	if t.IsConst() {
		b := make([]byte, 32)
		t.C.FillBytes(b)
		return sym.ConstStr(sym.Bytes, string(b))
	}
	return sym.App(sym.Bytes, toBytesOp(srt), t)
}

// Inv is the modelled inverse (0 -> 0).
func Inv(t *sym.Term) *sym.Term {
	if t.IsConst() {
		m := sym.Modulus(t.Sort)
		if t.C.Sign() == 0 {
			return t
		}
		return sym.Const(t.Sort, new(big.Int).ModInverse(t.C, m))
	}
	return sym.App(t.Sort, "inv", t)
}

// ring installs the arithmetic methods shared by field.Element and Scalar.
func ring(s *Set, recv string, srt sym.Sort) {
	m := func(name string, f absint.Intercept) { s.Intercepts["(*"+recv+")."+name] = f }
	zero := sym.Const(srt, big.NewInt(0))
	one := sym.Const(srt, big.NewInt(1))
	m("Zero", func(ex *absint.Exec, c *absint.CallCtx) (absint.Val, bool) { return storeAbs(ex, c, 0, zero), true })
	m("One", func(ex *absint.Exec, c *absint.CallCtx) (absint.Val, bool) { return storeAbs(ex, c, 0, one), true })
	m("Add", func(ex *absint.Exec, c *absint.CallCtx) (absint.Val, bool) {
		return storeAbs(ex, c, 0, sym.Add(loadAbs(ex, c, 1, srt), loadAbs(ex, c, 2, srt))), true
	})
	m("Subtract", func(ex *absint.Exec, c *absint.CallCtx) (absint.Val, bool) {
		return storeAbs(ex, c, 0, sym.Sub(loadAbs(ex, c, 1, srt), loadAbs(ex, c, 2, srt))), true
	})
	m("Negate", func(ex *absint.Exec, c *absint.CallCtx) (absint.Val, bool) {
		return storeAbs(ex, c, 0, sym.Neg(loadAbs(ex, c, 1, srt))), true
	})
	m("Multiply", func(ex *absint.Exec, c *absint.CallCtx) (absint.Val, bool) {
		return storeAbs(ex, c, 0, sym.Mul(loadAbs(ex, c, 1, srt), loadAbs(ex, c, 2, srt))), true
	})
	m("Square", func(ex *absint.Exec, c *absint.CallCtx) (absint.Val, bool) {
		a := loadAbs(ex, c, 1, srt)
		return storeAbs(ex, c, 0, sym.Mul(a, a)), true
	})
	pow2k := func(ex *absint.Exec, c *absint.CallCtx) (absint.Val, bool) {
		a := loadAbs(ex, c, 1, srt)
		k := termArg(ex, c, 2)
		if kv, ok := k.Int64(); ok && kv >= 1 && kv < 4096 {
			return storeAbs(ex, c, 0, sym.Pow(a, new(big.Int).Lsh(big.NewInt(1), uint(kv)))), true
		}
		if kv, ok := k.Int64(); ok && kv == 0 {
			ex.PanicHere(c, "Pow2k: k out of bounds")
		}
		return storeAbs(ex, c, 0, sym.App(srt, "pow2k", a, k)), true
	}
	m("Pow2k", pow2k)
	m("pow2k", pow2k)
	m("Set", func(ex *absint.Exec, c *absint.CallCtx) (absint.Val, bool) {
		return storeAbs(ex, c, 0, loadAbs(ex, c, 1, srt)), true
	})
	m("Invert", func(ex *absint.Exec, c *absint.CallCtx) (absint.Val, bool) {
		return storeAbs(ex, c, 0, Inv(loadAbs(ex, c, 1, srt))), true
	})
	m("ConditionalSelect", func(ex *absint.Exec, c *absint.CallCtx) (absint.Val, bool) {
		a, b, ctrl := loadAbs(ex, c, 1, srt), loadAbs(ex, c, 2, srt), termArg(ex, c, 3)
		return storeAbs(ex, c, 0, sym.Ite(boolOf(ctrl), b, a)), true
	})
	m("ConditionalNegate", func(ex *absint.Exec, c *absint.CallCtx) (absint.Val, bool) {
		a, ctrl := loadAbs(ex, c, 1, srt), termArg(ex, c, 2)
		return storeAbs(ex, c, 0, sym.Ite(boolOf(ctrl), sym.Neg(a), a)), true
	})
	m("Equal", func(ex *absint.Exec, c *absint.CallCtx) (absint.Val, bool) {
		return RingEq(loadAbs(ex, c, 0, srt), loadAbs(ex, c, 1, srt)), true
	})
	m("IsZero", func(ex *absint.Exec, c *absint.CallCtx) (absint.Val, bool) {
		return RingEq(loadAbs(ex, c, 0, srt), zero), true
	})
	m("SetBytes", func(ex *absint.Exec, c *absint.CallCtx) (absint.Val, bool) {
		b := readArr32(ex, c, 1)
		r := storeAbs(ex, c, 0, OfBytes(srt, b))
		return absint.Tuple{r, GeModulus(srt, b)}, true
	})
	m("SetCanonicalBytes", func(ex *absint.Exec, c *absint.CallCtx) (absint.Val, bool) {
		b := readArr32(ex, c, 1)
		bad := GeModulus(srt, b)
		old := loadAbs(ex, c, 0, srt)
		r := storeAbs(ex, c, 0, sym.Ite(bad, old, OfBytes(srt, b)))
		errv := &absint.Iface{Opaque: sym.Sym(sym.Any, "errNonCanonical:"+srt.String()), NonNil: true}
		return absint.Tuple{absint.MergeVal(bad, absint.Nil{}, r), absint.MergeVal(bad, errv, &absint.Iface{})}, true
	})
	bytesOf := func(ex *absint.Exec, c *absint.CallCtx) (absint.Val, bool) {
		return ex.BytesToSlice(c.St, ToBytes(srt, loadAbs(ex, c, 0, srt)), "bytes"), true
	}
	m("Bytes", bytesOf)
	m("getBytes", func(ex *absint.Exec, c *absint.CallCtx) (absint.Val, bool) {
		if len(c.Args) == 1 && c.Fn != nil && c.Fn.Signature.Results().Len() == 1 {
			// the encoding returned as an array by value
			if at, ok := c.Fn.Signature.Results().At(0).Type().Underlying().(*types.Array); ok && at.Len() == 32 {
				b := ToBytes(srt, loadAbs(ex, c, 0, srt))
				a := &absint.Agg{Typ: c.Fn.Signature.Results().At(0).Type(), Elems: make([]absint.Val, 32)}
				for k := range a.Elems {
					a.Elems[k] = absint.ByteAt(b, sym.ConstI(int64(k)))
				}
				return a, true
			}
		}
		dst := ptrArg(ex, c, 1)
		if dst == nil {
			return nil, false
		}
		return ex.WriteArray(c.St, dst, ToBytes(srt, loadAbs(ex, c, 0, srt)), 32), true
	})
}

// RingEq is the modelled constant-time equality (a Bool term, argument order irrelevant).
func RingEq(a, b *sym.Term) *sym.Term {
	if sym.Equal(a, b) {
		return sym.ConstBool(true)
	}
	if a.IsConst() && b.IsConst() {
		return sym.ConstBool(a.C.Cmp(b.C) == 0)
	}
	return sym.App(sym.Bool, "eq", sym.Canon(a), sym.Canon(b))
}

// Field returns the specification of package internal/field (Element as an element of F_p).
// If exactInvert is set, Invert is modelled as x^(p-2) instead of the opaque inv(x).
func Field() *Set {
	s := NewSet()
	s.Abstract[ElementType] = sym.Fp
	ring(s, ElementType, sym.Fp)
	m := func(name string, f absint.Intercept) { s.Intercepts["(*"+ElementType+")."+name] = f }
	fn := func(name string, f absint.Intercept) { s.Intercepts[FieldPkg+"."+name] = f }
	m("IsOdd", func(ex *absint.Exec, c *absint.CallCtx) (absint.Val, bool) {
		return Odd(loadAbs(ex, c, 0, sym.Fp)), true
	})
	m("MustSetCanonicalBytes", func(ex *absint.Exec, c *absint.CallCtx) (absint.Val, bool) {
		b := readArr32(ex, c, 1)
		bad := c.St.Simplify(GeModulus(sym.Fp, b))
		if !(bad.IsConst() && bad.C.Sign() == 0) {
			ex.PanicIf(c, bad, "MustSetCanonicalBytes: non-canonical input")
		}
		return storeAbs(ex, c, 0, OfBytes(sym.Fp, b)), true
	})
	m("uncheckedSetSaturated", func(ex *absint.Exec, c *absint.CallCtx) (absint.Val, bool) {
		return storeAbs(ex, c, 0, ofLimbs(ex, c, 1, sym.Fp)), true
	})
	m("Sqrt", func(ex *absint.Exec, c *absint.CallCtx) (absint.Val, bool) {
		a := sym.Canon(loadAbs(ex, c, 1, sym.Fp))
		one := sym.Const(sym.Fp, big.NewInt(1))
		isSq := sym.App(sym.Bool, "sqrt_ratio_qr", a, one)
		r := storeAbs(ex, c, 0, sym.Ite(isSq, sym.App(sym.Fp, "sqrt_ratio", a, one), sym.Const(sym.Fp, big.NewInt(0))))
		return absint.Tuple{r, isSq}, true
	})
	m("SqrtRatio", func(ex *absint.Exec, c *absint.CallCtx) (absint.Val, bool) {
		u, v := sym.Canon(loadAbs(ex, c, 1, sym.Fp)), sym.Canon(loadAbs(ex, c, 2, sym.Fp))
		r := storeAbs(ex, c, 0, sym.App(sym.Fp, "sqrt_ratio", u, v))
		return absint.Tuple{r, sym.App(sym.Bool, "sqrt_ratio_qr", u, v)}, true
	})
	m("pow3mod4", func(ex *absint.Exec, c *absint.CallCtx) (absint.Val, bool) {
		e := new(big.Int).Sub(sym.P, big.NewInt(3))
		e.Rsh(e, 2)
		return storeAbs(ex, c, 0, sym.Pow(loadAbs(ex, c, 1, sym.Fp), e)), true
	})
	m("SetWideBytes", func(ex *absint.Exec, c *absint.CallCtx) (absint.Val, bool) {
		b := ex.SliceBytes(c.St, c.Args[1])
		n, ok := sym.BytesLen(b)
		if ok && (n < 32 || n > 64) {
			ex.PanicHere(c, "SetWideBytes: length out of range")
		}
		if !ok {
			ex.PanicIf(c, sym.App(sym.Bool, "wide_len_out_of_range", b), "SetWideBytes: length out of range")
		}
		return storeAbs(ex, c, 0, sym.App(sym.Fp, "fp_of_wide", b)), true
	})
	m("String", func(ex *absint.Exec, c *absint.CallCtx) (absint.Val, bool) {
		return sym.App(sym.Bytes, "hex", ToBytes(sym.Fp, loadAbs(ex, c, 0, sym.Fp))), true
	})
	fn("NewElementFrom", func(ex *absint.Exec, c *absint.CallCtx) (absint.Val, bool) {
		// a fresh element holding the operand's value
		return ex.AllocAbs(ElementType, FieldPkg, "Element", loadAbs(ex, c, 0, sym.Fp)), true
	})
	fn("NewElementFromUint64", func(ex *absint.Exec, c *absint.CallCtx) (absint.Val, bool) {
		l := termArg(ex, c, 0)
		var t *sym.Term
		if l.IsConst() {
			t = sym.Const(sym.Fp, l.C)
		} else {
			// the element whose saturated limbs are (l, 0, 0, 0): the same term the code layer builds from the limb array
			t = sym.App(sym.Fp, "of_limbs:"+sym.Fp.String(), l, sym.ConstI(0), sym.ConstI(0), sym.ConstI(0))
		}
		return ex.AllocAbs(ElementType, FieldPkg, "Element", t), true
	})
	fn("NewElementFromCanonicalHex", func(ex *absint.Exec, c *absint.CallCtx) (absint.Val, bool) {
		v, ok := parseHexConst(termArg(ex, c, 0))
		if !ok || v.Cmp(sym.P) >= 0 {
			ex.PanicHere(c, "NewElementFromCanonicalHex: bad constant")
			return nil, true
		}
		return ex.AllocAbs(ElementType, FieldPkg, "Element", sym.Const(sym.Fp, v)), true
	})
	fn("BytesAreCanonical", func(ex *absint.Exec, c *absint.CallCtx) (absint.Val, bool) {
		return sym.Not(GeModulus(sym.Fp, readArr32(ex, c, 0))), true
	})
	return s
}

// Odd is the parity of the canonical representative.
func Odd(t *sym.Term) *sym.Term {
	if t.IsConst() {
		return sym.ConstBool(t.C.Bit(0) == 1)
	}
	return sym.App(sym.Bool, "odd", sym.Canon(t))
}

// ofLimbs reads a *[4]uint64 of saturated limbs as a ring element.
func ofLimbs(ex *absint.Exec, c *absint.CallCtx, i int, srt sym.Sort) *sym.Term {
	if len(c.Args) == i+4 {
		// the four limbs handed over as separate words
		ws := make([]absint.Val, 4)
		all := true
		for k := range ws {
			ws[k] = c.St.Resolve(c.Args[i+k])
			if _, isT := ws[k].(*sym.Term); !isT {
				all = false
			}
		}
		if all {
			return loadRingVal(ex, c, &absint.Agg{Elems: ws}, i, srt)
		}
	}
	return loadRing(ex, c, i, srt)
}

// Helpers returns the specification of package internal/helpers (verified by limbproof.CheckHelpers).
func Helpers() *Set {
	s := NewSet()
	fn := func(name string, f absint.Intercept) { s.Intercepts[HelpersPkg+"."+name] = f }
	zeroI := sym.ConstI(0)
	fn("Uint64IsZero", func(ex *absint.Exec, c *absint.CallCtx) (absint.Val, bool) {
		return IntIsZero(termArg(ex, c, 0)), true
	})
	fn("Uint64IsNonzero", func(ex *absint.Exec, c *absint.CallCtx) (absint.Val, bool) {
		return sym.Not(IntIsZero(termArg(ex, c, 0))), true
	})
	fn("Uint64Equal", func(ex *absint.Exec, c *absint.CallCtx) (absint.Val, bool) {
		a, b := termArg(ex, c, 0), termArg(ex, c, 1)
		if a.Sort == sym.Bool && b.Sort == sym.Bool {
			return sym.Ite(a, b, sym.Not(b)), true
		}
		return sym.Eq(a, b), true
	})
	_ = zeroI
	for _, f := range []string{FiatFPkg, FiatSPkg} {
		s.Intercepts[f+".Uint64ToUint1"] = func(ex *absint.Exec, c *absint.CallCtx) (absint.Val, bool) {
			return sym.Not(IntIsZero(termArg(ex, c, 0))), true
		}
	}
	return s
}

// IntIsZero is [t == 0] for an integer or Bool term.
func IntIsZero(t *sym.Term) *sym.Term {
	if t.Sort == sym.Bool {
		return sym.Not(t)
	}
	// OR of 0/1 flags
	if t.Op == "bor" {
		r := sym.ConstBool(true)
		for _, a := range t.Args {
			r = sym.Ite(a, sym.ConstBool(false), r)
		}
		return r
	}
	return absint.EqInt(t, sym.ConstI(0))
}

var _ = hex.EncodeToString
