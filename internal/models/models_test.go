package models

import (
	"fmt"
	"testing"

	"verif/internal/absint"
	"verif/internal/load"
	"verif/internal/sym"
)

var prog *load.Program

func getProg(t *testing.T) *load.Program {
	if prog == nil {
		p, err := load.Load(load.AMD64, "")
		if err != nil {
			t.Fatal(err)
		}
		prog = p
	}
	return prog
}

func TestAddComplete(t *testing.T) {
	p := getProg(t)
	cfg := &absint.Config{Prog: p}
	NewSet().Merge(Field()).Merge(Helpers()).Apply(cfg)
	ex := absint.New(cfg)
	fn := ex.Func("(*" + PointType + ").addComplete")
	if fn == nil {
		t.Fatal("no fn")
	}
	st := ex.NewState()
	args := []absint.Val{
		ex.SymParam(fn.Params[0].Type(), "v", 0),
		ex.SymParam(fn.Params[1].Type(), "p", 0),
		ex.SymParam(fn.Params[2].Type(), "q", 0),
	}
	out, err := ex.Call(st, fn, args)
	if err != nil {
		t.Fatal(err)
	}
	fmt.Println(ex.Summary(), ex.Fails)
	if out.Ret == nil {
		t.Fatal("no ret")
	}
	v := args[0].(*absint.Ptr)
	for i, name := range []string{"x", "y", "z"} {
		val := ex.LoadLeaf(out.Ret.St, &absint.Ptr{Obj: v.Obj, Path: []absint.Step{{Field: i + 1}}})
		tm := val.(*sym.Term)
		fmt.Println(name, len(sym.PolyOf(tm).Terms), sym.PolyOf(tm))
	}
}
