package models

import (
	"math/big"

	"golang.org/x/tools/go/ssa"

	"verif/internal/absint"
	"verif/internal/sym"
)

// AffineZero marks a zero-valued affinePoint (not a curve point).
var AffineZero = sym.ConstStr(sym.Point, "affine-zero")

// Lambda is the eigenvalue of the endomorphism (x,y) -> (beta*x, y); its relation to the
// literals of the code is the subject of C04-1.
var Lambda, _ = new(big.Int).SetString("5363ad4cc05c30e0a5261c028812645a122e22ea20816678df02967c1b23bd72", 16)

// IntToFn converts a small non-negative integer term (a window value) into a scalar.
func IntToFn(t *sym.Term) *sym.Term {
	if t.IsConst() {
		return sym.Const(sym.Fn, t.C)
	}
	return sym.App(sym.Fn, "fn_of_int", t)
}

// PointInternal is the specification of the unexported point routines: points are
// abstract group elements (representation independence is C03's subject), the
// complete formulas are the group operation.
func PointInternal(facts *PointFacts) *Set {
	s := PointSpec(facts)
	s.Abstract[AffineType] = sym.Point
	s.Zero[AffineType] = AffineZero
	m := func(name string, f absint.Intercept) { s.Intercepts["(*"+PointType+")."+name] = f }
	fn := func(name string, f absint.Intercept) { s.Intercepts[Mod+"."+name] = f }

	fn("assertPointsValid", func(ex *absint.Exec, c *absint.CallCtx) (absint.Val, bool) {
		// the uninitialised-point panic is modelled by loadPoint at the operations themselves
		return nil, true
	})
	m("addComplete", func(ex *absint.Exec, c *absint.CallCtx) (absint.Val, bool) {
		return storeAbs(ex, c, 0, sym.Add(loadAbs(ex, c, 1, sym.Point), loadAbs(ex, c, 2, sym.Point))), true
	})
	m("doubleComplete", func(ex *absint.Exec, c *absint.CallCtx) (absint.Val, bool) {
		p := loadAbs(ex, c, 1, sym.Point)
		return storeAbs(ex, c, 0, sym.Add(p, p)), true
	})
	m("addMixed", func(ex *absint.Exec, c *absint.CallCtx) (absint.Val, bool) {
		p := loadAbs(ex, c, 1, sym.Point)
		x2, y2 := ptrArg(ex, c, 2), ptrArg(ex, c, 3)
		if x2 == nil || y2 == nil {
			return nil, false
		}
		// x2, y2 must be the two coordinates of one affine point
		if x2.Obj != y2.Obj || len(x2.Path) == 0 || len(y2.Path) != len(x2.Path) {
			ex.Failf("addMixed: x2 and y2 are not the coordinates of one affine point")
			return nil, false
		}
		n := len(x2.Path)
		for i := 0; i < n-1; i++ {
			if x2.Path[i].Field != y2.Path[i].Field || x2.Path[i].Index != y2.Path[i].Index {
				ex.Failf("addMixed: x2 and y2 belong to different affine points")
				return nil, false
			}
		}
		if x2.Path[n-1].Field != 0 || y2.Path[n-1].Field != 1 {
			ex.Failf("addMixed: operands are not (x, y) of an affine point")
			return nil, false
		}
		ap := &absint.Ptr{Obj: x2.Obj, Path: x2.Path[:n-1]}
		a := loadAbsPtr(ex, c, ap, sym.Point)
		var r *sym.Term
		switch {
		case a == AffineZero:
			r = sym.App(sym.Point, "mixed-add-of-non-point", sym.Canon(p))
		case a.Op == "ite":
			// keep the structure: the formula is only meaningful where the addend is a point
			r = mapIte(a, func(t *sym.Term) *sym.Term {
				if t == AffineZero {
					return sym.App(sym.Point, "mixed-add-of-non-point", sym.Canon(p))
				}
				return sym.Add(p, t)
			})
		default:
			r = sym.Add(p, a)
		}
		return storeAbs(ex, c, 0, r), true
	})
	m("uncheckedConditionalSelect", func(ex *absint.Exec, c *absint.CallCtx) (absint.Val, bool) {
		a, b := loadAbs(ex, c, 1, sym.Point), loadAbs(ex, c, 2, sym.Point)
		return storeAbs(ex, c, 0, sym.Ite(boolOf(termArg(ex, c, 3)), b, a)), true
	})
	m("mulBeta", func(ex *absint.Exec, c *absint.CallCtx) (absint.Val, bool) {
		return storeAbs(ex, c, 0, sym.Mul(sym.Const(sym.Fn, Lambda), loadPoint(ex, c, 1))), true
	})
	m("rescale", func(ex *absint.Exec, c *absint.CallCtx) (absint.Val, bool) {
		return storeAbs(ex, c, 0, loadPoint(ex, c, 1)), true
	})
	// the exported multiplication routines are analysed, not assumed, at this layer
	for _, n := range []string{"ScalarMult", "scalarMultVartimeGLV", "ScalarBaseMult", "scalarBaseMultVartime", "DoubleScalarMultBasepointVartime", "MultiScalarMult", "MultiScalarMultVartime"} {
		delete(s.Intercepts, "(*"+PointType+")."+n)
	}
	// lookups: out = idx == 0 ? identity : tbl[idx-1]   (C19 ties the assembly to this)
	lookup := func(identity *sym.Term) absint.Intercept {
		return func(ex *absint.Exec, c *absint.CallCtx) (absint.Val, bool) {
			tbl := ptrArg(ex, c, 0)
			idx := termArg(ex, c, 2)
			if tbl == nil {
				return nil, false
			}
			var r *sym.Term
			if identity != nil {
				r = identity
			} else {
				r = loadAbs(ex, c, 1, sym.Point) // affine twin leaves `out` unchanged for idx 0
			}
			entries := make([]*sym.Term, 15)
			for i := range entries {
				entries[i] = loadAbsPtr(ex, c, ex.ElemPtr(tbl, int64(i)), sym.Point)
			}
			if k, ok := idx.Int64(); ok {
				if k >= 1 && k <= 15 {
					r = entries[k-1]
				}
			} else {
				for i := 14; i >= 0; i-- {
					r = sym.Ite(sym.Eq(idx, sym.ConstI(int64(i+1))), entries[i], r)
				}
			}
			storeAbs(ex, c, 1, r)
			return nil, true
		}
	}
	fn("lookupProjectivePoint", lookup(PointZero))
	fn("lookupAffinePoint", lookup(nil))
	return s
}

func mapIte(t *sym.Term, f func(*sym.Term) *sym.Term) *sym.Term {
	if t.Op == "ite" {
		return sym.Ite(t.Args[0], mapIte(t.Args[1], f), mapIte(t.Args[2], f))
	}
	return f(t)
}

// SemanticTables gives the two generator tables their specified content:
// huge[i][j] = (j+1) * 256^i * G and odd[i][j] = (j+1) * 16 * 256^i * G.
// C05 rules 1-3 tie the embedded file, the decoder and the derivation to this.
func SemanticTables(s *Set) {
	mk := func(odd bool) func(ex *absint.Exec, g *ssa.Global) *absint.Cell {
		return func(ex *absint.Exec, g *ssa.Global) *absint.Cell {
			cols := 255
			if odd {
				cols = 15
			}
			rows := make([]*absint.Cell, 32)
			base := big.NewInt(1)
			for i := 0; i < 32; i++ {
				row := make([]*absint.Cell, cols)
				for j := 0; j < cols; j++ {
					k := new(big.Int).Mul(base, big.NewInt(int64(j+1)))
					if odd {
						k.Mul(k, big.NewInt(16))
					}
					row[j] = &absint.Cell{V: sym.Mul(sym.Const(sym.Fn, k), G)}
				}
				rows[i] = &absint.Cell{Kids: row}
				base = new(big.Int).Mul(base, big.NewInt(256))
			}
			return ex.PtrToNewObject(g, &absint.Cell{Kids: rows})
		}
	}
	s.Globals[Mod+".generatorHugeAffineTable"] = mk(false)
	s.Globals[Mod+".generatorOddAffineTable"] = mk(true)
}
