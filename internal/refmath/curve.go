package refmath

import "math/big"

// Affine is a point of E: y^2 = x^3 + 7 over F_p in affine coordinates, or the
// identity when Inf is set (X, Y are then ignored and may be nil).
type Affine struct {
	X, Y *big.Int
	Inf  bool
}

// Infinity returns the identity element.
func Infinity() Affine { return Affine{Inf: true} }

// G returns the generator (fresh coordinates).
func G() Affine { return Affine{X: Gx(), Y: Gy()} }

// OnCurve reports whether a is the identity, or has canonical coordinates
// (0 <= x, y < P) satisfying y^2 = x^3 + 7 (mod P).
func OnCurve(a Affine) bool {
	if a.Inf {
		return true
	}
	if a.X == nil || a.Y == nil {
		return false
	}
	if a.X.Sign() < 0 || a.Y.Sign() < 0 || a.X.Cmp(pConst) >= 0 || a.Y.Cmp(pConst) >= 0 {
		return false
	}
	lhs := new(big.Int).Mul(a.Y, a.Y)
	lhs.Mod(lhs, pConst)
	rhs := new(big.Int).Mul(a.X, a.X)
	rhs.Mul(rhs, a.X)
	rhs.Add(rhs, big.NewInt(CurveB))
	rhs.Mod(rhs, pConst)
	return lhs.Cmp(rhs) == 0
}

// EqualAffine reports whether a and b are the same point (coordinates are
// compared modulo P).
func EqualAffine(a, b Affine) bool {
	if a.Inf || b.Inf {
		return a.Inf && b.Inf
	}
	return Mod(a.X, pConst).Cmp(Mod(b.X, pConst)) == 0 &&
		Mod(a.Y, pConst).Cmp(Mod(b.Y, pConst)) == 0
}

// NegAffine returns -a = (x, -y).
func NegAffine(a Affine) Affine {
	if a.Inf {
		return Infinity()
	}
	return Affine{X: Mod(a.X, pConst), Y: Mod(new(big.Int).Neg(a.Y), pConst)}
}

// DoubleAffine returns 2a by the tangent rule: s = 3x^2 / 2y,
// x3 = s^2 - 2x, y3 = s(x - x3) - y.  A point with y = 0 has order 2 (none
// exists on secp256k1, but the case is handled) and doubles to the identity.
func DoubleAffine(a Affine) Affine {
	if a.Inf {
		return Infinity()
	}
	x, y := Mod(a.X, pConst), Mod(a.Y, pConst)
	if y.Sign() == 0 {
		return Infinity()
	}
	num := new(big.Int).Mul(x, x)
	num.Mul(num, big.NewInt(3))
	den := new(big.Int).Lsh(y, 1)
	s := num.Mul(num, Inv(den, pConst))
	s.Mod(s, pConst)
	return chord(s, x, y, x)
}

// AddAffine returns a + b.  It is complete: it handles the identity on either
// side, a == b (doubling) and a == -b (identity).
func AddAffine(a, b Affine) Affine {
	if a.Inf {
		if b.Inf {
			return Infinity()
		}
		return Affine{X: Mod(b.X, pConst), Y: Mod(b.Y, pConst)}
	}
	if b.Inf {
		return Affine{X: Mod(a.X, pConst), Y: Mod(a.Y, pConst)}
	}
	x1, y1 := Mod(a.X, pConst), Mod(a.Y, pConst)
	x2, y2 := Mod(b.X, pConst), Mod(b.Y, pConst)
	if x1.Cmp(x2) == 0 {
		if y1.Cmp(y2) == 0 {
			return DoubleAffine(a)
		}
		// Same x, different y: on the curve this forces y2 = -y1.
		return Infinity()
	}
	num := new(big.Int).Sub(y2, y1)
	den := new(big.Int).Sub(x2, x1)
	s := num.Mul(num, Inv(den, pConst))
	s.Mod(s, pConst)
	return chord(s, x1, y1, x2)
}

// chord finishes an addition with slope s through (x1, y1) and a second point
// with abscissa x2: x3 = s^2 - x1 - x2, y3 = s (x1 - x3) - y1.
func chord(s, x1, y1, x2 *big.Int) Affine {
	x3 := new(big.Int).Mul(s, s)
	x3.Sub(x3, x1)
	x3.Sub(x3, x2)
	x3.Mod(x3, pConst)
	y3 := new(big.Int).Sub(x1, x3)
	y3.Mul(y3, s)
	y3.Sub(y3, y1)
	y3.Mod(y3, pConst)
	return Affine{X: x3, Y: y3}
}

// ScalarMulAffine returns k*a by plain left-to-right double-and-add.  k may be
// any integer (negative k multiplies -a); it is NOT reduced modulo N, so that
// e.g. N*G = identity is a genuine computation.
func ScalarMulAffine(k *big.Int, a Affine) Affine {
	if k.Sign() < 0 {
		return ScalarMulAffine(new(big.Int).Neg(k), NegAffine(a))
	}
	r := Infinity()
	for i := k.BitLen() - 1; i >= 0; i-- {
		r = DoubleAffine(r)
		if k.Bit(i) == 1 {
			r = AddAffine(r, a)
		}
	}
	return r
}
