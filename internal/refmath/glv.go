package refmath

import (
	"errors"
	"fmt"
	"math/big"
)

// GLVConsts are the values of the GLV-related literals found in the source.
// NegLambda, NegB1, NegB2, G1, G2 are residues modulo N in [0, N); Beta is a
// residue modulo P in [0, P).
type GLVConsts struct {
	NegLambda, Beta, NegB1, NegB2, G1, G2 *big.Int
}

// GLVShift is the fixed-point shift of the rounding constants g1, g2.
const GLVShift = 384

// GLVBasis is the signed short lattice basis {(A1,B1), (A2,B2)} of
// {(x,y) : x + y*lambda = 0 (mod N)} recovered from GLVConsts, together with
// lambda and the determinant A1*B2 - A2*B1.
type GLVBasis struct {
	Lambda, A1, B1, A2, B2, Det *big.Int
}

// GLVBound is the rigorous bound on the decomposition outputs derived by
// GLVBounds.  All rationals are exact.
type GLVBound struct {
	Basis          GLVBasis
	Delta1, Delta2 *big.Rat // |e_i| <= Delta_i
	K1, K2         *big.Rat // |k1| <= K1, |k2| <= K2 (exact)
	K1Ceil, K2Ceil *big.Int // ceilings of the above
}

// RecoverGLVBasis derives the signed basis from the literals:
//
//	lambda = N - NegLambda
//	b1 = -NegB1              (NegB1 is itself the small positive integer -b1)
//	b2 = N - NegB2           (NegB2 = -b2 mod N with b2 small positive)
//	a_i = centered residue of -b_i * lambda mod N, so a_i + b_i*lambda = 0 (mod N)
//
// No size or determinant checks are made here.
func RecoverGLVBasis(c GLVConsts) (GLVBasis, error) {
	for _, v := range []*big.Int{c.NegLambda, c.NegB1, c.NegB2} {
		if v == nil || v.Sign() < 0 || v.Cmp(nConst) >= 0 {
			return GLVBasis{}, errors.New("NegLambda/NegB1/NegB2 must be residues in [0, N)")
		}
	}
	lambda := new(big.Int).Sub(nConst, c.NegLambda)
	b1 := new(big.Int).Neg(c.NegB1)
	b2 := new(big.Int).Sub(nConst, c.NegB2)
	a1 := centered(new(big.Int).Neg(new(big.Int).Mul(b1, lambda)), nConst)
	a2 := centered(new(big.Int).Neg(new(big.Int).Mul(b2, lambda)), nConst)
	det := new(big.Int).Mul(a1, b2)
	det.Sub(det, new(big.Int).Mul(a2, b1))
	return GLVBasis{Lambda: lambda, A1: a1, B1: b1, A2: a2, B2: b2, Det: det}, nil
}

// roundHalfUpDiv returns floor(num/den + 1/2) for den != 0.
func roundHalfUpDiv(num, den *big.Int) *big.Int {
	n, d := new(big.Int).Set(num), new(big.Int).Set(den)
	if d.Sign() < 0 {
		n.Neg(n)
		d.Neg(d)
	}
	// floor((2n + d) / 2d); big.Int.Div is Euclidean, i.e. floor for d > 0.
	n.Lsh(n, 1)
	n.Add(n, d)
	d.Lsh(d, 1)
	return n.Div(n, d)
}

func ceilRat(r *big.Rat) *big.Int {
	// ceil(a/b) = -floor(-a/b), b > 0; Div is floor for positive divisor.
	q := new(big.Int).Neg(r.Num())
	q.Div(q, r.Denom())
	return q.Neg(q)
}

// GLVBounds derives, in exact rational arithmetic, upper bounds on |k1| and
// |k2| (as signed, centered integers) valid for EVERY k in [0, N) for the
// decomposition
//
//	c_i = floor(k*g_i / 2^384) + bit383(k*g_i)  = round-half-up(k*g_i / 2^384)
//	k2  = -c1*b1 - c2*b2 (mod N),   k1 = k - k2*lambda (mod N).
//
// Derivation.  Let v1 = (a1,b1), v2 = (a2,b2), D = a1*b2 - a2*b1 (= +-N).
// Over Q, (k,0) = t1*v1 + t2*v2 with t1 = k*b2/D, t2 = -k*b1/D (Cramer).
// Write c_i = t_i + e_i.  Since c_i is k*g_i/2^384 rounded to nearest,
// |c_i - k*g_i/2^384| <= 1/2, hence for 0 <= k < N
//
//	|e_i| <= 1/2 + k*|g_i/2^384 - t_i/k| <= 1/2 + N*|g_i/2^384 - x_i/D| =: delta_i
//
// with x_1 = b2, x_2 = -b1.  As integers,
// (k,0) - c1*v1 - c2*v2 = -(e1*v1 + e2*v2), whose first component is
// congruent to k1 and whose second is congruent to k2 modulo N (because
// a_i + b_i*lambda = 0 mod N).  Therefore, provided the bounds do not exceed
// (N-1)/2 so that the centered residues are these very integers,
//
//	|k1| <= delta1*|a1| + delta2*|a2|,   |k2| <= delta1*|b1| + delta2*|b2|.
//
// An error is returned if the basis is degenerate (D = 0) or inputs are out of
// range.
func GLVBounds(c GLVConsts) (GLVBound, error) {
	basis, err := RecoverGLVBasis(c)
	if err != nil {
		return GLVBound{}, err
	}
	for _, v := range []*big.Int{c.G1, c.G2} {
		if v == nil || v.Sign() < 0 || v.Cmp(nConst) >= 0 {
			return GLVBound{}, errors.New("G1/G2 must be residues in [0, N)")
		}
	}
	if basis.Det.Sign() == 0 {
		return GLVBound{}, errors.New("degenerate basis: determinant is zero")
	}
	two384 := new(big.Int).Lsh(big.NewInt(1), GLVShift)
	half := big.NewRat(1, 2)
	nRat := new(big.Rat).SetInt(nConst)
	delta := func(g, x *big.Int) *big.Rat {
		d := new(big.Rat).SetFrac(g, two384)
		d.Sub(d, new(big.Rat).SetFrac(x, basis.Det))
		d.Abs(d)
		d.Mul(d, nRat)
		return d.Add(d, half)
	}
	d1 := delta(c.G1, basis.B2)
	d2 := delta(c.G2, new(big.Int).Neg(basis.B1))
	absRat := func(x *big.Int) *big.Rat { return new(big.Rat).SetInt(new(big.Int).Abs(x)) }
	comb := func(u, v *big.Int) *big.Rat {
		r := new(big.Rat).Mul(d1, absRat(u))
		return r.Add(r, new(big.Rat).Mul(d2, absRat(v)))
	}
	k1 := comb(basis.A1, basis.A2)
	k2 := comb(basis.B1, basis.B2)
	return GLVBound{
		Basis: basis, Delta1: d1, Delta2: d2,
		K1: k1, K2: k2, K1Ceil: ceilRat(k1), K2Ceil: ceilRat(k2),
	}, nil
}

// SplitScalarRef performs the decomposition exactly as described in GLVBounds,
// working only with the residues in c (as an implementation would), and
// returns k1, k2 as signed centered integers.  k must be in [0, N).
func SplitScalarRef(c GLVConsts, k *big.Int) (k1, k2 *big.Int) {
	round := func(g *big.Int) *big.Int {
		t := new(big.Int).Mul(k, g)
		r := new(big.Int).Rsh(t, GLVShift)
		if t.Bit(GLVShift-1) == 1 {
			r.Add(r, big.NewInt(1))
		}
		return r
	}
	c1, c2 := round(c.G1), round(c.G2)
	// k2 = c1*(-b1) + c2*(-b2) mod N
	k2 = new(big.Int).Mul(c1, c.NegB1)
	k2.Add(k2, new(big.Int).Mul(c2, c.NegB2))
	k2.Mod(k2, nConst)
	// k1 = k + k2*(-lambda) mod N
	k1 = new(big.Int).Mul(k2, c.NegLambda)
	k1.Add(k1, k)
	k1.Mod(k1, nConst)
	return centered(k1, nConst), centered(k2, nConst)
}

func ratioTo(x *big.Rat, bits uint) string {
	d := new(big.Rat).SetInt(new(big.Int).Lsh(big.NewInt(1), bits))
	q := new(big.Rat).Quo(x, d)
	return q.FloatString(6)
}

// CheckGLV verifies the GLV endomorphism constants, the lattice basis, the
// rounding constants and the output-size bound.  windowBytes is the number of
// low-order bytes of |k_i| the consumer keeps.  Findings (stable keys):
//
//	glv/input-range     all literals present and in range
//	glv/lambda-cube     lambda^3 = 1 (mod N), lambda != 1
//	glv/beta-cube       beta^3 = 1 (mod P), beta != 1
//	glv/endomorphism    lambda*G == (beta*Gx, Gy)
//	glv/basis-small     NegB1 < 2^128, b2 < 2^129, |a1|,|a2| < 2^129
//	glv/basis-det       a1*b2 - a2*b1 == +-N
//	glv/g1-rounding     G1 == round(2^384 *  b2  / det)
//	glv/g2-rounding     G2 == round(2^384 * (-b1) / det)
//	glv/bound-k1        derived bound on |k1|  (OK iff <= (N-1)/2)
//	glv/bound-k2        derived bound on |k2|  (OK iff <= (N-1)/2)
//	glv/window          both bounds < 2^(8*windowBytes) and <= (N-1)/2
//
// Findings that cannot be evaluated because an earlier prerequisite failed
// are emitted with OK = false.
func CheckGLV(c GLVConsts, windowBytes int) []Finding {
	var out []Finding
	add := func(key string, ok bool, format string, args ...any) {
		out = append(out, Finding{Key: key, OK: ok, Detail: fmt.Sprintf(format, args...)})
	}
	allKeys := []string{"glv/lambda-cube", "glv/beta-cube", "glv/endomorphism", "glv/basis-small",
		"glv/basis-det", "glv/g1-rounding", "glv/g2-rounding", "glv/bound-k1", "glv/bound-k2", "glv/window"}
	failRest := func(from int, why string) []Finding {
		for _, k := range allKeys[from:] {
			add(k, false, "not evaluated: %s", why)
		}
		return out
	}

	// 0. Input ranges.
	inRange := func(v, m *big.Int) bool { return v != nil && v.Sign() >= 0 && v.Cmp(m) < 0 }
	okIn := inRange(c.NegLambda, nConst) && inRange(c.NegB1, nConst) && inRange(c.NegB2, nConst) &&
		inRange(c.G1, nConst) && inRange(c.G2, nConst) && inRange(c.Beta, pConst)
	add("glv/input-range", okIn,
		"NegLambda=%s Beta=%s NegB1=%s NegB2=%s G1=%s G2=%s; need Beta in [0,P), others in [0,N)",
		hex(c.NegLambda), hex(c.Beta), hex(c.NegB1), hex(c.NegB2), hex(c.G1), hex(c.G2))
	if !okIn {
		return failRest(0, "inputs out of range")
	}

	one := big.NewInt(1)
	basis, _ := RecoverGLVBasis(c) // cannot fail: ranges checked
	lambda := basis.Lambda

	// 1. Cube roots of unity and the endomorphism.
	l3 := new(big.Int).Exp(lambda, big.NewInt(3), nConst)
	add("glv/lambda-cube", l3.Cmp(one) == 0 && lambda.Cmp(one) != 0,
		"lambda = N - NegLambda = %s; lambda^3 mod N = %s (want 1); lambda != 1: %v",
		hex(lambda), hex(l3), lambda.Cmp(one) != 0)
	b3 := new(big.Int).Exp(c.Beta, big.NewInt(3), pConst)
	add("glv/beta-cube", b3.Cmp(one) == 0 && c.Beta.Cmp(one) != 0,
		"beta = %s; beta^3 mod P = %s (want 1); beta != 1: %v", hex(c.Beta), hex(b3), c.Beta.Cmp(one) != 0)
	lg := ScalarMulAffine(lambda, G())
	phiG := Affine{X: Mod(new(big.Int).Mul(c.Beta, gxConst), pConst), Y: Gy()}
	if lg.Inf {
		add("glv/endomorphism", false, "lambda*G is the identity")
	} else {
		add("glv/endomorphism", EqualAffine(lg, phiG),
			"lambda*G = (%s, %s); (beta*Gx mod P, Gy) = (%s, %s)", hex(lg.X), hex(lg.Y), hex(phiG.X), hex(phiG.Y))
	}

	// 2. Signed basis.
	lim128 := new(big.Int).Lsh(one, 128)
	lim129 := new(big.Int).Lsh(one, 129)
	absLt := func(x, lim *big.Int) bool { return new(big.Int).Abs(x).Cmp(lim) < 0 }
	small := c.NegB1.Sign() > 0 && c.NegB1.Cmp(lim128) < 0 &&
		basis.B2.Sign() > 0 && basis.B2.Cmp(lim129) < 0 &&
		absLt(basis.A1, lim129) && absLt(basis.A2, lim129)
	add("glv/basis-small", small,
		"b1 = -NegB1 = %s (%d bits, need 0 < NegB1 < 2^128); b2 = N - NegB2 = %s (%d bits, need 0 < b2 < 2^129); "+
			"a1 = centered(-b1*lambda mod N) = %s (%d bits); a2 = centered(-b2*lambda mod N) = %s (%d bits); need |a_i| < 2^129; "+
			"a_i + b_i*lambda = 0 (mod N) by construction",
		hex(basis.B1), basis.B1.BitLen(), hex(basis.B2), basis.B2.BitLen(),
		hex(basis.A1), basis.A1.BitLen(), hex(basis.A2), basis.A2.BitLen())
	detOK := new(big.Int).Abs(basis.Det).Cmp(nConst) == 0
	add("glv/basis-det", detOK, "a1*b2 - a2*b1 = %s; N = %s; sign %+d (want +-N)",
		hex(basis.Det), hex(nConst), basis.Det.Sign())
	if basis.Det.Sign() == 0 {
		return failRest(5, "basis determinant is zero")
	}

	// 3. Rounding constants.
	two384 := new(big.Int).Lsh(one, GLVShift)
	wantG1 := roundHalfUpDiv(new(big.Int).Mul(two384, basis.B2), basis.Det)
	wantG2 := roundHalfUpDiv(new(big.Int).Mul(two384, new(big.Int).Neg(basis.B1)), basis.Det)
	add("glv/g1-rounding", c.G1.Cmp(wantG1) == 0, "G1 = %s; round(2^384 * b2 / det) = %s", hex(c.G1), hex(wantG1))
	add("glv/g2-rounding", c.G2.Cmp(wantG2) == 0, "G2 = %s; round(2^384 * (-b1) / det) = %s", hex(c.G2), hex(wantG2))

	// 4. Bounds.
	bd, err := GLVBounds(c)
	if err != nil {
		return failRest(7, err.Error())
	}
	halfN := new(big.Int).Rsh(nConst, 1) // (N-1)/2
	const deriv = "c_i = round-half-up(k*g_i/2^384) = t_i + e_i with (k,0) = t1*(a1,b1) + t2*(a2,b2), t1 = k*b2/det, t2 = -k*b1/det; " +
		"|e_i| <= 1/2 + N*|g_i/2^384 - x_i/det| = delta_i (x1 = b2, x2 = -b1) for all 0 <= k < N; " +
		"(k1,k2) = (k,0) - c1*(a1,b1) - c2*(a2,b2) = -(e1*(a1,b1) + e2*(a2,b2)) as integers (centered residues coincide when bound <= (N-1)/2)"
	k1OK := bd.K1Ceil.Cmp(halfN) <= 0
	k2OK := bd.K2Ceil.Cmp(halfN) <= 0
	add("glv/bound-k1", k1OK,
		"|k1| <= delta1*|a1| + delta2*|a2| <= %s (%d bits, %s * 2^128); delta1 - 1/2 = %s, delta2 - 1/2 = %s; %s",
		hex(bd.K1Ceil), bd.K1Ceil.BitLen(), ratioTo(bd.K1, 128),
		new(big.Rat).Sub(bd.Delta1, big.NewRat(1, 2)).FloatString(45),
		new(big.Rat).Sub(bd.Delta2, big.NewRat(1, 2)).FloatString(45), deriv)
	add("glv/bound-k2", k2OK,
		"|k2| <= delta1*|b1| + delta2*|b2| <= %s (%d bits, %s * 2^128); need <= (N-1)/2 so the half-order test identifies the sign",
		hex(bd.K2Ceil), bd.K2Ceil.BitLen(), ratioTo(bd.K2, 128))

	if windowBytes <= 0 {
		add("glv/window", false, "windowBytes = %d is not positive", windowBytes)
		return out
	}
	wlim := new(big.Int).Lsh(one, uint(8*windowBytes))
	winOK := detOK && k1OK && k2OK && bd.K1Ceil.Cmp(wlim) < 0 && bd.K2Ceil.Cmp(wlim) < 0
	add("glv/window", winOK,
		"consumer negates k_i when k_i > (N-1)/2 and keeps the low %d bytes of |k_i|: need |k_i| <= (N-1)/2 and |k_i| < 2^%d for all k; "+
			"bound |k1| <= %s (%d bits), |k2| <= %s (%d bits); det = +-N: %v",
		windowBytes, 8*windowBytes, hex(bd.K1Ceil), bd.K1Ceil.BitLen(), hex(bd.K2Ceil), bd.K2Ceil.BitLen(), detOK)
	return out
}
