package refmath

import (
	"fmt"
	"math/big"
	"strings"
)

// IsoConsts are the coefficient literals of the RFC 9380 3-isogeny map from
// E': y'^2 = x'^3 + A x' + B to secp256k1:
//
//	xnum = K13 x^3 + K12 x^2 + K11 x + K10     xden = x^2 + K21 x + K20
//	ynum = K33 x^3 + K32 x^2 + K31 x + K30     yden = x^3 + K42 x^2 + K41 x + K40
//	(x', y') -> (xnum/xden, y' * ynum/yden)
type IsoConsts struct {
	K10, K11, K12, K13, K20, K21, K30, K31, K32, K33, K40, K41, K42, A, B *big.Int
}

// RFC9380Iso returns the values of RFC 9380 Appendix E.1 (3-isogeny map for
// secp256k1) and section 8.7 (A', B' of E').  These are a transcription; the
// "iso/map-identity" finding evaluated on them is the independent check that
// the transcription is self-consistent (see TestRFCIsoSelfConsistent).
func RFC9380Iso() IsoConsts {
	return IsoConsts{
		K10: mustHex("8e38e38e38e38e38e38e38e38e38e38e38e38e38e38e38e38e38e38daaaaa8c7"),
		K11: mustHex("7d3d4c80bc321d5b9f315cea7fd44c5d595d2fc0bf63b92dfff1044f17c6581"),
		K12: mustHex("534c328d23f234e6e2a413deca25caece4506144037c40314ecbd0b53d9dd262"),
		K13: mustHex("8e38e38e38e38e38e38e38e38e38e38e38e38e38e38e38e38e38e38daaaaa88c"),
		K20: mustHex("d35771193d94918a9ca34ccbb7b640dd86cd409542f8487d9fe6b745781eb49b"),
		K21: mustHex("edadc6f64383dc1df7c4b2d51b54225406d36b641f5e41bbc52a56612a8c6d14"),
		K30: mustHex("4bda12f684bda12f684bda12f684bda12f684bda12f684bda12f684b8e38e23c"),
		K31: mustHex("c75e0c32d5cb7c0fa9d0a54b12a0a6d5647ab046d686da6fdffc90fc201d71a3"),
		K32: mustHex("29a6194691f91a73715209ef6512e576722830a201be2018a765e85a9ecee931"),
		K33: mustHex("2f684bda12f684bda12f684bda12f684bda12f684bda12f684bda12f38e38d84"),
		K40: mustHex("fffffffffffffffffffffffffffffffffffffffffffffffffffffffefffff93b"),
		K41: mustHex("7a06534bb8bdb49fd5e9e6632722c2989467c1bfc8e8d978dfb425d2685c2573"),
		K42: mustHex("6484aa716545ca2cf3a70c3fa8fe337e0a3d21162f0d6299a7bf8192bfd2a76f"),
		A:   mustHex("3f8731abdd661adca08a5558f0f5d272e953d363cb6f0e5d405447c01a444533"),
		B:   big.NewInt(1771),
	}
}

// RFC 9380 section 8.7: Z = -11 for secp256k1_XMD:SHA-256_SSWU_RO_.
const rfc9380Z = -11

type namedInt struct {
	name string
	v    *big.Int
}

func (c IsoConsts) fields() []namedInt {
	return []namedInt{
		{"k_(1,0)", c.K10}, {"k_(1,1)", c.K11}, {"k_(1,2)", c.K12}, {"k_(1,3)", c.K13},
		{"k_(2,0)", c.K20}, {"k_(2,1)", c.K21},
		{"k_(3,0)", c.K30}, {"k_(3,1)", c.K31}, {"k_(3,2)", c.K32}, {"k_(3,3)", c.K33},
		{"k_(4,0)", c.K40}, {"k_(4,1)", c.K41}, {"k_(4,2)", c.K42},
		{"A'", c.A}, {"B'", c.B},
	}
}

// IsoPolys returns xnum, xden, ynum, yden and g'(x) = x^3 + A x + B.
func IsoPolys(c IsoConsts) (xnum, xden, ynum, yden, g Poly) {
	one := big.NewInt(1)
	xnum = PolyFromInts(c.K10, c.K11, c.K12, c.K13)
	xden = PolyFromInts(c.K20, c.K21, one)
	ynum = PolyFromInts(c.K30, c.K31, c.K32, c.K33)
	yden = PolyFromInts(c.K40, c.K41, c.K42, one)
	g = PolyFromInts(c.B, c.A, new(big.Int), one)
	return
}

// CheckIsogeny verifies the 3-isogeny coefficient literals.  Findings:
//
//	iso/input-range          every value present and in [0, P)
//	iso/map-identity         (x^3 + A x + B) * ynum^2 * xden^3 == (xnum^3 + 7 xden^3) * yden^2
//	                         in F_p[x], i.e. the rational map sends E' into E: y^2 = x^3 + 7
//	iso/rfc-values           all 15 values equal the RFC 9380 transcription
//	iso/is-3-isogeny-degree  deg xnum = 3, deg xden = 2 (and deg ynum = deg yden = 3)
//	iso/denominators         yden^2 == xden^3 (both are the 6th power of the kernel factor,
//	                         as for any odd-degree separable isogeny in standard form)
func CheckIsogeny(c IsoConsts) []Finding {
	var out []Finding
	add := func(key string, ok bool, format string, args ...any) {
		out = append(out, Finding{Key: key, OK: ok, Detail: fmt.Sprintf(format, args...)})
	}
	var bad []string
	for _, f := range c.fields() {
		if f.v == nil || f.v.Sign() < 0 || f.v.Cmp(pConst) >= 0 {
			bad = append(bad, f.name+"="+hex(f.v))
		}
	}
	add("iso/input-range", len(bad) == 0, "values outside [0,P) or missing: [%s]", strings.Join(bad, " "))
	if len(bad) > 0 {
		for _, k := range []string{"iso/map-identity", "iso/rfc-values", "iso/is-3-isogeny-degree", "iso/denominators"} {
			add(k, false, "not evaluated: inputs out of range")
		}
		return out
	}

	xnum, xden, ynum, yden, g := IsoPolys(c)
	xden3 := PolyPow(xden, 3)
	yden2 := PolyPow(yden, 2)
	lhs := PolyMul(PolyMul(g, PolyPow(ynum, 2)), xden3)
	rhs := PolyMul(PolyAdd(PolyPow(xnum, 3), PolyScale(xden3, big.NewInt(CurveB))), yden2)
	diff := PolySub(lhs, rhs)
	add("iso/map-identity", len(diff) == 0,
		"g'(x)*ynum^2*xden^3 - (xnum^3 + 7*xden^3)*yden^2 in F_p[x]: deg lhs = %d, deg rhs = %d, deg difference = %d (want -1, the zero polynomial)",
		PolyDeg(lhs), PolyDeg(rhs), PolyDeg(diff))

	ref := RFC9380Iso().fields()
	var diffs []string
	for i, f := range c.fields() {
		if f.v.Cmp(ref[i].v) != 0 {
			diffs = append(diffs, fmt.Sprintf("%s = %s, RFC 9380 has %s", f.name, hex(f.v), hex(ref[i].v)))
		}
	}
	add("iso/rfc-values", len(diffs) == 0, "compared 13 coefficients (RFC 9380 Appendix E.1) and A', B' (section 8.7); differences: [%s]",
		strings.Join(diffs, "; "))

	dxn, dxd, dyn, dyd := PolyDeg(xnum), PolyDeg(xden), PolyDeg(ynum), PolyDeg(yden)
	add("iso/is-3-isogeny-degree", dxn == 3 && dxd == 2 && dyn == 3 && dyd == 3,
		"deg xnum = %d (want 3), deg xden = %d (want 2), deg ynum = %d (want 3), deg yden = %d (want 3)", dxn, dxd, dyn, dyd)

	add("iso/denominators", PolyEqual(yden2, xden3), "yden^2 == xden^3: %v", PolyEqual(yden2, xden3))
	return out
}

// CheckSWUConsts verifies the simplified-SWU parameters for E' (A, B) with
// the given Z and C2 (RFC 9380 section 6.6.2 criteria for Z, and
// c2 = sqrt(-Z) of the q = 3 mod 4 sqrt_ratio).  Findings:
//
//	swu/input-range      values present and in [0, P)
//	swu/z-value          Z = -11 (mod P)
//	swu/z-nonsquare      Z is not a square in F_p
//	swu/z-not-minus-one  Z != -1
//	swu/ab-nonzero       A != 0 and B != 0 (required by simplified SWU)
//	swu/g-minus-z-irreducible  g(x) - Z = x^3 + A x + B - Z has no root in F_p,
//	                     decided by deg gcd(x^P - x, g - Z) == 0 (for a cubic: irreducible)
//	swu/g-b-over-za-square     g(B / (Z*A)) is a square in F_p
//	swu/c2               C2^2 = -Z (mod P)
func CheckSWUConsts(Z, A, B, C2 *big.Int) []Finding {
	var out []Finding
	add := func(key string, ok bool, format string, args ...any) {
		out = append(out, Finding{Key: key, OK: ok, Detail: fmt.Sprintf(format, args...)})
	}
	okIn := true
	for _, v := range []*big.Int{Z, A, B, C2} {
		if v == nil || v.Sign() < 0 || v.Cmp(pConst) >= 0 {
			okIn = false
		}
	}
	add("swu/input-range", okIn, "Z=%s A=%s B=%s C2=%s; need all in [0,P)", hex(Z), hex(A), hex(B), hex(C2))
	if !okIn {
		for _, k := range []string{"swu/z-value", "swu/z-nonsquare", "swu/z-not-minus-one", "swu/ab-nonzero",
			"swu/g-minus-z-irreducible", "swu/g-b-over-za-square", "swu/c2"} {
			add(k, false, "not evaluated: inputs out of range")
		}
		return out
	}

	wantZ := Mod(big.NewInt(rfc9380Z), pConst)
	add("swu/z-value", Z.Cmp(wantZ) == 0, "Z = %s; -11 mod P = %s", hex(Z), hex(wantZ))
	add("swu/z-nonsquare", !IsSquareModP(Z), "Z^((P-1)/2) mod P = %s (want P-1)",
		hex(new(big.Int).Exp(Z, new(big.Int).Rsh(pConst, 1), pConst)))
	minusOne := Mod(big.NewInt(-1), pConst)
	add("swu/z-not-minus-one", Z.Cmp(minusOne) != 0, "Z = %s; -1 mod P = %s", hex(Z), hex(minusOne))
	add("swu/ab-nonzero", A.Sign() != 0 && B.Sign() != 0, "A = %s, B = %s", hex(A), hex(B))

	g := PolyFromInts(B, A, new(big.Int), big.NewInt(1))
	f := PolySub(g, Poly{Z})
	roots := PolyRootCount(f)
	add("swu/g-minus-z-irreducible", roots == 0,
		"deg gcd(x^P - x, x^3 + A x + B - Z) = %d (number of roots in F_p; want 0)", roots)

	za := Mod(new(big.Int).Mul(Z, A), pConst)
	if za.Sign() == 0 {
		add("swu/g-b-over-za-square", false, "Z*A = 0: B/(Z*A) undefined")
	} else {
		x0 := Mod(new(big.Int).Mul(B, Inv(za, pConst)), pConst)
		gx0 := PolyEval(g, x0)
		add("swu/g-b-over-za-square", IsSquareModP(gx0), "x0 = B/(Z*A) = %s; g(x0) = %s; square: %v",
			hex(x0), hex(gx0), IsSquareModP(gx0))
	}

	c2sq := Mod(new(big.Int).Mul(C2, C2), pConst)
	negZ := Mod(new(big.Int).Neg(Z), pConst)
	add("swu/c2", c2sq.Cmp(negZ) == 0, "C2^2 mod P = %s; -Z mod P = %s", hex(c2sq), hex(negZ))
	return out
}
