package refmath

import "math/big"

// Poly is a univariate polynomial over F_p, coefficients low degree first.
// All functions accept arbitrary integer coefficients (reduced modulo P on the
// way in) and trailing zero coefficients; they return normalized polynomials:
// coefficients in [0, P), no trailing zeros, the zero polynomial being empty.
// Inputs are never modified.
type Poly []*big.Int

// PolyFromInts builds a polynomial from coefficients given low degree first.
func PolyFromInts(c ...*big.Int) Poly { return polyNorm(Poly(c)) }

func polyNorm(a Poly) Poly {
	out := make(Poly, len(a))
	for i, c := range a {
		if c == nil {
			out[i] = new(big.Int)
		} else {
			out[i] = Mod(c, pConst)
		}
	}
	n := len(out)
	for n > 0 && out[n-1].Sign() == 0 {
		n--
	}
	return out[:n]
}

// PolyDeg returns the degree of a, or -1 for the zero polynomial.
func PolyDeg(a Poly) int { return len(polyNorm(a)) - 1 }

// PolyEqual reports whether a and b are equal in F_p[x].
func PolyEqual(a, b Poly) bool {
	a, b = polyNorm(a), polyNorm(b)
	if len(a) != len(b) {
		return false
	}
	for i := range a {
		if a[i].Cmp(b[i]) != 0 {
			return false
		}
	}
	return true
}

func polyCoef(a Poly, i int) *big.Int {
	if i < len(a) && a[i] != nil {
		return a[i]
	}
	return new(big.Int)
}

// PolyAdd returns a + b.
func PolyAdd(a, b Poly) Poly {
	n := max(len(a), len(b))
	out := make(Poly, n)
	for i := range out {
		out[i] = new(big.Int).Add(polyCoef(a, i), polyCoef(b, i))
	}
	return polyNorm(out)
}

// PolySub returns a - b.
func PolySub(a, b Poly) Poly {
	n := max(len(a), len(b))
	out := make(Poly, n)
	for i := range out {
		out[i] = new(big.Int).Sub(polyCoef(a, i), polyCoef(b, i))
	}
	return polyNorm(out)
}

// PolyScale returns s * a.
func PolyScale(a Poly, s *big.Int) Poly {
	out := make(Poly, len(a))
	for i := range out {
		out[i] = new(big.Int).Mul(polyCoef(a, i), s)
	}
	return polyNorm(out)
}

// PolyMul returns a * b (schoolbook).
func PolyMul(a, b Poly) Poly {
	a, b = polyNorm(a), polyNorm(b)
	if len(a) == 0 || len(b) == 0 {
		return Poly{}
	}
	out := make(Poly, len(a)+len(b)-1)
	for i := range out {
		out[i] = new(big.Int)
	}
	t := new(big.Int)
	for i, x := range a {
		for j, y := range b {
			out[i+j].Add(out[i+j], t.Mul(x, y))
		}
	}
	return polyNorm(out)
}

// PolyPow returns a^e for e >= 0 (a^0 = 1).
func PolyPow(a Poly, e int) Poly {
	if e < 0 {
		panic("refmath: PolyPow with negative exponent")
	}
	r := Poly{big.NewInt(1)}
	for i := 0; i < e; i++ {
		r = PolyMul(r, a)
	}
	return r
}

// PolyEval returns a(x) mod P (Horner).
func PolyEval(a Poly, x *big.Int) *big.Int {
	a = polyNorm(a)
	r := new(big.Int)
	for i := len(a) - 1; i >= 0; i-- {
		r.Mul(r, x)
		r.Add(r, a[i])
		r.Mod(r, pConst)
	}
	return r
}

// PolyDivMod returns q, r with a = q*b + r and deg r < deg b.  b must be
// non-zero.
func PolyDivMod(a, b Poly) (q, r Poly) {
	b = polyNorm(b)
	if len(b) == 0 {
		panic("refmath: polynomial division by zero")
	}
	rem := polyNorm(a)
	db := len(b) - 1
	if len(rem) <= db {
		return Poly{}, rem
	}
	lcInv := Inv(b[db], pConst)
	quo := make(Poly, len(rem)-db)
	for i := range quo {
		quo[i] = new(big.Int)
	}
	t := new(big.Int)
	for d := len(rem) - 1; d >= db; d-- {
		f := new(big.Int).Mul(rem[d], lcInv)
		f.Mod(f, pConst)
		quo[d-db] = f
		if f.Sign() == 0 {
			continue
		}
		for j := 0; j <= db; j++ {
			c := rem[d-db+j]
			c.Sub(c, t.Mul(f, b[j]))
			c.Mod(c, pConst)
		}
	}
	return polyNorm(quo), polyNorm(rem[:db])
}

// PolyMonic returns a divided by its leading coefficient (zero stays zero).
func PolyMonic(a Poly) Poly {
	a = polyNorm(a)
	if len(a) == 0 {
		return a
	}
	return PolyScale(a, Inv(a[len(a)-1], pConst))
}

// PolyGCD returns the monic greatest common divisor of a and b (Euclid);
// gcd(0, 0) = 0.
func PolyGCD(a, b Poly) Poly {
	a, b = polyNorm(a), polyNorm(b)
	for len(b) > 0 {
		_, r := PolyDivMod(a, b)
		a, b = b, r
	}
	return PolyMonic(a)
}

// PolyPowMod returns base^e mod m in F_p[x] by square-and-multiply, for e >= 0
// and non-zero m (any degree; the SWU check uses a cubic modulus).
func PolyPowMod(base Poly, e *big.Int, m Poly) Poly {
	if e.Sign() < 0 {
		panic("refmath: PolyPowMod with negative exponent")
	}
	_, b := PolyDivMod(base, m)
	_, r := PolyDivMod(Poly{big.NewInt(1)}, m)
	for i := e.BitLen() - 1; i >= 0; i-- {
		_, r = PolyDivMod(PolyMul(r, r), m)
		if e.Bit(i) == 1 {
			_, r = PolyDivMod(PolyMul(r, b), m)
		}
	}
	return r
}

// PolyRootCount returns the number of distinct roots of f in F_p, computed as
// deg gcd(x^P - x, f).  f must be non-zero.
func PolyRootCount(f Poly) int {
	f = polyNorm(f)
	if len(f) == 0 {
		panic("refmath: root count of the zero polynomial")
	}
	if len(f) == 1 {
		return 0
	}
	x := Poly{new(big.Int), big.NewInt(1)}
	xp := PolyPowMod(x, pConst, f)
	return PolyDeg(PolyGCD(PolySub(xp, x), f))
}
