// Package refmath is an independent math/big reference implementation of the
// secp256k1 arithmetic needed to evaluate constants and embedded data found in
// a source tree under analysis.
//
// Nothing in this package calls (or is derived from) the library being
// analysed: every routine is written from the mathematical definitions
// (SEC 2 v2 section 2.4.1 for the domain parameters, RFC 9380 for the
// hash-to-curve constants) using only the standard library.  It is written for
// obviousness, not for speed or side-channel resistance.
package refmath

import (
	"fmt"
	"math/big"
)

// SEC 2 domain parameters of secp256k1, spelled out once.  P is additionally
// reconstructed from its defining expression in init and compared.
const (
	pHex  = "FFFFFFFFFFFFFFFFFFFFFFFFFFFFFFFFFFFFFFFFFFFFFFFFFFFFFFFEFFFFFC2F"
	nHex  = "FFFFFFFFFFFFFFFFFFFFFFFFFFFFFFFEBAAEDCE6AF48A03BBFD25E8CD0364141"
	gxHex = "79BE667EF9DCBBAC55A06295CE870B07029BFCDB2DCE28D959F2815B16F81798"
	gyHex = "483ADA7726A3C4655DA4FBFC0E1108A8FD17B448A68554199C47D08FFB10D4B8"
	// CurveB is the constant term of the curve equation y^2 = x^3 + 7.
	CurveB = 7
)

var (
	pConst  = mustHex(pHex)
	nConst  = mustHex(nHex)
	gxConst = mustHex(gxHex)
	gyConst = mustHex(gyHex)
)

func init() {
	// P = 2^256 - 2^32 - 977.
	p := new(big.Int).Lsh(big.NewInt(1), 256)
	p.Sub(p, new(big.Int).Lsh(big.NewInt(1), 32))
	p.Sub(p, big.NewInt(977))
	if p.Cmp(pConst) != 0 {
		panic("refmath: P literal does not equal 2^256 - 2^32 - 977")
	}
	// p = 3 (mod 4) is relied upon by SqrtModP.
	if new(big.Int).And(pConst, big.NewInt(3)).Int64() != 3 {
		panic("refmath: P is not 3 mod 4")
	}
}

func mustHex(s string) *big.Int {
	v, ok := new(big.Int).SetString(s, 16)
	if !ok {
		panic("refmath: bad hex literal " + s)
	}
	return v
}

// P returns a fresh copy of the field prime 2^256 - 2^32 - 977.
func P() *big.Int { return new(big.Int).Set(pConst) }

// N returns a fresh copy of the group order.
func N() *big.Int { return new(big.Int).Set(nConst) }

// Gx returns a fresh copy of the x-coordinate of the generator.
func Gx() *big.Int { return new(big.Int).Set(gxConst) }

// Gy returns a fresh copy of the y-coordinate of the generator.
func Gy() *big.Int { return new(big.Int).Set(gyConst) }

// Mod returns the non-negative residue of x modulo m (m > 0) as a fresh value.
func Mod(x, m *big.Int) *big.Int {
	if m.Sign() <= 0 {
		panic("refmath: Mod with non-positive modulus")
	}
	return new(big.Int).Mod(x, m) // Euclidean: result in [0, m)
}

// Inv returns x^(m-2) mod m, which is the inverse of x for prime m.
// By the same formula Inv(0, m) = 0.
func Inv(x, m *big.Int) *big.Int {
	e := new(big.Int).Sub(m, big.NewInt(2))
	return new(big.Int).Exp(Mod(x, m), e, m)
}

// IsSquareModP reports whether x is a square in F_p (Euler's criterion).
// Zero counts as a square.
func IsSquareModP(x *big.Int) bool {
	e := new(big.Int).Rsh(new(big.Int).Sub(pConst, big.NewInt(1)), 1)
	l := new(big.Int).Exp(Mod(x, pConst), e, pConst)
	return l.Sign() == 0 || l.Cmp(big.NewInt(1)) == 0
}

// SqrtModP returns a square root of x in F_p and true, or (candidate, false)
// if x is not a square.  Since p = 3 (mod 4) the candidate is x^((p+1)/4).
// Which of the two roots is returned is unspecified.
func SqrtModP(x *big.Int) (*big.Int, bool) {
	xr := Mod(x, pConst)
	e := new(big.Int).Rsh(new(big.Int).Add(pConst, big.NewInt(1)), 2)
	r := new(big.Int).Exp(xr, e, pConst)
	chk := new(big.Int).Mul(r, r)
	chk.Mod(chk, pConst)
	return r, chk.Cmp(xr) == 0
}

// Limbs64 returns the n little-endian 64-bit limbs of x.  x must satisfy
// 0 <= x < 2^(64n); otherwise Limbs64 panics (reduce with Mod first).  If
// n <= 0 the minimal number of limbs is used (zero yields an empty slice).
func Limbs64(x *big.Int, n int) []uint64 {
	if x.Sign() < 0 {
		panic("refmath: Limbs64 of negative value")
	}
	need := (x.BitLen() + 63) / 64
	if n <= 0 {
		n = need
	}
	if need > n {
		panic(fmt.Sprintf("refmath: Limbs64: value of %d bits does not fit %d limbs", x.BitLen(), n))
	}
	out := make([]uint64, n)
	mask := new(big.Int).SetUint64(^uint64(0))
	t := new(big.Int).Set(x)
	w := new(big.Int)
	for i := 0; i < n; i++ {
		out[i] = w.And(t, mask).Uint64()
		t.Rsh(t, 64)
	}
	return out
}

// FromLimbs64 is the inverse of Limbs64: sum l[i] * 2^(64 i).
func FromLimbs64(l []uint64) *big.Int {
	r := new(big.Int)
	for i := len(l) - 1; i >= 0; i-- {
		r.Lsh(r, 64)
		r.Or(r, new(big.Int).SetUint64(l[i]))
	}
	return r
}

// Finding is one named check result.  Key is stable across runs; Detail
// carries the numbers that justify the verdict.
type Finding struct {
	Key, Detail string
	OK          bool
}

// centered returns the representative of x mod m in [-(m-1)/2, m/2].
func centered(x, m *big.Int) *big.Int {
	r := Mod(x, m)
	half := new(big.Int).Rsh(m, 1) // floor(m/2) = (m-1)/2 for odd m
	if r.Cmp(half) > 0 {
		r.Sub(r, m)
	}
	return r
}

func hex(x *big.Int) string {
	if x == nil {
		return "<nil>"
	}
	if x.Sign() < 0 {
		return "-0x" + new(big.Int).Neg(x).Text(16)
	}
	return "0x" + x.Text(16)
}
