package refmath

import (
	"math/big"
	"math/rand"
	"os"
	"reflect"
	"strings"
	"testing"
	"time"
)

const tablePath = "/repo/internal/gentable/point_mul_table.bin"

func h(s string) *big.Int { return mustHex(s) }

func findingMap(t *testing.T, fs []Finding) map[string]Finding {
	t.Helper()
	m := map[string]Finding{}
	for _, f := range fs {
		if _, dup := m[f.Key]; dup {
			t.Fatalf("duplicate finding key %q", f.Key)
		}
		m[f.Key] = f
	}
	return m
}

func requireAllOK(t *testing.T, fs []Finding) {
	t.Helper()
	if len(fs) == 0 {
		t.Fatal("no findings")
	}
	for _, f := range fs {
		if !f.OK {
			t.Errorf("finding %s not OK: %s", f.Key, f.Detail)
		}
	}
}

func requireNotOK(t *testing.T, fs []Finding, key string) {
	t.Helper()
	f, ok := findingMap(t, fs)[key]
	if !ok {
		t.Fatalf("finding %s missing", key)
	}
	if f.OK {
		t.Errorf("finding %s unexpectedly OK: %s", key, f.Detail)
	}
}

// ---------------------------------------------------------------- field ----

func TestFieldHelpers(t *testing.T) {
	p, n := P(), N()
	if p.BitLen() != 256 || n.BitLen() != 256 || !p.ProbablyPrime(32) || !n.ProbablyPrime(32) {
		t.Fatal("P or N not a 256-bit prime")
	}
	// Fresh copies.
	P().SetInt64(0)
	if P().Sign() == 0 {
		t.Fatal("P() is not a fresh copy")
	}
	if Mod(big.NewInt(-1), p).Cmp(new(big.Int).Sub(p, big.NewInt(1))) != 0 {
		t.Error("Mod(-1, P)")
	}
	if Inv(new(big.Int), p).Sign() != 0 {
		t.Error("Inv(0) != 0")
	}
	rng := rand.New(rand.NewSource(1))
	for _, m := range []*big.Int{p, n} {
		for i := 0; i < 20; i++ {
			x := new(big.Int).Rand(rng, m)
			if x.Sign() == 0 {
				continue
			}
			if Mod(new(big.Int).Mul(x, Inv(x, m)), m).Cmp(big.NewInt(1)) != 0 {
				t.Fatalf("x*Inv(x) != 1 for %s", hex(x))
			}
		}
	}
	squares := 0
	for i := 0; i < 60; i++ {
		x := new(big.Int).Rand(rng, p)
		r, ok := SqrtModP(x)
		if ok != IsSquareModP(x) {
			t.Fatalf("SqrtModP / IsSquareModP disagree for %s", hex(x))
		}
		if ok {
			squares++
			if Mod(new(big.Int).Mul(r, r), p).Cmp(x) != 0 {
				t.Fatal("bad root")
			}
		}
		sq := Mod(new(big.Int).Mul(x, x), p)
		if !IsSquareModP(sq) {
			t.Fatal("x^2 not recognised as square")
		}
	}
	if squares < 10 || squares > 50 {
		t.Errorf("implausible number of squares: %d/60", squares)
	}
	if !IsSquareModP(new(big.Int)) {
		t.Error("0 should count as a square")
	}
}

func TestLimbs(t *testing.T) {
	l := Limbs64(P(), 4)
	want := []uint64{0xFFFFFFFEFFFFFC2F, ^uint64(0), ^uint64(0), ^uint64(0)}
	if !reflect.DeepEqual(l, want) {
		t.Fatalf("Limbs64(P) = %x", l)
	}
	if FromLimbs64(l).Cmp(P()) != 0 {
		t.Fatal("FromLimbs64 round trip")
	}
	if got := Limbs64(big.NewInt(5), 3); !reflect.DeepEqual(got, []uint64{5, 0, 0}) {
		t.Fatalf("padding: %v", got)
	}
	if got := Limbs64(new(big.Int).Lsh(big.NewInt(1), 64), 0); !reflect.DeepEqual(got, []uint64{0, 1}) {
		t.Fatalf("minimal: %v", got)
	}
	if len(Limbs64(new(big.Int), 0)) != 0 || FromLimbs64(nil).Sign() != 0 {
		t.Fatal("zero handling")
	}
	func() {
		defer func() {
			if recover() == nil {
				t.Error("expected panic on overflow")
			}
		}()
		Limbs64(P(), 3)
	}()
}

// ---------------------------------------------------------------- curve ----

func TestCurveBasics(t *testing.T) {
	g := G()
	if !OnCurve(g) {
		t.Fatal("G not on curve")
	}
	if OnCurve(Affine{X: Gx(), Y: new(big.Int).Add(Gy(), big.NewInt(1))}) {
		t.Fatal("bogus point accepted")
	}
	if OnCurve(Affine{X: new(big.Int).Add(Gx(), P()), Y: Gy()}) {
		t.Fatal("non-canonical x accepted")
	}
	if !ScalarMulAffine(N(), g).Inf {
		t.Fatal("N*G != Inf")
	}
	nm1 := new(big.Int).Sub(N(), big.NewInt(1))
	if !EqualAffine(ScalarMulAffine(nm1, g), NegAffine(g)) {
		t.Fatal("(N-1)*G != -G")
	}
	if !AddAffine(g, NegAffine(g)).Inf {
		t.Fatal("G + -G != Inf")
	}
	if !EqualAffine(AddAffine(g, g), DoubleAffine(g)) {
		t.Fatal("G+G != 2G")
	}
	if !EqualAffine(AddAffine(Infinity(), g), g) || !EqualAffine(AddAffine(g, Infinity()), g) ||
		!AddAffine(Infinity(), Infinity()).Inf || !DoubleAffine(Infinity()).Inf || !NegAffine(Infinity()).Inf {
		t.Fatal("identity handling")
	}
	if !ScalarMulAffine(new(big.Int), g).Inf {
		t.Fatal("0*G")
	}
	if !EqualAffine(ScalarMulAffine(big.NewInt(-3), g), NegAffine(ScalarMulAffine(big.NewInt(3), g))) {
		t.Fatal("negative scalar")
	}
	// Well-known 2G.
	two := DoubleAffine(g)
	if two.X.Cmp(h("C6047F9441ED7D6D3045406E95C07CD85C778E4B8CEF3CA7ABAC09B95C709EE5")) != 0 ||
		two.Y.Cmp(h("1AE168FEA63DC339A3C58419466CEAEEF7F632653266D0E1236431A950CFE52A")) != 0 {
		t.Fatalf("2G = (%s, %s)", hex(two.X), hex(two.Y))
	}
	// Inputs are not modified.
	if g.X.Cmp(Gx()) != 0 || g.Y.Cmp(Gy()) != 0 {
		t.Fatal("G mutated")
	}
}

func TestGroupLaws(t *testing.T) {
	rng := rand.New(rand.NewSource(2))
	g := G()
	for it := 0; it < 6; it++ {
		a, b, c := new(big.Int).Rand(rng, N()), new(big.Int).Rand(rng, N()), new(big.Int).Rand(rng, N())
		A, B, C := ScalarMulAffine(a, g), ScalarMulAffine(b, g), ScalarMulAffine(c, g)
		for _, pt := range []Affine{A, B, C} {
			if !OnCurve(pt) {
				t.Fatal("result off curve")
			}
		}
		if !EqualAffine(AddAffine(AddAffine(A, B), C), AddAffine(A, AddAffine(B, C))) {
			t.Fatal("associativity")
		}
		if !EqualAffine(AddAffine(A, B), AddAffine(B, A)) {
			t.Fatal("commutativity")
		}
		ab := Mod(new(big.Int).Add(a, b), N())
		if !EqualAffine(AddAffine(A, B), ScalarMulAffine(ab, g)) {
			t.Fatal("aG + bG != (a+b)G")
		}
		if !EqualAffine(ScalarMulAffine(a, B), ScalarMulAffine(b, A)) {
			t.Fatal("a(bG) != b(aG)")
		}
	}
}

// ---------------------------------------------------------------- table ----

func TestBatchInv(t *testing.T) {
	rng := rand.New(rand.NewSource(3))
	xs := make([]*big.Int, 17)
	for i := range xs {
		xs[i] = new(big.Int).Add(new(big.Int).Rand(rng, new(big.Int).Sub(P(), big.NewInt(1))), big.NewInt(1))
	}
	for i, v := range batchInv(xs) {
		if v.Cmp(Inv(xs[i], P())) != 0 {
			t.Fatalf("batchInv[%d]", i)
		}
	}
}

func TestTableFastVsSimple(t *testing.T) {
	// Top-left block: 4 rows x 100 columns = 400 entries.
	const rows, cols = 4, 100
	fast := GeneratorTableFast(TableRows, TableCols)
	simple := GeneratorTableSimple(rows, cols)
	n := 0
	for i := 0; i < rows; i++ {
		for j := 0; j < cols; j++ {
			if !EqualAffine(fast[i][j], simple[i][j]) {
				t.Fatalf("fast != simple at (%d,%d)", i, j)
			}
			n++
		}
	}
	if n < 300 {
		t.Fatalf("only %d entries cross-checked", n)
	}
	// Direct scalar multiplications scattered over the whole table, including
	// the corners.
	rng := rand.New(rand.NewSource(4))
	pts := [][2]int{{0, 0}, {0, 254}, {31, 0}, {31, 254}, {7, 100}, {16, 127}}
	for len(pts) < 40 {
		pts = append(pts, [2]int{rng.Intn(TableRows), rng.Intn(TableCols)})
	}
	for _, ij := range pts {
		if !EqualAffine(fast[ij[0]][ij[1]], GeneratorTableEntry(ij[0], ij[1])) {
			t.Fatalf("fast != direct scalar mul at %v", ij)
		}
	}
}

func loadTable(t *testing.T) []byte {
	t.Helper()
	b, err := os.ReadFile(tablePath)
	if err != nil {
		t.Skipf("table not available: %v", err)
	}
	return b
}

func TestCheckGeneratorTableRepo(t *testing.T) {
	bin := loadTable(t)
	start := time.Now()
	n, mm := CheckGeneratorTable(bin)
	el := time.Since(start)
	t.Logf("CheckGeneratorTable: %d entries in %v", n, el)
	if n != 8160 || TableRows*TableCols != 8160 {
		t.Fatalf("entries checked = %d", n)
	}
	if len(mm) != 0 {
		t.Fatalf("%d mismatches, first: %+v", len(mm), mm[0])
	}
	if el > 1500*time.Millisecond {
		t.Errorf("too slow: %v (target < 1.5s)", el)
	}
}

func TestCheckGeneratorTableCorruption(t *testing.T) {
	orig := loadTable(t)
	type flip struct {
		i, j, byteInEntry int
		bit               byte
	}
	flips := []flip{
		{0, 0, 31, 0x01},    // low bit of x of G itself
		{0, 254, 63, 0x80},  // last byte of y
		{7, 100, 40, 0x10},  // middle of y
		{7, 100, 3, 0x04},   // x of the same entry
		{31, 254, 63, 0x01}, // very last byte of the blob
		{16, 17, 0, 0x80},   // top bit of x
	}
	for _, f := range flips {
		bin := append([]byte(nil), orig...)
		bin[TableEntryOffset(f.i, f.j)+f.byteInEntry] ^= f.bit
		n, mm := CheckGeneratorTable(bin)
		if n != 8160 || len(mm) != 1 || mm[0].I != f.i || mm[0].J != f.j {
			t.Fatalf("flip %+v: n=%d mismatches=%+v", f, n, mm)
		}
	}
	// Non-canonical coordinates.  No single bit flip can push a genuine
	// coordinate to >= P (that needs the top 223 bits all set), so overwrite:
	// x of entry (3,9) with 2^256-1, and y of entry (7,100) with exactly P.
	bin := append([]byte(nil), orig...)
	off := TableEntryOffset(3, 9)
	for k := 0; k < TableCoordBytes; k++ {
		bin[off+k] = 0xff
	}
	n, mm := CheckGeneratorTable(bin)
	if n != 8160 || len(mm) != 1 || mm[0].I != 3 || mm[0].J != 9 {
		t.Fatalf("non-canonical x: n=%d mismatches=%+v", n, mm)
	}
	if want := "x not canonical"; !strings.Contains(mm[0].Reason, want) {
		t.Fatalf("reason %q lacks %q", mm[0].Reason, want)
	}
	bin = append([]byte(nil), orig...)
	off = TableEntryOffset(7, 100) + TableCoordBytes
	P().FillBytes(bin[off : off+TableCoordBytes])
	n, mm = CheckGeneratorTable(bin)
	if n != 8160 || len(mm) != 1 || mm[0].I != 7 || mm[0].J != 100 {
		t.Fatalf("non-canonical y: n=%d mismatches=%+v", n, mm)
	}
	if want := "y not canonical"; !strings.Contains(mm[0].Reason, want) {
		t.Fatalf("reason %q lacks %q", mm[0].Reason, want)
	}
	// Two corrupted entries are both reported, in table order.
	bin = append([]byte(nil), orig...)
	bin[TableEntryOffset(1, 1)] ^= 1
	bin[TableEntryOffset(30, 200)+50] ^= 1
	_, mm = CheckGeneratorTable(bin)
	if len(mm) != 2 || mm[0].I != 1 || mm[0].J != 1 || mm[1].I != 30 || mm[1].J != 200 {
		t.Fatalf("two flips: %+v", mm)
	}
	// Wrong length.
	for _, b := range [][]byte{nil, orig[:len(orig)-1], append(append([]byte(nil), orig...), 0)} {
		n, mm := CheckGeneratorTable(b)
		if n != 0 || len(mm) != 1 || mm[0].I != -1 || mm[0].J != -1 {
			t.Fatalf("wrong length %d: n=%d %+v", len(b), n, mm)
		}
	}
}

// The table check does not need the repo blob to be exercised: serialise the
// simple-path reference and check it.
func TestCheckGeneratorTableSynthetic(t *testing.T) {
	if testing.Short() {
		t.Skip("slow")
	}
	tab := GeneratorTableSimple(TableRows, TableCols)
	bin := make([]byte, 0, TableBytes)
	for _, row := range tab {
		for _, pt := range row {
			var buf [TableEntryBytes]byte
			pt.X.FillBytes(buf[:32])
			pt.Y.FillBytes(buf[32:])
			bin = append(bin, buf[:]...)
		}
	}
	n, mm := CheckGeneratorTable(bin)
	if n != 8160 || len(mm) != 0 {
		t.Fatalf("synthetic table: n=%d mismatches=%d", n, len(mm))
	}
	if repo, err := os.ReadFile(tablePath); err == nil && !reflect.DeepEqual(repo, bin) {
		t.Fatal("repo blob differs from independently generated blob")
	}
}

// ------------------------------------------------------------------ GLV ----

func todayGLV() GLVConsts {
	return GLVConsts{
		NegLambda: h("ac9c52b33fa3cf1f5ad9e3fd77ed9ba4a880b9fc8ec739c2e0cfc810b51283cf"),
		Beta:      h("7ae96a2b657c07106e64479eac3434e99cf0497512f58995c1396c28719501ee"),
		NegB1:     h("e4437ed6010e88286f547fa90abfe4c3"),
		NegB2:     h("fffffffffffffffffffffffffffffffe8a280ac50774346dd765cda83db1562c"),
		G1:        h("3086d221a7d46bcde86c90e49284eb153daa8a1471e8ca7fe893209a45dbb031"),
		G2:        h("e4437ed6010e88286f547fa90abfe4c4221208ac9df506c61571b4ae8ac47f71"),
	}
}

func TestGLVToday(t *testing.T) {
	c := todayGLV()
	fs := CheckGLV(c, 16)
	requireAllOK(t, fs)
	m := findingMap(t, fs)
	for _, k := range []string{"glv/input-range", "glv/lambda-cube", "glv/beta-cube", "glv/endomorphism",
		"glv/basis-small", "glv/basis-det", "glv/g1-rounding", "glv/g2-rounding", "glv/bound-k1", "glv/bound-k2", "glv/window"} {
		if _, ok := m[k]; !ok {
			t.Errorf("missing finding %s", k)
		}
	}
	for _, f := range fs {
		t.Logf("%-18s %v  %s", f.Key, f.OK, f.Detail)
	}

	// Sign conventions against the well-known basis.
	b, err := RecoverGLVBasis(c)
	if err != nil {
		t.Fatal(err)
	}
	a1 := h("3086d221a7d46bcde86c90e49284eb15")
	b1 := new(big.Int).Neg(h("e4437ed6010e88286f547fa90abfe4c3"))
	a2 := h("114ca50f7a8e2f3f657c1108d9d44cfd8")
	if b.A1.Cmp(a1) != 0 || b.B1.Cmp(b1) != 0 || b.A2.Cmp(a2) != 0 || b.B2.Cmp(a1) != 0 {
		t.Fatalf("basis = (%s,%s),(%s,%s)", hex(b.A1), hex(b.B1), hex(b.A2), hex(b.B2))
	}
	if b.Det.Cmp(N()) != 0 {
		t.Fatalf("det = %s, want +N", hex(b.Det))
	}
	if b.Lambda.Cmp(h("5363ad4cc05c30e0a5261c028812645a122e22ea20816678df02967c1b23bd72")) != 0 {
		t.Fatalf("lambda = %s", hex(b.Lambda))
	}

	bd, err := GLVBounds(c)
	if err != nil {
		t.Fatal(err)
	}
	two128 := new(big.Int).Lsh(big.NewInt(1), 128)
	if bd.K1Ceil.Cmp(two128) >= 0 || bd.K2Ceil.Cmp(two128) >= 0 {
		t.Fatal("bounds not below 2^128")
	}
	t.Logf("|k1| <= %s (%d bits, %s*2^128)", hex(bd.K1Ceil), bd.K1Ceil.BitLen(), ratioTo(bd.K1, 128))
	t.Logf("|k2| <= %s (%d bits, %s*2^128)", hex(bd.K2Ceil), bd.K2Ceil.BitLen(), ratioTo(bd.K2, 128))
	// The bounds are essentially (|a1|+|a2|)/2 and (|b1|+|b2|)/2.
	lo1 := new(big.Int).Rsh(new(big.Int).Add(a1, a2), 1)
	lo2 := new(big.Int).Rsh(new(big.Int).Add(new(big.Int).Abs(b1), a1), 1)
	for _, pr := range [][2]*big.Int{{bd.K1Ceil, lo1}, {bd.K2Ceil, lo2}} {
		d := new(big.Int).Sub(pr[0], pr[1])
		if d.Sign() < 0 || d.BitLen() > 8 {
			t.Fatalf("bound %s not within 2^8 of half-sum %s", hex(pr[0]), hex(pr[1]))
		}
	}
}

func TestGLVEmpirical(t *testing.T) {
	c := todayGLV()
	bd, err := GLVBounds(c)
	if err != nil {
		t.Fatal(err)
	}
	n := N()
	lambda := bd.Basis.Lambda
	rng := rand.New(rand.NewSource(5))
	ks := []*big.Int{new(big.Int), big.NewInt(1), new(big.Int).Sub(n, big.NewInt(1)), new(big.Int).Rsh(n, 1),
		new(big.Int).Set(lambda), new(big.Int).Sub(n, lambda)}
	for i := 0; i < 3000; i++ {
		ks = append(ks, new(big.Int).Rand(rng, n))
	}
	max1, max2 := new(big.Int), new(big.Int)
	for _, k := range ks {
		k1, k2 := SplitScalarRef(c, k)
		chk := new(big.Int).Mul(k2, lambda)
		chk.Add(chk, k1)
		if Mod(chk, n).Cmp(k) != 0 {
			t.Fatalf("k1 + k2*lambda != k for k=%s", hex(k))
		}
		a1, a2 := new(big.Int).Abs(k1), new(big.Int).Abs(k2)
		if a1.Cmp(bd.K1Ceil) > 0 || a2.Cmp(bd.K2Ceil) > 0 {
			t.Fatalf("bound violated for k=%s: k1=%s k2=%s", hex(k), hex(k1), hex(k2))
		}
		if a1.Cmp(max1) > 0 {
			max1 = a1
		}
		if a2.Cmp(max2) > 0 {
			max2 = a2
		}
	}
	t.Logf("empirical max |k1| = %d bits, |k2| = %d bits", max1.BitLen(), max2.BitLen())
	// The bound should not be wildly pessimistic: the empirical maxima over
	// 3000 samples should exceed half of it.
	if new(big.Int).Lsh(max1, 1).Cmp(bd.K1Ceil) < 0 || new(big.Int).Lsh(max2, 1).Cmp(bd.K2Ceil) < 0 {
		t.Errorf("bounds look too loose: max1=%s max2=%s", hex(max1), hex(max2))
	}
}

func TestGLVNegative(t *testing.T) {
	// Window one byte too small.
	fs := CheckGLV(todayGLV(), 15)
	requireNotOK(t, fs, "glv/window")
	for _, f := range fs {
		if f.Key != "glv/window" && !f.OK {
			t.Errorf("windowBytes=15: %s should still be OK", f.Key)
		}
	}
	requireNotOK(t, CheckGLV(todayGLV(), 0), "glv/window")

	// G2 last hex digit changed.
	c := todayGLV()
	c.G2 = new(big.Int).Xor(c.G2, big.NewInt(3))
	fs = CheckGLV(c, 16)
	requireNotOK(t, fs, "glv/g2-rounding")
	if !findingMap(t, fs)["glv/g1-rounding"].OK {
		t.Error("g1-rounding should be unaffected")
	}
	// G1 off by one.
	c = todayGLV()
	c.G1 = new(big.Int).Add(c.G1, big.NewInt(1))
	requireNotOK(t, CheckGLV(c, 16), "glv/g1-rounding")
	// G2 grossly wrong also breaks the window.
	c = todayGLV()
	c.G2 = new(big.Int).Rsh(c.G2, 1)
	fs = CheckGLV(c, 16)
	requireNotOK(t, fs, "glv/g2-rounding")
	requireNotOK(t, fs, "glv/window")

	// NegB1 changed.
	c = todayGLV()
	c.NegB1 = new(big.Int).Add(c.NegB1, big.NewInt(1))
	fs = CheckGLV(c, 16)
	m := findingMap(t, fs)
	if m["glv/basis-small"].OK && m["glv/basis-det"].OK {
		t.Error("changed NegB1: neither basis finding failed")
	}
	requireNotOK(t, fs, "glv/window")
	// NegB2 changed.
	c = todayGLV()
	c.NegB2 = new(big.Int).Sub(c.NegB2, big.NewInt(1))
	m = findingMap(t, CheckGLV(c, 16))
	if m["glv/basis-small"].OK && m["glv/basis-det"].OK {
		t.Error("changed NegB2: neither basis finding failed")
	}

	// Lambda changed / swapped for the other root.
	c = todayGLV()
	c.NegLambda = new(big.Int).Add(c.NegLambda, big.NewInt(1))
	fs = CheckGLV(c, 16)
	requireNotOK(t, fs, "glv/lambda-cube")
	requireNotOK(t, fs, "glv/endomorphism")
	c = todayGLV()
	lam := new(big.Int).Sub(N(), c.NegLambda)
	lam2 := Mod(new(big.Int).Mul(lam, lam), N()) // the other primitive cube root
	c.NegLambda = new(big.Int).Sub(N(), lam2)
	fs = CheckGLV(c, 16)
	if !findingMap(t, fs)["glv/lambda-cube"].OK {
		t.Error("lambda^2 is also a primitive cube root")
	}
	requireNotOK(t, fs, "glv/endomorphism")
	// lambda = 1.
	c = todayGLV()
	c.NegLambda = new(big.Int).Sub(N(), big.NewInt(1))
	requireNotOK(t, CheckGLV(c, 16), "glv/lambda-cube")

	// Beta changed / beta = 1.
	c = todayGLV()
	c.Beta = new(big.Int).Add(c.Beta, big.NewInt(1))
	fs = CheckGLV(c, 16)
	requireNotOK(t, fs, "glv/beta-cube")
	requireNotOK(t, fs, "glv/endomorphism")
	c = todayGLV()
	c.Beta = big.NewInt(1)
	requireNotOK(t, CheckGLV(c, 16), "glv/beta-cube")

	// Out-of-range / nil inputs do not panic and fail everything after.
	c = todayGLV()
	c.G1 = nil
	fs = CheckGLV(c, 16)
	for _, f := range fs {
		if f.OK {
			t.Errorf("nil input: %s OK", f.Key)
		}
	}
	if len(fs) != 11 {
		t.Errorf("nil input: %d findings", len(fs))
	}
	c = todayGLV()
	c.NegB2 = N()
	requireNotOK(t, CheckGLV(c, 16), "glv/input-range")
}

func TestRoundHalfUp(t *testing.T) {
	cases := []struct{ n, d, want int64 }{
		{7, 2, 4}, {5, 2, 3}, {1, 2, 1}, {1, 3, 0}, {2, 3, 1}, {-1, 2, 0}, {-3, 2, -1}, {-7, 2, -3},
		{7, -2, -3}, {-7, -2, 4}, {0, 5, 0}, {10, 5, 2},
	}
	for _, c := range cases {
		if got := roundHalfUpDiv(big.NewInt(c.n), big.NewInt(c.d)); got.Int64() != c.want {
			t.Errorf("round(%d/%d) = %s, want %d", c.n, c.d, got, c.want)
		}
	}
	if ceilRat(big.NewRat(7, 2)).Int64() != 4 || ceilRat(big.NewRat(4, 2)).Int64() != 2 || ceilRat(big.NewRat(-7, 2)).Int64() != -3 {
		t.Error("ceilRat")
	}
	if centered(big.NewInt(6), big.NewInt(7)).Int64() != -1 || centered(big.NewInt(3), big.NewInt(7)).Int64() != 3 ||
		centered(big.NewInt(4), big.NewInt(7)).Int64() != -3 {
		t.Error("centered")
	}
}

// ----------------------------------------------------------------- poly ----

func TestPoly(t *testing.T) {
	bi := func(v ...int64) Poly {
		p := make(Poly, len(v))
		for i, x := range v {
			p[i] = big.NewInt(x)
		}
		return p
	}
	a, b := bi(1, 2, 3), bi(-1, 1)
	if !PolyEqual(PolyMul(a, b), bi(-1, -1, -1, 3)) {
		t.Error("mul")
	}
	if !PolyEqual(PolyAdd(a, b), bi(0, 3, 3)) || !PolyEqual(PolySub(a, a), Poly{}) || PolyDeg(PolySub(a, a)) != -1 {
		t.Error("add/sub")
	}
	if !PolyEqual(PolySub(b, a), bi(-2, -1, -3)) {
		t.Error("sub")
	}
	if !PolyEqual(PolyScale(a, big.NewInt(2)), bi(2, 4, 6)) || !PolyEqual(PolyScale(a, P()), nil) {
		t.Error("scale")
	}
	if !PolyEqual(PolyPow(b, 3), bi(-1, 3, -3, 1)) || !PolyEqual(PolyPow(b, 0), bi(1)) {
		t.Error("pow")
	}
	if !PolyEqual(bi(1, 2, 0, 0), bi(1, 2)) || PolyEqual(bi(1, 2), bi(1, 3)) {
		t.Error("equal")
	}
	if PolyEval(a, big.NewInt(2)).Int64() != 17 {
		t.Error("eval")
	}
	prod := PolyAdd(PolyMul(a, b), bi(5))
	q, r := PolyDivMod(prod, a)
	if !PolyEqual(q, b) || !PolyEqual(r, bi(5)) {
		t.Errorf("divmod: q=%v r=%v", q, r)
	}
	// gcd((x-1)(x-2), (x-2)(x-3)) = x-2
	f := PolyMul(bi(-1, 1), bi(-2, 1))
	g := PolyMul(PolyScale(bi(-2, 1), big.NewInt(9)), bi(-3, 1))
	if !PolyEqual(PolyGCD(f, g), bi(-2, 1)) {
		t.Errorf("gcd = %v", PolyGCD(f, g))
	}
	// PolyPowMod against PolyPow.
	m := bi(3, 0, 5, 1)
	_, want := PolyDivMod(PolyPow(a, 11), m)
	if !PolyEqual(PolyPowMod(a, big.NewInt(11), m), want) {
		t.Error("powmod")
	}
	// Root counting: (x-1)(x-2)(x-3) has 3 roots; (x-1)^2 (x-5) has 2 distinct;
	// x^2 - c for a non-square c has none, for a square two; (x - 4)(x^2 - nonsquare) one.
	if n := PolyRootCount(PolyMul(f, bi(-3, 1))); n != 3 {
		t.Errorf("roots = %d", n)
	}
	if n := PolyRootCount(PolyMul(PolyPow(bi(-1, 1), 2), bi(-5, 1))); n != 2 {
		t.Errorf("roots = %d", n)
	}
	ns := big.NewInt(2)
	for IsSquareModP(ns) {
		ns.Add(ns, big.NewInt(1))
	}
	irr := Poly{new(big.Int).Neg(ns), new(big.Int), big.NewInt(1)}
	if n := PolyRootCount(irr); n != 0 {
		t.Errorf("roots of x^2 - nonsquare = %d", n)
	}
	if n := PolyRootCount(PolyMul(irr, bi(-4, 1))); n != 1 {
		t.Errorf("roots = %d", n)
	}
	if n := PolyRootCount(bi(-4, 0, 1)); n != 2 {
		t.Errorf("roots of x^2-4 = %d", n)
	}
	// The curve polynomial x^3 + 7 has no root (no 2-torsion on secp256k1).
	if n := PolyRootCount(bi(7, 0, 0, 1)); n != 0 {
		t.Errorf("roots of x^3+7 = %d", n)
	}
	// Inputs unmodified.
	if a[0].Int64() != 1 || b[0].Int64() != -1 {
		t.Error("inputs modified")
	}
}

// ------------------------------------------------------------- isogeny ----

// Today's literals in the source tree are the RFC 9380 values.
func todayIso() IsoConsts { return RFC9380Iso() }

func todaySWU() (Z, A, B, C2 *big.Int) {
	Z = new(big.Int).Sub(P(), big.NewInt(11))
	A = h("3f8731abdd661adca08a5558f0f5d272e953d363cb6f0e5d405447c01a444533")
	B = big.NewInt(1771)
	C2 = h("31fdf302724013e57ad13fb38f842afeec184f00a74789dd286729c8303c4a59")
	return
}

func TestRFCIsoSelfConsistent(t *testing.T) {
	fs := CheckIsogeny(RFC9380Iso())
	requireAllOK(t, fs)
	for _, f := range fs {
		t.Logf("%-24s %v  %s", f.Key, f.OK, f.Detail)
	}
	// Pointwise: map a few points of E' and land on E.
	c := RFC9380Iso()
	xnum, xden, ynum, yden, g := IsoPolys(c)
	rng := rand.New(rand.NewSource(6))
	mapped := 0
	for mapped < 8 {
		x := new(big.Int).Rand(rng, P())
		y, ok := SqrtModP(PolyEval(g, x))
		if !ok {
			continue
		}
		xd, yd := PolyEval(xden, x), PolyEval(yden, x)
		if xd.Sign() == 0 || yd.Sign() == 0 {
			continue
		}
		X := Mod(new(big.Int).Mul(PolyEval(xnum, x), Inv(xd, P())), P())
		Y := Mod(new(big.Int).Mul(new(big.Int).Mul(y, PolyEval(ynum, x)), Inv(yd, P())), P())
		if !OnCurve(Affine{X: X, Y: Y}) {
			t.Fatalf("image of (%s, %s) not on secp256k1", hex(x), hex(y))
		}
		mapped++
	}
}

func TestIsogenyNegative(t *testing.T) {
	base := todayIso()
	ptrs := func(c *IsoConsts) []**big.Int {
		return []**big.Int{&c.K10, &c.K11, &c.K12, &c.K13, &c.K20, &c.K21, &c.K30, &c.K31, &c.K32, &c.K33,
			&c.K40, &c.K41, &c.K42, &c.A, &c.B}
	}
	for idx := range ptrs(&base) {
		c := base
		pp := ptrs(&c)[idx]
		*pp = new(big.Int).Xor(*pp, big.NewInt(1))
		fs := CheckIsogeny(c)
		requireNotOK(t, fs, "iso/map-identity")
		requireNotOK(t, fs, "iso/rfc-values")
	}
	// Degree finding: leading coefficient zero.
	c := base
	c.K13 = new(big.Int)
	fs := CheckIsogeny(c)
	requireNotOK(t, fs, "iso/is-3-isogeny-degree")
	requireNotOK(t, fs, "iso/map-identity")
	// Range.
	c = base
	c.K40 = P()
	requireNotOK(t, CheckIsogeny(c), "iso/input-range")
	c = base
	c.A = nil
	for _, f := range CheckIsogeny(c) {
		if f.OK {
			t.Errorf("nil input: %s OK", f.Key)
		}
	}
	// base untouched
	requireAllOK(t, CheckIsogeny(base))
}

func TestSWU(t *testing.T) {
	Z, A, B, C2 := todaySWU()
	fs := CheckSWUConsts(Z, A, B, C2)
	requireAllOK(t, fs)
	for _, f := range fs {
		t.Logf("%-28s %v  %s", f.Key, f.OK, f.Detail)
	}
	if len(fs) != 8 {
		t.Errorf("%d findings", len(fs))
	}
	// -C2 is equally a root.
	requireAllOK(t, CheckSWUConsts(Z, A, B, new(big.Int).Sub(P(), C2)))
	// Wrong C2.
	requireNotOK(t, CheckSWUConsts(Z, A, B, new(big.Int).Add(C2, big.NewInt(1))), "swu/c2")
	// Z = -1: non-square (p = 3 mod 4) but excluded.
	fs = CheckSWUConsts(new(big.Int).Sub(P(), big.NewInt(1)), A, B, C2)
	requireNotOK(t, fs, "swu/z-not-minus-one")
	requireNotOK(t, fs, "swu/z-value")
	// Z square.
	fs = CheckSWUConsts(big.NewInt(4), A, B, C2)
	requireNotOK(t, fs, "swu/z-nonsquare")
	requireNotOK(t, fs, "swu/z-value")
	// Find a non-square Z for which g - Z has a root: Z = g(r) for some r.
	g := PolyFromInts(B, A, new(big.Int), big.NewInt(1))
	found := false
	for r := int64(1); r < 200; r++ {
		z := PolyEval(g, big.NewInt(r))
		if IsSquareModP(z) {
			continue
		}
		requireNotOK(t, CheckSWUConsts(z, A, B, C2), "swu/g-minus-z-irreducible")
		found = true
		break
	}
	if !found {
		t.Error("no test Z found")
	}
	// A = 0.
	fs = CheckSWUConsts(Z, new(big.Int), B, C2)
	requireNotOK(t, fs, "swu/ab-nonzero")
	requireNotOK(t, fs, "swu/g-b-over-za-square")
	// nil.
	for _, f := range CheckSWUConsts(Z, A, nil, C2) {
		if f.OK {
			t.Errorf("nil input: %s OK", f.Key)
		}
	}
}
