package refmath

import (
	"fmt"
	"math/big"
)

// Layout of the embedded generator table: TableRows sub-tables of TableCols
// points; entry (i, j) is (j+1) * 256^i * G, stored as 32-byte big-endian x
// followed by 32-byte big-endian y.
const (
	TableRows       = 32
	TableCols       = 255
	TableCoordBytes = 32
	TableEntryBytes = 2 * TableCoordBytes
	TableBytes      = TableRows * TableCols * TableEntryBytes
)

// TableMismatch describes one bad table entry.  I = J = -1 is used for
// problems with the blob as a whole (wrong length).
type TableMismatch struct {
	I, J   int
	Reason string
}

// TableEntryOffset is the byte offset of entry (i, j) in the blob.
func TableEntryOffset(i, j int) int { return ((i*TableCols + j) * 2) * TableCoordBytes }

// GeneratorTableEntry returns (j+1) * 256^i * G computed in the most direct
// way: one double-and-add scalar multiplication of G.  Slow (hundreds of
// field inversions); intended for spot checks.
func GeneratorTableEntry(i, j int) Affine {
	k := new(big.Int).Lsh(big.NewInt(1), uint(8*i))
	k.Mul(k, big.NewInt(int64(j+1)))
	return ScalarMulAffine(k, G())
}

// GeneratorTableSimple computes rows x cols expected entries with nothing but
// the affine group law: base_i = 256^i * G by scalar multiplication, and
// entry j = entry j-1 + base_i by AddAffine (one inversion per entry).
func GeneratorTableSimple(rows, cols int) [][]Affine {
	out := make([][]Affine, rows)
	for i := range out {
		base := ScalarMulAffine(new(big.Int).Lsh(big.NewInt(1), uint(8*i)), G())
		row := make([]Affine, cols)
		cur := Infinity()
		for j := range row {
			cur = AddAffine(cur, base)
			row[j] = cur
		}
		out[i] = row
	}
	return out
}

// GeneratorTableFast computes the same expected entries as
// GeneratorTableSimple with far fewer inversions: base_{i+1} is obtained from
// base_i by 8 doublings, and the column step "entry j = entry j-1 + base_i" is
// carried out for all rows simultaneously with the rows' chord denominators
// inverted together (Montgomery's batch inversion: one inversion per column).
func GeneratorTableFast(rows, cols int) [][]Affine {
	bases := make([]Affine, rows)
	out := make([][]Affine, rows)
	b := G()
	for i := 0; i < rows; i++ {
		bases[i] = b
		out[i] = make([]Affine, cols)
		if cols > 0 {
			out[i][0] = b
		}
		for d := 0; d < 8; d++ {
			b = DoubleAffine(b)
		}
	}
	dens := make([]*big.Int, rows)
	batched := make([]bool, rows)
	for j := 1; j < cols; j++ {
		for i := 0; i < rows; i++ {
			prev := out[i][j-1]
			batched[i] = false
			dens[i] = big.NewInt(1)
			if prev.Inf || bases[i].Inf {
				continue
			}
			d := new(big.Int).Sub(bases[i].X, prev.X)
			d.Mod(d, pConst)
			if d.Sign() == 0 {
				continue // doubling or cancellation: take the complete path
			}
			dens[i] = d
			batched[i] = true
		}
		invs := batchInv(dens)
		for i := 0; i < rows; i++ {
			prev := out[i][j-1]
			if !batched[i] {
				out[i][j] = AddAffine(prev, bases[i])
				continue
			}
			s := new(big.Int).Sub(bases[i].Y, prev.Y)
			s.Mul(s, invs[i])
			s.Mod(s, pConst)
			out[i][j] = chord(s, prev.X, prev.Y, bases[i].X)
		}
	}
	return out
}

// batchInv inverts every (non-zero) element of xs modulo P with a single
// modular inversion: prefix products, invert the total, unwind.
func batchInv(xs []*big.Int) []*big.Int {
	n := len(xs)
	out := make([]*big.Int, n)
	if n == 0 {
		return out
	}
	prefix := make([]*big.Int, n)
	acc := big.NewInt(1)
	for i, x := range xs {
		prefix[i] = new(big.Int).Set(acc) // product of xs[:i]
		acc.Mul(acc, x)
		acc.Mod(acc, pConst)
	}
	inv := Inv(acc, pConst) // 1 / product of xs[:n]
	for i := n - 1; i >= 0; i-- {
		o := new(big.Int).Mul(inv, prefix[i])
		out[i] = o.Mod(o, pConst)
		inv.Mul(inv, xs[i])
		inv.Mod(inv, pConst)
	}
	return out
}

// CheckGeneratorTable verifies an embedded generator table blob.  Every entry
// must be the canonical (coordinates < P) big-endian encoding of
// (j+1) * 256^i * G.  It returns the number of entries examined and one
// TableMismatch per bad entry (all reasons for that entry joined in Reason).
// A blob of the wrong length yields a single mismatch with I = J = -1 and no
// entries are examined.
func CheckGeneratorTable(bin []byte) (entriesChecked int, mismatches []TableMismatch) {
	if len(bin) != TableBytes {
		return 0, []TableMismatch{{I: -1, J: -1, Reason: fmt.Sprintf(
			"table length %d bytes, want %d = %d*%d*%d", len(bin), TableBytes, TableRows, TableCols, TableEntryBytes)}}
	}
	want := GeneratorTableFast(TableRows, TableCols)

	// Self-check of the reference computation: each row's last entry plus its
	// base must land on the next row's base (255*B + B = 256*B), tying the
	// addition chains to the doubling chain; and every expected point must be
	// on the curve.  A failure here is a bug in this package, not in the blob.
	for i := 0; i < TableRows; i++ {
		if i+1 < TableRows {
			if !EqualAffine(AddAffine(want[i][TableCols-1], want[i][0]), want[i+1][0]) {
				mismatches = append(mismatches, TableMismatch{I: i, J: -1,
					Reason: "internal: reference self-check 255*B+B != 256*B failed"})
			}
		}
		for j := 0; j < TableCols; j++ {
			if want[i][j].Inf || !OnCurve(want[i][j]) {
				mismatches = append(mismatches, TableMismatch{I: i, J: -1,
					Reason: fmt.Sprintf("internal: reference entry %d not an affine curve point", j)})
			}
		}
	}

	for i := 0; i < TableRows; i++ {
		for j := 0; j < TableCols; j++ {
			off := TableEntryOffset(i, j)
			x := new(big.Int).SetBytes(bin[off : off+TableCoordBytes])
			y := new(big.Int).SetBytes(bin[off+TableCoordBytes : off+TableEntryBytes])
			entriesChecked++
			var reasons []string
			if x.Cmp(pConst) >= 0 {
				reasons = append(reasons, "x not canonical (>= P): "+hex(x))
			}
			if y.Cmp(pConst) >= 0 {
				reasons = append(reasons, "y not canonical (>= P): "+hex(y))
			}
			w := want[i][j]
			if x.Cmp(w.X) != 0 {
				reasons = append(reasons, fmt.Sprintf("x = %s, want %s", hex(x), hex(w.X)))
			}
			if y.Cmp(w.Y) != 0 {
				reasons = append(reasons, fmt.Sprintf("y = %s, want %s", hex(y), hex(w.Y)))
			}
			if len(reasons) == 0 {
				continue
			}
			if !OnCurve(Affine{X: x, Y: y}) {
				reasons = append(reasons, "not on curve")
			}
			r := fmt.Sprintf("entry (%d,%d) at offset %d, want %d*256^%d*G: ", i, j, off, j+1, i)
			for n, s := range reasons {
				if n > 0 {
					r += "; "
				}
				r += s
			}
			mismatches = append(mismatches, TableMismatch{I: i, J: j, Reason: r})
		}
	}
	return entriesChecked, mismatches
}
