package rules

import (
	"fmt"
	"math/big"
	"sort"
	"strings"

	"verif/internal/absint"
	"verif/internal/sym"
)

// This file compares decision functions (which inputs are accepted) as
// propositional formulas over atoms.  An atom is any Bool term that is not a
// propositional connective (ite / not / and / or / bitwise and-or on flags).
// Two formulas are equivalent when they agree under every valuation of the
// atoms that is consistent with the built-in theory of single-variable integer
// comparisons (eq/lt/le of one integer term against constants).  This is a
// comparison of normal forms of the analysed program's summary; no program
// path is executed.

// Formula is a propositional formula over term atoms.
type Formula struct {
	Kind string // "atom", "not", "and", "or", "const"
	Atom *sym.Term
	Val  bool
	Sub  []*Formula
}

func fConst(b bool) *Formula { return &Formula{Kind: "const", Val: b} }
func fNot(a *Formula) *Formula {
	if a.Kind == "const" {
		return fConst(!a.Val)
	}
	return &Formula{Kind: "not", Sub: []*Formula{a}}
}
func fAnd(a ...*Formula) *Formula {
	var keep []*Formula
	for _, x := range a {
		if x.Kind == "const" {
			if !x.Val {
				return fConst(false)
			}
			continue
		}
		keep = append(keep, x)
	}
	if len(keep) == 0 {
		return fConst(true)
	}
	if len(keep) == 1 {
		return keep[0]
	}
	return &Formula{Kind: "and", Sub: keep}
}
func fOr(a ...*Formula) *Formula {
	var keep []*Formula
	for _, x := range a {
		if x.Kind == "const" {
			if x.Val {
				return fConst(true)
			}
			continue
		}
		keep = append(keep, x)
	}
	if len(keep) == 0 {
		return fConst(false)
	}
	if len(keep) == 1 {
		return keep[0]
	}
	return &Formula{Kind: "or", Sub: keep}
}
func fIte(c, a, b *Formula) *Formula {
	return fOr(fAnd(c, a), fAnd(fNot(c), b))
}

// FTerm converts a Bool-valued term into a formula.
func FTerm(t *sym.Term) *Formula {
	t = sym.Canon(t)
	if t.IsConst() {
		return fConst(t.C.Sign() != 0)
	}
	allBool := func(args []*sym.Term) bool {
		for _, a := range args {
			if a.Sort != sym.Bool && !(a.IsConst() && a.C.Cmp(big.NewInt(1)) <= 0 && a.C.Sign() >= 0) {
				return false
			}
		}
		return true
	}
	switch t.Op {
	case "not":
		return fNot(FTerm(t.Args[0]))
	case "ite":
		if t.Sort == sym.Bool || allBool(t.Args[1:]) {
			return fIte(FTerm(t.Args[0]), FTerm(t.Args[1]), FTerm(t.Args[2]))
		}
	case "and", "band":
		if allBool(t.Args) {
			var s []*Formula
			for _, a := range t.Args {
				s = append(s, FTerm(a))
			}
			return fAnd(s...)
		}
	case "or", "bor":
		if allBool(t.Args) {
			var s []*Formula
			for _, a := range t.Args {
				s = append(s, FTerm(a))
			}
			return fOr(s...)
		}
	case "eq":
		if t.Args[0].Sort == sym.Bool && t.Args[1].Sort == sym.Bool {
			a, b := FTerm(t.Args[0]), FTerm(t.Args[1])
			return fOr(fAnd(a, b), fAnd(fNot(a), fNot(b)))
		}
	}
	return &Formula{Kind: "atom", Atom: t}
}

// FLit is atom == val.
func FLit(t *sym.Term, val bool) *Formula {
	f := FTerm(t)
	if !val {
		return fNot(f)
	}
	return f
}

// FGuard is the conjunction of a path guard.
func FGuard(g []absint.Lit) *Formula {
	var s []*Formula
	for _, l := range g {
		s = append(s, FLit(l.T, l.Val))
	}
	return fAnd(s...)
}

// FExits is the disjunction of the guards of the selected exits.
func FExits(exits []absint.Exit, pick func(e absint.Exit) bool) *Formula {
	var s []*Formula
	for _, e := range exits {
		if pick(e) {
			s = append(s, FGuard(e.Guard))
		}
	}
	return fOr(s...)
}

func (f *Formula) atoms(set map[*sym.Term]bool) {
	if f.Kind == "atom" {
		set[f.Atom] = true
	}
	for _, s := range f.Sub {
		s.atoms(set)
	}
}

func (f *Formula) eval(asg map[*sym.Term]bool) bool {
	switch f.Kind {
	case "const":
		return f.Val
	case "atom":
		return asg[f.Atom]
	case "not":
		return !f.Sub[0].eval(asg)
	case "and":
		for _, s := range f.Sub {
			if !s.eval(asg) {
				return false
			}
		}
		return true
	case "or":
		for _, s := range f.Sub {
			if s.eval(asg) {
				return true
			}
		}
		return false
	}
	return false
}

// String renders a formula.
func (f *Formula) String() string {
	switch f.Kind {
	case "const":
		if f.Val {
			return "true"
		}
		return "false"
	case "atom":
		return f.Atom.String()
	case "not":
		return "!" + f.Sub[0].String()
	}
	var parts []string
	for _, s := range f.Sub {
		parts = append(parts, s.String())
	}
	op := " && "
	if f.Kind == "or" {
		op = " || "
	}
	if len(parts) == 0 {
		if f.Kind == "and" {
			return "true"
		}
		return "false"
	}
	return "(" + strings.Join(parts, op) + ")"
}

// intCmp describes an atom cmp(x, const) over an integer term x.
type intCmp struct {
	x  *sym.Term
	op string // "eq", "lt" (x < c), "gt" (x > c)
	c  *big.Int
}

func asIntCmp(a *sym.Term) (intCmp, bool) {
	if len(a.Args) != 2 {
		return intCmp{}, false
	}
	l, r := a.Args[0], a.Args[1]
	isInt := func(t *sym.Term) bool { return t.Sort == sym.Int && !t.IsConst() }
	switch a.Op {
	case "eq":
		if l.IsConst() && isInt(r) {
			return intCmp{r, "eq", l.C}, true
		}
		if r.IsConst() && isInt(l) {
			return intCmp{l, "eq", r.C}, true
		}
	case "lt":
		if r.IsConst() && isInt(l) {
			return intCmp{l, "lt", r.C}, true
		}
		if l.IsConst() && isInt(r) {
			return intCmp{r, "gt", l.C}, true
		}
	}
	return intCmp{}, false
}

// consistent reports whether a valuation respects the single-variable integer theory.
func consistent(asg map[*sym.Term]bool, groups map[*sym.Term][]*sym.Term, cmps map[*sym.Term]intCmp) bool {
	for _, atoms := range groups {
		if len(atoms) < 2 {
			continue
		}
		// candidate witnesses: every constant and its neighbours
		var cands []*big.Int
		for _, a := range atoms {
			c := cmps[a].c
			cands = append(cands, new(big.Int).Sub(c, big.NewInt(1)), new(big.Int).Set(c), new(big.Int).Add(c, big.NewInt(1)))
		}
		ok := false
		for _, v := range cands {
			good := true
			for _, a := range atoms {
				k := cmps[a]
				var holds bool
				switch k.op {
				case "eq":
					holds = v.Cmp(k.c) == 0
				case "lt":
					holds = v.Cmp(k.c) < 0
				case "gt":
					holds = v.Cmp(k.c) > 0
				}
				if holds != asg[a] {
					good = false
					break
				}
			}
			if good {
				ok = true
				break
			}
		}
		if !ok {
			return false
		}
	}
	return true
}

// Equivalent compares two formulas under all consistent valuations of their atoms.
// extraExclusive lists sets of atoms of which at most one can hold.
func Equivalent(code, spec *Formula) (bool, string) {
	set := map[*sym.Term]bool{}
	code.atoms(set)
	spec.atoms(set)
	atoms := make([]*sym.Term, 0, len(set))
	for a := range set {
		atoms = append(atoms, a)
	}
	sort.Slice(atoms, func(i, j int) bool { return atoms[i].String() < atoms[j].String() })
	if len(atoms) > 22 {
		return false, fmt.Sprintf("too many atoms (%d) for a normal-form comparison", len(atoms))
	}
	groups := map[*sym.Term][]*sym.Term{}
	cmps := map[*sym.Term]intCmp{}
	for _, a := range atoms {
		if k, ok := asIntCmp(a); ok {
			cmps[a] = k
			groups[k.x] = append(groups[k.x], a)
		}
	}
	asg := map[*sym.Term]bool{}
	for m := 0; m < 1<<len(atoms); m++ {
		for i, a := range atoms {
			asg[a] = m&(1<<i) != 0
		}
		if !consistent(asg, groups, cmps) {
			continue
		}
		cv, sv := code.eval(asg), spec.eval(asg)
		if cv != sv {
			var parts []string
			for _, a := range atoms {
				s := a.String()
				if len(s) > 160 {
					s = s[:160] + "…"
				}
				if asg[a] {
					parts = append(parts, s)
				} else {
					parts = append(parts, "!"+s)
				}
			}
			return false, fmt.Sprintf("code gives %v but the specification gives %v when {%s}", cv, sv, strings.Join(parts, "; "))
		}
	}
	return true, fmt.Sprintf("%d atoms, all consistent valuations agree", len(atoms))
}

// collectTermAtoms adds the atoms of every ite-condition occurring anywhere in t.
func collectTermAtoms(t *sym.Term, set map[*sym.Term]bool, seen map[*sym.Term]bool) {
	if t == nil || seen[t] {
		return
	}
	seen[t] = true
	if t.Op == "ite" {
		FTerm(t.Args[0]).atoms(set)
	}
	for _, a := range t.Args {
		collectTermAtoms(a, set, seen)
	}
}

// ResolveIte rebuilds t with every ite-node decided by the valuation.
func ResolveIte(t *sym.Term, asg map[*sym.Term]bool) *sym.Term {
	memo := map[*sym.Term]*sym.Term{}
	var rec func(t *sym.Term) *sym.Term
	rec = func(t *sym.Term) *sym.Term {
		if len(t.Args) == 0 && !(t.Sort == sym.Bool && t.Op == "s") {
			return t
		}
		if r, ok := memo[t]; ok {
			return r
		}
		var r *sym.Term
		if t.Sort == sym.Bool && t.Op != "ite" && t.Op != "not" {
			if v, ok := asg[sym.Canon(t)]; ok {
				r = sym.ConstBool(v)
				memo[t] = r
				return r
			}
			if len(t.Args) == 0 {
				return t
			}
		}
		if t.Op == "ite" && allAtomsIn(FTerm(t.Args[0]), asg) {
			if FTerm(t.Args[0]).eval(asg) {
				r = rec(t.Args[1])
			} else {
				r = rec(t.Args[2])
			}
		} else {
			args := make([]*sym.Term, len(t.Args))
			same := true
			for i, a := range t.Args {
				args[i] = rec(a)
				if args[i] != a {
					same = false
				}
			}
			if same {
				r = t
			} else {
				r = absint.Rebuild(t, args)
			}
		}
		memo[t] = r
		return r
	}
	return rec(t)
}

// Valuations enumerates the consistent valuations of the atoms of the given formulas and terms.
func Valuations(fs []*Formula, ts []*sym.Term, yield func(asg map[*sym.Term]bool, describe func() string) bool) error {
	set := map[*sym.Term]bool{}
	for _, f := range fs {
		f.atoms(set)
	}
	seen := map[*sym.Term]bool{}
	for _, t := range ts {
		collectTermAtoms(t, set, seen)
	}
	atoms := make([]*sym.Term, 0, len(set))
	for a := range set {
		atoms = append(atoms, a)
	}
	sort.Slice(atoms, func(i, j int) bool { return atoms[i].String() < atoms[j].String() })
	if len(atoms) > 22 {
		return fmt.Errorf("too many atoms (%d) for a normal-form comparison", len(atoms))
	}
	groups := map[*sym.Term][]*sym.Term{}
	cmps := map[*sym.Term]intCmp{}
	for _, a := range atoms {
		if k, ok := asIntCmp(a); ok {
			cmps[a] = k
			groups[k.x] = append(groups[k.x], a)
		}
	}
	asg := map[*sym.Term]bool{}
	describe := func() string {
		var parts []string
		for _, a := range atoms {
			s := a.String()
			if len(s) > 120 {
				s = s[:120] + "…"
			}
			if !asg[a] {
				s = "!" + s
			}
			parts = append(parts, s)
		}
		return "{" + strings.Join(parts, "; ") + "}"
	}
	for m := 0; m < 1<<len(atoms); m++ {
		for i, a := range atoms {
			asg[a] = m&(1<<i) != 0
		}
		if !consistent(asg, groups, cmps) {
			continue
		}
		if !yield(asg, describe) {
			return nil
		}
	}
	return nil
}

// ValuesUnder checks that, under every consistent valuation satisfying cond,
// got[i] resolves to the same normal form as want[i].
func ValuesUnder(cond *Formula, got, want []*sym.Term) (bool, string) {
	all := append(append([]*sym.Term(nil), got...), want...)
	for i, g := range got {
		if g == nil {
			return false, fmt.Sprintf("value %d is not a term", i)
		}
	}
	msg := ""
	n := 0
	err := Valuations([]*Formula{cond}, all, func(asg map[*sym.Term]bool, describe func() string) bool {
		if !cond.eval(asg) {
			return true
		}
		n++
		for i := range got {
			g, w := ResolveIte(got[i], asg), ResolveIte(want[i], asg)
			if !sym.Equal(g, w) {
				gs, ws := g.String(), w.String()
				if len(gs) > 300 {
					gs = gs[:300] + "…"
				}
				if len(ws) > 300 {
					ws = ws[:300] + "…"
				}
				msg = fmt.Sprintf("value %d is %s, expected %s, when %s", i, gs, ws, describe())
				return false
			}
		}
		return true
	})
	if err != nil {
		return false, err.Error()
	}
	if msg != "" {
		return false, msg
	}
	if n == 0 {
		return false, "the condition is unsatisfiable (vacuous)"
	}
	return true, fmt.Sprintf("%d valuations", n)
}

// FNil is the condition under which a (possibly merged) pointer / interface / slice value is nil.
func FNil(v absint.Val) (*Formula, bool) {
	switch x := v.(type) {
	case *absint.Choice:
		a, oka := FNil(x.A)
		b, okb := FNil(x.B)
		if !oka || !okb {
			return nil, false
		}
		return fIte(FTerm(x.Cond), a, b), true
	}
	if isNilVal(v) {
		return fConst(true), true
	}
	if isNonNilVal(v) {
		return fConst(false), true
	}
	return nil, false
}

// choiceAtoms collects the atoms of the conditions of a merged value.
func choiceAtoms(v absint.Val, set map[*sym.Term]bool) {
	if c, ok := v.(*absint.Choice); ok {
		FTerm(c.Cond).atoms(set)
		choiceAtoms(c.A, set)
		choiceAtoms(c.B, set)
	}
}

// resolveChoice picks the alternative of a merged value selected by the valuation.
func resolveChoice(v absint.Val, asg map[*sym.Term]bool) absint.Val {
	for {
		c, ok := v.(*absint.Choice)
		if !ok {
			return v
		}
		if FTerm(c.Cond).eval(asg) {
			v = c.A
		} else {
			v = c.B
		}
	}
}

// fAtomsOf builds a formula mentioning the given atoms (so that Valuations enumerates them).
func fAtomsOf(set map[*sym.Term]bool) *Formula {
	var s []*Formula
	for a := range set {
		s = append(s, &Formula{Kind: "atom", Atom: a})
	}
	return &Formula{Kind: "or", Sub: s}
}

func allAtomsIn(f *Formula, asg map[*sym.Term]bool) bool {
	set := map[*sym.Term]bool{}
	f.atoms(set)
	for a := range set {
		if _, ok := asg[a]; !ok {
			return false
		}
	}
	return true
}

// CheckUnder enumerates the consistent valuations satisfying cond (over the atoms of cond, of the
// conditions of the merged values vals and of the ite-conditions inside terms) and calls fn on each;
// fn returns "" or a description of the mismatch.
func CheckUnder(cond *Formula, vals []absint.Val, terms []*sym.Term, fn func(asg map[*sym.Term]bool) string) (bool, string) {
	set := map[*sym.Term]bool{}
	for _, v := range vals {
		choiceAtoms(v, set)
	}
	fs := []*Formula{cond}
	if len(set) > 0 {
		fs = append(fs, fAtomsOf(set))
	}
	msg := ""
	n := 0
	err := Valuations(fs, terms, func(asg map[*sym.Term]bool, describe func() string) bool {
		if !cond.eval(asg) {
			return true
		}
		n++
		if m := fn(asg); m != "" {
			msg = m + " when " + describe()
			return false
		}
		return true
	})
	if err != nil {
		return false, err.Error()
	}
	if msg != "" {
		return false, msg
	}
	if n == 0 {
		return false, "the condition is unsatisfiable (vacuous)"
	}
	return true, fmt.Sprintf("%d valuations", n)
}
