package rules

import (
	"fmt"
	"go/constant"
	"go/token"
	"go/types"
	"math/big"
	"path/filepath"
	"sort"
	"strings"

	"golang.org/x/tools/go/ssa"

	"verif/internal/absint"
	"verif/internal/limbproof"
	"verif/internal/load"
	"verif/internal/models"
	"verif/internal/sym"
)

func init() {
	register("C01", "other", checkC01)
	register("C02", "other", checkC02)
}

type ringSpec struct {
	id       string
	sort     sym.Sort
	modulus  *big.Int
	fiatPkg  string
	ringType string // qualified
	ringPkg  string
	ringName string
	redFile  string // file holding reduceSaturated
}

func (s ringSpec) fiatDir(prog *load.Program) string {
	return filepath.Join(prog.Dir, strings.TrimPrefix(s.fiatPkg, models.Mod+"/"))
}

func addLimb(c *Ctx, rule string, obs []limbproof.Obligation, err error, what string) {
	if err != nil {
		c.R.Unknown(rule, "limbproof/"+what, "", "limb-equation engine could not analyse "+what+": "+err.Error())
		return
	}
	for _, o := range obs {
		st := o.Status
		switch st {
		case "discharged":
			c.R.OK(rule, o.Key, o.Pos, o.Detail)
		case "violated":
			c.R.Fail(rule, o.Key, o.Pos, o.Detail)
		default:
			c.R.Unknown(rule, o.Key, o.Pos, o.Detail)
		}
	}
}

func (s ringSpec) lower(prog *load.Program) ringLayer {
	set := models.NewSet().Merge(models.Fiat(models.FiatFPkg, sym.Fp)).Merge(models.Fiat(models.FiatSPkg, sym.Fn)).Merge(models.Helpers()).Merge(models.ReduceSaturated())
	return ringLayer{set: set, ringType: s.ringType, sort: s.sort, path: []int{FieldIndex(prog, s.ringPkg, s.ringName, "m")}}
}

func (s ringSpec) upper() ringLayer {
	set := models.NewSet().Merge(models.Field()).Merge(models.Scalar()).Merge(models.Helpers()).Merge(models.ReduceSaturated())
	return ringLayer{set: set, ringType: s.ringType, sort: s.sort}
}

// ringPointerParams returns the indices of parameters that are pointers to the ring type.
func ringPointerParams(fn *ssa.Function, ringType string) []int {
	var out []int
	for i, p := range fn.Params {
		if isPtr(p.Type()) && namedOf(p.Type()) == ringType {
			out = append(out, i)
		}
	}
	return out
}

// aliasPatterns enumerates the non-trivial partitions of the ring-pointer parameters.
func aliasPatterns(idx []int) []map[int]int {
	var out []map[int]int
	n := len(idx)
	if n < 2 {
		return nil
	}
	// restricted growth strings
	var rec func(k int, cls []int, maxc int)
	rec = func(k int, cls []int, maxc int) {
		if k == n {
			m := map[int]int{}
			first := map[int]int{}
			for i, cl := range cls {
				if f, ok := first[cl]; ok {
					m[idx[i]] = f
				} else {
					first[cl] = idx[i]
				}
			}
			if len(m) > 0 {
				out = append(out, m)
			}
			return
		}
		for cl := 0; cl <= maxc+1; cl++ {
			nm := maxc
			if cl > maxc {
				nm = cl
			}
			rec(k+1, append(append([]int(nil), cls...), cl), nm)
		}
	}
	rec(1, []int{0}, 0)
	return out
}

func aliasSuffix(m map[int]int) string {
	keys := make([]int, 0, len(m))
	for k := range m {
		keys = append(keys, k)
	}
	sort.Ints(keys)
	var parts []string
	for _, k := range keys {
		parts = append(parts, fmt.Sprintf("%d=%d", k, m[k]))
	}
	return "/alias:" + strings.Join(parts, ",")
}

// checkRingWrappers: rule 3 (wrapper summaries = specification) and rule 10 (alias safety).
func checkRingWrappers(c *Ctx, prog *load.Program, s ringSpec, methods []string, funcs []string) {
	lower, upper := s.lower(prog), s.upper()
	r3, r10 := s.id+"-3", s.id+"-10"
	n3, n10 := 0, 0
	for _, m := range methods {
		name := Method(s.ringType, m)
		if !token.IsExported(m) && absint.FindFunc(prog.SSA, name) == nil {
			// an unexported helper of the reference tree that this tree does not have (renamed, inlined, re-shaped): its
			// specification is then used by nobody, and the exported methods are validated with whatever they call inlined
			c.R.OK(r3, "model/"+strings.TrimPrefix(strings.TrimPrefix(name, "(*"+models.Mod), models.Mod), "", "unexported helper not present in this tree; its callers are validated with their callees inlined")
			continue
		}
		if validateModel(c, r3, prog, lower, upper, name, nil, nil, nil, "") {
		}
		n3++
		fn := absint.FindFunc(prog.SSA, name)
		if fn == nil {
			continue
		}
		for _, pat := range aliasPatterns(ringPointerParams(fn, s.ringType)) {
			validateModel(c, r10, prog, lower, upper, name, pat, nil, nil, aliasSuffix(pat))
			n10++
		}
	}
	for _, f := range funcs {
		validateModel(c, r3, prog, lower, upper, s.ringPkg+"."+f, nil, nil, nil, "")
	}
	// Pow2k / pow2k for concrete k (the loop is unrolled by constant propagation) + loop shape
	pw := "Pow2k"
	if s.sort == sym.Fn {
		pw = "pow2k"
	}
	for k := int64(1); k <= 5; k++ {
		validateModel(c, s.id+"-4", prog, lower, upper, Method(s.ringType, pw), nil, nil, map[int]absint.Val{2: sym.ConstI(k)}, fmt.Sprintf("/k=%d", k))
	}
	for _, pat := range []map[int]int{{1: 0}} {
		validateModel(c, r10, prog, lower, upper, Method(s.ringType, pw), pat, nil, map[int]absint.Val{2: sym.ConstI(3)}, "/k=3"+aliasSuffix(pat))
	}
	checkPow2kShape(c, prog, s, pw)
}

// checkPow2kShape: the loop of Pow2k squares the receiver in place once per
// iteration, the counter runs from 1 to k-1 in steps of 1, k == 0 panics.
func checkPow2kShape(c *Ctx, prog *load.Program, s ringSpec, name string) {
	rule := s.id + "-4"
	fn := absint.FindFunc(prog.SSA, Method(s.ringType, name))
	if fn == nil {
		c.R.Unknown(rule, "shape/"+name, "", "function not found")
		return
	}
	pos := PosOf(prog, fn)
	// find the loop header: a block with a phi whose edges are (const 1, phi+1) and an If on phi < k
	ok := false
	detail := "no counted loop `for i := 1; i < k; i++` found"
	for _, b := range fn.Blocks {
		for _, in := range b.Instrs {
			phi, isPhi := in.(*ssa.Phi)
			if !isPhi {
				break
			}
			if len(phi.Edges) != 2 {
				continue
			}
			var init *ssa.Const
			var step *ssa.BinOp
			for _, e := range phi.Edges {
				switch x := e.(type) {
				case *ssa.Const:
					init = x
				case *ssa.BinOp:
					step = x
				}
			}
			if init == nil || step == nil || init.Int64() != 1 || step.Op.String() != "+" || step.X != phi {
				continue
			}
			if k, isC := step.Y.(*ssa.Const); !isC || k.Int64() != 1 {
				continue
			}
			ifi, isIf := b.Instrs[len(b.Instrs)-1].(*ssa.If)
			if !isIf {
				continue
			}
			cmp, isCmp := ifi.Cond.(*ssa.BinOp)
			if !isCmp || cmp.Op.String() != "<" || cmp.X != phi || cmp.Y != fn.Params[2] {
				detail = "loop condition is not `i < k`"
				continue
			}
			// body: exactly one call (fiat Square with out == arg == &recv.m) and the increment
			body := b.Succs[0]
			calls := 0
			good := true
			for _, bi := range body.Instrs {
				switch x := bi.(type) {
				case *ssa.Call:
					calls++
					callee := x.Common().StaticCallee()
					if callee == nil || callee.Name() != "Square" || callee.Pkg == nil || callee.Pkg.Pkg.Path() != s.fiatPkg {
						good = false
					} else {
						a0, ok0 := x.Common().Args[0].(*ssa.FieldAddr)
						a1, ok1 := x.Common().Args[1].(*ssa.FieldAddr)
						if !ok0 || !ok1 || a0.X != fn.Params[0] || a1.X != fn.Params[0] || a0.Field != a1.Field {
							good = false
						}
					}
				case *ssa.Store, *ssa.MapUpdate:
					good = false
				}
			}
			if calls == 1 && good && step.Block() == body {
				ok = true
				detail = "loop `for i := 1; i < k; i++ { Square(recv, recv) }` after one Square(recv, a)"
			} else {
				detail = "loop body is not a single in-place Square of the receiver"
			}
		}
	}
	if ok {
		c.R.OK(rule, "shape/"+name, pos, detail+"; with the unrolled instances k=1..5 this gives a^(2^k) for every k >= 1 by induction")
		return
	}
	// The loop is not in the recognised counted form.  The routine is not part of the public API (internal package /
	// unexported method), so it is enough that every call site in the module passes a constant k and that the
	// instance for each such k, unrolled by constant propagation, computes a^(2^k).
	var ks []int64
	seen := map[int64]bool{}
	allConst, sites := true, 0
	var bad string
	for _, g := range ModuleFuncs(prog) {
		for _, b := range g.Blocks {
			for _, in := range b.Instrs {
				call, isCall := in.(ssa.CallInstruction)
				if !isCall || call.Common().StaticCallee() != fn {
					continue
				}
				sites++
				k, isC := call.Common().Args[2].(*ssa.Const)
				if !isC || k.Value == nil {
					allConst = false
					bad = PosStr(prog, call.Pos())
					continue
				}
				if !seen[k.Int64()] {
					seen[k.Int64()] = true
					ks = append(ks, k.Int64())
				}
			}
		}
	}
	for _, g := range ModuleFuncs(prog) {
		// the routine used as a value (method value, closure) could be called with any k
		for _, b := range g.Blocks {
			for _, in := range b.Instrs {
				if _, isCall := in.(ssa.CallInstruction); isCall {
					continue
				}
				for _, op := range in.Operands(nil) {
					if op != nil && *op == ssa.Value(fn) {
						allConst = false
						bad = PosStr(prog, in.Pos())
					}
				}
			}
		}
	}
	if !allConst || sites == 0 {
		c.R.Fail(rule, "shape/"+name, pos, detail+"; and not every call site passes a constant k ("+bad+")")
		return
	}
	sort.Slice(ks, func(i, j int) bool { return ks[i] < ks[j] })
	lower, upper := s.lower(prog), s.upper()
	all := true
	for _, k := range ks {
		if k >= 1 && k <= 5 {
			continue // already an instance of this rule
		}
		if !validateModel(c, rule, prog, lower, upper, Method(s.ringType, name), nil, nil, map[int]absint.Val{2: sym.ConstI(k)}, fmt.Sprintf("/k=%d", k)) {
			all = false
		}
	}
	c.R.Decide(all, rule, "shape/"+name, pos,
		fmt.Sprintf("loop not in the counted form (%s), but all %d call sites in the module pass a constant k in %v and the unrolled instance of every such k computes a^(2^k)", detail, sites, ks),
		"an instance for a k used by the module is wrong (see the /k= obligations)")
}

// checkExponentChain: the addition chain computes x^expected.
func checkExponentChain(c *Ctx, prog *load.Program, set *models.Set, rule, fname string, srt sym.Sort, expected *big.Int, what string) {
	r := RunFn(prog, set, fname, nil)
	pos := PosOf(prog, r.Fn)
	key := "chain/" + strings.TrimPrefix(fname, "(*"+models.Mod)
	if !r.OK() {
		c.R.Unknown(rule, key, pos, r.Problem())
		return
	}
	got, _ := r.FieldOf(0).(*sym.Term)
	if got == nil {
		c.R.Unknown(rule, key, pos, "result is not a term")
		return
	}
	mono, ok := sym.PolyOf(got).SingleMonomial()
	if !ok || len(mono.Atoms) != 1 || mono.Coef.Cmp(big.NewInt(1)) != 0 {
		c.R.Fail(rule, key, pos, "result is not a pure power of the input: "+sym.PolyOf(got).String())
		return
	}
	e := mono.Atoms[0].E
	if e.Cmp(expected) == 0 {
		c.R.OK(rule, key, pos, fmt.Sprintf("chain evaluates to x^e with e = %s (0x%s)", what, e.Text(16)))
		c.R.Sample(map[string]string{"chain": fname, "exponent": "0x" + e.Text(16), "expected": what})
	} else {
		d := new(big.Int).Sub(e, expected)
		c.R.Fail(rule, key, pos, fmt.Sprintf("chain evaluates to x^e with e = 0x%s, expected %s = 0x%s (difference %s)", e.Text(16), what, expected.Text(16), d.String()))
	}
	// perturbed-oracle control
	c.R.ControlResult(rule, "chain-off-by-one/"+what, "exponent compared with expected-1 must differ", e.Cmp(new(big.Int).Sub(expected, big.NewInt(1))) != 0)
}

func checkC01(c *Ctx) {
	prog := c.Prog(load.AMD64)
	s := ringSpec{id: "C01", sort: sym.Fp, modulus: sym.P, fiatPkg: models.FiatFPkg, ringType: models.ElementType, ringPkg: models.FieldPkg, ringName: "Element",
		redFile: filepath.Join(prog.Dir, "internal/field/field_reduce.go")}
	// rules 1, 2: fiat limb code
	obs, err := limbproof.CheckFiat(s.fiatDir(prog), s.modulus)
	addLimb(c, "C01-1", obs, err, "fiat field package")
	c.R.Floor("C01-1", 80)
	// rule 7: reduceSaturated; rule 8: helpers / byte order
	obs, err = limbproof.CheckUint64ToUint1(filepath.Join(s.fiatDir(prog), "voi.go"))
	addLimb(c, "C01-1", obs, err, "fiat field control-word normaliser")
	obs, err = limbproof.CheckReduceSaturated(s.redFile, s.modulus)
	addLimb(c, "C01-7", obs, err, "field reduceSaturated")
	c.R.Floor("C01-7", 5)
	obs, err = limbproof.CheckHelpers(filepath.Join(prog.Dir, "internal/helpers/helpers.go"))
	addLimb(c, "C01-8", obs, err, "helpers")
	c.R.Floor("C01-8", 20)

	// rules 3, 4, 10: wrappers
	methods := []string{"Zero", "One", "Add", "Subtract", "Negate", "Multiply", "Square", "Set", "SetBytes", "SetCanonicalBytes",
		"MustSetCanonicalBytes", "Bytes", "getBytes", "ConditionalNegate", "ConditionalSelect", "Equal", "IsZero", "IsOdd", "uncheckedSetSaturated"}
	checkRingWrappers(c, prog, s, methods, []string{"NewElementFromUint64", "NewElementFrom", "BytesAreCanonical"})
	c.R.Floor("C01-3", 21)
	c.R.Floor("C01-4", 6)
	c.R.Floor("C01-10", 22)

	// rule 5: exponent chains (Element operations as ring operations, chains not intercepted)
	chainSet := models.NewSet().Merge(models.Field()).Merge(models.Helpers()).Merge(models.Scalar())
	delete(chainSet.Intercepts, Method(models.ElementType, "Invert"))
	delete(chainSet.Intercepts, Method(models.ElementType, "pow3mod4"))
	delete(chainSet.Intercepts, Method(models.ScalarType, "Invert"))
	pm2 := new(big.Int).Sub(sym.P, big.NewInt(2))
	checkExponentChain(c, prog, chainSet, "C01-5", Method(models.ElementType, "Invert"), sym.Fp, pm2, "p-2")
	p34 := new(big.Int).Rsh(new(big.Int).Sub(sym.P, big.NewInt(3)), 2)
	checkExponentChain(c, prog, chainSet, "C01-5", Method(models.ElementType, "pow3mod4"), sym.Fp, p34, "(p-3)/4")
	c.R.Floor("C01-5", 2)

	// rule 6: sqrt_ratio and Sqrt
	c01SqrtRatio(c, prog)
	// rule 9: wide reduction
	c01Wide(c, prog)
	// rule 11: who writes Element.m / argument origin of the unchecked setter
	checkWhoWritesLimbs(c, prog, s)

	c.R.Explanation = "Field arithmetic is decided in layers, all statically: (1/2/7/8) the limb-equation engine turns every statement of the fiat routines, reduceSaturated and the byte/limb helpers into exact equations over Z and proves the documented postconditions (Montgomery identity W^4*T = a*b + Q*m by backward substitution, T < 2m, conditional subtraction) for all inputs below the modulus; (3/10) each Element method body is abstractly interpreted against that specification and must coincide, as normal forms, with the ring specification the upper layers rely on, for every aliasing pattern of receiver and operands; (4) Pow2k by unrolled instances plus loop shape; (5) the addition chains of Invert and pow3mod4 are evaluated in the exponent domain and equal p-2 and (p-3)/4; (6) SqrtRatio equals RFC 9380 F.2.1.2 as terms, c2^2 = -Z; (9) SetWideBytes is a tiling of the input with weights 2^(8k) mod p for every length 32..64; (11) the limbs of an Element are only written by fiat outputs or by the unchecked setter on arguments proven below p."
	c.R.Assumptions = []string{"math/bits Add64/Sub64/Mul64 semantics", "RFC 9380 F.2.1.2: the sqrt_ratio procedure returns a square root exactly when one exists (p = 3 mod 4)", "go/ssa and go/parser are faithful"}
}

func c01SqrtRatio(c *Ctx, prog *load.Program) {
	set := models.NewSet().Merge(models.Field()).Merge(models.Helpers()).Merge(models.Scalar())
	delete(set.Intercepts, Method(models.ElementType, "SqrtRatio"))
	r := RunFn(prog, set, Method(models.ElementType, "SqrtRatio"), nil)
	pos := PosOf(prog, r.Fn)
	if !r.OK() {
		c.R.Unknown("C01-6", "sqrt_ratio", pos, r.Problem())
		return
	}
	u, v := fpSym("*u"), fpSym("*v")
	c1 := new(big.Int).Rsh(new(big.Int).Sub(sym.P, big.NewInt(3)), 2)
	tv2 := mul(u, v)
	tv1 := mul(v, v, tv2)
	y1 := mul(sym.Pow(tv1, c1), tv2)
	c2 := readGlobalFp(c, prog, set, models.FieldPkg, "feC2", "C01-6")
	if c2 == nil {
		return
	}
	isQR := models.RingEq(mul(y1, y1, v), u)
	want := sym.Ite(isQR, y1, mul(y1, c2))
	got, _ := r.FieldOf(0).(*sym.Term)
	flag, _ := r.Result(1).(*sym.Term)
	c.R.Decide(got != nil && sym.Equal(got, want), "C01-6", "sqrt_ratio/value", pos, "y = CMOV(y1*c2, y1, isQR) with y1 = (u*v^3)^((p-3)/4)*u*v", "SqrtRatio value differs from RFC 9380 F.2.1.2: "+absint.ValString(got))
	c.R.Decide(flag != nil && sym.Equal(flag, isQR), "C01-6", "sqrt_ratio/flag", pos, "isQR = [y1^2 * v == u]", "SqrtRatio flag differs from RFC 9380 F.2.1.2: "+absint.ValString(flag))
	// c2^2 = -Z = 11
	sq := new(big.Int).Mul(c2.C, c2.C)
	sq.Mod(sq, sym.P)
	c.R.Decide(c2.IsConst() && sq.Cmp(big.NewInt(11)) == 0, "C01-6", "const/c2", "", "c2^2 = 11 = -Z (mod p)", "feC2 is not a square root of -Z = 11")
	// Sqrt = SqrtRatio(a, 1) masked by the flag: the model validation covers it
	low := ringLayer{set: models.NewSet().Merge(models.Field()).Merge(models.Helpers()).Merge(models.Scalar()), ringType: models.ElementType, sort: sym.Fp}
	delete(low.set.Intercepts, Method(models.ElementType, "Sqrt"))
	up := ringLayer{set: models.NewSet().Merge(models.Field()).Merge(models.Helpers()).Merge(models.Scalar()), ringType: models.ElementType, sort: sym.Fp}
	validateModel(c, "C01-6", prog, low, up, Method(models.ElementType, "Sqrt"), nil, nil, nil, "")
	validateModel(c, "C01-6", prog, low, up, Method(models.ElementType, "Sqrt"), map[int]int{1: 0}, nil, nil, "/alias:1=0")
	// SqrtRatio with the receiver aliasing u and/or v (C01-10 for the one method whose body is not a model comparison)
	for _, pat := range [][]int{{0, 0, 1}, {0, 1, 0}, {0, 1, 1}, {0, 0, 0}} {
		checkAlias(c, prog, set, "C01-6", Method(models.ElementType, "SqrtRatio"), pat, func(r *Run) []absint.Val {
			return []absint.Val{r.FieldOf(0), r.Result(1)}
		})
	}
	c.R.Floor("C01-6", 9)
}

// c01Wide: SetWideBytes(src) = OS2IP(src) mod p for every length 32..64.
func c01Wide(c *Ctx, prog *load.Program) {
	set := models.NewSet().Merge(models.Field()).Merge(models.Helpers()).Merge(models.Scalar()).Merge(models.ReduceSaturated())
	delete(set.Intercepts, Method(models.ElementType, "SetWideBytes"))
	name := Method(models.ElementType, "SetWideBytes")
	lengths := []int{}
	for l := 32; l <= 64; l++ {
		lengths = append(lengths, l)
	}
	for _, L := range lengths {
		key := fmt.Sprintf("wide/len=%d", L)
		cfg := &absint.Config{Prog: prog}
		set.Apply(cfg)
		ex := absint.New(cfg)
		fn := ex.Func(name)
		if fn == nil {
			c.R.Unknown("C01-9", key, "", "SetWideBytes not found")
			return
		}
		pos := PosOf(prog, fn)
		st := ex.NewState()
		recv := ex.SymParam(fn.Params[0].Type(), "fe", 0)
		S := absint.SymBytes("src", L, 0)
		out, err := ex.Call(st, fn, []absint.Val{recv, ex.BytesToSlice(st, S, "src")})
		if err != nil || len(ex.Fails) > 0 || out.Ret == nil {
			c.R.Unknown("C01-9", key, pos, fmt.Sprintf("analysis incomplete: %v %v", err, firstN(ex.Fails, 2)))
			continue
		}
		got, _ := out.Ret.St.Resolve(ex.LoadLeaf(out.Ret.St, recv.(*absint.Ptr))).(*sym.Term)
		if got == nil {
			c.R.Unknown("C01-9", key, pos, "result is not a term")
			continue
		}
		if msg := wideTiling(got, S, L); msg != "" {
			c.R.Fail("C01-9", key, pos, msg+"; value = "+sym.PolyOf(got).String())
		} else {
			c.R.OK("C01-9", key, pos, "value = sum of tiles of src weighted by 2^(8*(len-end)) mod p, tiles partition [0,len)")
		}
	}
	for _, L := range []int{31, 65} {
		r := RunFn(prog, set, name, &RunOpts{Args: []ArgSpec{{Alias: -1, SameSymsAs: -1}, {Alias: -1, SameSymsAs: -1, Val: nil}}, Pre: nil})
		_ = r
		cfg := &absint.Config{Prog: prog}
		set.Apply(cfg)
		ex := absint.New(cfg)
		fn := ex.Func(name)
		st := ex.NewState()
		recv := ex.SymParam(fn.Params[0].Type(), "fe", 0)
		out, _ := ex.Call(st, fn, []absint.Val{recv, ex.BytesToSlice(st, absint.SymBytes("src", L, 0), "src")})
		c.R.Decide(out.Ret == nil && len(ex.Panics) > 0, "C01-9", fmt.Sprintf("wide/len=%d-panics", L), PosOf(prog, fn), "out-of-range length panics", "out-of-range length does not panic")
	}
	c.R.Floor("C01-9", 35)
}

// wideTiling checks value == Σ fp(tile_i) * 2^(8*(L-end_i)) where the tiles partition [0,L).
func wideTiling(v *sym.Term, S *sym.Term, L int) string {
	pl := sym.PolyOf(v)
	type tile struct{ lo, hi int }
	var tiles []tile
	for _, t := range pl.SortedTerms() {
		if len(t.Atoms) != 1 || t.Atoms[0].E.Cmp(big.NewInt(1)) != 0 {
			return "unexpected monomial shape"
		}
		a := t.Atoms[0].A
		if a.Op != "fp_of_bytes" {
			return "monomial is not a decoded byte string: " + a.String()
		}
		b := a.Args[0]
		lo, hi, ok := tileOf(b, S, L)
		if !ok {
			return "cannot interpret operand as a zero-extended sub-string of src: " + b.String()
		}
		want := new(big.Int).Exp(big.NewInt(2), big.NewInt(int64(8*(L-hi))), sym.P)
		if t.Coef.Cmp(want) != 0 {
			return fmt.Sprintf("tile src[%d:%d] has weight 0x%s, expected 2^%d mod p = 0x%s", lo, hi, t.Coef.Text(16), 8*(L-hi), want.Text(16))
		}
		if hi-lo > 32 {
			return fmt.Sprintf("tile src[%d:%d] is wider than 32 bytes", lo, hi)
		}
		tiles = append(tiles, tile{lo, hi})
	}
	sort.Slice(tiles, func(i, j int) bool { return tiles[i].lo < tiles[j].lo })
	pos := 0
	for _, t := range tiles {
		if t.lo != pos {
			return fmt.Sprintf("tiles do not partition the input: gap or overlap at byte %d", pos)
		}
		pos = t.hi
	}
	if pos != L {
		return fmt.Sprintf("tiles cover only [0,%d) of %d bytes", pos, L)
	}
	return ""
}

// tileOf interprets a 32-byte string as zeros || src[lo:hi] (right aligned).
func tileOf(b, S *sym.Term, L int) (int, int, bool) {
	parts := []*sym.Term{b}
	if b.Op == "cat" {
		parts = b.Args
	}
	lo, hi := -1, -1
	seenData := false
	total := 0
	for _, p := range parts {
		n, ok := sym.BytesLen(p)
		if !ok {
			return 0, 0, false
		}
		total += n
		switch {
		case p.IsStrConst():
			if strings.Trim(p.S, "\x00") != "" || seenData {
				return 0, 0, false
			}
		case p == S:
			if seenData {
				return 0, 0, false
			}
			lo, hi, seenData = 0, L, true
		case p.Op == "sub" && p.Args[0] == S:
			l, ok1 := p.Args[1].Int64()
			h, ok2 := p.Args[2].Int64()
			if !ok1 || !ok2 {
				return 0, 0, false
			}
			if seenData {
				if int(l) != hi {
					return 0, 0, false
				}
				hi = int(h)
			} else {
				lo, hi, seenData = int(l), int(h), true
			}
		default:
			return 0, 0, false
		}
	}
	if total != 32 || !seenData {
		return 0, 0, false
	}
	return lo, hi, true
}

// checkWhoWritesLimbs: rule 11.
func checkWhoWritesLimbs(c *Ctx, prog *load.Program, s ringSpec) {
	rule := s.id + "-11"
	mIdx := FieldIndex(prog, s.ringPkg, s.ringName, "m")
	writers := map[string]bool{"Add": true, "Sub": true, "Opp": true, "Mul": true, "Square": true, "ToMontgomery": true, "SetOne": true, "Selectznz": true, "FromMontgomery": false}
	n := 0
	for _, fn := range ModuleFuncs(prog) {
		for _, b := range fn.Blocks {
			for _, in := range b.Instrs {
				fa, ok := in.(*ssa.FieldAddr)
				if !ok || fa.Field != mIdx || !isNamedPtr(fa.X.Type(), s.ringType) {
					continue
				}
				for _, ref := range derefRefs(fa) {
					n++
					key := fmt.Sprintf("limb-access/%s", fn.String()[strings.LastIndex(fn.String(), "/")+1:])
					switch u := ref.(type) {
					case *ssa.Call:
						callee := u.Common().StaticCallee()
						isFiat := callee != nil && callee.Pkg != nil && callee.Pkg.Pkg.Path() == s.fiatPkg
						isHelper := callee != nil && callee.Pkg != nil && callee.Pkg.Pkg.Path() == models.HelpersPkg
						if !(isFiat || isHelper) {
							c.R.Fail(rule, key+"/"+calleeName(callee), PosStr(prog, u.Pos()), "limbs are passed to a function outside the fiat/helpers packages")
							continue
						}
						if isFiat {
							if _, known := writers[callee.Name()]; !known && callee.Name() != "Nonzero" {
								c.R.Fail(rule, key+"/"+callee.Name(), PosStr(prog, u.Pos()), "limbs are passed to an unexpected fiat routine "+callee.Name())
								continue
							}
						}
						c.R.OK(rule, key+"/"+calleeName(callee), PosStr(prog, u.Pos()), "limbs only flow into a verified fiat/helper routine")
					case *ssa.Store:
						// Zero(): stores of the constant 0
						// two stores are value-preserving: the constant 0 (limb by limb or as the zero array: the element 0),
						// and a copy of the limbs of another element of the same ring
						isZero := false
						if k, isC := u.Val.(*ssa.Const); isC {
							isZero = k.Value == nil || (k.Value.Kind() == constant.Int && k.Int64() == 0)
						}
						isCopy := false
						if ld, isLd := u.Val.(*ssa.UnOp); isLd && ld.Op == token.MUL {
							if src, isFA := ld.X.(*ssa.FieldAddr); isFA && src.Field == mIdx && isNamedPtr(src.X.Type(), s.ringType) {
								isCopy = true
							}
						}
						switch {
						case isZero:
							c.R.OK(rule, key+"/store-zero", PosStr(prog, u.Pos()), "writes 0 limbs (the element 0)")
						case isCopy:
							c.R.OK(rule, key+"/store-copy", PosStr(prog, u.Pos()), "copies the limbs of another element of the ring")
						default:
							c.R.Fail(rule, key+"/store", PosStr(prog, u.Pos()), "direct store into the limbs of a ring element")
						}
					default:
						c.R.OK(rule, key+"/"+fmt.Sprintf("%T", ref), PosStr(prog, ref.Pos()), "read-only or copy use")
					}
				}
			}
		}
	}
	// argument origin of the unchecked setter
	setter := absint.FindFunc(prog.SSA, Method(s.ringType, "uncheckedSetSaturated"))
	// (no table of caller names: whoever calls the unchecked setter must pass a value that is below the modulus by one of
	// the dataflow justifications; a helper that returns the reduced limbs is followed)
	for _, fn := range ModuleFuncs(prog) {
		for _, b := range fn.Blocks {
			for _, in := range b.Instrs {
				call, ok := in.(*ssa.Call)
				if !ok || call.Common().StaticCallee() != setter || setter == nil {
					continue
				}
				key := "unchecked-setter/" + fn.Name()
				good, why := false, ""
				var whys []string
				for _, kind := range []string{"reduced", "short", "literal", "128-bit"} {
					g, w := setterArgJustified(fn, call, kind)
					if g {
						good, why = true, w
						break
					}
					whys = append(whys, w)
				}
				if !good {
					why = "uncheckedSetSaturated called with an argument that is not proven below the modulus: " + strings.Join(whys, "; ")
				}
				c.R.Decide(good, rule, key, PosStr(prog, call.Pos()), why, why)
			}
		}
	}
	_ = n
}

func calleeName(f *ssa.Function) string {
	if f == nil {
		return "?"
	}
	return f.Name()
}

// derefRefs returns the instructions using a field address, looking through pointer conversions and slicing.
func derefRefs(v ssa.Value) []ssa.Instruction {
	var out []ssa.Instruction
	refs := v.Referrers()
	if refs == nil {
		return nil
	}
	for _, r := range *refs {
		switch x := r.(type) {
		case *ssa.ChangeType:
			out = append(out, derefRefs(x)...)
		case *ssa.Convert:
			out = append(out, derefRefs(x)...)
		case *ssa.IndexAddr:
			out = append(out, derefRefs(x)...)
		case *ssa.Slice:
			for _, rr := range derefRefsSlice(x) {
				out = append(out, rr)
			}
		case *ssa.DebugRef:
		default:
			out = append(out, r)
		}
	}
	return out
}

func derefRefsSlice(s *ssa.Slice) []ssa.Instruction {
	var out []ssa.Instruction
	refs := s.Referrers()
	if refs == nil {
		return nil
	}
	for _, r := range *refs {
		if _, ok := r.(*ssa.DebugRef); ok {
			continue
		}
		if call, ok := r.(*ssa.Call); ok {
			if b, isB := call.Common().Value.(*ssa.Builtin); isB && b.Name() == "copy" {
				// copy(dst, src): Set() copies limbs from another element
				if call.Common().Args[1] == ssa.Value(s) || (call.Common().Args[0] == ssa.Value(s) && call.Parent().Name() == "Set") {
					continue
				}
			}
		}
		out = append(out, r)
	}
	return out
}

// setterArgJustified checks the structural justification of one call of the unchecked setter.
func setterArgJustified(fn *ssa.Function, call *ssa.Call, kind string) (bool, string) {
	if len(call.Common().Args) == 5 {
		return setterWordsJustified(fn, call, kind)
	}
	if len(call.Common().Args) != 2 {
		return false, "unexpected signature of the unchecked setter"
	}
	arg := call.Common().Args[1]
	// the limbs may be passed by address or by value: a value loaded from a local array is treated like its address at
	// the point of the load; a value that is directly the result of a call is followed into that call
	var at ssa.Instruction = call
	var byValue ssa.Value
	if _, isPtr := arg.Type().Underlying().(*types.Pointer); !isPtr {
		if ld, ok := arg.(*ssa.UnOp); ok && ld.Op == token.MUL {
			arg, at = ld.X, ld
		} else {
			byValue = arg
		}
	}
	switch kind {
	case "reduced":
		// the argument must be the destination of a reduceSaturated call that dominates this call, or a local array
		// that received the result of a helper which returns such a destination
		if byValue != nil {
			if returnsReduced(byValue, 0) {
				return true, "argument is the reduced result of a helper (value < modulus)"
			}
			return false, "argument of the unchecked setter is not a reduceSaturated output"
		}
		if reducedBefore(fn, arg, at, 0) {
			return true, "argument is the output of reduceSaturated (value < modulus)"
		}
		if testedCanonicalBefore(fn, arg, at) {
			return true, "argument is the source of a reduceSaturated whose flag was tested zero on the way here (value < modulus, left as it is)"
		}
		return false, "argument of the unchecked setter is not the output of a dominating reduceSaturated"
	case "short":
		return shortJustified(fn, arg, byValue, at, 0)
	case "literal", "128-bit":
		// composite literal {x, y?, 0, 0}: the two top limbs are the constant 0
		al, ok := arg.(*ssa.Alloc)
		if !ok {
			return false, "argument is not a local limb array"
		}
		zeroTop := map[int64]bool{}
		written := map[int64]bool{}
		for _, r := range *al.Referrers() {
			ia, ok := r.(*ssa.IndexAddr)
			if !ok {
				// the array must be written element by element only: no whole-array store, no other routine that
				// receives its address
				switch x := r.(type) {
				case *ssa.Store:
					if x.Addr == ssa.Value(al) {
						return false, "the limb array is assigned as a whole (not a literal)"
					}
				case ssa.CallInstruction:
					if x != ssa.CallInstruction(call) {
						return false, "the limb array is handed to another routine before the setter"
					}
				case *ssa.UnOp:
					if ssa.Instruction(x) != at {
						return false, "the limb array is read elsewhere"
					}
				case *ssa.DebugRef:
				default:
					return false, fmt.Sprintf("the limb array is used by %T", r)
				}
				continue
			}
			k, isC := ia.Index.(*ssa.Const)
			if !isC {
				return false, "limb array written at a non-constant index"
			}
			for _, rr := range *ia.Referrers() {
				if st, ok := rr.(*ssa.Store); ok {
					written[k.Int64()] = true
					if cv, isC := st.Val.(*ssa.Const); isC && cv.Value != nil && cv.Int64() == 0 {
						zeroTop[k.Int64()] = true
					}
				}
			}
		}
		top := func(i int64) bool { return zeroTop[i] || !written[i] }
		if kind == "literal" && top(1) && top(2) && top(3) {
			return true, "limbs {x,0,0,0}: value < 2^64 < modulus"
		}
		if kind == "128-bit" && top(2) && top(3) {
			return true, "limbs {x,y,0,0}: value < 2^128 < modulus"
		}
		return false, "upper limbs of the literal are not the constant 0"
	}
	return false, "unknown justification"
}

// setterWordsJustified: the unchecked setter takes the four limbs as separate words (l0, l1, l2, l3).
func setterWordsJustified(fn *ssa.Function, call *ssa.Call, kind string) (bool, string) {
	ws := call.Common().Args[1:]
	isZero := func(v ssa.Value) bool {
		c, ok := v.(*ssa.Const)
		return ok && c.Value != nil && c.Uint64() == 0
	}
	switch kind {
	case "literal":
		if isZero(ws[1]) && isZero(ws[2]) && isZero(ws[3]) {
			return true, "limbs (x,0,0,0): value < 2^64 < modulus"
		}
		return false, "upper limbs are not the constant 0"
	case "128-bit":
		if isZero(ws[2]) && isZero(ws[3]) {
			return true, "limbs (x,y,0,0): value < 2^128 < modulus"
		}
		return false, "upper limbs are not the constant 0"
	case "reduced", "short":
		// the words must be elements 0..3, in order, of one local limb array that is justified at each of the loads
		var arr ssa.Value
		for i, w := range ws {
			ld, ok := w.(*ssa.UnOp)
			if !ok || ld.Op != token.MUL {
				return false, "a limb word is not loaded from a limb array"
			}
			ia, ok := ld.X.(*ssa.IndexAddr)
			if !ok {
				return false, "a limb word is not an element of a limb array"
			}
			k, isC := ia.Index.(*ssa.Const)
			if !isC || k.Int64() != int64(i) {
				return false, "limb words are not elements 0..3 in order"
			}
			if arr == nil {
				arr = ia.X
			} else if arr != ia.X {
				return false, "limb words come from different arrays"
			}
			if kind == "reduced" {
				if !reducedBefore(fn, arr, ld, 0) {
					return false, "the limb array is not the output of a dominating reduceSaturated at the load of word " + fmt.Sprint(i)
				}
			} else if ok, why := shortJustified(fn, arr, nil, ld, 0); !ok {
				return false, why
			}
		}
		if kind == "reduced" {
			return true, "the words are the limbs of a reduceSaturated output (value < modulus)"
		}
		return true, "the words are the limbs of a short (< 2^248) value"
	}
	return false, "unknown justification"
}

// shortJustified: the limbs (the array arg points to at instruction at, or the value byValue) are
// BytesToSaturated(&buf) where buf is a zeroed local [32]byte written only by copy(buf[32-n:], src) with n = len(src),
// and a dominating guard panics when n >= 32: the top byte stays 0, value < 2^248 < modulus.
func shortJustified(fn *ssa.Function, arg ssa.Value, byValue ssa.Value, at ssa.Instruction, depth int) (bool, string) {
	// arg = BytesToSaturated(&buf) where buf is a zeroed local [32]byte written only by copy(buf[32-n:], src) with
	// n = len(src), and a dominating guard panics when n >= 32: the top byte stays 0, value < 2^248 < modulus
	var buf *ssa.Alloc
	if cc, isCall := byValue.(*ssa.Call); isCall && cc.Common().StaticCallee() != nil && cc.Common().StaticCallee().Name() == "BytesToSaturated" && len(cc.Common().Args) == 1 {
		buf, _ = cc.Common().Args[0].(*ssa.Alloc)
	}
	for _, b := range fn.Blocks {
		for _, in := range b.Instrs {
			st, ok := in.(*ssa.Store)
			if !ok || byValue != nil || st.Addr != arg || !instrBefore(st, at) {
				continue
			}
			if cc, isCall := st.Val.(*ssa.Call); isCall && cc.Common().StaticCallee() != nil && cc.Common().StaticCallee().Name() == "BytesToSaturated" && len(cc.Common().Args) == 1 {
				buf, _ = cc.Common().Args[0].(*ssa.Alloc)
			}
		}
	}
	if buf == nil {
		// or the limbs come from a module helper every return of which yields such a value
		var src ssa.Value = byValue
		if src == nil {
			for _, b := range fn.Blocks {
				for _, in := range b.Instrs {
					if st, ok := in.(*ssa.Store); ok && st.Addr == arg && instrBefore(st, at) {
						src = st.Val
					}
				}
			}
		}
		idx := 0
		if ex, isEx := src.(*ssa.Extract); isEx {
			idx, src = ex.Index, ex.Tuple
		}
		if cc, isCall := src.(*ssa.Call); isCall && depth < 3 {
			if g := cc.Common().StaticCallee(); g != nil && len(g.Blocks) > 0 && g.Pkg != nil && load.IsModulePkg(g.Pkg.Pkg.Path()) {
				n := 0
				for _, gb := range g.Blocks {
					ret, isRet := gb.Instrs[len(gb.Instrs)-1].(*ssa.Return)
					if !isRet {
						continue
					}
					n++
					if idx >= len(ret.Results) {
						return false, "helper result index out of range"
					}
					w := ret.Results[idx]
					var wp ssa.Value
					var wv ssa.Value = w
					var wat ssa.Instruction = ret
					if ld, isLd := w.(*ssa.UnOp); isLd && ld.Op == token.MUL {
						wp, wv, wat = ld.X, nil, ld
					}
					if ok, why := shortJustified(g, wp, wv, wat, depth+1); !ok {
						return false, "helper " + g.Name() + ": " + why
					}
				}
				if n > 0 {
					return true, "limbs returned by " + g.Name() + ", which right-aligns an input shorter than 32 bytes in a zeroed buffer (value below 2^248 < modulus)"
				}
			}
		}
		return false, "argument is not BytesToSaturated of a local buffer"
	}
	var lenVal ssa.Value
	for _, r := range *buf.Referrers() {
		switch x := r.(type) {
		case *ssa.Slice:
			sub, ok := x.Low.(*ssa.BinOp)
			if !ok || sub.Op != token.SUB {
				return false, "the buffer is sliced at an offset that is not 32 - len(src)"
			}
			if k, isC := sub.X.(*ssa.Const); !isC || k.Int64() != 32 {
				return false, "the buffer is sliced at an offset that is not 32 - len(src)"
			}
			if lenVal != nil && lenVal != sub.Y {
				return false, "the buffer is written at two different offsets"
			}
			lenVal = sub.Y
			for _, rr := range *x.Referrers() {
				cc, isCall := rr.(*ssa.Call)
				if !isCall {
					return false, "the buffer slice has a use other than copy"
				}
				if bi, isB := cc.Common().Value.(*ssa.Builtin); !isB || bi.Name() != "copy" || cc.Common().Args[0] != ssa.Value(x) {
					return false, "the buffer slice has a use other than being the destination of copy"
				}
			}
		case ssa.CallInstruction, *ssa.DebugRef:
		default:
			return false, fmt.Sprintf("the buffer is used by %T", r)
		}
	}
	if lenVal == nil {
		return false, "no write of the input into the buffer found"
	}
	for _, b := range fn.Blocks {
		if ifi, ok := b.Instrs[len(b.Instrs)-1].(*ssa.If); ok {
			if cmp, ok := ifi.Cond.(*ssa.BinOp); ok && cmp.X == lenVal && (cmp.Op.String() == ">=" || cmp.Op.String() == ">") {
				if k, isC := cmp.Y.(*ssa.Const); isC && ((cmp.Op.String() == ">=" && k.Int64() <= 32) || (cmp.Op.String() == ">" && k.Int64() <= 31)) {
					if _, isPanic := b.Succs[0].Instrs[len(b.Succs[0].Instrs)-1].(*ssa.Panic); isPanic && b.Succs[1].Dominates(at.Block()) {
						return true, "input shorter than 32 bytes (guard panics otherwise) and right-aligned in a zeroed buffer, so the value is below 2^248 < modulus"
					}
				}
			}
		}
	}
	return false, "no dominating guard bounds the input length below 32 bytes"
}

// instrBefore reports whether a is executed before b on every path reaching b (a dominates b).
func instrBefore(a, b ssa.Instruction) bool {
	if a.Block() != b.Block() {
		return a.Block().Dominates(b.Block())
	}
	for _, in := range a.Block().Instrs {
		if in == a {
			return true
		}
		if in == b {
			return false
		}
	}
	return false
}

// reducedBefore: the array that ptr points to holds, at instruction at, the output of reduceSaturated.
func reducedBefore(fn *ssa.Function, ptr ssa.Value, at ssa.Instruction, depth int) bool {
	if depth > 3 {
		return false
	}
	for _, b := range fn.Blocks {
		for _, in := range b.Instrs {
			switch x := in.(type) {
			case *ssa.Call:
				callee := x.Common().StaticCallee()
				if callee != nil && callee.Name() == "reduceSaturated" && len(x.Common().Args) > 0 && x.Common().Args[0] == ptr && instrBefore(x, at) {
					return noWriteBetween(ptr, x, at)
				}
			case *ssa.Store:
				// *ptr = <result of a helper returning reduced limbs>
				if x.Addr != ptr || !instrBefore(x, at) {
					continue
				}
				if returnsReduced(x.Val, depth) {
					return true
				}
			}
		}
	}
	return false
}

// testedCanonicalBefore: ptr is the *source* (second argument) of a reduceSaturated(dst, src) call with a different
// destination, the call's flag is compared with 0, and `at` lies in the part of the function that is only reached
// through the flag == 0 side of that test, with no write to ptr in between: the value was already below the modulus.
func testedCanonicalBefore(fn *ssa.Function, ptr ssa.Value, at ssa.Instruction) bool {
	for _, b := range fn.Blocks {
		for _, in := range b.Instrs {
			call, ok := in.(*ssa.Call)
			if !ok {
				continue
			}
			callee := call.Common().StaticCallee()
			if callee == nil || callee.Name() != "reduceSaturated" || len(call.Common().Args) != 2 || call.Common().Args[1] != ptr || call.Common().Args[0] == ptr {
				continue
			}
			if call.Referrers() == nil {
				continue
			}
			for _, r := range *call.Referrers() {
				cmp, isCmp := r.(*ssa.BinOp)
				if !isCmp || cmp.X != ssa.Value(call) {
					continue
				}
				k, isC := cmp.Y.(*ssa.Const)
				if !isC || k.Value == nil || k.Uint64() != 0 {
					continue
				}
				zeroSide := -1
				switch cmp.Op {
				case token.NEQ:
					zeroSide = 1
				case token.EQL:
					zeroSide = 0
				}
				if zeroSide < 0 || cmp.Referrers() == nil {
					continue
				}
				for _, rr := range *cmp.Referrers() {
					ifi, isIf := rr.(*ssa.If)
					if !isIf {
						continue
					}
					succ := ifi.Block().Succs[zeroSide]
					if len(succ.Preds) != 1 || !succ.Dominates(at.Block()) {
						continue
					}
					if noWriteBetween(ptr, call, at) {
						return true
					}
				}
			}
		}
	}
	return false
}

// noWriteBetween: the local array ptr is not written (element store, whole store, address handed to a routine) by any
// instruction other than `from` that may execute before `to`.
func noWriteBetween(ptr ssa.Value, from, to ssa.Instruction) bool {
	al, ok := ptr.(*ssa.Alloc)
	if !ok || al.Referrers() == nil {
		return true // a parameter: the caller's obligation (rule C01-10 covers the methods' own aliasing)
	}
	for _, r := range *al.Referrers() {
		if r == from || r == to {
			continue
		}
		switch x := r.(type) {
		case *ssa.UnOp, *ssa.DebugRef:
		case *ssa.Store:
			if x.Addr == ptr && !instrBefore(x, from) {
				return false
			}
		case *ssa.IndexAddr:
			for _, rr := range *x.Referrers() {
				if st, isStore := rr.(*ssa.Store); isStore && st.Addr == ssa.Value(x) && !instrBefore(st, from) {
					return false
				}
			}
		case ssa.CallInstruction:
			if !instrBefore(x, from) {
				// a later routine receiving the address could modify it, unless it is known to read only
				callee := x.Common().StaticCallee()
				if callee == nil || (callee.Name() != "uncheckedSetSaturated" && callee.Name() != "PutSaturatedToBytes") {
					return false
				}
			}
		default:
			return false
		}
	}
	return true
}

// returnsReduced: v is (a component of) the result of a module function all of whose returns yield the
// output of reduceSaturated.
func returnsReduced(v ssa.Value, depth int) bool {
	idx := 0
	if ex, ok := v.(*ssa.Extract); ok {
		idx = ex.Index
		v = ex.Tuple
	}
	call, ok := v.(*ssa.Call)
	if !ok {
		return false
	}
	g := call.Common().StaticCallee()
	if g == nil || len(g.Blocks) == 0 || g.Pkg == nil || !load.IsModulePkg(g.Pkg.Pkg.Path()) {
		return false
	}
	if g.Name() == "reduceSaturated" {
		// the by-value form: the array result is the reduced value (rule Cnn-7 proves it for whichever shape it has)
		if res := g.Signature.Results(); idx < res.Len() {
			_, isArr := res.At(idx).Type().Underlying().(*types.Array)
			return isArr
		}
		return false
	}
	n := 0
	for _, b := range g.Blocks {
		ret, ok := b.Instrs[len(b.Instrs)-1].(*ssa.Return)
		if !ok {
			continue
		}
		n++
		if idx >= len(ret.Results) {
			return false
		}
		ld, ok := ret.Results[idx].(*ssa.UnOp)
		if !ok || ld.Op != token.MUL {
			return false
		}
		if !reducedBefore(g, ld.X, ld, depth+1) {
			return false
		}
	}
	return n > 0
}

func checkC02(c *Ctx) {
	prog := c.Prog(load.AMD64)
	s := ringSpec{id: "C02", sort: sym.Fn, modulus: sym.N, fiatPkg: models.FiatSPkg, ringType: models.ScalarType, ringPkg: models.Mod, ringName: "Scalar",
		redFile: filepath.Join(prog.Dir, "scalar.go")}
	obs, err := limbproof.CheckFiat(s.fiatDir(prog), s.modulus)
	addLimb(c, "C02-1", obs, err, "fiat scalar package")
	c.R.Floor("C02-1", 80)
	obs, err = limbproof.CheckUint64ToUint1(filepath.Join(s.fiatDir(prog), "voi.go"))
	addLimb(c, "C02-1", obs, err, "fiat scalar control-word normaliser")
	// the constant-time helpers (shared with the field package) that Scalar.Equal / IsZero / the byte conversions use
	obs, err = limbproof.CheckHelpers(filepath.Join(prog.Dir, "internal/helpers/helpers.go"))
	addLimb(c, "C02-8", obs, err, "helpers")
	obs, err = limbproof.CheckReduceSaturated(s.redFile, s.modulus)
	addLimb(c, "C02-7", obs, err, "scalar reduceSaturated")
	c.R.Floor("C02-7", 5)
	obs, err = limbproof.CheckIsGreaterThanHalfN(s.redFile, s.modulus)
	addLimb(c, "C02-2b", obs, err, "IsGreaterThanHalfN")
	c.R.Floor("C02-2b", 5)

	methods := []string{"Zero", "One", "Add", "Subtract", "Negate", "Multiply", "Square", "Set", "SetBytes", "SetCanonicalBytes",
		"Bytes", "getBytes", "ConditionalNegate", "ConditionalSelect", "Equal", "IsZero", "uncheckedSetSaturated"}
	checkRingWrappers(c, prog, s, methods, []string{"NewScalarFromUint64", "NewScalarFrom"})
	c.R.Floor("C02-3", 18)
	c.R.Floor("C02-4", 6)
	c.R.Floor("C02-10", 22)

	chainSet := models.NewSet().Merge(models.Field()).Merge(models.Helpers()).Merge(models.Scalar())
	delete(chainSet.Intercepts, Method(models.ScalarType, "Invert"))
	nm2 := new(big.Int).Sub(sym.N, big.NewInt(2))
	checkExponentChain(c, prog, chainSet, "C02-2a", Method(models.ScalarType, "Invert"), sym.Fn, nm2, "n-2")
	c.R.Floor("C02-2a", 1)

	c02Folds(c, prog, s)
	c02Constructors(c, prog, s)
	checkWhoWritesLimbs(c, prog, s)

	c.R.Explanation = "Same layered decision as C01 for the scalar ring: limb-equation proofs of the fiat routines for modulus n, reduceSaturated and the half-order comparison chain (halfNSat = (n-1)/2, result = [s > (n-1)/2]); each Scalar method body equals the ring specification for every alias pattern; Invert's 293-step addition chain evaluates to the exponent n-2; Sum/Product are left folds over fresh accumulators (unrolled instances 0..4 plus loop shape, aliased entries included); constructors return nil on error; limbs are only written with values proven below n."
	c.R.Assumptions = []string{"math/bits Add64/Sub64/Mul64 semantics", "go/ssa and go/parser are faithful"}
}

// c02Folds: Sum / Product.
func c02Folds(c *Ctx, prog *load.Program, s ringSpec) {
	upper := s.upper()
	for _, m := range []struct {
		name string
		op   func(a, b *sym.Term) *sym.Term
		unit int64
	}{{"Sum", sym.Add, 0}, {"Product", sym.Mul, 1}} {
		fname := Method(s.ringType, m.name)
		for n := 0; n <= 4; n++ {
			for _, aliasRecv := range []bool{false, true} {
				if aliasRecv && n == 0 {
					continue
				}
				key := fmt.Sprintf("fold/%s/len=%d/recv-in-vec=%v", m.name, n, aliasRecv)
				cfg := &absint.Config{Prog: prog}
				upper.set.Apply(cfg)
				ex := absint.New(cfg)
				fn := ex.Func(fname)
				if fn == nil {
					c.R.Unknown("C02-2c", key, "", "function not found")
					continue
				}
				pos := PosOf(prog, fn)
				st := ex.NewState()
				b := buildRingArgs(ex, st, fn, upper, nil, map[int]int{1: n}, nil)
				if aliasRecv {
					// make the receiver the last entry of vec
					sv := b.vals[1].(*absint.SliceVal)
					last := st.Resolve(ex.LoadElem(st, sv, int64(n-1))).(*absint.Ptr)
					b.vals[0] = last
				}
				out, err := ex.Call(st, fn, b.vals)
				if err != nil || len(ex.Fails) > 0 || out.Ret == nil {
					c.R.Unknown("C02-2c", key, pos, fmt.Sprintf("analysis incomplete: %v %v", err, firstN(ex.Fails, 2)))
					continue
				}
				want := sym.Const(sym.Fn, big.NewInt(m.unit))
				for k := 0; k < n; k++ {
					want = m.op(want, sym.Sym(sym.Fn, fmt.Sprintf("vec%d", k)))
				}
				got, _ := out.Ret.St.Resolve(ex.LoadLeaf(out.Ret.St, b.vals[0].(*absint.Ptr))).(*sym.Term)
				c.R.Decide(got != nil && sym.Equal(got, want), "C02-2c", key, pos, "result = "+sym.PolyOf(want).String(), "fold result is "+absint.ValString(got)+", expected "+sym.PolyOf(want).String())
			}
		}
		// the loop is widened for symbolic lengths; its shape: accumulator updated once per element
		checkFoldShape(c, prog, s, m.name)
	}
	c.R.Floor("C02-2c", 20)
}

func checkFoldShape(c *Ctx, prog *load.Program, s ringSpec, name string) {
	fn := absint.FindFunc(prog.SSA, Method(s.ringType, name))
	if fn == nil {
		return
	}
	// the loop body contains exactly one call, to Add/Multiply, whose receiver and first operand are the same fresh accumulator
	op := map[string]string{"Sum": "Add", "Product": "Multiply"}[name]
	ok := false
	detail := "no single-accumulator loop found"
	for _, b := range fn.Blocks {
		isHdr := false
		for _, p := range b.Preds {
			if b.Dominates(p) {
				isHdr = true
			}
		}
		if !isHdr {
			continue
		}
		calls := 0
		good := true
		for _, lb := range fn.Blocks {
			if lb == b || !b.Dominates(lb) {
				continue
			}
			// blocks in the loop body: those that reach the header again
			reach := false
			for _, sx := range lb.Succs {
				if sx == b {
					reach = true
				}
			}
			if !reach {
				continue
			}
			for _, in := range lb.Instrs {
				call, isCall := in.(*ssa.Call)
				if !isCall {
					if _, isStore := in.(*ssa.Store); isStore {
						good = false
					}
					continue
				}
				calls++
				callee := call.Common().StaticCallee()
				if callee == nil || callee.Name() != op || recvNamed(callee) != s.ringType {
					good = false
					continue
				}
				a := call.Common().Args
				if a[0] != a[1] {
					good = false
				}
				if a[0] == ssa.Value(fn.Params[0]) {
					good = false
					detail = "accumulates directly into the receiver (breaks when the receiver is an entry of vec)"
				}
			}
		}
		if calls == 1 && good {
			ok = true
			detail = "loop body is acc = " + op + "(acc, v) on a local accumulator; receiver written after the loop"
		}
	}
	c.R.Decide(ok, "C02-2c", "fold-shape/"+name, PosOf(prog, fn), detail, detail)
}

// c02Constructors: NewScalarFromCanonicalBytes returns nil on error, NewScalarFromBytes = SetBytes on a fresh scalar.
func c02Constructors(c *Ctx, prog *load.Program, s ringSpec) {
	upper := s.upper()
	src := absint.SymBytes("src", 32, 0)
	r := RunFn(prog, upper.set, models.Mod+".NewScalarFromCanonicalBytes", &RunOpts{Pre: func(ex *absint.Exec, st *absint.State, args []absint.Val) {
		args[0] = ex.ByteArrayPtr(st, src, "src")
	}})
	if r.Fn == nil {
		c.R.Unknown("C02-2d", "NewScalarFromCanonicalBytes", "", "not found")
		return
	}
	pos := PosOf(prog, r.Fn)
	if p := runComplete(r); p != "" {
		c.R.Unknown("C02-2d", "NewScalarFromCanonicalBytes", pos, p)
		return
	}
	// whatever the shape of the returns (two exits, or one exit handing on the decoder's results): the error is nil
	// exactly for src < n, and the object is nil exactly when the error is not
	acc, prob := acceptFormula(r, 1)
	nilObj, prob2 := nilFormula(r, 0)
	okAll, detail := false, prob+prob2
	if prob == "" && prob2 == "" {
		okAll, detail = Equivalent(acc, fNot(FTerm(models.GeModulus(sym.Fn, src))))
		if okAll {
			okAll, detail = Equivalent(nilObj, fNot(acc))
		}
	}
	c.R.Decide(okAll, "C02-2d", "NewScalarFromCanonicalBytes", pos, "returns (nil, err) iff src >= n, otherwise (scalar, nil)", "constructor does not return nil exactly on the rejecting path: "+detail)
	c.R.Floor("C02-2d", 1)
}

func isNilIface(v absint.Val) bool {
	i, ok := v.(*absint.Iface)
	return ok && i.Opaque == nil && i.Dyn == nil
}

func isNilVal(v absint.Val) bool {
	switch x := v.(type) {
	case absint.Nil:
		return true
	case *absint.Iface:
		return x.Opaque == nil && x.Dyn == nil
	case *absint.SliceVal:
		return x.Base == nil
	}
	return false
}
