package rules

import (
	"fmt"
	"go/types"
	"math/big"

	"golang.org/x/tools/go/ssa"

	"verif/internal/absint"
	"verif/internal/load"
	"verif/internal/models"
	"verif/internal/sym"
)

func init() { register("C03", "translation_validation", checkC03) }

func fpSym(name string) *sym.Term { return sym.Sym(sym.Fp, name) }
func fpConst(v int64) *sym.Term   { return sym.Const(sym.Fp, big.NewInt(v)) }
func mul(ts ...*sym.Term) *sym.Term {
	r := ts[0]
	for _, t := range ts[1:] {
		r = sym.Mul(r, t)
	}
	return r
}
func add(ts ...*sym.Term) *sym.Term {
	r := ts[0]
	for _, t := range ts[1:] {
		r = sym.Add(r, t)
	}
	return r
}

// rcbAdd returns the Renes–Costello–Batina closed forms for a = 0 with b3 given.
func rcbAdd(x1, y1, z1, x2, y2, z2, b3 *sym.Term) (x3, y3, z3 *sym.Term) {
	three := fpConst(3)
	a := add(mul(x1, y2), mul(x2, y1))         // X1Y2+X2Y1
	m := sym.Sub(mul(y1, y2), mul(b3, z1, z2)) // Y1Y2 - b3 Z1Z2
	pl := add(mul(y1, y2), mul(b3, z1, z2))    // Y1Y2 + b3 Z1Z2
	yz := add(mul(y1, z2), mul(y2, z1))        // Y1Z2+Y2Z1
	xz := add(mul(x1, z2), mul(x2, z1))        // X1Z2+X2Z1
	x3 = sym.Sub(mul(a, m), mul(b3, yz, xz))
	y3 = add(mul(pl, m), mul(three, b3, x1, x2, xz))
	z3 = add(mul(yz, pl), mul(three, x1, x2, a))
	return
}

func rcbDouble(x, y, z, b3 *sym.Term) (x3, y3, z3 *sym.Term) {
	yy := mul(y, y)
	zz := mul(z, z)
	m := sym.Sub(yy, mul(fpConst(3), b3, zz))
	x3 = mul(fpConst(2), x, y, m)
	y3 = add(mul(m, add(yy, mul(b3, zz))), mul(fpConst(8), b3, yy, zz))
	z3 = mul(fpConst(8), yy, y, z)
	return
}

// pointFields resolves the field indices of Point.x,y,z,isValid.
type pointLayout struct{ x, y, z, valid int }

func pointFields(prog *load.Program) pointLayout {
	return pointLayout{
		FieldIndex(prog, models.Mod, "Point", "x"), FieldIndex(prog, models.Mod, "Point", "y"),
		FieldIndex(prog, models.Mod, "Point", "z"), FieldIndex(prog, models.Mod, "Point", "isValid"),
	}
}

func fieldSet() *models.Set {
	s := models.NewSet().Merge(models.Field()).Merge(models.Helpers()).Merge(models.Scalar())
	// unexported accessors without a specification of their own are analysed as written: converting an abstract element
	// or scalar out of the Montgomery domain yields the limbs of its canonical representative
	s.Merge(models.FiatOnAbstract(models.FiatSPkg, sym.Fn))
	s.Merge(models.FiatOnAbstract(models.FiatFPkg, sym.Fp))
	return s
}

// coordsOf returns the final coordinate terms of the point argument i.
func coordsOf(r *Run, pl pointLayout, i int) [3]*sym.Term {
	var out [3]*sym.Term
	for k, f := range []int{pl.x, pl.y, pl.z} {
		t, _ := r.FieldOf(i, f).(*sym.Term)
		out[k] = t
	}
	return out
}

func comparePoly(c *Ctx, rule, key, pos string, got, want *sym.Term) bool {
	if got == nil {
		c.R.Unknown(rule, key, pos, "result is not a term")
		return false
	}
	pg, pw := sym.PolyOf(got), sym.PolyOf(want)
	if sym.PolyEqual(pg, pw) {
		c.R.OK(rule, key, pos, fmt.Sprintf("normal form has %d monomials and equals the reference", len(pg.Terms)))
		return true
	}
	c.R.Fail(rule, key, pos, "normal forms differ; computed - reference = "+sym.PolyDiff(pg, pw).String())
	return false
}

func checkC03(c *Ctx) {
	prog := c.Prog(load.AMD64)
	pl := pointFields(prog)
	if pl.x < 0 || pl.y < 0 || pl.z < 0 || pl.valid < 0 {
		c.R.Unknown("C03-1", "anchor/Point-layout", "", "Point fields x,y,z,isValid not found")
		return
	}
	set := fieldSet()
	ptT := models.PointType
	X := func(n string) *sym.Term { return fpSym("*" + n + ".x") }
	Y := func(n string) *sym.Term { return fpSym("*" + n + ".y") }
	Z := func(n string) *sym.Term { return fpSym("*" + n + ".z") }

	// b3 is read from the code: the value of the package-level feB3 after abstract initialisation.
	b3 := readGlobalFp(c, prog, set, models.Mod, "feB3", "C03-1")
	b := readGlobalFp(c, prog, set, models.Mod, "feB", "C03-1")
	if b3 == nil || b == nil {
		return
	}
	c.R.Decide(b.IsConst() && b.C.Cmp(big.NewInt(7)) == 0, "C03-1", "const/feB", "", "feB = 7 (curve y^2 = x^3 + 7)", "feB is not 7: "+b.String())
	c.R.Decide(b3.IsConst() && b3.C.Cmp(big.NewInt(21)) == 0, "C03-1", "const/feB3", "", "feB3 = 21 = 3b", "feB3 is not 3*7: "+b3.String())
	b3ref := fpConst(21)

	type formula struct {
		name string
		want func() (x, y, z *sym.Term)
		args []ArgSpec
	}
	formulas := []formula{
		{"addComplete", func() (x, y, z *sym.Term) {
			return rcbAdd(X("p"), Y("p"), Z("p"), X("q"), Y("q"), Z("q"), b3ref)
		}, nil},
		{"addMixed", func() (x, y, z *sym.Term) {
			return rcbAdd(X("p"), Y("p"), Z("p"), fpSym("*x2"), fpSym("*y2"), fpConst(1), b3ref)
		}, nil},
		{"doubleComplete", func() (x, y, z *sym.Term) { return rcbDouble(X("p"), Y("p"), Z("p"), b3ref) }, nil},
	}
	results := map[string][3]*sym.Term{}
	for _, f := range formulas {
		r := RunFn(prog, set, Method(ptT, f.name), nil)
		pos := PosOf(prog, r.Fn)
		if !r.OK() {
			c.R.Unknown("C03-1", "formula/"+f.name, pos, r.Problem())
			continue
		}
		got := coordsOf(r, pl, 0)
		results[f.name] = got
		wx, wy, wz := f.want()
		for i, w := range []*sym.Term{wx, wy, wz} {
			comparePoly(c, "C03-1", fmt.Sprintf("formula/%s.%c3", f.name, "XYZ"[i]), pos, got[i], w)
		}
		c.R.Sample(map[string]interface{}{"program": f.name, "X3": sym.PolyOf(got[0]).String(), "reference": "RCB15 closed form, a=0, b3=21"})
	}
	c.R.Floor("C03-1", 22)
	// perturbed-oracle control: a sign flipped in the reference must be noticed
	if got, ok := results["addComplete"]; ok && got[0] != nil {
		wx, _, _ := rcbAdd(X("p"), Y("p"), Z("p"), X("q"), Y("q"), Z("q"), fpConst(-21))
		c.R.ControlResult("C03-1", "perturbed-b3-sign", "reference with b3 = -21 must differ from the code", !sym.Equal(got[0], wx))
	}
	// the doubling reference is tied to the addition reference: dbl(P) ~ add(P,P) modulo the curve equation
	c03DoubleVsAdd(c, X("p"), Y("p"), Z("p"), b3ref)
	// ... and both are tied to the chord-and-tangent law of y^2 = x^3 + 7 (the oracle is not taken on trust)
	c03GroupLaw(c, b3ref, false)
	pert := c03GroupLaw(c, fpConst(20), true)
	fired := true
	for _, k := range []string{"chord-x", "chord-y", "tangent-x", "tangent-y", "closure-add", "closure-double"} {
		fired = fired && !pert[k]
	}
	c.R.ControlResult("C03-1", "perturbed-group-law", "each of the six chord / tangent / closure identities must fail for the closed form with b3 = 20", fired)

	// C03-2: alias safety of the three internal routines
	aliasPatterns := map[string][][]int{ // each pattern: parameter index -> class id
		"addComplete":    {{0, 0, 1}, {0, 1, 0}, {0, 1, 1}, {0, 0, 0}},
		"doubleComplete": {{0, 0}},
		"addMixed":       {{0, 0, 1, 2}},
	}
	for _, name := range []string{"addComplete", "addMixed", "doubleComplete"} {
		for _, pat := range aliasPatterns[name] {
			checkAlias(c, prog, set, "C03-2", Method(ptT, name), pat, func(r *Run) []absint.Val {
				cs := coordsOf(r, pl, 0)
				return []absint.Val{cs[0], cs[1], cs[2]}
			})
		}
	}
	// ... and of every exported operation taking Point operands (receiver and arguments may alias in any pattern)
	publicPatterns := map[string][][]int{
		"Add":               {{0, 0, 1}, {0, 1, 0}, {0, 1, 1}, {0, 0, 0}},
		"Subtract":          {{0, 0, 1}, {0, 1, 0}, {0, 1, 1}, {0, 0, 0}},
		"Double":            {{0, 0}},
		"Negate":            {{0, 0}},
		"Set":               {{0, 0}},
		"ConditionalNegate": {{0, 0, 1}},
		"ConditionalSelect": {{0, 0, 1, 2}, {0, 1, 0, 2}, {0, 1, 1, 2}, {0, 0, 0, 2}},
	}
	for _, name := range SortedKeys(publicPatterns) {
		for _, pat := range publicPatterns[name] {
			checkAlias(c, prog, set, "C03-2", Method(ptT, name), pat, func(r *Run) []absint.Val {
				cs := coordsOf(r, pl, 0)
				return []absint.Val{cs[0], cs[1], cs[2], r.FieldOf(0, pl.valid)}
			})
		}
	}
	c.R.Floor("C03-2", 22)

	// C03-3: public operations = the internal formula on the right operands, flag propagated
	c03Public(c, prog, set, pl, results)
	// C03-4: Equal / IsIdentity
	c03Equal(c, prog, set, pl)
	// C03-5: representation independence
	c03Rescale(c, prog, set, pl)
	c03WhoReads(c, prog)
	c03Parity(c, prog, set)
	// the encoders as functions of the symbolic coordinates (rule C06-4: bytes of X/Z, Y/Z, prefix from the parity of
	// Y/Z, 0x00 for Z = 0): the "every encoding depends only on the abstract point" clause of this property
	c06Encoders(c, prog, pl)

	c.R.Explanation = "Translation validation of the three projective formulas (addComplete, addMixed, doubleComplete): the abstract interpreter evaluates each routine on symbolic coordinates over F_p (field.Element operations replaced by their ring specification, which C01 justifies) and the resulting output polynomials are compared, as normal forms, with the Renes-Costello-Batina closed forms for a=0, b3=21; the doubling reference is tied to the addition reference modulo the curve equation. Further rules: alias patterns of receiver/operands give the same normal forms; the exported operations reduce to these formulas on the right operands and propagate the validity flag; Equal is the two cross-product tests; every coordinate that leaves the package is read from a rescale() result and rescale is (X/Z, Y/Z, 1) or (0,1,0)."
	c.R.Assumptions = []string{"C01: field.Element operations are exact ring operations mod p (Invert(0)=0)", "RCB15, non-degeneracy part only: the closed forms have Z3 != 0 for Q != -P (and Y3 != 0 for Q = -P) on a curve of odd order; agreement with the chord-and-tangent law, closure, inverse and neutral element are decided (reference/group-law)", "go/ssa construction is faithful"}
	c.R.Extra["programs"] = 3
	c.R.Extra["disagreements_checked"] = len(c.R.Obligations)
}

// readGlobalFp returns the term held by a package-level *field.Element after abstract initialisation.
func readGlobalFp(c *Ctx, prog *load.Program, set *models.Set, pkg, name, rule string) *sym.Term {
	v := readGlobalVal(c, prog, set, pkg, name, rule)
	t, _ := v.(*sym.Term)
	if t == nil && v != nil {
		c.R.Unknown(rule, "anchor/"+name, "", "package-level "+name+" does not hold a term: "+absint.ValString(v))
	}
	return t
}

func readGlobalVal(c *Ctx, prog *load.Program, set *models.Set, pkg, name, rule string) absint.Val {
	cfg := &absint.Config{Prog: prog}
	set.Apply(cfg)
	ex := absint.New(cfg)
	st := ex.NewState()
	gp := ex.GlobalObj(st, pkg, name)
	if gp == nil {
		c.R.Unknown(rule, "anchor/"+name, "", "package-level variable "+pkg+"."+name+" not found")
		return nil
	}
	v := st.Resolve(ex.LoadLeaf(st, gp))
	if p, ok := v.(*absint.Ptr); ok {
		v = st.Resolve(ex.LoadLeaf(st, p))
	}
	if len(ex.Fails) > 0 {
		c.R.Unknown(rule, "anchor/"+name, "", "initialiser could not be evaluated: "+ex.Fails[0])
		return nil
	}
	return v
}

// checkAlias runs fn with distinct operands and with the given aliasing pattern
// (pattern[i] = class of parameter i; parameters of the same class are the same
// object) and requires identical observable results.
func checkAlias(c *Ctx, prog *load.Program, set *models.Set, rule, fname string, pattern []int, observe func(r *Run) []absint.Val) {
	key := fmt.Sprintf("alias/%s/%v", fname[len("(*"+models.Mod):], pattern)
	// reference: distinct objects, but parameters of one class start with the same symbols
	first := map[int]int{}
	var refArgs, aliasArgs []ArgSpec
	for i, cls := range pattern {
		if j, ok := first[cls]; ok {
			refArgs = append(refArgs, ArgSpec{Alias: -1, SameSymsAs: j})
			aliasArgs = append(aliasArgs, ArgSpec{Alias: j, SameSymsAs: -1})
		} else {
			first[cls] = i
			refArgs = append(refArgs, ArgSpec{Alias: -1, SameSymsAs: -1})
			aliasArgs = append(aliasArgs, ArgSpec{Alias: -1, SameSymsAs: -1})
		}
	}
	ref := RunFn(prog, set, fname, &RunOpts{Args: refArgs})
	al := RunFn(prog, set, fname, &RunOpts{Args: aliasArgs})
	pos := PosOf(prog, ref.Fn)
	if !ref.OK() || !al.OK() {
		c.R.Unknown(rule, key, pos, "runs incomplete: "+ref.Problem()+" / "+al.Problem())
		return
	}
	a, b := observe(ref), observe(al)
	for i := range a {
		if !valSame(a[i], b[i]) {
			c.R.Fail(rule, key, pos, fmt.Sprintf("observable %d differs when operands alias: distinct=%s aliased=%s", i, absint.ValString(a[i]), absint.ValString(b[i])))
			return
		}
	}
	c.R.OK(rule, key, pos, fmt.Sprintf("%d observables identical with aliased operands", len(a)))
}

func valSame(a, b absint.Val) bool {
	ta, oka := a.(*sym.Term)
	tb, okb := b.(*sym.Term)
	if oka && okb {
		return sym.Equal(ta, tb)
	}
	return absint.ValString(a) == absint.ValString(b)
}

// reduceCurve rewrites X^3 -> Y^2 Z - b Z^3 until the degree in X is below 3.
func reduceCurve(p *sym.Poly, x, y, z *sym.Term, b int64) *sym.Poly {
	cur := sym.FromPoly(p)
	for iter := 0; iter < 20; iter++ {
		pl := sym.PolyOf(cur)
		changed := false
		var sum *sym.Term = fpConst(0)
		for _, t := range pl.SortedTerms() {
			mono := sym.Const(sym.Fp, t.Coef)
			for _, a := range t.Atoms {
				e := new(big.Int).Set(a.E)
				if a.A == x && e.Cmp(big.NewInt(3)) >= 0 {
					changed = true
					q := new(big.Int).Div(e, big.NewInt(3))
					rm := new(big.Int).Mod(e, big.NewInt(3))
					repl := sym.Sub(mul(y, y, z), mul(fpConst(b), z, z, z))
					for i := int64(0); i < q.Int64(); i++ {
						mono = sym.Mul(mono, repl)
					}
					if rm.Sign() > 0 {
						mono = sym.Mul(mono, sym.Pow(x, rm))
					}
					continue
				}
				mono = sym.Mul(mono, sym.Pow(a.A, e))
			}
			sum = sym.Add(sum, mono)
		}
		cur = sum
		if !changed {
			break
		}
	}
	return sym.PolyOf(cur)
}

func c03DoubleVsAdd(c *Ctx, x, y, z, b3 *sym.Term) {
	ax, ay, az := rcbAdd(x, y, z, x, y, z, b3)
	dx, dy, dz := rcbDouble(x, y, z, b3)
	// projective equality: dx*az == ax*dz and dy*az == ay*dz modulo the curve polynomial
	ok := true
	for _, pr := range [][2]*sym.Term{{mul(dx, az), mul(ax, dz)}, {mul(dy, az), mul(ay, dz)}, {mul(dx, ay), mul(ax, dy)}} {
		d := reduceCurve(sym.PolyOf(sym.Sub(pr[0], pr[1])), x, y, z, 7)
		if len(d.Terms) != 0 {
			ok = false
		}
	}
	c.R.Decide(ok, "C03-1", "reference/double-equals-add-P-P", "", "doubling closed form is projectively equal to add(P,P) modulo Y^2Z = X^3 + 7Z^3", "doubling reference disagrees with the addition reference")
}

func c03Public(c *Ctx, prog *load.Program, set *models.Set, pl pointLayout, formulas map[string][3]*sym.Term) {
	ptT := models.PointType
	X := func(n string) *sym.Term { return fpSym("*" + n + ".x") }
	Y := func(n string) *sym.Term { return fpSym("*" + n + ".y") }
	Z := func(n string) *sym.Term { return fpSym("*" + n + ".z") }
	b3 := fpConst(21)
	type spec struct {
		name  string
		want  func(r *Run) [3]*sym.Term
		valid []int // operand indices whose flags must be conjoined
	}
	ctrl := func(r *Run, i int) *sym.Term { t, _ := r.Args[i].(*sym.Term); return absint.AsBool(t) }
	specs := []spec{
		{"Add", func(r *Run) [3]*sym.Term {
			a, b, cc := rcbAdd(X("p"), Y("p"), Z("p"), X("q"), Y("q"), Z("q"), b3)
			return [3]*sym.Term{a, b, cc}
		}, []int{1, 2}},
		{"Double", func(r *Run) [3]*sym.Term {
			a, b, cc := rcbDouble(X("p"), Y("p"), Z("p"), b3)
			return [3]*sym.Term{a, b, cc}
		}, []int{1}},
		{"Subtract", func(r *Run) [3]*sym.Term {
			a, b, cc := rcbAdd(X("p"), Y("p"), Z("p"), X("q"), sym.Neg(Y("q")), Z("q"), b3)
			return [3]*sym.Term{a, b, cc}
		}, []int{1, 2}},
		{"Negate", func(r *Run) [3]*sym.Term { return [3]*sym.Term{X("p"), sym.Neg(Y("p")), Z("p")} }, []int{1}},
		{"Set", func(r *Run) [3]*sym.Term { return [3]*sym.Term{X("p"), Y("p"), Z("p")} }, []int{1}},
		{"ConditionalNegate", func(r *Run) [3]*sym.Term {
			return [3]*sym.Term{X("p"), sym.Ite(ctrl(r, 2), sym.Neg(Y("p")), Y("p")), Z("p")}
		}, []int{1}},
		{"ConditionalSelect", func(r *Run) [3]*sym.Term {
			s := func(a, b *sym.Term) *sym.Term { return sym.Ite(ctrl(r, 3), b, a) }
			return [3]*sym.Term{s(X("a"), X("b")), s(Y("a"), Y("b")), s(Z("a"), Z("b"))}
		}, []int{1, 2}},
	}
	for _, s := range specs {
		r := RunFn(prog, set, Method(ptT, s.name), nil)
		pos := PosOf(prog, r.Fn)
		if !r.OK() {
			c.R.Unknown("C03-3", "op/"+s.name, pos, r.Problem())
			continue
		}
		got := coordsOf(r, pl, 0)
		want := s.want(r)
		ok := true
		for i := range got {
			if got[i] == nil || !sym.Equal(got[i], want[i]) {
				ok = false
				d := "?"
				if got[i] != nil {
					d = sym.PolyDiff(sym.PolyOf(got[i]), sym.PolyOf(want[i])).String()
				}
				c.R.Fail("C03-3", fmt.Sprintf("op/%s.%c", s.name, "XYZ"[i]), pos, "result coordinate differs from the specification; computed - spec = "+d)
			}
		}
		if ok {
			c.R.OK("C03-3", "op/"+s.name, pos, "coordinates equal the specification on every returning path")
		}
		// validity: the result flag is true on the returning path and every operand was asserted
		flag, _ := r.FieldOf(0, pl.valid).(*sym.Term)
		fOK := flag != nil && flag.IsConst() && flag.C.Sign() != 0
		c.R.Decide(fOK, "C03-3", "flag/"+s.name, pos, "result flag is the conjunction of asserted operand flags (true on every returning path)", "result validity flag is not established: "+absint.ValString(r.FieldOf(0, pl.valid)))
	}
	c.R.Floor("C03-3", 14)
}

func c03Equal(c *Ctx, prog *load.Program, set *models.Set, pl pointLayout) {
	ptT := models.PointType
	X := func(n string) *sym.Term { return fpSym("*" + n + ".x") }
	Y := func(n string) *sym.Term { return fpSym("*" + n + ".y") }
	Z := func(n string) *sym.Term { return fpSym("*" + n + ".z") }
	r := RunFn(prog, set, Method(ptT, "Equal"), nil)
	pos := PosOf(prog, r.Fn)
	if !r.OK() {
		c.R.Unknown("C03-4", "Equal", pos, r.Problem())
	} else {
		got, _ := r.Result(0).(*sym.Term)
		want := absint.IntOp("and", 64, models.RingEq(mul(X("v"), Z("p")), mul(X("p"), Z("v"))), models.RingEq(mul(Y("v"), Z("p")), mul(Y("p"), Z("v"))))
		c.R.Decide(got != nil && sym.Equal(got, want), "C03-4", "Equal", pos, "Equal = [X1Z2 == X2Z1] & [Y1Z2 == Y2Z1]", "Equal is not the conjunction of the two cross-product tests: "+absint.ValString(got))
		// control: dropping the y test must be noticed
		c.R.ControlResult("C03-4", "equal-x-only", "x-only comparison must differ", got == nil || !sym.Equal(got, models.RingEq(mul(X("v"), Z("p")), mul(X("p"), Z("v")))))
	}
	r = RunFn(prog, set, Method(ptT, "IsIdentity"), nil)
	pos = PosOf(prog, r.Fn)
	if !r.OK() {
		c.R.Unknown("C03-4", "IsIdentity", pos, r.Problem())
	} else {
		got, _ := r.Result(0).(*sym.Term)
		c.R.Decide(got != nil && sym.Equal(got, models.RingEq(Z("v"), fpConst(0))), "C03-4", "IsIdentity", pos, "IsIdentity = [Z == 0]", "IsIdentity is not the test Z == 0: "+absint.ValString(got))
	}
	c.R.Floor("C03-4", 2)
}

// c03Parity: the y-parity test is a function of the abstract point: parity of Y/Z, and that of the canonical
// identity (0,1,0) - i.e. odd - for every representative (0:Y:0) of the point at infinity.  (Decided on symbolic
// coordinates, whichever way the routine computes it.)
func c03Parity(c *Ctx, prog *load.Program, set *models.Set) {
	r := RunFn(prog, set, Method(models.PointType, "IsYOdd"), nil)
	pos := PosOf(prog, r.Fn)
	if !r.OK() {
		c.R.Unknown("C03-5", "IsYOdd", pos, r.Problem())
		return
	}
	y, z := fpSym("*v.y"), fpSym("*v.z")
	want := sym.App(sym.Bool, "odd", sym.Canon(sym.Ite(models.RingEq(z, fpConst(0)), fpConst(1), mul(models.Inv(z), y))))
	got, _ := r.Result(0).(*sym.Term)
	c.R.Decide(got != nil && sym.Equal(got, want), "C03-5", "IsYOdd", pos, "IsYOdd = parity of Y/Z, or of the canonical identity's y = 1 when Z = 0",
		"IsYOdd depends on the projective representative: it is "+absint.ValString(got)+", expected "+want.String())
}

func c03Rescale(c *Ctx, prog *load.Program, set *models.Set, pl pointLayout) {
	ptT := models.PointType
	r := RunFn(prog, set, Method(ptT, "rescale"), nil)
	pos := PosOf(prog, r.Fn)
	if !r.OK() {
		c.R.Unknown("C03-5", "rescale", pos, r.Problem())
		return
	}
	x, y, z := fpSym("*p.x"), fpSym("*p.y"), fpSym("*p.z")
	isID := models.RingEq(z, fpConst(0))
	inv := models.Inv(z)
	want := [3]*sym.Term{sym.Ite(isID, fpConst(0), mul(inv, x)), sym.Ite(isID, fpConst(1), mul(inv, y)), sym.Ite(isID, fpConst(0), fpConst(1))}
	got := coordsOf(r, pl, 0)
	ok := true
	for i := range got {
		if got[i] == nil || !sym.Equal(got[i], want[i]) {
			ok = false
			c.R.Fail("C03-5", fmt.Sprintf("rescale.%c", "XYZ"[i]), pos, "rescale coordinate is "+absint.ValString(got[i])+", expected "+want[i].String())
		}
	}
	if ok {
		c.R.OK("C03-5", "rescale", pos, "rescale(p) = Z==0 ? (0,1,0) : (X/Z, Y/Z, 1)")
	}
}

// c03WhoReads: every read of a Point coordinate that leaves the package as data
// (Bytes, IsOdd, String) takes the point from a rescale() result.
func c03WhoReads(c *Ctx, prog *load.Program) {
	leak := map[string]bool{"Bytes": true, "IsOdd": true, "String": true, "getBytes": true}
	n := 0
	for _, fn := range ModuleFuncs(prog) {
		if fn.Pkg == nil || fn.Pkg.Pkg.Path() != models.Mod {
			continue
		}
		for _, b := range fn.Blocks {
			for _, in := range b.Instrs {
				call, ok := in.(*ssa.Call)
				if !ok {
					continue
				}
				callee := call.Common().StaticCallee()
				if callee == nil || callee.Signature.Recv() == nil || !leak[callee.Name()] {
					continue
				}
				if recvNamed(callee) != models.ElementType {
					continue
				}
				fa, ok := call.Common().Args[0].(*ssa.FieldAddr)
				if !ok {
					continue
				}
				if !isNamedPtr(fa.X.Type(), models.PointType) {
					continue
				}
				n++
				key := fmt.Sprintf("coordinate-read/%s/%s", fn.Name(), callee.Name())
				isRescale := func(cc *ssa.Call) bool {
					sc := cc.Common().StaticCallee()
					return sc != nil && sc.Name() == "rescale" && recvNamed(sc) == models.PointType
				}
				src, fromRescale := fa.X.(*ssa.Call)
				if fromRescale {
					fromRescale = isRescale(src)
				}
				if !fromRescale {
					// or the point object was the receiver of a rescale() call that precedes the read on every path
					// (`var scaled Point; scaled.rescale(v)`)
					for _, bb := range fn.Blocks {
						for _, ii := range bb.Instrs {
							if cc, isCall := ii.(*ssa.Call); isCall && isRescale(cc) && len(cc.Common().Args) > 0 && cc.Common().Args[0] == fa.X && instrBefore(cc, call) {
								fromRescale = true
							}
						}
					}
				}
				c.R.Decide(fromRescale, "C03-5", key, PosStr(prog, call.Pos()),
					"coordinate is read from a rescale() result", "a projective coordinate leaves the package without rescaling (representation-dependent)")
			}
		}
	}
	c.R.Floor("C03-5", 5)
	_ = n
}

func recvNamed(fn *ssa.Function) string {
	recv := fn.Signature.Recv()
	if recv == nil {
		return ""
	}
	t := recv.Type()
	if p, ok := t.(*types.Pointer); ok {
		t = p.Elem()
	}
	if n, ok := t.(*types.Named); ok && n.Obj().Pkg() != nil {
		return n.Obj().Pkg().Path() + "." + n.Obj().Name()
	}
	return ""
}

func isNamedPtr(t types.Type, qualified string) bool {
	p, ok := t.Underlying().(*types.Pointer)
	if !ok {
		return false
	}
	n, ok := p.Elem().(*types.Named)
	return ok && n.Obj().Pkg() != nil && n.Obj().Pkg().Path()+"."+n.Obj().Name() == qualified
}

// reduceAffine rewrites y^2 -> x^3 + b for each (x, y) pair until every y has degree < 2.  {y_i^2 - x_i^3 - b} is a Groebner
// basis (the leading monomials y_i^2 are pairwise coprime), so the result is the unique normal form modulo the ideal of
// "both points are on the curve": a polynomial is in that ideal exactly when its normal form is zero.
func reduceAffine(p *sym.Poly, pairs [][2]*sym.Term, b int64) *sym.Poly {
	cur := sym.FromPoly(p)
	for iter := 0; iter < 40; iter++ {
		pl := sym.PolyOf(cur)
		changed := false
		var sum *sym.Term = fpConst(0)
		for _, t := range pl.SortedTerms() {
			mono := sym.Const(sym.Fp, t.Coef)
			for _, a := range t.Atoms {
				e := new(big.Int).Set(a.E)
				done := false
				for _, pr := range pairs {
					if a.A == pr[1] && e.Cmp(big.NewInt(2)) >= 0 {
						changed, done = true, true
						q := new(big.Int).Div(e, big.NewInt(2))
						repl := add(mul(pr[0], pr[0], pr[0]), fpConst(b))
						for i := int64(0); i < q.Int64(); i++ {
							mono = sym.Mul(mono, repl)
						}
						if e.Bit(0) == 1 {
							mono = sym.Mul(mono, pr[1])
						}
					}
				}
				if !done {
					mono = sym.Mul(mono, sym.Pow(a.A, e))
				}
			}
			sum = sym.Add(sum, mono)
		}
		cur = sum
		if !changed {
			break
		}
	}
	return sym.PolyOf(cur)
}

// bidegree returns, per monomial, the total degree in the first and in the second variable group; ok is false when a
// monomial mentions another atom or the degrees are not the same for every monomial.
func bihomogeneous(t *sym.Term, g1, g2 []*sym.Term) (d1, d2 int64, ok bool) {
	first := true
	for _, m := range sym.PolyOf(t).SortedTerms() {
		var a, b int64
		for _, at := range m.Atoms {
			switch {
			case containsTerm(g1, at.A):
				a += at.E.Int64()
			case containsTerm(g2, at.A):
				b += at.E.Int64()
			default:
				return 0, 0, false
			}
		}
		if first {
			d1, d2, first = a, b, false
		} else if a != d1 || b != d2 {
			return 0, 0, false
		}
	}
	return d1, d2, !first
}

func containsTerm(l []*sym.Term, t *sym.Term) bool {
	for _, x := range l {
		if x == t {
			return true
		}
	}
	return false
}

// c03GroupLaw ties the reference closed forms (the oracle of rule C03-1) to the textbook chord-and-tangent law of
// y^2 = x^3 + 7 by exact polynomial identities modulo the curve equations of the operands.  What is decided: the closed
// forms are bihomogeneous (so identities shown for Z1 = Z2 = 1 hold for every representative with Z != 0); on affine
// operands the result, whenever Z3 != 0, is the chord point (generic case) / the tangent point (doubling); the result
// always satisfies the projective curve equation; P + (-P) has X3 = Z3 = 0; the identity (0:1:0) is neutral on either
// side and doubles to itself.  What stays trusted from Renes-Costello-Batina: Z3 != 0 when Q != -P (and Y3 != 0 when
// Q = -P), i.e. the absence of exceptional pairs on a curve of odd order.
func c03GroupLaw(c *Ctx, b3 *sym.Term, perturb bool) map[string]bool {
	x1, y1, x2, y2 := fpSym("gl.x1"), fpSym("gl.y1"), fpSym("gl.x2"), fpSym("gl.y2")
	z1, z2 := fpSym("gl.z1"), fpSym("gl.z2")
	one := fpConst(1)
	pairs := [][2]*sym.Term{{x1, y1}, {x2, y2}}
	zero := func(t *sym.Term) bool { return len(reduceAffine(sym.PolyOf(t), pairs, 7).Terms) == 0 }
	all := map[string]bool{}
	decide := func(ok bool, key, what string) {
		all[key] = ok
		if perturb {
			return
		}
		c.R.Decide(ok, "C03-1", "reference/group-law/"+key, "", what, "the closed form used as the oracle does NOT satisfy: "+what)
	}
	// 1. bihomogeneity
	gx, gy, gz := rcbAdd(x1, y1, z1, x2, y2, z2, b3)
	okh := true
	for _, t := range []*sym.Term{gx, gy, gz} {
		d1, d2, ok := bihomogeneous(t, []*sym.Term{x1, y1, z1}, []*sym.Term{x2, y2, z2})
		okh = okh && ok && d1 == 2 && d2 == 2
	}
	decide(okh, "add-bihomogeneous", "each output of the addition form is bihomogeneous of degree (2,2) in (X1,Y1,Z1), (X2,Y2,Z2)")
	dx, dy, dz := rcbDouble(x1, y1, z1, b3)
	okh = true
	for _, t := range []*sym.Term{dx, dy, dz} {
		d1, _, ok := bihomogeneous(t, []*sym.Term{x1, y1, z1}, nil)
		okh = okh && ok && d1 == 4
	}
	decide(okh, "double-homogeneous", "each output of the doubling form is homogeneous of degree 4")
	// 2. chord law on affine operands
	ax, ay, az := rcbAdd(x1, y1, one, x2, y2, one, b3)
	D := sym.Sub(x2, x1)
	N := sym.Sub(y2, y1)
	D2 := mul(D, D)
	xs := sym.Sub(mul(N, N), mul(add(x1, x2), D2))                  // x3 * D^2
	ys := sym.Sub(mul(N, sym.Sub(mul(x1, D2), xs)), mul(y1, D2, D)) // y3 * D^3
	decide(zero(sym.Sub(mul(ax, D2), mul(az, xs))), "chord-x", "X3*(x2-x1)^2 = Z3*((y2-y1)^2 - (x1+x2)(x2-x1)^2) modulo the curve equations")
	decide(zero(sym.Sub(mul(ay, D2, D), mul(az, ys))), "chord-y", "Y3*(x2-x1)^3 = Z3*(lambda-numerator form of y3) modulo the curve equations")
	// 3. tangent law
	tx, ty, tz := rcbDouble(x1, y1, one, b3)
	Dt := mul(fpConst(2), y1)
	Nt := mul(fpConst(3), x1, x1)
	Dt2 := mul(Dt, Dt)
	xt := sym.Sub(mul(Nt, Nt), mul(fpConst(2), x1, Dt2))
	yt := sym.Sub(mul(Nt, sym.Sub(mul(x1, Dt2), xt)), mul(y1, Dt2, Dt))
	decide(zero(sym.Sub(mul(tx, Dt2), mul(tz, xt))), "tangent-x", "doubling: X3*(2y)^2 = Z3*((3x^2)^2 - 2x(2y)^2) modulo the curve equation")
	decide(zero(sym.Sub(mul(ty, Dt2, Dt), mul(tz, yt))), "tangent-y", "doubling: Y3*(2y)^3 = Z3*(tangent form of y3) modulo the curve equation")
	// 4. closure: the result satisfies Y^2 Z = X^3 + 7 Z^3
	decide(zero(sym.Sub(mul(ay, ay, az), add(mul(ax, ax, ax), mul(fpConst(7), az, az, az)))), "closure-add", "the sum of two curve points satisfies Y3^2 Z3 = X3^3 + 7 Z3^3")
	decide(zero(sym.Sub(mul(ty, ty, tz), add(mul(tx, tx, tx), mul(fpConst(7), tz, tz, tz)))), "closure-double", "the double of a curve point satisfies Y3^2 Z3 = X3^3 + 7 Z3^3")
	// 5. inverse: P + (-P) = (0 : * : 0)
	ix, _, iz := rcbAdd(x1, y1, one, x1, sym.Sub(fpConst(0), y1), one, b3)
	decide(zero(ix) && zero(iz), "inverse", "P + (-P) has X3 = 0 and Z3 = 0")
	// 6. neutral element (no curve equation needed: plain polynomial identities up to the common factor)
	nx, ny, nz := rcbAdd(fpConst(0), one, fpConst(0), x2, y2, z2, b3)
	mx, my, mz := rcbAdd(x1, y1, z1, fpConst(0), one, fpConst(0), b3)
	okn := sym.Equal(mul(nx, y2), mul(ny, x2)) && sym.Equal(mul(nz, y2), mul(ny, z2)) && sym.Equal(mul(nx, z2), mul(nz, x2)) &&
		sym.Equal(mul(mx, y1), mul(my, x1)) && sym.Equal(mul(mz, y1), mul(my, z1)) && sym.Equal(mul(mx, z1), mul(mz, x1)) &&
		sym.Equal(ny, mul(y2, y2)) && sym.Equal(my, mul(y1, y1))
	decide(okn, "neutral", "(0:1:0) + Q = Y2*(X2:Y2:Z2) and P + (0:1:0) = Y1*(X1:Y1:Z1)")
	ox, oy, oz := rcbDouble(fpConst(0), one, fpConst(0), b3)
	okd := sym.Equal(ox, fpConst(0)) && sym.Equal(oz, fpConst(0)) && sym.Equal(oy, one)
	decide(okd, "neutral-double", "2*(0:1:0) = (0:1:0)")
	return all
}
