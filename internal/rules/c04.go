package rules

import (
	"fmt"
	"go/types"
	"math/big"
	"path/filepath"
	"strings"

	"golang.org/x/tools/go/ssa"

	"verif/internal/absint"
	"verif/internal/limbproof"
	"verif/internal/load"
	"verif/internal/models"
	"verif/internal/refmath"
	"verif/internal/sym"
)

func init() { register("C04", "other", checkC04) }

func scalarSet() *models.Set {
	return models.NewSet().Merge(models.Field()).Merge(models.Helpers()).Merge(models.Scalar())
}

func constOf(c *Ctx, prog *load.Program, rule, pkg, name string) *big.Int {
	v := readGlobalVal(c, prog, scalarSet(), pkg, name, rule)
	t, _ := v.(*sym.Term)
	if t == nil || !t.IsConst() {
		if v != nil {
			c.R.Unknown(rule, "anchor/"+name, "", "package-level "+name+" is not a constant: "+absint.ValString(v))
		}
		return nil
	}
	return t.C
}

func checkC04(c *Ctx) {
	progs := []*load.Program{c.Prog(load.AMD64)}
	if c.Thorough() {
		progs = append(progs, c.Prog(load.Purego))
	}
	prog := progs[0]

	// ---- rule 1/2: lattice constants and the window bound
	consts := refmath.GLVConsts{
		NegLambda: constOf(c, prog, "C04-1", models.Mod, "scNegLambda"),
		Beta:      constOf(c, prog, "C04-1", models.Mod, "feBeta"),
		NegB1:     constOf(c, prog, "C04-1", models.Mod, "scNegB1"),
		NegB2:     constOf(c, prog, "C04-1", models.Mod, "scNegB2"),
		G1:        constOf(c, prog, "C04-1", models.Mod, "scG1"),
		G2:        constOf(c, prog, "C04-1", models.Mod, "scG2"),
	}
	if consts.NegLambda == nil || consts.Beta == nil || consts.NegB1 == nil || consts.NegB2 == nil || consts.G1 == nil || consts.G2 == nil {
		return
	}
	// ---- rule 4: the rounded product
	obs, err := limbproof.CheckMulGFlooredDiv(filepath.Join(prog.Dir, "point_mul_glv.go"), sym.N)
	addLimb(c, "C04-4", obs, err, "mulGFlooredDiv")
	c.R.Floor("C04-4", 8)
	c04MulGCallSites(c, prog)

	windowBytes := -1
	for _, p := range progs {
		for _, name := range []string{"ScalarMult", "scalarMultVartimeGLV"} {
			w := c04Ladder(c, p, name)
			if w > 0 && (windowBytes < 0 || w < windowBytes) {
				windowBytes = w
			}
		}
	}
	if windowBytes < 0 {
		c.R.Unknown("C04-2", "window", "", "the window consumed by the ladder could not be determined")
		windowBytes = 0
	}
	for _, f := range refmath.CheckGLV(consts, windowBytes) {
		rule := "C04-1"
		if f.Key == "glv/window" || f.Key == "glv/bound-k1" || f.Key == "glv/bound-k2" {
			rule = "C04-2"
		}
		c.R.Decide(f.OK, rule, f.Key, "point_mul_glv.go", f.Detail, f.Detail)
	}
	c.R.Floor("C04-1", 8)
	c.R.Floor("C04-2", 3)
	// control: a smaller window must be rejected by the bound
	fired := false
	for _, f := range refmath.CheckGLV(consts, 15) {
		if f.Key == "glv/window" && !f.OK {
			fired = true
		}
	}
	c.R.ControlResult("C04-2", "window-15-bytes", "the derived bound must not fit a 120-bit window", fired)
	// the endomorphism eigenvalue used by the specification of mulBeta is the one in the code
	lam := new(big.Int).Sub(sym.N, consts.NegLambda)
	c.R.Decide(lam.Cmp(models.Lambda) == 0, "C04-1", "lambda-spec", "point_mul_glv.go", "scNegLambda = -lambda of the endomorphism specification", "scNegLambda does not match the eigenvalue the specification of mulBeta uses")
	c04MulBeta(c, prog, consts.Beta)

	// ---- rule 3: splitGLV
	c04Split(c, prog, consts)
	// ---- rule 6/7: table and lookups
	for _, p := range progs {
		c04Table(c, p)
		c04Lookup(c, p)
	}
	// the variable-time multiply is observed through DoubleScalarMultBasepointVartime(u1, s, P), also with the receiver aliasing P
	c16Double(c, prog)
	c.R.Explanation = "ScalarMult and scalarMultVartimeGLV are abstractly interpreted with points as elements of a Z/n-module and scalars as elements of Z/n: the split is k2 = c1*(-b1) + c2*(-b2), k1 = s - lambda*k2 with c_i the rounded product proven by the limb-equation engine; sign normalisation pairs scalar and point; the 15-entry table holds (j+1)P; each window lookup adds idx*P (enumerated for idx 0..15); the unrolled ladder result is recognised as sum over the consumed nibbles with weights 16^k, which equals |k_i| exactly when |k_i| < 2^(8*window), and the window read from the analysis (16 bytes) is compared with the bound on |k1|,|k2| derived in exact rational arithmetic from the lattice literals found in the source; lambda, beta, g1, g2 and the basis are verified numerically (lambda^3=1, beta^3=1, lambda*G=(beta*Gx,Gy), det=n, roundings)."
	c.R.Assumptions = []string{"C01-C03 (field, scalar and group law exact)", "C19 for the assembly lookup in the amd64 configuration", "the map (x,y)->(beta*x,y) is the endomorphism with eigenvalue lambda on the whole group once it holds for the generator (group is cyclic of prime order)"}
}

// c04MulBeta: mulBeta multiplies x by beta and keeps y, z.
func c04MulBeta(c *Ctx, prog *load.Program, beta *big.Int) {
	pl := pointFields(prog)
	r := RunFn(prog, fieldSet(), Method(models.PointType, "mulBeta"), nil)
	pos := PosOf(prog, r.Fn)
	if !r.OK() {
		c.R.Unknown("C04-5", "mulBeta", pos, r.Problem())
		return
	}
	got := coordsOf(r, pl, 0)
	want := [3]*sym.Term{sym.Mul(fpSym("*p.x"), sym.Const(sym.Fp, beta)), fpSym("*p.y"), fpSym("*p.z")}
	ok := true
	for i := range got {
		if got[i] == nil || !sym.Equal(got[i], want[i]) {
			ok = false
		}
	}
	c.R.Decide(ok, "C04-5", "mulBeta", pos, "mulBeta(p) = (beta*X, Y, Z)", "mulBeta is not (beta*X, Y, Z)")
}

// c04MulGCallSites: when mulGFlooredDiv takes an operand as plain limbs (already out of the Montgomery domain), every
// call site must pass the destination of a fiat.FromMontgomery call that precedes it on every path (value < n).
func c04MulGCallSites(c *Ctx, prog *load.Program) {
	fn := absint.FindFunc(prog.SSA, Method(models.ScalarType, "mulGFlooredDiv"))
	if fn == nil {
		fn = absint.FindFunc(prog.SSA, models.Mod+".mulGFlooredDiv")
	}
	if fn == nil {
		return
	}
	var limbParams []int
	for i, p := range fn.Params {
		if i == 0 {
			continue
		}
		if pt, ok := p.Type().Underlying().(*types.Pointer); ok {
			if at, ok := pt.Elem().Underlying().(*types.Array); ok && at.Len() == 4 {
				if nt, isNamed := pt.Elem().(*types.Named); !isNamed || nt.Obj().Name() != "MontgomeryDomainFieldElement" {
					limbParams = append(limbParams, i)
				}
			}
		}
	}
	if len(limbParams) == 0 {
		return
	}
	for _, g := range ModuleFuncs(prog) {
		for _, b := range g.Blocks {
			for _, in := range b.Instrs {
				call, ok := in.(*ssa.Call)
				if !ok || call.Common().StaticCallee() != fn {
					continue
				}
				for _, pi := range limbParams {
					arg := call.Common().Args[pi]
					good := false
					for _, bb := range g.Blocks {
						for _, ii := range bb.Instrs {
							cc, isCall := ii.(*ssa.Call)
							if !isCall || cc.Common().StaticCallee() == nil {
								continue
							}
							callee := cc.Common().StaticCallee()
							if callee.Name() == "FromMontgomery" && callee.Pkg != nil && callee.Pkg.Pkg.Path() == models.FiatSPkg && cc.Common().Args[0] == arg && instrBefore(cc, call) {
								good = true
							}
						}
					}
					c.R.Decide(good, "C04-4", fmt.Sprintf("call-site/%s/arg%d", g.Name(), pi), PosStr(prog, call.Pos()),
						"the limb operand is the output of fiat.FromMontgomery (value < n)", "mulGFlooredDiv is handed limbs that are not a fiat.FromMontgomery output (the product bound (n-1)^2 is not established)")
				}
			}
		}
	}
}

func c04Split(c *Ctx, prog *load.Program, k refmath.GLVConsts) {
	set := scalarSet()
	mulGModel(set)
	r := RunFn(prog, set, Method(models.ScalarType, "splitGLV"), nil)
	pos := PosOf(prog, r.Fn)
	if !r.OK() {
		c.R.Unknown("C04-3", "splitGLV", pos, r.Problem())
		return
	}
	s := sym.Sym(sym.Fn, "*s")
	fc := func(v *big.Int) *sym.Term { return sym.Const(sym.Fn, v) }
	c1 := sym.App(sym.Fn, "round384", s, fc(k.G1))
	c2 := sym.App(sym.Fn, "round384", s, fc(k.G2))
	k2 := sym.Add(sym.Mul(c1, fc(k.NegB1)), sym.Mul(c2, fc(k.NegB2)))
	k1 := sym.Add(s, sym.Mul(k2, fc(k.NegLambda)))
	deref := func(v absint.Val) *sym.Term {
		p, _ := v.(*absint.Ptr)
		if p == nil {
			return nil
		}
		t, _ := r.Final().Resolve(r.Ex.LoadLeaf(r.Final(), p)).(*sym.Term)
		return t
	}
	g1, g2 := deref(r.Result(0)), deref(r.Result(1))
	c.R.Decide(g1 != nil && sym.Equal(g1, k1), "C04-3", "splitGLV/k1", pos, "k1 = s + k2*(-lambda)", "k1 is "+absint.ValString(g1))
	c.R.Decide(g2 != nil && sym.Equal(g2, k2), "C04-3", "splitGLV/k2", pos, "k2 = round(s*g1/2^384)*(-b1) + round(s*g2/2^384)*(-b2)", "k2 is "+absint.ValString(g2))
	// the split is total: a scalar for which it panics is a scalar the multiplications are not exact for (a range
	// assertion on the halves cannot be decided here - whether its bound is right is a lattice argument - and is reported)
	if len(r.Ex.Panics) > 0 {
		pn := r.Ex.Panics[0]
		c.R.Unknown("C04-3", "splitGLV/total", PosStr(prog, pn.Pos), fmt.Sprintf("a panic (%s) is reachable in the scalar split when {%s}: not proven unreachable", pn.Msg, GuardString(pn.Guard)))
	} else {
		c.R.OK("C04-3", "splitGLV/total", pos, "no panic is reachable in the scalar split")
	}
	c.R.Floor("C04-3", 3)
}

// c04Ladder analyses one of the two GLV multiplications; returns the number of trailing bytes consumed per half.
func c04Ladder(c *Ctx, prog *load.Program, name string) int {
	key := name + "@" + prog.Config.Name
	set := glvLadderSet(false)
	window := -1
	for _, alias := range []bool{false, true} {
		akey := key
		var opts *RunOpts
		if alias {
			akey += "/recv=p"
			opts = &RunOpts{Args: []ArgSpec{{Alias: -1, SameSymsAs: -1, Name: "p"}, {Alias: -1, SameSymsAs: -1}, {Alias: 0, SameSymsAs: -1}}}
		}
		r := RunFn(prog, set, Method(models.PointType, name), opts)
		pos := PosOf(prog, r.Fn)
		if !r.OK() {
			c.R.Unknown("C04-8", "ladder/"+akey, pos, r.Problem())
			continue
		}
		got, _ := r.FieldOf(0).(*sym.Term)
		if got == nil {
			c.R.Unknown("C04-8", "ladder/"+akey, pos, "result is not a term")
			continue
		}
		rew, uses, err := recogniseLadder(got)
		if err != nil {
			c.R.Fail("C04-8", "ladder/"+akey, pos, err.Error())
			continue
		}
		if len(uses) != 2 {
			c.R.Fail("C04-8", "ladder/"+akey, pos, fmt.Sprintf("expected two scanned scalars, found %d", len(uses)))
			continue
		}
		for _, u := range uses {
			w := 32 - u.Start
			if window < 0 || w < window {
				window = w
			}
		}
		s := sym.Sym(sym.Fn, "*s")
		P := sym.Sym(sym.Point, "*p")
		ok, detail := equalByCases(r.Ex, rew, sym.Mul(s, P))
		c.R.Decide(ok, "C04-8", "ladder/"+akey, pos,
			fmt.Sprintf("result = sum of nibble*16^k over bytes [%d,32) of |k1|,|k2| times (+-P, +-lambda*P) = s*P in all sign cases (%s), given |k_i| < 2^%d", 32-window, detail, 8*window),
			"ladder result is not s*P: "+detail)
		if !alias {
			c.R.Sample(map[string]interface{}{"routine": name, "config": prog.Config.Name, "window_bytes": window, "rewritten": sym.PolyOf(rew).String()})
		}
	}
	c.R.Floor("C04-8", 4)
	return window
}

// c04Table: newProjectivePointMultTable(p)[j] = (j+1)*p.
func c04Table(c *Ctx, prog *load.Program) {
	set := models.NewSet().Merge(models.Field()).Merge(models.Helpers()).Merge(models.Scalar()).Merge(models.PointInternal(nil))
	key := "table@" + prog.Config.Name
	builder, inPlace := findTableBuilder(prog)
	if builder == nil {
		c.R.Unknown("C04-6", key, "", "no routine that builds a projectivePointMultTable from a point was found (neither newProjectivePointMultTable, nor exactly one function / method that fills a table from a *Point or returns one)")
		return
	}
	r := RunFn(prog, set, builder.String(), &RunOpts{Args: namedFor(builder, map[string]string{"*Point": "p"})})
	pos := PosOf(prog, r.Fn)
	if !r.OK() {
		c.R.Unknown("C04-6", key, pos, r.Problem())
		return
	}
	var a *absint.Agg
	if inPlace {
		// the table is filled through the receiver
		if tp, ok := r.Args[0].(*absint.Ptr); ok {
			a = &absint.Agg{}
			for j := int64(0); j < 15; j++ {
				a.Elems = append(a.Elems, r.Final().Resolve(r.Ex.LoadLeaf(r.Final(), r.Ex.ElemPtr(tp, j))))
			}
		}
	} else {
		a, _ = r.Result(0).(*absint.Agg)
	}
	if a == nil || len(a.Elems) != 15 {
		c.R.Unknown("C04-6", key, pos, "result is not a 15-entry table")
		return
	}
	P := sym.Sym(sym.Point, "*p")
	for j, e := range a.Elems {
		t, _ := e.(*sym.Term)
		if t == nil || !sym.Equal(t, sym.Mul(sym.Const(sym.Fn, big.NewInt(int64(j+1))), P)) {
			c.R.Fail("C04-6", key, pos, fmt.Sprintf("entry %d is %s, expected %d*P", j, absint.ValString(e), j+1))
			return
		}
	}
	c.R.OK("C04-6", key, pos, "tbl[j] = (j+1)*P for j = 0..14")
}

// findTableBuilder locates the routine that fills a projectivePointMultTable from a point: the function
// newProjectivePointMultTable(p) returning the table by value, or (inPlace) a method of the table type with a single
// *Point parameter.
func findTableBuilder(prog *load.Program) (fn *ssa.Function, inPlace bool) {
	if f := absint.FindFunc(prog.SSA, models.Mod+".newProjectivePointMultTable"); f != nil {
		return f, false
	}
	// any name and either calling convention: a method of the table type or a plain function taking the table first
	// (filled in place), or a function of one point that returns the table
	tblT := models.Mod + ".projectivePointMultTable"
	var cands []*ssa.Function
	var place []bool
	for _, f := range ModuleFuncs(prog) {
		if f.Signature == nil || f.Parent() != nil || f.Synthetic != "" || f.Pkg == nil || f.Pkg.Pkg.Path() != models.Mod || f.Signature.Results().Len() > 1 {
			continue
		}
		ps := f.Params
		switch {
		case len(ps) == 2 && isNamedPtr(ps[0].Type(), tblT) && isNamedPtr(ps[1].Type(), models.PointType):
			cands, place = append(cands, f), append(place, true)
		case len(ps) == 1 && f.Signature.Recv() == nil && isNamedPtr(ps[0].Type(), models.PointType) && f.Signature.Results().Len() == 1:
			rt := f.Signature.Results().At(0).Type()
			if nt, ok := rt.(*types.Named); ok && nt.Obj().Pkg() != nil && nt.Obj().Pkg().Path()+"."+nt.Obj().Name() == tblT {
				cands, place = append(cands, f), append(place, false)
			}
		}
	}
	if len(cands) == 1 {
		return cands[0], place[0]
	}
	return nil, false
}

// namedFor gives the parameters of fn whose type (printed without the package path) is a key of names that name.
func namedFor(fn *ssa.Function, names map[string]string) []ArgSpec {
	out := make([]ArgSpec, len(fn.Params))
	for i, p := range fn.Params {
		out[i] = ArgSpec{Alias: -1, SameSymsAs: -1}
		t := p.Type().String()
		for k, v := range names {
			if strings.HasSuffix(t, strings.TrimPrefix(k, "*")) && strings.HasPrefix(t, "*") == strings.HasPrefix(k, "*") {
				if i > 0 || fn.Signature.Recv() == nil {
					out[i].Name = v
				}
			}
		}
	}
	return out
}

// c04Lookup: SelectAndAdd / SelectAndAddVartime add entry idx-1 (nothing for idx 0), for every idx 0..15.
func c04Lookup(c *Ctx, prog *load.Program) {
	set := models.NewSet().Merge(models.Field()).Merge(models.Helpers()).Merge(models.Scalar()).Merge(models.PointInternal(nil))
	for _, name := range []string{"SelectAndAdd", "SelectAndAddVartime"} {
		fname := "(*" + models.Mod + ".projectivePointMultTable)." + name
		okAll := true
		detail := ""
		var pos string
		for k := int64(0); k <= 15 && okAll; k++ {
			// operands by position and type: the table (receiver), the accumulator (first *Point), optional scratch
			// points, the window (the integer operand)
			args := []ArgSpec{{Alias: -1, SameSymsAs: -1}, {Alias: -1, SameSymsAs: -1}, {Alias: -1, SameSymsAs: -1, Val: sym.ConstI(k)}}
			if f := absint.FindFunc(prog.SSA, fname); f != nil && len(f.Params) > 3 {
				args = nil
				for _, p := range f.Params {
					a := ArgSpec{Alias: -1, SameSymsAs: -1}
					if b, isB := p.Type().Underlying().(*types.Basic); isB && b.Info()&types.IsInteger != 0 {
						a.Val = sym.ConstI(k)
					}
					args = append(args, a)
				}
			}
			r := RunFn(prog, set, fname, &RunOpts{Args: args})
			pos = PosOf(prog, r.Fn)
			if !r.OK() {
				okAll, detail = false, r.Problem()
				break
			}
			got, _ := r.FieldOf(1).(*sym.Term)
			want := sym.Sym(sym.Point, "*sum")
			if k > 0 {
				want = sym.Add(want, sym.Sym(sym.Point, fmt.Sprintf("*tbl[%d]", k-1)))
			}
			if got == nil || !sym.Equal(got, want) {
				okAll, detail = false, fmt.Sprintf("idx %d: sum becomes %s, expected %s", k, absint.ValString(got), want)
			}
		}
		c.R.Decide(okAll, "C04-7", "lookup/"+name+"@"+prog.Config.Name, pos, "adds entry idx-1 for idx 1..15 and nothing for idx 0 (16 indices enumerated)", detail)
	}
	c.R.Floor("C04-7", 2)
}

// glvLadderSet is ladderSet with the scalar split opaque: k2 = glv_k2(s), k1 = s - lambda*k2
// (rule C04-3 decides what the split computes; the ladder only needs k1 + lambda*k2 = s).
func glvLadderSet(semanticTables bool) *models.Set {
	set := ladderSet(semanticTables)
	set.Intercepts[Method(models.ScalarType, "splitGLV")] = func(ex *absint.Exec, cc *absint.CallCtx) (absint.Val, bool) {
		sp, _ := cc.St.Resolve(cc.Args[0]).(*absint.Ptr)
		if sp == nil {
			return nil, false
		}
		s, _ := ex.LoadLeaf(cc.St, sp).(*sym.Term)
		k2 := sym.App(sym.Fn, "glv_k2", sym.Canon(s))
		k1 := sym.Sub(s, sym.Mul(sym.Const(sym.Fn, models.Lambda), k2))
		return absint.Tuple{ex.AllocAbs(models.ScalarType, models.Mod, "Scalar", k1), ex.AllocAbs(models.ScalarType, models.Mod, "Scalar", k2)}, true
	}
	return set
}
