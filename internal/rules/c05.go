package rules

import (
	"fmt"
	"go/types"
	"math/big"
	"os"
	"strings"

	"golang.org/x/tools/go/ssa"

	"verif/internal/absint"
	"verif/internal/load"
	"verif/internal/models"
	"verif/internal/refmath"
	"verif/internal/sym"
)

func init() { register("C05", "other", checkC05) }

// initCalleeOf returns the function whose result initialises a package-level variable.
func initCalleeOf(prog *load.Program, pkgPath, global string) *ssa.Function {
	sp := prog.SSAPkgs[pkgPath]
	if sp == nil {
		return nil
	}
	g, _ := sp.Members[global].(*ssa.Global)
	initFn := sp.Func("init")
	if g == nil || initFn == nil {
		return nil
	}
	for _, b := range initFn.Blocks {
		for _, in := range b.Instrs {
			st, ok := in.(*ssa.Store)
			if !ok || st.Addr != ssa.Value(g) {
				continue
			}
			if call, ok := st.Val.(*ssa.Call); ok {
				if f := call.Common().StaticCallee(); f != nil {
					return f
				}
				if mc, ok := call.Common().Value.(*ssa.MakeClosure); ok {
					return mc.Fn.(*ssa.Function)
				}
			}
		}
	}
	return nil
}

func checkC05(c *Ctx) {
	progs := []*load.Program{c.Prog(load.AMD64)}
	if c.Thorough() {
		progs = append(progs, c.Prog(load.Purego))
	}
	prog := progs[0]
	// "every private scalar d is mapped to the public point d*G": the key constructors (rule C10-3)
	c10Constructors(c, prog)
	// ... and the point stays d*G for the life of the key: the accessors hand out copies (rule C10-4)
	c10Accessors(c, prog)
	// "the variable-time generator multiply used by verification": its only consumer hands the product on (rule C16-1)
	c16Double(c, prog)
	c05Generator(c, prog)
	c05File(c, prog)
	c05Decoder(c, prog)
	c05Odd(c, prog)
	for _, p := range progs {
		c05BaseMult(c, p, "ScalarBaseMult")
		c05BaseMult(c, p, "scalarBaseMultVartime")
		c05Lookups(c, p)
	}
	if !c.Thorough() {
		// "under both the assembly and the pure-Go lookup": the portable lookups are decided in the quick tier too (the
		// ladders themselves are configuration-independent source and are analysed once)
		c05Lookups(c, c.Prog(load.Purego))
	}
	c05Cast(c, prog)
	c.R.Explanation = "Every one of the 8160 entries of the embedded table file is compared with (j+1)*256^i*G computed by independent big-integer arithmetic (exhaustive over the file); the decoder's index map is obtained by abstractly interpreting the table initialiser on a symbolic file (entry (i,j) = canonical decode of bytes ((i*255+j)*2+c)*32..+32); the odd-nibble tables are entries 16(j+1)-1 of the huge table; ScalarBaseMult and scalarBaseMultVartime are abstractly interpreted with the tables holding their specified multiples of G and the unrolled result is recognised as sum over all 64 nibbles (32 bytes) of the scalar encoding with weights 16^k, i.e. s*G; the affine/huge lookups add entry idx-1 for every index (16 resp. 256 indices enumerated) and nothing for index 0; the unsafe reinterpretation of a 255-entry table as its 15-entry prefix is layout-valid."
	c.R.Assumptions = []string{"C01, C03 (canonical decode, addMixed = group addition for a non-identity affine addend)", "C19 for the assembly lookup", "SEC 2 generator coordinates"}
	c.R.Extra["exhaustive"] = true
}

func c05File(c *Ctx, prog *load.Program) {
	pkg := prog.ByPath[models.Mod]
	var path string
	for _, f := range pkg.EmbedFiles {
		if strings.HasSuffix(f, ".bin") {
			path = f
		}
	}
	if path == "" {
		c.R.Unknown("C05-1", "embed-file", "", "no embedded .bin file found through the package's embed directives")
		return
	}
	bin, err := os.ReadFile(path)
	if err != nil {
		c.R.Unknown("C05-1", "embed-file", path, err.Error())
		return
	}
	n, mism := refmath.CheckGeneratorTable(bin)
	relp := strings.TrimPrefix(path, prog.Dir+"/")
	c.R.Decide(n == 8160, "C05-1", "table/entries-checked", relp, "8160 entries compared with (j+1)*256^i*G", fmt.Sprintf("only %d entries could be checked", n))
	for i, m := range mism {
		if i >= 10 {
			break
		}
		c.R.Fail("C05-1", fmt.Sprintf("table/entry[%d][%d]", m.I, m.J), relp, m.Reason)
	}
	if len(mism) == 0 {
		c.R.OK("C05-1", "table/all-entries", relp, "every entry is the canonical affine point (j+1)*256^i*G")
	}
	c.R.Extra["table_entries_checked"] = n
	// control: a flipped bit in a copy must be noticed
	cp := append([]byte(nil), bin...)
	if len(cp) > refmath.TableEntryOffset(7, 100)+5 {
		cp[refmath.TableEntryOffset(7, 100)+5] ^= 0x10
		_, mm := refmath.CheckGeneratorTable(cp)
		has := func(ms []refmath.TableMismatch) bool {
			for _, m := range ms {
				if m.I == 7 && m.J == 100 {
					return true
				}
			}
			return false
		}
		c.R.ControlResult("C05-1", "bit-flip-entry-7-100", "flipping a bit of entry (7,100) in a copy must change the verdict on that entry", has(mm) != has(mism))
	}
}

// c05Decoder: the initialiser reads entry (i,j) from offset ((i*255+j)*2+coord)*32 with the canonical-only decoder.
func c05Decoder(c *Ctx, prog *load.Program) {
	fn := initCalleeOf(prog, models.Mod, "generatorHugeAffineTable")
	if fn == nil {
		c.R.Unknown("C05-2", "decoder", "", "initialiser of generatorHugeAffineTable not found")
		return
	}
	pos := PosOf(prog, fn)
	set := models.NewSet().Merge(models.Field()).Merge(models.Helpers()).Merge(models.Scalar())
	decodeCalls := 0
	set.Intercepts[Method(models.ElementType, "MustSetCanonicalBytes")] = func(ex *absint.Exec, cc *absint.CallCtx) (absint.Val, bool) {
		decodeCalls++
		recv, _ := cc.St.Resolve(cc.Args[0]).(*absint.Ptr)
		src, _ := cc.St.Resolve(cc.Args[1]).(*absint.Ptr)
		if recv == nil || src == nil {
			return nil, false
		}
		ex.StoreLeaf(cc.St, recv, models.OfBytes(sym.Fp, ex.ReadArray(cc.St, src, 32)), cc.Pos)
		return recv, true
	}
	const total = 32 * 255 * 64
	cfg := &absint.Config{Prog: prog}
	set.Apply(cfg)
	cfg.GlobalInit[models.Mod+".generatorHugeAffineTableBytes"] = func(ex *absint.Exec, g *ssa.Global) *absint.Cell {
		return &absint.Cell{V: ex.SymSlice(types.Typ[types.Uint8], "BIN", absint.Origin{Kind: "global", Root: "BIN"}, 0, sym.ConstI(total))}
	}
	ex := absint.New(cfg)
	st := ex.NewState()
	out, err := ex.Call(st, fn, nil)
	if err != nil || out.Ret == nil || len(ex.Fails) > 0 {
		c.R.Unknown("C05-2", "decoder", pos, fmt.Sprintf("analysis incomplete: %v %v", err, firstN(ex.Fails, 2)))
		return
	}
	if !isTableResult(out.Ret.St, out.Ret.Results) {
		c.R.Unknown("C05-2", "decoder", pos, "initialiser returns neither a table pointer nor a table value")
		return
	}
	BIN := absint.SymBytes("BIN", int(total), 0)
	bad := ""
	n := 0
	for i := 0; i < 32 && bad == ""; i++ {
		for j := 0; j < 255 && bad == ""; j++ {
			for co := 0; co < 2; co++ {
				got := tableCoord(ex, out.Ret.St, out.Ret.Results, i, j, co)
				off := int64(((i*255+j)*2 + co) * 32)
				want := models.OfBytes(sym.Fp, absint.SubBytes(BIN, sym.ConstI(off), sym.ConstI(off+32)))
				n++
				if got == nil || got != want {
					bad = fmt.Sprintf("entry [%d][%d] coordinate %d is %s, expected the canonical decode of file bytes [%d,%d)", i, j, co, absint.ValString(got), off, off+32)
					break
				}
			}
		}
	}
	c.R.Decide(bad == "", "C05-2", "decoder/index-map", pos, fmt.Sprintf("%d coordinates: entry (i,j,c) = decode(file[((i*255+j)*2+c)*32 : +32])", n), bad)
	c.R.Decide(decodeCalls == 16320, "C05-2", "decoder/canonical-only", pos, "all 16320 coordinates go through MustSetCanonicalBytes (non-canonical values panic at init)", fmt.Sprintf("%d coordinates decoded with the canonical-only decoder, expected 16320", decodeCalls))
	// the embedded slice must be exactly as long as the decoder reads
	c.R.Floor("C05-2", 2)
}

// tableCoord reads coordinate co of entry (i, j) of a table that an initialiser returns either as a pointer to the
// array or as the array by value.
func tableCoord(ex *absint.Exec, st *absint.State, res absint.Val, i, j, co int) *sym.Term {
	switch t := st.Resolve(res).(type) {
	case *absint.Ptr:
		p := ex.FieldPtr(ex.ElemPtr(ex.ElemPtr(t, int64(i)), int64(j)), co)
		got, _ := st.Resolve(ex.LoadLeaf(st, p)).(*sym.Term)
		return got
	case *absint.Agg:
		var v absint.Val = t
		for _, k := range []int{i, j, co} {
			a, ok := st.Resolve(v).(*absint.Agg)
			if !ok || k >= len(a.Elems) {
				return nil
			}
			v = a.Elems[k]
		}
		got, _ := st.Resolve(v).(*sym.Term)
		return got
	}
	return nil
}

func isTableResult(st *absint.State, res absint.Val) bool {
	switch st.Resolve(res).(type) {
	case *absint.Ptr, *absint.Agg:
		return true
	}
	return false
}

// c05Odd: generatorOddAffineTable[i][j] = huge[i][16(j+1)-1].
func c05Odd(c *Ctx, prog *load.Program) {
	fn := initCalleeOf(prog, models.Mod, "generatorOddAffineTable")
	if fn == nil {
		c.R.Unknown("C05-3", "odd-table", "", "initialiser of generatorOddAffineTable not found")
		return
	}
	pos := PosOf(prog, fn)
	set := models.NewSet().Merge(models.Field()).Merge(models.Helpers()).Merge(models.Scalar())
	cfg := &absint.Config{Prog: prog}
	set.Apply(cfg)
	ex := absint.New(cfg)
	st := ex.NewState()
	out, err := ex.Call(st, fn, nil)
	if err != nil || out.Ret == nil || len(ex.Fails) > 0 {
		c.R.Unknown("C05-3", "odd-table", pos, fmt.Sprintf("analysis incomplete: %v %v", err, firstN(ex.Fails, 2)))
		return
	}
	if !isTableResult(out.Ret.St, out.Ret.Results) {
		c.R.Unknown("C05-3", "odd-table", pos, "initialiser returns neither a table pointer nor a table value")
		return
	}
	bad := ""
	for i := 0; i < 32 && bad == ""; i++ {
		for j := 0; j < 15 && bad == ""; j++ {
			for co, cn := range []string{"x", "y"} {
				got := tableCoord(ex, out.Ret.St, out.Ret.Results, i, j, co)
				want := fmt.Sprintf("*generatorHugeAffineTable[%d][%d].%s", i, 16*(j+1)-1, cn)
				// (the symbol of a global's content is named after the path from the variable: with or without the
				// dereference of a pointer-typed variable)
				if got == nil || got.Op != "s" || (got.S != want && got.S != strings.TrimPrefix(want, "*")) {
					bad = fmt.Sprintf("odd[%d][%d].%s is %s, expected %s", i, j, cn, absint.ValString(got), want)
					break
				}
			}
		}
	}
	c.R.Decide(bad == "", "C05-3", "odd-table", pos, "odd[i][j] = huge[i][16(j+1)-1] = (j+1)*16*256^i*G for all 32x15 entries", bad)
}

// c05BaseMult: the fixed-base ladders compute s*G.
func c05BaseMult(c *Ctx, prog *load.Program, name string) {
	key := name + "@" + prog.Config.Name
	r := RunFn(prog, ladderSet(true), Method(models.PointType, name), nil)
	pos := PosOf(prog, r.Fn)
	if !r.OK() {
		c.R.Unknown("C05-4", "basemult/"+key, pos, r.Problem())
		return
	}
	got, _ := r.FieldOf(0).(*sym.Term)
	if got == nil {
		c.R.Unknown("C05-4", "basemult/"+key, pos, "result is not a term")
		return
	}
	rew, uses, err := recogniseLadder(got)
	if err != nil {
		c.R.Fail("C05-4", "basemult/"+key, pos, err.Error())
		return
	}
	s := sym.Sym(sym.Fn, "*s")
	ok := len(uses) == 1 && uses[0].Start == 0 && sym.Equal(rew, sym.Mul(s, models.G))
	detail := fmt.Sprintf("uses=%d", len(uses))
	if len(uses) == 1 {
		detail = fmt.Sprintf("bytes [%d,32) consumed, result %s", uses[0].Start, sym.PolyOf(rew))
	}
	c.R.Decide(ok, "C05-4", "basemult/"+key, pos, "sum over all 64 nibbles of bytes(s) with table multiples 16^k*G = s*G", "fixed-base ladder is not s*G: "+detail)
	c.R.Floor("C05-4", 2)
}

// c05Lookups: enumerate the indices of the affine lookups.
func c05Lookups(c *Ctx, prog *load.Program) {
	set := models.NewSet().Merge(models.Field()).Merge(models.Helpers()).Merge(models.Scalar()).Merge(models.PointInternal(nil))
	for _, lk := range []struct {
		typ, name string
		n         int64
	}{{"affinePointMultTable", "SelectAndAdd", 15}, {"hugeAffinePointMultTable", "SelectAndAddVartime", 255}} {
		fname := "(*" + models.Mod + "." + lk.typ + ")." + lk.name
		okAll, detail, pos := true, "", ""
		for k := int64(0); k <= lk.n && okAll; k++ {
			r := RunFn(prog, set, fname, &RunOpts{Args: []ArgSpec{{Alias: -1, SameSymsAs: -1}, {Alias: -1, SameSymsAs: -1}, {Alias: -1, SameSymsAs: -1, Val: sym.ConstI(k)}}})
			pos = PosOf(prog, r.Fn)
			if !r.OK() {
				okAll, detail = false, r.Problem()
				break
			}
			got, _ := r.FieldOf(1).(*sym.Term)
			want := sym.Sym(sym.Point, "*sum")
			if k > 0 {
				want = sym.Add(want, sym.Sym(sym.Point, fmt.Sprintf("*tbl[%d]", k-1)))
			}
			if got == nil || !sym.Equal(got, want) {
				okAll, detail = false, fmt.Sprintf("idx %d: sum becomes %s, expected %s", k, absint.ValString(got), want)
			}
		}
		c.R.Decide(okAll, "C05-5", "lookup/"+lk.typ+"."+lk.name+"@"+prog.Config.Name, pos, fmt.Sprintf("adds entry idx-1 for idx 1..%d, leaves sum unchanged for idx 0 (%d indices enumerated; the mixed formula's value for the zero addend is discarded)", lk.n, lk.n+1), detail)
	}
	c.R.Floor("C05-5", 2)
}

// c05Cast: reinterpreting *hugeAffinePointMultTable as *affinePointMultTable is layout-valid.
func c05Cast(c *Ctx, prog *load.Program) {
	sc := prog.ByPath[models.Mod].Types.Scope()
	h, a := sc.Lookup("hugeAffinePointMultTable"), sc.Lookup("affinePointMultTable")
	if h == nil || a == nil {
		c.R.Unknown("C05-4", "cast", "", "table types not found")
		return
	}
	ha, ok1 := h.Type().Underlying().(*types.Array)
	aa, ok2 := a.Type().Underlying().(*types.Array)
	ok := ok1 && ok2 && types.Identical(ha.Elem(), aa.Elem()) && aa.Len() <= ha.Len()
	c.R.Decide(ok, "C05-4", "cast/prefix-view", "point_mul_table.go", fmt.Sprintf("both tables are arrays of the same element type; %d-entry view is a prefix of the %d-entry table", lenOf(aa), lenOf(ha)), "the unsafe reinterpretation is not a prefix view of identical element type")
	_ = big.NewInt
}

func lenOf(a *types.Array) int64 {
	if a == nil {
		return -1
	}
	return a.Len()
}

// c05Generator: the generator the API hands out is the SEC 2 base point (the tables are multiples of *that* point; the
// coordinates come from two package-level constants nobody else compares with the standard).
func c05Generator(c *Ctx, prog *load.Program) {
	pl := pointFields(prog)
	if pl.x < 0 || pl.y < 0 || pl.z < 0 || pl.valid < 0 {
		c.R.Unknown("C05-1", "generator/layout", "", "Point fields not found")
		return
	}
	set := fieldSet()
	for _, name := range []string{Method(models.PointType, "Generator"), models.Mod + ".NewGeneratorPoint"} {
		r := RunFn(prog, set, name, nil)
		if r.Fn == nil {
			continue
		}
		key := "generator/" + r.Fn.Name()
		pos := PosOf(prog, r.Fn)
		if !r.OK() {
			c.R.Unknown("C05-1", key, pos, r.Problem())
			continue
		}
		var cs [3]*sym.Term
		var flag absint.Val
		if r.Fn.Signature.Recv() != nil {
			cs = coordsOf(r, pl, 0)
			flag = r.FieldOf(0, pl.valid)
		} else {
			p, ok := r.Out.Ret.St.Resolve(r.Result(0)).(*absint.Ptr)
			if !ok {
				c.R.Unknown("C05-1", key, pos, "result is not a pointer to a Point")
				continue
			}
			st := r.Out.Ret.St
			for i, f := range []int{pl.x, pl.y, pl.z} {
				t, _ := st.Resolve(r.Ex.LoadLeaf(st, &absint.Ptr{Obj: p.Obj, Path: []absint.Step{{Field: f}}})).(*sym.Term)
				cs[i] = t
			}
			flag = st.Resolve(r.Ex.LoadLeaf(st, &absint.Ptr{Obj: p.Obj, Path: []absint.Step{{Field: pl.valid}}}))
		}
		want := [3]*big.Int{refmath.Gx(), refmath.Gy(), big.NewInt(1)}
		ok, detail := true, ""
		for i := range cs {
			if cs[i] == nil || !cs[i].IsConst() || cs[i].C.Cmp(want[i]) != 0 {
				ok = false
				detail += fmt.Sprintf(" %c = %s;", "XYZ"[i], absint.ValString(cs[i]))
			}
		}
		ft, _ := flag.(*sym.Term)
		if ft == nil || !ft.IsConst() || ft.C.Sign() == 0 {
			ok = false
			detail += " validity flag = " + absint.ValString(flag)
		}
		c.R.Decide(ok, "C05-1", key, pos, "yields (Gx, Gy, 1) of SEC 2 with the validity flag set", "the generator handed out is not the SEC 2 base point:"+detail)
	}
}
