package rules

import (
	"fmt"
	"go/types"
	"math/big"

	"verif/internal/absint"
	"verif/internal/load"
	"verif/internal/models"
	"verif/internal/sym"
)

func init() { register("C06", "other", checkC06) }

// acceptFormula is the condition under which result errIdx of the analysed function is nil.
func acceptFormula(r *Run, errIdx int) (*Formula, string) {
	var parts []*Formula
	for _, e := range r.Ex.Returns {
		f, ok := FNil(exitResult(e, errIdx))
		if !ok {
			return nil, fmt.Sprintf("return at %s has an error result that is neither nil nor non-nil: %s", PosStr(r.Prog, e.Pos), absint.ValString(exitResult(e, errIdx)))
		}
		parts = append(parts, fAnd(FGuard(e.Guard), f))
	}
	return fOr(parts...), ""
}

// successFormula: the condition under which a routine with an (object[, error | bool]) result reports success, whatever
// convention its signature uses: an error result is nil, a bool result is true, or - with neither - the object is
// non-nil.
func successFormula(r *Run) (*Formula, string) {
	res := r.Fn.Signature.Results()
	for i := 0; i < res.Len(); i++ {
		if types.Identical(res.At(i).Type(), types.Universe.Lookup("error").Type()) {
			return acceptFormula(r, i)
		}
	}
	for i := 0; i < res.Len(); i++ {
		if b, ok := res.At(i).Type().Underlying().(*types.Basic); ok && b.Kind() == types.Bool {
			var parts []*Formula
			for _, e := range r.Ex.Returns {
				t, isT := e.St.Resolve(exitResult(e, i)).(*sym.Term)
				if !isT {
					return nil, fmt.Sprintf("return at %s has a success flag that is not a term: %s", PosStr(r.Prog, e.Pos), absint.ValString(exitResult(e, i)))
				}
				parts = append(parts, fAnd(FGuard(e.Guard), FTerm(e.St.Simplify(t))))
			}
			return fOr(parts...), ""
		}
	}
	if res.Len() >= 1 {
		f, prob := acceptFormula(r, 0) // condition for a nil object
		if prob != "" {
			return nil, prob
		}
		return fNot(f), ""
	}
	return nil, "the routine has no result"
}

// nilFormula is the condition under which result idx is nil.
func nilFormula(r *Run, idx int) (*Formula, string) { return acceptFormula(r, idx) }

// sec1 specification pieces over a symbolic byte string named src
type sec1Spec struct {
	src          *sym.Term
	x, y         *sym.Term // decoded coordinates (uncompressed layout)
	xCanon       *sym.Term // x bytes < p
	yCanon       *sym.Term
	yy           *sym.Term // x^3 + 7
	qr           *sym.Term // x^3+7 is a square
	root         *sym.Term // sqrt(x^3+7)
	onCurve      *sym.Term // y^2 == x^3 + 7
	compressedOK *Formula
	uncompOK     *Formula
	identityOK   *Formula
}

func newSec1Spec(src *sym.Term, lenT *sym.Term) sec1Spec {
	var s sec1Spec
	s.src = src
	xb := absint.SubBytes(src, sym.ConstI(1), sym.ConstI(33))
	yb := absint.SubBytes(src, sym.ConstI(33), sym.ConstI(65))
	s.x, s.y = models.OfBytes(sym.Fp, xb), models.OfBytes(sym.Fp, yb)
	s.xCanon, s.yCanon = sym.Not(models.GeModulus(sym.Fp, xb)), sym.Not(models.GeModulus(sym.Fp, yb))
	s.yy = sym.Canon(sym.Add(mul(s.x, s.x, s.x), fpConst(7)))
	one := fpConst(1)
	s.qr = sym.App(sym.Bool, "sqrt_ratio_qr", s.yy, one)
	s.root = sym.App(sym.Fp, "sqrt_ratio", s.yy, one)
	s.onCurve = models.RingEq(s.yy, mul(s.y, s.y))
	pfx := absint.ByteAt(src, sym.ConstI(0))
	isLen := func(n int64) *Formula { return FTerm(sym.Eq(lenT, sym.ConstI(n))) }
	isPfx := func(b int64) *Formula { return FTerm(sym.Eq(pfx, sym.ConstI(b))) }
	s.compressedOK = fAnd(isLen(33), fOr(isPfx(2), isPfx(3)), FTerm(s.xCanon), FTerm(s.qr))
	s.uncompOK = fAnd(isLen(65), isPfx(4), FTerm(s.xCanon), FTerm(s.yCanon), FTerm(s.onCurve))
	s.identityOK = fAnd(isLen(1), isPfx(0))
	return s
}

func checkC06(c *Ctx) {
	prog := c.Prog(load.AMD64)
	pl := pointFields(prog)
	if pl.x < 0 || pl.y < 0 || pl.z < 0 || pl.valid < 0 {
		c.R.Unknown("C06-1", "anchor/Point-layout", "", "Point fields x,y,z,isValid not found")
		return
	}
	c06Consts(c, prog)
	c06Decoders(c, prog, pl)
	c06Values(c, prog, pl)
	c06Coords(c, prog, pl)
	c06Encoders(c, prog, pl)
	c06Recover(c, prog, pl)
	c06Split(c, prog)
	c.R.Explanation = "The SEC 1 codec is abstractly interpreted against the field specification (C01). Accept sets: for SetCompressedBytes, SetUncompressedBytes, SetBytes, NewPointFromBytes (symbolic byte string of symbolic length) and NewPointFromCoords the condition 'error == nil' is extracted as a propositional formula and must be equivalent to: length 33, prefix 2 or 3, x < p, x^3+7 a square | length 65, prefix 4, x,y < p, y^2 = x^3+7 | the single byte 0 - everything else is rejected. Values: with the prefix fixed to 2, 3, 4 the stored point is (x, root with the parity of the prefix, 1) resp. (x, y, 1) with the validity flag set. On every rejecting valuation the receiver's four fields keep their initial symbols and the returned pointer is nil. Encoders return 0x00 for Z = 0 and otherwise prefix || Bytes(X/Z) [|| Bytes(Y/Z)] with the compressed prefix 2 + parity(Y/Z). RecoverPoint is decided for every recovery id 0..255 (0..3 concretely, >= 4 symbolically): x = r or r+n in F_p, accepted iff the reduction flag of x mod n equals bit 1, x mod n = r and x^3+7 is a square; the decoded parity is bit 0. SplitUncompressedPoint = (b[1:33], b[64]&1), panics unless len = 65."
	c.R.Assumptions = []string{"C01 (field specification: canonical decode, Sqrt/sqrt_ratio, Bytes)", "C03-5 (rescale)", "C02 (scalar Bytes / SetBytes)"}
}

func c06Consts(c *Ctx, prog *load.Program) {
	set := fieldSet()
	b := readGlobalFp(c, prog, set, models.Mod, "feB", "C06-1")
	if b != nil {
		c.R.Decide(b.IsConst() && b.C.Cmp(big.NewInt(7)) == 0, "C06-1", "const/feB", "", "feB = 7", "feB is not 7: "+b.String())
	}
	n := readGlobalFp(c, prog, set, models.Mod, "feN", "C06-5")
	if n != nil {
		c.R.Decide(n.IsConst() && n.C.Cmp(sym.N) == 0, "C06-5", "const/feN", "", "feN = n (group order as a field element)", "feN is not the group order: "+n.String())
	}
}

type decoderCase struct {
	name   string
	method bool
	spec   func(s sec1Spec) *Formula
}

func c06Decoders(c *Ctx, prog *load.Program, pl pointLayout) {
	set := fieldSet()
	cases := []decoderCase{
		{"SetCompressedBytes", true, func(s sec1Spec) *Formula { return s.compressedOK }},
		{"SetUncompressedBytes", true, func(s sec1Spec) *Formula { return s.uncompOK }},
		{"SetBytes", true, func(s sec1Spec) *Formula { return fOr(s.identityOK, s.compressedOK, s.uncompOK) }},
		{"NewPointFromBytes", false, func(s sec1Spec) *Formula { return fOr(s.identityOK, s.compressedOK, s.uncompOK) }},
	}
	for _, dc := range cases {
		var r *Run
		fname := models.Mod + "." + dc.name
		args := named("src")
		if dc.method {
			fname = Method(models.PointType, dc.name)
			args = named("v", "src")
		}
		r = RunFn(prog, set, fname, &RunOpts{Args: args})
		if r.Fn == nil {
			c.R.Unknown("C06-1", "accept/"+dc.name, "", "function not found")
			continue
		}
		pos := PosOf(prog, r.Fn)
		if p := runComplete(r); p != "" {
			c.R.Unknown("C06-1", "accept/"+dc.name, pos, p)
			continue
		}
		if len(r.Ex.Panics) > 0 {
			p := r.Ex.Panics[0]
			c.R.Fail("C06-1", "accept/"+dc.name, PosStr(prog, p.Pos), fmt.Sprintf("a panic (%s) is reachable when {%s}", p.Msg, GuardString(p.Guard)))
			continue
		}
		// index safety: every slice bound / conversion length that constant propagation did not settle must follow from the
		// length tests on the path (the capacity of a caller's slice is only known to be at least its length)
		if nb, fpos, fmsg := checkBounds(r); fmsg != "" {
			c.R.Fail("C06-1", "index-safety/"+dc.name, fpos, "a slice / conversion may be out of range: "+fmsg)
		} else {
			c.R.OK("C06-1", "index-safety/"+dc.name, pos, fmt.Sprintf("%d run-time bounds checks follow from the length tests", nb))
		}
		acc, prob := acceptFormula(r, 1)
		if prob != "" {
			c.R.Unknown("C06-1", "accept/"+dc.name, pos, prob)
			continue
		}
		spec := dc.spec(newSec1Spec(symBytes("src"), symLen("src")))
		ok, detail := Equivalent(acc, spec)
		c.R.Decide(ok, "C06-1", "accept/"+dc.name, pos, "accepts exactly the SEC 1 encodings of curve points ("+detail+")", "accept set differs from SEC 1: "+detail)
		if dc.name == "SetCompressedBytes" {
			// control: a specification that also admits the hybrid prefixes must be told apart
			s := newSec1Spec(symBytes("src"), symLen("src"))
			pfx := absint.ByteAt(s.src, sym.ConstI(0))
			hybrid := fAnd(FTerm(sym.Eq(symLen("src"), sym.ConstI(33))), fOr(FTerm(sym.Eq(pfx, sym.ConstI(2))), FTerm(sym.Eq(pfx, sym.ConstI(3))), FTerm(sym.Eq(pfx, sym.ConstI(6)))), FTerm(s.xCanon), FTerm(s.qr))
			okc, _ := Equivalent(acc, hybrid)
			c.R.ControlResult("C06-1", "hybrid-prefix-6", "a specification admitting prefix 0x06 must not be equivalent to the code", !okc)
		}
		// C06-3: on rejection the result pointer is nil ...
		nilRes, prob := nilFormula(r, 0)
		if prob != "" {
			c.R.Unknown("C06-3", "nil-on-error/"+dc.name, pos, prob)
		} else {
			ok, detail := Equivalent(nilRes, fNot(acc))
			c.R.Decide(ok, "C06-3", "nil-on-error/"+dc.name, pos, "the returned pointer is nil exactly when an error is returned", "returned pointer / error mismatch: "+detail)
		}
		// ... and the receiver is untouched
		if dc.method {
			c06ReceiverUnchanged(c, r, pl, dc.name, acc)
		}
	}
	c.R.Floor("C06-1", 6)
	c.R.Floor("C06-3", 7)
}

// c06ReceiverUnchanged: under every rejecting valuation the four fields of the receiver hold their initial symbols.
func c06ReceiverUnchanged(c *Ctx, r *Run, pl pointLayout, name string, acc *Formula) {
	pos := PosOf(r.Prog, r.Fn)
	recv, _ := r.Args[0].(*absint.Ptr)
	if recv == nil {
		c.R.Unknown("C06-3", "receiver-unchanged/"+name, pos, "receiver is not a pointer")
		return
	}
	init := []*sym.Term{fpSym("*v.x"), fpSym("*v.y"), fpSym("*v.z"), sym.Sym(sym.Bool, "*v.isValid")}
	for _, e := range r.Ex.Returns {
		var got []*sym.Term
		for _, f := range []int{pl.x, pl.y, pl.z, pl.valid} {
			t, _ := e.St.Resolve(r.Ex.LoadLeaf(e.St, r.Ex.FieldPtr(recv, f))).(*sym.Term)
			got = append(got, t)
		}
		cond := fAnd(FGuard(e.Guard), fNot(acc))
		ok, detail := ValuesUnder(cond, got, init)
		if !ok && detail == "the condition is unsatisfiable (vacuous)" {
			continue // an accepting-only return
		}
		if !ok {
			c.R.Fail("C06-3", "receiver-unchanged/"+name, PosStr(r.Prog, e.Pos), "a rejected input modifies the receiver: "+detail)
			return
		}
	}
	c.R.OK("C06-3", "receiver-unchanged/"+name, pos, "x, y, z and isValid keep their initial values on every rejecting path")
}

// c06Values: the point stored for accepted inputs, prefix fixed.
func c06Values(c *Ctx, prog *load.Program, pl pointLayout) {
	set := fieldSet()
	type vc struct {
		fn     string
		prefix byte
		n      int
	}
	for _, v := range []vc{{"SetCompressedBytes", 2, 33}, {"SetCompressedBytes", 3, 33}, {"SetUncompressedBytes", 4, 65}, {"SetBytes", 2, 33}, {"SetBytes", 3, 33}, {"SetBytes", 4, 65}, {"SetBytes", 0, 1}} {
		key := fmt.Sprintf("value/%s/prefix=%d", v.fn, v.prefix)
		body := absint.SymBytes("body", v.n-1, 0)
		src := absint.CatBytes(sym.ConstStr(sym.Bytes, string([]byte{v.prefix})), body)
		if v.n == 1 {
			src = sym.ConstStr(sym.Bytes, string([]byte{v.prefix}))
		}
		r := RunFn(prog, set, Method(models.PointType, v.fn), &RunOpts{Args: named("v", "src"), Pre: func(ex *absint.Exec, st *absint.State, args []absint.Val) {
			args[1] = ex.BytesToSlice(st, src, "src")
		}})
		pos := PosOf(prog, r.Fn)
		if p := runComplete(r); p != "" || r.Fn == nil {
			c.R.Unknown("C06-2", key, pos, p)
			continue
		}
		acc, prob := acceptFormula(r, 1)
		if prob != "" {
			c.R.Unknown("C06-2", key, pos, prob)
			continue
		}
		recv := r.Args[0].(*absint.Ptr)
		st := r.Final()
		var got []*sym.Term
		for _, f := range []int{pl.x, pl.y, pl.z, pl.valid} {
			t, _ := st.Resolve(r.Ex.LoadLeaf(st, r.Ex.FieldPtr(recv, f))).(*sym.Term)
			got = append(got, t)
		}
		s := newSec1Spec(src, sym.ConstI(int64(v.n)))
		var want []*sym.Term
		switch v.prefix {
		case 0:
			want = []*sym.Term{fpConst(0), fpConst(1), fpConst(0), sym.ConstBool(true)}
		case 2: // even root
			want = []*sym.Term{s.x, sym.Ite(models.Odd(s.root), sym.Neg(s.root), s.root), fpConst(1), sym.ConstBool(true)}
		case 3: // odd root
			want = []*sym.Term{s.x, sym.Ite(models.Odd(s.root), s.root, sym.Neg(s.root)), fpConst(1), sym.ConstBool(true)}
		case 4:
			want = []*sym.Term{s.x, s.y, fpConst(1), sym.ConstBool(true)}
		}
		ok, detail := ValuesUnder(acc, got, want)
		desc := map[byte]string{0: "(0,1,0)", 2: "(x, even root of x^3+7, 1)", 3: "(x, odd root of x^3+7, 1)", 4: "(x, y, 1)"}[v.prefix]
		c.R.Decide(ok, "C06-2", key, pos, "an accepted encoding stores "+desc+" with the validity flag set ("+detail+")", "decoded point differs from the specification: "+detail)
	}
	c.R.Floor("C06-2", 7)
}

func c06Coords(c *Ctx, prog *load.Program, pl pointLayout) {
	set := fieldSet()
	r := RunFn(prog, set, models.Mod+".NewPointFromCoords", &RunOpts{Args: named("xb", "yb")})
	if r.Fn == nil {
		c.R.Unknown("C06-1", "accept/NewPointFromCoords", "", "function not found")
		return
	}
	pos := PosOf(prog, r.Fn)
	if p := runComplete(r); p != "" {
		c.R.Unknown("C06-1", "accept/NewPointFromCoords", pos, p)
		return
	}
	acc, prob := acceptFormula(r, 1)
	if prob != "" {
		c.R.Unknown("C06-1", "accept/NewPointFromCoords", pos, prob)
		return
	}
	xb, yb := sym.Sym(sym.Bytes, "*xb"), sym.Sym(sym.Bytes, "*yb")
	// the interpreter names the content of *[32]byte parameters after the parameter
	xb, yb = c06ArrayContent(r, 0, xb), c06ArrayContent(r, 1, yb)
	x, y := models.OfBytes(sym.Fp, xb), models.OfBytes(sym.Fp, yb)
	yy := sym.Canon(sym.Add(mul(x, x, x), fpConst(7)))
	spec := fAnd(fNot(FTerm(models.GeModulus(sym.Fp, xb))), fNot(FTerm(models.GeModulus(sym.Fp, yb))), FTerm(models.RingEq(yy, mul(y, y))))
	ok, detail := Equivalent(acc, spec)
	c.R.Decide(ok, "C06-1", "accept/NewPointFromCoords", pos, "accepts exactly canonical coordinates on the curve ("+detail+")", "accept set differs: "+detail)
	nilRes, prob := nilFormula(r, 0)
	if prob == "" {
		ok, detail := Equivalent(nilRes, fNot(acc))
		c.R.Decide(ok, "C06-3", "nil-on-error/NewPointFromCoords", pos, "nil exactly when an error is returned", "returned pointer / error mismatch: "+detail)
	}
	// value
	for _, e := range r.Ex.Returns {
		p, ok := exitResult(e, 0).(*absint.Ptr)
		if !ok {
			continue
		}
		var got []*sym.Term
		for _, f := range []int{pl.x, pl.y, pl.z, pl.valid} {
			t, _ := e.St.Resolve(r.Ex.LoadLeaf(e.St, r.Ex.FieldPtr(p, f))).(*sym.Term)
			got = append(got, t)
		}
		okv, detail := ValuesUnder(FGuard(e.Guard), got, []*sym.Term{x, y, fpConst(1), sym.ConstBool(true)})
		c.R.Decide(okv, "C06-2", "value/NewPointFromCoords", pos, "stores (x, y, 1) with the validity flag set", "constructed point differs: "+detail)
	}
}

// c06ArrayContent returns the byte-string term the interpreter uses for the content of a *[n]byte parameter.
func c06ArrayContent(r *Run, i int, fallback *sym.Term) *sym.Term {
	p, ok := r.Args[i].(*absint.Ptr)
	if !ok {
		return fallback
	}
	st := r.Ex.NewState()
	return r.Ex.ReadArray(st, p, 32)
}

func c06Encoders(c *Ctx, prog *load.Program, pl pointLayout) {
	set := fieldSet()
	X, Y, Z := fpSym("*v.x"), fpSym("*v.y"), fpSym("*v.z")
	zInv := models.Inv(Z)
	ax, ay := sym.Mul(X, zInv), sym.Mul(Y, zInv)
	isID := models.RingEq(Z, fpConst(0))
	type enc struct {
		name   string
		want   *sym.Term // for non-identity
		idWant *sym.Term // for identity (nil = error)
		errIdx int
	}
	pfx := sym.App(sym.Bytes, "byte", sym.Ite(models.Odd(ay), sym.ConstI(3), sym.ConstI(2)))
	sym.SetBytesLen(pfx, 1)
	encs := []enc{
		{"UncompressedBytes", absint.CatBytes(sym.ConstStr(sym.Bytes, "\x04"), models.ToBytes(sym.Fp, ax), models.ToBytes(sym.Fp, ay)), sym.ConstStr(sym.Bytes, "\x00"), -1},
		{"CompressedBytes", absint.CatBytes(pfx, models.ToBytes(sym.Fp, ax)), sym.ConstStr(sym.Bytes, "\x00"), -1},
		{"XBytes", models.ToBytes(sym.Fp, ax), nil, 1},
	}
	for _, e := range encs {
		r := RunFn(prog, set, Method(models.PointType, e.name), &RunOpts{Args: named("v"), Pre: func(ex *absint.Exec, st *absint.State, args []absint.Val) {
			st.Assume(sym.Sym(sym.Bool, "*v.isValid"), true, "the operand is a valid point")
		}})
		key := "encode/" + e.name
		if r.Fn == nil {
			c.R.Unknown("C06-4", key, "", "function not found")
			continue
		}
		pos := PosOf(prog, r.Fn)
		if p := runComplete(r); p != "" {
			c.R.Unknown("C06-4", key, pos, p)
			continue
		}
		if len(r.Ex.Panics) > 0 {
			c.R.Fail("C06-4", key, PosStr(prog, r.Ex.Panics[0].Pos), "a panic is reachable for a valid point: "+r.Ex.Panics[0].Msg)
			continue
		}
		good := true
		detail := ""
		seenID, seenPt := false, false
		for _, x := range r.Ex.Returns {
			res := exitResult(x, 0)
			var errv absint.Val
			if e.errIdx >= 0 {
				errv = exitResult(x, e.errIdx)
			}
			set := map[*sym.Term]bool{sym.Canon(isID): true}
			choiceAtoms(res, set)
			choiceAtoms(errv, set)
			guard := FGuard(x.Guard)
			_ = Valuations([]*Formula{guard, fAtomsOf(set)}, nil, func(asg map[*sym.Term]bool, describe func() string) bool {
				if !guard.eval(asg) {
					return true
				}
				rv := resolveChoice(res, asg)
				if asg[sym.Canon(isID)] {
					seenID = true
					if e.idWant == nil {
						if !isNilVal(rv) || !isNonNilVal(resolveChoice(errv, asg)) {
							good, detail = false, "the identity is not reported as an error"
						}
						return good
					}
					b := bytesUnder(r.Ex, x.St, rv, asg)
					if !sym.Equal(b, e.idWant) {
						good, detail = false, "identity encodes as "+b.String()
					}
					return good
				}
				seenPt = true
				if e.errIdx >= 0 && !isNilVal(resolveChoice(errv, asg)) {
					good, detail = false, "a non-identity point yields an error"
					return false
				}
				b := bytesUnder(r.Ex, x.St, rv, asg)
				if !sym.Equal(b, ResolveIte(e.want, asg)) {
					good, detail = false, "encoding is "+b.String()+", expected "+e.want.String()
				}
				return good
			})
		}
		if good && !(seenID && seenPt) {
			good, detail = false, "identity / non-identity cases not both present"
		}
		c.R.Decide(good, "C06-4", key, pos, "identity -> 0x00 (error for XBytes); otherwise "+e.want.String(), "encoder differs from SEC 1: "+detail)
	}
	c.R.Floor("C06-4", 3)
}

func c06Recover(c *Ctx, prog *load.Program, pl pointLayout) {
	set := fieldSet()
	name := models.Mod + ".RecoverPoint"
	r0 := symFn("*r")
	x0 := models.OfBytes(sym.Fp, models.ToBytes(sym.Fn, r0))
	for id := int64(0); id <= 4; id++ {
		key := fmt.Sprintf("recover/id=%d", id)
		if id == 4 {
			key = "recover/id>=4"
		}
		r := RunFn(prog, set, name, &RunOpts{Args: named("r", "id"), Pre: func(ex *absint.Exec, st *absint.State, args []absint.Val) {
			if id < 4 {
				args[1] = sym.ConstI(id)
			} else {
				st.Assume(absint.Lt(sym.Sym(sym.Int, "id"), sym.ConstI(4)), false, "recovery id >= 4")
			}
		}})
		if r.Fn == nil {
			c.R.Unknown("C06-5", key, "", "RecoverPoint not found")
			return
		}
		pos := PosOf(prog, r.Fn)
		if p := runComplete(r); p != "" {
			c.R.Unknown("C06-5", key, pos, p)
			continue
		}
		if len(r.Ex.Panics) > 0 {
			p := r.Ex.Panics[0]
			c.R.Fail("C06-5", key, PosStr(prog, p.Pos), fmt.Sprintf("a panic (%s) is reachable when {%s}", p.Msg, GuardString(p.Guard)))
			continue
		}
		acc, prob := acceptFormula(r, 1)
		if prob != "" {
			c.R.Unknown("C06-5", key, pos, prob)
			continue
		}
		if id == 4 {
			ok, detail := Equivalent(acc, fConst(false))
			c.R.Decide(ok, "C06-5", key, pos, "every recovery id >= 4 is rejected", "an id >= 4 can be accepted: "+detail)
			continue
		}
		x := x0
		if id&2 != 0 {
			x = sym.Add(x0, sym.Const(sym.Fp, sym.N))
		}
		xb := models.ToBytes(sym.Fp, x)
		didReduce := models.GeModulus(sym.Fn, xb)
		var flagOK *Formula
		if id&2 != 0 {
			flagOK = FTerm(didReduce)
		} else {
			flagOK = fNot(FTerm(didReduce))
		}
		yy := sym.Canon(sym.Add(mul(x, x, x), fpConst(7)))
		one := fpConst(1)
		qr := sym.App(sym.Bool, "sqrt_ratio_qr", yy, one)
		root := sym.App(sym.Fp, "sqrt_ratio", yy, one)
		spec := fAnd(flagOK, FTerm(models.RingEq(models.OfBytes(sym.Fn, xb), r0)), FTerm(qr))
		ok, detail := Equivalent(acc, spec)
		c.R.Decide(ok, "C06-5", key, pos, fmt.Sprintf("accepted iff [x >= n] = bit 1, x mod n = r and x^3+7 is a square, with x = r%s (%s)", map[bool]string{false: "", true: " + n"}[id&2 != 0], detail), "accept set of RecoverPoint differs: "+detail)
		// value: the point (x, root with parity bit 0, 1)
		vok := true
		vdetail := ""
		for _, e := range r.Ex.Returns {
			res := exitResult(e, 0)
			cond := fAnd(FGuard(e.Guard), acc)
			ptrs := c06Pointers(res)
			for _, p := range ptrs {
				var got []*sym.Term
				for _, f := range []int{pl.x, pl.y, pl.z, pl.valid} {
					t, _ := e.St.Resolve(r.Ex.LoadLeaf(e.St, r.Ex.FieldPtr(p, f))).(*sym.Term)
					got = append(got, t)
				}
				wy := sym.Ite(models.Odd(root), sym.Neg(root), root)
				if id&1 != 0 {
					wy = sym.Ite(models.Odd(root), root, sym.Neg(root))
				}
				o, d := ValuesUnder(cond, got, []*sym.Term{x, wy, fpConst(1), sym.ConstBool(true)})
				if !o && d != "the condition is unsatisfiable (vacuous)" {
					vok, vdetail = false, d
				}
			}
		}
		c.R.Decide(vok, "C06-5", key+"/value", pos, "the recovered point is (x, root of parity bit 0, 1)", "recovered point differs: "+vdetail)
		nilRes, prob := nilFormula(r, 0)
		if prob == "" {
			ok, detail := Equivalent(nilRes, fNot(acc))
			c.R.Decide(ok, "C06-3", "nil-on-error/"+key, pos, "nil exactly when an error is returned", "returned pointer / error mismatch: "+detail)
		}
	}
	c.R.Floor("C06-5", 10)
}

// c06Pointers lists the pointer leaves of a (possibly merged) value.
func c06Pointers(v absint.Val) []*absint.Ptr {
	switch x := v.(type) {
	case *absint.Ptr:
		return []*absint.Ptr{x}
	case *absint.Choice:
		out := c06Pointers(x.A)
		for _, p := range c06Pointers(x.B) {
			dup := false
			for _, q := range out {
				if absint.SamePtr(p, q) {
					dup = true
				}
			}
			if !dup {
				out = append(out, p)
			}
		}
		return out
	}
	return nil
}

func c06Split(c *Ctx, prog *load.Program) {
	set := fieldSet()
	name := models.Mod + ".SplitUncompressedPoint"
	b := absint.SymBytes("pt", 65, 0)
	r := RunFn(prog, set, name, &RunOpts{Args: named("pt"), Pre: func(ex *absint.Exec, st *absint.State, args []absint.Val) {
		args[0] = ex.BytesToSlice(st, b, "pt")
	}})
	if r.Fn == nil {
		c.R.Unknown("C06-6", "split", "", "SplitUncompressedPoint not found")
		return
	}
	pos := PosOf(prog, r.Fn)
	if p := runComplete(r); p != "" || r.Out.Ret == nil {
		c.R.Unknown("C06-6", "split", pos, p)
		return
	}
	xb := r.Ex.SliceBytes(r.Final(), r.Result(0))
	par, _ := r.Result(1).(*sym.Term)
	wantX := absint.SubBytes(b, sym.ConstI(1), sym.ConstI(33))
	wantP := absint.IntOp("and", 8, absint.ByteAt(b, sym.ConstI(64)), sym.ConstI(1))
	c.R.Decide(sym.Equal(xb, wantX) && par != nil && sym.Equal(par, wantP), "C06-6", "split", pos, "x = b[1:33], parity = b[64] & 1", "SplitUncompressedPoint returns "+xb.String()+" / "+absint.ValString(par))
	// any other length panics
	r2 := RunFn(prog, set, name, &RunOpts{Args: named("pt"), Pre: func(ex *absint.Exec, st *absint.State, args []absint.Val) {
		st.Assume(sym.Eq(symLen("pt"), sym.ConstI(65)), false, "length is not 65")
	}})
	c.R.Decide(r2.Out.Ret == nil && len(r2.Ex.Panics) > 0, "C06-6", "split/other-length-panics", pos, "any length other than 65 panics", "a length other than 65 does not panic")
	c.R.Floor("C06-6", 2)
}

// bytesUnder reads the content of a (possibly merged) byte slice under a valuation.
func bytesUnder(ex *absint.Exec, st *absint.State, v absint.Val, asg map[*sym.Term]bool) *sym.Term {
	if sv, ok := v.(*absint.SliceVal); ok && sv.Base != nil {
		if n, ok := ResolveIte(sv.Len, asg).Int64(); ok && n >= 0 && n < 1<<16 {
			cells := ex.ReadByteCells(st, sv.Base, int(n))
			for i := range cells {
				cells[i] = ResolveIte(cells[i], asg)
			}
			return sym.Canon(absint.BytesFromCells(cells))
		}
	}
	return sym.Canon(ResolveIte(ex.SliceBytes(st, v), asg))
}
