package rules

import (
	"fmt"
	"go/token"
	"go/types"
	"math/big"

	"golang.org/x/tools/go/ssa"

	"verif/internal/absint"
	"verif/internal/load"
	"verif/internal/models"
	"verif/internal/sym"
)

func bigInt(v int64) *big.Int { return big.NewInt(v) }

func init() { register("C07", "other", checkC07) }

// ecdsaVerifySpec is the SEC 1 4.1.4 predicate on (Q, h, r, s) as a formula, with the point R it uses.
// d != nil selects the private-key ("alternative", 4.1.5) form R = (u1 + u2*d)*G.
func ecdsaVerifySpec(q, d *sym.Term, h string, r, s *sym.Term) (*Formula, *sym.Term) {
	e := models.OfBytes(sym.Fn, absint.SubBytes(symBytes(h), sym.ConstI(0), sym.ConstI(32)))
	sInv := models.Inv(s)
	u1, u2 := sym.Mul(e, sInv), sym.Mul(r, sInv)
	var R *sym.Term
	if d == nil {
		R = sym.Add(sym.Mul(u1, models.G), sym.Mul(u2, q))
	} else {
		R = sym.Mul(sym.Add(u1, sym.Mul(u2, d)), models.G)
	}
	v := models.OfBytes(sym.Fn, models.ToBytes(sym.Fp, models.XCoord(R)))
	f := fAnd(
		fNot(FTerm(models.RingEq(r, fnZero))),
		fNot(FTerm(models.RingEq(s, fnZero))),
		fNot(FTerm(absint.Lt(symLen(h), sym.ConstI(32)))),
		fNot(FTerm(models.IsIdentity(R, nil))),
		FTerm(models.RingEq(v, r)),
	)
	return f, R
}

func checkC07(c *Ctx) {
	prog := c.Prog(load.AMD64)
	c07Verify(c, prog)
	c07VerifyRaw(c, prog)
	c07Options(c, prog)
	c07Bitcoin(c, prog)
	c.R.Explanation = "secec.verify, VerifyRaw, PublicKey.Verify and bitcoin.VerifyASN1 are abstractly interpreted against the specifications of the scalar ring and the point module (C02-C06, C16): the set of inputs on which each returns success is extracted as a propositional formula over atoms (r = 0, s = 0, len(h) < 32, R = identity, x(R) mod n = r, parser success, s > (n-1)/2, digest-length and encoding tests) and must be equivalent, under every consistent valuation of the atoms, to the SEC 1 4.1.4 predicate with e = leftmost 32 bytes of the digest mod n, u1 = e/s, u2 = r/s, R = u1*G + u2*Q; option handling is decided for every SignatureEncoding value (symbolic), both malleability settings and the hash identifiers SHA-224/256/384/512/unset; no panic is reachable."
	c.R.Assumptions = []string{"C02 (scalar ring exact)", "C16 (DoubleScalarMultBasepointVartime = u1*G + u2*P)", "C05 (ScalarBaseMult)", "C06 (XBytes = canonical x of the affine point)", "C11 (RecoverPublicKey specification)", "C12 (parsers accept exactly the canonical encodings of r,s in [1,n))"}
}

func c07Verify(c *Ctx, prog *load.Program) {
	name := models.SececPkg + ".verify"
	// public-key path: d == nil
	args := named("d", "q", "h", "r", "s")
	args[0].Val = absint.Nil{}
	r := RunFn(prog, protoSet(nil), name, &RunOpts{Args: args})
	if r.Fn == nil {
		c.R.Unknown("C07-1", "verify", "", "secec.verify not found")
		return
	}
	spec, _ := ecdsaVerifySpec(symPt("**q.point"), nil, "h", symFn("*r"), symFn("*s"))
	decideAccept(c, "C07-1", "verify/public-key-path", r, 0, spec, nil)
	// private-key path (used by the signer's self-check)
	args = named("d", "q", "h", "r", "s")
	args[1].Val = absint.Nil{}
	r = RunFn(prog, protoSet(nil), name, &RunOpts{Args: args})
	spec, _ = ecdsaVerifySpec(nil, symFn("**d.scalar"), "h", symFn("*r"), symFn("*s"))
	decideAccept(c, "C07-1", "verify/private-key-path", r, 0, spec, nil)
	// neither path writes its operands (needed by C08-4: self-verification cannot change the output)
	c07ReadOnly(c, prog, name)
	// control: the specification with u2 = s/r instead of r/s must be told apart
	{
		args := named("d", "q", "h", "r", "s")
		args[0].Val = absint.Nil{}
		r := RunFn(prog, protoSet(nil), name, &RunOpts{Args: args})
		wrong, _ := ecdsaVerifySpec(symPt("**q.point"), nil, "h", symFn("*s"), symFn("*r"))
		codeF, _ := acceptFormula(r, 0)
		ok := codeF == nil
		if codeF != nil {
			ok, _ = Equivalent(codeF, wrong)
		}
		c.R.ControlResult("C07-1", "swapped-r-s", "a predicate with r and s exchanged must not be equivalent to the code", !ok)
	}
	c.R.Floor("C07-1", 3)
}

// c07ReadOnly: verify has no store into memory reachable from its parameters.
func c07ReadOnly(c *Ctx, prog *load.Program, name string) {
	for _, path := range []string{"public", "private"} {
		args := named("d", "q", "h", "r", "s")
		if path == "public" {
			args[0].Val = absint.Nil{}
		} else {
			args[1].Val = absint.Nil{}
		}
		r := RunFn(prog, protoSet(nil), name, &RunOpts{Args: args, Config: func(cfg *absint.Config) { cfg.RecordStores = true }})
		bad := ""
		for _, e := range r.Ex.Events {
			if e.Kind == absint.EvStore && e.Ptr != nil && e.Ptr.Obj.Origin.Kind != "local" {
				bad = fmt.Sprintf("store to %s (%s %s) at %s", e.Ptr, e.Ptr.Obj.Origin.Kind, e.Ptr.Obj.Origin.Root, PosStr(prog, e.Pos))
				break
			}
		}
		if p := runComplete(r); p != "" {
			c.R.Unknown("C07-1", "verify/read-only/"+path, PosOf(prog, r.Fn), p)
			continue
		}
		c.R.Decide(bad == "", "C07-1", "verify/read-only/"+path, PosOf(prog, r.Fn), "no store into memory reachable from d, q, h, r, s", "verify writes an operand: "+bad)
	}
}

func c07VerifyRaw(c *Ctx, prog *load.Program) {
	name := Method(models.SececPkg+".PublicKey", "VerifyRaw")
	r := RunFn(prog, protoSet(nil), name, &RunOpts{Args: named("q", "h", "r", "s")})
	pos := PosOf(prog, r.Fn)
	if p := runComplete(r); p != "" || r.Out.Ret == nil {
		c.R.Unknown("C07-2", "VerifyRaw", pos, p+" (or no return)")
		return
	}
	if len(r.Ex.Panics) > 0 {
		c.R.Fail("C07-2", "VerifyRaw", PosStr(prog, r.Ex.Panics[0].Pos), "a panic is reachable: "+r.Ex.Panics[0].Msg)
		return
	}
	indexSafety(c, "C07-2", "VerifyRaw", pos, r)
	res, _ := r.Result(0).(*sym.Term)
	if res == nil {
		c.R.Unknown("C07-2", "VerifyRaw", pos, "result is not a term: "+absint.ValString(r.Result(0)))
		return
	}
	spec, _ := ecdsaVerifySpec(symPt("**q.point"), nil, "h", symFn("*r"), symFn("*s"))
	ok, detail := Equivalent(FTerm(res), spec)
	c.R.Decide(ok, "C07-2", "VerifyRaw", pos, "VerifyRaw(h,r,s) is true exactly when the SEC 1 4.1.4 predicate holds ("+detail+")", "VerifyRaw differs from the SEC 1 predicate: "+detail)
	c.R.Floor("C07-2", 1)
}

// parser / recovery specifications used while analysing the option handling
func sigParserModels(set *models.Set) {
	mk := func(fn, tag string, withV bool) {
		set.Intercepts[models.SececPkg+"."+fn] = func(ex *absint.Exec, cc *absint.CallCtx) (absint.Val, bool) {
			b := ex.SliceBytes(cc.St, cc.Args[0])
			ok := sym.App(sym.Bool, tag+"_ok", b)
			rr := ex.AllocAbs(models.ScalarType, models.Mod, "Scalar", sym.App(sym.Fn, tag+"_r", b))
			ss := ex.AllocAbs(models.ScalarType, models.Mod, "Scalar", sym.App(sym.Fn, tag+"_s", b))
			errv := &absint.Iface{Opaque: sym.Sym(sym.Any, "err:"+tag), NonNil: true}
			out := absint.Tuple{absint.MergeVal(ok, rr, absint.Nil{}), absint.MergeVal(ok, ss, absint.Nil{})}
			if withV {
				out = append(out, sym.Ite(ok, sym.App(sym.Int, tag+"_v", b), sym.ConstI(0)))
			}
			out = append(out, absint.MergeVal(ok, &absint.Iface{}, errv))
			return out, true
		}
	}
	mk("ParseASN1Signature", "asn1", false)
	mk("ParseCompactSignature", "compact", false)
	mk("ParseCompactRecoverableSignature", "recoverable", true)
}

func recoverModel(set *models.Set, prog *load.Program) {
	set.Intercepts[models.SececPkg+".RecoverPublicKey"] = func(ex *absint.Exec, cc *absint.CallCtx) (absint.Val, bool) {
		h := ex.SliceBytes(cc.St, cc.Args[0])
		rr := loadPtrTerm(ex, cc.St, cc.Args[1])
		ss := loadPtrTerm(ex, cc.St, cc.Args[2])
		v, _ := cc.St.Resolve(cc.Args[3]).(*sym.Term)
		if rr == nil || ss == nil || v == nil {
			return nil, false
		}
		ok := sym.App(sym.Bool, "recover_pk_ok", h, sym.Canon(rr), sym.Canon(ss), v)
		q := sym.App(sym.Point, "recover_pk", h, sym.Canon(rr), sym.Canon(ss), v)
		pk := newPublicKeyObj(ex, cc.St, prog, q)
		errv := &absint.Iface{Opaque: sym.Sym(sym.Any, "err:recover"), NonNil: true}
		return absint.Tuple{absint.MergeVal(ok, pk, absint.Nil{}), absint.MergeVal(ok, &absint.Iface{}, errv)}, true
	}
}

// newPublicKeyObj allocates a PublicKey object holding point q and its uncompressed encoding.
func newPublicKeyObj(ex *absint.Exec, st *absint.State, prog *load.Program, q *sym.Term) *absint.Ptr {
	t := ex.NamedType(models.SececPkg, "PublicKey")
	pk := ex.Alloc(t, "PublicKey", nil, absint.Origin{Kind: "local"})
	pt := ex.AllocAbs(models.PointType, models.Mod, "Point", q)
	ip, ib := FieldIndex(prog, models.SececPkg, "PublicKey", "point"), FieldIndex(prog, models.SececPkg, "PublicKey", "pointBytes")
	ex.StoreLeaf(st, ex.FieldPtr(pk, ip), pt, 0)
	enc := absint.CatBytes(sym.ConstStr(sym.Bytes, "\x04"), models.ToBytes(sym.Fp, models.XCoord(q)), models.ToBytes(sym.Fp, models.YCoord(q)))
	storeBytesField(ex, st, pk, prog, models.SececPkg, "PublicKey", ib, enc, "pointBytes")
	return pk
}

func c07Options(c *Ctx, prog *load.Program) {
	name := Method(models.SececPkg+".PublicKey", "Verify")
	set := protoSet(nil)
	sigParserModels(set)
	recoverModel(set, prog)
	fn := absint.FindFunc(prog.SSA, name)
	if fn == nil {
		c.R.Unknown("C07-3", "Verify", "", "PublicKey.Verify not found")
		return
	}
	pos := PosOf(prog, fn)
	sig := symBytes("sig")
	type parsed struct{ ok, r, s, v *sym.Term }
	pr := func(tag string) parsed {
		return parsed{sym.App(sym.Bool, tag+"_ok", sig), sym.App(sym.Fn, tag+"_r", sig), sym.App(sym.Fn, tag+"_s", sig), sym.App(sym.Int, tag+"_v", sig)}
	}
	// the cached encoding of an initialised key: 65 bytes (C10), whatever the representation of the field
	qEnc := absint.SymBytes("*q.pointBytes", 65, 0)
	// specification for one configuration of the options
	specFor := func(enc *sym.Term, rejectMalleable *sym.Term, digestLen int64) *Formula {
		lenOK := fConst(true)
		if digestLen >= 0 {
			lenOK = FTerm(sym.Eq(symLen("h"), sym.ConstI(digestLen)))
		}
		lowS := func(p parsed) *Formula {
			if rejectMalleable == nil {
				return fConst(true)
			}
			return fOr(fNot(FTerm(rejectMalleable)), fNot(FTerm(models.GtHalf(p.s))))
		}
		arm := func(tag string) *Formula {
			p := pr(tag)
			v, _ := ecdsaVerifySpec(symPt("**q.point"), nil, "h", p.r, p.s)
			return fAnd(FTerm(p.ok), lowS(p), v)
		}
		rec := func() *Formula {
			p := pr("recoverable")
			okT := sym.App(sym.Bool, "recover_pk_ok", symBytes("h"), sym.Canon(p.r), sym.Canon(p.s), p.v)
			qT := sym.App(sym.Point, "recover_pk", symBytes("h"), sym.Canon(p.r), sym.Canon(p.s), p.v)
			encQ := absint.CatBytes(sym.ConstStr(sym.Bytes, "\x04"), models.ToBytes(sym.Fp, models.XCoord(qT)), models.ToBytes(sym.Fp, models.YCoord(qT)))
			same := sym.App(sym.Bool, "bytes_eq", qEnc, encQ)
			return fAnd(FTerm(p.ok), lowS(p), FTerm(okT), FTerm(same))
		}
		var byEnc *Formula
		if enc == nil {
			byEnc = arm("asn1")
		} else {
			is := func(k int64) *Formula { return FTerm(sym.Eq(enc, sym.ConstI(k))) }
			byEnc = fOr(fAnd(is(0), arm("asn1")), fAnd(is(1), arm("compact")), fAnd(is(2), rec()))
		}
		return fAnd(lenOK, byEnc)
	}
	run := func(key string, optsVal func(ex *absint.Exec, st *absint.State) absint.Val, spec *Formula) {
		var r *Run
		r = RunFn(prog, set, name, &RunOpts{Args: named("q", "h", "sig", "opts"), Pre: func(ex *absint.Exec, st *absint.State, args []absint.Val) {
			if kp, isPtr := args[0].(*absint.Ptr); isPtr {
				storeBytesField(ex, st, kp, prog, models.SececPkg, "PublicKey", FieldIndex(prog, models.SececPkg, "PublicKey", "pointBytes"), qEnc, "pointBytes")
			}
			if v := optsVal(ex, st); v != nil {
				args[3] = v
			}
		}})
		if p := runComplete(r); p != "" || r.Out.Ret == nil {
			c.R.Unknown("C07-3", key, pos, p+" (or no return)")
			return
		}
		for _, p := range r.Ex.Panics {
			c.R.Fail("C07-3", key, PosStr(prog, p.Pos), fmt.Sprintf("a panic (%s) is reachable when {%s}", p.Msg, GuardString(p.Guard)))
			return
		}
		indexSafety(c, "C07-3", key, pos, r)
		// result: the disjunction over returns of guard && value
		var parts []*Formula
		for _, e := range r.Ex.Returns {
			t, ok := exitResult(e, 0).(*sym.Term)
			if !ok {
				c.R.Unknown("C07-3", key, pos, "boolean result is not a term")
				return
			}
			parts = append(parts, fAnd(FGuard(e.Guard), FTerm(e.St.Simplify(t))))
		}
		ok, detail := Equivalent(fOr(parts...), spec)
		c.R.Decide(ok, "C07-3", key, pos, "Verify accepts exactly the specified signatures ("+detail+")", "option handling differs from the specification: "+detail)
	}
	// opts == nil: ASN.1, any s in [1,n), no digest-length rule beyond >= 32
	run("Verify/opts=nil", func(ex *absint.Exec, st *absint.State) absint.Val { return absint.Nil{} }, specFor(nil, nil, -1))
	// opts != nil: RejectMalleable symbolic; hash identifier enumerated; Encoding = 0, 1, 2 and
	// "any other value" (symbolic, with the three equalities assumed false), which covers every int
	hashes := []struct {
		id   int64
		size int64
		name string
	}{{0, 32, "unset"}, {4, 28, "SHA224"}, {5, 32, "SHA256"}, {6, 48, "SHA384"}, {7, 64, "SHA512"}}
	optsT := ex0Type(prog, models.SececPkg, "ECDSAOptions")
	iHash, iEnc, iRej := FieldIndex(prog, models.SececPkg, "ECDSAOptions", "Hash"), FieldIndex(prog, models.SececPkg, "ECDSAOptions", "Encoding"), FieldIndex(prog, models.SececPkg, "ECDSAOptions", "RejectMalleable")
	if optsT == nil || iHash < 0 || iEnc < 0 || iRej < 0 {
		c.R.Unknown("C07-3", "anchor/ECDSAOptions", "", "ECDSAOptions.{Hash,Encoding,RejectMalleable} not found")
		return
	}
	enc, rej := sym.Sym(sym.Int, "*opts.Encoding"), sym.Sym(sym.Bool, "*opts.RejectMalleable")
	mkOpts := func(hash int64, encoding int64) func(ex *absint.Exec, st *absint.State) absint.Val {
		return func(ex *absint.Exec, st *absint.State) absint.Val {
			p := ex.SymParam(optsPtrType(prog), "opts", 0).(*absint.Ptr)
			ex.StoreLeaf(st, ex.FieldPtr(p, iHash), sym.ConstI(hash), 0)
			if encoding >= 0 {
				ex.StoreLeaf(st, ex.FieldPtr(p, iEnc), sym.ConstI(encoding), 0)
			} else {
				for k := int64(0); k <= 2; k++ {
					st.Assume(sym.Eq(enc, sym.ConstI(k)), false, "Encoding is none of the three defined values")
				}
			}
			return p
		}
	}
	for _, h := range hashes {
		for _, e := range []int64{0, 1, 2, -1} {
			encT := sym.ConstI(e)
			label := fmt.Sprintf("%d", e)
			if e < 0 {
				encT, label = enc, "other"
			}
			spec := specFor(encT, rej, h.size)
			if e < 0 {
				spec = fConst(false)
			}
			run(fmt.Sprintf("Verify/hash=%s/encoding=%s", h.name, label), mkOpts(h.id, e), spec)
		}
	}
	// control: without the low-s clause the specification must differ
	{
		r := RunFn(prog, set, name, &RunOpts{Args: named("q", "h", "sig", "opts"), Pre: func(ex *absint.Exec, st *absint.State, args []absint.Val) {
			args[3] = mkOpts(5, 0)(ex, st)
		}})
		var parts []*Formula
		for _, e := range r.Ex.Returns {
			if t, ok := exitResult(e, 0).(*sym.Term); ok {
				parts = append(parts, fAnd(FGuard(e.Guard), FTerm(e.St.Simplify(t))))
			}
		}
		ok, _ := Equivalent(fOr(parts...), specFor(sym.ConstI(0), nil, 32))
		c.R.ControlResult("C07-3", "no-low-s-clause", "a specification without the RejectMalleable clause must not be equivalent to the code", !ok)
	}
	c.R.Floor("C07-3", 21)
}

func ex0Type(prog *load.Program, pkg, name string) interface{} {
	p := prog.ByPath[pkg]
	if p == nil || p.Types.Scope().Lookup(name) == nil {
		return nil
	}
	return p.Types.Scope().Lookup(name)
}

func optsPtrType(prog *load.Program) types.Type {
	return types.NewPointer(prog.ByPath[models.SececPkg].Types.Scope().Lookup("ECDSAOptions").Type())
}

// c07Bitcoin: VerifyASN1 = BIP-66 envelope && strict low-s ASN.1 verification of sig without the sighash byte.
func c07Bitcoin(c *Ctx, prog *load.Program) {
	name := models.BitcoinPkg + ".VerifyASN1"
	set := protoSet(nil)
	iHash, iEnc, iRej := FieldIndex(prog, models.SececPkg, "ECDSAOptions", "Hash"), FieldIndex(prog, models.SececPkg, "ECDSAOptions", "Encoding"), FieldIndex(prog, models.SececPkg, "ECDSAOptions", "RejectMalleable")
	set.Intercepts[models.BitcoinPkg+".IsValidSignatureEncodingBIP0066"] = func(ex *absint.Exec, cc *absint.CallCtx) (absint.Val, bool) {
		return sym.App(sym.Bool, "bip66_ok", ex.SliceBytes(cc.St, cc.Args[0])), true
	}
	set.Intercepts[Method(models.SececPkg+".PublicKey", "Verify")] = func(ex *absint.Exec, cc *absint.CallCtx) (absint.Val, bool) {
		q := fieldVal(ex, cc.St, cc.Args[0], prog, models.SececPkg, "PublicKey", "point")
		qt := loadPtrTerm(ex, cc.St, q)
		op, ok := cc.St.Resolve(cc.Args[3]).(*absint.Ptr)
		if !ok || qt == nil {
			return nil, false
		}
		f := func(i int) *sym.Term {
			t, _ := cc.St.Resolve(ex.LoadLeaf(cc.St, ex.FieldPtr(op, i))).(*sym.Term)
			if t == nil {
				t = sym.Fresh(sym.Any, "unknown-option", 0)
			}
			return t
		}
		return sym.App(sym.Bool, "pk_verify", qt, ex.SliceBytes(cc.St, cc.Args[1]), ex.SliceBytes(cc.St, cc.Args[2]), f(iHash), f(iEnc), f(iRej)), true
	}
	r := RunFn(prog, set, name, &RunOpts{Args: named("q", "h", "sig")})
	pos := PosOf(prog, r.Fn)
	if r.Fn == nil {
		c.R.Unknown("C07-4", "VerifyASN1", "", "bitcoin.VerifyASN1 not found")
		return
	}
	if p := runComplete(r); p != "" || r.Out.Ret == nil {
		c.R.Unknown("C07-4", "VerifyASN1", pos, p+" (or no return)")
		return
	}
	var parts []*Formula
	for _, e := range r.Ex.Returns {
		t, ok := exitResult(e, 0).(*sym.Term)
		if !ok {
			c.R.Unknown("C07-4", "VerifyASN1", pos, "boolean result is not a term")
			return
		}
		parts = append(parts, fAnd(FGuard(e.Guard), FTerm(e.St.Simplify(t))))
	}
	sig := symBytes("sig")
	body := absint.SubBytes(sig, sym.ConstI(0), sym.Add(symLen("sig"), sym.ConstI(-1)))
	want := func(hash, enc int64, rej bool) *Formula {
		return fAnd(FTerm(sym.App(sym.Bool, "bip66_ok", sig)),
			FTerm(sym.App(sym.Bool, "pk_verify", symPt("**q.point"), symBytes("h"), body, sym.ConstI(hash), sym.ConstI(enc), sym.ConstBool(rej))))
	}
	ok, detail := Equivalent(fOr(parts...), want(5, 0, true))
	c.R.Decide(ok, "C07-4", "VerifyASN1", pos, "VerifyASN1 = BIP-66 envelope && PublicKey.Verify(digest, sig without its last byte, {SHA256, ASN.1, RejectMalleable}) ("+detail+")", "VerifyASN1 differs from the specification: "+detail)
	okc, _ := Equivalent(fOr(parts...), want(5, 0, false))
	c.R.ControlResult("C07-4", "malleable-allowed", "a specification with RejectMalleable=false must not be equivalent", !okc)
	// every index / slice bound inside VerifyASN1 itself is entailed by the checks that dominate it (an empty signature
	// must be refused before its last byte is stripped)
	// (the BIP-66 predicate is replaced by its specification here; rule C12-3 proves that the predicate implies
	// 9 <= len(sig) <= 73, which is what the envelope contributes to the bounds)
	bip66Facts := func(g []absint.Lit) []absint.Lit {
		out := append([]absint.Lit(nil), g...)
		for _, l := range g {
			if l.T.Op == "bip66_ok" && l.Val && len(l.T.Args) == 1 {
				ln := absint.Lt(sym.App(sym.Int, "len", l.T.Args[0]), sym.ConstI(9))
				if n, ok := sym.BytesLen(l.T.Args[0]); ok {
					ln = absint.Lt(sym.ConstI(int64(n)), sym.ConstI(9))
				}
				out = append(out, absint.Lit{T: absint.Lt(symLen("sig"), sym.ConstI(9)), Val: false}, absint.Lit{T: ln, Val: false},
					absint.Lit{T: absint.Lt(sym.ConstI(73), symLen("sig")), Val: false})
			}
		}
		return out
	}
	if _, fpos, fmsg := checkBoundsWith(r, bip66Facts); fmsg != "" {
		c.R.Fail("C07-4", "VerifyASN1/bounds", fpos, fmsg)
	} else {
		c.R.OK("C07-4", "VerifyASN1/bounds", pos, "every slice bound in VerifyASN1 follows from the preceding checks")
	}
	// a panic inside VerifyASN1 itself (e.g. slicing an empty signature) must be unreachable
	for _, p := range r.Ex.Panics {
		c.R.Fail("C07-4", "VerifyASN1/no-panic", PosStr(prog, p.Pos), fmt.Sprintf("a panic (%s) is reachable when {%s}", p.Msg, GuardString(p.Guard)))
	}
	// the options object is written nowhere outside its initialiser
	c07OptsImmutable(c, prog)
	c.R.Floor("C07-4", 2)
}

// c07OptsImmutable: the package-level options of the Bitcoin entry point are only read.
func c07OptsImmutable(c *Ctx, prog *load.Program) {
	sp := prog.SSAPkgs[models.BitcoinPkg]
	if sp == nil {
		return
	}
	g, _ := sp.Members["optsShitcoin"].(*ssa.Global)
	if g == nil {
		c.R.Unknown("C07-4", "anchor/optsShitcoin", "", "package-level options object of bitcoin.VerifyASN1 not found")
		return
	}
	bad := ""
	for _, fn := range ModuleFuncs(prog) {
		if fn.Pkg != sp || fn.Name() == "init" {
			continue
		}
		for _, b := range fn.Blocks {
			for _, in := range b.Instrs {
				for _, op := range in.Operands(nil) {
					if *op != ssa.Value(g) {
						continue
					}
					// allowed: loading the pointer value
					if u, ok := in.(*ssa.UnOp); ok && u.Op == token.MUL {
						// the loaded pointer may only be passed as an argument (never used as a store address)
						for _, ref := range *u.Referrers() {
							switch x := ref.(type) {
							case *ssa.Call:
							case *ssa.FieldAddr:
								for _, r2 := range *x.Referrers() {
									if _, isStore := r2.(*ssa.Store); isStore {
										bad = "field of optsShitcoin stored at " + PosStr(prog, r2.Pos())
									}
								}
							case *ssa.DebugRef:
							default:
								bad = fmt.Sprintf("unexpected use of optsShitcoin (%T) at %s", ref, PosStr(prog, ref.Pos()))
							}
						}
						continue
					}
					bad = fmt.Sprintf("optsShitcoin used by %T at %s", in, PosStr(prog, in.Pos()))
				}
			}
		}
	}
	c.R.Decide(bad == "", "C07-4", "optsShitcoin/immutable", PosStr(prog, g.Pos()), "the options object is only read after initialisation", bad)
}
