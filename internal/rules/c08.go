package rules

import (
	"fmt"
	"go/types"
	"math/big"

	"verif/internal/absint"
	"verif/internal/load"
	"verif/internal/models"
	"verif/internal/sym"
)

func init() { register("C08", "other", checkC08) }

// nonceModels replaces the nonce generation (C09's subject) by its specification:
// mitigateDebianAndSony yields an opaque reader or an error; sampleRandomScalar yields a
// canonical non-zero scalar k (a fresh symbol per call) or an error.
func nonceModels(set *models.Set) {
	set.Intercepts[models.SececPkg+".mitigateDebianAndSony"] = func(ex *absint.Exec, cc *absint.CallCtx) (absint.Val, bool) {
		ok := sym.Sym(sym.Bool, "entropy_ok")
		rd := &absint.Iface{Opaque: sym.Sym(sym.Any, "fixedRng"), NonNil: true}
		errv := &absint.Iface{Opaque: sym.Sym(sym.Any, "err:entropy"), NonNil: true}
		return absint.Tuple{absint.MergeVal(ok, rd, &absint.Iface{}), absint.MergeVal(ok, &absint.Iface{}, errv)}, true
	}
	set.Intercepts[models.SececPkg+".sampleRandomScalar"] = func(ex *absint.Exec, cc *absint.CallCtx) (absint.Val, bool) {
		ok := sym.Sym(sym.Bool, "sample_ok")
		kt := sym.Sym(sym.Fn, "k")
		k := ex.AllocAbs(models.ScalarType, models.Mod, "Scalar", kt)
		// C09-3: the sampler never returns zero (nor a reduced value)
		cc.St.Assume(models.RingEq(kt, fnZero), false, "sampleRandomScalar returns a scalar in [1,n) (C09-3)")
		errv := &absint.Iface{Opaque: sym.Sym(sym.Any, "err:sample"), NonNil: true}
		return absint.Tuple{absint.MergeVal(ok, k, absint.Nil{}), absint.MergeVal(ok, &absint.Iface{}, errv)}, true
	}
}

func checkC08(c *Ctx) {
	prog := c.Prog(load.AMD64)
	c08Sign(c, prog)
	c08Options(c, prog)
	// "verifies under the signer's public key in every encoding": Verify's handling of options and encodings (rule C07-3)
	c07Options(c, prog)
	// "the byte encodings returned parse back to the same (r, s, v)": the signature parsers and builders (rules C12-1..4)
	c12ASN1Signature(c, prog)
	c12BytesToScalar(c, prog)
	c12Compact(c, prog)
	c12Builders(c, prog)
	// C08-4: the self-check cannot change (r, s, v): verify writes none of its operands
	c07ReadOnlyRule(c, prog, models.SececPkg+".verify", "C08-4")
	c.R.Floor("C08-4", 2)
	c.R.Explanation = "secec.sign is abstractly interpreted with the nonce generation replaced by its specification (a canonical non-zero scalar k per attempt, C09): on the only path that leaves the retry loop, r = x(k*G) mod n and s0 = (r*d + e)/k with both tested non-zero (the loop's back edges are exactly those two rejections); after the loop, on every path, s = s0 or -s0 selected by [s0 > (n-1)/2] and the recovery id is (([x(kG) >= n] << 1) | parity(y(kG))) xor the same control, decided for all eight valuations of the three flags, so v is in [0,3]; the errors are exactly short digest, entropy failure and sampler failure. PrivateKey.Sign is decided for nil options, *ECDSAOptions (hash unset/SHA-224/256/384/512, Encoding 0, 1, 2 and every other value, SelfVerify symbolic) and a plain crypto.Hash: a signature is produced exactly when the digest length matches, signing succeeded, the optional self-check passed and the encoding is one of the three, and the bytes are the corresponding builder applied to sign's (r, s, v) - independent of SelfVerify; verify writes none of its operands."
	c.R.Assumptions = []string{"C09 (nonce in [1,n))", "C05 (ScalarBaseMult)", "C06 (UncompressedBytes / SplitUncompressedPoint)", "C02 (scalar ring, half-order test)", "C07 (the self-check is the SEC 1 predicate)", "C12 (builders and parsers agree)", "'the signature verifies under the signer's key and the id recovers the signer' is the algebraic consequence of s = (e + r d)/k, R = kG and the id formula; it is derived, not computed"}
}

func c08Sign(c *Ctx, prog *load.Program) {
	set := protoSet(nil)
	nonceModels(set)
	r := RunFn(prog, set, models.SececPkg+".sign", &RunOpts{Args: named("rand", "d", "h")})
	if r.Fn == nil {
		c.R.Unknown("C08-1", "sign", "", "secec.sign not found")
		return
	}
	pos := PosOf(prog, r.Fn)
	if r.Err != nil || len(r.Ex.Fails) > 0 {
		c.R.Unknown("C08-1", "sign", pos, r.Problem())
		return
	}
	widened := 0
	for _, e := range r.Ex.Events {
		switch e.Kind {
		case absint.EvUnmodelled:
			c.R.Unknown("C08-1", "sign", PosStr(prog, e.Pos), "call without specification: "+e.Callee)
			return
		case absint.EvWiden:
			widened++
		}
	}
	c.R.Decide(widened == 1, "C08-1", "sign/retry-loop", pos, "one retry loop; its state is forgotten at the loop head and the exit path is analysed from an arbitrary iteration", fmt.Sprintf("%d loops with non-constant trip count (expected exactly the retry loop)", widened))
	for _, p := range r.Ex.Panics {
		c.R.Fail("C08-1", "sign/no-panic", PosStr(prog, p.Pos), fmt.Sprintf("a panic (%s) is reachable when {%s}", p.Msg, GuardString(p.Guard)))
	}
	indexSafety(c, "C08-1", "sign", pos, r)
	d, k := symFn("**d.scalar"), symFn("k")
	e := models.OfBytes(sym.Fn, absint.SubBytes(symBytes("h"), sym.ConstI(0), sym.ConstI(32)))
	R := sym.Mul(k, models.G)
	rx := models.ToBytes(sym.Fp, models.XCoord(R))
	rr := models.OfBytes(sym.Fn, rx)
	didReduce := models.GeModulus(sym.Fn, rx)
	yOdd := models.Odd(models.YCoord(R))
	s0 := sym.Mul(sym.Add(sym.Mul(rr, d), e), models.Inv(k))
	neg := models.GtHalf(s0)
	acc, prob := acceptFormula(r, 3)
	if prob != "" {
		c.R.Unknown("C08-1", "sign/accept", pos, prob)
		return
	}
	spec := fAnd(fNot(FTerm(absint.Lt(symLen("h"), sym.ConstI(32)))), FTerm(sym.Sym(sym.Bool, "entropy_ok")), FTerm(sym.Sym(sym.Bool, "sample_ok")),
		fNot(FTerm(models.RingEq(rr, fnZero))), fNot(FTerm(models.RingEq(s0, fnZero))))
	kNonZero := fNot(FTerm(models.RingEq(k, fnZero))) // the sampler's guarantee (C09-3)
	ok, detail := Equivalent(fAnd(acc, kNonZero), fAnd(spec, kNonZero))
	c.R.Decide(ok, "C08-1", "sign/accept", pos, "sign returns a signature exactly when the digest has >= 32 bytes, the nonce source worked and, for the nonce of the final attempt, r != 0 and s0 != 0 ("+detail+")", "exit condition of sign differs: "+detail)
	vok, vdetail := true, ""
	n := 0
	for _, x := range r.Ex.Returns {
		x := x
		res := x.St.Resolve(x.Results)
		tu, isT := res.(absint.Tuple)
		if !isT || len(tu) != 4 {
			continue
		}
		extra := fAnd(fOr(FTerm(didReduce), fNot(FTerm(didReduce))), fOr(FTerm(yOdd), fNot(FTerm(yOdd))), fOr(FTerm(neg), fNot(FTerm(neg))))
		o, dd := CheckUnder(fAnd(FGuard(x.Guard), acc, extra), []absint.Val{tu[0], tu[1]}, nil, func(asg map[*sym.Term]bool) string {
			n++
			gr := loadPtrTerm(r.Ex, x.St, resolveChoice(tu[0], asg))
			gs := loadPtrTerm(r.Ex, x.St, resolveChoice(tu[1], asg))
			if gr == nil || !sym.Equal(ResolveIte(gr, asg), rr) {
				return "r is " + absint.ValString(gr) + ", expected x(k*G) mod n"
			}
			ws := s0
			if asg[sym.Canon(neg)] {
				ws = sym.Neg(s0)
			}
			if gs == nil || !sym.Equal(ResolveIte(gs, asg), ws) {
				return "s is " + absint.ValString(ResolveIte(gs, asg)) + ", expected " + ws.String()
			}
			gv, _ := x.St.Resolve(tu[2]).(*sym.Term)
			if gv == nil {
				return "recovery id is not a term"
			}
			b := func(t *sym.Term) int64 {
				if asg[sym.Canon(t)] {
					return 1
				}
				return 0
			}
			want := ((b(didReduce) << 1) | b(yOdd)) ^ b(neg)
			got := ResolveIte(gv, asg)
			if v, isC := got.Int64(); !isC || v != want {
				return fmt.Sprintf("recovery id is %s, expected %d", got, want)
			}
			return ""
		})
		if !o && dd != "the condition is unsatisfiable (vacuous)" {
			vok, vdetail = false, dd
		}
	}
	c.R.Decide(vok && n >= 8, "C08-1", "sign/value", pos, "r = x(kG) mod n, s = low-s form of (r*d + e)/k, v = (([x(kG) >= n] << 1) | parity(y(kG))) xor [s0 > (n-1)/2], for all 8 flag valuations", "signature values differ from the specification: "+vdetail)
	// control: the id without the negation flip must be told apart
	{
		fired := false
		for _, x := range r.Ex.Returns {
			tu, isT := x.St.Resolve(x.Results).(absint.Tuple)
			if !isT || len(tu) != 4 {
				continue
			}
			gv, _ := x.St.Resolve(tu[2]).(*sym.Term)
			if gv == nil {
				continue
			}
			asg := map[*sym.Term]bool{sym.Canon(didReduce): false, sym.Canon(yOdd): false, sym.Canon(neg): true}
			if v, isC := ResolveIte(gv, asg).Int64(); isC && v != 0 {
				fired = true
			}
		}
		c.R.ControlResult("C08-1", "id-without-flip", "with s negated and both point flags clear the id must be 1, not 0", fired)
	}
	c.R.Floor("C08-1", 3)
}

func c07ReadOnlyRule(c *Ctx, prog *load.Program, name, rule string) {
	for _, path := range []string{"public", "private"} {
		args := named("d", "q", "h", "r", "s")
		if path == "public" {
			args[0].Val = absint.Nil{}
		} else {
			args[1].Val = absint.Nil{}
		}
		r := RunFn(prog, protoSet(nil), name, &RunOpts{Args: args, Config: func(cfg *absint.Config) { cfg.RecordStores = true }})
		bad := ""
		for _, e := range r.Ex.Events {
			if e.Kind == absint.EvStore && e.Ptr != nil && e.Ptr.Obj.Origin.Kind != "local" {
				bad = fmt.Sprintf("store to %s (%s %s) at %s", e.Ptr, e.Ptr.Obj.Origin.Kind, e.Ptr.Obj.Origin.Root, PosStr(prog, e.Pos))
				break
			}
		}
		if p := runComplete(r); p != "" {
			c.R.Unknown(rule, "verify/read-only/"+path, PosOf(prog, r.Fn), p)
			continue
		}
		c.R.Decide(bad == "", rule, "verify/read-only/"+path, PosOf(prog, r.Fn), "no store into memory reachable from d, q, h, r, s", "verify writes an operand: "+bad)
	}
}

// signModels: specification of sign / verify / the builders used while analysing PrivateKey.Sign.
func signModels(set *models.Set) {
	set.Intercepts[models.SececPkg+".sign"] = func(ex *absint.Exec, cc *absint.CallCtx) (absint.Val, bool) {
		ok := sym.Sym(sym.Bool, "sign_ok")
		rr := ex.AllocAbs(models.ScalarType, models.Mod, "Scalar", sym.Sym(sym.Fn, "sig_r"))
		ss := ex.AllocAbs(models.ScalarType, models.Mod, "Scalar", sym.Sym(sym.Fn, "sig_s"))
		errv := &absint.Iface{Opaque: sym.Sym(sym.Any, "err:sign"), NonNil: true}
		return absint.Tuple{absint.MergeVal(ok, rr, absint.Nil{}), absint.MergeVal(ok, ss, absint.Nil{}), sym.Ite(ok, sym.Sym(sym.Int, "sig_v"), sym.ConstI(0)), absint.MergeVal(ok, &absint.Iface{}, errv)}, true
	}
	set.Intercepts[models.SececPkg+".verify"] = func(ex *absint.Exec, cc *absint.CallCtx) (absint.Val, bool) {
		rt, st := loadPtrTerm(ex, cc.St, cc.Args[3]), loadPtrTerm(ex, cc.St, cc.Args[4])
		if rt == nil || st == nil {
			return nil, false
		}
		ok := sym.App(sym.Bool, "self_verify_ok", ex.SliceBytes(cc.St, cc.Args[2]), sym.Canon(rt), sym.Canon(st))
		errv := &absint.Iface{Opaque: sym.Sym(sym.Any, "err:verify"), NonNil: true}
		return absint.MergeVal(ok, &absint.Iface{}, errv), true
	}
	build := func(fn, tag string, withV bool) {
		set.Intercepts[models.SececPkg+"."+fn] = func(ex *absint.Exec, cc *absint.CallCtx) (absint.Val, bool) {
			rt, st := loadPtrTerm(ex, cc.St, cc.Args[0]), loadPtrTerm(ex, cc.St, cc.Args[1])
			if rt == nil || st == nil {
				return nil, false
			}
			args := []*sym.Term{sym.Canon(rt), sym.Canon(st)}
			if withV {
				v, _ := cc.St.Resolve(cc.Args[2]).(*sym.Term)
				if v == nil {
					return nil, false
				}
				args = append(args, v)
			}
			return ex.BytesToSlice(cc.St, sym.App(sym.Bytes, tag, args...), tag), true
		}
	}
	build("BuildASN1Signature", "asn1_build", false)
	build("BuildCompactSignature", "compact_build", false)
	build("BuildCompactRecoverableSignature", "recoverable_build", true)
}

func c08Options(c *Ctx, prog *load.Program) {
	name := Method(models.SececPkg+".PrivateKey", "Sign")
	set := protoSet(nil)
	signModels(set)
	fn := absint.FindFunc(prog.SSA, name)
	if fn == nil {
		c.R.Unknown("C08-3", "Sign", "", "PrivateKey.Sign not found")
		return
	}
	pos := PosOf(prog, fn)
	iHash, iEnc, iSelf := FieldIndex(prog, models.SececPkg, "ECDSAOptions", "Hash"), FieldIndex(prog, models.SececPkg, "ECDSAOptions", "Encoding"), FieldIndex(prog, models.SececPkg, "ECDSAOptions", "SelfVerify")
	if iHash < 0 || iEnc < 0 || iSelf < 0 {
		c.R.Unknown("C08-3", "anchor/ECDSAOptions", "", "ECDSAOptions.{Hash,Encoding,SelfVerify} not found")
		return
	}
	sr, ss, sv := sym.Sym(sym.Fn, "sig_r"), sym.Sym(sym.Fn, "sig_s"), sym.Sym(sym.Int, "sig_v")
	signOK := FTerm(sym.Sym(sym.Bool, "sign_ok"))
	selfOK := fAnd(FTerm(sym.App(sym.Bool, "self_verify_ok", symBytes("h"), sr, ss)), FTerm(absint.EqInt(absint.IntOp("and", 8, sv, sym.ConstI(3)), sv)))
	selfVerify := sym.Sym(sym.Bool, "*opts.SelfVerify")
	builders := map[int64]*sym.Term{0: sym.App(sym.Bytes, "asn1_build", sr, ss), 1: sym.App(sym.Bytes, "compact_build", sr, ss), 2: sym.App(sym.Bytes, "recoverable_build", sr, ss, sv)}
	var assume *Formula
	run := func(key string, optsVal func(ex *absint.Exec, st *absint.State) absint.Val, spec *Formula, want *sym.Term) {
		asm := fConst(true)
		if assume != nil {
			asm = assume
		}
		r := RunFn(prog, set, name, &RunOpts{Args: named("k", "rand", "h", "opts"), Pre: func(ex *absint.Exec, st *absint.State, args []absint.Val) {
			args[3] = optsVal(ex, st)
		}})
		if p := runComplete(r); p != "" {
			c.R.Unknown("C08-3", key, pos, p)
			return
		}
		for _, p := range r.Ex.Panics {
			c.R.Fail("C08-3", key, PosStr(prog, p.Pos), fmt.Sprintf("a panic (%s) is reachable when {%s}", p.Msg, GuardString(p.Guard)))
			return
		}
		indexSafety(c, "C08-3", key, pos, r)
		acc, prob := acceptFormula(r, 1)
		if prob != "" {
			c.R.Unknown("C08-3", key, pos, prob)
			return
		}
		ok, detail := Equivalent(fAnd(acc, asm), fAnd(spec, asm))
		if !ok {
			c.R.Fail("C08-3", key, pos, "Sign succeeds on a different set of inputs than specified: "+detail)
			return
		}
		nilRes, prob := nilFormula(r, 0)
		if prob != "" {
			c.R.Unknown("C08-3", key, pos, prob)
			return
		}
		if ok, detail := Equivalent(fAnd(nilRes, asm), fAnd(fNot(acc), asm)); !ok {
			c.R.Fail("C08-3", key, pos, "signature bytes / error mismatch (bytes returned with an error, or none without): "+detail)
			return
		}
		if want != nil {
			for _, x := range r.Ex.Returns {
				x := x
				res := exitResult(x, 0)
				o, d := CheckUnder(fAnd(FGuard(x.Guard), acc), []absint.Val{res}, nil, func(asg map[*sym.Term]bool) string {
					b := bytesUnder(r.Ex, x.St, resolveChoice(res, asg), asg)
					if !sym.Equal(b, want) {
						return "signature bytes are " + b.String() + ", expected " + want.String()
					}
					return ""
				})
				if !o && d != "the condition is unsatisfiable (vacuous)" {
					c.R.Fail("C08-3", key, pos, d)
					return
				}
			}
		}
		c.R.OK("C08-3", key, pos, "succeeds exactly when "+spec.String()+"; bytes = "+fmt.Sprint(want))
	}
	lenIs := func(n int64) *Formula { return FTerm(sym.Eq(symLen("h"), sym.ConstI(n))) }
	// nil options: ASN.1, no self-check, no digest-length rule (sign itself requires >= 32 bytes)
	run("Sign/opts=nil", func(ex *absint.Exec, st *absint.State) absint.Val { return &absint.Iface{} }, signOK, builders[0])
	// a bare crypto.Hash as options: digest length = hash size, ASN.1, no self-check
	hashT := prog.ByPath["crypto"].Types.Scope().Lookup("Hash").Type()
	run("Sign/opts=crypto.SHA256", func(ex *absint.Exec, st *absint.State) absint.Val {
		return &absint.Iface{Dyn: hashT, V: sym.ConstI(5), NonNil: true}
	}, fAnd(lenIs(32), signOK), builders[0])
	run("Sign/opts=crypto.SHA512", func(ex *absint.Exec, st *absint.State) absint.Val {
		return &absint.Iface{Dyn: hashT, V: sym.ConstI(7), NonNil: true}
	}, fAnd(lenIs(64), signOK), builders[0])
	// *ECDSAOptions
	optsPT := optsPtrType(prog)
	hashes := []struct {
		id, size int64
		name     string
	}{{0, 32, "unset"}, {4, 28, "SHA224"}, {5, 32, "SHA256"}, {6, 48, "SHA384"}, {7, 64, "SHA512"}}
	enc := sym.Sym(sym.Int, "*opts.Encoding")
	for _, h := range hashes {
		for _, e := range []int64{0, 1, 2, -1} {
			h, e := h, e
			label := fmt.Sprintf("%d", e)
			if e < 0 {
				label = "other"
			}
			spec := fAnd(lenIs(h.size), signOK, fOr(fNot(FTerm(selfVerify)), selfOK))
			var want *sym.Term
			assume = nil
			if e < 0 {
				spec = fConst(false)
				assume = fAnd(fNot(FTerm(sym.Eq(enc, sym.ConstI(0)))), fNot(FTerm(sym.Eq(enc, sym.ConstI(1)))), fNot(FTerm(sym.Eq(enc, sym.ConstI(2)))))
			} else {
				want = builders[e]
			}
			run(fmt.Sprintf("Sign/hash=%s/encoding=%s", h.name, label), func(ex *absint.Exec, st *absint.State) absint.Val {
				p := ex.SymParam(optsPT, "opts", 0).(*absint.Ptr)
				ex.StoreLeaf(st, ex.FieldPtr(p, iHash), sym.ConstI(h.id), 0)
				if e >= 0 {
					ex.StoreLeaf(st, ex.FieldPtr(p, iEnc), sym.ConstI(e), 0)
				} else {
					for k := int64(0); k <= 2; k++ {
						st.Assume(sym.Eq(enc, sym.ConstI(k)), false, "Encoding is none of the three defined values")
					}
				}
				return &absint.Iface{Dyn: optsPT, V: p, NonNil: true}
			}, spec, want)
		}
	}
	c.R.Floor("C08-3", 23)
	_ = types.Typ
	_ = big.NewInt
}
