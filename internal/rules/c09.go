package rules

import (
	"fmt"
	"go/types"
	"strings"

	"golang.org/x/tools/go/ssa"

	"verif/internal/absint"
	"verif/internal/load"
	"verif/internal/models"
	"verif/internal/sym"
)

func init() { register("C09", "other", checkC09) }

func checkC09(c *Ctx) {
	prog := c.Prog(load.AMD64)
	c09DefUse(c, prog)
	c09DigestScalar(c, prog)
	c09Mitigate(c, prog)
	c09Sampler(c, prog)
	c09Drbg(c, prog)
	c09ErrCheck(c, prog)
	// "with the RFC 6979 selector the signature equals ... for every key and digest": Sign hands every admissible digest
	// and the caller's reader to sign unchanged, whatever the reader is (rule C08-3)
	c08Options(c, prog)
	c.R.Explanation = "Nonce generation is decided structurally: (1) in secec.sign the caller's reader flows only into mitigateDebianAndSony and the sampler reads only from that function's result (def-use over SSA); GenerateKey samples from crypto/rand.Reader; (2) mitigateDebianAndSony, abstractly interpreted with an unknown reader: the RFC 6979 sentinel selects the deterministic generator built from (private scalar, e); otherwise exactly 32 bytes are obtained with io.ReadFull (nil is replaced by crypto/rand.Reader - no nil read is reachable), a read error returns (nil, err), and the returned XOF is TupleHashXOF128 keyed by a constant containing the context string having absorbed, in order, Bytes(private scalar), the 32 entropy bytes, Bytes(e) - each exactly once; (3) sampleRandomScalar (all 8 attempts unrolled): every accepting return hands out fn(E) for a 32-byte block E obtained by io.ReadFull whose read error was nil and which was tested canonical (not reduced) and non-zero on that path; every other return is an error with a nil scalar; after the last attempt an error is returned; (4) the RFC 6979 generator: the initial state equals steps b-g of RFC 6979 3.2 as HMAC-SHA-256 terms over int2octets(x) || bits2octets(h1); a first read returns V' = HMAC_K(V) and a read after a rejected candidate performs K = HMAC_K(V || 00), V = HMAC_K(V) first (step h.3), for 32-byte requests only; (6) no error result is discarded in secec, secec/bitcoin, secec/h2c except the enumerated never-failing hash writes and four justified sites."
	c.R.Assumptions = []string{"TupleHashXOF128 / HMAC-SHA-256 outputs differ when their inputs differ and are unbiased (cryptographic assumption; not decided)", "io.ReadFull returns an error unless the buffer was filled (standard library contract)", "C02 (Scalar.SetBytes flag, Bytes)"}
}

// c09DigestScalar: the digest scalar that keys the nonce (and is signed) is bits2octets of RFC 6979 / SEC 1 4.1.3 step 5:
// the leftmost 32 bytes reduced mod n, for every digest of at least 32 bytes (in particular digests >= n are reduced, not
// refused); shorter digests are refused.
func c09DigestScalar(c *Ctx, prog *load.Program) {
	name := models.SececPkg + ".hashToScalar"
	r := RunFn(prog, protoSet(nil), name, &RunOpts{Args: named("h")})
	if r.Fn == nil {
		c.R.Unknown("C09-1", "hashToScalar", "", "secec.hashToScalar not found")
		return
	}
	pos := PosOf(prog, r.Fn)
	if p := runComplete(r); p != "" || len(r.Ex.Panics) > 0 {
		c.R.Unknown("C09-1", "hashToScalar", pos, fmt.Sprintf("%s (panics: %d)", p, len(r.Ex.Panics)))
		return
	}
	acc, prob := successFormula(r)
	if prob != "" {
		c.R.Unknown("C09-1", "hashToScalar", pos, prob)
		return
	}
	ok, d := Equivalent(acc, fNot(FTerm(absint.Lt(symLen("h"), sym.ConstI(32)))))
	detail := d
	want := models.OfBytes(sym.Fn, absint.SubBytes(symBytes("h"), sym.ConstI(0), sym.ConstI(32)))
	for _, e := range r.Ex.Returns {
		if p, isP := exitResult(e, 0).(*absint.Ptr); isP {
			if t := loadPtrTerm(r.Ex, e.St, p); t == nil || !sym.Equal(e.St.Simplify(t), want) {
				ok, detail = false, "the digest scalar is "+absint.ValString(t)+", expected the leftmost 32 bytes reduced mod n"
			}
		}
	}
	c.R.Decide(ok, "C09-1", "hashToScalar", pos, "e = leftmost 32 digest bytes mod n for every digest of >= 32 bytes; shorter digests are refused", "the digest scalar differs from bits2octets: "+detail)
}

// c09DefUse: who feeds the sampler.
func c09DefUse(c *Ctx, prog *load.Program) {
	sign := absint.FindFunc(prog.SSA, models.SececPkg+".sign")
	if sign == nil {
		c.R.Unknown("C09-1", "sign", "", "secec.sign not found")
		return
	}
	pos := PosOf(prog, sign)
	var mitig, sample []*ssa.Call
	for _, b := range sign.Blocks {
		for _, in := range b.Instrs {
			if call, ok := in.(*ssa.Call); ok {
				if cal := call.Common().StaticCallee(); cal != nil {
					switch cal.String() {
					case models.SececPkg + ".mitigateDebianAndSony":
						mitig = append(mitig, call)
					case models.SececPkg + ".sampleRandomScalar":
						sample = append(sample, call)
					}
				}
			}
		}
	}
	if len(mitig) != 1 || len(sample) == 0 {
		c.R.Fail("C09-1", "sign/structure", pos, fmt.Sprintf("expected one call of mitigateDebianAndSony and at least one of sampleRandomScalar, found %d / %d", len(mitig), len(sample)))
		return
	}
	ok := true
	detail := ""
	for _, s := range sample {
		ex, isE := s.Common().Args[0].(*ssa.Extract)
		if !isE || ex.Tuple != ssa.Value(mitig[0]) || ex.Index != 0 {
			ok, detail = false, "sampleRandomScalar at "+PosStr(prog, s.Pos())+" does not read from the result of mitigateDebianAndSony"
		}
	}
	c.R.Decide(ok, "C09-1", "sign/sampler-source", pos, "the sampler reads only from the derived generator", detail)
	// the caller's reader flows nowhere else
	rand := sign.Params[0]
	okR := true
	for _, ref := range *rand.Referrers() {
		switch x := ref.(type) {
		case *ssa.DebugRef:
		case *ssa.Call:
			if x != mitig[0] {
				okR, detail = false, "the caller's reader is passed to "+x.Common().String()+" at "+PosStr(prog, x.Pos())
			}
		default:
			okR, detail = false, fmt.Sprintf("the caller's reader is used by %T at %s", ref, PosStr(prog, ref.Pos()))
		}
	}
	c.R.Decide(okR, "C09-1", "sign/rand-flows-only-to-mitigation", pos, "the caller's reader is only handed to mitigateDebianAndSony", detail)
	// mitigateDebianAndSony receives the signing key and e
	m := mitig[0].Common().Args
	okA := len(m) == 4 && m[2] == ssa.Value(sign.Params[1])
	if okA {
		ex, isE := m[3].(*ssa.Extract)
		okA = isE && ex.Index == 0
		if okA {
			call, isC := ex.Tuple.(*ssa.Call)
			okA = isC && call.Common().StaticCallee() != nil && call.Common().StaticCallee().String() == models.SececPkg+".hashToScalar" && call.Common().Args[0] == ssa.Value(sign.Params[2])
		}
	}
	c.R.Decide(okA, "C09-1", "sign/mitigation-inputs", pos, "mitigateDebianAndSony(rand, ctx, d, hashToScalar(digest))", "the mitigation is not keyed by the signing key and the digest scalar")
	// GenerateKey
	gk := absint.FindFunc(prog.SSA, models.SececPkg+".GenerateKey")
	if gk != nil {
		okG := false
		for _, b := range gk.Blocks {
			for _, in := range b.Instrs {
				if call, ok := in.(*ssa.Call); ok && call.Common().StaticCallee() != nil && call.Common().StaticCallee().String() == models.SececPkg+".sampleRandomScalar" {
					if u, isU := call.Common().Args[0].(*ssa.UnOp); isU {
						if g, isG := u.X.(*ssa.Global); isG && g.Pkg.Pkg.Path() == "crypto/rand" && g.Name() == "Reader" {
							okG = true
						}
					}
				}
			}
		}
		c.R.Decide(okG, "C09-1", "GenerateKey/source", PosOf(prog, gk), "GenerateKey samples from crypto/rand.Reader with the rejection sampler", "GenerateKey does not sample from crypto/rand.Reader")
	}
	c.R.Floor("C09-1", 4)
}

func c09Mitigate(c *Ctx, prog *load.Program) {
	name := models.SececPkg + ".mitigateDebianAndSony"
	r := RunFn(prog, protoSet(nil), name, &RunOpts{Args: named("rand", "ctx", "k", "e")})
	if r.Fn == nil {
		c.R.Unknown("C09-2", "mitigate", "", "mitigateDebianAndSony not found")
		return
	}
	pos := PosOf(prog, r.Fn)
	if p := runComplete(r); p != "" {
		c.R.Unknown("C09-2", "mitigate", pos, p)
		return
	}
	for _, p := range r.Ex.Panics {
		c.R.Fail("C09-2", "mitigate/no-panic", PosStr(prog, p.Pos), fmt.Sprintf("a panic (%s) is reachable when {%s}", p.Msg, GuardString(p.Guard)))
	}
	x, e := models.ToBytes(sym.Fn, symFn("**k.scalar")), models.ToBytes(sym.Fn, symFn("*e"))
	nDrbg, nXof, nErr := 0, 0, 0
	good := true
	detail := ""
	for _, ret := range r.Ex.Returns {
		res0, res1 := exitResult(ret, 0), exitResult(ret, 1)
		sentinel := false
		for _, l := range ret.Guard {
			if l.T.Op == "ifaceeq" && l.Val && strings.Contains(l.T.String(), "sentinelReaderRFC6979") {
				sentinel = true
			}
		}
		switch {
		case isNonNilVal(res1):
			nErr++
			if !isNilVal(res0) {
				good, detail = false, "a reader is returned together with an error"
			}
			// the error path must be the failed entropy read
			found := false
			for _, l := range ret.Guard {
				if l.T.Op == "isnil" && !l.Val && strings.HasPrefix(l.T.Args[0].String(), "readerr") {
					found = true
				}
			}
			if !found {
				good, detail = false, "an error return that is not caused by the entropy read"
			}
		case sentinel:
			nDrbg++
			if msg := c09DrbgInit(r, ret, res0, x, e); msg != "" {
				good, detail = false, msg
			}
		default:
			nXof++
			i, ok := res0.(*absint.Iface)
			if !ok || i.V == nil {
				good, detail = false, "the returned reader is not the XOF: "+absint.ValString(res0)
				continue
			}
			hp, _ := i.V.(*absint.Ptr)
			var hs *absint.HashState
			if hp != nil {
				hs, _ = r.Ex.LoadLeaf(ret.St, hp).(*absint.HashState)
			}
			if hs == nil || hs.Alg != "tuplehashxof128" {
				good, detail = false, "the returned reader is not a TupleHashXOF128 state"
				continue
			}
			if hs.Key == nil || !strings.Contains(hs.Key.String(), "ctx") || hs.Key.Op != "cat" || !hs.Key.Args[0].IsStrConst() || len(hs.Key.Args[0].S) == 0 {
				good, detail = false, "the XOF customisation is not <constant> || ctx: "+fmt.Sprint(hs.Key)
			}
			if len(hs.Items) != 3 || !sym.Equal(hs.Items[0], x) || !sym.Equal(hs.Items[2], e) {
				good, detail = false, fmt.Sprintf("the XOF absorbed %v, expected [Bytes(private scalar), 32 entropy bytes, Bytes(e)]", hs.Items)
				continue
			}
			ent := hs.Items[1]
			if n, ok := sym.BytesLen(ent); !ok || n != 32 || ent.Op != "s" || !strings.HasPrefix(ent.S, "entropy") {
				good, detail = false, "the second absorbed item is not the 32-byte block filled by io.ReadFull: "+ent.String()
			}
			// the read that produced the block succeeded on this path
			okRead := false
			for _, l := range ret.Guard {
				if l.T.Op == "isnil" && l.Val && l.T.Args[0].String() == "readerr"+strings.TrimPrefix(ent.S, "entropy") {
					okRead = true
				}
			}
			if !okRead {
				good, detail = false, "the entropy block is used although its read error was not checked"
			}
			if hs.Reads != 0 {
				good, detail = false, "the XOF has already been read from"
			}
		}
	}
	if good && !(nDrbg == 1 && nXof >= 1 && nErr >= 1) {
		good, detail = false, fmt.Sprintf("expected the three outcomes RFC 6979 generator / XOF / entropy error, found %d / %d / %d", nDrbg, nXof, nErr)
	}
	c.R.Decide(good, "C09-2", "mitigate", pos, "sentinel -> RFC 6979 generator over (x, e); otherwise XOF(key || 32 bytes of entropy || e) after a checked io.ReadFull; read error -> (nil, err)", detail)
	// the selector constant: RFC6979SHA256() returns the sentinel the switch compares with
	if f := absint.FindFunc(prog.SSA, models.SececPkg+".RFC6979SHA256"); f != nil {
		rr := RunFn(prog, protoSet(nil), f.String(), nil)
		i, _ := rr.Result(0).(*absint.Iface)
		c.R.Decide(rr.OK() && i != nil && i.Dyn != nil && strings.Contains(i.Dyn.String(), "sentinelReaderRFC6979"), "C09-5", "selector", PosOf(prog, f), "RFC6979SHA256() returns the sentinel value the mitigation switch tests for", "RFC6979SHA256() does not return the sentinel reader")
	} else {
		c.R.Unknown("C09-5", "selector", "", "RFC6979SHA256 not found")
	}
	c.R.Floor("C09-2", 1)
	c.R.Floor("C09-5", 1)
}

func hmacT(k *sym.Term, parts ...*sym.Term) *sym.Term {
	return sym.App(sym.Bytes, "hmac-sha256", k, absint.CatBytes(parts...))
}

// c09DrbgInit compares the state of the generator returned for the sentinel with RFC 6979 3.2 b-g.
func c09DrbgInit(r *Run, ret absint.Exit, res absint.Val, x, e *sym.Term) string {
	i, ok := res.(*absint.Iface)
	if !ok || i.V == nil || i.Dyn == nil || !strings.Contains(i.Dyn.String(), "drbgRFC6979") {
		return "the sentinel does not select the RFC 6979 generator: " + absint.ValString(res)
	}
	p, _ := i.V.(*absint.Ptr)
	if p == nil {
		return "generator object missing"
	}
	prog := r.Prog
	get := func(field string) (*sym.Term, absint.Val) {
		idx := FieldIndex(prog, models.SececPkg, "drbgRFC6979", field)
		if fieldIsByteArray(prog, models.SececPkg, "drbgRFC6979", idx) > 0 {
			return loadBytesField(r.Ex, ret.St, p, prog, models.SececPkg, "drbgRFC6979", idx), nil
		}
		v := fieldVal(r.Ex, ret.St, p, prog, models.SececPkg, "drbgRFC6979", field)
		if sv, ok := v.(*absint.SliceVal); ok {
			return r.Ex.SliceBytes(ret.St, sv), v
		}
		return nil, v
	}
	v0 := sym.ConstStr(sym.Bytes, strings.Repeat("\x01", 32))
	k0 := sym.ConstStr(sym.Bytes, strings.Repeat("\x00", 32))
	b := func(c byte) *sym.Term { return sym.ConstStr(sym.Bytes, string([]byte{c})) }
	k1 := hmacT(k0, v0, b(0), x, e)
	v1 := hmacT(k1, v0)
	k2 := hmacT(k1, v1, b(1), x, e)
	v2 := hmacT(k2, v1)
	gotV, _ := get("v")
	gotK, _ := get("k")
	if gotK == nil || !sym.Equal(gotK, k2) {
		return "K after initialisation is " + fmt.Sprint(gotK) + ", expected HMAC_K1(V1 || 01 || x || h1) with K1 = HMAC_0(V0 || 00 || x || h1)"
	}
	if gotV == nil || !sym.Equal(gotV, v2) {
		return "V after initialisation is " + fmt.Sprint(gotV)
	}
	_, nu := get("needUpdate")
	if t, ok := nu.(*sym.Term); !ok || !t.IsConst() || t.C.Sign() != 0 {
		return "needUpdate is not false after initialisation"
	}
	return ""
}

func c09Sampler(c *Ctx, prog *load.Program) {
	name := models.SececPkg + ".sampleRandomScalar"
	r := RunFn(prog, protoSet(nil), name, &RunOpts{Args: named("rand"), Config: func(cfg *absint.Config) { cfg.CallFilter = func(n string) bool { return n == "io.ReadFull" } }})
	if r.Fn == nil {
		c.R.Unknown("C09-3", "sampler", "", "sampleRandomScalar not found")
		return
	}
	pos := PosOf(prog, r.Fn)
	if p := runComplete(r); p != "" {
		c.R.Unknown("C09-3", "sampler", pos, p)
		return
	}
	// the reader may be nil only if the caller passes nil: sign never does (C09-2), GenerateKey passes crypto/rand.Reader
	for _, p := range r.Ex.Panics {
		if strings.Contains(p.Msg, "nil reader") {
			continue
		}
		c.R.Fail("C09-3", "sampler/no-panic", PosStr(prog, p.Pos), fmt.Sprintf("a panic (%s) is reachable when {%s}", p.Msg, GuardString(p.Guard)))
	}
	good := true
	detail := ""
	nAcc, nRej, maxReads := 0, 0, 0
	type giveUp struct {
		reads int
		pos   string
	}
	var giveUps []giveUp
	for _, ret := range r.Ex.Returns {
		res0, res1 := exitResult(ret, 0), exitResult(ret, 1)
		reads := 0
		for _, l := range ret.Guard {
			if l.T.Op == "isnil" && strings.HasPrefix(l.T.Args[0].String(), "readerr") {
				reads++
			}
		}
		if reads > maxReads {
			maxReads = reads
		}
		if isNonNilVal(res1) {
			nRej++
			if !isNilVal(res0) {
				good, detail = false, "a scalar is returned together with an error at "+PosStr(prog, ret.Pos)
			}
			// an error is returned only when a read failed, or when every allowed attempt was rejected: an
			// out-of-range or zero candidate is discarded and the next one is tried, it does not abort
			readFailed := false
			for _, l := range ret.Guard {
				if l.T.Op == "isnil" && !l.Val && strings.HasPrefix(l.T.Args[0].String(), "readerr") {
					readFailed = true
				}
			}
			if !readFailed {
				giveUps = append(giveUps, giveUp{reads, PosStr(prog, ret.Pos)})
			}
			continue
		}
		if !isNilVal(res1) {
			good, detail = false, "undecided error result"
			continue
		}
		nAcc++
		t := loadPtrTerm(r.Ex, ret.St, res0)
		if t == nil || t.Op != "fn_of_bytes" || t.Args[0].Op != "s" || !strings.HasPrefix(t.Args[0].S, "entropy") {
			good, detail = false, "an accepted candidate is not the decoding of a freshly read 32-byte block: "+absint.ValString(t)
			continue
		}
		E := t.Args[0]
		if n, ok := sym.BytesLen(E); !ok || n != 32 {
			good, detail = false, "the candidate block is not 32 bytes"
		}
		idx := strings.TrimPrefix(E.S, "entropy")
		var readOK, canonical, nonZero bool
		for _, l := range ret.Guard {
			switch {
			case l.T.Op == "isnil" && l.Val && l.T.Args[0].String() == "readerr"+idx:
				readOK = true
			case l.T == sym.Canon(models.GeModulus(sym.Fn, E)) && !l.Val:
				canonical = true
			case l.T == sym.Canon(models.RingEq(t, fnZero)) && !l.Val:
				nonZero = true
			}
		}
		if !readOK || !canonical || !nonZero {
			good, detail = false, fmt.Sprintf("an accepted candidate is not guarded by {read succeeded: %v, not reduced (< n): %v, non-zero: %v} at %s", readOK, canonical, nonZero, PosStr(prog, ret.Pos))
		}
		// ... and by nothing else: the first candidate in [1, n) is the one returned.  Every condition on the path that
		// looks at candidate bytes must be one of the two tests (E >= n, fn(E) = 0) of some block.
		for _, l := range ret.Guard {
			blocks := entropySyms(l.T)
			if len(blocks) == 0 {
				continue
			}
			okLit := false
			for _, b := range blocks {
				if l.T == sym.Canon(models.GeModulus(sym.Fn, b)) || l.T == sym.Canon(models.RingEq(models.OfBytes(sym.Fn, b), fnZero)) {
					okLit = true
				}
			}
			if !okLit {
				good, detail = false, fmt.Sprintf("acceptance of a candidate depends on a condition other than E < n and fn(E) != 0: %s (at %s)", l.T, PosStr(prog, ret.Pos))
			}
		}
	}
	if good && (nAcc == 0 || nRej == 0) {
		good, detail = false, "no accepting or no rejecting return"
	}
	for _, g := range giveUps {
		if g.reads < maxReads {
			good, detail = false, fmt.Sprintf("the sampler gives up with an error after %d candidate(s) although no read failed (at %s); a rejected candidate must be replaced by the next one, up to %d attempts", g.reads, g.pos, maxReads)
		}
	}
	c.R.Decide(good, "C09-3", "sampler/reject-not-reduce", pos, fmt.Sprintf("%d accepting returns, each fn(E) for a 32-byte block E with read error nil, E < n and fn(E) != 0 tested on the path; %d error returns with a nil scalar", nAcc, nRej), detail)
	c.R.Decide(maxReads >= 1 && maxReads <= 8, "C09-3", "sampler/bounded", pos, fmt.Sprintf("at most %d candidates are read before giving up with an error", maxReads), fmt.Sprintf("unexpected number of candidate reads: %d", maxReads))
	c.R.Floor("C09-3", 2)
}

// entropySyms lists the candidate blocks (symbols "entropy<i>") a term mentions.
func entropySyms(t *sym.Term) []*sym.Term {
	var out []*sym.Term
	seen := map[*sym.Term]bool{}
	var walk func(x *sym.Term)
	walk = func(x *sym.Term) {
		if x == nil || seen[x] {
			return
		}
		seen[x] = true
		if (x.Op == "s" || x.Op == "sb") && strings.HasPrefix(x.S, "entropy") {
			out = append(out, x)
		}
		for _, a := range x.Args {
			walk(a)
		}
	}
	walk(t)
	return out
}

func c09Drbg(c *Ctx, prog *load.Program) {
	name := Method(models.SececPkg+".drbgRFC6979", "Read")
	fn := absint.FindFunc(prog.SSA, name)
	if fn == nil {
		c.R.Unknown("C09-4", "drbg/Read", "", "drbgRFC6979.Read not found")
		return
	}
	pos := PosOf(prog, fn)
	V, K := absint.SymBytes("V", 32, 0), absint.SymBytes("K", 32, 0)
	iv, ik, inu := FieldIndex(prog, models.SececPkg, "drbgRFC6979", "v"), FieldIndex(prog, models.SececPkg, "drbgRFC6979", "k"), FieldIndex(prog, models.SececPkg, "drbgRFC6979", "needUpdate")
	if iv < 0 || ik < 0 || inu < 0 {
		c.R.Unknown("C09-4", "anchor/drbgRFC6979", "", "fields v, k, needUpdate not found")
		return
	}
	for _, need := range []bool{false, true} {
		key := fmt.Sprintf("drbg/Read/needUpdate=%v", need)
		var out *absint.SliceVal
		r := RunFn(prog, protoSet(nil), name, &RunOpts{Args: named("drbg", "b"), Pre: func(ex *absint.Exec, st *absint.State, args []absint.Val) {
			p := args[0].(*absint.Ptr)
			storeBytesField(ex, st, p, prog, models.SececPkg, "drbgRFC6979", iv, V, "v")
			storeBytesField(ex, st, p, prog, models.SececPkg, "drbgRFC6979", ik, K, "k")
			ex.StoreLeaf(st, ex.FieldPtr(p, inu), sym.ConstBool(need), 0)
			out = ex.BytesToSlice(st, absint.SymBytes("out", 32, 0), "b")
			args[1] = out
		}})
		if p := runComplete(r); p != "" || r.Out.Ret == nil {
			c.R.Unknown("C09-4", key, pos, p+" (or no return)")
			continue
		}
		st := r.Final()
		p := r.Args[0].(*absint.Ptr)
		read := func(i int) *sym.Term {
			return loadBytesField(r.Ex, st, p, prog, models.SececPkg, "drbgRFC6979", i)
		}
		k1, v1 := K, V
		if need {
			k1 = hmacT(K, V, sym.ConstStr(sym.Bytes, "\x00"))
			v1 = hmacT(k1, V)
		}
		v2 := hmacT(k1, v1)
		gotOut := r.Ex.SliceBytes(st, out)
		gotV, gotK := read(iv), read(ik)
		nu, _ := st.Resolve(r.Ex.LoadLeaf(st, r.Ex.FieldPtr(p, inu))).(*sym.Term)
		msg := ""
		switch {
		case gotK == nil || !sym.Equal(gotK, k1):
			msg = "K becomes " + fmt.Sprint(gotK) + ", expected " + k1.String()
		case gotV == nil || !sym.Equal(gotV, v2):
			msg = "V becomes " + fmt.Sprint(gotV) + ", expected " + v2.String()
		case !sym.Equal(gotOut, v2):
			msg = "the bytes handed out are " + gotOut.String() + ", expected the new V"
		case nu == nil || !nu.IsConst() || nu.C.Sign() == 0:
			msg = "needUpdate is not set after a read"
		}
		want := "V = HMAC_K(V); output V"
		if need {
			want = "K = HMAC_K(V || 00); V = HMAC_K(V); V = HMAC_K(V); output V (RFC 6979 3.2 h.3 then h.2)"
		}
		c.R.Decide(msg == "", "C09-4", key, pos, want, msg)
	}
	// other read lengths are refused
	r := RunFn(prog, protoSet(nil), name, &RunOpts{Args: named("drbg", "b"), Pre: func(ex *absint.Exec, st *absint.State, args []absint.Val) {
		st.Assume(sym.Eq(symLen("b"), sym.ConstI(32)), false, "length is not 32")
	}})
	c.R.Decide(r.Out.Ret == nil && len(r.Ex.Panics) > 0, "C09-4", "drbg/Read/other-length", pos, "a request of any other length panics", "a read of a length other than 32 is served")
	c.R.Floor("C09-4", 3)
}

// c09ErrCheck: no error result is dropped in the protocol packages, except enumerated sites.
func c09ErrCheck(c *Ctx, prog *load.Program) {
	type site struct{ caller, callee, reason string }
	allowed := []site{
		{models.SececPkg + ".newPrivateKeyFromScalar", models.SececPkg + ".newPublicKeyFromPoint", "the point is s*G with s guarded non-zero, never the identity"},
		{models.SececPkg + ".verify", "(*" + models.PointType + ").XBytes", "guarded by the identity test just above"},
	}
	neverFails := func(callee string) bool {
		return strings.HasSuffix(callee, ".Write") && (strings.Contains(callee, "hash.Hash") || strings.Contains(callee, "tuplehash") || strings.Contains(callee, "io.Writer") || strings.Contains(callee, "crypto/"))
	}
	errT := types.Universe.Lookup("error").Type()
	used := map[string]bool{}
	total, dropped := 0, 0
	// scope: a dropped error of a *library* call (a reader, a hash, a parser) is reported wherever it is in the protocol
	// packages; a dropped error of a *module* function is this property's business where nonces and keys are made - in
	// the code reachable from the ECDSA signing and key-generation entry points (elsewhere it is decided, with its
	// consequences, by the accept-set rules of the property that owns the routine)
	rel := NewRelevance(prog)
	for _, fn := range ModuleFuncs(prog) {
		if fn.Pkg != nil && fn.Pkg.Pkg.Path() == models.SececPkg && fn.Parent() == nil {
			switch fn.Name() {
			case "Sign", "SignRaw", "sign", "GenerateKey", "NewPrivateKey", "NewPrivateKeyFromScalar", "mitigateDebianAndSony", "sampleRandomScalar":
				rel.AddRoot(fn)
			}
		}
	}
	for _, fn := range ModuleFuncs(prog) {
		if fn.Pkg == nil {
			continue
		}
		pp := fn.Pkg.Pkg.Path()
		if pp != models.SececPkg && pp != models.BitcoinPkg && pp != models.H2cPkg {
			continue
		}
		for _, b := range fn.Blocks {
			for _, in := range b.Instrs {
				call, ok := in.(ssa.CallInstruction)
				if !ok {
					continue
				}
				sig := call.Common().Signature()
				res := sig.Results()
				if res.Len() == 0 || !types.Identical(res.At(res.Len()-1).Type(), errT) {
					continue
				}
				total++
				v := call.Value()
				usedErr := false
				if v != nil {
					if res.Len() == 1 {
						usedErr = hasRealReferrers(v)
					} else {
						for _, ref := range *v.Referrers() {
							if ex, isE := ref.(*ssa.Extract); isE && ex.Index == res.Len()-1 && hasRealReferrers(ex) {
								usedErr = true
							}
						}
					}
				}
				if usedErr {
					continue
				}
				callee := "?"
				if sc := call.Common().StaticCallee(); sc != nil {
					callee = sc.String()
				} else if call.Common().IsInvoke() {
					callee = "(" + call.Common().Value.Type().String() + ")." + call.Common().Method.Name()
				}
				if neverFails(callee) {
					continue
				}
				if sc := call.Common().StaticCallee(); sc != nil && sc.Pkg != nil && load.IsModulePkg(sc.Pkg.Pkg.Path()) {
					root := fn
					for root.Parent() != nil {
						root = root.Parent()
					}
					if !rel.reach[root] {
						continue
					}
				}
				dropped++
				caller := fn.String()
				if fn.Parent() != nil {
					caller = fn.Parent().String()
				}
				okSite := false
				for _, a := range allowed {
					if a.callee != callee {
						continue
					}
					part := a.caller == caller
					if !part {
						// an unexported helper that is never used as a value and whose every call chain starts in the
						// enumerated caller is part of it (the guard that makes the call infallible is in that caller)
						root := fn
						for root.Parent() != nil {
							root = root.Parent()
						}
						part, _ = onlyCalledFrom(prog, root, map[string]bool{a.caller: true}, 0)
					}
					if part {
						okSite = true
						used[a.caller+"|"+a.callee] = true
					}
				}
				key := "errcheck/" + strings.TrimPrefix(caller, models.Mod) + "->" + strings.TrimPrefix(callee, models.Mod)
				c.R.Decide(okSite, "C09-6", key, PosStr(prog, in.Pos()), "discarded error at an enumerated cannot-fail site", "the error result of "+callee+" is discarded in "+caller)
			}
		}
	}
	c.R.Decide(total > 20, "C09-6", "errcheck/coverage", "", fmt.Sprintf("%d error-returning calls inspected, %d discards all enumerated", total, dropped), fmt.Sprintf("only %d error-returning calls found", total))
	c.R.Floor("C09-6", 3)
}

func hasRealReferrers(v ssa.Value) bool {
	refs := v.Referrers()
	if refs == nil {
		return false
	}
	for _, r := range *refs {
		if _, isD := r.(*ssa.DebugRef); !isD {
			return true
		}
	}
	return false
}
