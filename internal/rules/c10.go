package rules

import (
	"fmt"
	"go/types"
	"strings"

	"golang.org/x/tools/go/ssa"

	"verif/internal/absint"
	"verif/internal/load"
	"verif/internal/models"
	"verif/internal/sym"
)

func init() { register("C10", "other", checkC10) }

func uncompressedOf(p *sym.Term) *sym.Term {
	return absint.CatBytes(sym.ConstStr(sym.Bytes, "\x04"), models.ToBytes(sym.Fp, models.XCoord(p)), models.ToBytes(sym.Fp, models.YCoord(p)))
}

func checkC10(c *Ctx) {
	prog := c.Prog(load.AMD64)
	c10ECDH(c, prog)
	c10Constructors(c, prog)
	c10WhoWrites(c, prog, "C10-2", models.SececPkg, map[string][]string{
		"PrivateKey": {models.SececPkg + ".newPrivateKeyFromScalar"},
		"PublicKey":  {models.SececPkg + ".newPublicKeyFromPoint"},
	})
	c10Accessors(c, prog)
	// the fourth way to obtain a PublicKey: the SubjectPublicKeyInfo parser must hold exactly what NewPublicKey accepts
	// (rule C12-5; a parser that builds the key object itself would bypass the identity / validity tests of the constructor)
	c12ASN1PublicKey(c, prog)
	// ... and the fifth: NewPublicKeyFromPoint takes any Point the API can produce; the raw-coordinate constructor is the one
	// Point constructor that no routine of this property calls, so its accept set (canonical x, y on the curve - rule C06-1)
	// is evaluated here as well ("a public key can only be obtained from ... a valid, canonical ... point")
	if pl := pointFields(prog); pl.x >= 0 && pl.y >= 0 && pl.z >= 0 && pl.valid >= 0 {
		c06Coords(c, prog, pl)
	}
	c.R.Explanation = "ECDH, the key constructors and the key accessors are abstractly interpreted against the scalar-ring / point-module specifications: ECDH(k, B) = Bytes(x(k.scalar * B.point)) and the identity is the only error; NewPrivateKey accepts exactly 32-byte strings below n that are non-zero, NewPrivateKeyFromScalar exactly non-zero scalars, NewPublicKey exactly valid SEC 1 encodings (C06) of non-identity points, NewPublicKeyFromPoint exactly non-identity points; an accepted key stores a fresh copy of the scalar / point, the public point d*G and the uncompressed encoding of the stored point; objects of the key types are created and written only inside the two unexported constructors (who-writes over every package); accessors return fresh copies and CompressedBytes / Bytes are functions of the cached encoding (prefix 2 + parity of the last byte)."
	c.R.Assumptions = []string{"C04 (ScalarMult exact) - symmetry ECDH(a,B) = ECDH(b,A) = x(ab*G) is its consequence and is recorded as derived", "C05 (ScalarBaseMult)", "C06 (strict SEC 1 decoding, encoders)", "C02"}
}

func c10ECDH(c *Ctx, prog *load.Program) {
	name := Method(models.SececPkg+".PrivateKey", "ECDH")
	r := RunFn(prog, protoSet(nil), name, &RunOpts{Args: named("k", "remote")})
	if r.Fn == nil {
		c.R.Unknown("C10-1", "ECDH", "", "PrivateKey.ECDH not found")
		return
	}
	pos := PosOf(prog, r.Fn)
	if p := runComplete(r); p != "" {
		c.R.Unknown("C10-1", "ECDH", pos, p)
		return
	}
	for _, p := range r.Ex.Panics {
		c.R.Fail("C10-1", "ECDH/no-panic", PosStr(prog, p.Pos), fmt.Sprintf("a panic (%s) is reachable when {%s}", p.Msg, GuardString(p.Guard)))
	}
	indexSafety(c, "C10-1", "ECDH", pos, r)
	acc, prob := acceptFormula(r, 1)
	if prob != "" {
		c.R.Unknown("C10-1", "ECDH", pos, prob)
		return
	}
	S := sym.Mul(symFn("**k.scalar"), symPt("**remote.point"))
	ok, detail := Equivalent(acc, fNot(FTerm(models.IsIdentity(S, nil))))
	c.R.Decide(ok, "C10-1", "ECDH/accept", pos, "ECDH fails exactly when the product point is the identity ("+detail+")", "ECDH error condition differs: "+detail)
	vok, vdetail := true, ""
	for _, e := range r.Ex.Returns {
		e := e
		res := exitResult(e, 0)
		o, d := CheckUnder(fAnd(FGuard(e.Guard), acc), []absint.Val{res}, nil, func(asg map[*sym.Term]bool) string {
			b := bytesUnder(r.Ex, e.St, resolveChoice(res, asg), asg)
			if !sym.Equal(b, models.ToBytes(sym.Fp, models.XCoord(S))) {
				return "shared secret is " + b.String()
			}
			return ""
		})
		if !o && d != "the condition is unsatisfiable (vacuous)" {
			vok, vdetail = false, d
		}
	}
	c.R.Decide(vok, "C10-1", "ECDH/value", pos, "shared secret = Bytes(x(k.scalar * remote.point)), 32 bytes", "shared secret differs: "+vdetail)
	c.R.Floor("C10-1", 2)
}

type keyView struct {
	scalarPtr  *absint.Ptr
	scalar     *sym.Term
	pubPtr     *absint.Ptr
	pointPtr   *absint.Ptr
	point      *sym.Term
	pointBytes *sym.Term
}

// viewPublicKey reads the fields of a PublicKey object under a valuation.
func viewPublicKey(r *Run, st *absint.State, pk absint.Val, asg map[*sym.Term]bool) (keyView, string) {
	var v keyView
	prog := r.Prog
	pp, ok := resolveChoice(st.Resolve(pk), asg).(*absint.Ptr)
	if !ok {
		return v, "no public key object"
	}
	v.pubPtr = pp
	ptV := resolveChoice(fieldVal(r.Ex, st, pp, prog, models.SececPkg, "PublicKey", "point"), asg)
	v.pointPtr, _ = ptV.(*absint.Ptr)
	if v.pointPtr == nil {
		return v, "public key has no point: " + absint.ValString(ptV)
	}
	if t := loadPtrTerm(r.Ex, st, v.pointPtr); t != nil {
		v.point = ResolveIte(t, asg)
	}
	pb := resolveChoice(bytesField(r.Ex, st, pp, prog, models.SececPkg, "PublicKey", "pointBytes"), asg)
	v.pointBytes = bytesUnder(r.Ex, st, pb, asg)
	return v, ""
}

func viewPrivateKey(r *Run, st *absint.State, sk absint.Val, asg map[*sym.Term]bool) (keyView, string) {
	prog := r.Prog
	sp, ok := resolveChoice(st.Resolve(sk), asg).(*absint.Ptr)
	if !ok {
		return keyView{}, "no private key object"
	}
	pubV := resolveChoice(fieldVal(r.Ex, st, sp, prog, models.SececPkg, "PrivateKey", "publicKey"), asg)
	v, prob := viewPublicKey(r, st, pubV, asg)
	if prob != "" {
		return v, prob
	}
	scV := resolveChoice(fieldVal(r.Ex, st, sp, prog, models.SececPkg, "PrivateKey", "scalar"), asg)
	v.scalarPtr, _ = scV.(*absint.Ptr)
	if v.scalarPtr == nil {
		return v, "private key has no scalar"
	}
	if t := loadPtrTerm(r.Ex, st, v.scalarPtr); t != nil {
		v.scalar = ResolveIte(t, asg)
	}
	return v, ""
}

func c10Constructors(c *Ctx, prog *load.Program) {
	type ctor struct {
		name    string
		args    []string
		private bool
		spec    func() (*Formula, *sym.Term, *sym.Term) // accept, scalar (or nil), point
		param   int                                     // index of a pointer parameter that must not be retained (-1 = none)
	}
	key := symBytes("key")
	ctors := []ctor{
		{"NewPrivateKey", []string{"key"}, true, func() (*Formula, *sym.Term, *sym.Term) {
			k32 := absint.SubBytes(key, sym.ConstI(0), sym.ConstI(32)) // the whole string, given len(key) == 32
			d := models.OfBytes(sym.Fn, k32)
			f := fAnd(FTerm(sym.Eq(symLen("key"), sym.ConstI(32))), fNot(FTerm(models.GeModulus(sym.Fn, k32))), fNot(FTerm(models.RingEq(d, fnZero))))
			return f, d, sym.Mul(d, models.G)
		}, -1},
		{"NewPrivateKeyFromScalar", []string{"s"}, true, func() (*Formula, *sym.Term, *sym.Term) {
			d := symFn("*s")
			return fNot(FTerm(models.RingEq(d, fnZero))), d, sym.Mul(d, models.G)
		}, 0},
		{"NewPublicKey", []string{"key"}, false, func() (*Formula, *sym.Term, *sym.Term) {
			p := sym.App(sym.Point, "sec1_decode", key)
			return fAnd(FTerm(sym.App(sym.Bool, "sec1_valid", key)), fNot(FTerm(models.IsIdentity(p, nil)))), nil, p
		}, -1},
		{"NewPublicKeyFromPoint", []string{"point"}, false, func() (*Formula, *sym.Term, *sym.Term) {
			p := symPt("*point")
			return fNot(FTerm(models.IsIdentity(p, nil))), nil, p
		}, 0},
	}
	for _, ct := range ctors {
		ct := ct
		r := RunFn(prog, protoSet(nil), models.SececPkg+"."+ct.name, &RunOpts{Args: named(ct.args...)})
		k := "ctor/" + ct.name
		if r.Fn == nil {
			c.R.Unknown("C10-3", k, "", "constructor not found")
			continue
		}
		pos := PosOf(prog, r.Fn)
		if p := runComplete(r); p != "" {
			c.R.Unknown("C10-3", k, pos, p)
			continue
		}
		bad := false
		for _, p := range r.Ex.Panics {
			// a zero-value Point argument is a caller error, reported by panic (C18)
			if strings.Contains(p.Msg, "uninitialized Point") {
				continue
			}
			c.R.Fail("C10-3", k+"/no-panic", PosStr(prog, p.Pos), fmt.Sprintf("a panic (%s) is reachable when {%s}", p.Msg, GuardString(p.Guard)))
			bad = true
		}
		if bad {
			continue
		}
		indexSafety(c, "C10-3", k, pos, r)
		acc, prob := acceptFormula(r, 1)
		if prob != "" {
			c.R.Unknown("C10-3", k, pos, prob)
			continue
		}
		spec, wantScalar, wantPoint := ct.spec()
		ok, detail := Equivalent(acc, spec)
		c.R.Decide(ok, "C10-3", k+"/accept", pos, "accepts exactly "+spec.String()+" ("+detail+")", "constructor accept set differs: "+detail)
		if nilRes, prob := nilFormula(r, 0); prob == "" {
			ok, detail := Equivalent(nilRes, fNot(acc))
			c.R.Decide(ok, "C10-3", k+"/nil-on-error", pos, "no key object is returned with an error", "returned key / error mismatch: "+detail)
		}
		vok, vdetail := true, ""
		for _, e := range r.Ex.Returns {
			e := e
			res := exitResult(e, 0)
			o, d := CheckUnder(fAnd(FGuard(e.Guard), acc), []absint.Val{res}, nil, func(asg map[*sym.Term]bool) string {
				var v keyView
				var prob string
				if ct.private {
					v, prob = viewPrivateKey(r, e.St, res, asg)
				} else {
					v, prob = viewPublicKey(r, e.St, res, asg)
				}
				if prob != "" {
					return prob
				}
				if ct.private {
					if v.scalar == nil || !sym.Equal(v.scalar, wantScalar) {
						return "stored scalar is " + absint.ValString(v.scalar)
					}
					if v.scalarPtr.Obj.Origin.Kind != "local" {
						return "the stored scalar object is the caller's (" + v.scalarPtr.Obj.Origin.Root + "), not a copy"
					}
				}
				if v.point == nil || !sym.Equal(v.point, wantPoint) {
					return "stored point is " + absint.ValString(v.point) + ", expected " + wantPoint.String()
				}
				if v.pointPtr.Obj.Origin.Kind != "local" {
					return "the stored point object is the caller's (" + v.pointPtr.Obj.Origin.Root + "), not a copy"
				}
				if !sym.Equal(v.pointBytes, uncompressedOf(wantPoint)) {
					return "cached encoding is " + v.pointBytes.String()
				}
				return ""
			})
			if !o && d != "the condition is unsatisfiable (vacuous)" {
				vok, vdetail = false, d
			}
		}
		c.R.Decide(vok, "C10-3", k+"/value", pos, "the key stores fresh copies: scalar d, point d*G (resp. the decoded / given point) and 04||x||y of that point", "constructed key differs: "+vdetail)
	}
	c.R.Floor("C10-3", 12)
}

// c10WhoWrites: objects of the given struct types are allocated / written only in the listed functions.
func c10WhoWrites(c *Ctx, prog *load.Program, rule, pkgPath string, allowed map[string][]string) {
	pkg := prog.ByPath[pkgPath]
	if pkg == nil {
		return
	}
	for _, tn := range SortedKeys(allowed) {
		obj := pkg.Types.Scope().Lookup(tn)
		if obj == nil {
			c.R.Unknown(rule, "who-writes/"+tn, "", "type not found")
			continue
		}
		T := obj.Type()
		ok := map[string]bool{}
		for _, a := range allowed[tn] {
			ok[a] = true
		}
		bad := ""
		sites := 0
		isT := func(t types.Type) bool {
			if p, isP := t.Underlying().(*types.Pointer); isP {
				t = p.Elem()
			}
			return types.Identical(t, T)
		}
		for _, fn := range ModuleFuncs(prog) {
			for _, b := range fn.Blocks {
				for _, in := range b.Instrs {
					hit := ""
					switch x := in.(type) {
					case *ssa.Alloc:
						if isT(x.Type()) {
							hit = "allocation"
						}
					case *ssa.Store:
						if fa, isFA := x.Addr.(*ssa.FieldAddr); isFA && isT(fa.X.Type()) {
							hit = "field store"
						} else if isT(x.Addr.Type()) {
							hit = "whole-object store"
						}
					case *ssa.MakeInterface:
						// conversions to interfaces do not write
					}
					if hit == "" {
						continue
					}
					sites++
					root := fn
					for root.Parent() != nil {
						root = root.Parent()
					}
					if !ok[root.String()] {
						// an unexported helper that is never used as a value and whose every call site lies in an admitted
						// writer (or another such helper) is part of that writer: what it stores is decided by the value rule
						// of each constructor that calls it, which interprets the constructor with the helper inlined
						if part, _ := onlyCalledFrom(prog, root, ok, 0); part {
							continue
						}
						bad = fmt.Sprintf("%s of %s in %s at %s", hit, tn, fn.String(), PosStr(prog, in.Pos()))
					}
				}
			}
		}
		c.R.Decide(bad == "" && sites > 0, rule, "who-writes/"+tn, "", fmt.Sprintf("%d allocation / store sites, all inside %v", sites, allowed[tn]), "a key object is created or written outside its constructor: "+bad)
	}
}

func c10Accessors(c *Ctx, prog *load.Program) {
	P := symPt("**k.point")
	enc := absint.SymBytes("*k.pointBytes", 65, 0)
	type acc struct {
		name  string
		typ   string
		check func(r *Run) string
	}
	freshSlice := func(r *Run, v absint.Val) string {
		sv, ok := v.(*absint.SliceVal)
		if !ok || sv.Base == nil {
			return "result is not a slice: " + absint.ValString(v)
		}
		if sv.Base.Obj.Origin.Kind != "local" {
			return "the returned slice aliases memory of the key (" + sv.Base.Obj.Origin.Root + ")"
		}
		return ""
	}
	freshPtr := func(v absint.Val) string {
		p, ok := v.(*absint.Ptr)
		if !ok {
			return "result is not a pointer: " + absint.ValString(v)
		}
		if p.Obj.Origin.Kind != "local" {
			return "the returned object is the key's own (" + p.Obj.Origin.Root + "), not a copy"
		}
		return ""
	}
	accs := []acc{
		{"Bytes", "PublicKey", func(r *Run) string {
			if m := freshSlice(r, r.Result(0)); m != "" {
				return m
			}
			if b := r.Ex.SliceBytes(r.Final(), r.Result(0)); !sym.Equal(b, enc) {
				return "Bytes() = " + b.String()
			}
			return ""
		}},
		{"CompressedBytes", "PublicKey", func(r *Run) string {
			if m := freshSlice(r, r.Result(0)); m != "" {
				return m
			}
			return ""
		}},
		{"Point", "PublicKey", func(r *Run) string {
			if m := freshPtr(r.Result(0)); m != "" {
				return m
			}
			if t := loadPtrTerm(r.Ex, r.Final(), r.Result(0)); t == nil || !sym.Equal(t, P) {
				return "Point() = " + absint.ValString(t)
			}
			return ""
		}},
		{"Bytes", "PrivateKey", func(r *Run) string {
			if m := freshSlice(r, r.Result(0)); m != "" {
				return m
			}
			if b := r.Ex.SliceBytes(r.Final(), r.Result(0)); !sym.Equal(b, models.ToBytes(sym.Fn, symFn("**k.scalar"))) {
				return "Bytes() = " + b.String()
			}
			return ""
		}},
		{"Scalar", "PrivateKey", func(r *Run) string {
			if m := freshPtr(r.Result(0)); m != "" {
				return m
			}
			if t := loadPtrTerm(r.Ex, r.Final(), r.Result(0)); t == nil || !sym.Equal(t, symFn("**k.scalar")) {
				return "Scalar() = " + absint.ValString(t)
			}
			return ""
		}},
	}
	for _, a := range accs {
		name := Method(models.SececPkg+"."+a.typ, a.name)
		r := RunFn(prog, protoSet(nil), name, &RunOpts{Args: named("k"), Config: func(cfg *absint.Config) { cfg.RecordStores = true }, Pre: func(ex *absint.Exec, st *absint.State, args []absint.Val) {
			if a.typ == "PublicKey" {
				// an initialised key: the cached encoding is a 65-byte string
				kp := args[0].(*absint.Ptr)
				ib := FieldIndex(prog, models.SececPkg, "PublicKey", "pointBytes")
				if arr := storeBytesField(ex, st, kp, prog, models.SececPkg, "PublicKey", ib, enc, "pointBytes"); arr != nil {
					arr.Base.Obj.Origin = absint.Origin{Kind: "param", Root: "k.pointBytes"}
				}
			}
		}})
		k := "accessor/" + a.typ + "." + a.name
		if r.Fn == nil {
			c.R.Unknown("C10-4", k, "", "accessor not found")
			continue
		}
		pos := PosOf(prog, r.Fn)
		if p := runComplete(r); p != "" || r.Out.Ret == nil {
			c.R.Unknown("C10-4", k, pos, p+" (or no return)")
			continue
		}
		msg := a.check(r)
		// no store into the key
		for _, e := range r.Ex.Events {
			if e.Kind == absint.EvStore && e.Ptr != nil && e.Ptr.Obj.Origin.Kind == "param" && e.Pos.IsValid() {
				msg = "writes the key object at " + PosStr(prog, e.Pos)
			}
		}
		c.R.Decide(msg == "", "C10-4", k, pos, "returns a fresh copy of the stored value and does not write the key", msg)
	}
	// CompressedBytes is derived from the cached uncompressed encoding of the stored point
	{
		name := Method(models.SececPkg+".PublicKey", "CompressedBytes")
		encP := uncompressedOf(P)
		r := RunFn(prog, protoSet(nil), name, &RunOpts{Args: named("k"), Pre: func(ex *absint.Exec, st *absint.State, args []absint.Val) {
			kp := args[0].(*absint.Ptr)
			ib := FieldIndex(prog, models.SececPkg, "PublicKey", "pointBytes")
			storeBytesField(ex, st, kp, prog, models.SececPkg, "PublicKey", ib, encP, "pointBytes")
		}})
		pos := PosOf(prog, r.Fn)
		if p := runComplete(r); p != "" || r.Out.Ret == nil {
			c.R.Unknown("C10-4", "CompressedBytes/value", pos, p)
		} else {
			got := r.Ex.SliceBytes(r.Final(), r.Result(0))
			odd := models.Odd(models.YCoord(P))
			ok, detail := CheckUnder(fOr(FTerm(odd), fNot(FTerm(odd))), nil, nil, func(asg map[*sym.Term]bool) string {
				pf := byte(2)
				if asg[sym.Canon(odd)] {
					pf = 3
				}
				want := absint.CatBytes(sym.ConstStr(sym.Bytes, string([]byte{pf})), models.ToBytes(sym.Fp, models.XCoord(P)))
				g := sym.Canon(ResolveIte(got, asg))
				if !sym.Equal(g, want) {
					return "CompressedBytes() = " + g.String() + ", expected " + want.String()
				}
				return ""
			})
			c.R.Decide(ok, "C10-4", "CompressedBytes/value", pos, "CompressedBytes = (2 + parity(y)) || x of the stored point ("+detail+")", "cached compressed form differs from the point's: "+detail)
		}
	}
	c.R.Floor("C10-4", 6)
}
