package rules

import (
	"fmt"

	"verif/internal/absint"
	"verif/internal/load"
	"verif/internal/models"
	"verif/internal/sym"
)

func init() { register("C11", "other", checkC11) }

// recoverSpec is the specification of RecoverPublicKey: accept formula and the recovered point.
func recoverSpec(h string, r, s, id *sym.Term) (*Formula, *sym.Term) {
	e := models.OfBytes(sym.Fn, absint.SubBytes(symBytes(h), sym.ConstI(0), sym.ConstI(32)))
	rc := sym.Canon(r)
	R := sym.App(sym.Point, "recover_point", rc, id)
	rInv := models.Inv(r)
	u1, u2 := sym.Mul(sym.Neg(e), rInv), sym.Mul(s, rInv)
	Q := sym.Add(sym.Mul(u1, models.G), sym.Mul(u2, R))
	f := fAnd(
		fNot(FTerm(models.RingEq(r, fnZero))),
		fNot(FTerm(models.RingEq(s, fnZero))),
		FTerm(sym.App(sym.Bool, "recover_ok", rc, id)),
		fNot(FTerm(absint.Lt(symLen(h), sym.ConstI(32)))),
		fNot(FTerm(models.IsIdentity(Q, nil))),
	)
	return f, Q
}

func checkC11(c *Ctx) {
	prog := c.Prog(load.AMD64)
	// "for a signature produced by Sign the emitted id recovers the signer": the id formula of sign (rule C08-1)
	c08Sign(c, prog)
	// "ids outside [0,3] are errors", "no other id does": the recoverable encoding hands the id byte on unchanged (rule
	// C12-2) and Verify compares the recovered key with the verifier's (rule C07-3)
	c12Compact(c, prog)
	c07Options(c, prog)
	name := models.SececPkg + ".RecoverPublicKey"
	r := RunFn(prog, protoSet(nil), name, &RunOpts{Args: named("h", "r", "s", "id")})
	if r.Fn == nil {
		c.R.Unknown("C11-1", "RecoverPublicKey", "", "function not found")
		return
	}
	pos := PosOf(prog, r.Fn)
	id := sym.Sym(sym.Int, "id")
	spec, Q := recoverSpec("h", symFn("*r"), symFn("*s"), id)
	if p := runComplete(r); p != "" {
		c.R.Unknown("C11-1", "RecoverPublicKey", pos, p)
		return
	}
	for _, p := range r.Ex.Panics {
		c.R.Fail("C11-1", "RecoverPublicKey/no-panic", PosStr(prog, p.Pos), fmt.Sprintf("a panic (%s) is reachable when {%s}", p.Msg, GuardString(p.Guard)))
	}
	indexSafety(c, "C11-1", "RecoverPublicKey", pos, r)
	acc, prob := acceptFormula(r, 1)
	if prob != "" {
		c.R.Unknown("C11-1", "RecoverPublicKey", pos, prob)
		return
	}
	ok, detail := Equivalent(acc, spec)
	c.R.Decide(ok, "C11-1", "RecoverPublicKey/accept", pos, "a key is returned exactly when r,s != 0, RecoverPoint(r,id) succeeds, len(h) >= 32 and Q is not the identity ("+detail+")", "accept set differs from the specification: "+detail)
	nilRes, prob := nilFormula(r, 0)
	if prob == "" {
		ok, detail := Equivalent(nilRes, fNot(acc))
		c.R.Decide(ok, "C11-1", "RecoverPublicKey/nil-on-error", pos, "no key object is returned with an error", "returned key / error mismatch: "+detail)
	}
	// value: Q = (-e/r)*G + (s/r)*R, and the cached encoding is that of Q
	vok, vdetail := true, ""
	n := 0
	for _, e := range r.Ex.Returns {
		for _, pk := range c06Pointers(exitResult(e, 0)) {
			n++
			ptV := fieldVal(r.Ex, e.St, pk, prog, models.SececPkg, "PublicKey", "point")
			pbV := bytesField(r.Ex, e.St, pk, prog, models.SececPkg, "PublicKey", "pointBytes")
			wantEnc := absint.CatBytes(sym.ConstStr(sym.Bytes, "\x04"), models.ToBytes(sym.Fp, models.XCoord(Q)), models.ToBytes(sym.Fp, models.YCoord(Q)))
			e := e
			o, d := CheckUnder(fAnd(FGuard(e.Guard), acc), []absint.Val{ptV, pbV}, nil, func(asg map[*sym.Term]bool) string {
				qt := loadPtrTerm(r.Ex, e.St, resolveChoice(ptV, asg))
				if qt == nil || !sym.Equal(ResolveIte(qt, asg), Q) {
					return "the key holds " + absint.ValString(qt)
				}
				enc := bytesUnder(r.Ex, e.St, resolveChoice(pbV, asg), asg)
				if !sym.Equal(enc, wantEnc) {
					return "the cached encoding is " + enc.String()
				}
				return ""
			})
			if !o {
				vok, vdetail = false, d
			}
		}
	}
	c.R.Decide(vok && n > 0, "C11-1", "RecoverPublicKey/value", pos, "Q = (-e/r)*G + (s/r)*R with e = leftmost 32 bytes of the digest mod n; cached encoding = 04 || x(Q) || y(Q)", "recovered key differs from r^-1(sR - eG): "+vdetail)
	// control: the sign of e
	{
		e := models.OfBytes(sym.Fn, absint.SubBytes(symBytes("h"), sym.ConstI(0), sym.ConstI(32)))
		R := sym.App(sym.Point, "recover_point", symFn("*r"), id)
		rInv := models.Inv(symFn("*r"))
		wrongQ := sym.Add(sym.Mul(sym.Mul(e, rInv), models.G), sym.Mul(sym.Mul(symFn("*s"), rInv), R))
		c.R.ControlResult("C11-1", "positive-e", "Q computed with +e must differ", !sym.Equal(wrongQ, Q))
	}
	c.R.Floor("C11-1", 3)
	// the reconstruction of R from (r, id) is part of this property: same rule as C06-5
	c06Consts(c, prog)
	c06Recover(c, prog, pointFields(prog))
	c.R.Explanation = "RecoverPublicKey is abstractly interpreted against the scalar-ring and point-module specifications with RecoverPoint replaced by its specification (decided by rule C06-5, which this check runs as well: id < 4, x = r (+n), overflow/reduction consistency, x on the curve, parity = bit 0): the set of inputs for which a key is returned is equivalent to {r != 0, s != 0, RecoverPoint succeeds, len(h) >= 32, Q != identity}; on those inputs the returned key holds Q = (-e/r)*G + (s/r)*R and its cached encoding; no key object accompanies an error; the defensive panic is unreachable because RecoverPoint never returns the identity."
	c.R.Assumptions = []string{"C06-5 (RecoverPoint)", "C16 (DoubleScalarMultBasepointVartime)", "C02 (scalar ring)", "C10 (public-key constructor)", "that every returned Q verifies (r,s) is the algebraic consequence Q = r^-1(sR - eG) <=> R = (e/s)G + (r/s)Q, not separately computed"}
}
