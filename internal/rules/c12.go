package rules

import (
	"fmt"

	"verif/internal/absint"
	"verif/internal/load"
	"verif/internal/models"
	"verif/internal/sym"
)

func init() { register("C12", "other", checkC12) }

func checkC12(c *Ctx) {
	prog := c.Prog(load.AMD64)
	c12BIP66(c, prog)
	c12Compact(c, prog)
}

// bip66Spec is the BIP-66 reference predicate (IsValidSignatureEncoding of the BIP) over a symbolic byte string.
func bip66Spec(data, L *sym.Term) *Formula {
	B := func(i *sym.Term) *sym.Term { return absint.ByteAt(data, i) }
	k := sym.ConstI
	lenR := B(k(3))
	lenS := B(sym.Add(k(5), lenR))
	hi := func(b *sym.Term) *Formula { return fNot(FTerm(sym.Eq(absint.IntOp("and", 8, b, k(0x80)), k(0)))) } // b & 0x80 != 0
	eq := func(a, b *sym.Term) *Formula { return FTerm(sym.Eq(a, b)) }
	lt := func(a, b *sym.Term) *Formula { return FTerm(absint.Lt(a, b)) }
	reject := fOr(
		lt(L, k(9)),
		lt(k(73), L),
		fNot(eq(B(k(0)), k(0x30))),
		fNot(eq(B(k(1)), sym.Add(L, k(-3)))),
		fNot(lt(sym.Add(k(5), lenR), L)),
		fNot(eq(sym.Add(sym.Add(lenR, lenS), k(7)), L)),
		fNot(eq(B(k(2)), k(2))),
		eq(lenR, k(0)),
		hi(B(k(4))),
		fAnd(lt(k(1), lenR), eq(B(k(4)), k(0)), fNot(hi(B(k(5))))),
		fNot(eq(B(sym.Add(lenR, k(4))), k(2))),
		eq(lenS, k(0)),
		hi(B(sym.Add(lenR, k(6)))),
		fAnd(lt(k(1), lenS), eq(B(sym.Add(lenR, k(6))), k(0)), fNot(hi(B(sym.Add(lenR, k(7)))))),
	)
	return fNot(reject)
}

func c12BIP66(c *Ctx, prog *load.Program) {
	name := models.BitcoinPkg + ".IsValidSignatureEncodingBIP0066"
	r := RunFn(prog, protoSet(nil), name, &RunOpts{Args: named("d")})
	if r.Fn == nil {
		c.R.Unknown("C12-3", "bip66", "", "IsValidSignatureEncodingBIP0066 not found")
		return
	}
	pos := PosOf(prog, r.Fn)
	if p := runComplete(r); p != "" {
		c.R.Unknown("C12-3", "bip66", pos, p)
		return
	}
	for _, p := range r.Ex.Panics {
		c.R.Fail("C12-6", "bip66/no-panic", PosStr(prog, p.Pos), fmt.Sprintf("a panic (%s) is reachable when {%s}", p.Msg, GuardString(p.Guard)))
	}
	var parts []*Formula
	for _, e := range r.Ex.Returns {
		t, ok := exitResult(e, 0).(*sym.Term)
		if !ok {
			c.R.Unknown("C12-3", "bip66", pos, "boolean result is not a term")
			return
		}
		parts = append(parts, fAnd(FGuard(e.Guard), FTerm(e.St.Simplify(t))))
	}
	code := fOr(parts...)
	spec := bip66Spec(symBytes("d"), symLen("d"))
	ok, detail := Equivalent(code, spec)
	c.R.Decide(ok, "C12-3", "bip66/predicate", pos, "the predicate is true exactly for the byte strings of the BIP-66 grammar (14 rejection rules of the BIP's reference, compared as a propositional normal form; "+detail+")", "the predicate differs from the BIP-66 reference: "+detail)
	// control: the reference with the upper length bound 72 must be told apart
	{
		d, L := symBytes("d"), symLen("d")
		wrong := fAnd(spec, fNot(FTerm(absint.Lt(sym.ConstI(72), L))))
		_ = d
		okc, _ := Equivalent(code, wrong)
		c.R.ControlResult("C12-3", "max-length-72", "a reference limited to 72 bytes must not be equivalent to the code", !okc)
	}
	// index safety: every data[i] is in bounds given the checks that dominate it
	n, fpos, fmsg := checkBounds(r)
	c.R.Decide(fmsg == "" && n >= 8, "C12-6", "bip66/index-safety", pos, fmt.Sprintf("%d symbolic index expressions proven in bounds from the dominating length / header checks (linear entailment)", n), "an index may be out of range at "+fpos+": "+fmsg)
	c.R.Floor("C12-3", 1)
}

func c12Compact(c *Ctx, prog *load.Program) {
	type pc struct {
		name string
		n    int64
		errI int
	}
	for _, p := range []pc{{"ParseCompactSignature", 64, 2}, {"ParseCompactRecoverableSignature", 65, 3}} {
		r := RunFn(prog, protoSet(nil), models.SececPkg+"."+p.name, &RunOpts{Args: named("d")})
		key := "parse/" + p.name
		if r.Fn == nil {
			c.R.Unknown("C12-2", key, "", "function not found")
			continue
		}
		pos := PosOf(prog, r.Fn)
		if pr := runComplete(r); pr != "" {
			c.R.Unknown("C12-2", key, pos, pr)
			continue
		}
		for _, pn := range r.Ex.Panics {
			c.R.Fail("C12-6", key+"/no-panic", PosStr(prog, pn.Pos), fmt.Sprintf("a panic (%s) is reachable when {%s}", pn.Msg, GuardString(pn.Guard)))
		}
		acc, prob := acceptFormula(r, p.errI)
		if prob != "" {
			c.R.Unknown("C12-2", key, pos, prob)
			continue
		}
		d := symBytes("d")
		rb, sb := absint.SubBytes(d, sym.ConstI(0), sym.ConstI(32)), absint.SubBytes(d, sym.ConstI(32), sym.ConstI(64))
		rr, ss := models.OfBytes(sym.Fn, rb), models.OfBytes(sym.Fn, sb)
		spec := fAnd(FTerm(sym.Eq(symLen("d"), sym.ConstI(p.n))), fNot(FTerm(models.GeModulus(sym.Fn, rb))), fNot(FTerm(models.RingEq(rr, fnZero))),
			fNot(FTerm(models.GeModulus(sym.Fn, sb))), fNot(FTerm(models.RingEq(ss, fnZero))))
		ok, detail := Equivalent(acc, spec)
		c.R.Decide(ok, "C12-2", key+"/accept", pos, fmt.Sprintf("accepts exactly %d-byte strings whose halves are canonical non-zero scalars (%s)", p.n, detail), "accept set differs: "+detail)
		// values
		vok, vdetail := true, ""
		for _, e := range r.Ex.Returns {
			e := e
			res := e.St.Resolve(e.Results).(absint.Tuple)
			o, dd := CheckUnder(fAnd(FGuard(e.Guard), acc), []absint.Val{res[0], res[1]}, nil, func(asg map[*sym.Term]bool) string {
				gr := loadPtrTerm(r.Ex, e.St, resolveChoice(res[0], asg))
				gs := loadPtrTerm(r.Ex, e.St, resolveChoice(res[1], asg))
				if gr == nil || gs == nil || !sym.Equal(ResolveIte(gr, asg), rr) || !sym.Equal(ResolveIte(gs, asg), ss) {
					return "(r, s) = (" + absint.ValString(gr) + ", " + absint.ValString(gs) + ")"
				}
				if p.errI == 3 {
					v, _ := e.St.Resolve(res[2]).(*sym.Term)
					if v == nil || !sym.Equal(ResolveIte(v, asg), absint.ByteAt(d, sym.ConstI(64))) {
						return "v = " + absint.ValString(v)
					}
				}
				return ""
			})
			if !o && dd != "the condition is unsatisfiable (vacuous)" {
				vok, vdetail = false, dd
			}
		}
		c.R.Decide(vok, "C12-2", key+"/value", pos, "r = d[0:32], s = d[32:64] (v = d[64]) decoded canonically", "parsed values differ: "+vdetail)
		n, fpos, fmsg := checkBounds(r)
		c.R.Decide(fmsg == "", "C12-6", key+"/index-safety", pos, fmt.Sprintf("%d bounds checks proven from the length test", n), "a slice / conversion may be out of range at "+fpos+": "+fmsg)
	}
	c.R.Floor("C12-2", 4)
}
