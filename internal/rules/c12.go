package rules

import (
	"fmt"
	"go/types"

	"golang.org/x/tools/go/ssa"

	"verif/internal/absint"
	"verif/internal/load"
	"verif/internal/models"
	"verif/internal/sym"
)

func init() { register("C12", "other", checkC12) }

func checkC12(c *Ctx) {
	prog := c.Prog(load.AMD64)
	c12ASN1Signature(c, prog)
	c12BytesToScalar(c, prog)
	c12Compact(c, prog)
	c12BIP66(c, prog)
	c12Builders(c, prog)
	c12ASN1PublicKey(c, prog)
	// the Bitcoin entry point strips the sighash byte itself: its envelope and bounds are this property's subject too
	c07Bitcoin(c, prog)
	c.R.Explanation = "Parsers and builders are abstractly interpreted against a specification of cryptobyte's strict-DER reader (element kind K read from s: succeeds iff K_ok(s), yields K_val(s), leaves rest(K,s)). ParseASN1Signature accepts exactly: one SEQUENCE, nothing after it, two INTEGERs read in the minimal non-negative []byte form, nothing after them, each converted by bytesToCanonicalScalar (validated for every length 0..32 and > 32: zero-extension on the left, canonical decode) and non-zero. The compact parsers accept exactly 64/65-byte strings with canonical non-zero halves and return d[0:32], d[32:64], d[64]. The BIP-66 predicate, extracted from the control-flow graph as a propositional formula over 18 atoms, is equivalent to the BIP's reference predicate (14 rejection rules); every data[i] in it and every slice / slice-to-array conversion in the parsers is proven in bounds from the dominating checks by linear entailment (Fourier-Motzkin). Builders emit SEQUENCE{INTEGER(OS2IP(Bytes r)), INTEGER(OS2IP(Bytes s))}, Bytes(r)||Bytes(s)[||v] and SEQUENCE{SEQUENCE{1.2.840.10045.2.1, 1.3.132.0.10}, BIT STRING(uncompressed bytes)}, i.e. what the parsers accept. ParseASN1PublicKey accepts exactly the strict SubjectPublicKeyInfo structure with both OIDs, a BIT STRING without unused bits, and a valid SEC 1 key (C10/C06); no panic is reachable in any parser."
	c.R.Assumptions = []string{"x/crypto v0.11.0 cryptobyte reads strict DER as documented (definite minimal lengths; ReadASN1Integer into []byte = minimal non-negative magnitude; BIT STRING padding bits zero); AddASN1BigInt emits the minimal INTEGER", "C02 (canonical scalar decode), C10 / C06 (NewPublicKey)", "panics inside the standard library / x/crypto are not analysed"}
}

// bip66Spec is the BIP-66 reference predicate (IsValidSignatureEncoding of the BIP) over a symbolic byte string.
func bip66Spec(data, L *sym.Term) *Formula {
	B := func(i *sym.Term) *sym.Term { return absint.ByteAt(data, i) }
	k := sym.ConstI
	lenR := B(k(3))
	lenS := B(sym.Add(k(5), lenR))
	hi := func(b *sym.Term) *Formula { return fNot(FTerm(sym.Eq(absint.IntOp("and", 8, b, k(0x80)), k(0)))) } // b & 0x80 != 0
	eq := func(a, b *sym.Term) *Formula { return FTerm(sym.Eq(a, b)) }
	lt := func(a, b *sym.Term) *Formula { return FTerm(absint.Lt(a, b)) }
	reject := fOr(
		lt(L, k(9)),
		lt(k(73), L),
		fNot(eq(B(k(0)), k(0x30))),
		fNot(eq(B(k(1)), sym.Add(L, k(-3)))),
		fNot(lt(sym.Add(k(5), lenR), L)),
		fNot(eq(sym.Add(sym.Add(lenR, lenS), k(7)), L)),
		fNot(eq(B(k(2)), k(2))),
		eq(lenR, k(0)),
		hi(B(k(4))),
		fAnd(lt(k(1), lenR), eq(B(k(4)), k(0)), fNot(hi(B(k(5))))),
		fNot(eq(B(sym.Add(lenR, k(4))), k(2))),
		eq(lenS, k(0)),
		hi(B(sym.Add(lenR, k(6)))),
		fAnd(lt(k(1), lenS), eq(B(sym.Add(lenR, k(6))), k(0)), fNot(hi(B(sym.Add(lenR, k(7)))))),
	)
	return fNot(reject)
}

func c12BIP66(c *Ctx, prog *load.Program) {
	name := models.BitcoinPkg + ".IsValidSignatureEncodingBIP0066"
	r := RunFn(prog, protoSet(nil), name, &RunOpts{Args: named("d")})
	if r.Fn == nil {
		c.R.Unknown("C12-3", "bip66", "", "IsValidSignatureEncodingBIP0066 not found")
		return
	}
	pos := PosOf(prog, r.Fn)
	if p := runComplete(r); p != "" {
		c.R.Unknown("C12-3", "bip66", pos, p)
		return
	}
	for _, p := range r.Ex.Panics {
		c.R.Fail("C12-6", "bip66/no-panic", PosStr(prog, p.Pos), fmt.Sprintf("a panic (%s) is reachable when {%s}", p.Msg, GuardString(p.Guard)))
	}
	var parts []*Formula
	for _, e := range r.Ex.Returns {
		t, ok := exitResult(e, 0).(*sym.Term)
		if !ok {
			c.R.Unknown("C12-3", "bip66", pos, "boolean result is not a term")
			return
		}
		parts = append(parts, fAnd(FGuard(e.Guard), FTerm(e.St.Simplify(t))))
	}
	code := fOr(parts...)
	spec := bip66Spec(symBytes("d"), symLen("d"))
	ok, detail := Equivalent(code, spec)
	c.R.Decide(ok, "C12-3", "bip66/predicate", pos, "the predicate is true exactly for the byte strings of the BIP-66 grammar (14 rejection rules of the BIP's reference, compared as a propositional normal form; "+detail+")", "the predicate differs from the BIP-66 reference: "+detail)
	// control: the reference with the upper length bound 72 must be told apart
	{
		d, L := symBytes("d"), symLen("d")
		wrong := fAnd(spec, fNot(FTerm(absint.Lt(sym.ConstI(72), L))))
		_ = d
		okc, _ := Equivalent(code, wrong)
		c.R.ControlResult("C12-3", "max-length-72", "a reference limited to 72 bytes must not be equivalent to the code", !okc)
	}
	// index safety: every data[i] is in bounds given the checks that dominate it
	n, fpos, fmsg := checkBounds(r)
	c.R.Decide(fmsg == "" && n >= 8, "C12-6", "bip66/index-safety", pos, fmt.Sprintf("%d symbolic index expressions proven in bounds from the dominating length / header checks (linear entailment)", n), "an index may be out of range at "+fpos+": "+fmsg)
	c.R.Floor("C12-3", 1)
}

func c12Compact(c *Ctx, prog *load.Program) {
	type pc struct {
		name string
		n    int64
		errI int
	}
	for _, p := range []pc{{"ParseCompactSignature", 64, 2}, {"ParseCompactRecoverableSignature", 65, 3}} {
		r := RunFn(prog, protoSet(nil), models.SececPkg+"."+p.name, &RunOpts{Args: named("d")})
		key := "parse/" + p.name
		if r.Fn == nil {
			c.R.Unknown("C12-2", key, "", "function not found")
			continue
		}
		pos := PosOf(prog, r.Fn)
		if pr := runComplete(r); pr != "" {
			c.R.Unknown("C12-2", key, pos, pr)
			continue
		}
		for _, pn := range r.Ex.Panics {
			c.R.Fail("C12-6", key+"/no-panic", PosStr(prog, pn.Pos), fmt.Sprintf("a panic (%s) is reachable when {%s}", pn.Msg, GuardString(pn.Guard)))
		}
		acc, prob := acceptFormula(r, p.errI)
		if prob != "" {
			c.R.Unknown("C12-2", key, pos, prob)
			continue
		}
		d := symBytes("d")
		rb, sb := absint.SubBytes(d, sym.ConstI(0), sym.ConstI(32)), absint.SubBytes(d, sym.ConstI(32), sym.ConstI(64))
		rr, ss := models.OfBytes(sym.Fn, rb), models.OfBytes(sym.Fn, sb)
		spec := fAnd(FTerm(sym.Eq(symLen("d"), sym.ConstI(p.n))), fNot(FTerm(models.GeModulus(sym.Fn, rb))), fNot(FTerm(models.RingEq(rr, fnZero))),
			fNot(FTerm(models.GeModulus(sym.Fn, sb))), fNot(FTerm(models.RingEq(ss, fnZero))))
		ok, detail := Equivalent(acc, spec)
		c.R.Decide(ok, "C12-2", key+"/accept", pos, fmt.Sprintf("accepts exactly %d-byte strings whose halves are canonical non-zero scalars (%s)", p.n, detail), "accept set differs: "+detail)
		// values
		vok, vdetail := true, ""
		for _, e := range r.Ex.Returns {
			e := e
			res := e.St.Resolve(e.Results).(absint.Tuple)
			o, dd := CheckUnder(fAnd(FGuard(e.Guard), acc), []absint.Val{res[0], res[1]}, nil, func(asg map[*sym.Term]bool) string {
				gr := loadPtrTerm(r.Ex, e.St, resolveChoice(res[0], asg))
				gs := loadPtrTerm(r.Ex, e.St, resolveChoice(res[1], asg))
				if gr == nil || gs == nil || !sym.Equal(ResolveIte(gr, asg), rr) || !sym.Equal(ResolveIte(gs, asg), ss) {
					return "(r, s) = (" + absint.ValString(gr) + ", " + absint.ValString(gs) + ")"
				}
				if p.errI == 3 {
					v, _ := e.St.Resolve(res[2]).(*sym.Term)
					if v == nil || !sym.Equal(ResolveIte(v, asg), absint.ByteAt(d, sym.ConstI(64))) {
						return "v = " + absint.ValString(v)
					}
				}
				return ""
			})
			if !o && dd != "the condition is unsatisfiable (vacuous)" {
				vok, vdetail = false, dd
			}
		}
		c.R.Decide(vok, "C12-2", key+"/value", pos, "r = d[0:32], s = d[32:64] (v = d[64]) decoded canonically", "parsed values differ: "+vdetail)
		n, fpos, fmsg := checkBounds(r)
		c.R.Decide(fmsg == "", "C12-6", key+"/index-safety", pos, fmt.Sprintf("%d bounds checks proven from the length test", n), "a slice / conversion may be out of range at "+fpos+": "+fmsg)
	}
	c.R.Floor("C12-2", 4)
}

func asn1Set() *models.Set { return protoSet(nil).Merge(models.ASN1()) }

// b2sHelper locates the routine that converts the contents of a DER INTEGER to a scalar: the function of package secec
// that ParseASN1Signature calls with a byte slice and that returns a scalar first (bytesToCanonicalScalar on the reference
// tree; a renamed or re-shaped helper is found the same way).
func b2sHelper(prog *load.Program) *ssa.Function {
	if fn := absint.FindFunc(prog.SSA, models.SececPkg+".bytesToCanonicalScalar"); fn != nil {
		return fn
	}
	parser := absint.FindFunc(prog.SSA, models.SececPkg+".ParseASN1Signature")
	if parser == nil {
		return nil
	}
	var found *ssa.Function
	for _, b := range parser.Blocks {
		for _, in := range b.Instrs {
			call, ok := in.(ssa.CallInstruction)
			if !ok {
				continue
			}
			g := call.Common().StaticCallee()
			if g == nil || g.Pkg == nil || g.Pkg.Pkg.Path() != models.SececPkg || len(g.Params) != 1 || !isByteSlice(g.Params[0].Type()) {
				continue
			}
			res := g.Signature.Results()
			if res.Len() == 0 || namedOf(res.At(0).Type()) != models.ScalarType {
				continue
			}
			if found != nil && found != g {
				return nil
			}
			found = g
		}
	}
	return found
}

type b2sInfo struct {
	fn          *ssa.Function
	rejectsZero bool // the helper itself rejects the value 0 (the zero test folded into it)
	good        bool
	detail      string
}

var b2sMemo = map[*load.Program]*b2sInfo{}

// b2sModel replaces the INTEGER-to-scalar helper by its specification (validated per length by c12BytesToScalar).
func b2sModel(set *models.Set, prog *load.Program) {
	info := b2sAnalyse(prog)
	if info.fn == nil {
		return
	}
	rejectsZero := info.rejectsZero
	set.Intercepts[info.fn.String()] = func(ex *absint.Exec, cc *absint.CallCtx) (absint.Val, bool) {
		b := ex.SliceBytes(cc.St, cc.Args[0])
		ok := sym.App(sym.Bool, "b2s_ok", b)
		val := sym.App(sym.Fn, "b2s", b)
		if rejectsZero {
			ok = sym.Ite(ok, sym.Not(models.RingEq(val, fnZero)), sym.ConstBool(false))
		}
		sc := ex.AllocAbs(models.ScalarType, models.Mod, "Scalar", val)
		obj := absint.MergeVal(ok, sc, absint.Nil{})
		// the success indicator follows the routine's signature: error, bool, or the nil-able object alone
		if cc.Fn != nil {
			res := cc.Fn.Signature.Results()
			if res.Len() == 1 {
				return obj, true
			}
			if res.Len() == 2 {
				if b, isB := res.At(1).Type().Underlying().(*types.Basic); isB && b.Kind() == types.Bool {
					return absint.Tuple{obj, ok}, true
				}
			}
		}
		errv := &absint.Iface{Opaque: sym.Sym(sym.Any, "err:b2s"), NonNil: true}
		return absint.Tuple{obj, absint.MergeVal(ok, &absint.Iface{}, errv)}, true
	}
}

// derSeq describes the reads of SEQUENCE { ... } from a top-level string.
type derReader struct{ cur *sym.Term }

func (d *derReader) tlv(tag int64) (ok, body *sym.Term) {
	t := sym.ConstI(tag)
	ok = sym.App(sym.Bool, "der_ok", t, d.cur)
	body = sym.App(sym.Bytes, "der_body", t, d.cur)
	d.cur = sym.App(sym.Bytes, "der_rest", t, d.cur)
	return
}
func (d *derReader) integer() (ok, val *sym.Term) {
	ok = sym.App(sym.Bool, "der_int_ok", d.cur)
	val = sym.App(sym.Bytes, "der_int_bytes", d.cur)
	d.cur = sym.App(sym.Bytes, "der_rest", sym.ConstI(2), d.cur)
	return
}
func (d *derReader) oid() (ok, val *sym.Term) {
	ok = sym.App(sym.Bool, "der_oid_ok", d.cur)
	val = sym.App(sym.Any, "der_oid", d.cur)
	d.cur = sym.App(sym.Bytes, "der_rest", sym.ConstI(6), d.cur)
	return
}
func (d *derReader) bits() (ok, bytes, bitlen *sym.Term) {
	ok = sym.App(sym.Bool, "der_bits_ok", d.cur)
	bytes = sym.App(sym.Bytes, "der_bits_bytes", d.cur)
	bitlen = sym.App(sym.Int, "der_bits_len", d.cur)
	d.cur = sym.App(sym.Bytes, "der_rest", sym.ConstI(3), d.cur)
	return
}
func (d *derReader) empty() *sym.Term { return sym.App(sym.Bool, "is_empty", d.cur) }

func c12ASN1Signature(c *Ctx, prog *load.Program) {
	set := asn1Set()
	b2sModel(set, prog)
	name := models.SececPkg + ".ParseASN1Signature"
	r := RunFn(prog, set, name, &RunOpts{Args: named("d")})
	if r.Fn == nil {
		c.R.Unknown("C12-1", "ParseASN1Signature", "", "function not found")
		return
	}
	pos := PosOf(prog, r.Fn)
	if p := runComplete(r); p != "" {
		c.R.Unknown("C12-1", "ParseASN1Signature", pos, p)
		return
	}
	for _, pn := range r.Ex.Panics {
		c.R.Fail("C12-6", "ParseASN1Signature/no-panic", PosStr(prog, pn.Pos), fmt.Sprintf("a panic (%s) is reachable when {%s}", pn.Msg, GuardString(pn.Guard)))
	}
	acc, prob := acceptFormula(r, 2)
	if prob != "" {
		c.R.Unknown("C12-1", "ParseASN1Signature", pos, prob)
		return
	}
	top := &derReader{cur: symBytes("d")}
	okSeq, body := top.tlv(0x30)
	in := &derReader{cur: body}
	okR, rB := in.integer()
	okS, sB := in.integer()
	rr, ss := sym.App(sym.Fn, "b2s", rB), sym.App(sym.Fn, "b2s", sB)
	spec := fAnd(FTerm(okSeq), FTerm(top.empty()), FTerm(okR), FTerm(okS), FTerm(in.empty()),
		FTerm(sym.App(sym.Bool, "b2s_ok", rB)), fNot(FTerm(models.RingEq(rr, fnZero))),
		FTerm(sym.App(sym.Bool, "b2s_ok", sB)), fNot(FTerm(models.RingEq(ss, fnZero))))
	ok, detail := Equivalent(acc, spec)
	c.R.Decide(ok, "C12-1", "ParseASN1Signature/accept", pos, "accepts exactly: one SEQUENCE, nothing after it, two minimal non-negative INTEGERs, nothing after them, each a canonical non-zero scalar of 1..32 bytes ("+detail+")", "accept set differs from strict DER SEQUENCE{INTEGER r, INTEGER s}: "+detail)
	vok, vdetail := true, ""
	for _, e := range r.Ex.Returns {
		e := e
		res := e.St.Resolve(e.Results).(absint.Tuple)
		o, dd := CheckUnder(fAnd(FGuard(e.Guard), acc), []absint.Val{res[0], res[1]}, nil, func(asg map[*sym.Term]bool) string {
			gr := loadPtrTerm(r.Ex, e.St, resolveChoice(res[0], asg))
			gs := loadPtrTerm(r.Ex, e.St, resolveChoice(res[1], asg))
			if gr == nil || gs == nil || !sym.Equal(ResolveIte(gr, asg), rr) || !sym.Equal(ResolveIte(gs, asg), ss) {
				return "(r, s) = (" + absint.ValString(gr) + ", " + absint.ValString(gs) + ")"
			}
			return ""
		})
		if !o && dd != "the condition is unsatisfiable (vacuous)" {
			vok, vdetail = false, dd
		}
	}
	c.R.Decide(vok, "C12-1", "ParseASN1Signature/value", pos, "r, s are the scalars of the first and second INTEGER", "parsed values differ: "+vdetail)
	// control
	noTrail := fAnd(FTerm(okSeq), FTerm(okR), FTerm(okS), FTerm(in.empty()), FTerm(sym.App(sym.Bool, "b2s_ok", rB)), fNot(FTerm(models.RingEq(rr, fnZero))), FTerm(sym.App(sym.Bool, "b2s_ok", sB)), fNot(FTerm(models.RingEq(ss, fnZero))))
	okc, _ := Equivalent(acc, noTrail)
	c.R.ControlResult("C12-1", "trailing-bytes-allowed", "a grammar that allows bytes after the SEQUENCE must not be equivalent", !okc)
	c.R.Floor("C12-1", 2)
}

// c12BytesToScalar validates the specification of the INTEGER-to-scalar helper for every length.
func c12BytesToScalar(c *Ctx, prog *load.Program) {
	info := b2sAnalyse(prog)
	if info.fn == nil {
		c.R.Unknown("C12-1", "bytesToCanonicalScalar", "", "function not found")
		return
	}
	okText := "for every length: 1..32 bytes are zero-extended on the left and decoded canonically (rejected iff >= n); 0 and > 32 bytes are rejected"
	if info.rejectsZero {
		okText += "; the value 0 is rejected by the helper itself"
	}
	c.R.Decide(info.good, "C12-1", "bytesToCanonicalScalar", PosOf(prog, info.fn), okText, info.detail)
}

func b2sAnalyse(prog *load.Program) *b2sInfo {
	if info, ok := b2sMemo[prog]; ok {
		return info
	}
	info := &b2sInfo{fn: b2sHelper(prog), good: true}
	b2sMemo[prog] = info
	fn := info.fn
	if fn == nil {
		info.good = false
		return info
	}
	name := fn.String()
	good := true
	detail := ""
	mode := 0 // 1: accepts every canonical value, 2: accepts the canonical non-zero values
	for L := 0; L <= 33; L++ {
		b := absint.SymBytes("b", L, 0)
		r := RunFn(prog, protoSet(nil), name, &RunOpts{Args: named("b"), Pre: func(ex *absint.Exec, st *absint.State, args []absint.Val) {
			if L == 33 {
				st.Assume(absint.Lt(sym.ConstI(32), symLen("b")), true, "more than 32 bytes")
				return
			}
			args[0] = ex.BytesToSlice(st, b, "b")
		}})
		if p := runComplete(r); p != "" || len(r.Ex.Panics) > 0 {
			good, detail = false, fmt.Sprintf("length %d: %s %v", L, p, len(r.Ex.Panics))
			break
		}
		acc, prob := successFormula(r)
		if prob != "" {
			good, detail = false, prob
			break
		}
		if L == 0 || L == 33 {
			if ok, d := Equivalent(fAnd(acc, FTerm(absint.Lt(sym.ConstI(32), symLen("b")))), fConst(false)); L == 33 && !ok {
				good, detail = false, "a string longer than 32 bytes can be accepted: "+d
			}
			if ok, d := Equivalent(acc, fConst(false)); L == 0 && !ok {
				good, detail = false, "the empty string can be accepted: "+d
			}
			continue
		}
		padded := absint.CatBytes(sym.ConstStr(sym.Bytes, string(make([]byte, 32-L))), b)
		want := models.OfBytes(sym.Fn, padded)
		canonical := fNot(FTerm(models.GeModulus(sym.Fn, padded)))
		ok, d := Equivalent(acc, canonical)
		m := 1
		if !ok {
			if ok2, _ := Equivalent(acc, fAnd(canonical, fNot(FTerm(models.RingEq(want, fnZero))))); ok2 {
				ok, m = true, 2
			}
		}
		if !ok {
			good, detail = false, fmt.Sprintf("length %d: accept set differs: %s", L, d)
			break
		}
		if mode != 0 && mode != m {
			good, detail = false, fmt.Sprintf("length %d: the value 0 is treated differently from shorter strings", L)
			break
		}
		mode = m
		for _, e := range r.Ex.Returns {
			if p, isP := exitResult(e, 0).(*absint.Ptr); isP {
				if t := loadPtrTerm(r.Ex, e.St, p); t == nil || !sym.Equal(t, want) {
					good, detail = false, fmt.Sprintf("length %d: value is %s, expected the big-endian value of the zero-extended string", L, absint.ValString(t))
				}
			}
		}
		if n, fpos, fmsg := checkBounds(r); fmsg != "" {
			good, detail = false, fmt.Sprintf("length %d: %s %s (%d)", L, fpos, fmsg, n)
		}
	}
	info.good, info.detail, info.rejectsZero = good, detail, mode == 2
	return info
}

func c12ASN1PublicKey(c *Ctx, prog *load.Program) {
	set := asn1Set()
	set.Intercepts[models.SececPkg+".NewPublicKey"] = func(ex *absint.Exec, cc *absint.CallCtx) (absint.Val, bool) {
		b := ex.SliceBytes(cc.St, cc.Args[0])
		ok := sym.App(sym.Bool, "pk_ok", b)
		pk := newPublicKeyObj(ex, cc.St, prog, sym.App(sym.Point, "pk_point", b))
		errv := &absint.Iface{Opaque: sym.Sym(sym.Any, "err:pk"), NonNil: true}
		return absint.Tuple{absint.MergeVal(ok, pk, absint.Nil{}), absint.MergeVal(ok, &absint.Iface{}, errv)}, true
	}
	name := models.SececPkg + ".ParseASN1PublicKey"
	r := RunFn(prog, set, name, &RunOpts{Args: named("d")})
	if r.Fn == nil {
		c.R.Unknown("C12-5", "ParseASN1PublicKey", "", "function not found")
		return
	}
	pos := PosOf(prog, r.Fn)
	if p := runComplete(r); p != "" {
		c.R.Unknown("C12-5", "ParseASN1PublicKey", pos, p)
		return
	}
	for _, pn := range r.Ex.Panics {
		c.R.Fail("C12-6", "ParseASN1PublicKey/no-panic", PosStr(prog, pn.Pos), fmt.Sprintf("a panic (%s) is reachable when {%s}", pn.Msg, GuardString(pn.Guard)))
	}
	acc, prob := acceptFormula(r, 1)
	if prob != "" {
		c.R.Unknown("C12-5", "ParseASN1PublicKey", pos, prob)
		return
	}
	top := &derReader{cur: symBytes("d")}
	okSeq, body := top.tlv(0x30)
	in := &derReader{cur: body}
	okAlg, algBody := in.tlv(0x30)
	okBits, bitBytes, bitLen := in.bits()
	alg := &derReader{cur: algBody}
	okO1, o1 := alg.oid()
	okO2, o2 := alg.oid()
	whole := sym.Eq(absint.IntOp("mod", 64, bitLen, sym.ConstI(8)), sym.ConstI(0))
	structure := fAnd(FTerm(okSeq), FTerm(top.empty()), FTerm(okAlg), FTerm(okBits), FTerm(in.empty()), FTerm(okO1), FTerm(okO2), FTerm(alg.empty()),
		FTerm(sym.App(sym.Bool, "oid_eq", o1, sym.ConstStr(sym.Any, "1.2.840.10045.2.1"))), FTerm(sym.App(sym.Bool, "oid_eq", o2, sym.ConstStr(sym.Any, "1.3.132.0.10"))))
	spec := fAnd(structure, FTerm(whole), FTerm(sym.App(sym.Bool, "pk_ok", bitBytes)))
	ok, detail := Equivalent(acc, spec)
	if ok {
		c.R.OK("C12-5", "ParseASN1PublicKey/accept", pos, "accepts exactly SEQUENCE{SEQUENCE{OID ecPublicKey, OID secp256k1}, BIT STRING with no unused bits holding a valid SEC 1 key}, nothing trailing at any level ("+detail+")")
	} else {
		// is the difference precisely the missing unused-bits test?  (diagnostic only)
		loose := fAnd(structure, FTerm(sym.App(sym.Bool, "pk_ok", sym.App(sym.Bytes, "rightalign", bitBytes, bitLen))))
		if okl, _ := Equivalent(acc, loose); okl {
			c.R.Fail("C12-5", "bitstring-unused-bits/ParseASN1PublicKey", pos, "the BIT STRING is used as an octet string (RightAlign) without testing that it has no unused bits: a key shifted left by u = 1..7 bits with 'unused bits = u' is accepted and parses to the same key, so a second encoding of the key exists and re-encoding does not reproduce the input")
		} else {
			c.R.Fail("C12-5", "ParseASN1PublicKey/accept", pos, "accept set differs from the strict SubjectPublicKeyInfo grammar: "+detail)
		}
	}
	c.R.Floor("C12-5", 1)
}

// c12Builders: the builders emit exactly what the parsers accept.
func c12Builders(c *Ctx, prog *load.Program) {
	set := asn1Set()
	rS, sS := symFn("*r"), symFn("*s")
	rb, sb := models.ToBytes(sym.Fn, rS), models.ToBytes(sym.Fn, sS)
	type bc struct {
		name string
		args []string
		want *sym.Term
	}
	seq := func(parts ...*sym.Term) *sym.Term {
		return sym.App(sym.Bytes, "der_tlv", sym.ConstI(0x30), absint.CatBytes(parts...))
	}
	derInt := func(b *sym.Term) *sym.Term { return sym.App(sym.Bytes, "der_int", sym.App(sym.Int, "os2ip", b)) }
	vT := sym.Sym(sym.Int, "v")
	vb := sym.App(sym.Bytes, "byte", vT)
	sym.SetBytesLen(vb, 1)
	cases := []bc{
		{"BuildASN1Signature", []string{"r", "s"}, seq(derInt(rb), derInt(sb))},
		{"BuildCompactSignature", []string{"r", "s"}, absint.CatBytes(rb, sb)},
		{"BuildCompactRecoverableSignature", []string{"r", "s", "v"}, absint.CatBytes(rb, sb, vb)},
	}
	for _, b := range cases {
		r := RunFn(prog, set, models.SececPkg+"."+b.name, &RunOpts{Args: named(b.args...)})
		key := "build/" + b.name
		if r.Fn == nil {
			c.R.Unknown("C12-4", key, "", "function not found")
			continue
		}
		pos := PosOf(prog, r.Fn)
		if p := runComplete(r); p != "" || r.Out.Ret == nil {
			c.R.Unknown("C12-4", key, pos, p+" (or no return)")
			continue
		}
		if len(r.Ex.Panics) > 0 {
			c.R.Fail("C12-4", key, PosStr(prog, r.Ex.Panics[0].Pos), "a panic is reachable: "+r.Ex.Panics[0].Msg)
			continue
		}
		got := sym.Canon(r.Ex.SliceBytes(r.Final(), r.Result(0)))
		c.R.Decide(sym.Equal(got, b.want), "C12-4", key, pos, "emits "+b.want.String(), "builder output is "+got.String()+", expected "+b.want.String())
	}
	// SubjectPublicKeyInfo
	{
		// through the exported method, so that the shape of the unexported builder behind it is free
		r := RunFn(prog, set, "(*"+models.SececPkg+".PublicKey).ASN1Bytes", &RunOpts{Args: named("k"), Pre: func(ex *absint.Exec, st *absint.State, args []absint.Val) {
			enc := absint.SymBytes("*k.pointBytes", 65, 0)
			kp, isP := args[0].(*absint.Ptr)
			if !isP {
				ex.Failf("receiver of ASN1Bytes is not a pointer")
				return
			}
			ib := FieldIndex(prog, models.SececPkg, "PublicKey", "pointBytes")
			storeBytesField(ex, st, kp, prog, models.SececPkg, "PublicKey", ib, enc, "pointBytes")
		}})
		key := "build/PublicKey.ASN1Bytes"
		if r.Fn == nil {
			c.R.Unknown("C12-4", key, "", "function not found")
			c.R.Floor("C12-4", 4)
			return
		}
		pos := PosOf(prog, r.Fn)
		if p := runComplete(r); p != "" || r.Out.Ret == nil {
			c.R.Unknown("C12-4", key, pos, p+" (or no return)")
		} else {
			got := sym.Canon(r.Ex.SliceBytes(r.Final(), r.Result(0)))
			oid := func(s string) *sym.Term { return sym.App(sym.Bytes, "der_oid_enc", sym.ConstStr(sym.Any, s)) }
			want := seq(seq(oid("1.2.840.10045.2.1"), oid("1.3.132.0.10")), sym.App(sym.Bytes, "der_bitstring", absint.SymBytes("*k.pointBytes", 65, 0)))
			c.R.Decide(sym.Equal(got, want), "C12-4", key, pos, "SEQUENCE{SEQUENCE{ecPublicKey, secp256k1}, BIT STRING(uncompressed SEC 1 bytes)}", "builder output is "+got.String())
		}
	}
	c.R.Floor("C12-4", 4)
}
