package rules

import (
	"fmt"
	"go/constant"
	"go/types"

	"verif/internal/absint"
	"verif/internal/load"
	"verif/internal/models"
	"verif/internal/sym"
)

func init() { register("C13", "other", checkC13) }

func sha256T(parts ...*sym.Term) *sym.Term {
	return sym.App(sym.Bytes, "sha256", absint.CatBytes(parts...))
}

// taggedHashT is the BIP-340 tagged hash SHA256(SHA256(tag) || SHA256(tag) || data...).
func taggedHashT(tag string, parts ...*sym.Term) *sym.Term {
	th := sha256T(sym.ConstStr(sym.Bytes, tag))
	return sha256T(append([]*sym.Term{th, th}, parts...)...)
}

// schnorrVerifySpec: BIP-340 Verify on (P, px, msg, sig); R is given by the caller (public or private form).
func schnorrVerifySpec(px, msg, sig, sigLen *sym.Term, mkR func(s, e *sym.Term) *sym.Term) *Formula {
	rb := absint.SubBytes(sig, sym.ConstI(0), sym.ConstI(32))
	sb := absint.SubBytes(sig, sym.ConstI(32), sym.ConstI(64))
	s := models.OfBytes(sym.Fn, sb)
	e := models.OfBytes(sym.Fn, taggedHashT("BIP0340/challenge", rb, px, msg))
	R := mkR(s, e)
	return fAnd(
		FTerm(sym.Eq(sigLen, sym.ConstI(64))),
		fNot(FTerm(models.GeModulus(sym.Fp, rb))),
		fNot(FTerm(models.GeModulus(sym.Fn, sb))),
		fNot(FTerm(models.IsIdentity(R, nil))),
		fNot(FTerm(models.Odd(models.YCoord(R)))),
		FTerm(sym.App(sym.Bool, "bytes_eq", models.ToBytes(sym.Fp, models.XCoord(R)), rb)),
	)
}

func boolResultFormula(r *Run) (*Formula, string) {
	var parts []*Formula
	for _, e := range r.Ex.Returns {
		t, ok := exitResult(e, 0).(*sym.Term)
		if !ok {
			return nil, "boolean result is not a term"
		}
		parts = append(parts, fAnd(FGuard(e.Guard), FTerm(e.St.Simplify(t))))
	}
	return fOr(parts...), ""
}

func checkC13(c *Ctx) {
	prog := c.Prog(load.AMD64)
	c13Verify(c, prog)
	c13TaggedHash(c, prog, "C13-2")
	c13Import(c, prog)
	c13Invariant(c, prog, "C13-4")
	// the key a verification uses stays the key that was imported: no exported method of the key types stores into the
	// key or hands out its internal memory (rule shared with C18-5)
	c18KeyMethods(c, prog, "C13-4")
	c.R.Explanation = "SchnorrPublicKey.Verify is abstractly interpreted against the specifications of the lower layers with a symbolic key (P, px), message and signature of symbolic length: its result is equivalent, as a propositional formula, to the BIP-340 Verify predicate len(sig) = 64, r = sig[0:32] < p, s = sig[32:64] < n, R = s*G - e*P not the identity, y(R) even, Bytes(x(R)) = r with e = int(SHA256(SHA256(tag)||SHA256(tag)||r||px||msg)) mod n and tag = BIP0340/challenge (s = 0 is not rejected); schnorrTaggedHash is that construction for any number of inputs and the three tag constants are the BIP's; NewSchnorrPublicKey accepts exactly 32-byte strings whose 0x02-prefixed compressed decoding succeeds (C06: x < p on the curve, even root) and stores that point with a fresh copy of the bytes; SchnorrPublicKey / SchnorrPrivateKey objects are created only by the three constructors, each of which establishes: point non-identity with even y, xBytes = Bytes(x(point)), d*G = point."
	c.R.Assumptions = []string{"C16 (double-scalar multiply), C06 (compressed decode, encoders), C01/C02 (canonical tests), C10 (ECDSA key invariants)", "SHA-256 from the standard library"}
}

func schnorrPubArgs(prog *load.Program, px, P *sym.Term) func(ex *absint.Exec, st *absint.State, args []absint.Val) {
	return func(ex *absint.Exec, st *absint.State, args []absint.Val) {
		kp := args[0].(*absint.Ptr)
		ix := FieldIndex(prog, models.BitcoinPkg, "SchnorrPublicKey", "xBytes")
		storeBytesField(ex, st, kp, prog, models.BitcoinPkg, "SchnorrPublicKey", ix, px, "xBytes")
		_ = P
	}
}

func c13Verify(c *Ctx, prog *load.Program) {
	name := Method(models.BitcoinPkg+".SchnorrPublicKey", "Verify")
	px := absint.SymBytes("px", 32, 0)
	r := RunFn(prog, protoSet(nil), name, &RunOpts{Args: named("k", "msg", "sig"), Pre: schnorrPubArgs(prog, px, nil)})
	if r.Fn == nil {
		c.R.Unknown("C13-1", "Verify", "", "SchnorrPublicKey.Verify not found")
		return
	}
	pos := PosOf(prog, r.Fn)
	if p := runComplete(r); p != "" {
		c.R.Unknown("C13-1", "Verify", pos, p)
		return
	}
	for _, pn := range r.Ex.Panics {
		c.R.Fail("C13-1", "Verify/no-panic", PosStr(prog, pn.Pos), fmt.Sprintf("a panic (%s) is reachable when {%s}", pn.Msg, GuardString(pn.Guard)))
	}
	code, prob := boolResultFormula(r)
	if prob != "" {
		c.R.Unknown("C13-1", "Verify", pos, prob)
		return
	}
	P := symPt("**k.point")
	spec := schnorrVerifySpec(px, symBytes("msg"), symBytes("sig"), symLen("sig"), func(s, e *sym.Term) *sym.Term {
		return sym.Add(sym.Mul(s, models.G), sym.Mul(sym.Neg(e), P))
	})
	ok, detail := Equivalent(code, spec)
	c.R.Decide(ok, "C13-1", "Verify/predicate", pos, "Verify is true exactly when the BIP-340 verification algorithm succeeds ("+detail+")", "Verify differs from BIP-340: "+detail)
	wrong := schnorrVerifySpec(px, symBytes("msg"), symBytes("sig"), symLen("sig"), func(s, e *sym.Term) *sym.Term {
		return sym.Add(sym.Mul(s, models.G), sym.Mul(e, P))
	})
	okc, _ := Equivalent(code, wrong)
	c.R.ControlResult("C13-1", "e-not-negated", "R = s*G + e*P must not be equivalent to the code", !okc)
	// verification is read-only: the key object must behave identically on every later call
	{
		rr := RunFn(prog, protoSet(nil), name, &RunOpts{Args: named("k", "msg", "sig"), Pre: schnorrPubArgs(prog, px, nil), Config: func(cfg *absint.Config) { cfg.RecordStores = true }})
		bad := ""
		for _, e := range rr.Ex.Events {
			if e.Kind == absint.EvStore && e.Ptr != nil && e.Ptr.Obj.Origin.Kind != "local" && e.Pos.IsValid() {
				bad = fmt.Sprintf("store to %s (%s) at %s", e.Ptr, e.Ptr.Obj.Origin.Root, PosStr(prog, e.Pos))
			}
		}
		c.R.Decide(bad == "", "C13-1", "Verify/read-only", pos, "Verify stores into no memory reachable from the key, the message or the signature", "Verify modifies an operand, so a later call on the same key behaves differently: "+bad)
	}
	n, fpos, fmsg := checkBounds(r)
	c.R.Decide(fmsg == "", "C13-1", "Verify/index-safety", pos, fmt.Sprintf("%d bounds checks proven from the length test", n), "a slice / conversion may be out of range at "+fpos+": "+fmsg)
	c.R.Floor("C13-1", 3)
}

func stringConst(prog *load.Program, pkg, name string) (string, bool) {
	p := prog.ByPath[pkg]
	if p == nil {
		return "", false
	}
	cst, ok := p.Types.Scope().Lookup(name).(*types.Const)
	if !ok || cst.Val().Kind() != constant.String {
		return "", false
	}
	return constant.StringVal(cst.Val()), true
}

func c13TaggedHash(c *Ctx, prog *load.Program, rule string) {
	name := models.BitcoinPkg + ".schnorrTaggedHash"
	fn := absint.FindFunc(prog.SSA, name)
	if fn == nil {
		c.R.Unknown(rule, "taggedhash", "", "schnorrTaggedHash not found")
		return
	}
	pos := PosOf(prog, fn)
	for n := 0; n <= 3; n++ {
		var vals []*sym.Term
		r := RunFn(prog, protoSet(nil), name, &RunOpts{Args: named("tag", "vals"), Pre: func(ex *absint.Exec, st *absint.State, args []absint.Val) {
			sl := fn.Params[1].Type().Underlying().(*types.Slice)
			at := types.NewArray(sl.Elem(), int64(n))
			arr := ex.Alloc(at, "vals", nil, absint.Origin{Kind: "param", Root: "vals"})
			for k := 0; k < n; k++ {
				v := symBytes(fmt.Sprintf("v%d", k))
				vals = append(vals, v)
				ex.Store(st, ex.ElemPtr(arr, int64(k)), ex.BytesToSlice(st, v, v.S), sl.Elem())
			}
			if n == 0 {
				args[1] = &absint.SliceVal{Len: sym.ConstI(0), Cap: sym.ConstI(0)}
				return
			}
			args[1] = &absint.SliceVal{Base: ex.ElemPtr(arr, 0), Len: sym.ConstI(int64(n)), Cap: sym.ConstI(int64(n))}
		}})
		key := fmt.Sprintf("taggedhash/inputs=%d", n)
		if p := runComplete(r); p != "" || r.Out.Ret == nil {
			c.R.Unknown(rule, key, pos, p+" (or no return)")
			continue
		}
		// the digest is returned as a slice or as an array by value
		got := resultBytes(r, 0)
		th := sha256T(symBytes("tag"))
		want := sha256T(append([]*sym.Term{th, th}, vals...)...)
		c.R.Decide(sym.Equal(got, want), rule, key, pos, "SHA256(SHA256(tag) || SHA256(tag) || inputs in order)", "tagged hash is "+got.String())
	}
	for cname, want := range map[string]string{"schnorrTagAux": "BIP0340/aux", "schnorrTagNonce": "BIP0340/nonce", "schnorrTagChallenge": "BIP0340/challenge"} {
		got, ok := stringConst(prog, models.BitcoinPkg, cname)
		c.R.Decide(ok && got == want, rule, "tag/"+cname, "", "tag = "+want, fmt.Sprintf("tag constant %s is %q, BIP-340 says %q", cname, got, want))
	}
	c.R.Floor(rule, 7)
}

func c13Import(c *Ctx, prog *load.Program) {
	name := models.BitcoinPkg + ".NewSchnorrPublicKey"
	r := RunFn(prog, protoSet(nil), name, &RunOpts{Args: named("key")})
	if r.Fn == nil {
		c.R.Unknown("C13-3", "NewSchnorrPublicKey", "", "function not found")
		return
	}
	pos := PosOf(prog, r.Fn)
	if p := runComplete(r); p != "" {
		// the copy of a symbolic-length key into the 33-byte buffer happens after the length test; retry with the length fixed
		r = nil
	}
	// accept set on a symbolic length: only length 32 passes
	{
		r0 := RunFn(prog, protoSet(nil), name, &RunOpts{Args: named("key"), Pre: func(ex *absint.Exec, st *absint.State, args []absint.Val) {
			st.Assume(sym.Eq(symLen("key"), sym.ConstI(32)), false, "length is not 32")
		}})
		acc, prob := acceptFormula(r0, 1)
		okl := prob == "" && runComplete(r0) == "" && len(r0.Ex.Panics) == 0
		if okl {
			okl, _ = Equivalent(acc, fConst(false))
		}
		c.R.Decide(okl, "C13-3", "NewSchnorrPublicKey/length", pos, "every length other than 32 is rejected", "a key of a length other than 32 may be accepted (or the analysis is incomplete): "+prob+runComplete(r0))
	}
	key := absint.SymBytes("key", 32, 0)
	r = RunFn(prog, protoSet(nil), name, &RunOpts{Args: named("key"), Pre: func(ex *absint.Exec, st *absint.State, args []absint.Val) {
		sv := ex.BytesToSlice(st, key, "key")
		sv.Base.Obj.Origin = absint.Origin{Kind: "param", Root: "key"}
		args[0] = sv
	}})
	if p := runComplete(r); p != "" {
		c.R.Unknown("C13-3", "NewSchnorrPublicKey", pos, p)
		return
	}
	for _, pn := range r.Ex.Panics {
		c.R.Fail("C13-3", "NewSchnorrPublicKey/no-panic", PosStr(prog, pn.Pos), "a panic is reachable: "+pn.Msg)
	}
	acc, prob := acceptFormula(r, 1)
	if prob != "" {
		c.R.Unknown("C13-3", "NewSchnorrPublicKey", pos, prob)
		return
	}
	enc := absint.CatBytes(sym.ConstStr(sym.Bytes, "\x02"), key)
	ok, detail := Equivalent(acc, FTerm(sym.App(sym.Bool, "sec1_valid", enc)))
	c.R.Decide(ok, "C13-3", "NewSchnorrPublicKey/accept", pos, "accepts exactly the 32-byte strings x for which 0x02||x is a valid compressed point (x < p, on the curve; even root)", "accept set differs: "+detail)
	vok, vdetail := true, ""
	for _, e := range r.Ex.Returns {
		e := e
		res := exitResult(e, 0)
		o, d := CheckUnder(fAnd(FGuard(e.Guard), acc), []absint.Val{res}, nil, func(asg map[*sym.Term]bool) string {
			pk, ok := resolveChoice(res, asg).(*absint.Ptr)
			if !ok {
				return "no key object"
			}
			pt := loadPtrTerm(r.Ex, e.St, resolveChoice(fieldVal(r.Ex, e.St, pk, prog, models.BitcoinPkg, "SchnorrPublicKey", "point"), asg))
			if pt == nil || !sym.Equal(ResolveIte(pt, asg), sym.App(sym.Point, "sec1_decode", enc)) {
				return "stored point is " + absint.ValString(pt)
			}
			xb, _ := resolveChoice(bytesField(r.Ex, e.St, pk, prog, models.BitcoinPkg, "SchnorrPublicKey", "xBytes"), asg).(*absint.SliceVal)
			if xb == nil || xb.Base == nil {
				return "no xBytes"
			}
			if xb.Base.Obj.Origin.Kind != "local" {
				return "xBytes aliases the caller's slice (" + xb.Base.Obj.Origin.Root + ")"
			}
			if b := bytesUnder(r.Ex, e.St, xb, asg); !sym.Equal(b, key) {
				return "xBytes is " + b.String()
			}
			return ""
		})
		if !o && d != "the condition is unsatisfiable (vacuous)" {
			vok, vdetail = false, d
		}
	}
	c.R.Decide(vok, "C13-3", "NewSchnorrPublicKey/value", pos, "stores the decoded even-y point and a fresh copy of the 32 bytes", "constructed key differs: "+vdetail)
	c.R.Floor("C13-3", 3)
}

// ecdsaKeyArgs builds a secec.PrivateKey argument satisfying the C10 invariants: scalar d', public point d'*G and its encoding.
func ecdsaPrivArg(ex *absint.Exec, st *absint.State, prog *load.Program, dP *sym.Term) *absint.Ptr {
	skT := ex.NamedType(models.SececPkg, "PrivateKey")
	sk := ex.Alloc(skT, "sk", nil, absint.Origin{Kind: "param", Root: "sk"})
	sc := ex.AllocAbs(models.ScalarType, models.Mod, "Scalar", dP)
	sc.Obj.Origin = absint.Origin{Kind: "param", Root: "sk.scalar"}
	pub := newPublicKeyObj(ex, st, prog, sym.Mul(dP, models.G))
	pub.Obj.Origin = absint.Origin{Kind: "param", Root: "sk.publicKey"}
	ex.StoreLeaf(st, ex.FieldPtr(sk, FieldIndex(prog, models.SececPkg, "PrivateKey", "scalar")), sc, 0)
	ex.StoreLeaf(st, ex.FieldPtr(sk, FieldIndex(prog, models.SececPkg, "PrivateKey", "publicKey")), pub, 0)
	return sk
}

// c13Invariant: every constructor of the Schnorr key types establishes the key-type invariant.
func c13Invariant(c *Ctx, prog *load.Program, rule string) {
	c10WhoWrites(c, prog, rule, models.BitcoinPkg, map[string][]string{
		"SchnorrPublicKey":  {models.BitcoinPkg + ".NewSchnorrPublicKey", models.BitcoinPkg + ".NewSchnorrPublicKeyFromPoint", models.BitcoinPkg + ".NewSchnorrPublicKeyFromECDSA", models.BitcoinPkg + ".NewSchnorrPrivateKeyFromECDSA"},
		"SchnorrPrivateKey": {models.BitcoinPkg + ".NewSchnorrPrivateKeyFromECDSA"},
	})
	facts := &models.PointFacts{NonIdentity: map[*sym.Term]bool{}}
	// --- NewSchnorrPublicKeyFromPoint
	{
		name := models.BitcoinPkg + ".NewSchnorrPublicKeyFromPoint"
		r := RunFn(prog, protoSet(facts), name, &RunOpts{Args: named("point")})
		pos := PosOf(prog, r.Fn)
		if p := runComplete(r); p != "" || r.Fn == nil {
			c.R.Unknown(rule, "ctor/NewSchnorrPublicKeyFromPoint", pos, p)
		} else {
			P := symPt("*point")
			acc, _ := acceptFormula(r, 1)
			ok, detail := Equivalent(acc, fNot(FTerm(models.IsIdentity(P, nil))))
			c.R.Decide(ok, rule, "ctor/NewSchnorrPublicKeyFromPoint/accept", pos, "accepts exactly non-identity points", "accept set differs: "+detail)
			odd := models.Odd(models.YCoord(P))
			vok, vdetail := true, ""
			for _, e := range r.Ex.Returns {
				e := e
				res := exitResult(e, 0)
				o, d := CheckUnder(fAnd(FGuard(e.Guard), acc, fOr(FTerm(odd), fNot(FTerm(odd)))), []absint.Val{res}, nil, func(asg map[*sym.Term]bool) string {
					pk, ok := resolveChoice(res, asg).(*absint.Ptr)
					if !ok {
						return "no key object"
					}
					want := P
					if asg[sym.Canon(odd)] {
						want = sym.Neg(P)
					}
					ptV := resolveChoice(fieldVal(r.Ex, e.St, pk, prog, models.BitcoinPkg, "SchnorrPublicKey", "point"), asg)
					pt := loadPtrTerm(r.Ex, e.St, ptV)
					if pt == nil || !sym.Equal(ResolveIte(pt, asg), want) {
						return "stored point is " + absint.ValString(pt) + ", expected the even-y representative"
					}
					if pp, _ := ptV.(*absint.Ptr); pp == nil || pp.Obj.Origin.Kind != "local" {
						return "the stored point object is the caller's, not a copy"
					}
					xb := bytesUnder(r.Ex, e.St, resolveChoice(bytesField(r.Ex, e.St, pk, prog, models.BitcoinPkg, "SchnorrPublicKey", "xBytes"), asg), asg)
					if !sym.Equal(xb, models.ToBytes(sym.Fp, models.XCoord(want))) {
						return "xBytes is " + xb.String()
					}
					return ""
				})
				if !o && d != "the condition is unsatisfiable (vacuous)" {
					vok, vdetail = false, d
				}
			}
			c.R.Decide(vok, rule, "ctor/NewSchnorrPublicKeyFromPoint/value", pos, "stores a fresh copy of P or -P with even y and xBytes = Bytes(x) of the stored point", "constructed key differs: "+vdetail)
		}
	}
	// --- NewSchnorrPublicKeyFromECDSA: the even-y representative of the ECDSA key's point, as a fresh copy
	{
		name := models.BitcoinPkg + ".NewSchnorrPublicKeyFromECDSA"
		Q := symPt("Q")
		facts.NonIdentity = map[*sym.Term]bool{}
		r := RunFn(prog, protoSet(facts), name, &RunOpts{Args: named("pk"), Pre: func(ex *absint.Exec, st *absint.State, args []absint.Val) {
			pk := newPublicKeyObj(ex, st, prog, Q)
			pk.Obj.Origin = absint.Origin{Kind: "param", Root: "pk"}
			if pp, ok := st.Resolve(ex.LoadLeaf(st, ex.FieldPtr(pk, FieldIndex(prog, models.SececPkg, "PublicKey", "point")))).(*absint.Ptr); ok {
				pp.Obj.Origin = absint.Origin{Kind: "param", Root: "pk.point"}
			}
			args[0] = pk
			st.Assume(models.IsIdentity(Q, nil), false, "a PublicKey never holds the identity (C10)")
		}})
		pos := PosOf(prog, r.Fn)
		if p := runComplete(r); p != "" || r.Fn == nil || r.Out.Ret == nil {
			c.R.Unknown(rule, "ctor/NewSchnorrPublicKeyFromECDSA", pos, p)
		} else {
			for _, pn := range r.Ex.Panics {
				c.R.Fail(rule, "ctor/NewSchnorrPublicKeyFromECDSA/no-panic", PosStr(prog, pn.Pos), "a panic is reachable: "+pn.Msg)
			}
			odd := models.Odd(models.YCoord(Q))
			res := r.Result(0)
			st := r.Final()
			ok, detail := CheckUnder(fOr(FTerm(odd), fNot(FTerm(odd))), []absint.Val{res}, nil, func(asg map[*sym.Term]bool) string {
				pk, ok := resolveChoice(res, asg).(*absint.Ptr)
				if !ok {
					return "no key object"
				}
				want := Q
				if asg[sym.Canon(odd)] {
					want = sym.Neg(Q)
				}
				ptV := resolveChoice(fieldVal(r.Ex, st, pk, prog, models.BitcoinPkg, "SchnorrPublicKey", "point"), asg)
				pt := loadPtrTerm(r.Ex, st, ptV)
				if pt == nil || !sym.Equal(ResolveIte(pt, asg), want) {
					return "stored point is " + absint.ValString(pt) + ", expected the even-y representative"
				}
				if pp, _ := ptV.(*absint.Ptr); pp == nil || pp.Obj.Origin.Kind != "local" {
					return "the stored point object is the ECDSA key's, not a copy"
				}
				xb := bytesUnder(r.Ex, st, resolveChoice(bytesField(r.Ex, st, pk, prog, models.BitcoinPkg, "SchnorrPublicKey", "xBytes"), asg), asg)
				if xb == nil || !sym.Equal(xb, models.ToBytes(sym.Fp, models.XCoord(want))) {
					return "xBytes is " + absint.ValString(xb)
				}
				return ""
			})
			c.R.Decide(ok, rule, "ctor/NewSchnorrPublicKeyFromECDSA/value", pos, "stores a fresh copy of Q or -Q with even y and xBytes = Bytes(x) of the stored point", "constructed key differs: "+detail)
		}
	}
	// --- NewSchnorrPrivateKeyFromECDSA
	{
		name := models.BitcoinPkg + ".NewSchnorrPrivateKeyFromECDSA"
		dP := symFn("dprime")
		facts.NonIdentity = map[*sym.Term]bool{}
		r := RunFn(prog, protoSet(facts), name, &RunOpts{Args: named("sk"), Pre: func(ex *absint.Exec, st *absint.State, args []absint.Val) {
			args[0] = ecdsaPrivArg(ex, st, prog, dP)
			st.Assume(models.RingEq(dP, fnZero), false, "a PrivateKey holds a scalar in [1,n) (C10)")
		}})
		pos := PosOf(prog, r.Fn)
		if p := runComplete(r); p != "" || r.Fn == nil || r.Out.Ret == nil {
			c.R.Unknown(rule, "ctor/NewSchnorrPrivateKeyFromECDSA", pos, p)
		} else {
			for _, pn := range r.Ex.Panics {
				c.R.Fail(rule, "ctor/NewSchnorrPrivateKeyFromECDSA/no-panic", PosStr(prog, pn.Pos), "a panic is reachable: "+pn.Msg)
			}
			Pp := sym.Mul(dP, models.G)
			odd := models.Odd(models.YCoord(Pp))
			res := r.Result(0)
			st := r.Final()
			ok, detail := CheckUnder(fOr(FTerm(odd), fNot(FTerm(odd))), []absint.Val{res}, nil, func(asg map[*sym.Term]bool) string {
				sk, ok := resolveChoice(res, asg).(*absint.Ptr)
				if !ok {
					return "no key object"
				}
				get := func(f string) absint.Val {
					return resolveChoice(fieldVal(r.Ex, st, sk, prog, models.BitcoinPkg, "SchnorrPrivateKey", f), asg)
				}
				wantD, wantP := dP, Pp
				if asg[sym.Canon(odd)] {
					wantD, wantP = sym.Neg(dP), sym.Neg(Pp)
				}
				dpT := loadPtrTerm(r.Ex, st, get("dPrime"))
				dT := loadPtrTerm(r.Ex, st, get("d"))
				if dpT == nil || !sym.Equal(ResolveIte(dpT, asg), dP) {
					return "dPrime is " + absint.ValString(dpT)
				}
				if p, _ := get("dPrime").(*absint.Ptr); p == nil || p.Obj.Origin.Kind != "local" {
					return "dPrime is the ECDSA key's own scalar object, not a copy"
				}
				if dT == nil || !sym.Equal(ResolveIte(dT, asg), wantD) {
					return "d is " + absint.ValString(ResolveIte(dT, asg)) + ", expected " + wantD.String()
				}
				pub, _ := get("publicKey").(*absint.Ptr)
				if pub == nil {
					return "no public key"
				}
				ptV := resolveChoice(fieldVal(r.Ex, st, pub, prog, models.BitcoinPkg, "SchnorrPublicKey", "point"), asg)
				pt := loadPtrTerm(r.Ex, st, ptV)
				if pt == nil || !sym.Equal(ResolveIte(pt, asg), wantP) {
					return "public point is " + absint.ValString(ResolveIte(pt, asg)) + ", expected " + wantP.String()
				}
				if pp, _ := ptV.(*absint.Ptr); pp == nil || pp.Obj.Origin.Kind != "local" {
					return "the public point object is shared with the ECDSA key"
				}
				xbV, _ := resolveChoice(bytesField(r.Ex, st, pub, prog, models.BitcoinPkg, "SchnorrPublicKey", "xBytes"), asg).(*absint.SliceVal)
				if xbV == nil || xbV.Base == nil || xbV.Base.Obj.Origin.Kind != "local" {
					return "xBytes is shared with the ECDSA key"
				}
				if xb := bytesUnder(r.Ex, st, xbV, asg); !sym.Equal(xb, models.ToBytes(sym.Fp, models.XCoord(Pp))) {
					return "xBytes is " + xb.String()
				}
				return ""
			})
			c.R.Decide(ok, rule, "ctor/NewSchnorrPrivateKeyFromECDSA/value", pos, "dPrime = copy of the scalar; d and the point are negated together exactly when y(d'G) is odd; xBytes = Bytes(x(d'G)); nothing is shared with the ECDSA key ("+detail+")", "derived key differs: "+detail)
		}
	}
}

// resultBytes: result i of a run as a byte string, whether it is a slice, a byte string term or a byte array by value.
func resultBytes(r *Run, i int) *sym.Term {
	switch x := r.Final().Resolve(r.Result(i)).(type) {
	case *sym.Term:
		if x.Sort == sym.Bytes {
			return sym.Canon(x)
		}
	case *absint.Agg:
		cells := make([]*sym.Term, len(x.Elems))
		for k, e := range x.Elems {
			t, isT := r.Final().Resolve(e).(*sym.Term)
			if !isT {
				return sym.Canon(r.Ex.SliceBytes(r.Final(), r.Result(i)))
			}
			cells[k] = t
		}
		return sym.Canon(absint.BytesFromCells(cells))
	}
	return sym.Canon(r.Ex.SliceBytes(r.Final(), r.Result(i)))
}
