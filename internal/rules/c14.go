package rules

import (
	"fmt"
	"strings"

	"verif/internal/absint"
	"verif/internal/load"
	"verif/internal/models"
	"verif/internal/sym"
)

func init() { register("C14", "other", checkC14) }

func checkC14(c *Ctx) {
	prog := c.Prog(load.AMD64)
	c14Sign(c, prog)
	c14SelfCheck(c, prog)
	c14Entry(c, prog)
	c13TaggedHash(c, prog, "C14-1t")
	c13Invariant(c, prog, "C14-4")
	c18KeyMethods(c, prog, "C14-4")
	c.R.Explanation = "signSchnorr is abstractly interpreted with a symbolic key (d, px), 32 bytes of auxiliary randomness and a message of symbolic length; the returned bytes are compared, as terms over SHA-256 transcripts, scalar-ring operations and point-module operations, with the BIP-340 Sign algorithm: t = bytes(d) xor H_aux(a); rand = H_nonce(t || px || m); k' = int(rand) mod n (error if 0); R = k'G; k = k' or -k' by the parity of y(R); e = int(H_challenge(Bytes(x(R)) || px || m)) mod n; sig = Bytes(x(R)) || Bytes(k + e*d). The signature is returned only if the mandatory self-check succeeds; the self-check is the BIP-340 verification predicate with R = (s - e*d)G. Sign(rand, msg) reads exactly 32 bytes with io.ReadFull (nil -> crypto/rand.Reader), aborts on a read error and passes them as aux. Key derivation from an ECDSA key / a point establishes d*G = even-y point, xBytes = its x (same rule as C13-4); the tagged hash and tag constants are the BIP's."
	c.R.Assumptions = []string{"byte-exactness is decided relative to the abstract operations (SHA-256, ScalarBaseMult = k*G, scalar ring): C01, C02, C05, C06", "C13 (verification predicate)"}
}

func schnorrPrivArg(ex *absint.Exec, st *absint.State, prog *load.Program, d, px *sym.Term) *absint.Ptr {
	skT := ex.NamedType(models.BitcoinPkg, "SchnorrPrivateKey")
	sk := ex.Alloc(skT, "sk", nil, absint.Origin{Kind: "param", Root: "sk"})
	dObj := ex.AllocAbs(models.ScalarType, models.Mod, "Scalar", d)
	dObj.Obj.Origin = absint.Origin{Kind: "param", Root: "sk.d"}
	dpObj := ex.AllocAbs(models.ScalarType, models.Mod, "Scalar", sym.Sym(sym.Fn, "dPrime"))
	dpObj.Obj.Origin = absint.Origin{Kind: "param", Root: "sk.dPrime"}
	pkT := ex.NamedType(models.BitcoinPkg, "SchnorrPublicKey")
	pk := ex.Alloc(pkT, "pk", nil, absint.Origin{Kind: "param", Root: "sk.publicKey"})
	pt := ex.AllocAbs(models.PointType, models.Mod, "Point", sym.Mul(d, models.G))
	pt.Obj.Origin = absint.Origin{Kind: "param", Root: "sk.publicKey.point"}
	xb := ex.BytesToSlice(st, px, "xBytes")
	xb.Base.Obj.Origin = absint.Origin{Kind: "param", Root: "sk.publicKey.xBytes"}
	ex.StoreLeaf(st, ex.FieldPtr(pk, FieldIndex(prog, models.BitcoinPkg, "SchnorrPublicKey", "point")), pt, 0)
	ex.StoreLeaf(st, ex.FieldPtr(pk, FieldIndex(prog, models.BitcoinPkg, "SchnorrPublicKey", "xBytes")), xb, 0)
	ex.StoreLeaf(st, ex.FieldPtr(sk, FieldIndex(prog, models.BitcoinPkg, "SchnorrPrivateKey", "d")), dObj, 0)
	ex.StoreLeaf(st, ex.FieldPtr(sk, FieldIndex(prog, models.BitcoinPkg, "SchnorrPrivateKey", "dPrime")), dpObj, 0)
	ex.StoreLeaf(st, ex.FieldPtr(sk, FieldIndex(prog, models.BitcoinPkg, "SchnorrPrivateKey", "publicKey")), pk, 0)
	return sk
}

func c14Sign(c *Ctx, prog *load.Program) {
	name := models.BitcoinPkg + ".signSchnorr"
	set := protoSet(nil)
	set.Intercepts[models.BitcoinPkg+".verifySchnorrSelf"] = func(ex *absint.Exec, cc *absint.CallCtx) (absint.Val, bool) {
		dt := loadPtrTerm(ex, cc.St, cc.Args[0])
		if dt == nil {
			return nil, false
		}
		return sym.App(sym.Bool, "self_check", sym.Canon(dt), ex.SliceBytes(cc.St, cc.Args[1]), ex.SliceBytes(cc.St, cc.Args[2]), sym.Canon(ex.SliceBytes(cc.St, cc.Args[3]))), true
	}
	d, px, aux := symFn("d"), absint.SymBytes("px", 32, 0), absint.SymBytes("aux", 32, 0)
	r := RunFn(prog, set, name, &RunOpts{Args: named("aux", "sk", "msg"), Pre: func(ex *absint.Exec, st *absint.State, args []absint.Val) {
		args[0] = ex.ByteArrayPtr(st, aux, "aux")
		args[1] = schnorrPrivArg(ex, st, prog, d, px)
	}})
	if r.Fn == nil {
		c.R.Unknown("C14-1", "signSchnorr", "", "signSchnorr not found")
		return
	}
	pos := PosOf(prog, r.Fn)
	if p := runComplete(r); p != "" {
		c.R.Unknown("C14-1", "signSchnorr", pos, p)
		return
	}
	msg := symBytes("msg")
	// BIP-340 Sign
	t := sym.App(sym.Bytes, "xorbytes", taggedHashT("BIP0340/aux", aux), models.ToBytes(sym.Fn, d))
	sym.SetBytesLen(t, 32)
	rand := taggedHashT("BIP0340/nonce", t, px, msg)
	kP := models.OfBytes(sym.Fn, rand)
	R := sym.Mul(kP, models.G)
	rx := models.ToBytes(sym.Fp, models.XCoord(R))
	odd := models.Odd(models.YCoord(R))
	e := models.OfBytes(sym.Fn, taggedHashT("BIP0340/challenge", rx, px, msg))
	sigFor := func(neg bool) *sym.Term {
		k := kP
		if neg {
			k = sym.Neg(kP)
		}
		return absint.CatBytes(rx, models.ToBytes(sym.Fn, sym.Add(k, sym.Mul(e, d))))
	}
	// the panic of SplitUncompressedPoint (R = identity) is excluded by the k' != 0 test
	for _, pn := range r.Ex.Panics {
		c.R.Fail("C14-1", "signSchnorr/no-panic", PosStr(prog, pn.Pos), fmt.Sprintf("a panic (%s) is reachable when {%s}", pn.Msg, GuardString(pn.Guard)))
	}
	indexSafety(c, "C14-1", "signSchnorr", pos, r)
	acc, prob := acceptFormula(r, 1)
	if prob != "" {
		c.R.Unknown("C14-1", "signSchnorr", pos, prob)
		return
	}
	// accept: k' != 0 and the self-check on the produced bytes succeeded
	selfOK := func(neg bool) *sym.Term {
		return sym.App(sym.Bool, "self_check", d, px, msg, sym.Canon(sigFor(neg)))
	}
	spec := fAnd(fNot(FTerm(models.RingEq(kP, fnZero))), fOr(fAnd(FTerm(odd), FTerm(selfOK(true))), fAnd(fNot(FTerm(odd)), FTerm(selfOK(false)))))
	// resolve ite inside atoms of the code formula: compare under both parities separately
	okAll := true
	detail := ""
	for _, neg := range []bool{false, true} {
		asm := FTerm(odd)
		if !neg {
			asm = fNot(asm)
		}
		asg := map[*sym.Term]bool{sym.Canon(odd): neg}
		code := substFormula(acc, asg)
		ok, d := Equivalent(fAnd(code, asm), fAnd(spec, asm))
		if !ok {
			okAll, detail = false, d
		}
	}
	c.R.Decide(okAll, "C14-2", "signSchnorr/accept", pos, "a signature is returned exactly when k' != 0 and the mandatory self-check of the produced bytes succeeds", "return condition differs: "+detail)
	vok, vdetail := true, ""
	n := 0
	for _, x := range r.Ex.Returns {
		x := x
		res := exitResult(x, 0)
		o, dd := CheckUnder(fAnd(FGuard(x.Guard), fOr(FTerm(odd), fNot(FTerm(odd)))), []absint.Val{res}, nil, func(asg map[*sym.Term]bool) string {
			rv := resolveChoice(res, asg)
			if isNilVal(rv) {
				return ""
			}
			n++
			b := bytesUnder(r.Ex, x.St, rv, asg)
			want := sym.Canon(sigFor(asg[sym.Canon(odd)]))
			if !sym.Equal(b, want) {
				return "signature is " + clip(b.String(), 700) + ", BIP-340 gives " + clip(want.String(), 700)
			}
			return ""
		})
		if !o && dd != "the condition is unsatisfiable (vacuous)" {
			vok, vdetail = false, dd
		}
	}
	c.R.Decide(vok && n >= 2, "C14-1", "signSchnorr/value", pos, "sig = Bytes(x(R)) || Bytes(k + e*d) with t, rand, k', R, k, e as in BIP-340 Sign, for both parities of y(R)", "signature bytes differ from BIP-340 Sign: "+vdetail)
	// control: the nonce hash input order
	{
		wrongRand := taggedHashT("BIP0340/nonce", px, t, msg)
		c.R.ControlResult("C14-1", "nonce-input-order", "H_nonce(px || t || m) must differ from the code's nonce hash", !sym.Equal(wrongRand, rand))
	}
	c.R.Floor("C14-1", 1)
	c.R.Floor("C14-2", 1)
}

func clip(s string, n int) string {
	if len(s) > n {
		return s[:n] + "…"
	}
	return s
}

// substFormula resolves ite-nodes inside the atoms of a formula under a partial valuation.
func substFormula(f *Formula, asg map[*sym.Term]bool) *Formula {
	switch f.Kind {
	case "atom":
		if v, ok := asg[f.Atom]; ok {
			return fConst(v)
		}
		return FTerm(ResolveIte(f.Atom, asg))
	case "const":
		return f
	case "not":
		return fNot(substFormula(f.Sub[0], asg))
	}
	var sub []*Formula
	for _, s := range f.Sub {
		sub = append(sub, substFormula(s, asg))
	}
	if f.Kind == "and" {
		return fAnd(sub...)
	}
	return fOr(sub...)
}

func c14SelfCheck(c *Ctx, prog *load.Program) {
	name := models.BitcoinPkg + ".verifySchnorrSelf"
	px := absint.SymBytes("px", 32, 0)
	r := RunFn(prog, protoSet(nil), name, &RunOpts{Args: named("d", "pk", "msg", "sig"), Pre: func(ex *absint.Exec, st *absint.State, args []absint.Val) {
		args[1] = ex.BytesToSlice(st, px, "pk")
	}})
	if r.Fn == nil {
		c.R.Unknown("C14-2", "verifySchnorrSelf", "", "function not found")
		return
	}
	pos := PosOf(prog, r.Fn)
	if p := runComplete(r); p != "" {
		c.R.Unknown("C14-2", "verifySchnorrSelf", pos, p)
		return
	}
	for _, pn := range r.Ex.Panics {
		c.R.Fail("C14-2", "verifySchnorrSelf/no-panic", PosStr(prog, pn.Pos), "a panic is reachable: "+pn.Msg)
	}
	code, prob := boolResultFormula(r)
	if prob != "" {
		c.R.Unknown("C14-2", "verifySchnorrSelf", pos, prob)
		return
	}
	d := symFn("*d")
	spec := schnorrVerifySpec(px, symBytes("msg"), symBytes("sig"), symLen("sig"), func(s, e *sym.Term) *sym.Term {
		return sym.Mul(sym.Sub(s, sym.Mul(d, e)), models.G)
	})
	ok, detail := Equivalent(code, spec)
	c.R.Decide(ok, "C14-2", "verifySchnorrSelf/predicate", pos, "the self-check is the BIP-340 verification predicate with R = (s - e*d)*G ("+detail+")", "self-check differs: "+detail)
}

func c14Entry(c *Ctx, prog *load.Program) {
	name := Method(models.BitcoinPkg+".SchnorrPrivateKey", "Sign")
	set := protoSet(nil)
	set.Intercepts[models.BitcoinPkg+".signSchnorr"] = func(ex *absint.Exec, cc *absint.CallCtx) (absint.Val, bool) {
		ap, ok := cc.St.Resolve(cc.Args[0]).(*absint.Ptr)
		if !ok {
			return nil, false
		}
		aux := ex.ReadArray(cc.St, ap, 32)
		okT := sym.App(sym.Bool, "sign_ok", aux, ex.SliceBytes(cc.St, cc.Args[2]))
		sig := ex.BytesToSlice(cc.St, sym.App(sym.Bytes, "schnorr_sig", aux, ex.SliceBytes(cc.St, cc.Args[2])), "sig")
		errv := &absint.Iface{Opaque: sym.Sym(sym.Any, "err:sign"), NonNil: true}
		return absint.Tuple{absint.MergeVal(okT, sig, absint.Nil{}), absint.MergeVal(okT, &absint.Iface{}, errv)}, true
	}
	r := RunFn(prog, set, name, &RunOpts{Args: named("k", "rand", "msg", "opts")})
	if r.Fn == nil {
		c.R.Unknown("C14-3", "Sign", "", "SchnorrPrivateKey.Sign not found")
		return
	}
	pos := PosOf(prog, r.Fn)
	if p := runComplete(r); p != "" {
		c.R.Unknown("C14-3", "Sign", pos, p)
		return
	}
	for _, pn := range r.Ex.Panics {
		c.R.Fail("C14-3", "Sign/no-panic", PosStr(prog, pn.Pos), fmt.Sprintf("a panic (%s) is reachable when {%s}", pn.Msg, GuardString(pn.Guard)))
	}
	good := true
	detail := ""
	nOK := 0
	for _, x := range r.Ex.Returns {
		res0, res1 := exitResult(x, 0), exitResult(x, 1)
		readOK := false
		var ent string
		for _, l := range x.Guard {
			if l.T.Op == "isnil" && strings.HasPrefix(l.T.Args[0].String(), "readerr") {
				readOK = l.Val
				ent = "entropy" + strings.TrimPrefix(l.T.Args[0].String(), "readerr")
			}
		}
		if !readOK {
			if !isNilVal(res0) || !isNonNilVal(res1) {
				good, detail = false, "a failed entropy read does not abort with (nil, err)"
			}
			continue
		}
		nOK++
		// the result must be signSchnorr(aux = the 32 bytes read, msg)
		set := map[*sym.Term]bool{}
		choiceAtoms(res0, set)
		ok := false
		for a := range set {
			if a.Op == "sign_ok" && a.Args[0].Op == "s" && a.Args[0].S == ent {
				if n, _ := sym.BytesLen(a.Args[0]); n == 32 && a.Args[1] == symBytes("msg") {
					ok = true
				}
			}
		}
		if !ok {
			good, detail = false, "the signature is not signSchnorr(32 freshly read bytes, msg): "+clip(absint.ValString(res0), 300)
		}
	}
	c.R.Decide(good && nOK > 0, "C14-3", "Sign/aux-entropy", pos, "32 bytes are read with io.ReadFull (nil reader replaced by crypto/rand.Reader), a read error aborts, the bytes are the aux input of signSchnorr", detail)
	c.R.Floor("C14-3", 1)
}
