package rules

import (
	"fmt"
	"go/token"
	"go/types"
	"golang.org/x/tools/go/packages"
	"math/big"
	"strings"

	"verif/internal/absint"
	"verif/internal/load"
	"verif/internal/models"
	"verif/internal/refmath"
	"verif/internal/sym"
)

func init() { register("C15", "other", checkC15) }

func checkC15(c *Ctx) {
	prog := c.Prog(load.AMD64)
	c15Drivers(c, prog)
	c15Uniform(c, prog)
	c15HashLinked(c, prog)
	k := c15Consts(c, prog)
	if k != nil {
		c15SWU(c, prog, k)
		c15Iso(c, prog, k)
	}
	c.R.Explanation = "The two suite functions are abstractly interpreted with a symbolic message and a domain separation tag of symbolic length: an error is returned exactly for the empty tag, and the 48 / 96 uniform bytes are, as SHA-256 transcript terms and for both cases len(DST) <= 255 / > 255 (DST replaced by SHA256('H2C-OVERSIZE-DST-' || DST)), b_1 [|| b_2 || b_3] of RFC 9380 5.3.1 with b_0 = H(0^64 || msg || I2OSP(len,2) || 0 || DST'), b_1 = H(b_0 || 1 || DST'), b_i = H(b_0 xor b_(i-1) || i || DST'); NU = map(u[0:48]), RO = map(u[0:48]) + map(u[48:96]). SetUniformBytes = select(iso_ok, identity, (x, y, 1)) of IsoMap(MapToCurveSimpleSWU(OS2IP(src) mod p)) with the validity flag set. MapToCurveSimpleSWU is compared, for the four valuations of (exceptional case, gx1 square) and all sign cases, with the straight-line procedure of RFC 9380 F.2 written out in the checker; IsoMap's outputs are the rational functions with the 13 coefficient literals, which (read from the source) satisfy the polynomial identity g'(x) ynum^2 xden^3 = (xnum^3 + 7 xden^3) yden^2 in F_p[x] (so the map sends E' into secp256k1) and equal RFC 9380 E.1; Z = -11 is a non-square satisfying the RFC's criteria, A', B' are section 8.7's, c2^2 = -Z."
	c.R.Assumptions = []string{"C01 (field specification incl. wide reduction, sqrt_ratio, IsOdd = sgn0), C03 (addition)", "crypto/sha256; collision resistance / uniformity are cryptographic properties and not decided"}
}

// c15HashLinked: a package that instantiates a hash through crypto.Hash.New and names a hash identifier must have the
// implementing package in its own import closure; otherwise New panics ("requested hash function is unavailable") in
// every program that does not happen to link the implementation for another reason.
func c15HashLinked(c *Ctx, prog *load.Program) {
	impl := map[string]string{"SHA224": "crypto/sha256", "SHA256": "crypto/sha256", "SHA384": "crypto/sha512", "SHA512": "crypto/sha512",
		"SHA512_224": "crypto/sha512", "SHA512_256": "crypto/sha512", "SHA1": "crypto/sha1", "MD5": "crypto/md5",
		"SHA3_224": "golang.org/x/crypto/sha3", "SHA3_256": "golang.org/x/crypto/sha3", "SHA3_384": "golang.org/x/crypto/sha3", "SHA3_512": "golang.org/x/crypto/sha3"}
	n := 0
	for _, pkg := range prog.Pkgs {
		callsNew := false
		var newPos token.Pos
		used := map[string]token.Pos{}
		for id, obj := range pkg.TypesInfo.Uses {
			if obj.Pkg() == nil || obj.Pkg().Path() != "crypto" {
				continue
			}
			switch o := obj.(type) {
			case *types.Const:
				if _, ok := impl[o.Name()]; ok {
					used[o.Name()] = id.Pos()
				}
			case *types.Func:
				if o.Name() == "New" {
					if sig, ok := o.Type().(*types.Signature); ok && sig.Recv() != nil && strings.HasSuffix(sig.Recv().Type().String(), "crypto.Hash") {
						callsNew, newPos = true, id.Pos()
					}
				}
			}
		}
		if !callsNew || len(used) == 0 {
			continue
		}
		// import closure of the package (the package itself included)
		closure := map[string]bool{}
		var visit func(p *packages.Package)
		visit = func(p *packages.Package) {
			if closure[p.PkgPath] {
				return
			}
			closure[p.PkgPath] = true
			for _, q := range p.Imports {
				visit(q)
			}
		}
		visit(pkg)
		for _, name := range SortedKeys(used) {
			n++
			key := "hash-linked/" + strings.TrimPrefix(pkg.PkgPath, models.Mod+"/") + "/" + name
			c.R.Decide(closure[impl[name]], "C15-1", key, PosStr(prog, newPos),
				"crypto."+name+".New() is backed by an import of "+impl[name]+" in this package's import closure",
				"the package calls crypto.Hash.New and names crypto."+name+", but "+impl[name]+" is not in its import closure: New panics unless another package of the program happens to link it")
		}
	}
	if n == 0 {
		c.R.OK("C15-1", "hash-linked/none", "", "no package instantiates a hash through crypto.Hash.New")
	}
}

// xmdSpec builds the RFC 9380 5.3.1 blocks for output length n (48 or 96) in the two DST cases.
func xmdSpec(dst, msg *sym.Term, n int, oversize bool) *sym.Term {
	var dstP *sym.Term
	if oversize {
		d := sha256T(sym.ConstStr(sym.Bytes, "H2C-OVERSIZE-DST-"), dst)
		dstP = absint.CatBytes(d, sym.ConstStr(sym.Bytes, "\x20"))
	} else {
		lb := sym.App(sym.Bytes, "byte", absint.Trunc(8, symLen(dst.S)))
		sym.SetBytesLen(lb, 1)
		dstP = absint.CatBytes(dst, lb)
	}
	zpad := sym.ConstStr(sym.Bytes, string(make([]byte, 64)))
	lib := sym.ConstStr(sym.Bytes, string([]byte{byte(n >> 8), byte(n), 0}))
	b0 := sha256T(zpad, msg, lib, dstP)
	b1 := sha256T(b0, sym.ConstStr(sym.Bytes, "\x01"), dstP)
	out := []*sym.Term{b1}
	prev := b1
	for i := 2; i*32 <= n+31 && len(out)*32 < n; i++ {
		x := sym.App(sym.Bytes, "xorbytes", prev, b0)
		sym.SetBytesLen(x, 32)
		bi := sha256T(x, sym.ConstStr(sym.Bytes, string([]byte{byte(i)})), dstP)
		out = append(out, bi)
		prev = bi
	}
	all := absint.CatBytes(out...)
	return absint.SubBytes(all, sym.ConstI(0), sym.ConstI(int64(n)))
}

func c15Drivers(c *Ctx, prog *load.Program) {
	dstLen := symLen("dst")
	over := absint.Lt(sym.ConstI(255), dstLen)
	for _, suite := range []struct {
		name string
		n    int
	}{{"Secp256k1_XMD_SHA256_SSWU_NU", 48}, {"Secp256k1_XMD_SHA256_SSWU_RO", 96}} {
		r := RunFn(prog, protoSet(nil), models.H2cPkg+"."+suite.name, &RunOpts{Args: named("dst", "msg")})
		key := "suite/" + suite.name
		if r.Fn == nil {
			c.R.Unknown("C15-1", key, "", "function not found")
			continue
		}
		pos := PosOf(prog, r.Fn)
		if p := runComplete(r); p != "" {
			c.R.Unknown("C15-1", key, pos, p)
			continue
		}
		for _, pn := range r.Ex.Panics {
			c.R.Fail("C15-1", key+"/no-panic", PosStr(prog, pn.Pos), fmt.Sprintf("a panic (%s) is reachable when {%s}", pn.Msg, GuardString(pn.Guard)))
		}
		indexSafety(c, "C15-1", key, pos, r)
		acc, prob := acceptFormula(r, 1)
		if prob != "" {
			c.R.Unknown("C15-1", key, pos, prob)
			continue
		}
		ok, detail := Equivalent(acc, fNot(FTerm(sym.Eq(dstLen, sym.ConstI(0)))))
		c.R.Decide(ok, "C15-1", key+"/accept", pos, "an error is returned exactly for the empty domain separation tag", "error condition differs: "+detail)
		vok, vdetail := true, ""
		n := 0
		for _, e := range r.Ex.Returns {
			e := e
			res := exitResult(e, 0)
			o, d := CheckUnder(fAnd(FGuard(e.Guard), acc, fOr(FTerm(over), fNot(FTerm(over)))), []absint.Val{res}, nil, func(asg map[*sym.Term]bool) string {
				pt := loadPtrTerm(r.Ex, e.St, resolveChoice(res, asg))
				if pt == nil {
					return "no point returned"
				}
				n++
				u := xmdSpec(symBytes("dst"), symBytes("msg"), suite.n, asg[sym.Canon(over)])
				m := func(lo, hi int64) *sym.Term {
					return sym.App(sym.Point, "map_to_curve", absint.SubBytes(u, sym.ConstI(lo), sym.ConstI(hi)))
				}
				want := m(0, 48)
				if suite.n == 96 {
					want = sym.Add(m(0, 48), m(48, 96))
				}
				got := ResolveIte(pt, asg)
				if !sym.Equal(got, want) {
					return "result differs from RFC 9380 5.3.1 at: " + termDiff(got, want)
				}
				return ""
			})
			if !o && d != "the condition is unsatisfiable (vacuous)" {
				vok, vdetail = false, d
			}
		}
		c.R.Decide(vok && n >= 2, "C15-1", key+"/value", pos, "expand_message_xmd (both DST cases) then map_to_curve per 48-byte block"+map[bool]string{true: " and addition", false: ""}[suite.n == 96], "suite output differs from RFC 9380: "+vdetail)
	}
	// control: the oversize threshold
	{
		a := xmdSpec(symBytes("dst"), symBytes("msg"), 48, false)
		b := xmdSpec(symBytes("dst"), symBytes("msg"), 48, true)
		c.R.ControlResult("C15-1", "dst-cases-differ", "the two DST cases must give different transcripts", !sym.Equal(a, b))
	}
	// expandMessageXMD parameter guards on arbitrary arguments (not reachable from the public API)
	c15XMDGuards(c, prog)
	c.R.Floor("C15-1", 4)
}

func c15XMDGuards(c *Ctx, prog *load.Program) {
	name := models.H2cPkg + ".expandMessageXMD"
	// out of length 0 and > 65535 are refused; index safety for every accepted length is part of the suite runs
	for _, tc := range []struct {
		key string
		pre func(st *absint.State)
	}{
		{"len=0", func(st *absint.State) { st.Assume(sym.Eq(symLen("out"), sym.ConstI(0)), true, "empty output") }},
		{"len>65535", func(st *absint.State) {
			st.Assume(absint.Lt(sym.ConstI(65535), symLen("out")), true, "oversized output")
		}},
	} {
		r := RunFn(prog, protoSet(nil), name, &RunOpts{Args: named("out", "h", "dst", "msg"), Pre: func(ex *absint.Exec, st *absint.State, args []absint.Val) {
			args[1] = sym.ConstI(5)
			tc.pre(st)
		}})
		if r.Fn == nil {
			c.R.Unknown("C15-1", "xmd/"+tc.key, "", "expandMessageXMD not found")
			return
		}
		acc, prob := acceptFormula(r, 0)
		ok := prob == "" && r.Err == nil && len(r.Ex.Fails) == 0
		if ok {
			ok, _ = Equivalent(acc, fConst(false))
		}
		c.R.Decide(ok, "C15-1", "xmd/"+tc.key, PosOf(prog, r.Fn), "refused with an error", "an out-of-range output length is not refused")
	}
}

func c15Uniform(c *Ctx, prog *load.Program) {
	set := fieldSet()
	set.Intercepts[models.SwuPkg+".MapToCurveSimpleSWU"] = func(ex *absint.Exec, cc *absint.CallCtx) (absint.Val, bool) {
		u := loadPtrTerm(ex, cc.St, cc.Args[0])
		if u == nil {
			return nil, false
		}
		u = sym.Canon(u)
		return absint.Tuple{ex.AllocAbs(models.ElementType, models.FieldPkg, "Element", sym.App(sym.Fp, "swu_x", u)), ex.AllocAbs(models.ElementType, models.FieldPkg, "Element", sym.App(sym.Fp, "swu_y", u))}, true
	}
	set.Intercepts[models.SwuPkg+".IsoMap"] = func(ex *absint.Exec, cc *absint.CallCtx) (absint.Val, bool) {
		x, y := loadPtrTerm(ex, cc.St, cc.Args[0]), loadPtrTerm(ex, cc.St, cc.Args[1])
		if x == nil || y == nil {
			return nil, false
		}
		x, y = sym.Canon(x), sym.Canon(y)
		return absint.Tuple{ex.AllocAbs(models.ElementType, models.FieldPkg, "Element", sym.App(sym.Fp, "iso_x", x, y)), ex.AllocAbs(models.ElementType, models.FieldPkg, "Element", sym.App(sym.Fp, "iso_y", x, y)), sym.App(sym.Bool, "iso_ok", x, y)}, true
	}
	pl := pointFields(prog)
	r := RunFn(prog, set, Method(models.PointType, "SetUniformBytes"), &RunOpts{Args: named("v", "src")})
	if r.Fn == nil {
		c.R.Unknown("C15-3", "SetUniformBytes", "", "function not found")
		return
	}
	pos := PosOf(prog, r.Fn)
	if r.Err != nil || len(r.Ex.Fails) > 0 || r.Out.Ret == nil {
		c.R.Unknown("C15-3", "SetUniformBytes", pos, r.Problem())
		return
	}
	u := sym.App(sym.Fp, "fp_of_wide", symBytes("src"))
	sx, sy := sym.App(sym.Fp, "swu_x", u), sym.App(sym.Fp, "swu_y", u)
	ix, iy, ok := sym.App(sym.Fp, "iso_x", sx, sy), sym.App(sym.Fp, "iso_y", sx, sy), sym.App(sym.Bool, "iso_ok", sx, sy)
	got := coordsOf(r, pl, 0)
	flag, _ := r.FieldOf(0, pl.valid).(*sym.Term)
	want := []*sym.Term{sym.Ite(ok, ix, fpConst(0)), sym.Ite(ok, iy, fpConst(1)), sym.Ite(ok, fpConst(1), fpConst(0)), sym.ConstBool(true)}
	o, d := ValuesUnder(fOr(FTerm(ok), fNot(FTerm(ok))), []*sym.Term{got[0], got[1], got[2], flag}, want)
	c.R.Decide(o, "C15-3", "SetUniformBytes", pos, "u = OS2IP(src) mod p; (x', y') = map_to_curve_simple_swu(u); (x, y) = iso_map(x', y'); result = (x, y, 1), or the identity when a denominator vanishes; validity flag set", "SetUniformBytes differs: "+d)
	// every length SetWideBytes reduces (32..64 bytes, C01) must be mapped: no panic for any of them
	bad := ""
	for L := 32; L <= 64 && bad == ""; L++ {
		L := L
		rl := RunFn(prog, set, Method(models.PointType, "SetUniformBytes"), &RunOpts{Args: named("v", "src"), Pre: func(ex *absint.Exec, st *absint.State, args []absint.Val) {
			args[1] = ex.BytesToSlice(st, absint.SymBytes("src", L, 0), "src")
		}})
		if rl.Err != nil || len(rl.Ex.Fails) > 0 {
			bad = fmt.Sprintf("length %d: %s", L, rl.Problem())
		} else if len(rl.Ex.Panics) > 0 {
			bad = fmt.Sprintf("length %d: a panic (%s) is reachable when {%s}", L, rl.Ex.Panics[0].Msg, GuardString(rl.Ex.Panics[0].Guard))
		} else if rl.Out.Ret == nil {
			bad = fmt.Sprintf("length %d: the call does not return", L)
		}
	}
	c.R.Decide(bad == "", "C15-3", "SetUniformBytes/lengths", pos, "every uniform string of 32..64 bytes is mapped (no panic, the call returns)", "a uniform string that must be mapped is refused: "+bad)
	c.R.Floor("C15-3", 2)
}

type swuConsts struct {
	Z, A, B *big.Int
	iso     refmath.IsoConsts
}

func c15Consts(c *Ctx, prog *load.Program) *swuConsts {
	set := fieldSet()
	get := func(pkg, name string) *big.Int {
		t := readGlobalFp(c, prog, set, pkg, name, "C15-5")
		if t == nil || !t.IsConst() {
			if t != nil {
				c.R.Unknown("C15-5", "anchor/"+name, "", "not a constant: "+t.String())
			}
			return nil
		}
		return t.C
	}
	k := &swuConsts{Z: get(models.SwuPkg, "feZ"), A: get(models.SwuPkg, "feA"), B: get(models.SwuPkg, "feB")}
	k.iso = refmath.IsoConsts{
		K10: get(models.SwuPkg, "feK10"), K11: get(models.SwuPkg, "feK11"), K12: get(models.SwuPkg, "feK12"), K13: get(models.SwuPkg, "feK13"),
		K20: get(models.SwuPkg, "feK20"), K21: get(models.SwuPkg, "feK21"),
		K30: get(models.SwuPkg, "feK30"), K31: get(models.SwuPkg, "feK31"), K32: get(models.SwuPkg, "feK32"), K33: get(models.SwuPkg, "feK33"),
		K40: get(models.SwuPkg, "feK40"), K41: get(models.SwuPkg, "feK41"), K42: get(models.SwuPkg, "feK42"),
		A: k.A, B: k.B,
	}
	c2 := get(models.FieldPkg, "feC2")
	one := get(models.SwuPkg, "feOne")
	if k.Z == nil || k.A == nil || k.B == nil || c2 == nil || one == nil || k.iso.K10 == nil || k.iso.K42 == nil {
		return nil
	}
	c.R.Decide(one.Cmp(big.NewInt(1)) == 0, "C15-5", "const/feOne", "", "feOne = 1", "feOne is not 1")
	for _, f := range refmath.CheckSWUConsts(k.Z, k.A, k.B, c2) {
		c.R.Decide(f.OK, "C15-5", f.Key, "internal/swu/swu.go", f.Detail, f.Detail)
	}
	for _, f := range refmath.CheckIsogeny(k.iso) {
		c.R.Decide(f.OK, "C15-5", f.Key, "internal/swu/swu.go", f.Detail, f.Detail)
	}
	c.R.Floor("C15-5", 12)
	return k
}

// c15SWU: MapToCurveSimpleSWU = RFC 9380 F.2 (simplified SWU for AB != 0), step by step.
func c15SWU(c *Ctx, prog *load.Program, k *swuConsts) {
	set := fieldSet()
	r := RunFn(prog, set, models.SwuPkg+".MapToCurveSimpleSWU", &RunOpts{Args: named("u")})
	if r.Fn == nil {
		c.R.Unknown("C15-4", "swu", "", "MapToCurveSimpleSWU not found")
		return
	}
	pos := PosOf(prog, r.Fn)
	if !r.OK() {
		c.R.Unknown("C15-4", "swu", pos, r.Problem())
		return
	}
	gx := loadPtrTerm(r.Ex, r.Final(), r.Result(0))
	gy := loadPtrTerm(r.Ex, r.Final(), r.Result(1))
	// input unchanged
	uAfter, _ := r.FieldOf(0).(*sym.Term)
	u := fpSym("*u")
	if uAfter == nil || !sym.Equal(uAfter, u) {
		c.R.Fail("C15-4", "swu/input-unchanged", pos, "the input element is modified")
	}
	Z, A, B := sym.Const(sym.Fp, k.Z), sym.Const(sym.Fp, k.A), sym.Const(sym.Fp, k.B)
	one := fpConst(1)
	cmov := func(a, b, cond *sym.Term) *sym.Term { return sym.Ite(cond, b, a) } // CMOV(a, b, c) = b if c else a
	sq := func(a *sym.Term) *sym.Term { return sym.Mul(a, a) }
	// RFC 9380 F.2
	tv1 := sq(u)                                                               // 1
	tv1 = sym.Mul(Z, tv1)                                                      // 2
	tv2 := sq(tv1)                                                             // 3
	tv2 = sym.Add(tv2, tv1)                                                    // 4
	tv3 := sym.Add(tv2, one)                                                   // 5
	tv3 = sym.Mul(B, tv3)                                                      // 6
	tv2nz := sym.Not(models.RingEq(tv2, fpConst(0)))                           //    tv2 != 0
	tv4 := cmov(Z, sym.Neg(tv2), tv2nz)                                        // 7
	tv4 = sym.Mul(A, tv4)                                                      // 8
	tv2 = sq(tv3)                                                              // 9
	tv6 := sq(tv4)                                                             // 10
	tv5 := sym.Mul(A, tv6)                                                     // 11
	tv2 = sym.Add(tv2, tv5)                                                    // 12
	tv2 = sym.Mul(tv2, tv3)                                                    // 13
	tv6 = sym.Mul(tv6, tv4)                                                    // 14
	tv5 = sym.Mul(B, tv6)                                                      // 15
	tv2 = sym.Add(tv2, tv5)                                                    // 16
	x := sym.Mul(tv1, tv3)                                                     // 17
	isSq := sym.App(sym.Bool, "sqrt_ratio_qr", sym.Canon(tv2), sym.Canon(tv6)) // 18
	y1 := sym.App(sym.Fp, "sqrt_ratio", sym.Canon(tv2), sym.Canon(tv6))
	y := sym.Mul(tv1, u)   // 19
	y = sym.Mul(y, y1)     // 20
	x = cmov(x, tv3, isSq) // 21
	y = cmov(y, y1, isSq)  // 22
	// 23-24 sign: decided per valuation below
	xOut := sym.Mul(x, models.Inv(tv4)) // 25
	if gx == nil || gy == nil {
		c.R.Unknown("C15-4", "swu", pos, "results are not terms")
		return
	}
	exc := models.RingEq(sym.Add(sq(sym.Mul(Z, sq(u))), sym.Mul(Z, sq(u))), fpConst(0)) // Z^2 u^4 + Z u^2 == 0
	good := true
	detail := ""
	cases := 0
	for _, e := range []bool{false, true} {
		for _, q := range []bool{false, true} {
			part := map[*sym.Term]bool{sym.Canon(exc): e, sym.Canon(isSq): q}
			gxr, gyr := ResolveIte(gx, part), ResolveIte(gy, part)
			wx, wyBase := ResolveIte(xOut, part), ResolveIte(y, part)
			oddU, oddY := models.Odd(u), models.Odd(wyBase)
			o, d := CheckUnder(fAnd(fOr(FTerm(oddU), fNot(FTerm(oddU))), fOr(FTerm(oddY), fNot(FTerm(oddY)))), nil, []*sym.Term{gxr, gyr}, func(asg map[*sym.Term]bool) string {
				cases++
				e1 := asg[sym.Canon(oddU)] == asg[sym.Canon(oddY)] // 23
				wy := wyBase
				if !e1 {
					wy = sym.Neg(wyBase) // 24: y = CMOV(-y, y, e1)
				}
				if g := ResolveIte(gxr, asg); !sym.Equal(g, wx) {
					return "x is " + clip(sym.Canon(g).String(), 500) + ", RFC gives " + clip(sym.Canon(wx).String(), 500)
				}
				if g := ResolveIte(gyr, asg); !sym.Equal(g, wy) {
					return "y is " + clip(sym.Canon(g).String(), 500) + ", RFC gives " + clip(sym.Canon(wy).String(), 500)
				}
				return ""
			})
			if !o {
				good, detail = false, fmt.Sprintf("exceptional=%v gx1-square=%v: %s", e, q, d)
			}
		}
	}
	c.R.Decide(good && cases >= 16, "C15-4", "swu/rfc9380-F.2", pos, fmt.Sprintf("outputs equal the 26-step procedure of RFC 9380 F.2 in all %d (exceptional, square, sgn0(u), sgn0(y)) cases", cases), "MapToCurveSimpleSWU differs from RFC 9380 F.2: "+detail)
	c.R.Floor("C15-4", 1)
}

// c15Iso: IsoMap = (xnum/xden, Y*ynum/yden, denominators non-zero) with the coefficient literals.
func c15Iso(c *Ctx, prog *load.Program, k *swuConsts) {
	set := fieldSet()
	r := RunFn(prog, set, models.SwuPkg+".IsoMap", &RunOpts{Args: named("X", "Y")})
	if r.Fn == nil {
		c.R.Unknown("C15-5", "iso", "", "IsoMap not found")
		return
	}
	pos := PosOf(prog, r.Fn)
	if !r.OK() {
		c.R.Unknown("C15-5", "iso", pos, r.Problem())
		return
	}
	X, Y := fpSym("*X"), fpSym("*Y")
	poly := func(cs ...*big.Int) *sym.Term { // c0 + c1 X + c2 X^2 + ...
		var t *sym.Term = fpConst(0)
		pw := fpConst(1)
		for _, cf := range cs {
			t = sym.Add(t, sym.Mul(sym.Const(sym.Fp, cf), pw))
			pw = sym.Mul(pw, X)
		}
		return t
	}
	one := big.NewInt(1)
	i := k.iso
	xnum, xden := poly(i.K10, i.K11, i.K12, i.K13), poly(i.K20, i.K21, one)
	ynum, yden := poly(i.K30, i.K31, i.K32, i.K33), poly(i.K40, i.K41, i.K42, one)
	wx := sym.Mul(xnum, models.Inv(xden))
	wy := sym.Mul(Y, sym.Mul(ynum, models.Inv(yden)))
	gx := loadPtrTerm(r.Ex, r.Final(), r.Result(0))
	gy := loadPtrTerm(r.Ex, r.Final(), r.Result(1))
	gok, _ := r.Result(2).(*sym.Term)
	okx := gx != nil && sym.Equal(gx, wx)
	oky := gy != nil && sym.Equal(gy, wy)
	c.R.Decide(okx && oky, "C15-5", "iso/rational-map", pos, "x = xnum(X)/xden(X), y = Y*ynum(X)/yden(X) with the literal coefficients in the RFC's positions (monic denominators)", "IsoMap is not the rational map of its coefficient literals")
	zx, zy := models.RingEq(xden, fpConst(0)), models.RingEq(yden, fpConst(0))
	flagOK := false
	if gok != nil {
		flagOK, _ = Equivalent(FTerm(gok), fAnd(fNot(FTerm(zx)), fNot(FTerm(zy))))
	}
	c.R.Decide(flagOK, "C15-5", "iso/flag", pos, "the flag is set exactly when neither denominator vanishes", "the on-curve flag is not [xden != 0 and yden != 0]: "+absint.ValString(gok))
	if a, _ := r.FieldOf(0).(*sym.Term); a == nil || !sym.Equal(a, X) {
		c.R.Fail("C15-5", "iso/inputs-unchanged", pos, "IsoMap modifies X")
	}
	if a, _ := r.FieldOf(1).(*sym.Term); a == nil || !sym.Equal(a, Y) {
		c.R.Fail("C15-5", "iso/inputs-unchanged", pos, "IsoMap modifies Y")
	}
}
