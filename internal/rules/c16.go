package rules

import (
	"fmt"
	"go/types"

	"golang.org/x/tools/go/ssa"

	"verif/internal/absint"
	"verif/internal/load"
	"verif/internal/models"
	"verif/internal/sym"
)

func init() { register("C16", "other", checkC16) }

func checkC16(c *Ctx) {
	progs := []*load.Program{c.Prog(load.AMD64)}
	if c.Thorough() {
		progs = append(progs, c.Prog(load.Purego))
	}
	for _, prog := range progs {
		c16Double(c, prog)
		for _, name := range []string{"MultiScalarMult", "MultiScalarMultVartime"} {
			c16Multi(c, prog, name)
			c16Shape(c, prog, name)
		}
	}
	c.R.Explanation = "DoubleScalarMultBasepointVartime, MultiScalarMult and MultiScalarMultVartime are abstractly interpreted with points as elements of a Z/n-module: for list lengths 0..3 (loops unrolled by constant propagation) the result is recognised as the sum over all 64 nibbles of every scalar encoding with weights 16^k times the corresponding point, i.e. exactly sum s_i*P_i, also when the receiver is one of the inputs; mismatched lengths panic before anything is read; length 1 delegates to the GLV multiply; a loop-shape rule (every loop over the inputs runs j = 0..l-1 and its body touches only entry j) extends the instances to every length; the double-scalar routine is u1*G (byte-indexed generator table holding its specified multiples) plus u2*P (GLV ladder)."
	c.R.Assumptions = []string{"C03 (complete addition), C04 (table, lookups, GLV split), C05 (generator table content)"}
}

func c16Double(c *Ctx, prog *load.Program) {
	key := "dsmbv@" + prog.Config.Name
	for _, alias := range []bool{false, true} {
		k := key
		var opts *RunOpts
		if alias {
			k += "/recv=p"
			opts = &RunOpts{Args: []ArgSpec{{Alias: -1, SameSymsAs: -1, Name: "p"}, {Alias: -1, SameSymsAs: -1}, {Alias: -1, SameSymsAs: -1}, {Alias: 0, SameSymsAs: -1}}}
		}
		r := RunFn(prog, glvLadderSet(true), Method(models.PointType, "DoubleScalarMultBasepointVartime"), opts)
		pos := PosOf(prog, r.Fn)
		if !r.OK() {
			c.R.Unknown("C16-1", k, pos, r.Problem())
			continue
		}
		got, _ := r.FieldOf(0).(*sym.Term)
		if got == nil {
			c.R.Unknown("C16-1", k, pos, "result is not a term")
			continue
		}
		rew, uses, err := recogniseLadder(got)
		if err != nil {
			c.R.Fail("C16-1", k, pos, err.Error())
			continue
		}
		want := sym.Add(sym.Mul(sym.Sym(sym.Fn, "*u1"), models.G), sym.Mul(sym.Sym(sym.Fn, "*u2"), sym.Sym(sym.Point, "*p")))
		ok, detail := equalByCases(r.Ex, rew, want)
		c.R.Decide(ok && len(uses) == 3, "C16-1", k, pos, "result = u1*G + u2*P ("+detail+")", fmt.Sprintf("double-scalar result is not u1*G + u2*P (%d scanned scalars): %s", len(uses), detail))
	}
	c.R.Floor("C16-1", 2)
}

// buildMultiArgs builds (v, scalars, points) with n entries; recvAt >= 0 makes the receiver points[recvAt].
func buildMultiArgs(ex *absint.Exec, st *absint.State, fn *ssa.Function, n, m, recvAt int) []absint.Val {
	mk := func(t types.Type, name string, cnt int, srt sym.Sort) (*absint.SliceVal, []*absint.Ptr) {
		sl := t.Underlying().(*types.Slice)
		at := types.NewArray(sl.Elem(), int64(cnt))
		arr := ex.Alloc(at, name, nil, absint.Origin{Kind: "param", Root: name})
		var ptrs []*absint.Ptr
		for k := 0; k < cnt; k++ {
			ev := ex.SymParam(sl.Elem(), fmt.Sprintf("%s%d", name, k), 0).(*absint.Ptr)
			ex.StoreLeaf(st, ev, sym.Sym(srt, fmt.Sprintf("%s%d", name, k)), 0)
			ex.Store(st, ex.ElemPtr(arr, int64(k)), ev, sl.Elem())
			ptrs = append(ptrs, ev)
		}
		return &absint.SliceVal{Base: ex.ElemPtr(arr, 0), Len: sym.ConstI(int64(cnt)), Cap: sym.ConstI(int64(cnt))}, ptrs
	}
	scalars, _ := mk(fn.Params[1].Type(), "s", n, sym.Fn)
	points, pp := mk(fn.Params[2].Type(), "P", m, sym.Point)
	var recv absint.Val = ex.SymParam(fn.Params[0].Type(), "v", 0)
	if recvAt >= 0 && recvAt < len(pp) {
		recv = pp[recvAt]
	}
	return []absint.Val{recv, scalars, points}
}

func c16Multi(c *Ctx, prog *load.Program, name string) {
	fname := Method(models.PointType, name)
	for n := 0; n <= 3; n++ {
		for recvAt := -1; recvAt < n; recvAt++ {
			key := fmt.Sprintf("multi/%s@%s/len=%d/recv=%d", name, prog.Config.Name, n, recvAt)
			cfg := &absint.Config{Prog: prog}
			glvLadderSet(false).Apply(cfg)
			ex := absint.New(cfg)
			fn := ex.Func(fname)
			if fn == nil {
				c.R.Unknown("C16-2", key, "", "function not found")
				return
			}
			pos := PosOf(prog, fn)
			st := ex.NewState()
			args := buildMultiArgs(ex, st, fn, n, n, recvAt)
			out, err := ex.Call(st, fn, args)
			if err != nil || out.Ret == nil || len(ex.Fails) > 0 {
				c.R.Unknown("C16-2", key, pos, fmt.Sprintf("analysis incomplete: %v %v", err, firstN(ex.Fails, 2)))
				continue
			}
			got, _ := out.Ret.St.Resolve(ex.LoadLeaf(out.Ret.St, args[0].(*absint.Ptr))).(*sym.Term)
			if got == nil {
				c.R.Unknown("C16-2", key, pos, "result is not a term")
				continue
			}
			rew, uses, err := recogniseLadder(got)
			if err != nil {
				c.R.Fail("C16-2", key, pos, err.Error())
				continue
			}
			var want *sym.Term = models.PointZero
			for i := 0; i < n; i++ {
				want = sym.Add(want, sym.Mul(sym.Sym(sym.Fn, fmt.Sprintf("s%d", i)), sym.Sym(sym.Point, fmt.Sprintf("P%d", i))))
			}
			ok, detail := equalByCases(ex, rew, want)
			full := true
			if n >= 2 {
				for _, u := range uses {
					if u.Start != 0 {
						full = false
					}
				}
			}
			c.R.Decide(ok && full, "C16-2", key, pos, fmt.Sprintf("result = sum of %d products s_i*P_i (%s)", n, detail), "multi-scalar result is not the sum of s_i*P_i: "+detail)
		}
	}
	// mismatched lengths are refused before any input is read
	for _, lens := range [][2]int{{1, 2}, {2, 1}, {0, 1}} {
		key := fmt.Sprintf("multi/%s@%s/mismatch=%d,%d", name, prog.Config.Name, lens[0], lens[1])
		cfg := &absint.Config{Prog: prog}
		glvLadderSet(false).Apply(cfg)
		ex := absint.New(cfg)
		fn := ex.Func(fname)
		st := ex.NewState()
		args := buildMultiArgs(ex, st, fn, lens[0], lens[1], -1)
		out, _ := ex.Call(st, fn, args)
		c.R.Decide(out.Ret == nil && len(ex.Panics) == 1, "C16-2", key, PosOf(prog, fn), "panics", "mismatched list lengths are not refused")
	}
	c.R.Floor("C16-2", 26)
}

// c16Shape: every loop over the inputs is `for j := 0; j < l; j++` with l = len(scalars) and touches entry j only; no
// branch distinguishes list lengths above 3.  The loops may live in the routine itself, in function literals of it, or
// in module helpers that receive the two lists.
type c16Ctx struct {
	fn        *ssa.Function
	scal, pts ssa.Value // the values denoting the two input lists in fn
	parent    *c16Ctx
	mc        *ssa.MakeClosure // for a function literal: the instruction of the parent that creates it
}

func c16Shape(c *Ctx, prog *load.Program, name string) {
	fn := absint.FindFunc(prog.SSA, Method(models.PointType, name))
	if fn == nil {
		return
	}
	pos := PosOf(prog, fn)
	if len(fn.Params) < 3 {
		c.R.Unknown("C16-2", "shape/"+name+"@"+prog.Config.Name, pos, "unexpected signature")
		return
	}
	isConst := func(v ssa.Value, k int64) bool {
		c, ok := v.(*ssa.Const)
		return ok && c.Value != nil && c.Int64() == k
	}
	// isList: v denotes one of the two input lists (equal in length by the guard - rule multi/.../mismatch), or a
	// slice made with their length
	var equalL func(cx *c16Ctx, v ssa.Value, depth int) bool
	var isList func(cx *c16Ctx, v ssa.Value, depth int) bool
	// cellValue: the single value stored in a local variable that lives in memory (captured by a function literal)
	cellValue := func(cx *c16Ctx, a *ssa.Alloc) ssa.Value {
		var val ssa.Value
		n := 0
		for _, r := range *a.Referrers() {
			switch x := r.(type) {
			case *ssa.Store:
				if x.Addr != ssa.Value(a) {
					return nil // the address itself is stored somewhere
				}
				val = x.Val
				n++
			case *ssa.UnOp, *ssa.DebugRef:
			case *ssa.MakeClosure:
				// the literal must not assign to the variable
				lit := x.Fn.(*ssa.Function)
				for i, b := range x.Bindings {
					if b != ssa.Value(a) || i >= len(lit.FreeVars) {
						continue
					}
					for _, fr := range *lit.FreeVars[i].Referrers() {
						if st, isSt := fr.(*ssa.Store); isSt && st.Addr == ssa.Value(lit.FreeVars[i]) {
							return nil
						}
						if _, isLoad := fr.(*ssa.UnOp); !isLoad {
							if _, isDbg := fr.(*ssa.DebugRef); !isDbg {
								return nil
							}
						}
					}
				}
			default:
				return nil
			}
		}
		if n != 1 {
			return nil
		}
		return val
	}
	// resolve: look through loads of single-assignment variables, also across a function literal's captured variables
	resolve := func(cx *c16Ctx, v ssa.Value) (*c16Ctx, ssa.Value) {
		for i := 0; i < 6; i++ {
			ld, ok := v.(*ssa.UnOp)
			if !ok || ld.Op.String() != "*" {
				return cx, v
			}
			switch x := ld.X.(type) {
			case *ssa.Alloc:
				w := cellValue(cx, x)
				if w == nil {
					return cx, v
				}
				v = w
			case *ssa.FreeVar:
				if cx.parent == nil || cx.mc == nil {
					return cx, v
				}
				idx := -1
				for k, fv := range cx.fn.FreeVars {
					if fv == x {
						idx = k
					}
				}
				if idx < 0 || idx >= len(cx.mc.Bindings) {
					return cx, v
				}
				a, isA := cx.mc.Bindings[idx].(*ssa.Alloc)
				if !isA {
					return cx, v
				}
				w := cellValue(cx.parent, a)
				if w == nil {
					return cx, v
				}
				cx, v = cx.parent, w
			default:
				return cx, v
			}
		}
		return cx, v
	}
	isList = func(cx *c16Ctx, v ssa.Value, depth int) bool {
		if depth > 6 {
			return false
		}
		cx, v = resolve(cx, v)
		if v == cx.scal || v == cx.pts {
			return true
		}
		if ms, ok := v.(*ssa.MakeSlice); ok {
			return equalL(cx, ms.Len, depth+1)
		}
		return false
	}
	equalL = func(cx *c16Ctx, v ssa.Value, depth int) bool {
		if depth > 6 {
			return false
		}
		cx, v = resolve(cx, v)
		call, ok := v.(*ssa.Call)
		if !ok {
			return false
		}
		bi, isB := call.Common().Value.(*ssa.Builtin)
		if !isB || bi.Name() != "len" {
			return false
		}
		return isList(cx, call.Common().Args[0], depth+1)
	}
	loops, good := 0, true
	detail := ""
	visited := map[*ssa.Function]bool{}
	var analyse func(cx *c16Ctx, depth int)
	analyse = func(cx *c16Ctx, depth int) {
		if visited[cx.fn] || depth > 4 {
			return
		}
		visited[cx.fn] = true
		for _, b := range cx.fn.Blocks {
			for _, in := range b.Instrs {
				switch x := in.(type) {
				case *ssa.MakeClosure:
					analyse(&c16Ctx{fn: x.Fn.(*ssa.Function), parent: cx, mc: x}, depth+1)
				case ssa.CallInstruction:
					g := x.Common().StaticCallee()
					if g == nil || g.Blocks == nil || g.Pkg == nil || !load.IsModulePkg(g.Pkg.Pkg.Path()) || g == cx.fn {
						continue
					}
					// a helper that receives both lists
					var gs, gp ssa.Value
					for i, a := range x.Common().Args {
						if i >= len(g.Params) {
							break
						}
						_, ra := resolve(cx, a)
						if ra == cx.scal && cx.scal != nil {
							gs = g.Params[i]
						}
						if ra == cx.pts && cx.pts != nil {
							gp = g.Params[i]
						}
					}
					if gs != nil && gp != nil {
						analyse(&c16Ctx{fn: g, scal: gs, pts: gp}, depth+1)
					}
				}
			}
		}
		for _, b := range cx.fn.Blocks {
			if len(b.Instrs) == 0 {
				continue
			}
			ifi, ok := b.Instrs[len(b.Instrs)-1].(*ssa.If)
			if !ok {
				continue
			}
			cmp, ok := ifi.Cond.(*ssa.BinOp)
			if !ok {
				continue
			}
			// the instances cover the lengths 0..3; a branch that distinguishes larger lengths (a batch-size threshold,
			// a special case for some length above 3) would be decided by none of them and by no loop argument
			for _, pr := range [][2]ssa.Value{{cmp.X, cmp.Y}, {cmp.Y, cmp.X}} {
				if !equalL(cx, pr[0], 0) {
					continue
				}
				if k, isC := pr[1].(*ssa.Const); isC && k.Value != nil {
					if k.Int64() > 3 {
						good, detail = false, fmt.Sprintf("the routine branches on the list length against %d (%s): lengths above 3 are decided by the loop argument only, which does not cover a length-dependent special case", k.Int64(), PosStr(prog, cmp.Pos()))
					}
				}
			}
			if cmp.Op.String() != "<" || !equalL(cx, cmp.Y, 0) {
				continue
			}
			// the index value is the left operand of the comparison: either the counter itself (`for j := 0; j < l;
			// j++`: phi(0, phi+1)) or the incremented counter of a range loop (phi(-1, phi+1) with the test on phi+1)
			idx := cmp.X
			var phi *ssa.Phi
			okPhi := false
			switch x := idx.(type) {
			case *ssa.Phi:
				phi = x
				if len(x.Edges) == 2 {
					for i, e := range x.Edges {
						if st, isB := x.Edges[1-i].(*ssa.BinOp); isB && isConst(e, 0) && st.Op.String() == "+" && st.X == ssa.Value(x) && isConst(st.Y, 1) {
							okPhi = true
						}
					}
				}
			case *ssa.BinOp:
				if p, isPhi := x.X.(*ssa.Phi); isPhi && x.Op.String() == "+" && isConst(x.Y, 1) && len(p.Edges) == 2 {
					phi = p
					for i, e := range p.Edges {
						if isConst(e, -1) && p.Edges[1-i] == ssa.Value(x) {
							okPhi = true
						}
					}
				}
			}
			if phi == nil {
				continue
			}
			loops++
			if !okPhi {
				good, detail = false, "a loop over the inputs does not run j = 0, 1, ..., l-1"
			}
			// every index expression using the loop index inside the body indexes pTbls / sBytes / points / scalars with j itself
			for _, r := range *idx.Referrers() {
				switch x := r.(type) {
				case *ssa.IndexAddr:
					if x.Index != idx {
						good, detail = false, "loop counter used in a derived index"
					}
				case *ssa.BinOp:
					// the loop test itself and the increment; any other arithmetic or comparison on the counter (a second
					// bound, a special case for some position) is not uniform in the list position
					if x != cmp && !(x.Op.String() == "+" && x.X == idx && isConst(x.Y, 1)) {
						good, detail = false, fmt.Sprintf("the loop counter is used in %s at %s besides the loop test and the increment", x.Op, PosStr(prog, x.Pos()))
					}
				case *ssa.Phi, *ssa.DebugRef:
				default:
					good, detail = false, fmt.Sprintf("unexpected use of the loop counter (%T)", r)
				}
			}
		}
	}
	analyse(&c16Ctx{fn: fn, scal: fn.Params[1], pts: fn.Params[2]}, 0)
	// how many such loops there are is free (preparation, high nibbles, low nibbles on the reference tree; one loop per
	// window in other arrangements): the instances decide the values, this rule that all positions are treated alike
	if loops < 1 {
		good, detail = false, "no loop bounded by len(scalars) found (the positions of the list are not processed by loops over 0..l-1 in this routine, its function literals or the helpers that receive both lists)"
	}
	c.R.Decide(good, "C16-2", "shape/"+name+"@"+prog.Config.Name, pos, fmt.Sprintf("the %d loops over the inputs run j = 0..l-1 and index entry j only", loops), detail)
}
