package rules

import (
	"fmt"
	"go/token"
	"go/types"
	"regexp"
	"sort"
	"strings"

	"golang.org/x/tools/go/ssa"

	"verif/internal/absint"
	"verif/internal/asmx"
	"verif/internal/load"
	"verif/internal/models"
	"verif/internal/sym"
)

func init() { register("C17", "other", checkC17) }

const secretTaint uint64 = 1

// ctFinding is one use of secret-derived data in a position that must be secret independent.
type ctFinding struct {
	fn, kind, shape, pos, detail string
	f                            *ssa.Function
	prog                         *load.Program
	atoms                        []string // kinds of the secret-dependent atoms (branch / index findings)
}

// taintedAtomKinds lists the kinds of the secret-dependent atoms of a condition.
func taintedAtomKinds(t *sym.Term) []string {
	set := map[*sym.Term]bool{}
	FTerm(t).atoms(set)
	kinds := map[string]bool{}
	for a := range set {
		if a.Taint&secretTaint != 0 {
			kinds[atomKind(a)] = true
		}
	}
	return SortedKeys(kinds)
}

// constant-time externals: calls outside the module that may receive secret data.
var ctExternalPrefixes = []string{
	"math/bits.", "(encoding/binary.bigEndian).", "encoding/binary.", "crypto/subtle.", "crypto/sha256.", "crypto/hmac.", "(abstract).",
	"(*gitlab.com/yawning/tuplehash.", "gitlab.com/yawning/tuplehash.", "bytes.Clone", "bytes.Repeat", "io.ReadFull", "errors.New", "fmt.Errorf",
	"(crypto.Hash).", "(hash.Hash).", "(io.Reader).",
}

func isCTExternal(name string) bool {
	for _, p := range ctExternalPrefixes {
		if strings.HasPrefix(name, p) {
			return true
		}
	}
	return false
}

var symRe = regexp.MustCompile(`[0-9a-fx]{9,}`)

// termShape renders the operator skeleton of a term (depth 3), independent of symbol names and constants.
func termShape(t *sym.Term, depth int) string {
	if t == nil {
		return "?"
	}
	if len(t.Args) == 0 {
		if t.Op == "c" {
			if t.C != nil && t.C.BitLen() < 16 {
				return t.C.String()
			}
			return "K"
		}
		return "_"
	}
	if depth == 0 {
		return t.Op + "(..)"
	}
	var parts []string
	for _, a := range t.Args {
		parts = append(parts, termShape(a, depth-1))
	}
	if t.Op == "+" || t.Op == "*" || t.Op == "eq" || strings.HasPrefix(t.Op, "and") || strings.HasPrefix(t.Op, "or") {
		sort.Strings(parts)
	}
	if len(parts) > 4 {
		parts = append(parts[:4], "…")
	}
	return t.Op + "(" + strings.Join(parts, ",") + ")"
}

func shortFn(f *ssa.Function) string {
	if f == nil {
		return "?"
	}
	return strings.TrimPrefix(strings.ReplaceAll(f.String(), models.Mod, "~"), "")
}

// helperCallersOf: for every module function the functions (top-level) that call it statically; a nil entry means it is
// also used as a value (unknown callers).
var helperCallers = map[*load.Program]map[*ssa.Function][]*ssa.Function{}

func helperCallersOf(prog *load.Program) map[*ssa.Function][]*ssa.Function {
	if cs, ok := helperCallers[prog]; ok {
		return cs
	}
	cs := map[*ssa.Function][]*ssa.Function{}
	for _, g := range ModuleFuncs(prog) {
		top := g
		for top.Parent() != nil {
			top = top.Parent()
		}
		for _, b := range g.Blocks {
			for _, in := range b.Instrs {
				call, isCall := in.(ssa.CallInstruction)
				for _, op := range in.Operands(nil) {
					if op == nil || *op == nil {
						continue
					}
					if h, isF := (*op).(*ssa.Function); isF {
						if isCall && call.Common().StaticCallee() == h && call.Common().Value == ssa.Value(h) {
							cs[h] = append(cs[h], top)
						} else {
							cs[h] = append(cs[h], nil) // used as a value
						}
					}
				}
			}
		}
	}
	helperCallers[prog] = cs
	return cs
}

// partOf: fn is one of the functions re matches, or an unexported helper (never used as a value) every call chain to
// which passes through such a function - it is then a part of that function, however the code is cut into helpers.
func partOf(prog *load.Program, fn *ssa.Function, re *regexp.Regexp, depth int) bool {
	if fn == nil {
		return false
	}
	for fn.Parent() != nil {
		fn = fn.Parent() // a function literal belongs to the function it is written in
	}
	if re.MatchString(shortFn(fn)) {
		return true
	}
	if prog == nil || depth > 4 || token.IsExported(fn.Name()) || fn.Pkg == nil || !load.IsModulePkg(fn.Pkg.Pkg.Path()) {
		return false
	}
	callers := helperCallersOf(prog)[fn]
	if len(callers) == 0 {
		return false
	}
	for _, c := range callers {
		if c == nil || (c != fn && !partOf(prog, c, re, depth+1)) {
			return false
		}
	}
	return true
}

// ctScan extracts the constant-time findings of a run.
func ctScan(prog *load.Program, ex *absint.Exec) []ctFinding {
	out := ctScan0(prog, ex)
	for i := range out {
		out[i].prog = prog
		out[i].f = absint.FindFunc(prog.SSA, strings.ReplaceAll(out[i].fn, "~", models.Mod))
	}
	return out
}

func ctScan0(prog *load.Program, ex *absint.Exec) []ctFinding {
	var out []ctFinding
	for _, e := range ex.Events {
		switch e.Kind {
		case absint.EvBranch:
			if e.Term != nil && e.Term.Taint&secretTaint != 0 {
				out = append(out, ctFinding{fn: shortFn(e.Fn), kind: "branch", shape: termShape(e.Term, 3), pos: PosStr(prog, e.Pos), detail: "branch condition depends on secret data: " + clip(e.Term.String(), 200), atoms: taintedAtomKinds(e.Term)})
			}
		case absint.EvIndex:
			if e.Term != nil && e.Term.Taint&secretTaint != 0 {
				kinds := []string{"other:index"}
				if e.Term.Op == "+" || e.Term.Op == "len" {
					// len(encoding) - 1 and the like
					ok := true
					for _, a := range sym.PolyOf(e.Term).SortedTerms() {
						for _, at := range a.Atoms {
							if at.A.Taint&secretTaint != 0 && at.A.Op != "len" {
								ok = false
							}
						}
					}
					if ok {
						kinds = []string{"encoding-length"}
					}
				} else if constLeafChoice(e.Term) {
					// a length chosen between constants by secret-dependent tests (the encoding is 1 octet for the identity, 33 / 65
					// otherwise): the finding is about those tests, and is classified like a branch on them
					km := map[string]bool{}
					var walk func(t *sym.Term)
					walk = func(t *sym.Term) {
						if t.Op == "ite" && len(t.Args) == 3 {
							for _, k := range taintedAtomKinds(t.Args[0]) {
								km[k] = true
							}
							walk(t.Args[1])
							walk(t.Args[2])
						}
					}
					walk(e.Term)
					if len(km) > 0 {
						kinds = SortedKeys(km)
					}
				}
				out = append(out, ctFinding{fn: shortFn(e.Fn), kind: "index", shape: termShape(e.Term, 3), pos: PosStr(prog, e.Pos), detail: "memory index / slice bound depends on secret data: " + clip(e.Term.String(), 200), atoms: kinds})
			}
		case absint.EvVarTime:
			if e.Term != nil && e.Term.Taint&secretTaint != 0 {
				out = append(out, ctFinding{fn: shortFn(e.Fn), kind: "vartime-op", shape: e.Msg, pos: PosStr(prog, e.Pos), detail: e.Msg + " on secret data: " + clip(e.Term.String(), 200)})
			}
		case absint.EvCall:
			if e.ArgTaint&secretTaint == 0 {
				continue
			}
			switch {
			case strings.Contains(e.Callee, "Vartime"):
				out = append(out, ctFinding{fn: shortFn(e.Fn), kind: "vartime-call", shape: strings.ReplaceAll(e.Callee, models.Mod, "~"), pos: PosStr(prog, e.Pos), detail: "a routine documented as variable-time is called on secret data: " + e.Callee})
			case !strings.Contains(e.Callee, load.ModulePath) && !isCTExternal(e.Callee):
				out = append(out, ctFinding{fn: shortFn(e.Fn), kind: "external-call", shape: e.Callee, pos: PosStr(prog, e.Pos), detail: "secret data is passed to " + e.Callee + ", which is not in the table of constant-time library functions"})
			}
		case absint.EvUnmodelled:
			if e.ArgTaint&secretTaint != 0 && !isCTExternal(e.Callee) {
				out = append(out, ctFinding{fn: shortFn(e.Fn), kind: "unmodelled-call", shape: e.Callee, pos: PosStr(prog, e.Pos), detail: "secret data reaches a call without specification: " + e.Callee})
			}
		case absint.EvWiden:
			// a loop whose trip count is not a compile-time constant: its condition is reported as a branch event
		}
	}
	return out
}

func ctConfig(cfg *absint.Config) {
	cfg.CallFilter = func(name string) bool { return true }
	cfg.ReaderTaint = secretTaint
}

type ctRunSpec struct {
	key  string
	fn   string
	set  *models.Set
	alt  *models.Set // tried when the analysis with set is incomplete (e.g. a different abstraction level)
	args func(ex *absint.Exec, st *absint.State, fn *ssa.Function, args []absint.Val)
	// taintAll taints every pointer / array / slice / uint64 parameter value
	taintAll bool
}

// taintedArgs builds ArgSpecs tainting the value content of the parameters.
func taintedArgs(fn *ssa.Function, publicInts bool) []ArgSpec {
	out := make([]ArgSpec, len(fn.Params))
	for i, p := range fn.Params {
		out[i] = ArgSpec{Alias: -1, SameSymsAs: -1, Taint: secretTaint}
		if b, ok := p.Type().Underlying().(*types.Basic); ok {
			// loop counts / sizes of type uint, int are public; uint64 / byte controls and limbs are data
			if b.Kind() == types.Uint || b.Kind() == types.Int || b.Kind() == types.Bool || b.Kind() == types.String {
				out[i].Taint = 0
			}
		}
	}
	return out
}

func checkC17(c *Ctx) {
	progs := []*load.Program{c.Prog(load.AMD64), c.Prog(load.Purego)}
	if c.Thorough() {
		progs = append(progs, c.Prog(load.ARM64))
	}
	all := map[string][]ctFinding{}
	runs := 0
	// R5: the assembly lookups (their summaries are used by the Go-level analysis only if this rule holds)
	asmOK := map[string]bool{}
	for _, prog := range progs {
		if prog.Config.GOARCH == "amd64" && prog.Config.Tags == "" {
			asmOK[prog.Config.Name] = c17Asm(c, prog)
		}
	}
	for _, prog := range progs {
		for _, rs := range c17Runs(prog) {
			fn := absint.FindFunc(prog.SSA, rs.fn)
			if fn == nil {
				c.R.Unknown("C17-0", "anchor/"+rs.key, "", "function not found: "+rs.fn)
				continue
			}
			if fn.Blocks == nil {
				continue // assembly stub: R5
			}
			opts := &RunOpts{Config: func(cfg *absint.Config) {
				ctConfig(cfg)
				if asmOK[prog.Config.Name] {
					asmLookupSummaries(cfg)
				}
			}}
			if rs.taintAll {
				opts.Args = taintedArgs(fn, true)
			}
			opts.Pre = func(ex *absint.Exec, st *absint.State, args []absint.Val) {
				publicFlags(ex, st, prog, args)
				if rs.args != nil {
					rs.args(ex, st, fn, args)
				}
			}
			r := RunFn(prog, rs.set, rs.fn, opts)
			if (r.Err != nil || len(r.Ex.Fails) > 0) && rs.alt != nil {
				r = RunFn(prog, rs.alt, rs.fn, opts)
			}
			runs++
			key := rs.key + "@" + prog.Config.Name
			if r.Err != nil || len(r.Ex.Fails) > 0 {
				c.R.Unknown("C17-0", "analysis/"+key, PosOf(prog, fn), r.Problem())
				continue
			}
			fs := ctScan(prog, r.Ex)
			all[key] = fs
		}
	}
	// ---- decide: every finding must be covered by the declassification table
	nFind, nDecl := 0, 0
	usedDecl := map[string]int{}
	for _, k := range SortedKeys(all) {
		bad := 0
		seen := map[string]bool{}
		for _, f := range all[k] {
			id := f.fn + "|" + f.kind + "|" + f.shape
			if seen[id] {
				continue
			}
			seen[id] = true
			nFind++
			if d := declassified(f); d != "" {
				nDecl++
				usedDecl[d]++
				continue
			}
			bad++
			ctx := ""
			if len(f.atoms) > 0 {
				ctx += " [secret-dependent atoms: " + strings.Join(f.atoms, ", ") + "]"
			}
			c.R.Fail("C17-1", k+"/"+f.fn+"/"+f.kind+"/"+f.shape, f.pos, f.detail+ctx)
		}
		if bad == 0 {
			c.R.OK("C17-1", k, "", fmt.Sprintf("%d uses of secret data in control / address / variable-time positions, all declassified validity outcomes", len(seen)))
		}
	}
	for _, d := range SortedKeys(usedDecl) {
		c.R.OK("C17-D", "declassified/"+d, "", fmt.Sprintf("matched %d findings", usedDecl[d]))
	}
	c.R.Floor("C17-1", 200)
	// ---- positive controls: the variable-time twins on secret scalars must be flagged
	for _, prog := range progs[:1] {
		for _, rs := range c17MulRuns(prog, true) {
			fn := absint.FindFunc(prog.SSA, rs.fn)
			if fn == nil {
				c.R.ControlResult("C17-1", rs.key, "variable-time twin not found", false)
				continue
			}
			r := RunFn(prog, rs.set, rs.fn, &RunOpts{Config: ctConfig, Pre: func(ex *absint.Exec, st *absint.State, args []absint.Val) { rs.args(ex, st, fn, args) }})
			fired := false
			for _, f := range ctScan(prog, r.Ex) {
				if declassified(f) == "" && (f.kind == "branch" || f.kind == "index") {
					fired = true
				}
			}
			c.R.ControlResult("C17-1", rs.key, "the variable-time routine run on a secret scalar must show a secret-dependent branch or index", fired)
		}
	}
	// ---- R4: naming contract inside the curve packages
	for _, prog := range progs {
		c17Naming(c, prog)
	}
	c.R.Extra["runs"] = runs
	c.R.Extra["findings"] = nFind
	c.R.Extra["declassified"] = nDecl
	c.R.Explanation = "Interprocedural, flow- and field-sensitive taint analysis by abstract interpretation over go/ssa, run in both amd64 configurations (assembly lookups / pure-Go lookups; arm64 in the thorough tier): (L0) every fiat limb routine, the helpers and both reduceSaturated with every word secret; (A) every non-Vartime method of field.Element and Scalar with every operand secret; (B) every non-Vartime Point method, the window-table methods, the table construction and the pure-Go lookups with every coordinate, control word and index secret (the validity flag is public); (C) ScalarMult, ScalarBaseMult and MultiScalarMult with secret scalars through the real ladders, sign normalisation and window lookups; (D) the protocol layer with secret = imported key bytes, PrivateKey.scalar, SchnorrPrivateKey.d/dPrime, every byte read from an entropy reader and everything derived (nonces, XOF / HMAC output). A finding is a secret-tainted branch condition, memory index / slice bound / allocation size, division / modulo / variable shift, a call of a routine named *Vartime*, a call of a library function outside the constant-time table, or a call without specification. Every finding must match the declassification table (function + kind of secret-dependent atom + reason: validity outcomes of key import and rejection sampling, zero tests on the published r and s, identity tests on k*G / d*G / the ECDH point whose outcome is constant for non-zero scalars, the BIP-340 self-check on the public nonce point). The assembly lookups are analysed by an abstract interpreter for Go assembly: idx reaches neither an address nor a jump, the loop bound is constant, no CALL. Inside the curve packages no function without Vartime in its name calls one with it."
	c.R.Assumptions = []string{"the Go compiler does not turn branch-free SSA (masks, conditional moves by multiplication) into secret-dependent branches", "64-bit add/sub/mul/and/or/shift and SSE2 moves execute in data-independent time", "the table of constant-time library functions (math/bits, encoding/binary, crypto/subtle, sha256, hmac, tuplehash, bytes.Clone)", "micro-architectural leakage and memory sanitisation are out of scope"}
}

// atomKind classifies a secret-dependent atom of a branch condition.
func atomKind(a *sym.Term) string {
	isZero := func(t *sym.Term) bool { return t.IsConst() && t.C.Sign() == 0 }
	switch a.Op {
	case "ge_n", "ge_p":
		return "canonicity"
	case "isnil":
		return "read-error"
	case "is_identity":
		return "identity"
	case "bytes_eq":
		return "bytes-eq"
	case "odd":
		return "parity"
	case "eq":
		if len(a.Args) == 2 {
			x, y := a.Args[0], a.Args[1]
			if isZero(x) || isZero(y) {
				o := y
				if isZero(y) {
					o = x
				}
				if o.Sort == sym.Fn || o.Sort == sym.Fp {
					return "zero-test"
				}
			}
			for _, t := range []*sym.Term{x, y} {
				if t.Op == "len" {
					return "encoding-length"
				}
			}
		}
	}
	return "other:" + a.Op
}

type declassEntry struct {
	id     string
	fn     *regexp.Regexp
	kinds  map[string]bool // finding kinds
	atoms  map[string]bool // allowed kinds of secret-dependent atoms (branch findings)
	callee string          // for external-call findings
	reason string
}

func mk(vals ...string) map[string]bool {
	m := map[string]bool{}
	for _, v := range vals {
		m[v] = true
	}
	return m
}

// declassTable: one entry = one function + the kind of secret-dependent decision + why its outcome reveals nothing
// beyond a validity outcome that is constant for every valid secret (DESIGN.md C17).
var declassTable = []declassEntry{
	{"1-key-import-range", regexp.MustCompile(`^~/secec\.NewPrivateKey$|^~/secec/bitcoin\.NewSchnorrPrivateKey$`), mk("branch"), mk("canonicity", "zero-test"), "", "validity of an imported private key: constant outcome for every valid key"},
	{"2-key-nonzero", regexp.MustCompile(`^~/secec\.newPrivateKeyFromScalar$`), mk("branch"), mk("zero-test", "canonicity", "read-error"), "", "zero test of the private scalar: constant outcome for every valid key"},
	{"3-rejection-sampling", regexp.MustCompile(`^~/secec\.(sampleRandomScalar|GenerateKey|sign)$`), mk("branch"), mk("zero-test", "canonicity", "read-error"), "", "rejection sampling: only rejected candidates (probability 2^-128) influence control flow and they are discarded; r and s are the published signature"},
	{"5-identity-of-secret-multiple", regexp.MustCompile(`^\(\*~\.Point\)\.(CompressedBytes|UncompressedBytes|getCompressedBytes|getUncompressedBytes|XBytes)$|^~/secec\.newPublicKeyFromPoint$`), mk("branch", "index"), mk("zero-test", "identity"), "", "identity test on k*G, d*G or the ECDH point: the identity occurs only for a zero scalar, excluded by the non-zero guards"},
	{"5b-encoding-length", regexp.MustCompile(`^~\.SplitUncompressedPoint$`), mk("branch", "index"), mk("encoding-length"), "", "the encoding of k*G has 65 bytes unless k = 0, which the sampler / the k' test excludes"},
	{"6-self-check-public-nonce-point", regexp.MustCompile(`^~/secec/bitcoin\.(verifySchnorrSignatureR|signSchnorr|verifySchnorrSelf)$`), mk("branch"), mk("bytes-eq", "identity", "parity", "zero-test"), "", "the mandatory BIP-340 self-check compares the recomputed public nonce point with the signature being released; k' = 0 has probability 2^-256"},
	{"6b-self-check-bytes-equal", regexp.MustCompile(`^~/secec/bitcoin\.verifySchnorrSignatureR$`), mk("external-call"), nil, "bytes.Equal", "comparison of two encodings of the public nonce point of the signature being released"},
	{"8-canonical-decode", regexp.MustCompile(`^\(\*~(/internal/field)?\.(Element|Scalar)\)\.SetCanonicalBytes$|^~(/internal/field)?\.New(Element|Scalar)FromCanonicalBytes$`), mk("branch"), mk("canonicity"), "", "validity outcome of a canonical decode"},
}

// declassified returns the id of the table entry covering the finding, or "".
func declassified(f ctFinding) string {
	for _, d := range declassTable {
		match := d.fn.MatchString(f.fn)
		if !match && f.f != nil {
			// a helper that is part of the table entry's function(s)
			match = partOf(f.prog, f.f, d.fn, 0)
		}
		if !match || !d.kinds[f.kind] {
			continue
		}
		if f.kind == "external-call" {
			if f.shape == d.callee {
				return d.id
			}
			continue
		}
		ok := len(f.atoms) > 0
		for _, a := range f.atoms {
			if !d.atoms[a] {
				ok = false
			}
		}
		if ok {
			return d.id
		}
	}
	return ""
}

// c17Naming is rule R4: in the curve packages only functions named *Vartime* call functions named *Vartime*.
func c17Naming(c *Ctx, prog *load.Program) {
	sites, bad := 0, 0
	for _, fn := range ModuleFuncs(prog) {
		if fn.Pkg == nil {
			continue
		}
		pp := fn.Pkg.Pkg.Path()
		inCurve := pp == models.Mod || strings.HasPrefix(pp, models.Mod+"/internal/")
		for _, b := range fn.Blocks {
			for _, in := range b.Instrs {
				call, ok := in.(ssa.CallInstruction)
				if !ok {
					continue
				}
				callee := call.Common().StaticCallee()
				if callee == nil || !strings.Contains(callee.Name(), "Vartime") {
					continue
				}
				sites++
				caller := fn
				for caller.Parent() != nil {
					caller = caller.Parent()
				}
				if inCurve && !strings.Contains(caller.Name(), "Vartime") {
					bad++
					c.R.Fail("C17-4", "naming/"+shortFn(caller)+"->"+callee.Name()+"@"+prog.Config.Name, PosStr(prog, in.Pos()), "a routine that is not named variable-time calls the variable-time routine "+callee.Name())
				}
			}
		}
	}
	c.R.Decide(bad == 0 && sites >= 10, "C17-4", "naming@"+prog.Config.Name, "", fmt.Sprintf("%d call sites of *Vartime* routines; inside the curve packages all of them are in *Vartime* routines", sites), fmt.Sprintf("%d call sites, %d in constant-time routines", sites, bad))
}

// publicFlags replaces the validity flag of every Point argument by an untainted symbol: the flag is not secret.
func publicFlags(ex *absint.Exec, st *absint.State, prog *load.Program, args []absint.Val) {
	iv := FieldIndex(prog, models.Mod, "Point", "isValid")
	var visit func(v absint.Val, depth int)
	visit = func(v absint.Val, depth int) {
		if depth > 3 {
			return
		}
		switch x := v.(type) {
		case *absint.Ptr:
			if namedOf(x.Obj.Typ) == models.PointType && len(x.Path) == 0 && ex.IsAggregate(st, x) {
				ex.StoreLeaf(st, ex.FieldPtr(x, iv), sym.Sym(sym.Bool, x.Obj.Name+".isValid"), 0)
			}
		case *absint.SliceVal:
			if x.Base != nil {
				if n, ok := x.Len.Int64(); ok && n <= 8 {
					for i := int64(0); i < n; i++ {
						visit(st.Resolve(ex.LoadElem(st, x, i)), depth+1)
					}
				}
			}
		}
	}
	for _, a := range args {
		visit(a, 0)
	}
}

// asmLookupSummaries models the two assembly lookups in the assembly configuration by the summary rule R5
// establishes for them: they read tbl and idx, write only out, and idx reaches data only.
func asmLookupSummaries(cfg *absint.Config) {
	if cfg.Externals == nil {
		cfg.Externals = map[string]absint.Intercept{}
	}
	for _, name := range []string{"lookupProjectivePoint", "lookupAffinePoint"} {
		cfg.Externals[models.Mod+"."+name] = func(ex *absint.Exec, cc *absint.CallCtx) (absint.Val, bool) {
			out, ok := cc.St.Resolve(cc.Args[1]).(*absint.Ptr)
			if !ok {
				return nil, false
			}
			ex.HavocObject(cc.St, out, ex.DeepTaint(cc.St, cc.Args), "asm-lookup")
			return nil, true
		}
	}
}

// c17Asm is rule R5 on the assembly file of the amd64 configuration.
func c17Asm(c *Ctx, prog *load.Program) bool {
	sFile := ""
	if pkg := prog.ByPath[models.Mod]; pkg != nil {
		for _, f := range pkg.OtherFiles {
			if strings.HasSuffix(f, ".s") {
				sFile = f
			}
		}
	}
	if sFile == "" {
		c.R.Unknown("C17-5", "asm/file", "", "no assembly file in the amd64 configuration")
		return false
	}
	file, err := asmx.ParseFile(sFile)
	if err != nil {
		c.R.Unknown("C17-5", "asm/parse", sFile, "assembly file cannot be parsed: "+err.Error())
		return false
	}
	sizes := types.SizesFor("gc", "amd64")
	good := true
	seen := 0
	for _, fn := range file.Funcs {
		goFn := absint.FindFunc(prog.SSA, models.Mod+"."+fn.Name)
		pos := fmt.Sprintf("%s:%d", strings.TrimPrefix(sFile, prog.Dir+"/"), fn.Line)
		if goFn == nil {
			c.R.Unknown("C17-5", "asm/"+fn.Name, pos, "no Go declaration for the assembly routine")
			good = false
			continue
		}
		seen++
		params := map[string]int64{}
		off := int64(0)
		for _, p := range goFn.Params {
			a := sizes.Alignof(p.Type())
			off = (off + a - 1) / a * a
			params[p.Name()] = off
			off += sizes.Sizeof(p.Type())
		}
		an, err := asmx.Analyse(fn, params)
		if err != nil || an.Incomplete != "" {
			msg := an.Incomplete
			if err != nil {
				msg = err.Error()
			}
			c.R.Unknown("C17-5", "asm/"+fn.Name, pos, "abstract interpretation of the assembly failed: "+msg)
			good = false
			continue
		}
		f := an.Facts
		ok1 := c.R.Decide(!f.IdxFlowsToAddress && len(f.NonConstAddress) == 0, "C17-5", "asm/idx-not-in-address/"+fn.Name, pos, fmt.Sprintf("all %d loads are at tbl + constant: the whole table is scanned whatever idx is", len(f.Loads)), fmt.Sprintf("the secret index influences a memory address (lines %v)", f.NonConstAddress))
		ok2 := c.R.Decide(!f.IdxFlowsToFlags, "C17-5", "asm/idx-not-in-branch/"+fn.Name, pos, fmt.Sprintf("the loop bound is a constant (%d iterations); no jump depends on idx", f.LoopIterations+1), "the secret index influences a conditional jump (trip count or branch)")
		ok3 := c.R.Decide(!f.IdxFlowsToGPRStore && len(f.Calls) == 0, "C17-5", "asm/no-call-no-leak/"+fn.Name, pos, "no CALL; idx reaches memory only through the masked data lanes", "CALL or store of an idx-derived general register")
		good = good && ok1 && ok2 && ok3
	}
	if seen < 2 {
		c.R.Unknown("C17-5", "asm/routines", "", fmt.Sprintf("%d assembly routines analysed, expected the two table lookups", seen))
		good = false
	}
	c.R.Floor("C17-5", 6)
	return good
}

func c17Runs(prog *load.Program) []ctRunSpec {
	var out []ctRunSpec
	// ---- mode A: field and scalar arithmetic with every operand secret (lower layer: fiat specifications)
	for _, s := range []ringSpec{fieldSpec(), scalarSpec()} {
		low := s.lower(prog)
		T := prog.ByPath[s.ringPkg].Types.Scope().Lookup(s.ringName).Type()
		ms := prog.SSA.MethodSets.MethodSet(types.NewPointer(T))
		for i := 0; i < ms.Len(); i++ {
			f := prog.SSA.MethodValue(ms.At(i))
			if f == nil || f.Synthetic != "" || strings.Contains(f.Name(), "Vartime") || f.Name() == "String" || strings.HasPrefix(f.Name(), "Debug") || strings.HasPrefix(f.Name(), "Must") {
				continue
			}
			// methods written over the limb routines are analysed against the fiat specification; methods written over
			// other methods (addition chains, square roots, wide reduction, GLV split) against the ring specification
			up := models.NewSet().Merge(models.Field()).Merge(models.Scalar()).Merge(models.Helpers()).Merge(models.ReduceSaturated())
			mulGModel(up)
			delete(up.Intercepts, f.String())
			out = append(out, ctRunSpec{key: "ring/" + s.ringName + "." + f.Name(), fn: f.String(), set: low.set, alt: up, taintAll: true})
		}
	}
	// ---- mode L0: the limb-level routines themselves (fiat packages, helpers, reduceSaturated), every word secret
	for _, pkg := range []string{models.FiatFPkg, models.FiatSPkg, models.HelpersPkg} {
		sp := prog.SSAPkgs[pkg]
		if sp == nil {
			continue
		}
		for _, name := range SortedKeys(sp.Members) {
			f, ok := sp.Members[name].(*ssa.Function)
			if !ok || f.Blocks == nil || f.Synthetic != "" || name == "init" {
				continue
			}
			// hex / byte-string helpers of package helpers work on public constants
			if pkg == models.HelpersPkg && (strings.Contains(name, "Hex") || strings.Contains(name, "OhEcks")) {
				continue
			}
			out = append(out, ctRunSpec{key: "limb/" + strings.TrimPrefix(pkg, models.Mod+"/") + "." + name, fn: f.String(), set: models.NewSet(), taintAll: true})
		}
	}
	for _, fn := range []string{models.Mod + ".reduceSaturated", models.FieldPkg + ".reduceSaturated"} {
		out = append(out, ctRunSpec{key: "limb/" + strings.TrimPrefix(fn, models.Mod), fn: fn, set: models.NewSet().Merge(models.Fiat(models.FiatFPkg, sym.Fp)).Merge(models.Fiat(models.FiatSPkg, sym.Fn)).Merge(models.Helpers()), taintAll: true})
	}
	// ---- mode B: point arithmetic with every coordinate / control word secret (field layer as specification)
	{
		T := prog.ByPath[models.Mod].Types.Scope().Lookup("Point").Type()
		ms := prog.SSA.MethodSets.MethodSet(types.NewPointer(T))
		skip := map[string]bool{"ScalarMult": true, "ScalarBaseMult": true, "MultiScalarMult": true, "scalarBaseMultVartime": true,
			// decoders and the hash-to-curve map work on public data
			"SetBytes": true, "SetCompressedBytes": true, "SetUncompressedBytes": true, "SetUniformBytes": true}
		for i := 0; i < ms.Len(); i++ {
			f := prog.SSA.MethodValue(ms.At(i))
			if f == nil || f.Synthetic != "" || strings.Contains(f.Name(), "Vartime") || skip[f.Name()] {
				continue
			}
			out = append(out, ctRunSpec{key: "point/Point." + f.Name(), fn: f.String(), set: fieldSet(), taintAll: true})
		}
		for _, tn := range []string{"projectivePointMultTable", "affinePointMultTable"} {
			o := prog.ByPath[models.Mod].Types.Scope().Lookup(tn)
			if o == nil {
				continue
			}
			tms := prog.SSA.MethodSets.MethodSet(types.NewPointer(o.Type()))
			for i := 0; i < tms.Len(); i++ {
				f := prog.SSA.MethodValue(tms.At(i))
				if f == nil || f.Synthetic != "" || strings.Contains(f.Name(), "Vartime") {
					continue
				}
				out = append(out, ctRunSpec{key: "point/" + tn + "." + f.Name(), fn: f.String(), set: fieldSet(), taintAll: true})
			}
		}
		for _, fn := range []string{"newProjectivePointMultTable", "lookupProjectivePoint", "lookupAffinePoint"} {
			if fn == "newProjectivePointMultTable" && absint.FindFunc(prog.SSA, models.Mod+"."+fn) == nil {
				// the table builder may be a method of the table type instead (then it is among the methods above)
				if b, _ := findTableBuilder(prog); b != nil {
					if b.Signature.Recv() == nil {
						out = append(out, ctRunSpec{key: "point/" + b.Name(), fn: b.String(), set: fieldSet(), taintAll: true})
					}
					continue
				}
			}
			out = append(out, ctRunSpec{key: "point/" + fn, fn: models.Mod + "." + fn, set: fieldSet(), taintAll: true})
		}
	}
	// ---- mode C: the scalar multiplications with secret scalars (points as group elements, lookups as specified,
	// the windowed-table methods and the ladders analysed as written)
	out = append(out, c17MulRuns(prog, false)...)
	// ---- mode D: the protocol layer, secrets = private scalars, nonces and entropy
	out = append(out, c17ProtoRuns(prog)...)
	return out
}

// secretScalarAt stores a secret scalar symbol behind the pointer held in the given field path of the object p points to.
func secretField(ex *absint.Exec, st *absint.State, prog *load.Program, p *absint.Ptr, pkg, typ, field, name string) {
	i := FieldIndex(prog, pkg, typ, field)
	if i < 0 {
		ex.Failf("field %s.%s not found", typ, field)
		return
	}
	if sp, ok := st.Resolve(ex.LoadLeaf(st, ex.FieldPtr(p, i))).(*absint.Ptr); ok {
		ex.StoreLeaf(st, sp, sym.SymT(sym.Fn, name, secretTaint), 0)
	}
}

// ctProtoSet is the protocol-layer specification set with the value declassifications of DESIGN.md C17 (6):
// the nonce point recomputed by the two self-checks is the public R of the signature being checked.
func ctProtoSet(prog *load.Program) *models.Set {
	set := protoSet(nil)
	base := set.Intercepts[Method(models.PointType, "ScalarBaseMult")]
	set.Intercepts[Method(models.PointType, "ScalarBaseMult")] = func(ex *absint.Exec, cc *absint.CallCtx) (absint.Val, bool) {
		// anywhere in the dynamic extent of a self-check (the call may sit in a helper of it)
		for fr := cc.Frame; fr != nil; fr = fr.Parent {
			if fr.Fn == nil {
				continue
			}
			switch fr.Fn.String() {
			case models.SececPkg + ".verify", models.BitcoinPkg + ".verifySchnorrSelf":
				if p, ok := cc.St.Resolve(cc.Args[0]).(*absint.Ptr); ok {
					ex.StoreLeaf(cc.St, p, sym.Sym(sym.Point, "R:public-nonce-point"), cc.Pos)
					return p, true
				}
			}
		}
		return base(ex, cc)
	}
	return set
}

func c17ProtoRuns(prog *load.Program) []ctRunSpec {
	var out []ctRunSpec
	sec, btc := models.SececPkg, models.BitcoinPkg
	taintBytes := func(i int) func(ex *absint.Exec, st *absint.State, fn *ssa.Function, args []absint.Val) {
		return func(ex *absint.Exec, st *absint.State, fn *ssa.Function, args []absint.Val) {
			args[i] = ex.SymParam(fn.Params[i].Type(), fn.Params[i].Name(), secretTaint)
		}
	}
	privKey := func(i int) func(ex *absint.Exec, st *absint.State, fn *ssa.Function, args []absint.Val) {
		return func(ex *absint.Exec, st *absint.State, fn *ssa.Function, args []absint.Val) {
			if p, ok := args[i].(*absint.Ptr); ok {
				secretField(ex, st, prog, p, sec, "PrivateKey", "scalar", "secret:d")
			}
		}
	}
	schnorrKey := func(i int) func(ex *absint.Exec, st *absint.State, fn *ssa.Function, args []absint.Val) {
		return func(ex *absint.Exec, st *absint.State, fn *ssa.Function, args []absint.Val) {
			if p, ok := args[i].(*absint.Ptr); ok {
				secretField(ex, st, prog, p, btc, "SchnorrPrivateKey", "d", "secret:d")
				secretField(ex, st, prog, p, btc, "SchnorrPrivateKey", "dPrime", "secret:dPrime")
				// an initialised key: 32-byte x-only public key
				if pk, ok := st.Resolve(ex.LoadLeaf(st, ex.FieldPtr(p, FieldIndex(prog, btc, "SchnorrPrivateKey", "publicKey")))).(*absint.Ptr); ok {
					ex.StoreLeaf(st, ex.FieldPtr(pk, FieldIndex(prog, btc, "SchnorrPublicKey", "xBytes")), ex.BytesToSlice(st, absint.SymBytes("px", 32, 0), "xBytes"), 0)
				}
			}
		}
	}
	set := func() *models.Set { return ctProtoSet(prog) }
	// the results of sign are the published signature: callers are analysed against a specification returning public values
	withSignSpec := func() *models.Set {
		s := set()
		signModels(s)
		delete(s.Intercepts, sec+".verify")
		delete(s.Intercepts, sec+".BuildASN1Signature")
		delete(s.Intercepts, sec+".BuildCompactSignature")
		delete(s.Intercepts, sec+".BuildCompactRecoverableSignature")
		return s.Merge(models.ASN1())
	}
	out = append(out,
		ctRunSpec{key: "proto/secec.NewPrivateKey", fn: sec + ".NewPrivateKey", set: set(), args: taintBytes(0)},
		ctRunSpec{key: "proto/secec.NewPrivateKeyFromScalar", fn: sec + ".NewPrivateKeyFromScalar", set: set(), taintAll: true},
		ctRunSpec{key: "proto/secec.GenerateKey", fn: sec + ".GenerateKey", set: set()},
		ctRunSpec{key: "proto/PrivateKey.ECDH", fn: Method(sec+".PrivateKey", "ECDH"), set: set(), args: privKey(0)},
		ctRunSpec{key: "proto/PrivateKey.Bytes", fn: Method(sec+".PrivateKey", "Bytes"), set: set(), args: privKey(0)},
		ctRunSpec{key: "proto/PrivateKey.Scalar", fn: Method(sec+".PrivateKey", "Scalar"), set: set(), args: privKey(0)},
		ctRunSpec{key: "proto/secec.sign", fn: sec + ".sign", set: set(), args: privKey(1)},
		ctRunSpec{key: "proto/secec.verify(self-check)", fn: sec + ".verify", set: set(), args: func(ex *absint.Exec, st *absint.State, fn *ssa.Function, args []absint.Val) {
			privKey(0)(ex, st, fn, args)
			args[1] = absint.Nil{}
		}},
		ctRunSpec{key: "proto/PrivateKey.Sign", fn: Method(sec+".PrivateKey", "Sign"), set: withSignSpec(), args: privKey(0)},
		ctRunSpec{key: "proto/bitcoin.NewSchnorrPrivateKey", fn: btc + ".NewSchnorrPrivateKey", set: set(), args: taintBytes(0)},
		ctRunSpec{key: "proto/bitcoin.NewSchnorrPrivateKeyFromECDSA", fn: btc + ".NewSchnorrPrivateKeyFromECDSA", set: set(), args: func(ex *absint.Exec, st *absint.State, fn *ssa.Function, args []absint.Val) {
			args[0] = ecdsaPrivArg(ex, st, prog, sym.SymT(sym.Fn, "secret:dprime", secretTaint))
		}},
		ctRunSpec{key: "proto/SchnorrPrivateKey.Sign", fn: Method(btc+".SchnorrPrivateKey", "Sign"), set: set(), args: schnorrKey(0)},
		ctRunSpec{key: "proto/SchnorrPrivateKey.Bytes", fn: Method(btc+".SchnorrPrivateKey", "Bytes"), set: set(), args: schnorrKey(0)},
		ctRunSpec{key: "proto/SchnorrPrivateKey.Scalar", fn: Method(btc+".SchnorrPrivateKey", "Scalar"), set: set(), args: schnorrKey(0)},
	)
	return out
}

func mulSet() *models.Set {
	s := models.NewSet().Merge(models.Field()).Merge(models.Helpers()).Merge(models.Scalar()).Merge(models.PointInternal(nil))
	models.SemanticTables(s)
	mulGModel(s)
	return s
}

// c17MulRuns lists the multiplication routines with their scalar operands secret; vartime selects the
// variable-time twins (used only as positive controls: the analysis must flag them).
func c17MulRuns(prog *load.Program, vartime bool) []ctRunSpec {
	taintScalar := func(idx ...int) func(ex *absint.Exec, st *absint.State, fn *ssa.Function, args []absint.Val) {
		return func(ex *absint.Exec, st *absint.State, fn *ssa.Function, args []absint.Val) {
			for _, i := range idx {
				if p, ok := args[i].(*absint.Ptr); ok {
					ex.StoreLeaf(st, p, sym.SymT(sym.Fn, "secret:"+fn.Params[i].Name(), secretTaint), 0)
				}
			}
		}
	}
	multi := func(ex *absint.Exec, st *absint.State, fn *ssa.Function, args []absint.Val) {
		a := buildMultiArgs(ex, st, fn, 2, 2, -1)
		copy(args, a)
		ss := a[1].(*absint.SliceVal)
		for k := int64(0); k < 2; k++ {
			if p, ok := st.Resolve(ex.LoadElem(st, ss, k)).(*absint.Ptr); ok {
				ex.StoreLeaf(st, p, sym.SymT(sym.Fn, fmt.Sprintf("secret:s%d", k), secretTaint), 0)
			}
		}
	}
	P := func(n string) string { return Method(models.PointType, n) }
	if vartime {
		return []ctRunSpec{
			{key: "control/scalarMultVartimeGLV", fn: P("scalarMultVartimeGLV"), set: mulSet(), args: taintScalar(1)},
			{key: "control/scalarBaseMultVartime", fn: P("scalarBaseMultVartime"), set: mulSet(), args: taintScalar(1)},
			{key: "control/MultiScalarMultVartime", fn: P("MultiScalarMultVartime"), set: mulSet(), args: multi},
		}
	}
	return []ctRunSpec{
		{key: "mul/ScalarMult", fn: P("ScalarMult"), set: mulSet(), args: taintScalar(1)},
		{key: "mul/ScalarBaseMult", fn: P("ScalarBaseMult"), set: mulSet(), args: taintScalar(1)},
		{key: "mul/MultiScalarMult", fn: P("MultiScalarMult"), set: mulSet(), args: multi},
	}
}

// mulGModel is the specification of the rounded product used by the GLV split (C04-4 proves it).
func mulGModel(set *models.Set) {
	// the multiplicand may arrive as a Scalar or already converted out of the Montgomery domain (four limbs)
	set.Merge(models.FiatOnAbstract(models.FiatSPkg, sym.Fn))
	set.Intercepts[Method(models.ScalarType, "mulGFlooredDiv")] = func(ex *absint.Exec, cc *absint.CallCtx) (absint.Val, bool) {
		recv, _ := cc.St.Resolve(cc.Args[0]).(*absint.Ptr)
		if recv == nil || len(cc.Args) != 3 {
			return nil, false
		}
		x := models.LoadRingOperand(ex, cc, 1, sym.Fn)
		y := models.LoadRingOperand(ex, cc, 2, sym.Fn)
		if x == nil || y == nil {
			return nil, false
		}
		ex.StoreLeaf(cc.St, recv, sym.App(sym.Fn, "round384", sym.Canon(x), sym.Canon(y)), cc.Pos)
		return recv, true
	}
	// the same routine as a plain function of the two operands returning a fresh scalar
	set.Intercepts[models.Mod+".mulGFlooredDiv"] = func(ex *absint.Exec, cc *absint.CallCtx) (absint.Val, bool) {
		if len(cc.Args) != 2 {
			return nil, false
		}
		x := models.LoadRingOperand(ex, cc, 0, sym.Fn)
		y := models.LoadRingOperand(ex, cc, 1, sym.Fn)
		if x == nil || y == nil {
			return nil, false
		}
		return ex.AllocAbs(models.ScalarType, models.Mod, "Scalar", sym.App(sym.Fn, "round384", sym.Canon(x), sym.Canon(y))), true
	}
}

func fieldSpec() ringSpec {
	return ringSpec{id: "C01", sort: sym.Fp, modulus: sym.P, fiatPkg: models.FiatFPkg, ringType: models.ElementType, ringPkg: models.FieldPkg, ringName: "Element"}
}

func scalarSpec() ringSpec {
	return ringSpec{id: "C02", sort: sym.Fn, modulus: sym.N, fiatPkg: models.FiatSPkg, ringType: models.ScalarType, ringPkg: models.Mod, ringName: "Scalar"}
}

// constLeafChoice reports whether t is an ite-tree all of whose leaves are integer constants.
func constLeafChoice(t *sym.Term) bool {
	if t.Op != "ite" || len(t.Args) != 3 {
		return false
	}
	leaf := func(x *sym.Term) bool { return x.IsConst() || constLeafChoice(x) }
	return leaf(t.Args[1]) && leaf(t.Args[2])
}
