package rules

import (
	"fmt"
	"go/token"
	"go/types"
	"sort"
	"strings"

	"golang.org/x/tools/go/ssa"

	"verif/internal/absint"
	"verif/internal/load"
	"verif/internal/models"
	"verif/internal/sym"
)

func init() { register("C18", "other", checkC18) }

func checkC18(c *Ctx) {
	prog := c.Prog(load.AMD64)
	c18FlagStores(c, prog)
	c18Asserts(c, prog)
	c18FailedCalls(c, prog)
	// aliasing of receiver and arguments (same rules as C03-2 and C16-2, run here because they are this property's subject too)
	c18Aliasing(c, prog)
	// ... and of the scalar folds, whose receiver may be one of the list entries (rule C02-2c)
	c02Folds(c, prog, scalarSpec())
	// key objects: creation sites, fresh copies in, fresh copies out, no method writes its key
	c10Constructors(c, prog)
	c10WhoWrites(c, prog, "C18-5", models.SececPkg, map[string][]string{
		"PrivateKey": {models.SececPkg + ".newPrivateKeyFromScalar"},
		"PublicKey":  {models.SececPkg + ".newPublicKeyFromPoint"},
	})
	c12ASN1PublicKey(c, prog)
	c13Import(c, prog)
	c13Invariant(c, prog, "C18-5")
	c18KeyMethods(c, prog, "C18-5")
	c18NotComparable(c, prog)
	// canonical limbs: who writes Element.m / Scalar.m
	fs, ss := fieldSpec(), scalarSpec()
	checkWhoWritesLimbs(c, prog, fs)
	checkWhoWritesLimbs(c, prog, ss)
	c.R.Explanation = "Per-call invariants that make every reachable object valid, decided statically: (1a) every store to Point.isValid in the module writes the constant true inside one of the validated constructors (Identity, Generator, NewIdentityPoint, NewPointFromCoords, SetCompressedBytes, SetUncompressedBytes, SetUniformBytes - their validation is C06 / C15) or a value computed only from the flags of operands; (1b) every exported function of the curve package, abstractly interpreted with one Point operand's flag cleared (each operand in turn, including each entry of a point list), has no returning path - it panics before producing a result; (1c) the coordinates are unexported, so only package-internal code writes them; (2) limbs of Element / Scalar are written only by fiat outputs and the proven-in-range unchecked setter (C01-11 / C02-2e); (3) for every function of the public packages returning (object, error), the object is nil exactly when the error is non-nil and, under every rejecting valuation, every leaf of the receiver keeps its initial value; (4) receivers may alias operands in every exported Point operation and in the multi-scalar routines (distinct-object and aliased runs give identical results); (5) key objects are created only in their constructors, store fresh copies, and every exported method of the four key types returns fresh memory (or an immutable key object) and performs no store into memory reachable from its receiver or arguments; (6) the object types are not comparable with ==."
	c.R.Assumptions = []string{"C06 / C15 (the validated constructors accept only curve points)", "C01-10 / C02 (aliasing inside Element / Scalar methods)", "call sequences are covered inductively: each call preserves the invariants; no sequence is enumerated"}
}

// ---------------------------------------------------------------- 1a: stores to the validity flag

func c18FlagStores(c *Ctx, prog *load.Program) {
	iv := FieldIndex(prog, models.Mod, "Point", "isValid")
	ptT := prog.ByPath[models.Mod].Types.Scope().Lookup("Point").Type()
	constructors := map[string]bool{}
	for _, n := range []string{"Identity", "Generator", "SetCompressedBytes", "SetUncompressedBytes", "SetUniformBytes"} {
		constructors[Method(models.PointType, n)] = true
	}
	for _, n := range []string{"NewIdentityPoint", "NewPointFromCoords"} {
		constructors[models.Mod+"."+n] = true
	}
	isFlagAddr := func(v ssa.Value) bool {
		fa, ok := v.(*ssa.FieldAddr)
		if !ok || fa.Field != iv {
			return false
		}
		pt, ok := fa.X.Type().Underlying().(*types.Pointer)
		return ok && types.Identical(pt.Elem(), ptT)
	}
	sites := 0
	for _, fn := range ModuleFuncs(prog) {
		for _, b := range fn.Blocks {
			for _, in := range b.Instrs {
				st, ok := in.(*ssa.Store)
				if !ok || !isFlagAddr(st.Addr) {
					continue
				}
				sites++
				key := "flag-store/" + shortFn(fn)
				pos := PosStr(prog, st.Pos())
				// classify the stored value
				onlyFlags, hasTrue := true, false
				seen := map[ssa.Value]bool{}
				var walk func(v ssa.Value)
				walk = func(v ssa.Value) {
					if seen[v] {
						return
					}
					seen[v] = true
					switch x := v.(type) {
					case *ssa.Const:
						if x.Value != nil && x.Value.String() == "true" {
							hasTrue = true
						}
					case *ssa.Phi:
						for _, e := range x.Edges {
							walk(e)
						}
					case *ssa.UnOp:
						if x.Op == token.MUL && isFlagAddr(x.X) {
							return
						}
						onlyFlags = false
					default:
						onlyFlags = false
					}
				}
				walk(st.Val)
				_, isConst := st.Val.(*ssa.Const)
				switch {
				case isConst && hasTrue:
					if ok, why := c18AssertedBefore(prog, fn, st); ok {
						c.R.OK("C18-1a", key, pos, "stores true after asserting the validity flag of every other Point operand ("+why+"): the value is the conjunction of the operands' flags")
					} else if constructors[fn.String()] {
						c.R.OK("C18-1a", key, pos, "stores true inside a validated constructor")
					} else if ok, why := onlyCalledFrom(prog, fn, constructors, 0); ok {
						c.R.OK("C18-1a", key, pos, "stores true inside an unexported helper that only the validated constructors call ("+why+")")
					} else {
						c.R.Fail("C18-1a", key, pos, "the validity flag is set to true outside the validated constructors (in "+fn.String()+"; "+why+")")
					}
				case onlyFlags:
					c.R.OK("C18-1a", key, pos, "stores a value computed only from operands' validity flags")
				default:
					c.R.Fail("C18-1a", key, pos, "the validity flag is computed from something other than operands' flags")
				}
			}
		}
	}
	c.R.Floor("C18-1a", 8)
	_ = sites
}

// c18AssertedBefore: the store of `true` into the flag of the Point that parameter w points to is dominated by a call of
// assertPointsValid (rule C18-1b decides that it returns exactly when every listed flag is set) listing every other
// *Point parameter of the function - on every path that reaches the store `true` is the conjunction of their flags.
func c18AssertedBefore(prog *load.Program, fn *ssa.Function, st *ssa.Store) (bool, string) {
	fa, ok := st.Addr.(*ssa.FieldAddr)
	if !ok || fn.Parent() != nil {
		return false, ""
	}
	written, isParam := fa.X.(*ssa.Parameter)
	if !isParam {
		return false, ""
	}
	isPointPtr := func(t types.Type) bool { return isNamedPtr(t, models.PointType) }
	isPointSlice := func(t types.Type) bool {
		sl, ok := t.Underlying().(*types.Slice)
		return ok && isPointPtr(sl.Elem())
	}
	need := map[ssa.Value]bool{}
	for _, p := range fn.Params {
		if p != written && isPointPtr(p.Type()) {
			need[p] = true
		} else if p != written && isPointSlice(p.Type()) {
			return false, ""
		}
	}
	if len(need) == 0 {
		return false, ""
	}
	asserted := map[ssa.Value]bool{}
	for _, b := range fn.Blocks {
		for _, in := range b.Instrs {
			call, isCall := in.(*ssa.Call)
			if !isCall || call.Common().StaticCallee() == nil || call.Common().StaticCallee().String() != models.Mod+".assertPointsValid" {
				continue
			}
			if !b.Dominates(st.Block()) || (b == st.Block() && !instrBefore(call, st)) {
				continue
			}
			// the variadic list: a slice of a local array whose elements are stored individually
			for _, a := range call.Common().Args {
				sl, isSl := a.(*ssa.Slice)
				if !isSl {
					continue
				}
				arr, isA := sl.X.(*ssa.Alloc)
				if !isA {
					continue
				}
				for _, r := range *arr.Referrers() {
					if ia, isIA := r.(*ssa.IndexAddr); isIA {
						for _, rr := range *ia.Referrers() {
							if s2, isSt := rr.(*ssa.Store); isSt && s2.Addr == ssa.Value(ia) {
								asserted[s2.Val] = true
							}
						}
					}
				}
			}
		}
	}
	var names []string
	for p := range need {
		if !asserted[p] {
			return false, ""
		}
		names = append(names, p.Name())
	}
	sort.Strings(names)
	return true, "assertPointsValid(" + strings.Join(names, ", ") + ")"
}

// onlyCalledFrom: fn is unexported, never used as a value, and each of its call sites lies in one of the allowed
// functions or in another helper with the same property.
func onlyCalledFrom(prog *load.Program, fn *ssa.Function, allowed map[string]bool, depth int) (bool, string) {
	if depth > 3 {
		return false, "helper chain too deep"
	}
	if token.IsExported(fn.Name()) {
		return false, "the function is exported"
	}
	var callers []string
	for _, g := range ModuleFuncs(prog) {
		for _, b := range g.Blocks {
			for _, in := range b.Instrs {
				if call, isCall := in.(ssa.CallInstruction); isCall && call.Common().StaticCallee() == fn {
					root := g
					for root.Parent() != nil {
						root = root.Parent()
					}
					if !allowed[root.String()] {
						if ok, _ := onlyCalledFrom(prog, root, allowed, depth+1); !ok {
							return false, "called from " + root.String()
						}
					}
					callers = append(callers, root.Name())
					// the call itself passes fn as the callee only
					for _, a := range call.Common().Args {
						if a == ssa.Value(fn) {
							return false, "used as a value in " + g.String()
						}
					}
					continue
				}
				for _, op := range in.Operands(nil) {
					if op != nil && *op == ssa.Value(fn) {
						if call, isCall := in.(ssa.CallInstruction); isCall && call.Common().Value == ssa.Value(fn) {
							continue
						}
						return false, "used as a value in " + g.String()
					}
				}
			}
		}
	}
	if len(callers) == 0 {
		return false, "no call site"
	}
	sort.Strings(callers)
	return true, "callers: " + strings.Join(callers, ", ")
}

// ---------------------------------------------------------------- 1b: every exported operation asserts its operands

// pointOperands lists, for a function of the curve package, the parameter positions holding Point operands
// (pointer parameters and slices of pointers); recvIsOperand tells whether the receiver is read as an operand.
func c18Asserts(c *Ctx, prog *load.Program) {
	pkg := prog.SSAPkgs[models.Mod]
	ptT := prog.ByPath[models.Mod].Types.Scope().Lookup("Point").Type()
	isPointPtr := func(t types.Type) bool {
		p, ok := t.Underlying().(*types.Pointer)
		return ok && types.Identical(p.Elem(), ptT)
	}
	isPointSlice := func(t types.Type) bool {
		s, ok := t.Underlying().(*types.Slice)
		return ok && isPointPtr(s.Elem())
	}
	iv := FieldIndex(prog, models.Mod, "Point", "isValid")
	// receivers that are outputs only (the zero value may be used as a receiver): setter-style methods
	var fns []*ssa.Function
	for _, name := range SortedKeys(pkg.Members) {
		if f, ok := pkg.Members[name].(*ssa.Function); ok && token.IsExported(name) {
			fns = append(fns, f)
		}
	}
	ms := prog.SSA.MethodSets.MethodSet(types.NewPointer(ptT))
	for i := 0; i < ms.Len(); i++ {
		if f := prog.SSA.MethodValue(ms.At(i)); f != nil && f.Synthetic == "" && token.IsExported(f.Name()) {
			fns = append(fns, f)
		}
	}
	total := 0
	for _, fn := range fns {
		var operands []int
		for i, p := range fn.Params {
			if isPointPtr(p.Type()) || isPointSlice(p.Type()) {
				operands = append(operands, i)
			}
		}
		if len(operands) == 0 {
			continue
		}
		isMethod := fn.Signature.Recv() != nil
		// is the receiver written (an output) or only read (an operand)?  decided by the result type: setter-style
		// methods return the receiver (*Point); getters return something else
		recvIsOutput := false
		if isMethod && fn.Signature.Results().Len() >= 1 && isPointPtr(fn.Signature.Results().At(0).Type()) {
			recvIsOutput = true
		}
		for _, oi := range operands {
			if isMethod && oi == 0 && recvIsOutput {
				continue
			}
			n := 1
			if isPointSlice(fn.Params[oi].Type()) {
				n = 2 // each entry of a two-element list in turn
			}
			for k := 0; k < n; k++ {
				total++
				key := fmt.Sprintf("assert/%s/operand=%s", shortFn(fn), fn.Params[oi].Name())
				if n > 1 {
					key += fmt.Sprintf("[%d]", k)
				}
				r := RunFn(prog, fieldSet(), fn.String(), &RunOpts{Pre: func(ex *absint.Exec, st *absint.State, args []absint.Val) {
					// every Point valid ...
					setFlag := func(p *absint.Ptr, v bool) { ex.StoreLeaf(st, ex.FieldPtr(p, iv), sym.ConstBool(v), 0) }
					for i, prm := range fn.Params {
						switch {
						case isPointPtr(prm.Type()):
							if p, ok := args[i].(*absint.Ptr); ok {
								setFlag(p, true)
							}
						case isPointSlice(prm.Type()) || isScalarSlice(prm.Type()):
							args[i] = symPtrSlice(ex, st, prm, 2)
							if isPointSlice(prm.Type()) {
								sv := args[i].(*absint.SliceVal)
								for e := int64(0); e < 2; e++ {
									if p, ok := st.Resolve(ex.LoadElem(st, sv, e)).(*absint.Ptr); ok {
										setFlag(p, true)
									}
								}
							}
						}
					}
					// ... except the operand under test
					switch a := args[oi].(type) {
					case *absint.Ptr:
						setFlag(a, false)
					case *absint.SliceVal:
						if p, ok := st.Resolve(ex.LoadElem(st, a, int64(k))).(*absint.Ptr); ok {
							setFlag(p, false)
						}
					}
				}})
				pos := PosOf(prog, fn)
				if r.Err != nil || len(r.Ex.Fails) > 0 {
					c.R.Unknown("C18-1b", key, pos, r.Problem())
					continue
				}
				uninit := 0
				for _, p := range r.Ex.Panics {
					if strings.Contains(p.Msg, "uninitialized Point") {
						uninit++
					}
				}
				c.R.Decide(len(r.Ex.Returns) == 0 && uninit > 0, "C18-1b", key, pos, "with this operand's validity flag cleared no path returns: the call panics with 'use of uninitialized Point'", fmt.Sprintf("an uninitialised Point is accepted as this operand: %d returning paths, %d uninitialised-point panics", len(r.Ex.Returns), uninit))
			}
		}
	}
	// every Point operand the same uninitialised object (receiver included): a same-object shortcut taken before the
	// assertion would accept it
	for _, fn := range fns {
		var ptIdx []int
		hasList := false
		for i, p := range fn.Params {
			if isPointPtr(p.Type()) {
				ptIdx = append(ptIdx, i)
			}
			if isPointSlice(p.Type()) {
				hasList = true
			}
		}
		isMethod := fn.Signature.Recv() != nil
		recvIsOutput := isMethod && fn.Signature.Results().Len() >= 1 && isPointPtr(fn.Signature.Results().At(0).Type())
		operands := len(ptIdx)
		if recvIsOutput {
			operands--
		}
		if hasList || len(ptIdx) < 2 || operands < 1 {
			continue
		}
		key := fmt.Sprintf("assert/%s/all-aliased", shortFn(fn))
		r := RunFn(prog, fieldSet(), fn.String(), &RunOpts{Pre: func(ex *absint.Exec, st *absint.State, args []absint.Val) {
			first, ok := args[ptIdx[0]].(*absint.Ptr)
			if !ok {
				return
			}
			ex.StoreLeaf(st, ex.FieldPtr(first, iv), sym.ConstBool(false), 0)
			for _, i := range ptIdx[1:] {
				args[i] = first
			}
		}})
		pos := PosOf(prog, fn)
		if r.Err != nil || len(r.Ex.Fails) > 0 {
			c.R.Unknown("C18-1b", key, pos, r.Problem())
			continue
		}
		uninit := 0
		for _, p := range r.Ex.Panics {
			if strings.Contains(p.Msg, "uninitialized Point") {
				uninit++
			}
		}
		c.R.Decide(len(r.Ex.Returns) == 0 && uninit > 0, "C18-1b", key, pos, "with one uninitialised Point as every operand no path returns", fmt.Sprintf("an uninitialised Point is accepted when it is every operand at once: %d returning paths, %d uninitialised-point panics", len(r.Ex.Returns), uninit))
	}
	c.R.Floor("C18-1b", 22)
	// the assertion helper itself
	r := RunFn(prog, fieldSet(), models.Mod+".assertPointsValid", &RunOpts{Pre: func(ex *absint.Exec, st *absint.State, args []absint.Val) {
		fn := absint.FindFunc(prog.SSA, models.Mod+".assertPointsValid")
		args[0] = symPtrSlice(ex, st, fn.Params[0], 2)
	}})
	if r.Fn != nil && r.Err == nil && len(r.Ex.Fails) == 0 {
		f0, f1 := sym.Sym(sym.Bool, "*points0.isValid"), sym.Sym(sym.Bool, "*points1.isValid")
		ret := FExits(r.Ex.Returns, func(absint.Exit) bool { return true })
		ok, detail := Equivalent(ret, fAnd(FTerm(f0), FTerm(f1)))
		c.R.Decide(ok, "C18-1b", "assertPointsValid", PosOf(prog, r.Fn), "returns exactly when every listed point has its flag set, panics otherwise", "assertPointsValid does not test every flag: "+detail)
	} else {
		c.R.Unknown("C18-1b", "assertPointsValid", "", "could not be analysed")
	}
}

func isScalarSlice(t types.Type) bool {
	s, ok := t.Underlying().(*types.Slice)
	return ok && namedOf(s.Elem()) == models.ScalarType
}

// symPtrSlice builds a slice of n fresh symbolic objects for a []*T parameter.
func symPtrSlice(ex *absint.Exec, st *absint.State, prm *ssa.Parameter, n int) *absint.SliceVal {
	sl := prm.Type().Underlying().(*types.Slice)
	at := types.NewArray(sl.Elem(), int64(n))
	arr := ex.Alloc(at, prm.Name(), nil, absint.Origin{Kind: "param", Root: prm.Name()})
	for k := 0; k < n; k++ {
		ev := ex.SymParam(sl.Elem(), fmt.Sprintf("%s%d", prm.Name(), k), 0)
		ex.Store(st, ex.ElemPtr(arr, int64(k)), ev, sl.Elem())
	}
	return &absint.SliceVal{Base: ex.ElemPtr(arr, 0), Len: sym.ConstI(int64(n)), Cap: sym.ConstI(int64(n))}
}

// ---------------------------------------------------------------- 3: failed calls return nil and leave the receiver alone

// leafTerms lists the term leaves reachable from p (structs and arrays are flattened, pointers are not followed).
func leafTerms(ex *absint.Exec, st *absint.State, p *absint.Ptr, t types.Type, depth int, out *[]*sym.Term) {
	if depth > 4 {
		return
	}
	if ex.IsLeaf(st, p) {
		lv := st.Resolve(ex.LoadLeaf(st, p))
		if v, ok := lv.(*sym.Term); ok {
			*out = append(*out, v)
		} else {
			// pointers / slices / interfaces: compared by identity
			*out = append(*out, sym.ConstStr(sym.Any, "ref:"+absint.ValString(lv)))
		}
		return
	}
	switch u := t.Underlying().(type) {
	case *types.Struct:
		for i := 0; i < u.NumFields(); i++ {
			if u.Field(i).Name() == "_" {
				continue
			}
			leafTerms(ex, st, ex.FieldPtr(p, i), u.Field(i).Type(), depth+1, out)
		}
	case *types.Array:
		if u.Len() <= 64 {
			for i := int64(0); i < u.Len(); i++ {
				leafTerms(ex, st, ex.ElemPtr(p, i), u.Elem(), depth+1, out)
			}
		}
	}
}

func c18FailedCalls(c *Ctx, prog *load.Program) {
	errT := types.Universe.Lookup("error").Type()
	pkgs := []string{models.Mod, models.SececPkg, models.BitcoinPkg, models.H2cPkg}
	count := 0
	// an unexported helper whose analysis on arbitrary arguments is incomplete (it relies on what its callers established,
	// e.g. a length) is decided in the context of its callers when every one of them is decided with the helper inlined
	covered := map[*ssa.Function]bool{}
	type pending struct {
		fn       *ssa.Function
		key, pos string
		why      string
	}
	var deferred []pending
	undecided := func(fn *ssa.Function, key, pos, why string) {
		if !token.IsExported(fn.Name()) {
			deferred = append(deferred, pending{fn, key, pos, why})
			return
		}
		c.R.Unknown("C18-3", key, pos, why)
	}
	defer func() {
		callers := map[*ssa.Function][]*ssa.Function{}
		for _, f := range ModuleFuncs(prog) {
			for _, b := range f.Blocks {
				for _, in := range b.Instrs {
					if call, ok := in.(ssa.CallInstruction); ok {
						if g := call.Common().StaticCallee(); g != nil {
							top := f
							for top.Parent() != nil {
								top = top.Parent()
							}
							callers[g] = append(callers[g], top)
						}
					}
					for _, op := range in.Operands(nil) {
						if g, ok := (*op).(*ssa.Function); ok && op != nil {
							if call, isCall := in.(ssa.CallInstruction); !isCall || call.Common().Value != ssa.Value(g) {
								callers[g] = append(callers[g], nil) // used as a value: unknown callers
							}
						}
					}
				}
			}
		}
		for changed := true; changed; {
			changed = false
			for _, d := range deferred {
				if covered[d.fn] || len(callers[d.fn]) == 0 {
					continue
				}
				all := true
				for _, cf := range callers[d.fn] {
					if cf == nil || !covered[cf] {
						all = false
					}
				}
				if all {
					covered[d.fn] = true
					changed = true
				}
			}
		}
		for _, d := range deferred {
			if covered[d.fn] {
				var names []string
				for _, cf := range callers[d.fn] {
					names = append(names, cf.Name())
				}
				c.R.OK("C18-3", d.key, d.pos, "unexported helper decided in the context of its callers ("+strings.Join(uniqueStrings(names), ", ")+"), each decided with the helper inlined")
			} else {
				c.R.Unknown("C18-3", d.key, d.pos, d.why)
			}
		}
		c.R.Floor("C18-3", 15)
	}()
	for _, fn := range ModuleFuncs(prog) {
		if fn.Pkg == nil || fn.Parent() != nil || fn.Synthetic != "" {
			continue
		}
		in := false
		for _, p := range pkgs {
			if fn.Pkg.Pkg.Path() == p {
				in = true
			}
		}
		res := fn.Signature.Results()
		if !in || res.Len() < 2 || !types.Identical(res.At(res.Len()-1).Type(), errT) {
			continue
		}
		switch res.At(0).Type().Underlying().(type) {
		case *types.Pointer, *types.Slice:
		default:
			continue
		}
		// nonce / entropy plumbing and the RFC 6979 reader are C09's subject (they return readers, not objects)
		if strings.Contains(fn.Name(), "mitigate") || fn.Name() == "Read" || fn.Name() == "sampleRandomScalar" || fn.Name() == "sign" || fn.Name() == "SignRaw" || fn.Name() == "signSchnorr" {
			continue
		}
		// these two copy a caller-supplied slice of symbolic length after a length test; they are decided with
		// concrete lengths by C12-1 (all lengths 0..33) and C13-3 (length 32 / other lengths)
		if fn == b2sHelper(prog) || fn.Name() == "NewSchnorrPublicKey" {
			covered[fn] = true
			continue
		}
		set := asn1Set()
		if fn.Pkg.Pkg.Path() == models.Mod {
			set = fieldSet()
		} else {
			b2sModel(set, prog)
			nonceModels(set)
			signModels(set)
			delete(set.Intercepts, models.SececPkg+".verify")
		}
		r := RunFn(prog, set, fn.String(), &RunOpts{Pre: func(ex *absint.Exec, st *absint.State, args []absint.Val) {
			for i, p := range fn.Params {
				if _, isI := p.Type().Underlying().(*types.Interface); isI && strings.HasSuffix(p.Type().String(), "SignerOpts") {
					args[i] = &absint.Iface{} // default options
				}
			}
		}})
		key := "failed-call/" + shortFn(fn)
		pos := PosOf(prog, fn)
		if r.Err != nil || len(r.Ex.Fails) > 0 {
			undecided(fn, key, pos, r.Problem())
			continue
		}
		incomplete := ""
		for _, e := range r.Ex.Events {
			if e.Kind == absint.EvUnmodelled {
				incomplete = "call without specification: " + e.Callee
			}
		}
		if incomplete != "" {
			undecided(fn, key, pos, incomplete)
			continue
		}
		covered[fn] = true
		count++
		errI := res.Len() - 1
		acc, prob := acceptFormula(r, errI)
		nilRes, prob2 := nilFormula(r, 0)
		if prob != "" || prob2 != "" {
			c.R.Unknown("C18-3", key, pos, prob+prob2)
			continue
		}
		returns := FExits(r.Ex.Returns, func(absint.Exit) bool { return true }) // paths that panic are not returns
		ok, detail := Equivalent(fAnd(nilRes, returns), fAnd(fNot(acc), returns))
		if !ok {
			c.R.Fail("C18-3", key+"/nil-on-error", pos, "an object is returned together with an error (or nil without one): "+detail)
			continue
		}
		// receiver untouched under rejection
		msg := ""
		if fn.Signature.Recv() != nil && len(r.Args) > 0 {
			if recv, isP := r.Args[0].(*absint.Ptr); isP {
				pt, _ := fn.Params[0].Type().Underlying().(*types.Pointer)
				if pt != nil {
					var init []*sym.Term
					leafTerms(r.Ex, r.Ex.NewState(), recv, pt.Elem(), 0, &init)
					for _, e := range r.Ex.Returns {
						var got []*sym.Term
						leafTerms(r.Ex, e.St, recv, pt.Elem(), 0, &got)
						if len(got) != len(init) {
							msg = "receiver layout changed"
							break
						}
						cond := fAnd(FGuard(e.Guard), fNot(acc))
						o, d := ValuesUnder(cond, got, init)
						if !o && d != "the condition is unsatisfiable (vacuous)" {
							msg = "a failing call modifies its receiver: " + d
							break
						}
					}
				}
			}
		}
		c.R.Decide(msg == "", "C18-3", key, pos, "object result nil exactly when an error is returned; receiver unchanged on every failing path", msg)
	}
	_ = count
}

func uniqueStrings(in []string) []string {
	seen := map[string]bool{}
	var out []string
	for _, s := range in {
		if !seen[s] {
			seen[s] = true
			out = append(out, s)
		}
	}
	sort.Strings(out)
	return out
}

// ---------------------------------------------------------------- 4: aliasing

func c18Aliasing(c *Ctx, prog *load.Program) {
	set := fieldSet()
	pl := pointFields(prog)
	ptT := models.PointType
	patterns := map[string][][]int{
		"Add":               {{0, 0, 1}, {0, 1, 0}, {0, 1, 1}, {0, 0, 0}},
		"Subtract":          {{0, 0, 1}, {0, 1, 0}, {0, 1, 1}, {0, 0, 0}},
		"Double":            {{0, 0}},
		"Negate":            {{0, 0}},
		"Set":               {{0, 0}},
		"ConditionalNegate": {{0, 0, 1}},
		"ConditionalSelect": {{0, 0, 1, 2}, {0, 1, 0, 2}, {0, 1, 1, 2}, {0, 0, 0, 2}},
	}
	for _, name := range SortedKeys(patterns) {
		for _, pat := range patterns[name] {
			checkAlias(c, prog, set, "C18-4", Method(ptT, name), pat, func(r *Run) []absint.Val {
				cs := coordsOf(r, pl, 0)
				return []absint.Val{cs[0], cs[1], cs[2], r.FieldOf(0, pl.valid)}
			})
		}
	}
	c.R.Floor("C18-4", 16)
	for _, name := range []string{"MultiScalarMult", "MultiScalarMultVartime"} {
		c16Multi(c, prog, name)
	}
	c16Double(c, prog)
}

// ---------------------------------------------------------------- 5: methods of key objects

// c18KeyMethods: every exported method of the four key types returns fresh memory (or an immutable key object)
// and performs no store into memory reachable from its receiver or its arguments.
func c18KeyMethods(c *Ctx, prog *load.Program, rule string) {
	keyTypes := []struct{ pkg, name string }{{models.SececPkg, "PrivateKey"}, {models.SececPkg, "PublicKey"}, {models.BitcoinPkg, "SchnorrPrivateKey"}, {models.BitcoinPkg, "SchnorrPublicKey"}}
	immutable := map[string]bool{}
	for _, k := range keyTypes {
		immutable[k.pkg+"."+k.name] = true
	}
	n := 0
	for _, k := range keyTypes {
		T := prog.ByPath[k.pkg].Types.Scope().Lookup(k.name).Type()
		ms := prog.SSA.MethodSets.MethodSet(types.NewPointer(T))
		for i := 0; i < ms.Len(); i++ {
			f := prog.SSA.MethodValue(ms.At(i))
			if f == nil || f.Synthetic != "" || !token.IsExported(f.Name()) {
				continue
			}
			key := "key-method/" + k.name + "." + f.Name()
			set := asn1Set()
			nonceModels(set)
			// analysed against the specification of the signing cores (their own read-only behaviour: C20-2)
			signModels(set)
			delete(set.Intercepts, models.SececPkg+".verify")
			delete(set.Intercepts, models.SececPkg+".BuildASN1Signature")
			delete(set.Intercepts, models.SececPkg+".BuildCompactSignature")
			delete(set.Intercepts, models.SececPkg+".BuildCompactRecoverableSignature")
			r := RunFn(prog, set, f.String(), &RunOpts{Config: func(cfg *absint.Config) { cfg.RecordStores = true }, Pre: func(ex *absint.Exec, st *absint.State, args []absint.Val) {
				initKeyObject(ex, st, prog, k.pkg, k.name, args[0])
			}})
			pos := PosOf(prog, f)
			if r.Err != nil || len(r.Ex.Fails) > 0 {
				c.R.Unknown(rule, key, pos, r.Problem())
				continue
			}
			n++
			msg := ""
			for _, e := range r.Ex.Events {
				if e.Kind == absint.EvStore && e.Ptr != nil && e.Ptr.Obj.Origin.Kind == "param" && e.Pos.IsValid() {
					msg = fmt.Sprintf("stores into memory of an operand (%s) at %s", e.Ptr.Obj.Origin.Root, PosStr(prog, e.Pos))
				}
				if e.Kind == absint.EvGlobalStore {
					msg = "stores into package-level state at " + PosStr(prog, e.Pos)
				}
			}
			// results
			for _, e := range r.Ex.Returns {
				res := e.St.Resolve(e.Results)
				var vals []absint.Val
				if tu, ok := res.(absint.Tuple); ok {
					vals = tu
				} else if res != nil {
					vals = []absint.Val{res}
				}
				for ri, v := range vals {
					rt := f.Signature.Results().At(ri).Type()
					for _, leaf := range choiceLeaves(v) {
						switch x := leaf.(type) {
						case *absint.Ptr:
							if x.Obj.Origin.Kind == "param" && !immutable[namedOf(rt)] && !immutable[namedOf(x.Obj.Typ)] {
								msg = fmt.Sprintf("result %d is a pointer into the key (%s), not a copy", ri, x.Obj.Origin.Root)
							}
						case *absint.SliceVal:
							if x.Base != nil && x.Base.Obj.Origin.Kind == "param" {
								msg = fmt.Sprintf("result %d is a slice of memory owned by the key or an argument (%s), not a copy", ri, x.Base.Obj.Origin.Root)
							}
						case *absint.Iface:
							if p, ok := x.V.(*absint.Ptr); ok && p.Obj.Origin.Kind == "param" && !immutable[namedOf(p.Obj.Typ)] {
								msg = fmt.Sprintf("result %d wraps a pointer into the key (%s)", ri, p.Obj.Origin.Root)
							}
						}
					}
				}
			}
			c.R.Decide(msg == "", rule, key, pos, "no store into the key or an argument; results are fresh memory or immutable key objects", msg)
		}
	}
	c.R.Floor(rule, 20)
	_ = n
}

func choiceLeaves(v absint.Val) []absint.Val {
	if c, ok := v.(*absint.Choice); ok {
		return append(choiceLeaves(c.A), choiceLeaves(c.B)...)
	}
	return []absint.Val{v}
}

// initKeyObject gives a symbolic key object the shape of an initialised key (cached encodings of known length).
func initKeyObject(ex *absint.Exec, st *absint.State, prog *load.Program, pkg, name string, v absint.Val) {
	p, ok := v.(*absint.Ptr)
	if !ok {
		return
	}
	setBytes := func(obj *absint.Ptr, tpkg, tname, field, sym0 string, n int) {
		i := FieldIndex(prog, tpkg, tname, field)
		if i < 0 {
			return
		}
		if sv := storeBytesField(ex, st, obj, prog, tpkg, tname, i, absint.SymBytes(sym0, n, 0), field); sv != nil {
			sv.Base.Obj.Origin = absint.Origin{Kind: "param", Root: "key." + field}
		}
	}
	sub := func(obj *absint.Ptr, tpkg, tname, field string) *absint.Ptr {
		i := FieldIndex(prog, tpkg, tname, field)
		if i < 0 {
			return nil
		}
		q, _ := st.Resolve(ex.LoadLeaf(st, ex.FieldPtr(obj, i))).(*absint.Ptr)
		return q
	}
	switch name {
	case "PublicKey":
		setBytes(p, pkg, name, "pointBytes", "pointBytes", 65)
	case "PrivateKey":
		if pub := sub(p, pkg, name, "publicKey"); pub != nil {
			setBytes(pub, pkg, "PublicKey", "pointBytes", "pointBytes", 65)
		}
	case "SchnorrPublicKey":
		setBytes(p, pkg, name, "xBytes", "px", 32)
	case "SchnorrPrivateKey":
		if pub := sub(p, pkg, name, "publicKey"); pub != nil {
			setBytes(pub, pkg, "SchnorrPublicKey", "xBytes", "px", 32)
		}
	}
}

// ---------------------------------------------------------------- 6: not comparable

func c18NotComparable(c *Ctx, prog *load.Program) {
	for _, t := range []struct{ pkg, name string }{{models.FieldPkg, "Element"}, {models.Mod, "Scalar"}, {models.Mod, "Point"}, {models.SececPkg, "PrivateKey"}, {models.SececPkg, "PublicKey"}, {models.BitcoinPkg, "SchnorrPrivateKey"}, {models.BitcoinPkg, "SchnorrPublicKey"}} {
		o := prog.ByPath[t.pkg].Types.Scope().Lookup(t.name)
		if o == nil {
			c.R.Unknown("C18-6", "not-comparable/"+t.name, "", "type not found")
			continue
		}
		c.R.Decide(!types.Comparable(o.Type()), "C18-6", "not-comparable/"+t.name, "", "values of this type cannot be compared with == (comparisons go through Equal)", "the type is comparable with ==, which compares representations")
	}
	c.R.Floor("C18-6", 7)
}
