package rules

import (
	"fmt"
	"go/build/constraint"
	"go/token"
	"go/types"
	"math/big"
	"os"
	"path/filepath"
	"regexp"
	"sort"
	"strings"

	"golang.org/x/tools/go/ssa"

	"verif/internal/absint"
	"verif/internal/asmx"
	"verif/internal/load"
	"verif/internal/models"
	"verif/internal/sym"
)

func init() { register("C19", "translation_validation", checkC19) }

type srcFile struct {
	rel        string
	expr       constraint.Expr
	exprText   string
	implicit   []string // GOOS/GOARCH from the file name
	pkgIgnored bool
}

var knownArch = map[string]bool{"386": true, "amd64": true, "arm": true, "arm64": true, "loong64": true, "mips": true, "mips64": true, "mips64le": true, "mipsle": true, "ppc64": true, "ppc64le": true, "riscv64": true, "s390x": true, "wasm": true}
var knownOS = map[string]bool{"aix": true, "android": true, "darwin": true, "dragonfly": true, "freebsd": true, "illumos": true, "ios": true, "js": true, "linux": true, "netbsd": true, "openbsd": true, "plan9": true, "solaris": true, "wasip1": true, "windows": true}

// moduleSourceFiles lists the non-test .go and .s files of the module (nested modules excluded).
func moduleSourceFiles(dir string) ([]srcFile, error) {
	var out []srcFile
	err := filepath.Walk(dir, func(path string, info os.FileInfo, err error) error {
		if err != nil {
			return err
		}
		if info.IsDir() {
			if path != dir {
				if _, e := os.Stat(filepath.Join(path, "go.mod")); e == nil {
					return filepath.SkipDir // nested module (internal/asm generator)
				}
				if strings.HasPrefix(info.Name(), ".") || info.Name() == "testdata" {
					return filepath.SkipDir
				}
			}
			return nil
		}
		name := info.Name()
		if !(strings.HasSuffix(name, ".go") || strings.HasSuffix(name, ".s")) || strings.HasSuffix(name, "_test.go") {
			return nil
		}
		b, err := os.ReadFile(path)
		if err != nil {
			return err
		}
		f := srcFile{rel: strings.TrimPrefix(path, dir+"/")}
		for _, line := range strings.Split(string(b), "\n") {
			t := strings.TrimSpace(line)
			if constraint.IsGoBuild(t) {
				e, perr := constraint.Parse(t)
				if perr != nil {
					return fmt.Errorf("%s: %v", f.rel, perr)
				}
				f.expr, f.exprText = e, e.String()
				break
			}
			if t != "" && !strings.HasPrefix(t, "//") && !strings.HasPrefix(t, "#include") {
				break
			}
		}
		base := strings.TrimSuffix(strings.TrimSuffix(name, ".go"), ".s")
		parts := strings.Split(base, "_")
		if n := len(parts); n >= 2 {
			if knownArch[parts[n-1]] {
				f.implicit = append(f.implicit, parts[n-1])
				if n >= 3 && knownOS[parts[n-2]] {
					f.implicit = append(f.implicit, parts[n-2])
				}
			} else if knownOS[parts[n-1]] {
				f.implicit = append(f.implicit, parts[n-1])
			}
		}
		out = append(out, f)
		return nil
	})
	sort.Slice(out, func(i, j int) bool { return out[i].rel < out[j].rel })
	return out, err
}

func (f srcFile) constrained() bool { return f.expr != nil || len(f.implicit) > 0 }

func (f srcFile) builtUnder(tags map[string]bool) bool {
	for _, t := range f.implicit {
		if !tags[t] {
			return false
		}
	}
	if f.expr == nil {
		return true
	}
	return f.expr.Eval(func(tag string) bool { return tags[tag] })
}

func checkC19(c *Ctx) {
	asm := c.Prog(load.AMD64)
	pure := c.Prog(load.Purego)
	c19Split(c, asm, pure)
	c19Equiv(c, asm, pure)
	c19CallSites(c, asm)
	c.R.Explanation = "Translation validation of the two SSE2 lookup routines against their portable twins: (1) the build-constraint surface of the module is enumerated from the source tree and must consist of exactly the assembly/stub/reference triple with complementary constraints and identical declaration sets, no other configuration-dependent code; (2) the assembly is parsed and abstractly interpreted (loop unrolled by constant propagation, XMM lanes as symbolic mask/and/or terms), specialised to every idx 0..15, and each stored lane must be the same table limb (or identity constant) that the Go reference, abstractly interpreted on a fully symbolic table, puts there, using the gc/amd64 layout of Point/affinePoint from go/types; (3) the store footprint is inside the coordinate bytes; (4) idx influences only data lanes, never an address or a branch; (5) all call sites pass 4-bit windows, so the 32-bit compare of the assembly equals the 64-bit compare of the reference."
	c.R.Assumptions = []string{"Go assembler semantics of the mnemonics used (tabled in internal/asmx)", "gc/amd64 struct layout as computed by go/types.SizesFor", "the internal/asm avo generator is not analysed: the checked-in .s file is what is built"}
	c.R.Extra["programs"] = 4
	c.R.Extra["disagreements_checked"] = len(c.R.Obligations)
}

// c19Split: the configuration split is exactly the two lookup routines.
func c19Split(c *Ctx, asm, pure *load.Program) {
	files, err := moduleSourceFiles(asm.Dir)
	if err != nil {
		c.R.Unknown("C19-1", "source-walk", "", err.Error())
		return
	}
	var constrained []srcFile
	for _, f := range files {
		if f.constrained() {
			if f.expr != nil && f.exprText == "ignore" {
				c.R.OK("C19-1", "never-built/"+f.rel, f.rel, "file carries `//go:build ignore` (generator, never part of the library)")
				continue
			}
			constrained = append(constrained, f)
		}
	}
	tagSets := []map[string]bool{
		{"amd64": true, "linux": true, "gc": true}, {"amd64": true, "purego": true, "linux": true, "gc": true},
		{"arm64": true, "linux": true, "gc": true}, {"arm64": true, "purego": true, "linux": true, "gc": true},
		{"386": true, "linux": true, "gc": true}, {"amd64": true, "windows": true, "gc": true}, {"amd64": true, "darwin": true, "gc": true, "purego": true},
	}
	// private helpers of a configuration: an unexported function declared in a constrained file, never used as a value,
	// whose every call site lies in a function declared in a constrained file, is part of the configuration-dependent
	// routines that call it (their equivalence, rule C19-2, is decided with the helper inlined) and is not itself part of
	// the configuration-dependent surface
	constrainedRel := map[string]bool{}
	for _, f := range constrained {
		constrainedRel[f.rel] = true
	}
	private := map[string]bool{}
	for _, prog := range []*load.Program{asm, pure} {
		inConstrained := func(fn *ssa.Function) bool {
			for fn != nil && fn.Parent() != nil {
				fn = fn.Parent()
			}
			if fn == nil || !fn.Pos().IsValid() {
				return false
			}
			rel, err := filepath.Rel(prog.Dir, prog.SSA.Fset.Position(fn.Pos()).Filename)
			return err == nil && constrainedRel[rel]
		}
		cand := map[*ssa.Function]bool{}
		funcs := ModuleFuncs(prog)
		for _, fn := range funcs {
			if fn.Parent() == nil && inConstrained(fn) && !token.IsExported(fn.Name()) && !strings.HasPrefix(fn.Name(), "lookup") && fn.Blocks != nil {
				cand[fn] = true
			}
		}
		for changed := true; changed; {
			changed = false
			for _, caller := range funcs {
				for _, b := range caller.Blocks {
					for _, in := range b.Instrs {
						var callee *ssa.Function
						if call, ok := in.(ssa.CallInstruction); ok {
							callee = call.Common().StaticCallee()
						}
						for _, op := range in.Operands(nil) {
							fn, ok := (*op).(*ssa.Function)
							if !ok || !cand[fn] {
								continue
							}
							asCallee := callee == fn && (*op) == in.(ssa.CallInstruction).Common().Value
							if !asCallee || !(inConstrained(caller)) {
								delete(cand, fn)
								changed = true
							}
						}
					}
				}
			}
		}
		for fn := range cand {
			private[fn.Name()] = true
		}
	}
	declName := regexp.MustCompile(`^func (\([^)]*\) )?(\w+)\(`)
	dropPrivate := func(decls []string) []string {
		var out []string
		for _, d := range decls {
			if m := declName.FindStringSubmatch(d); m != nil && private[m[2]] {
				continue
			}
			out = append(out, d)
		}
		return out
	}
	// group constrained files by directory and require: per tag set, the Go declarations are the same
	byDir := map[string][]srcFile{}
	for _, f := range constrained {
		byDir[filepath.Dir(f.rel)] = append(byDir[filepath.Dir(f.rel)], f)
	}
	for _, dir := range SortedKeys(byDir) {
		fs := byDir[dir]
		var ref []string
		okAll := true
		detail := ""
		for ti, tags := range tagSets {
			var decls []string
			asmFiles, stubFiles := 0, 0
			for _, f := range fs {
				if !f.builtUnder(tags) {
					continue
				}
				if strings.HasSuffix(f.rel, ".s") {
					asmFiles++
					continue
				}
				d, bodyless := goDecls(filepath.Join(asm.Dir, f.rel))
				decls = append(decls, dropPrivate(d)...)
				if bodyless {
					stubFiles++
				}
			}
			sort.Strings(decls)
			if (asmFiles > 0) != (stubFiles > 0) {
				okAll = false
				detail = fmt.Sprintf("under %v assembly files and body-less declarations do not pair up", keysOf(tags))
			}
			if ti == 0 {
				ref = decls
			} else if strings.Join(ref, ";") != strings.Join(decls, ";") {
				okAll = false
				detail = fmt.Sprintf("declaration set differs between configurations: %v vs %v under %v", ref, decls, keysOf(tags))
			}
		}
		names := []string{}
		for _, f := range fs {
			names = append(names, f.rel+" ["+f.exprText+strings.Join(f.implicit, ",")+"]")
		}
		c.R.Decide(okAll, "C19-1", "constraint-group/"+dir, dir, "every configuration declares exactly "+strings.Join(ref, ", ")+" in "+strings.Join(names, "; "), detail)
		// only the two lookup routines may be configuration dependent
		want := "func lookupAffinePoint(tbl *affinePointMultTable, out *affinePoint, idx uint64);func lookupProjectivePoint(tbl *projectivePointMultTable, out *Point, idx uint64)"
		c.R.Decide(strings.Join(ref, ";") == want, "C19-1", "split-surface/"+dir, dir, "the configuration-dependent declarations are the two lookup routines", "configuration-dependent declarations are not exactly the two lookup routines: "+strings.Join(ref, "; "))
	}
	c.R.Decide(len(byDir) == 1, "C19-1", "constraint-groups", "", "one directory carries build constraints", fmt.Sprintf("%d directories carry build constraints: %v", len(byDir), SortedKeys(byDir)))
	// no run-time configuration tests
	bad := []string{}
	for _, fn := range ModuleFuncs(asm) {
		for _, b := range fn.Blocks {
			for _, in := range b.Instrs {
				for _, op := range in.Operands(nil) {
					if g, ok := (*op).(*ssa.Global); ok && g.Pkg != nil {
						p := g.Pkg.Pkg.Path()
						if p == "internal/cpu" || p == "golang.org/x/sys/cpu" || (p == "runtime" && (g.Name() == "GOARCH" || g.Name() == "GOOS")) {
							bad = append(bad, fn.String()+" uses "+p+"."+g.Name())
						}
					}
				}
				if call, ok := in.(*ssa.Call); ok {
					if callee := call.Common().StaticCallee(); callee != nil && callee.Pkg != nil {
						p := callee.Pkg.Pkg.Path()
						if p == "internal/cpu" || p == "golang.org/x/sys/cpu" {
							bad = append(bad, fn.String()+" calls "+callee.String())
						}
					}
				}
			}
		}
	}
	c.R.Decide(len(bad) == 0, "C19-1", "no-runtime-dispatch", "", "no function consults CPU features or GOARCH at run time", strings.Join(bad, "; "))
	// the set of functions (by name and signature) of the curve package is the same in both configurations
	fa, fp := funcSigs(asm, models.Mod, private), funcSigs(pure, models.Mod, private)
	c.R.Decide(strings.Join(fa, "\n") == strings.Join(fp, "\n"), "C19-1", "same-declarations", "", fmt.Sprintf("both configurations declare the same %d functions in the curve package", len(fa)), "function sets differ between the assembly and purego configurations")
	c.R.Floor("C19-1", 5)
}

func keysOf(m map[string]bool) []string {
	var k []string
	for s := range m {
		k = append(k, s)
	}
	sort.Strings(k)
	return k
}

func funcSigs(prog *load.Program, pkg string, private map[string]bool) []string {
	var out []string
	for _, fn := range ModuleFuncs(prog) {
		if fn.Pkg != nil && fn.Pkg.Pkg.Path() == pkg && fn.Parent() == nil {
			if private[fn.Name()] && !token.IsExported(fn.Name()) {
				continue
			}
			out = append(out, fn.String()+" "+fn.Signature.String())
		}
	}
	sort.Strings(out)
	return out
}

// goDecls returns the top-level function declarations of a file as normalised strings.
func goDecls(path string) (decls []string, bodyless bool) {
	src, err := os.ReadFile(path)
	if err != nil {
		return []string{"unreadable:" + path}, false
	}
	// a light-weight scan is enough: these files hold only func declarations
	lines := strings.Split(string(src), "\n")
	for i := 0; i < len(lines); i++ {
		t := strings.TrimSpace(lines[i])
		if strings.HasPrefix(t, "func ") {
			sig := strings.TrimSuffix(strings.TrimSpace(strings.TrimSuffix(t, "{")), " ")
			if !strings.HasSuffix(t, "{") {
				bodyless = true
			}
			decls = append(decls, sig)
		} else if strings.HasPrefix(t, "var ") || strings.HasPrefix(t, "type ") || strings.HasPrefix(t, "const ") {
			decls = append(decls, t)
		}
	}
	return decls, bodyless
}

type lookupSpec struct {
	name      string
	tblType   string // element type
	coords    []string
	identityY bool
}

// c19Equiv: the assembly stores, for every idx, what the Go reference stores.
func c19Equiv(c *Ctx, asm, pure *load.Program) {
	sFile := filepath.Join(asm.Dir, "point_mul_table_amd64.s")
	// locate the .s file through the package's OtherFiles
	if pkg := asm.ByPath[models.Mod]; pkg != nil {
		for _, f := range pkg.OtherFiles {
			if strings.HasSuffix(f, ".s") {
				sFile = f
			}
		}
	}
	file, err := asmx.ParseFile(sFile)
	if err != nil {
		c.R.Unknown("C19-2", "parse", sFile, "assembly file cannot be parsed: "+err.Error())
		return
	}
	sizes := types.SizesFor("gc", "amd64")
	specs := []lookupSpec{
		{"lookupProjectivePoint", "Point", []string{"x", "y", "z"}, true},
		{"lookupAffinePoint", "affinePoint", []string{"x", "y"}, false},
	}
	rModP := new(big.Int).Sub(new(big.Int).Lsh(big.NewInt(1), 256), sym.P)
	for _, sp := range specs {
		var fn *asmx.Func
		for _, f := range file.Funcs {
			if f.Name == sp.name {
				fn = f
			}
		}
		pos := fmt.Sprintf("%s", strings.TrimPrefix(sFile, asm.Dir+"/"))
		if fn == nil {
			c.R.Unknown("C19-2", "asm/"+sp.name, pos, "TEXT symbol not found")
			continue
		}
		pos = fmt.Sprintf("%s:%d", pos, fn.Line)
		// frame layout from the Go declaration
		goFn := absint.FindFunc(asm.SSA, models.Mod+"."+sp.name)
		if goFn == nil {
			c.R.Unknown("C19-3", "stub/"+sp.name, pos, "Go declaration not found")
			continue
		}
		params := map[string]int64{}
		off := int64(0)
		for _, p := range goFn.Params {
			a := sizes.Alignof(p.Type())
			off = (off + a - 1) / a * a
			params[p.Name()] = off
			off += sizes.Sizeof(p.Type())
		}
		c.R.Decide(fn.ArgSize == off && fn.FrameSize == 0, "C19-3", "frame/"+sp.name, pos, fmt.Sprintf("frame $0-%d matches the Go prototype", off), fmt.Sprintf("frame is $%d-%d, prototype needs $0-%d", fn.FrameSize, fn.ArgSize, off))
		nosplit := false
		for _, fl := range fn.Flags {
			if fl == "NOSPLIT" {
				nosplit = true
			}
		}
		c.R.Decide(nosplit, "C19-3", "nosplit/"+sp.name, pos, "NOSPLIT", "routine is not NOSPLIT")
		an, err := asmx.Analyse(fn, params)
		if err != nil {
			c.R.Unknown("C19-2", "asm/"+sp.name, pos, "abstract interpretation failed: "+err.Error())
			continue
		}
		if an.Incomplete != "" {
			c.R.Fail("C19-2", "asm/"+sp.name, pos, "interpretation stopped: "+an.Incomplete)
		}
		f := an.Facts
		c.R.Decide(!f.IdxFlowsToAddress && len(f.NonConstAddress) == 0, "C19-5", "idx-not-in-address/"+sp.name, pos, fmt.Sprintf("all %d loads are at tbl + constant", len(f.Loads)), fmt.Sprintf("idx influences a memory address (lines %v)", f.NonConstAddress))
		c.R.Decide(!f.IdxFlowsToFlags, "C19-5", "idx-not-in-branch/"+sp.name, pos, fmt.Sprintf("loop bound is constant (%d iterations)", f.LoopIterations+1), "idx influences a conditional jump")
		// memory safety: every load lies inside the object its base parameter points to (the portable twin indexes a Go
		// array, which is bounds-checked; a read past the table may fault or read foreign memory)
		{
			size := map[string]int64{}
			for _, p := range goFn.Params {
				if pt, ok := p.Type().Underlying().(*types.Pointer); ok {
					size[p.Name()] = sizes.Sizeof(pt.Elem())
				}
			}
			var bad []string
			n := 0
			for _, l := range f.Loads {
				sz, known := size[l.Base]
				if !known {
					continue
				}
				n++
				if l.Off < 0 || l.Off+int64(l.Width) > sz {
					bad = append(bad, fmt.Sprintf("line %d: %d bytes at %s+%d (object has %d bytes)", l.Line, l.Width, l.Base, l.Off, sz))
				}
			}
			for _, st := range f.Stores {
				sz, known := size[st.Base]
				if !known {
					continue
				}
				n++
				if st.Off < 0 || st.Off+int64(st.Width) > sz {
					bad = append(bad, fmt.Sprintf("line %d: store of %d bytes at %s+%d (object has %d bytes)", st.Line, st.Width, st.Base, st.Off, sz))
				}
			}
			if len(bad) > 6 {
				bad = append(bad[:6], "...")
			}
			c.R.Decide(len(bad) == 0 && n > 0, "C19-5", "in-bounds/"+sp.name, pos, fmt.Sprintf("all %d memory accesses through a pointer parameter stay inside the pointed-to object", n), "out-of-bounds access: "+strings.Join(bad, "; "))
		}
		// alignment: Go guarantees only the natural (8-byte) alignment of the table / output types, so an
		// instruction that faults on a memory operand that is not 16-byte aligned behaves differently from the Go twin
		{
			var lines []string
			for _, a := range f.AlignedAccesses {
				lines = append(lines, fmt.Sprintf("line %d (%s+%#x)", a.Line, a.Base, a.Off))
			}
			c.R.Decide(len(lines) == 0, "C19-4", "alignment/"+sp.name, pos, "no instruction requires more than the 8-byte alignment Go guarantees for the operands (all 128-bit memory accesses are unaligned moves)", "instructions that fault unless their memory operand is 16-byte aligned, which Go does not guarantee for these types: "+strings.Join(lines, ", "))
		}
		c.R.Decide(!f.IdxFlowsToGPRStore && len(f.Calls) == 0, "C19-5", "no-call-no-gpr-leak/"+sp.name, pos, "no CALL, idx is never stored", "CALL or store of idx-derived general register")
		if an.Incomplete != "" {
			continue
		}
		// Go layout
		pkgT := asm.ByPath[models.Mod].Types
		et := pkgT.Scope().Lookup(sp.tblType).Type()
		st := et.Underlying().(*types.Struct)
		var fields []*types.Var
		for i := 0; i < st.NumFields(); i++ {
			fields = append(fields, st.Field(i))
		}
		offs := sizes.Offsetsof(fields)
		stride := sizes.Sizeof(et)
		coordOff := map[string]int64{}
		coordEnd := int64(0)
		for i, fv := range fields {
			for _, cn := range sp.coords {
				if fv.Name() == cn {
					coordOff[cn] = offs[i]
					if e := offs[i] + sizes.Sizeof(fv.Type()); e > coordEnd {
						coordEnd = e
					}
				}
			}
		}
		// reference run: the Go twin on a symbolic table, for each idx
		set := fieldSet()
		for k := 0; k <= 15; k++ {
			key := fmt.Sprintf("equiv/%s/idx=%d", sp.name, k)
			stores, err := an.Specialise(uint32(k))
			if err != nil {
				c.R.Fail("C19-2", key, pos, "stored value is not a single table limb or constant: "+err.Error())
				continue
			}
			// assemble the byte image the assembly writes: offset -> lane
			img := map[int64]asmx.Lane{}
			okFoot := true
			for _, s := range stores {
				if s.Base != "out" || s.Off < 0 || s.Off+int64(s.Width) > coordEnd {
					okFoot = false
				}
				for li, l := range s.Lanes {
					img[s.Off+int64(4*li)] = l
				}
			}
			if !okFoot {
				c.R.Fail("C19-4", key+"/footprint", pos, fmt.Sprintf("assembly writes outside the coordinate bytes out+[0,%d)", coordEnd))
			}
			r := RunFn(pure, set, models.Mod+"."+sp.name, &RunOpts{Args: []ArgSpec{{Alias: -1, SameSymsAs: -1}, {Alias: -1, SameSymsAs: -1}, {Alias: -1, SameSymsAs: -1, Val: sym.ConstI(int64(k))}},
				Pre: func(ex *absint.Exec, st *absint.State, args []absint.Val) {
					if !sp.identityY {
						// the affine reference leaves `out` untouched for idx 0; its only caller passes a
						// zero-valued local (checked below), so the comparison is made under that precondition
						o := args[1].(*absint.Ptr)
						z := ex.Alloc(o.Obj.Typ, "out", nil, absint.Origin{Kind: "param", Root: "out"})
						args[1] = z
					}
				}})
			if !r.OK() {
				c.R.Unknown("C19-2", key, pos, "reference run incomplete: "+r.Problem())
				continue
			}
			// the assembly cannot panic: neither may the portable twin, whatever the table holds (the table entries are
			// raw coordinates whose validity flag is never set)
			if len(r.Ex.Panics) > 0 {
				p0 := r.Ex.Panics[0]
				c.R.Fail("C19-2", key+"/no-panic", PosStr(pure, p0.Pos), fmt.Sprintf("the portable routine can panic (%s) when {%s}; the assembly routine never does", p0.Msg, GuardString(p0.Guard)))
				continue
			}
			mismatch := ""
			for ci, cn := range sp.coords {
				fi := FieldIndex(pure, models.Mod, sp.tblType, cn)
				want, _ := r.FieldOf(1, fi).(*sym.Term)
				if want == nil {
					mismatch = "reference coordinate " + cn + " is not a term"
					break
				}
				// expected lanes of this coordinate
				for l := int64(0); l < 8; l++ {
					lane, ok := img[coordOff[cn]+4*l]
					if !ok {
						mismatch = fmt.Sprintf("assembly does not write out.%s lane %d", cn, l)
						break
					}
					switch {
					case want.Op == "s": // a table entry symbol "*tbl[j].coord"
						wantName := fmt.Sprintf("*tbl[%d].%s", k-1, cn)
						if want.S != wantName {
							mismatch = fmt.Sprintf("reference selects %s for idx %d", want.S, k)
						} else if lane.IsConst || lane.Base != "tbl" || lane.Off != int64(k-1)*stride+coordOff[cn]+4*l {
							mismatch = fmt.Sprintf("out.%s lane %d: assembly stores %s, reference stores tbl[%d].%s (tbl+%#x)", cn, l, laneString(lane), k-1, cn, int64(k-1)*stride+coordOff[cn]+4*l)
						}
					case want.IsConst():
						// Montgomery representation of the constant
						repr := new(big.Int).Mul(want.C, rModP)
						repr.Mod(repr, sym.P)
						w := new(big.Int).Rsh(repr, uint(32*l))
						w.And(w, big.NewInt(0xffffffff))
						if !lane.IsConst || uint64(lane.Const) != w.Uint64() {
							mismatch = fmt.Sprintf("out.%s lane %d: assembly stores %s, reference stores the constant %s (Montgomery limb %#x)", cn, l, laneString(lane), want.C, w.Uint64())
						}
					default:
						mismatch = "reference value has unexpected shape: " + want.String()
					}
					if mismatch != "" {
						break
					}
				}
				_ = ci
				if mismatch != "" {
					break
				}
			}
			if mismatch != "" {
				c.R.Fail("C19-2", key, pos, mismatch)
			} else {
				c.R.OK("C19-2", key, pos, fmt.Sprintf("all %d coordinate lanes equal the reference (entry %d)", 8*len(sp.coords), k-1))
				if k == 0 || k == 7 {
					c.R.Sample(map[string]interface{}{"routine": sp.name, "idx": k, "assembly_stores": len(stores), "reference": "pure-Go twin on symbolic table"})
				}
			}
		}
		// layout constants
		c.R.Decide(coordEnd <= stride, "C19-3", "layout/"+sp.name, pos, fmt.Sprintf("sizeof(%s) = %#x, coordinates end at %d", sp.tblType, stride, coordEnd), "layout inconsistent")
	}
	c.R.Floor("C19-2", 32)
	c.R.Floor("C19-5", 6)
	c19AffineOutZero(c, asm)
	c19FlagUnobservable(c, pure)
}

func laneString(l asmx.Lane) string {
	if l.IsConst {
		return fmt.Sprintf("const %#x", l.Const)
	}
	return fmt.Sprintf("load %s+%#x", l.Base, l.Off)
}

// c19FlagUnobservable: the reference sets isValid on its output temporary, the
// assembly does not; the only consumer never reads it.
func c19FlagUnobservable(c *Ctx, prog *load.Program) {
	validIdx := FieldIndex(prog, models.Mod, "Point", "isValid")
	sa := absint.FindFunc(prog.SSA, "(*"+models.Mod+".projectivePointMultTable).SelectAndAdd")
	ac := absint.FindFunc(prog.SSA, Method(models.PointType, "addComplete"))
	if sa == nil || ac == nil {
		c.R.Unknown("C19-4", "flag-unobservable", "", "anchors not found")
		return
	}
	ok := true
	why := "SelectAndAdd passes the lookup output only to addComplete, which never reads isValid"
	for _, b := range sa.Blocks {
		for _, in := range b.Instrs {
			call, isCall := in.(*ssa.Call)
			if !isCall {
				continue
			}
			callee := call.Common().StaticCallee()
			if callee == nil {
				ok, why = false, "dynamic call in SelectAndAdd"
				continue
			}
			switch callee.Name() {
			case "lookupProjectivePoint", "addComplete", "newRcvr":
			default:
				ok, why = false, "SelectAndAdd calls "+callee.Name()
			}
		}
	}
	for _, b := range ac.Blocks {
		for _, in := range b.Instrs {
			if fa, isFA := in.(*ssa.FieldAddr); isFA && fa.Field == validIdx && isNamedPtr(fa.X.Type(), models.PointType) {
				ok, why = false, "addComplete accesses isValid"
			}
		}
	}
	c.R.Decide(ok, "C19-4", "flag-unobservable", PosOf(prog, sa), why, why)
}

// c19CallSites: every index passed to a lookup is a 4-bit window of a byte.
func c19CallSites(c *Ctx, prog *load.Program) {
	n := 0
	for _, fn := range ModuleFuncs(prog) {
		for _, b := range fn.Blocks {
			for _, in := range b.Instrs {
				call, ok := in.(*ssa.Call)
				if !ok {
					continue
				}
				callee := call.Common().StaticCallee()
				if callee == nil || callee.Name() != "SelectAndAdd" {
					continue
				}
				n++
				idx := call.Common().Args[len(call.Common().Args)-1] // the window is the last operand
				// the equivalence of the two lookups is established for the indices 0..15 (rule C19-2); beyond that the
				// 32-bit lane comparison of the assembly and the 64-bit comparison of the portable routine may differ.
				// A small range analysis bounds the index at every call site.
				bound, known := ssaUpperBound(prog, idx, 0)
				good := known && bound <= 15
				c.R.Decide(good, "C19-5", fmt.Sprintf("window-is-nibble/%s#%d", fn.Name(), n), PosStr(prog, call.Pos()), fmt.Sprintf("index <= %d: a 4-bit window (range analysis of the index expression)", bound), fmt.Sprintf("lookup index is not provably a 4-bit window (bound %d, known %v)", bound, known))
			}
		}
	}
}

// ssaUpperBound: an upper bound of an unsigned SSA value from its type, masks, shifts, conversions, phis and - for
// parameters of functions that are only called directly - the arguments at every call site.
// localArrayBound: arr is a local array (an Alloc of array type, or a slice of one / a MakeSlice) used only through
// element addresses that are loaded from or stored to; the bound is the largest bound of a stored value.
func localArrayBound(prog *load.Program, arr ssa.Value, depth int) (uint64, bool) {
	var roots []ssa.Value
	switch a := arr.(type) {
	case *ssa.Alloc:
		roots = []ssa.Value{a}
	case *ssa.MakeSlice:
		roots = []ssa.Value{a}
	case *ssa.Slice:
		if al, ok := a.X.(*ssa.Alloc); ok {
			roots = []ssa.Value{al}
		} else {
			return 0, false
		}
	default:
		return 0, false
	}
	var m uint64
	seen := map[ssa.Value]bool{}
	for len(roots) > 0 {
		r := roots[0]
		roots = roots[1:]
		if seen[r] {
			continue
		}
		seen[r] = true
		refs := r.Referrers()
		if refs == nil {
			return 0, false
		}
		for _, u := range *refs {
			switch x := u.(type) {
			case *ssa.IndexAddr:
				if x.X != r {
					return 0, false
				}
				for _, uu := range *x.Referrers() {
					switch y := uu.(type) {
					case *ssa.Store:
						if y.Addr != ssa.Value(x) {
							return 0, false // the element address itself is stored somewhere
						}
						b, ok := ssaUpperBound(prog, y.Val, depth+1)
						if !ok {
							return 0, false
						}
						if b > m {
							m = b
						}
					case *ssa.UnOp, *ssa.DebugRef:
					default:
						return 0, false
					}
				}
			case *ssa.Slice:
				if x.X != r {
					return 0, false
				}
				roots = append(roots, x)
			case *ssa.DebugRef:
			default:
				return 0, false // escapes (passed to a call, stored, converted, captured)
			}
		}
	}
	return m, true
}

// fieldArrayBound: the elements of an array-typed field of a struct type declared in the module are bounded by the
// largest value stored into that field's elements anywhere in the module, provided every use of the field's address is
// an element load or store (field-based, flow-insensitive; whole-struct copies carry values that obey the same bound;
// the zero value is 0).
func fieldArrayBound(prog *load.Program, fa *ssa.FieldAddr, depth int) (uint64, bool) {
	pt, ok := fa.X.Type().Underlying().(*types.Pointer)
	if !ok {
		return 0, false
	}
	st, ok := pt.Elem().Underlying().(*types.Struct)
	if !ok {
		return 0, false
	}
	if _, isArr := st.Field(fa.Field).Type().Underlying().(*types.Array); !isArr {
		return 0, false
	}
	if nt, isNamed := pt.Elem().(*types.Named); !isNamed || nt.Obj().Pkg() == nil || !load.IsModulePkg(nt.Obj().Pkg().Path()) {
		return 0, false
	}
	var m uint64
	for _, g := range ModuleFuncs(prog) {
		for _, b := range g.Blocks {
			for _, in := range b.Instrs {
				switch x := in.(type) {
				case *ssa.FieldAddr:
					xp, isP := x.X.Type().Underlying().(*types.Pointer)
					if !isP || x.Field != fa.Field || !types.Identical(xp.Elem(), pt.Elem()) {
						continue
					}
					for _, u := range *x.Referrers() {
						switch y := u.(type) {
						case *ssa.IndexAddr:
							for _, uu := range *y.Referrers() {
								switch z := uu.(type) {
								case *ssa.Store:
									if z.Addr != ssa.Value(y) {
										return 0, false
									}
									bd, ok := ssaUpperBound(prog, z.Val, depth+1)
									if !ok {
										return 0, false
									}
									if bd > m {
										m = bd
									}
								case *ssa.UnOp, *ssa.DebugRef:
								default:
									return 0, false
								}
							}
						case *ssa.UnOp, *ssa.DebugRef:
							// the whole array read
						default:
							return 0, false // sliced, passed on, assigned as a whole
						}
					}
				}
			}
		}
	}
	return m, true
}

func ssaUpperBound(prog *load.Program, v ssa.Value, depth int) (uint64, bool) {
	typeMax := func(t types.Type) (uint64, bool) {
		if b, ok := t.Underlying().(*types.Basic); ok {
			switch b.Kind() {
			case types.Uint8:
				return 1<<8 - 1, true
			case types.Uint16:
				return 1<<16 - 1, true
			case types.Uint32:
				return 1<<32 - 1, true
			case types.Bool:
				return 1, true
			}
		}
		return 0, false
	}
	if depth > 6 {
		return typeMax(v.Type())
	}
	best, have := typeMax(v.Type())
	tighten := func(b uint64, ok bool) {
		if ok && (!have || b < best) {
			best, have = b, true
		}
	}
	switch x := v.(type) {
	case *ssa.Const:
		if x.Value != nil {
			if u := x.Uint64(); x.Int64() >= 0 {
				return u, true
			}
		}
	case *ssa.Convert:
		tighten(ssaUpperBound(prog, x.X, depth+1))
	case *ssa.ChangeType:
		tighten(ssaUpperBound(prog, x.X, depth+1))
	case *ssa.BinOp:
		switch x.Op.String() {
		case "&":
			tighten(ssaUpperBound(prog, x.X, depth+1))
			tighten(ssaUpperBound(prog, x.Y, depth+1))
		case ">>":
			if k, isC := x.Y.(*ssa.Const); isC && k.Value != nil && k.Int64() >= 0 && k.Int64() < 64 {
				if b, ok := ssaUpperBound(prog, x.X, depth+1); ok {
					tighten(b>>uint(k.Int64()), true)
				}
			}
		case "%":
			if k, isC := x.Y.(*ssa.Const); isC && k.Value != nil && k.Int64() > 0 {
				tighten(uint64(k.Int64())-1, true)
			}
		}
	case *ssa.Phi:
		var m uint64
		all := true
		for _, e := range x.Edges {
			if e == ssa.Value(x) {
				continue
			}
			b, ok := ssaUpperBound(prog, e, depth+1)
			if !ok {
				all = false
				break
			}
			if b > m {
				m = b
			}
		}
		if all {
			tighten(m, true)
		}
	case *ssa.UnOp:
		// a load: the element type bounds it (already in typeMax); an element of a local array (or of a local slice
		// made in the function) that does not escape is bounded by the largest value ever stored into it (0 initially)
		if x.Op == token.MUL {
			if ia, isIA := x.X.(*ssa.IndexAddr); isIA {
				if m, ok := localArrayBound(prog, ia.X, depth); ok {
					tighten(m, true)
				} else if fa, isFA := ia.X.(*ssa.FieldAddr); isFA {
					if m, ok := fieldArrayBound(prog, fa, depth); ok {
						tighten(m, true)
					}
				}
			}
		}
	case *ssa.Call:
		// the result of a module function with a single result: the largest value any of its returns can yield
		if callee := x.Call.StaticCallee(); callee != nil && callee.Blocks != nil && callee.Pkg != nil && load.IsModulePkg(callee.Pkg.Pkg.Path()) && callee.Signature.Results().Len() == 1 {
			var m uint64
			all, rets := true, 0
			for _, b := range callee.Blocks {
				for _, in := range b.Instrs {
					if ret, isRet := in.(*ssa.Return); isRet && len(ret.Results) == 1 {
						rets++
						bd, ok := ssaUpperBound(prog, ret.Results[0], depth+1)
						if !ok {
							all = false
						} else if bd > m {
							m = bd
						}
					}
				}
			}
			if all && rets > 0 {
				tighten(m, true)
			}
		}
	case *ssa.Parameter:
		fn := x.Parent()
		pi := -1
		for i, p := range fn.Params {
			if p == x {
				pi = i
			}
		}
		if pi < 0 || token.IsExported(fn.Name()) && fn.Parent() == nil && fn.Signature.Recv() == nil {
			break
		}
		var m uint64
		sites, all := 0, true
		for _, g := range ModuleFuncs(prog) {
			for _, b := range g.Blocks {
				for _, in := range b.Instrs {
					call, isCall := in.(ssa.CallInstruction)
					if !isCall {
						// the function used as a value (other than as the operand of a closure that is only called)
						if mc, isMC := in.(*ssa.MakeClosure); isMC && mc.Fn == ssa.Value(fn) {
							continue
						}
						for _, op := range in.Operands(nil) {
							if op != nil && *op == ssa.Value(fn) {
								all = false
							}
						}
						continue
					}
					com := call.Common()
					target := com.StaticCallee()
					if target == nil {
						if mc, isMC := com.Value.(*ssa.MakeClosure); isMC {
							target, _ = mc.Fn.(*ssa.Function)
						}
					}
					if target != fn {
						continue
					}
					sites++
					ai := pi
					if com.IsInvoke() || ai >= len(com.Args) {
						all = false
						continue
					}
					bd, ok := ssaUpperBound(prog, com.Args[ai], depth+1)
					if !ok {
						all = false
						continue
					}
					if bd > m {
						m = bd
					}
				}
			}
		}
		if all && sites > 0 {
			tighten(m, true)
		}
	}
	return best, have
}

// c19AffineOutZero: the only caller of lookupAffinePoint passes a fresh zero-valued local as `out`.
func c19AffineOutZero(c *Ctx, prog *load.Program) {
	n := 0
	for _, fn := range ModuleFuncs(prog) {
		for _, b := range fn.Blocks {
			for _, in := range b.Instrs {
				call, ok := in.(*ssa.Call)
				if !ok {
					continue
				}
				callee := call.Common().StaticCallee()
				if callee == nil || callee.Name() != "lookupAffinePoint" {
					continue
				}
				n++
				al, isAlloc := call.Common().Args[1].(*ssa.Alloc)
				good := isAlloc
				if isAlloc {
					// no store into the local may precede the call
					for _, r := range *al.Referrers() {
						for _, u := range derefRefs2(r) {
							if st, isStore := u.(*ssa.Store); isStore && st.Block() == call.Block() && instrIndex(st) < instrIndex(call) {
								good = false
							}
							if cc, isCall := u.(*ssa.Call); isCall && cc != call && cc.Block() == call.Block() && instrIndex(cc) < instrIndex(call) {
								good = false
							}
						}
					}
				}
				c.R.Decide(good, "C19-2", fmt.Sprintf("affine-out-is-zero/%s", fn.Name()), PosStr(prog, call.Pos()), "`out` is a fresh zero-valued local at the call (precondition of the idx=0 comparison)", "`out` may be non-zero when lookupAffinePoint is called: assembly (writes 0) and reference (keeps out) then differ for idx 0")
			}
		}
	}
	c.R.Decide(n >= 1, "C19-2", "affine-call-sites", "", fmt.Sprintf("%d call site(s) of lookupAffinePoint", n), "no call site of lookupAffinePoint found")
}

func derefRefs2(in ssa.Instruction) []ssa.Instruction {
	v, ok := in.(ssa.Value)
	if !ok {
		return []ssa.Instruction{in}
	}
	switch in.(type) {
	case *ssa.FieldAddr, *ssa.IndexAddr, *ssa.ChangeType:
		var out []ssa.Instruction
		if refs := v.Referrers(); refs != nil {
			for _, r := range *refs {
				out = append(out, derefRefs2(r)...)
			}
		}
		return out
	}
	return []ssa.Instruction{in}
}

func instrIndex(in ssa.Instruction) int {
	for i, x := range in.Block().Instrs {
		if x == in {
			return i
		}
	}
	return -1
}
