package rules

import (
	"fmt"
	"go/token"
	"go/types"
	"path/filepath"
	"sort"
	"strings"

	"golang.org/x/tools/go/ssa"

	"verif/internal/check"
	"verif/internal/effects"
	"verif/internal/load"
	"verif/internal/models"
)

func init() { register("C20", "other", checkC20) }

var publicPkgs = []string{models.Mod, models.SececPkg, models.BitcoinPkg, models.H2cPkg}

// apiEntryPoints lists the exported functions and the exported methods of exported types of the public packages.
func apiEntryPoints(prog *load.Program) []*ssa.Function {
	var out []*ssa.Function
	for _, pp := range publicPkgs {
		sp := prog.SSAPkgs[pp]
		if sp == nil {
			continue
		}
		for _, name := range SortedKeys(sp.Members) {
			switch m := sp.Members[name].(type) {
			case *ssa.Function:
				if token.IsExported(name) {
					out = append(out, m)
				}
			case *ssa.Type:
				if !token.IsExported(name) {
					continue
				}
				for _, t := range []types.Type{m.Type(), types.NewPointer(m.Type())} {
					ms := prog.SSA.MethodSets.MethodSet(t)
					for i := 0; i < ms.Len(); i++ {
						f := prog.SSA.MethodValue(ms.At(i))
						if f != nil && token.IsExported(f.Name()) {
							out = append(out, f)
						}
					}
				}
			}
		}
	}
	sort.Slice(out, func(i, j int) bool { return out[i].String() < out[j].String() })
	return out
}

func checkC20(c *Ctx) {
	var progs []*load.Program
	if c.AsDep {
		// as the bottom layer of another property: the configurations that property's own rules loaded
		c.Prog(load.AMD64)
		progs = c.Progs()
	} else {
		progs = []*load.Program{c.Prog(load.AMD64), c.Prog(load.Purego)}
		if c.Thorough() {
			progs = append(progs, c.Prog(load.ARM64))
		}
	}
	for _, prog := range progs {
		c20Config(c, prog)
	}
	if !c.AsDep {
		c20Control(c)
	}
	c.R.Explanation = "A data race needs a write to shared memory.  A bottom-up may-write analysis over go/ssa (origins of every pointer-like value: parameter, free variable, package-level variable, fresh allocation; loads keep the origin of the memory they read; call results may alias any argument; callee summaries applied at call sites; library functions by a table, unknown callees write everything they receive) is run on every function of the module in both amd64 build configurations.  (1) No function reachable from the exported API (static calls, method values, function literals) may write memory reachable from any package-level variable of the module - all of them are enumerated; writes inside package initialisers, and inside function literals run under sync.Once, are initialisation.  (2) For every exported function and method of the public packages, the written parameters must be within what the API shape allows: setter-style methods of Element / Scalar / Point (those returning their receiver) may write the receiver only; every other method and every package-level function may write no pointer-like parameter (user-supplied readers excepted).  (3) No reachable function contains a go statement, a channel operation or a sync / atomic call, so all temporaries are goroutine-local.  Determinism under concurrency follows: results depend only on arguments and on package-level data that is never written after initialisation.  A fixture with an unsynchronised lazily built table, a shared scratch buffer, a memoising getter and a goroutine is loaded on every run and must be flagged, its sync.Once twin and its pure getter must not."
	c.R.Assumptions = []string{"the Go memory model: package initialisation happens before any importer's code; sync.Once publication is race free", "crypto/rand.Reader and the hash constructors of the standard library are safe for concurrent use", "user-supplied io.Readers are the caller's responsibility", "go/ssa; the may-write analysis is field-insensitive (an over-approximation)"}
}

func c20Config(c *Ctx, prog *load.Program) {
	cfg := prog.Config.Name
	funcs := ModuleFuncs(prog)
	an := effects.Analyse(funcs, load.IsModulePkg)
	entries := apiEntryPoints(prog)
	reach := an.Reachable(entries)
	// ---- rule 1: package-level state
	nGlobals := 0
	written := map[*ssa.Global][]string{}
	var rfuncs []*ssa.Function
	for f := range reach {
		rfuncs = append(rfuncs, f)
	}
	sort.Slice(rfuncs, func(i, j int) bool { return rfuncs[i].String() < rfuncs[j].String() })
	for _, f := range rfuncs {
		s := an.Sum[f]
		if s == nil {
			continue
		}
		for _, g := range s.SortedGlobals() {
			if !load.IsModulePkg(g.Pkg.Pkg.Path()) {
				continue
			}
			w := s.WritesGlob[g]
			written[g] = append(written[g], fmt.Sprintf("%s at %s (%s)", shortFn(f), PosStr(prog, w.Pos), w.What))
		}
	}
	// objects that are made to point into package-level memory: if some function stores a pointer into the memory of
	// package-level variable g in an object of module type T (or returns such an object), every write through an operand of
	// type T may be a write to g (the heap abstraction is per type here: which T-object holds the pointer is not tracked)
	typeGlobals := map[string]map[*ssa.Global]string{}
	typeKey := func(t types.Type) string {
		if p, ok := t.Underlying().(*types.Pointer); ok {
			if nt, isN := p.Elem().(*types.Named); isN && nt.Obj().Pkg() != nil && load.IsModulePkg(nt.Obj().Pkg().Path()) {
				return nt.Obj().Pkg().Path() + "." + nt.Obj().Name()
			}
		}
		return ""
	}
	noteGlobal := func(t types.Type, g *ssa.Global, who string) {
		k := typeKey(t)
		if k == "" || g == nil || !load.IsModulePkg(g.Pkg.Pkg.Path()) {
			return
		}
		if typeGlobals[k] == nil {
			typeGlobals[k] = map[*ssa.Global]string{}
		}
		if _, ok := typeGlobals[k][g]; !ok {
			typeGlobals[k][g] = who
		}
	}
	for _, f := range funcs {
		s := an.Sum[f]
		if s == nil || f.Blocks == nil {
			continue
		}
		for i, st := range s.StoresInto {
			if i < len(f.Params) {
				for _, o := range effects.SortedOrigins(st) {
					if o.Kind == "global" {
						noteGlobal(f.Params[i].Type(), o.Global, shortFn(f))
					}
				}
			}
		}
		for r, rd := range s.RetDeep {
			if r < f.Signature.Results().Len() {
				for _, o := range effects.SortedOrigins(rd) {
					if o.Kind == "global" {
						noteGlobal(f.Signature.Results().At(r).Type(), o.Global, shortFn(f))
					}
				}
			}
		}
	}
	if len(typeGlobals) > 0 {
		for _, f := range rfuncs {
			s := an.Sum[f]
			if s == nil {
				continue
			}
			for i, w := range s.WritesParam {
				if i >= len(f.Params) {
					continue
				}
				k := typeKey(f.Params[i].Type())
				for g, who := range typeGlobals[k] {
					written[g] = append(written[g], fmt.Sprintf("%s at %s (writes through a %s, which %s makes point into this variable)", shortFn(f), PosStr(prog, w.Pos), k, who))
				}
			}
		}
		for g := range written {
			sort.Strings(written[g])
		}
	}
	for _, pkg := range prog.Pkgs {
		sp := prog.SSAPkgs[pkg.PkgPath]
		if sp == nil {
			continue
		}
		for _, name := range SortedKeys(sp.Members) {
			g, ok := sp.Members[name].(*ssa.Global)
			if !ok || strings.HasPrefix(name, "init$") {
				continue
			}
			nGlobals++
			key := fmt.Sprintf("global/%s.%s@%s", strings.TrimPrefix(pkg.PkgPath, models.Mod), name, cfg)
			if ws := written[g]; len(ws) > 0 {
				c.R.Fail("C20-1", key, PosStr(prog, g.Pos()), "package-level state is written after initialisation by a function reachable from the API: "+strings.Join(firstN(ws, 3), "; "))
			} else {
				c.R.OK("C20-1", key, PosStr(prog, g.Pos()), "no function reachable from the API writes memory reachable from this variable")
			}
		}
	}
	c.R.Floor("C20-1", 80)
	// ---- rule 2: read-only operands
	nOb := 0
	for _, f := range entries {
		s := an.Sum[f]
		if s == nil || f.Blocks == nil {
			continue
		}
		allowed := map[int]bool{}
		if recv := f.Signature.Recv(); recv != nil {
			rt := namedOf(recv.Type())
			if (rt == models.ElementType || rt == models.ScalarType || rt == models.PointType) && f.Signature.Results().Len() >= 1 && types.Identical(f.Signature.Results().At(0).Type(), recv.Type()) {
				allowed[0] = true // setter-style: returns its receiver
			}
		}
		for i, p := range f.Params {
			if !pointerLikeType(p.Type()) {
				continue
			}
			if _, isI := p.Type().Underlying().(*types.Interface); isI {
				continue // io.Reader, crypto.SignerOpts, crypto.PublicKey: caller-supplied behaviour
			}
			if allowed[i] {
				continue
			}
			nOb++
			key := fmt.Sprintf("read-only/%s/%s@%s", shortFn(f), p.Name(), cfg)
			if w, bad := s.WritesParam[i]; bad {
				c.R.Fail("C20-2", key, PosStr(prog, w.Pos), "an operand that must be read-only may be written: "+w.What)
			} else {
				c.R.OK("C20-2", key, PosOf(prog, f), "not in the may-write set")
			}
		}
	}
	c.R.Floor("C20-2", 100)
	// ---- rule 4: shared objects own their memory
	c20Owns(c, prog, an, entries, cfg)
	// ---- rule 3: no concurrency constructs
	bad := 0
	for _, f := range rfuncs {
		if s := an.Sum[f]; s != nil {
			for _, w := range s.Concurrency {
				bad++
				c.R.Fail("C20-3", fmt.Sprintf("concurrency/%s@%s", shortFn(f), cfg), PosStr(prog, w.Pos), "a function reachable from the API uses "+w.What)
			}
		}
	}
	if bad == 0 {
		c.R.OK("C20-3", "concurrency@"+cfg, "", fmt.Sprintf("%d functions reachable from %d API entry points contain no go statement, channel operation or sync/atomic call", len(rfuncs), len(entries)))
	}
	c.R.Extra["globals@"+cfg] = nGlobals
	c.R.Extra["reachable_functions@"+cfg] = len(rfuncs)
	c.R.Extra["read_only_operands@"+cfg] = nOb
}

func pointerLikeType(t types.Type) bool {
	switch t.Underlying().(type) {
	case *types.Pointer, *types.Slice, *types.Map, *types.Interface:
		return true
	}
	return false
}

// c20Control runs the rules on the checker's fixture: the marked constructs must be flagged, their safe twins not.
func c20Control(c *Ctx) {
	dir := filepath.Join(check.VerifDir(), "fixtures", "c20")
	if _, err := filepath.Abs(dir); err != nil {
		c.R.ControlResult("C20-1", "fixture", "fixture directory missing", false)
		return
	}
	// the fixture lives next to the checker sources (VERIF_DIR may point at a scratch evidence directory)
	for _, d := range []string{dir, "/verif/fixtures/c20"} {
		prog, pkgs, err := load.LoadDir(d)
		if err != nil || len(pkgs) == 0 {
			continue
		}
		var funcs []*ssa.Function
		var fixture *ssa.Package
		for _, p := range pkgs {
			if p != nil && p.Pkg.Path() == "fixture" {
				fixture = p
			}
		}
		if fixture == nil {
			continue
		}
		_ = prog
		var add func(f *ssa.Function)
		add = func(f *ssa.Function) {
			funcs = append(funcs, f)
			for _, a := range f.AnonFuncs {
				add(a)
			}
		}
		var entries []*ssa.Function
		for _, name := range SortedKeys(fixture.Members) {
			switch m := fixture.Members[name].(type) {
			case *ssa.Function:
				add(m)
				if token.IsExported(name) {
					entries = append(entries, m)
				}
			case *ssa.Type:
				ms := prog.MethodSets.MethodSet(types.NewPointer(m.Type()))
				for i := 0; i < ms.Len(); i++ {
					if f := prog.MethodValue(ms.At(i)); f != nil {
						add(f)
						entries = append(entries, f)
					}
				}
			}
		}
		an := effects.Analyse(funcs, func(p string) bool { return p == "fixture" })
		reach := an.Reachable(entries)
		wrote := map[string]bool{}
		conc := false
		for f := range reach {
			if s := an.Sum[f]; s != nil {
				for g := range s.WritesGlob {
					wrote[g.Name()] = true
				}
				if len(s.Concurrency) > 0 {
					conc = true
				}
			}
		}
		getterWrites, pureWrites := false, false
		for _, f := range entries {
			if s := an.Sum[f]; s != nil {
				if _, w := s.WritesParam[0]; w && f.Name() == "Bytes" {
					getterWrites = true
				}
				if _, w := s.WritesParam[0]; w && f.Name() == "Value" {
					pureWrites = true
				}
			}
		}
		c.R.ControlResult("C20-1", "fixture/unsynchronised-lazy-table", "the lazily built package-level table must be reported as written", wrote["table"])
		c.R.ControlResult("C20-1", "fixture/shared-scratch", "the shared scratch buffer must be reported as written", wrote["scratch"])
		c.R.ControlResult("C20-1", "fixture/sync-once-not-flagged", "initialisation under sync.Once must not be reported", !wrote["onceTable"])
		c.R.ControlResult("C20-2", "fixture/memoising-getter", "a getter that caches into its receiver must be reported", getterWrites)
		c.R.ControlResult("C20-2", "fixture/pure-getter-not-flagged", "a pure getter must not be reported", !pureWrites)
		c.R.ControlResult("C20-3", "fixture/goroutine", "a go statement must be reported", conc)
		notOwned := map[string]bool{}
		for _, f := range entries {
			if s := an.Sum[f]; s != nil {
				for _, o := range effects.SortedOrigins(s.RetDeep[0]) {
					if o.Kind == "param" || o.Kind == "global" {
						notOwned[f.Name()] = true
					}
				}
			}
		}
		c.R.ControlResult("C20-4", "fixture/constructor-keeps-caller-buffer", "a constructor that stores (a slice of) its argument must be reported", notOwned["NewKView"])
		c.R.ControlResult("C20-4", "fixture/getter-returns-cached-slice", "a getter handing out its cached slice must be reported", notOwned["Enc"])
		c.R.ControlResult("C20-4", "fixture/package-level-bytes", "a function handing out package-level bytes must be reported", notOwned["Shared"])
		c.R.ControlResult("C20-4", "fixture/copies-not-flagged", "copying constructors and getters must not be reported", !notOwned["NewKCopy"] && !notOwned["EncCopy"])
		return
	}
	c.R.ControlResult("C20-1", "fixture", "the positive-control fixture could not be loaded", false)
}

// c20Owns: every object the API hands out, and every object it fills in, owns the memory reachable from it.  A key, point or
// byte string that several goroutines read is race free only if nobody else can write its memory: it must not point into a
// caller's buffer (the caller is free to reuse that buffer), into package-level state (every caller gets the same bytes), or -
// unless it is an immutable key object - into another shared object.  Decided on the may-alias summaries of the effect analysis:
// for every exported function and method of the public packages and every pointer-like result other than `error`, the origins of
// all memory reachable from the result; for every method, the origins of the pointers stored into its receiver.
func c20Owns(c *Ctx, prog *load.Program, an *effects.Analysis, entries []*ssa.Function, cfg string) {
	errT := types.Universe.Lookup("error").Type()
	keyTypes := map[string]bool{models.SececPkg + ".PrivateKey": true, models.SececPkg + ".PublicKey": true, models.BitcoinPkg + ".SchnorrPrivateKey": true, models.BitcoinPkg + ".SchnorrPublicKey": true}
	isKey := func(t types.Type) bool {
		if p, ok := t.Underlying().(*types.Pointer); ok {
			t = p.Elem()
		}
		return keyTypes[namedOf(t)]
	}
	// the one function whose documented purpose is to return a window into its argument: it takes a caller's byte string and
	// splits it, no object of the library is involved (inside the library its result is copied before it is stored or
	// returned - that is decided at those call sites, through this very summary)
	views := map[string]bool{models.Mod + ".SplitUncompressedPoint": true}
	n := 0
	for _, f := range entries {
		s := an.Sum[f]
		if s == nil || f.Blocks == nil {
			continue
		}
		recv := f.Signature.Recv()
		res := f.Signature.Results()
		for r := 0; r < res.Len(); r++ {
			rt := res.At(r).Type()
			if !pointerLikeType(rt) && !structHoldsPointers(rt) {
				continue
			}
			if types.Identical(rt, errT) {
				continue
			}
			n++
			key := fmt.Sprintf("owns/%s/result%d@%s", shortFn(f), r, cfg)
			setter := recv != nil && types.Identical(rt, recv.Type()) && !isKey(rt)
			var bad []string
			for _, o := range effects.SortedOrigins(s.RetDeep[r]) {
				switch o.Kind {
				case "fresh":
				case "param":
					if o.Index == 0 && recv != nil && (setter || isKey(recv.Type()) && (isKey(rt) || isIface(rt))) {
						// setter-style methods return their receiver; a key object may hand out the immutable key objects it holds
						continue
					}
					if views[f.String()] && recv == nil {
						continue
					}
					bad = append(bad, "parameter "+f.Params[o.Index].Name())
				case "global":
					bad = append(bad, "package-level "+o.Global.Name())
				default:
					bad = append(bad, o.Kind)
				}
			}
			if len(bad) > 0 {
				c.R.Fail("C20-4", key, PosOf(prog, f), "memory reachable from the result is not owned by it: it may be (part of) "+strings.Join(bad, ", ")+" - a later write by that owner, or through this result, is seen by every goroutine sharing either")
			} else {
				c.R.OK("C20-4", key, PosOf(prog, f), "everything reachable from the result is freshly allocated (or is the receiver itself / an immutable key object it holds)")
			}
		}
		if recv != nil {
			var bad []string
			for _, o := range effects.SortedOrigins(s.StoresInto[0]) {
				switch o.Kind {
				case "fresh":
				case "param":
					bad = append(bad, "parameter "+f.Params[o.Index].Name())
				case "global":
					bad = append(bad, "package-level "+o.Global.Name())
				}
			}
			if len(bad) > 0 {
				n++
				c.R.Fail("C20-4", fmt.Sprintf("owns/%s/receiver@%s", shortFn(f), cfg), PosOf(prog, f), "the receiver is made to point into memory it does not own: "+strings.Join(bad, ", "))
			}
		}
	}
	c.R.Extra["owned_results@"+cfg] = n
	c.R.Floor("C20-4", 60)
}

func isIface(t types.Type) bool {
	_, ok := t.Underlying().(*types.Interface)
	return ok
}

func structHoldsPointers(t types.Type) bool {
	switch u := t.Underlying().(type) {
	case *types.Struct:
		for i := 0; i < u.NumFields(); i++ {
			if pointerLikeType(u.Field(i).Type()) || structHoldsPointers(u.Field(i).Type()) {
				return true
			}
		}
	case *types.Array:
		return pointerLikeType(u.Elem()) || structHoldsPointers(u.Elem())
	}
	return false
}
